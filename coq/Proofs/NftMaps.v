(* Generic facts used by the NFT proofs: association lists with a key equality that
   reflects Leibniz equality, least_ge, the reference map rget, counters. *)
From SC Require Import Lib.Prelude Lib.Int Lib.Host Model.Nft Run.NftCommon.
Local Open Scope N_scope.

(* ---------- association lists ---------- *)
Section AMapFacts.
  Context {K V : Type} (keqb : K -> K -> bool).
  Context (keqb_spec : forall a b, keqb a b = true <-> a = b).

  Lemma keqb_refl a : keqb a a = true.
  Proof. apply keqb_spec. reflexivity. Qed.
  Lemma keqb_neq a b : a <> b -> keqb a b = false.
  Proof. intros H. destruct (keqb a b) eqn:E; auto. apply keqb_spec in E. contradiction. Qed.

  Lemma aget_arem_eq k (l : list (K * V)) : aget keqb k (arem keqb k l) = None.
  Proof.
    induction l as [|[k' v] r IH]; cbn [arem aget]; auto.
    destruct (keqb k k') eqn:E; auto. cbn [aget]. rewrite E. exact IH.
  Qed.
  Lemma aget_arem_neq k k' (l : list (K * V)) : k <> k' ->
    aget keqb k (arem keqb k' l) = aget keqb k l.
  Proof.
    intros Hn. induction l as [|[k2 v] r IH]; cbn [arem aget]; auto.
    destruct (keqb k' k2) eqn:E.
    - apply keqb_spec in E. subst k2. rewrite (keqb_neq _ _ Hn). exact IH.
    - cbn [aget]. destruct (keqb k k2); auto.
  Qed.
  Lemma aget_aset_eq k v (l : list (K * V)) : aget keqb k (aset keqb k v l) = Some v.
  Proof. unfold aset. cbn [aget]. rewrite keqb_refl. reflexivity. Qed.
  Lemma aget_aset_neq k k' v (l : list (K * V)) : k <> k' ->
    aget keqb k (aset keqb k' v l) = aget keqb k l.
  Proof.
    intros Hn. unfold aset. cbn [aget]. rewrite (keqb_neq _ _ Hn). apply aget_arem_neq; exact Hn.
  Qed.
  Lemma aget_aset k k' v (l : list (K * V)) :
    aget keqb k (aset keqb k' v l) = if keqb k k' then Some v else aget keqb k l.
  Proof.
    destruct (keqb k k') eqn:E.
    - apply keqb_spec in E. subst. apply aget_aset_eq.
    - apply aget_aset_neq. intros ->. rewrite keqb_refl in E. discriminate.
  Qed.
  Lemma aget_arem k k' (l : list (K * V)) :
    aget keqb k (arem keqb k' l) = if keqb k k' then None else aget keqb k l.
  Proof.
    destruct (keqb k k') eqn:E.
    - apply keqb_spec in E. subst. apply aget_arem_eq.
    - apply aget_arem_neq. intros ->. rewrite keqb_refl in E. discriminate.
  Qed.
End AMapFacts.

Lemma Neqb_spec : forall a b : N, (a =? b) = true <-> a = b.
Proof. intros. apply N.eqb_eq. Qed.
Lemma peqb_spec : forall a b : N * N, peqb a b = true <-> a = b.
Proof.
  intros [a1 a2] [b1 b2]. unfold peqb. cbn [fst snd]. rewrite andb_true_iff, !N.eqb_eq.
  split; [intros [-> ->]; reflexivity | intros H; inversion H; auto].
Qed.

Lemma memN_In x l : memN x l = true <-> In x l.
Proof.
  unfold memN. rewrite existsb_exists. split.
  - intros [y [Hy E]]. apply N.eqb_eq in E. subst. exact Hy.
  - intros H. exists x. split; auto. apply N.eqb_refl.
Qed.
Lemma memN_false x l : memN x l = false <-> ~ In x l.
Proof. rewrite <- memN_In. destruct (memN x l); split; intros; try discriminate; auto. exfalso; auto. Qed.

(* ---------- least_ge ---------- *)
Lemma least_ge_some l lo m : least_ge l lo = Some m ->
  In m l /\ lo <= m /\ forall x, In x l -> lo <= x -> m <= x.
Proof.
  revert m. induction l as [|a r IH]; cbn [least_ge]; intros m H; [discriminate|].
  destruct (lo <=? a) eqn:E.
  - apply N.leb_le in E. destruct (least_ge r lo) as [m'|] eqn:E2.
    + inversion H; subst m; clear H. destruct (IH m' eq_refl) as [Hin [Hlo Hmin]].
      split; [|split].
      * destruct (N.min_spec a m') as [[_ ->]|[_ ->]]; [left; reflexivity | right; exact Hin].
      * lia.
      * intros x [->|Hx] Hx2; [lia|]. specialize (Hmin x Hx Hx2). lia.
    + inversion H; subst m; clear H. split; [left; reflexivity|]. split; [exact E|].
      intros x [->|Hx] Hx2; [lia|].
      (* no element of r is >= lo *)
      exfalso. clear IH E. induction r as [|b r' IHr]; [destruct Hx|].
      cbn [least_ge] in E2. destruct (lo <=? b) eqn:Eb.
      * destruct (least_ge r' lo); discriminate.
      * destruct Hx as [->|Hx]; [apply N.leb_gt in Eb; lia | exact (IHr E2 Hx)].
  - apply N.leb_gt in E. destruct (IH m H) as [Hin [Hlo Hmin]].
    split; [right; exact Hin|]. split; [exact Hlo|].
    intros x [->|Hx] Hx2; [lia | exact (Hmin x Hx Hx2)].
Qed.
Lemma least_ge_none l lo : least_ge l lo = None -> forall x, In x l -> x < lo.
Proof.
  induction l as [|a r IH]; cbn [least_ge]; intros H x Hx; [destruct Hx|].
  destruct (lo <=? a) eqn:E.
  - destruct (least_ge r lo); discriminate.
  - apply N.leb_gt in E. destruct Hx as [->|Hx]; [exact E | exact (IH H x Hx)].
Qed.
(* characterisation *)
Lemma least_ge_intro l lo m :
  In m l -> lo <= m -> (forall x, In x l -> lo <= x -> m <= x) -> least_ge l lo = Some m.
Proof.
  intros Hin Hlo Hmin. destruct (least_ge l lo) as [m'|] eqn:E.
  - destruct (least_ge_some _ _ _ E) as [Hin' [Hlo' Hmin']].
    specialize (Hmin m' Hin' Hlo'). specialize (Hmin' m Hin Hlo). f_equal. lia.
  - pose proof (least_ge_none _ _ E m Hin). lia.
Qed.

(* ---------- res monad inversion ---------- *)
Lemma bind_ok {A B} (r : res A) (f : A -> res B) b :
  bind r f = Ok b -> exists a, r = Ok a /\ f a = Ok b.
Proof. destruct r as [a|]; cbn; intros H; [exists a; auto | discriminate]. Qed.
Lemma guard_ok b u : guard b = Ok u -> b = true.
Proof. destruct b; cbn; intros; [reflexivity | discriminate]. Qed.
Lemma of_option_ok {A} (o : option A) a : of_option o = Ok a -> o = Some a.
Proof. destruct o; cbn; intros H; inversion H; reflexivity. Qed.

Ltac inv_res H :=
  repeat match type of H with
  | bind (guard _) _ = Ok _ =>
      let u := fresh "u" in let G := fresh "G" in
      apply bind_ok in H; destruct H as [u [G H]]; apply guard_ok in G
  | bind (of_option _) _ = Ok _ =>
      let x := fresh "x" in let G := fresh "G" in
      apply bind_ok in H; destruct H as [x [G H]]; apply of_option_ok in G
  | bind _ _ = Ok _ =>
      let x := fresh "x" in let G := fresh "G" in
      apply bind_ok in H; destruct H as [x [G H]]
  | Ok _ = Ok _ => inversion H; clear H
  | Fail = Ok _ => discriminate H
  end.

(* ---------- the reference map ---------- *)
Lemma rget_point r i o id : rget (LPoint i o :: r) id = if id =? i then o else rget r id.
Proof. reflexivity. Qed.
Lemma rget_range r lo hi a id :
  rget (LRange lo hi a :: r) id = if (lo <=? id) && (id <=? hi) then Some a else rget r id.
Proof. reflexivity. Qed.

(* ---------- counters ---------- *)
Lemma cnt_add_get g a k b : cnt (cnt_add g a k) b = if b =? a then cnt g a + k else cnt g b.
Proof.
  unfold cnt_add, cnt at 1. rewrite (aget_aset N.eqb Neqb_spec).
  destruct (b =? a); reflexivity.
Qed.
Lemma cnt_sub_get g a k b : cnt (cnt_sub g a k) b = if b =? a then cnt g a - k else cnt g b.
Proof.
  unfold cnt_sub, cnt at 1. rewrite (aget_aset N.eqb Neqb_spec).
  destruct (b =? a); reflexivity.
Qed.
