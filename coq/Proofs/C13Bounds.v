(* C13: consequences of "votes = delegated units": a delegate's voting power covers the units of
   each of its delegators and never exceeds the vote supply. *)
From SC Require Import Lib.Prelude Lib.Int Lib.Host Model.Votes
  Proofs.VotesTimeline Proofs.VotesState Proofs.VotesRun.
Open Scope Z_scope.

Lemma sumf_nonneg f U : (forall a, 0 <= f a) -> 0 <= sumf f U.
Proof. intros H. induction U as [|x U IH]; [cbn; lia|]. rewrite sumf_cons. pose proof (H x). lia. Qed.

Lemma sumf_ge_term f U x : (forall a, 0 <= f a) -> In x U -> f x <= sumf f U.
Proof.
  intros H. induction U as [|y U IH]; intros Hin; [destruct Hin|]. rewrite sumf_cons.
  destruct Hin as [->|Hin].
  - pose proof (sumf_nonneg f U H). lia.
  - pose proof (H y). specialize (IH Hin). lia.
Qed.

Lemma sumf_le f g U : (forall a, f a <= g a) -> sumf f U <= sumf g U.
Proof. intros H. induction U as [|x U IH]; [cbn; lia|]. rewrite !sumf_cons. pose proof (H x). lia. Qed.

Theorem votes_bounds_final : forall (h : header) (U : list addr) (cs : list (list addr * call)),
  0 <= h_start h -> NoDup U ->
  (forall ac, In ac cs -> forall a, In a (call_addrs (snd ac)) -> In a U) ->
  let v := s_v (run h (init h) cs) in
  (forall a d, delegate_of v a = Some d ->
     exists x, get_votes v d = Ok x /\ 0 <= units_of v a <= x) /\
  (forall d, exists x y, get_votes v d = Ok x /\ get_total_supply v = Ok y /\ 0 <= x <= y).
Proof.
  intros h U cs H0 Hnd Hin v. pose proof (inv_reachable h U cs H0 Hnd Hin) as I. fold v in I.
  set (s := run h (init h) cs) in *.
  assert (Hnn : forall d a, 0 <= ind (oaddr_eqb (delegate_of v a) (Some d)) (units_of v a)).
  { intros d a. unfold ind. pose proof (inv_units_nonneg U s I a). fold v in H. destruct (oaddr_eqb _ _); lia. }
  split.
  - intros a d Hd. exists (votes_of v d). split; [unfold get_votes; rewrite tl_latest_ok; reflexivity|].
    pose proof (inv_units_nonneg U s I a) as Hu. fold v in Hu. split; [exact Hu|].
    destruct (in_dec N.eq_dec a U) as [HaU|HaU].
    + unfold v. rewrite (inv_votes U s I d). fold v.
      pose proof (sumf_ge_term (fun a => ind (oaddr_eqb (delegate_of v a) (Some d)) (units_of v a)) U a (Hnn d) HaU) as G.
      cbv beta in G. rewrite Hd, oaddr_eqb_refl in G. cbn [ind] in G. exact G.
    + pose proof (inv_outside U s I a HaU) as Hz. fold v in Hz. rewrite Hz.
      unfold v. rewrite (inv_votes U s I d). fold v. apply sumf_nonneg. apply Hnn.
  - intros d. exists (votes_of v d), (supply_of v).
    split; [unfold get_votes; rewrite tl_latest_ok; reflexivity|].
    split; [unfold get_total_supply; rewrite tl_latest_ok; reflexivity|].
    unfold v. rewrite (inv_votes U s I d), (inv_supply U s I). fold v. split.
    + apply sumf_nonneg. apply Hnn.
    + apply sumf_le. intros a. unfold ind. pose proof (inv_units_nonneg U s I a) as Hu. fold v in Hu.
      destruct (oaddr_eqb _ _); lia.
Qed.
