(* C13: the monitor of Run/C13.v accepts every run of the model, and the model agrees with itself. *)
From SC Require Import Lib.Prelude Lib.Int Lib.Host Model.Votes
  Proofs.VotesBasic Proofs.VotesTimeline Proofs.VotesState Proofs.VotesRun Proofs.VotesHistory Run.C13.
From Coq Require Import FinFun.
Open Scope Z_scope.

(* ---------- reflexivity of the comparison functions ---------- *)
Lemma eqb_list_refl {A} (f : A -> A -> bool) (l : list A) : (forall x, f x x = true) -> eqb_list f l l = true.
Proof. intros H. induction l as [|x l IH]; [reflexivity|]. cbn [eqb_list]. rewrite H, IH. reflexivity. Qed.
Lemma eqb_oz_refl a : eqb_oz a a = true.
Proof. destruct a; cbn; auto using Z.eqb_refl. Qed.
Lemma eqb_zz_refl a : eqb_zz a a = true.
Proof. unfold eqb_zz. rewrite !Z.eqb_refl. reflexivity. Qed.
Lemma eqb_out_refl a : eqb_out a a = true.
Proof. destruct a; cbn; auto using Z.eqb_refl. Qed.
Lemma eqb_acct_refl a : eqb_acct a a = true.
Proof. unfold eqb_acct. rewrite !Z.eqb_refl, oaddr_eqb_refl, (eqb_list_refl _ _ eqb_zz_refl). reflexivity. Qed.
Lemma eqb_past_refl a : eqb_past a a = true.
Proof. unfold eqb_past. rewrite Z.eqb_refl, (eqb_list_refl _ _ eqb_oz_refl). reflexivity. Qed.
Lemma eqb_obs_refl a : eqb_obs a a = true.
Proof.
  unfold eqb_obs. rewrite !Z.eqb_refl, (eqb_list_refl _ _ eqb_acct_refl), !(eqb_list_refl _ _ eqb_zz_refl),
    (eqb_list_refl _ _ oaddr_eqb_refl), (eqb_list_refl _ _ eqb_past_refl). reflexivity.
Qed.

Lemma queries_observe h s qs : queries (observe h s qs) = qs.
Proof.
  unfold queries, observe. cbn [o_past]. rewrite map_map. unfold observe_past. cbn [fst].
  induction qs as [|q qs IH]; [reflexivity|]. cbn [map]. rewrite IH. reflexivity.
Qed.

Lemma diff_accepts_model h ins : h_db h = false -> forall s i, diff_from h s (run_model h s ins) i = 0%N.
Proof.
  intros Hd. induction ins as [|[[au c] qs] ins IH]; intros s i; [reflexivity|].
  cbn [run_model diff_from]. unfold step_any. rewrite Hd.
  rewrite queries_observe, eqb_out_refl, eqb_obs_refl. cbn [andb]. apply IH.
Qed.

(* ---------- the universe of observed accounts ---------- *)
Lemma accounts_NoDup n : NoDup (accounts n).
Proof.
  unfold accounts. apply Injective_map_NoDup; [|apply seq_NoDup].
  intros x y H. apply Nnat.Nat2N.inj. exact H.
Qed.
Lemma accounts_In n a : In a (accounts n) <-> (a < N.of_nat n)%N.
Proof.
  unfold accounts. rewrite in_map_iff. split.
  - intros [k [<- Hk]]. apply in_seq in Hk. lia.
  - intros H. exists (N.to_nat a). split; [apply Nnat.N2Nat.id|]. apply in_seq. lia.
Qed.
Lemma accounts_length n : length (accounts n) = n.
Proof. unfold accounts. rewrite map_length, seq_length. reflexivity. Qed.

Definition wf_input (n : nat) (i : input) : bool :=
  forallb (fun a => N.ltb a (N.of_nat n)) (call_addrs (snd (fst i))).
(* a u32 start ledger, and the token is wired as the library intends (burns go through FungibleVotes::burn) *)
Definition wf_header (h : header) : bool := (0 <=? h_start h) && negb (h_db h).

(* ---------- what the model's observation contains ---------- *)
Definition curvec (h : header) (s : state) : list Z :=
  map (fun a => votes_of (s_v s) a) (accounts (h_n h)) ++ [supply_of (s_v s)].
Definition pastvec (h : header) (s : state) (q : Z) : list Z :=
  map (fun a => lookup_spec q (tl_of (s_v s) a)) (accounts (h_n h)) ++ [lookup_spec q (v_ts (s_v s))].

Lemma rz_get_votes v a : rz (get_votes v a) = votes_of v a.
Proof. unfold get_votes. rewrite tl_latest_ok. reflexivity. Qed.
Lemma rz_get_total_supply v : rz (get_total_supply v) = supply_of v.
Proof. unfold get_total_supply. rewrite tl_latest_ok. reflexivity. Qed.

Lemma cur_vector_observe h s qs : cur_vector (observe h s qs) = curvec h s.
Proof.
  unfold cur_vector, observe, curvec. cbn [o_accts o_ts]. rewrite map_map. rewrite rz_get_total_supply. f_equal.
  apply map_ext. intros a. unfold observe_acct. cbn [ao_votes]. apply rz_get_votes.
Qed.

Lemma observe_past_lt h s q : winv s -> q < s_now s ->
  observe_past h s q = (q, map Some (pastvec h s q)).
Proof.
  intros [_ W] Hq. unfold observe_past, pastvec. f_equal. rewrite map_app, map_map. cbn [map]. f_equal.
  - apply map_ext. intros a. unfold get_votes_at. rewrite lookup_past_ok; [reflexivity|apply (W (CAcct a))|exact Hq].
  - unfold get_total_supply_at. rewrite lookup_past_ok; [reflexivity|apply (W CTotal)|exact Hq].
Qed.

Lemma observe_past_ge h s q : s_now s <= q ->
  observe_past h s q = (q, map (fun _ => None) (accounts (h_n h)) ++ [None]).
Proof.
  intros Hq. unfold observe_past. f_equal. f_equal.
  - apply map_ext. intros a. destruct (future_refused (s_now s) (s_v s) a q Hq) as [-> _]. reflexivity.
  - destruct (future_refused (s_now s) (s_v s) 0%N q Hq) as [_ ->]. reflexivity.
Qed.

(* ---------- the ghost history of the monitor ---------- *)
Lemma hist_push_lookup now v hist q :
  hist_lookup q (hist_push now v hist) = if now <=? q then Some v else hist_lookup q hist.
Proof.
  unfold hist_push. destruct hist as [|[l w] r].
  - cbn [hist_lookup]. destruct (now <=? q); reflexivity.
  - destruct (l =? now) eqn:E.
    + apply Z.eqb_eq in E. subst l. cbn [hist_lookup]. destruct (now <=? q); reflexivity.
    + cbn [hist_lookup]. destruct (now <=? q); reflexivity.
Qed.

(* hist describes s: past ledgers answer like the timelines of s, later ones like its current values *)
Definition hinv (h : header) (hist : history) (s : state) : Prop :=
  forall q, expected_past q hist (S (h_n h)) = if q <? s_now s then pastvec h s q else curvec h s.

Lemma zeros_snoc (l : list addr) : map (fun _ : addr => 0) l ++ [0] = repeat 0 (S (length l)).
Proof. induction l as [|x l IH]; [reflexivity|]. cbn [map app length]. rewrite IH. reflexivity. Qed.

Lemma hinv_init h : hinv h [] (init h).
Proof.
  intros q. unfold expected_past. cbn [hist_lookup].
  assert (Z0 : map (fun _ : addr => 0) (accounts (h_n h)) ++ [0] = repeat 0 (S (h_n h)))
    by (rewrite zeros_snoc, accounts_length; reflexivity).
  assert (E1 : pastvec h (init h) q = repeat 0 (S (h_n h))) by (rewrite <- Z0; reflexivity).
  assert (E2 : curvec h (init h) = repeat 0 (S (h_n h))) by (rewrite <- Z0; reflexivity).
  rewrite E1, E2. destruct (q <? s_now (init h)); reflexivity.
Qed.

(* one step later: what hist (still describing s) says about the past of s' *)
Lemma hist_describes_next h hist s s' c : winv s -> hinv h hist s -> shape c s s' ->
  forall q, q < s_now s' -> expected_past q hist (S (h_n h)) = pastvec h s' q.
Proof.
  intros W Hh Sh q Hq. destruct W as [H0 W].
  destruct (shape_rel c s s' H0 Sh) as [Hn [[Xa Xt] Hv]].
  rewrite Hh. destruct (q <? s_now s) eqn:E.
  - apply Z.ltb_lt in E. unfold pastvec. f_equal.
    + apply map_ext. intros a. symmetry. apply (Xa a). exact E.
    + f_equal. symmetry. apply Xt. exact E.
  - apply Z.ltb_ge in E. unfold curvec, pastvec. rewrite Hv by lia. f_equal.
    + apply map_ext. intros a. unfold votes_of. symmetry. apply lookup_spec_head.
      destruct (W (CAcct a)) as [_ [Hh' _]]. cbn [get_tl] in Hh'. lia.
    + f_equal. unfold supply_of. symmetry. apply lookup_spec_head.
      destruct (W CTotal) as [_ [Hh' _]]. cbn [get_tl] in Hh'. lia.
Qed.

Lemma hinv_step h hist s s' c : winv s -> hinv h hist s -> shape c s s' ->
  hinv h (hist_push (s_now s') (curvec h s') hist) s'.
Proof.
  intros W Hh Sh q. unfold expected_past. rewrite hist_push_lookup.
  destruct (q <? s_now s') eqn:E.
  - apply Z.ltb_lt in E. replace (s_now s' <=? q) with false by (symmetry; apply Z.leb_gt; lia).
    apply (hist_describes_next h hist s s' c W Hh Sh q E).
  - apply Z.ltb_ge in E. replace (s_now s' <=? q) with true by (symmetry; apply Z.leb_le; lia). reflexivity.
Qed.

(* ---------- the individual checks of the monitor on a model state ---------- *)
Lemma last_default_irrelevant {A} (m : list A) z p p' : last (z :: m) p = last (z :: m) p'.
Proof. revert z. induction m as [|y m IH]; intros z; [reflexivity|]. cbn [last] in *. apply IH. Qed.
Lemma last_cons_default {A} (m : list A) y p : last (y :: m) p = last m y.
Proof. destruct m as [|z m]; [reflexivity|]. cbn [last]. apply last_default_irrelevant. Qed.

Lemma cps_sorted_app p l x v :
  cps_sorted p (l ++ [(x, v)]) = cps_sorted p l && (last (map fst l) p <? x).
Proof.
  revert p. induction l as [|[y w] l IH]; intros p.
  - cbn. rewrite andb_true_r. reflexivity.
  - cbn [app cps_sorted map fst]. rewrite IH. rewrite last_cons_default. rewrite andb_assoc. reflexivity.
Qed.

Lemma last_view t p : last (map fst (cps_view t)) p = match t with [] => p | c :: _ => cp_ledger c end.
Proof.
  unfold cps_view. destruct t as [|c r]; [reflexivity|]. cbn [rev]. rewrite !map_app. cbn [map fst].
  apply last_last.
Qed.

Lemma cps_sorted_view t : sorted t -> cps_sorted (-1) (cps_view t) = true.
Proof.
  induction t as [|c r IH]; intros Hs; [reflexivity|].
  destruct Hs as [H1 H2]. unfold cps_view. cbn [rev]. rewrite map_app. cbn [map].
  rewrite cps_sorted_app. fold (cps_view r). rewrite (IH H2). cbn [andb]. rewrite last_view.
  apply Z.ltb_lt. destruct r; cbn [head_ledger] in H1; lia.
Qed.

Lemma cps_ok_view now t : tl_wf now t -> cps_ok now (latest t) (cps_view t) = true.
Proof.
  intros [Hs [Hh _]]. unfold cps_ok. rewrite (cps_sorted_view t Hs). cbn [andb].
  unfold cps_view. rewrite <- map_rev, rev_involutive.
  destruct t as [|c r]; cbn [map latest head_ledger] in *; [reflexivity|].
  rewrite Z.eqb_refl, andb_true_r. apply Z.leb_le. exact Hh.
Qed.

Lemma delegated_to_model s U d :
  delegated_to (map (observe_acct s) U) d =
  sumf (fun a => ind (oaddr_eqb (delegate_of (s_v s) a) (Some d)) (units_of (s_v s) a)) U.
Proof. unfold delegated_to, sumf. rewrite map_map. reflexivity. Qed.

Lemma votes_ok_from_model s U : inv U s ->
  forall m k, votes_ok_from (map (observe_acct s) U) (map (observe_acct s) (map N.of_nat (seq k m))) k = true.
Proof.
  intros I. induction m as [|m IH]; intros k; [reflexivity|].
  cbn [seq map votes_ok_from]. rewrite IH, andb_true_r.
  unfold observe_acct at 1. cbn [ao_votes]. rewrite rz_get_votes, delegated_to_model.
  apply Z.eqb_eq. apply (inv_votes U s I).
Qed.

(* the checkpoint list shown (oldest first) answers like the timeline (newest first) *)
Lemma lookup_list_app q l x v acc :
  lookup_list q (l ++ [(x, v)]) acc = if x <=? q then v else lookup_list q l acc.
Proof.
  revert acc. induction l as [|[y w] l IH]; intros acc; [reflexivity|].
  cbn [app lookup_list]. destruct (y <=? q); apply IH.
Qed.
Lemma lookup_list_view q t : lookup_list q (cps_view t) 0 = lookup_spec q t.
Proof.
  induction t as [|c r IH]; [reflexivity|]. unfold cps_view. cbn [rev]. rewrite map_app. cbn [map].
  rewrite lookup_list_app. fold (cps_view r). rewrite IH. reflexivity.
Qed.
Lemma list_answers_observe h s qs q : list_answers q (observe h s qs) = pastvec h s q.
Proof.
  unfold list_answers, pastvec, observe. cbn [o_accts o_ts_cps]. rewrite map_map. f_equal.
  - apply map_ext. intros a. unfold observe_acct. cbn [ao_cps]. apply lookup_list_view.
  - f_equal. apply lookup_list_view.
Qed.

Lemma and7 a b c d e f g : a = true -> b = true -> c = true -> d = true -> e = true -> f = true -> g = true ->
  a && b && c && d && e && f && g = true.
Proof. intros; subst; reflexivity. Qed.

Lemma mon_obs_model h hist s s' c qs :
  inv (accounts (h_n h)) s' -> winv s -> hinv h hist s -> shape c s s' ->
  mon_obs (s_now s) hist (observe h s' qs) = true.
Proof.
  intros I W Hh Sh.
  assert (W' : winv s').
  { destruct W as [H0 W]. destruct (shape_rel c s s' H0 Sh) as [Hn [Hx _]]. split; [lia|].
    intros ct. eapply tl_wf_mono; [exact Hn|]. eapply tl_wf_ext; [apply vext_get_tl; exact Hx|apply W]. }
  destruct (shape_rel c s s' (proj1 W) Sh) as [Hn _].
  unfold mon_obs. cbn [o_accts o_now o_ts o_ts_cps o_past observe].
  rewrite map_length, accounts_length.
  apply and7.
  - apply Z.leb_le. exact Hn.
  - rewrite forallb_forall. intros ao Hin. apply in_map_iff in Hin. destruct Hin as [a [<- _]].
    unfold observe_acct. cbn [ao_units ao_bal]. apply Z.eqb_eq. apply (inv_units_bal _ s' I).
  - exact (votes_ok_from_model s' _ I (h_n h) 0%nat).
  - rewrite rz_get_total_supply. apply Z.eqb_eq. rewrite (inv_supply _ s' I). unfold sumf. rewrite map_map. reflexivity.
  - rewrite forallb_forall. intros ao Hin. apply in_map_iff in Hin. destruct Hin as [a [<- _]].
    unfold observe_acct. cbn [ao_votes ao_cps]. rewrite rz_get_votes. unfold votes_of.
    apply cps_ok_view. apply (proj2 W' (CAcct a)).
  - rewrite rz_get_total_supply. unfold supply_of. apply cps_ok_view. apply (proj2 W' CTotal).
  - rewrite forallb_forall. intros p Hin. apply in_map_iff in Hin. destruct Hin as [q [<- _]].
    destruct (Z.lt_ge_cases q (s_now s')) as [Hq|Hq].
    + rewrite (observe_past_lt h s' q W' Hq). unfold past_ok.
      replace (q <? s_now s') with true by (symmetry; apply Z.ltb_lt; exact Hq).
      rewrite (hist_describes_next h hist s s' c W Hh Sh q Hq).
      change (observe_past h s') with (observe_past h s'). 
      match goal with |- context [list_answers q ?o] => replace (list_answers q o) with (pastvec h s' q) by (symmetry; apply (list_answers_observe h s' qs q)) end.
      rewrite (eqb_list_refl _ _ eqb_oz_refl). reflexivity.
    + rewrite (observe_past_ge h s' q Hq). unfold past_ok.
      replace (q <? s_now s') with false by (symmetry; apply Z.ltb_ge; exact Hq).
      rewrite app_length, map_length, accounts_length. cbn [length].
      replace (h_n h + 1)%nat with (S (h_n h)) by lia. rewrite Nat.eqb_refl. cbn [andb].
      rewrite forallb_app. cbn [forallb is_none andb]. rewrite andb_true_r.
      rewrite forallb_forall. intros o Ho. apply in_map_iff in Ho. destruct Ho as [a [<- _]]. reflexivity.
Qed.

(* ---------- the main induction ---------- *)
Lemma wf_input_in n i : wf_input n i = true -> forall a, In a (call_addrs (snd (fst i))) -> In a (accounts n).
Proof.
  unfold wf_input. rewrite forallb_forall. intros H a Ha. apply accounts_In. apply N.ltb_lt. apply H. exact Ha.
Qed.

(* an Advance or a failing call leaves every current-state getter as it was *)
Definition core (o : obs) := (o_accts o, o_supply o, o_ts o, o_ts_cps o, o_owners o).

Lemma core_eqb_of_eq a b : core a = core b -> core_eqb a b = true.
Proof.
  unfold core, core_eqb. intros H. inversion H as [[H1 H2 H3 H4 H5]]. rewrite H1, H2, H3, H4, H5.
  rewrite !Z.eqb_refl, (eqb_list_refl _ _ eqb_acct_refl), (eqb_list_refl _ _ eqb_zz_refl),
    (eqb_list_refl _ _ oaddr_eqb_refl). reflexivity.
Qed.

Lemma core_with_now h s n qs qs0 : core (observe h (with_now s n) qs) = core (observe h s qs0).
Proof. reflexivity. Qed.

Lemma step_stable h s au c : is_advance c || negb (is_ok (snd (step h s au c))) = true ->
  forall qs qs0, core (observe h (fst (step h s au c)) qs) = core (observe h s qs0).
Proof.
  unfold step. intros H qs qs0. destruct (is_fungible (h_kind h)).
  - destruct (step_f h s au c) as [[s' r]|] eqn:E; cbn [fst snd is_ok negb] in *; [|reflexivity].
    rewrite orb_false_r in H. destruct c; try discriminate. cbn [step_f] in E. inv_bind E. inv_guards.
    apply core_with_now.
  - destruct (step_n h s au c) as [[s' r]|] eqn:E; cbn [fst snd is_ok negb] in *; [|reflexivity].
    rewrite orb_false_r in H. destruct c; try discriminate. unfold step_n in E. inv_bind E. inv_guards.
    apply core_with_now.
Qed.

Lemma map_const_repeat {A B} (b : B) (l : list A) : map (fun _ => b) l = repeat b (length l).
Proof. induction l as [|x l IH]; [reflexivity|]. cbn [map length repeat]. rewrite IH. reflexivity. Qed.

(* the observation of a freshly deployed contract is the empty observation *)
Lemma core_empty_obs h qs : core (empty_obs h) = core (observe h (init h) qs).
Proof.
  unfold core, empty_obs, observe. cbn [o_accts o_supply o_ts o_ts_cps o_owners].
  replace (map (observe_acct (init h)) (accounts (h_n h))) with (repeat (mkA 0 0 None 0 []) (h_n h)).
  2:{ rewrite <- (accounts_length (h_n h)) at 1. rewrite <- map_const_repeat. apply map_ext. intros a. reflexivity. }
  replace (map (fun i : nat => owner_of (init h) (Z.of_nat i)) (seq 0 (h_ids h))) with (repeat (@None addr) (h_ids h)).
  2:{ rewrite <- (seq_length (h_ids h) 0) at 1. rewrite <- map_const_repeat. apply map_ext. intros a. reflexivity. }
  reflexivity.
Qed.

(* delegatees change only by the account's own successful delegate call *)
Lemma step_delegate_frame h s au c : 0 <= s_now s -> forall k,
  delegate_of (s_v (fst (step h s au c))) k =
  match c with
  | Delegate a d => if is_ok (snd (step h s au c)) && N.eqb k a then Some d else delegate_of (s_v s) k
  | _ => delegate_of (s_v s) k
  end.
Proof.
  intros H0 k.
  assert (G : (forall a d, c <> Delegate a d) -> delegate_of (s_v (fst (step h s au c))) k = delegate_of (s_v s) k).
  { intros Hc. destruct (step_shape h s au c) as [Hn Hv Hb|from to amt Hamt Hn Ht Hb Hft|auths acc d Hn Hd Hb Hacc].
    - rewrite Hv. reflexivity.
    - assert (Hne : amt <> 0) by lia. destruct (tvu_spec _ _ _ _ _ _ H0 Hne Ht) as [T1 _]. apply T1.
    - exfalso. apply (Hc acc d). exact Hacc. }
  destruct c; try (apply G; intros; discriminate).
  unfold step. destruct (is_fungible (h_kind h)).
  - cbn [step_f]. destruct (delegate (s_now s) au (s_v s) account delegatee) as [v|] eqn:E; cbn [bind fst snd is_ok andb s_v with_v].
    + destruct (delegate_spec _ _ _ _ _ _ H0 E) as [_ [_ [D3 _]]]. apply D3.
    + reflexivity.
  - unfold step_n. cbn [call_arg]. replace (in_u32 0) with true by reflexivity. cbn [guard bind].
    destruct (delegate (s_now s) au (s_v s) account delegatee) as [v|] eqn:E; cbn [bind fst snd is_ok andb s_v with_v].
    + destruct (delegate_spec _ _ _ _ _ _ H0 E) as [_ [_ [D3 _]]]. apply D3.
    + reflexivity.
Qed.

(* the ledger moves exactly by the amount of a successful Advance *)
Lemma step_now h s au c :
  s_now (fst (step h s au c)) = s_now s + clock_step c (snd (step h s au c)).
Proof.
  assert (G : (forall n, c <> Advance n) -> s_now (fst (step h s au c)) = s_now s).
  { intros Hc. destruct (step_shape h s au c) as [Hn Hv Hb [Hc'|[n0 Hc']]|from to amt Hamt Hn Ht Hb Hft|auths acc d Hn Hd Hb Hacc]; auto.
    exfalso. apply (Hc n0). exact Hc'. }
  destruct c as [n| | | | | | | |]; try (cbn [clock_step]; rewrite G by (intros; discriminate); lia).
  unfold step. destruct (is_fungible (h_kind h)).
  - cbn [step_f]. destruct ((0 <=? n) && in_u32 (s_now s + n)); cbn [guard bind fst snd is_ok clock_step s_now with_now]; lia.
  - unfold step_n. cbn [call_arg]. replace (in_u32 0) with true by reflexivity. cbn [guard bind].
    destruct ((0 <=? n) && in_u32 (s_now s + n)); cbn [guard bind fst snd is_ok clock_step s_now with_now]; lia.
Qed.

Lemma nth_error_accounts n k : (k < n)%nat -> nth_error (accounts n) k = Some (N.of_nat k).
Proof.
  intros H. unfold accounts. apply map_nth_error.
  rewrite (nth_error_nth' (seq 0 n) 0%nat) by (rewrite seq_length; exact H). rewrite seq_nth by exact H. reflexivity.
Qed.

Lemma prev_dlg_model h s prev :
  o_accts prev = map (observe_acct s) (accounts (h_n h)) ->
  forall k, (k < h_n h)%nat -> prev_dlg prev k = delegate_of (s_v s) (N.of_nat k).
Proof.
  intros Hp k Hk. unfold prev_dlg. rewrite Hp.
  rewrite (map_nth_error (observe_acct s) k (accounts (h_n h)) (nth_error_accounts _ _ Hk)). reflexivity.
Qed.

Lemma dlg_ok_from_model h s au c prev :
  0 <= s_now s ->
  (forall k, (k < h_n h)%nat -> prev_dlg prev k = delegate_of (s_v s) (N.of_nat k)) ->
  forall m k, (k + m <= h_n h)%nat ->
  dlg_ok_from prev c (snd (step h s au c))
    (map (observe_acct (fst (step h s au c))) (map N.of_nat (seq k m))) k = true.
Proof.
  intros H0 Hp. induction m as [|m IH]; intros k Hk; [reflexivity|].
  cbn [seq map dlg_ok_from]. rewrite IH by lia. rewrite andb_true_r.
  unfold observe_acct at 1. cbn [ao_dlg]. apply oaddr_eqb_eq.
  rewrite (step_delegate_frame h s au c H0). unfold dlg_expected. rewrite (Hp k) by lia.
  destruct c; reflexivity.
Qed.

(* no call rewrites the past of a checkpoint list *)
Lemma cps_frame_model now t t' : (forall q, q < now -> lookup_spec q t' = lookup_spec q t) ->
  cps_frame_ok now (cps_view t) (cps_view t') = true.
Proof.
  intros H. unfold cps_frame_ok. rewrite forallb_forall. intros q Hq. rewrite !lookup_list_view.
  apply Z.eqb_eq. symmetry. apply H.
  unfold frame_cands in Hq. apply in_app_or in Hq. destruct Hq as [Hq|[<-|[]]]; [|lia].
  apply filter_In in Hq. destruct Hq as [_ Hq]. apply Z.ltb_lt in Hq. exact Hq.
Qed.

Lemma past_frame c s s' : winv s -> shape c s s' ->
  forall ct q, q < s_now s' -> lookup_spec q (get_tl (s_v s') ct) = lookup_spec q (get_tl (s_v s) ct).
Proof.
  intros [H0 W] Sh ct q Hq. destruct (shape_rel c s s' H0 Sh) as [Hn [Hx Hv]].
  destruct (Z.eq_dec (s_now s) (s_now s')) as [E|E].
  - apply (vext_get_tl _ _ _ Hx ct). lia.
  - rewrite (Hv E). reflexivity.
Qed.

Lemma accts_frame_model now (s s' : state) (l : list addr) :
  (forall a q, q < now -> lookup_spec q (tl_of (s_v s') a) = lookup_spec q (tl_of (s_v s) a)) ->
  accts_frame_ok now (map (observe_acct s) l) (map (observe_acct s') l) = true.
Proof.
  intros H. induction l as [|a l IH]; [reflexivity|]. cbn [map accts_frame_ok]. rewrite IH, andb_true_r.
  unfold observe_acct. cbn [ao_cps]. apply cps_frame_model. apply H.
Qed.

Lemma has_row_observe h s qs q : In q qs -> has_row q (observe h s qs) = true.
Proof.
  intros Hin. unfold has_row, observe. cbn [o_past]. apply existsb_exists.
  exists (observe_past h s q). split; [apply in_map; exact Hin|]. unfold observe_past. cbn [fst]. apply Z.eqb_refl.
Qed.

Lemma shape_ok_model h s au c prev qs : 0 <= s_now s ->
  o_now prev = s_now s ->
  let s' := fst (step h s au c) in
  shape_ok h prev c (snd (step h s au c)) (observe h s' (qs ++ std_queries (s_now s'))) = true.
Proof.
  intros H0 Hp s'. unfold shape_ok. cbn [o_accts o_owners o_now observe].
  rewrite !map_length, accounts_length, seq_length, !Nat.eqb_refl. cbn [andb].
  rewrite Hp. unfold s'. rewrite <- step_now. rewrite Z.eqb_refl. cbn [andb]. fold s'.
  assert (Hs' : 0 <= s_now s') by (unfold s'; destruct (shape_rel c s _ H0 (step_shape h s au c)) as [Hn _]; lia).
  change (s_now s') with (o_now (observe h s' (qs ++ std_queries (s_now s')))) at 1.
  rewrite has_row_observe by (apply in_or_app; right; unfold std_queries; apply in_or_app; right; left; reflexivity).
  cbn [andb o_now observe].
  destruct (s_now s' =? 0) eqn:E; [reflexivity|]. apply Z.eqb_neq in E. cbn [orb].
  apply has_row_observe. apply in_or_app. right. unfold std_queries.
  replace (0 <? s_now s') with true by (symmetry; apply Z.ltb_lt; lia). left. reflexivity.
Qed.

Lemma and6 a b c d e f : a = true -> b = true -> c = true -> d = true -> e = true -> f = true ->
  a && b && c && d && e && f = true.
Proof. intros; subst; reflexivity. Qed.

Lemma mon_accepts_model h ins : forall s prev hist i,
  inv (accounts (h_n h)) s -> winv s -> hinv h hist s ->
  core prev = core (observe h s []) -> o_now prev = s_now s ->
  forallb (wf_input (h_n h)) ins = true ->
  mon_from h prev hist (run_model h s ins) i = 0%N.
Proof.
  induction ins as [|[[au c] qs] ins IH]; intros s prev hist i I W Hh Hp Hpn Hwf; [reflexivity|].
  cbn [forallb] in Hwf. apply andb_prop in Hwf. destruct Hwf as [Hwf1 Hwf].
  cbn [run_model mon_from]. set (s' := fst (step h s au c)).
  set (qs' := qs ++ std_queries (s_now s')).
  assert (Sh : shape c s s') by apply step_shape.
  assert (I' : inv (accounts (h_n h)) s').
  { eapply inv_step; [apply accounts_NoDup| |exact I|exact Sh]. apply (wf_input_in _ _ Hwf1). }
  assert (Hacc : o_accts prev = map (observe_acct s) (accounts (h_n h))) by (unfold core in Hp; inversion Hp; reflexivity).
  assert (Hts : o_ts_cps prev = cps_view (v_ts (s_v s))) by (unfold core in Hp; inversion Hp; reflexivity).
  assert (M : mon_item h prev hist c (snd (step h s au c)) (observe h s' qs') = true).
  { unfold mon_item. apply and6.
    - rewrite Hpn. apply (mon_obs_model h hist s s' c qs' I' W Hh Sh).
    - unfold stable_ok. destruct (is_advance c || negb (is_ok (snd (step h s au c)))) eqn:E; [|reflexivity].
      apply core_eqb_of_eq. rewrite Hp. symmetry. apply step_stable. exact E.
    - cbn [o_accts observe]. apply (dlg_ok_from_model h s au c prev (proj1 W) (prev_dlg_model h s prev Hacc) (h_n h) 0%nat). lia.
    - cbn [o_accts o_now observe]. rewrite Hacc. apply accts_frame_model.
      intros a q Hq. apply (past_frame c s s' W Sh (CAcct a) q Hq).
    - cbn [o_ts_cps o_now observe]. rewrite Hts. apply cps_frame_model.
      intros q Hq. apply (past_frame c s s' W Sh CTotal q Hq).
    - apply (shape_ok_model h s au c prev qs (proj1 W) Hpn). }
  rewrite M. rewrite cur_vector_observe. cbn [o_now observe].
  apply IH; auto.
  - apply winv_step. exact W.
  - eapply hinv_step; eauto.
Qed.

Theorem check_accepts_model h ins :
  wf_header h = true -> forallb (wf_input (h_n h)) ins = true ->
  check (observe_model h ins) = (0%N, 0%N, 0%N).
Proof.
  intros Hh Hwf. unfold wf_header in Hh. apply andb_prop in Hh. destruct Hh as [Hh Hd].
  apply Z.leb_le in Hh. apply negb_true_iff in Hd.
  unfold check, observe_model. rewrite Hd. rewrite (diff_accepts_model h ins Hd).
  rewrite mon_accepts_model; auto.
  - apply inv_init. exact Hh.
  - apply winv_init. exact Hh.
  - apply hinv_init.
  - apply core_empty_obs.
Qed.
