(* C15: invariants of the world of contracts lifted to every reachable state (induction over the
   call list), and the theorems about verify_identity stated over all call sequences. *)
From SC Require Import Lib.Prelude Lib.Int Lib.Host Model.ClaimIssuer Model.Identity
  Proofs.C15Base Proofs.C15Bytes Proofs.C15Verify Proofs.C15Issuer Proofs.C15Registry Proofs.C15Ident.

Definition nonces_ok (s : issuer) : Prop := forall d t, 0 <= get_current_nonce_for s d t <= MAXU32.

Record world_inv (w : world) : Prop := {
  wi_cti : forall a s, aget N.eqb a (w_ctis w) = Some s -> cti_inv s;
  wi_issuer : forall a s, aget N.eqb a (w_issuers w) = Some s -> keys_inv s /\ nonces_ok s
}.
(* holds as long as claims are stored through the library's add_claim only *)
Definition idents_inv (w : world) : Prop := forall a s, aget N.eqb a (w_idents w) = Some s -> ident_inv s.

Definition is_force (k : call) : bool := match k with ForceClaim _ _ _ _ => true | _ => false end.
Definition library_calls (ks : list call) : bool := forallb (fun k => negb (is_force k)) ks.

(* ---------------- initial state ---------------- *)
Lemma aget_init {S} (s0 : S) a l : forall s, aget N.eqb a (map (fun x => (x, s0)) l) = Some s -> s = s0.
Proof.
  intros s. rewrite (aget_map_const _ N_eqb_spec (fun _ => s0)). destruct (existsb (N.eqb a) l); congruence.
Qed.
Lemma world_inv_init now ctis irss idents issuers : world_inv (init now ctis irss idents issuers).
Proof.
  constructor; cbn [init w_ctis w_issuers]; intros a s H; apply aget_init in H; subst.
  - apply cti_inv_init.
  - split; [apply keys_inv_init|]. intros d t. unfold get_current_nonce_for, MAXU32. cbn. lia.
Qed.
Lemma idents_inv_init now ctis irss idents issuers : idents_inv (init now ctis irss idents issuers).
Proof. intros a s H. cbn [init w_idents] in H. apply aget_init in H. subst. apply ident_inv_init. Qed.

(* ---------------- setting one contract ---------------- *)
Lemma inv_set_cti w a s' : world_inv w -> cti_inv s' -> world_inv (set_cti w a s').
Proof.
  intros Hw Hs. constructor; cbn [set_cti w_ctis w_issuers].
  - intros a0 s0. rewrite (aget_aset _ N_eqb_spec). destruct (N.eqb a0 a); [intros E; inversion E; subst; exact Hs | apply (wi_cti w Hw)].
  - apply (wi_issuer w Hw).
Qed.
Lemma inv_set_issuer w a s' : world_inv w -> keys_inv s' -> nonces_ok s' -> world_inv (set_issuer w a s').
Proof.
  intros Hw Hk Hn. constructor; cbn [set_issuer w_ctis w_issuers].
  - apply (wi_cti w Hw).
  - intros a0 s0. rewrite (aget_aset _ N_eqb_spec). destruct (N.eqb a0 a); [intros E; inversion E; subst; auto | apply (wi_issuer w Hw)].
Qed.
Lemma inv_same w w' : w_ctis w' = w_ctis w -> w_issuers w' = w_issuers w -> world_inv w -> world_inv w'.
Proof. intros E1 E2 Hw. constructor; [rewrite E1; apply (wi_cti w Hw) | rewrite E2; apply (wi_issuer w Hw)]. Qed.

Lemma the_cti_get w a s : the_cti w a = Ok s -> aget N.eqb a (w_ctis w) = Some s.
Proof. unfold the_cti. apply of_option_ok. Qed.
Lemma the_issuer_get w a s : the_issuer w a = Ok s -> aget N.eqb a (w_issuers w) = Some s.
Proof. unfold the_issuer. apply of_option_ok. Qed.
Lemma the_ident_get w a s : the_ident w a = Ok s -> aget N.eqb a (w_idents w) = Some s.
Proof. unfold the_ident. apply of_option_ok. Qed.

(* ---------------- issuer operations and the nonce range ---------------- *)
Lemma keys_inv_fields s s' : is_topics s' = is_topics s -> is_pairs s' = is_pairs s -> keys_inv s -> keys_inv s'.
Proof.
  intros E1 E2 H. constructor.
  - intros t k. unfold keys_of, pairs_of. rewrite E1, E2. apply (ki_iff s H).
  - intros t. unfold keys_of. rewrite E1. apply (ki_nodup s H).
  - intros t. rewrite E1. apply (ki_topics_nonempty s H).
  - intros k. rewrite E2. apply (ki_pairs_nonempty s H).
  - intros k. unfold pairs_of. rewrite E2. apply (ki_pairs_nodup s H).
Qed.
Lemma nonces_fields s s' : is_nonce s' = is_nonce s -> nonces_ok s -> nonces_ok s'.
Proof. intros E H d t. unfold get_current_nonce_for. rewrite E. apply H. Qed.

Lemma allow_key_nonce c s pk r sc t has s' : allow_key c s pk r sc t has = Ok s' -> is_nonce s' = is_nonce s.
Proof.
  unfold allow_key. destruct (is_nil pk); [discriminate|]. destruct has as [[]|]; cbn [bind negb]; try discriminate.
  destruct (is_key_allowed_for_topic s pk sc t); cbn [bind].
  - destruct (existsb _ _); [discriminate|]. destruct (_ <=? _); [discriminate|]. intros H. inversion H. reflexivity.
  - destruct (c_max_keys c <=? _); cbn [bind]; [discriminate|].
    destruct (existsb _ _); [discriminate|]. destruct (_ <=? _); [discriminate|]. intros H. inversion H. reflexivity.
Qed.
Lemma remove_key_nonce s pk r sc t s' : remove_key s pk r sc t = Ok s' -> is_nonce s' = is_nonce s.
Proof.
  unfold remove_key. intros H.
  apply bind_ok in H. destruct H as [pairs [_ H]]. apply bind_ok in H. destruct H as [pairs' [_ H]].
  destruct (existsb (fun p : Z * addr => fst p =? t) pairs'); [inversion H; reflexivity|].
  apply bind_ok in H. destruct H as [ks [_ H]]. apply bind_ok in H. destruct H as [ks' [_ H]]. inversion H. reflexivity.
Qed.
Lemma invalidate_nonces s d t s' : nonces_ok s -> invalidate_claim_signatures s d t = Ok s' -> nonces_ok s'.
Proof.
  intros Hn H. destruct (nonce_after_invalidate _ _ _ _ H) as [E [Hmax [Hoth _]]].
  intros d' t'. destruct (nkey_eqb (d', t') (d, t)) eqn:Ek.
  - apply nkey_eqb_spec in Ek. inversion Ek. subst. rewrite E. specialize (Hn d t). lia.
  - apply (eqb_false_of _ nkey_eqb_spec) in Ek. rewrite (Hoth d' t' Ek). apply Hn.
Qed.

(* ---------------- one step ---------------- *)
Lemma upd_inv {S} (P : world -> Prop) w (r : res S) (set : S -> world) w' out :
  upd w r set = (w', out) -> P w -> (forall s, r = Ok s -> P (set s)) -> P w'.
Proof. unfold upd. destruct r; intros E Hw Hs; inversion E; subst; auto. Qed.

Lemma step_world_inv c w k : world_inv w -> world_inv (fst (step c w k)).
Proof.
  intros Hw. destruct (step c w k) as [w' out] eqn:E. cbn [fst].
  assert (Hsame : forall w1, w_ctis w1 = w_ctis w -> w_issuers w1 = w_issuers w -> world_inv w1)
    by (intros w1 F1 F2; apply (inv_same w); auto).
  destruct k; cbn [step] in E;
    try (unfold pure in E; inversion E; subst; exact Hw);
    try (inversion E; subst; apply Hsame; reflexivity);
    try (apply (upd_inv world_inv _ _ _ _ _ E Hw); intros s0 _; apply Hsame; reflexivity).
  - (* AddTopic *) apply (upd_inv world_inv _ _ _ _ _ E Hw). intros s Hs. apply bind_ok in Hs. destruct Hs as [s0 [E0 Hs]].
    apply inv_set_cti; auto. eapply cti_inv_add_topic; eauto. eapply (wi_cti w Hw). apply the_cti_get. eauto.
  - apply (upd_inv world_inv _ _ _ _ _ E Hw). intros s Hs. apply bind_ok in Hs. destruct Hs as [s0 [E0 Hs]].
    apply inv_set_cti; auto. eapply cti_inv_remove_topic; eauto. eapply (wi_cti w Hw). apply the_cti_get. eauto.
  - apply (upd_inv world_inv _ _ _ _ _ E Hw). intros s Hs. apply bind_ok in Hs. destruct Hs as [s0 [E0 Hs]].
    apply inv_set_cti; auto. eapply cti_inv_add_issuer; eauto. eapply (wi_cti w Hw). apply the_cti_get. eauto.
  - apply (upd_inv world_inv _ _ _ _ _ E Hw). intros s Hs. apply bind_ok in Hs. destruct Hs as [s0 [E0 Hs]].
    apply inv_set_cti; auto. eapply cti_inv_remove_issuer; eauto. eapply (wi_cti w Hw). apply the_cti_get. eauto.
  - apply (upd_inv world_inv _ _ _ _ _ E Hw). intros s Hs. apply bind_ok in Hs. destruct Hs as [s0 [E0 Hs]].
    apply inv_set_cti; auto. eapply cti_inv_update_issuer; eauto. eapply (wi_cti w Hw). apply the_cti_get. eauto.
  - (* AddClaim *)
    destruct (do s <- the_ident w d; add_claim s cl _) as [[s' id]|]; inversion E; subst; auto; apply Hsame; reflexivity.
  - (* AllowKey *) apply (upd_inv world_inv _ _ _ _ _ E Hw). intros s Hs. apply bind_ok in Hs. destruct Hs as [s0 [E0 Hs]].
    destruct (wi_issuer w Hw _ _ (the_issuer_get _ _ _ E0)) as [Hk Hn].
    apply inv_set_issuer; [exact Hw | apply (keys_inv_allow _ _ _ _ _ _ _ _ Hk Hs) | apply (nonces_fields s0 s (allow_key_nonce _ _ _ _ _ _ _ _ Hs) Hn)].
  - apply (upd_inv world_inv _ _ _ _ _ E Hw). intros s Hs. apply bind_ok in Hs. destruct Hs as [s0 [E0 Hs]].
    destruct (wi_issuer w Hw _ _ (the_issuer_get _ _ _ E0)) as [Hk Hn].
    apply inv_set_issuer; [exact Hw | apply (keys_inv_remove _ _ _ _ _ _ Hk Hs) | apply (nonces_fields s0 s (remove_key_nonce _ _ _ _ _ _ Hs) Hn)].
  - (* Invalidate *) apply (upd_inv world_inv _ _ _ _ _ E Hw). intros s Hs. apply bind_ok in Hs. destruct Hs as [s0 [E0 Hs]].
    destruct (wi_issuer w Hw _ _ (the_issuer_get _ _ _ E0)) as [Hk Hn].
    destruct (nonce_after_invalidate _ _ _ _ Hs) as [_ [_ [_ [F1 [F2 _]]]]].
    apply inv_set_issuer; [exact Hw | apply (keys_inv_fields s0 s F1 F2 Hk) | apply (invalidate_nonces s0 d topic s Hn Hs)].
  - (* SetRevoked *) apply (upd_inv world_inv _ _ _ _ _ E Hw). intros s Hs. apply bind_ok in Hs. destruct Hs as [s0 [E0 Hs]].
    destruct (wi_issuer w Hw _ _ (the_issuer_get _ _ _ E0)) as [Hk Hn]. inversion Hs. subst s.
    apply inv_set_issuer; [exact Hw | apply (keys_inv_fields s0 (set_claim_revoked s0 d topic data revoked) eq_refl eq_refl Hk) | apply (nonces_fields s0 (set_claim_revoked s0 d topic data revoked) eq_refl Hn)].
Qed.

Lemma idents_set_other w w' : w_idents w' = w_idents w -> idents_inv w -> idents_inv w'.
Proof. intros E H a s. rewrite E. apply H. Qed.
Lemma idents_set_ident w a s' : idents_inv w -> ident_inv s' -> idents_inv (set_ident w a s').
Proof.
  intros Hw Hs a0 s0. cbn [set_ident w_idents]. rewrite (aget_aset _ N_eqb_spec).
  destruct (N.eqb a0 a); [intros E; inversion E; subst; exact Hs | apply Hw].
Qed.

Lemma step_idents_inv c w k : is_force k = false -> idents_inv w -> idents_inv (fst (step c w k)).
Proof.
  intros Hf Hw. destruct (step c w k) as [w' out] eqn:E. cbn [fst].
  destruct k; cbn [is_force] in Hf; try discriminate; cbn [step] in E;
    try (unfold pure in E; inversion E; subst; exact Hw);
    try (eapply (upd_inv idents_inv); eauto; intros s _; eapply idents_set_other; eauto; reflexivity);
    try (inversion E; subst; eapply idents_set_other; eauto; reflexivity).
  - (* AddClaim *)
    destruct (do s <- the_ident w d; add_claim s cl _) as [[s' id]|] eqn:Ea; inversion E; subst; auto.
    apply bind_ok in Ea. destruct Ea as [s0 [E0 Ea]].
    apply idents_set_ident; auto. eapply ident_inv_add; eauto. apply (Hw d). apply the_ident_get. exact E0.
  - (* RemoveClaim *)
    eapply (upd_inv idents_inv); eauto. intros s Hs. apply bind_ok in Hs. destruct Hs as [s0 [E0 Hs]].
    apply idents_set_ident; auto. eapply ident_inv_remove; eauto. apply (Hw d). apply the_ident_get. exact E0.
Qed.

(* ---------------- every reachable state ---------------- *)
Lemma run_app c w ks k : run c w (ks ++ [k]) = fst (step c (run c w ks) k).
Proof. unfold run. rewrite fold_left_app. reflexivity. Qed.

Theorem reachable_world_inv c now ctis irss idents issuers ks :
  world_inv (run c (init now ctis irss idents issuers) ks).
Proof.
  induction ks as [|k ks IH] using rev_ind; [apply world_inv_init|].
  rewrite run_app. apply step_world_inv. exact IH.
Qed.
Theorem reachable_idents_inv c now ctis irss idents issuers ks :
  library_calls ks = true -> idents_inv (run c (init now ctis irss idents issuers) ks).
Proof.
  induction ks as [|k ks IH] using rev_ind; intros H; [apply idents_inv_init|].
  unfold library_calls in H. rewrite forallb_app in H. apply andb_true_iff in H. destruct H as [H1 H2].
  cbn in H2. rewrite andb_true_r in H2. apply negb_true_iff in H2.
  rewrite run_app. apply step_idents_inv; auto.
Qed.

(* ---------------- C15 over all call sequences ---------------- *)
(* what "account a is covered" means in terms of the registry's own getters *)
Definition covered_by_trusted_issuer (c : cfg) (w : world) (ct : cti) (d : addr) (t : Z) : Prop :=
  exists i s cl,
    is_trusted_issuer ct i = true /\ has_claim_topic ct i t = Ok true /\       (* currently trusted for t *)
    the_ident w d = Ok s /\ In (i, t) (get_claim_ids_by_topic s t) /\           (* the identity holds ... *)
    get_claim s (i, t) = Ok cl /\ cl_topic cl = t /\ cl_issuer cl = i /\        (* ... a claim for t from i ... *)
    confirms c w i d t cl.                                                      (* ... which i confirms *)

Definition verified_spec (c : cfg) (w : world) (a : addr) : Prop :=
  exists ra r d ca ct,
    w_virs w = Some ra /\ the_irs w ra = Ok r /\ stored_identity r a = Ok d /\
    w_vcti w = Some ca /\ the_cti w ca = Ok ct /\
    forall t, In t (ct_topics ct) -> covered_by_trusted_issuer c w ct d t.

Lemma spec_of_view c w a d m :
  world_inv w -> verifier_view w a d m -> (forall ti, In ti m -> topic_covered c w d ti) -> verified_spec c w a.
Proof.
  intros Hw [ra [r [ca [ct [E1 [E2 [E3 [E4 [E5 E6]]]]]]]]] Hc.
  exists ra, r, d, ca, ct. repeat split; auto.
  pose proof (wi_cti w Hw _ _ (the_cti_get _ _ _ E5)) as Hi.
  destruct (topics_and_issuers_reading ct Hi) as [m' [Em [Hm1 Hm2]]].
  rewrite E6 in Em. inversion Em. subst m'. clear Em.
  intros t Ht.
  assert (Hin : In (t, tiss ct t) m).
  { apply Hm1. split; auto. unfold get_claim_topic_issuers, tiss.
    apply (ri_tpresent ct Hi) in Ht. destruct (aget Z.eqb t (ct_tissuers ct)); [reflexivity | congruence]. }
  destruct (Hc _ Hin) as [s [i [Es [Hi' [Hids [cl [Hg [Ht' [Hiss Hconf]]]]]]]]]. cbn [fst snd] in *.
  apply (Hm2 _ _ Hin) in Hi'. destruct Hi' as [Htr Hhas].
  exists i, s, cl. repeat split; auto.
Qed.

Lemma view_of_spec c w a :
  world_inv w -> verified_spec c w a ->
  exists d m, verifier_view w a d m /\ forall ti, In ti m -> topic_covered c w d ti.
Proof.
  intros Hw [ra [r [d [ca [ct [E1 [E2 [E3 [E4 [E5 Hc]]]]]]]]]].
  pose proof (wi_cti w Hw _ _ (the_cti_get _ _ _ E5)) as Hi.
  destruct (topics_and_issuers_reading ct Hi) as [m [Em [Hm1 Hm2]]].
  exists d, m. split; [exists ra, r, ca, ct; repeat split; auto|].
  intros [t l] Hin. pose proof (proj1 (Hm1 t l) Hin) as [Ht _].
  destruct (Hc t Ht) as [i [s [cl [Htr [Hhas [Es [Hids [Hg [Ht' [Hiss Hconf]]]]]]]]]].
  exists s, i. cbn [fst snd]. split; auto. split; [apply (Hm2 _ _ Hin); auto|].
  split; auto. exists cl. auto.
Qed.

(* soundness for EVERY call sequence (also with claims stored behind the issuer's back) *)
Theorem verify_sound_reachable c now ctis irss idents issuers ks a :
  let w := run c (init now ctis irss idents issuers) ks in
  verify_identity c w a = Ok tt -> verified_spec c w a.
Proof.
  intros w H. pose proof (reachable_world_inv c now ctis irss idents issuers ks) as Hw. fold w in Hw.
  apply verify_sound in H. destruct H as [d [m [Hv Hc]]]. eapply spec_of_view; eauto.
Qed.

(* the iff for every sequence of library calls *)
Theorem verify_iff_reachable c now ctis irss idents issuers ks a :
  library_calls ks = true ->
  let w := run c (init now ctis irss idents issuers) ks in
  verify_identity c w a = Ok tt <-> verified_spec c w a.
Proof.
  intros Hl w. pose proof (reachable_world_inv c now ctis irss idents issuers ks) as Hw. fold w in Hw.
  pose proof (reachable_idents_inv c now ctis irss idents issuers ks Hl) as Hd. fold w in Hd.
  split; [apply verify_sound_reachable|].
  intros Hs. apply verify_iff.
  - intros d s t Es. apply ident_inv_sound. apply (Hd d). apply the_ident_get. exact Es.
  - apply view_of_spec; auto.
Qed.

(* with library calls only, a stored claim always matches the id it is stored under: the topic /
   issuer comparison of validate_claim is then implied *)
Theorem stored_claims_match c now ctis irss idents issuers ks d s i t cl :
  library_calls ks = true ->
  let w := run c (init now ctis irss idents issuers) ks in
  the_ident w d = Ok s -> get_claim s (i, t) = Ok cl -> cl_issuer cl = i /\ cl_topic cl = t.
Proof.
  intros Hl w Es Hg. pose proof (reachable_idents_inv c now ctis irss idents issuers ks Hl) as Hd. fold w in Hd.
  eapply ident_inv_fields; eauto. apply (Hd d). apply the_ident_get. exact Es.
Qed.

(* a de-listed issuer, an issuer not trusted for the topic, never counts *)
Corollary untrusted_issuer_never_counts c now ctis irss idents issuers ks a t :
  let w := run c (init now ctis irss idents issuers) ks in
  forall ra r d ca ct,
    w_virs w = Some ra -> the_irs w ra = Ok r -> stored_identity r a = Ok d ->
    w_vcti w = Some ca -> the_cti w ca = Ok ct -> In t (ct_topics ct) ->
    (forall i, is_trusted_issuer ct i = true -> has_claim_topic ct i t = Ok true ->
       forall s cl, the_ident w d = Ok s -> get_claim s (i, t) = Ok cl -> ~ confirms c w i d t cl) ->
    verify_identity c w a = Fail.
Proof.
  intros w ra r d ca ct E1 E2 E3 E4 E5 Ht Hno.
  destruct (verify_identity c w a) as [[]|] eqn:E; auto. exfalso.
  apply verify_sound_reachable in E. destruct E as [ra' [r' [d' [ca' [ct' [F1 [F2 [F3 [F4 [F5 Hc]]]]]]]]]].
  fold w in F1, F2, F3, F4, F5, Hc.
  rewrite E1 in F1. inversion F1. subst ra'. rewrite E2 in F2. inversion F2. subst r'.
  rewrite E3 in F3. inversion F3. subst d'. rewrite E4 in F4. inversion F4. subst ca'.
  rewrite E5 in F5. inversion F5. subst ct'.
  destruct (Hc t Ht) as [i [s [cl [Htr [Hhas [Es [_ [Hg [_ [_ Hconf]]]]]]]]]].
  apply (Hno i Htr Hhas s cl Es Hg Hconf).
Qed.

(* the issuer side, over all call sequences: the key registry invariant and the nonce range hold
   in every reachable state, so the statements of Proofs/C15Issuer.v apply to it *)
Theorem reachable_issuer c now ctis irss idents issuers ks i s :
  the_issuer (run c (init now ctis irss idents issuers) ks) i = Ok s -> keys_inv s /\ nonces_ok s.
Proof.
  intros H. apply (wi_issuer _ (reachable_world_inv c now ctis irss idents issuers ks) i s).
  apply the_issuer_get. exact H.
Qed.
