(* C06 proofs about Model/Access.v: the enumeration invariant (swap-and-pop), refinement to a
   set of (account, role) pairs, authority of every membership change, guard semantics. *)
From SC Require Import Lib.Prelude Lib.Int Lib.Host Model.RoleTransfer Model.Access.
From SC Require Proofs.RoleTransfer.

Lemma guard_ok : forall b, guard b = Ok tt -> b = true.
Proof. intros [] H; [reflexivity|discriminate]. Qed.

(* ------------------------------------------------------------------ *)
(* point updates *)
Lemma upd_eq : forall A (f : N -> A) k v, upd f k v k = v.
Proof. intros. unfold upd. rewrite N.eqb_refl. reflexivity. Qed.
Lemma upd_neq : forall A (f : N -> A) k v k', k' <> k -> upd f k v k' = f k'.
Proof. intros. unfold upd. destruct (N.eqb_spec k' k); [contradiction|reflexivity]. Qed.
Lemma upd2_eq : forall A (f : N -> N -> A) a b v, upd2 f a b v a b = v.
Proof. intros. unfold upd2. rewrite !N.eqb_refl. reflexivity. Qed.
Lemma upd2_neq : forall A (f : N -> N -> A) a b v a' b', (a' <> a \/ b' <> b) -> upd2 f a b v a' b' = f a' b'.
Proof.
  intros. unfold upd2. destruct (N.eqb_spec a' a); destruct (N.eqb_spec b' b); cbn; try reflexivity.
  destruct H; contradiction.
Qed.

Ltac eqb_cases :=
  repeat match goal with
         | |- context [N.eqb ?x ?y] => destruct (N.eqb_spec x y); subst
         | H : context [N.eqb ?x ?y] |- _ => destruct (N.eqb_spec x y); subst
         end; cbn [andb orb negb] in *.

(* ------------------------------------------------------------------ *)
(* the enumeration invariant *)

Definition RoleInv (s : st) (r : role) : Prop :=
  (forall a i, a_has s a r = Some i -> (i < a_count s r)%N /\ a_member s r i = Some a) /\
  (forall i a, a_member s r i = Some a -> (i < a_count s r)%N /\ a_has s a r = Some i) /\
  (forall i, (i < a_count s r)%N -> exists a, a_member s r i = Some a).

Definition Inv (s : st) : Prop :=
  (forall r, RoleInv s r) /\
  NoDup (a_existing s) /\
  (forall r, In r (a_existing s) <-> (0 < a_count s r)%N).

Lemma inv_init : forall start adm, Inv (init start adm).
Proof.
  intros. unfold Inv, RoleInv, init. cbn. split; [|split].
  - intros r. repeat split; intros; try discriminate; lia.
  - constructor.
  - intros r. split; [intros []|lia].
Qed.

(* Inv only looks at the role tables *)
Lemma inv_ext : forall s s',
  (forall a r, a_has s' a r = a_has s a r) -> (forall r i, a_member s' r i = a_member s r i) ->
  (forall r, a_count s' r = a_count s r) -> a_existing s' = a_existing s ->
  Inv s -> Inv s'.
Proof.
  intros s s' Hh Hm Hc He [I1 [I2 I3]]. unfold Inv, RoleInv in *. rewrite He. split; [|split; auto].
  - intros r. destruct (I1 r) as [A [B C]]. split; [|split].
    + intros a i H. rewrite Hh in H. rewrite Hc, Hm. apply A; exact H.
    + intros i a H. rewrite Hm in H. rewrite Hc, Hh. apply B; exact H.
    + intros i H. rewrite Hc in H. destruct (C i H) as [a Ha]. exists a. rewrite Hm. exact Ha.
  - intros r. rewrite Hc. apply I3.
Qed.

(* ---- add_to_role_enumeration ---- *)
Lemma NoDup_snoc : forall (A : Type) (l : list A) x, NoDup l -> ~ In x l -> NoDup (l ++ [x]).
Proof.
  intros A l x Hn Hi. induction l as [|y t IH]; cbn.
  - constructor; [intros []|constructor].
  - inversion Hn; subst. constructor.
    + rewrite in_app_iff. cbn. intros [H|[H|[]]]; [contradiction|]. subst. apply Hi. left. reflexivity.
    + apply IH; auto. intros H. apply Hi. right. exact H.
Qed.

Lemma add_tables : forall s s' account r r',
  (forall r, RoleInv s r) -> a_has s account r = None ->
  a_has s' = upd2 (a_has s) account r (Some (a_count s r)) ->
  a_member s' = upd2 (a_member s) r (a_count s r) (Some account) ->
  a_count s' = upd (a_count s) r (a_count s r + 1)%N ->
  RoleInv s' r'.
Proof.
  intros s s' account r r' I1 Hn Hh Hm Hc. unfold RoleInv. rewrite Hh, Hm, Hc.
  destruct (I1 r') as [A [B C]]. destruct (N.eq_dec r' r) as [->|Hr].
  - rewrite upd_eq. split; [|split].
    + intros a i H. destruct (N.eq_dec a account) as [->|Ha].
      * rewrite upd2_eq in H. inversion H; subst. rewrite upd2_eq. split; [lia|reflexivity].
      * rewrite upd2_neq in H by (left; exact Ha). apply A in H. destruct H as [H1 H2].
        rewrite upd2_neq by (right; lia). split; [lia|exact H2].
    + intros i a H. destruct (N.eq_dec i (a_count s r)) as [->|Hi].
      * rewrite upd2_eq in H. inversion H; subst. rewrite upd2_eq. split; [lia|reflexivity].
      * rewrite upd2_neq in H by (right; exact Hi). apply B in H. destruct H as [H1 H2].
        split; [lia|]. rewrite upd2_neq; [exact H2|]. left. intros ->. congruence.
    + intros i Hi. destruct (N.eq_dec i (a_count s r)) as [->|Hne].
      * exists account. apply upd2_eq.
      * rewrite upd2_neq by (right; exact Hne). apply C. lia.
  - rewrite upd_neq by exact Hr. split; [|split].
    + intros a i H. rewrite upd2_neq in H by (right; exact Hr). rewrite upd2_neq by (left; exact Hr). apply A; exact H.
    + intros i a H. rewrite upd2_neq in H by (left; exact Hr). rewrite upd2_neq by (right; exact Hr). apply B; exact H.
    + intros i Hi. rewrite upd2_neq by (left; exact Hr). apply C; exact Hi.
Qed.

Lemma add_inv : forall c s account r s',
  Inv s -> a_has s account r = None ->
  add_to_role_enumeration c s account r = Ok s' -> Inv s'.
Proof.
  intros c s account r s' [I1 [I2 I3]] Hn H. unfold add_to_role_enumeration in H.
  destruct (N.eqb (a_count s r) 0) eqn:E0.
  - destruct (N.eqb (N.of_nat (length (a_existing s))) (max_roles c)); [discriminate|]. cbn [bind] in H.
    destruct (Z.of_N (a_count s r) + 1 <=? MAXU32); [|discriminate]. cbn [guard bind] in H. inversion H; subst s'; clear H.
    apply N.eqb_eq in E0.
    split; [|split].
    + intros r'. eapply add_tables; eauto.
    + cbn [a_existing]. apply NoDup_snoc; [exact I2|]. intros Hin. apply I3 in Hin. lia.
    + intros r'. cbn [a_existing a_count]. rewrite in_app_iff. cbn [In]. destruct (N.eq_dec r' r) as [->|Hr].
      * rewrite upd_eq. split; [lia|auto].
      * rewrite upd_neq by exact Hr. rewrite I3. split; [intros [H|[H|[]]]; [exact H|congruence]|auto].
  - cbn [bind] in H. destruct (Z.of_N (a_count s r) + 1 <=? MAXU32); [|discriminate]. cbn [guard bind] in H. inversion H; subst s'; clear H.
    apply N.eqb_neq in E0.
    split; [|split].
    + intros r'. eapply add_tables; eauto.
    + exact I2.
    + intros r'. cbn [a_existing a_count]. destruct (N.eq_dec r' r) as [->|Hr].
      * rewrite upd_eq. rewrite I3. lia.
      * rewrite upd_neq by exact Hr. apply I3.
Qed.

(* ---- remove_from_role_enumeration (swap-and-pop) ---- *)
Lemma remove_tables_swap : forall s s' account r idx la r',
  (forall r, RoleInv s r) -> a_has s account r = Some idx ->
  idx <> (a_count s r - 1)%N -> a_member s r (a_count s r - 1)%N = Some la ->
  a_member s' = upd2 (upd2 (a_member s) r idx (Some la)) r (a_count s r - 1)%N None ->
  a_has s' = upd2 (upd2 (a_has s) la r (Some idx)) account r None ->
  a_count s' = upd (a_count s) r (a_count s r - 1)%N ->
  RoleInv s' r'.
Proof.
  intros s s' account r idx la r' I1 Hh Hne Hla Hm Hhs Hc. unfold RoleInv. rewrite Hm, Hhs, Hc.
  destruct (I1 r') as [A [B C]]. destruct (N.eq_dec r' r) as [->|Hr].
  - set (last := (a_count s r - 1)%N) in *.
    destruct (A _ _ Hh) as [Hidx Hmi]. destruct (B _ _ Hla) as [Hlast Hhl].
    assert (Hla_ne : la <> account) by (intros ->; rewrite Hh in Hhl; inversion Hhl; contradiction).
    rewrite upd_eq. split; [|split].
    + intros a i H. destruct (N.eq_dec a account) as [->|Ha].
      * rewrite upd2_eq in H. discriminate.
      * rewrite upd2_neq in H by (left; exact Ha).
        destruct (N.eq_dec a la) as [->|Hal].
        -- rewrite upd2_eq in H. inversion H; subst i. split; [lia|].
           rewrite upd2_neq by (right; exact Hne). apply upd2_eq.
        -- rewrite upd2_neq in H by (left; exact Hal). destruct (A _ _ H) as [H1 H2].
           assert (i <> last) by (intros ->; congruence).
           assert (i <> idx) by (intros ->; congruence).
           split; [lia|]. rewrite upd2_neq by (right; assumption). rewrite upd2_neq by (right; assumption). exact H2.
    + intros i a H. destruct (N.eq_dec i last) as [->|Hil].
      * rewrite upd2_eq in H. discriminate.
      * rewrite upd2_neq in H by (right; exact Hil).
        destruct (N.eq_dec i idx) as [->|Hii].
        -- rewrite upd2_eq in H. inversion H; subst a. split; [lia|].
           rewrite upd2_neq by (left; exact Hla_ne). apply upd2_eq.
        -- rewrite upd2_neq in H by (right; exact Hii). destruct (B _ _ H) as [H1 H2].
           assert (a <> account) by (intros ->; congruence).
           assert (a <> la) by (intros ->; congruence).
           split; [lia|]. rewrite upd2_neq by (left; assumption). rewrite upd2_neq by (left; assumption). exact H2.
    + intros i Hi. rewrite upd2_neq by (right; lia).
      destruct (N.eq_dec i idx) as [->|Hii].
      * exists la. apply upd2_eq.
      * rewrite upd2_neq by (right; exact Hii). apply C. lia.
  - rewrite upd_neq by exact Hr. split; [|split].
    + intros a i H. rewrite !upd2_neq in H by (right; exact Hr). rewrite !upd2_neq by (left; exact Hr). apply A; exact H.
    + intros i a H. rewrite !upd2_neq in H by (left; exact Hr). rewrite !upd2_neq by (right; exact Hr). apply B; exact H.
    + intros i Hi. rewrite !upd2_neq by (left; exact Hr). apply C; exact Hi.
Qed.

Lemma remove_tables_last : forall s s' account r r',
  (forall r, RoleInv s r) -> a_has s account r = Some (a_count s r - 1)%N ->
  a_member s' = upd2 (a_member s) r (a_count s r - 1)%N None ->
  a_has s' = upd2 (a_has s) account r None ->
  a_count s' = upd (a_count s) r (a_count s r - 1)%N ->
  RoleInv s' r'.
Proof.
  intros s s' account r r' I1 Hh Hm Hhs Hc. unfold RoleInv. rewrite Hm, Hhs, Hc.
  destruct (I1 r') as [A [B C]]. destruct (N.eq_dec r' r) as [->|Hr].
  - set (last := (a_count s r - 1)%N) in *.
    destruct (A _ _ Hh) as [Hidx Hmi].
    rewrite upd_eq. split; [|split].
    + intros a i H. destruct (N.eq_dec a account) as [->|Ha].
      * rewrite upd2_eq in H. discriminate.
      * rewrite upd2_neq in H by (left; exact Ha). destruct (A _ _ H) as [H1 H2].
        assert (i <> last) by (intros ->; congruence).
        split; [lia|]. rewrite upd2_neq by (right; assumption). exact H2.
    + intros i a H. destruct (N.eq_dec i last) as [->|Hil].
      * rewrite upd2_eq in H. discriminate.
      * rewrite upd2_neq in H by (right; exact Hil). destruct (B _ _ H) as [H1 H2].
        assert (a <> account) by (intros ->; congruence).
        split; [lia|]. rewrite upd2_neq by (left; assumption). exact H2.
    + intros i Hi. rewrite upd2_neq by (right; lia). apply C. lia.
  - rewrite upd_neq by exact Hr. split; [|split].
    + intros a i H. rewrite !upd2_neq in H by (right; exact Hr). rewrite !upd2_neq by (left; exact Hr). apply A; exact H.
    + intros i a H. rewrite !upd2_neq in H by (left; exact Hr). rewrite !upd2_neq by (right; exact Hr). apply B; exact H.
    + intros i Hi. rewrite !upd2_neq by (left; exact Hr). apply C; exact Hi.
Qed.

Lemma remove_first_in : forall r x l, NoDup l -> (In x (remove_first r l) <-> x <> r /\ In x l).
Proof.
  intros r x l Hn. induction l as [|y t IH]; cbn; [tauto|].
  inversion Hn as [|y' t' Hy Ht]; subst. destruct (N.eqb_spec y r) as [E|E].
  - subst. split.
    + intros H. split; [intros ->; contradiction|right; exact H].
    + intros [Ha [Hb|Hb]]; [congruence|exact Hb].
  - cbn. rewrite (IH Ht). split.
    + intros [H|[Ha Hb]]; [subst; split; [assumption|left; reflexivity]|split; [assumption|right; assumption]].
    + intros [Ha [Hb|Hb]]; [left; exact Hb|right; split; assumption].
Qed.

Lemma remove_first_nodup : forall r l, NoDup l -> NoDup (remove_first r l).
Proof.
  intros r l Hn. induction l as [|y t IH]; cbn; [constructor|].
  inversion Hn as [|y' t' Hy Ht]; subst. destruct (N.eqb_spec y r); [assumption|].
  constructor; [|apply IH; assumption]. intros H. apply remove_first_in in H; [|assumption]. tauto.
Qed.

(* what a successful removal does: invariant kept; exactly (account, r) leaves the membership;
   everything else of the state untouched *)
Lemma remove_spec : forall s account r idx,
  Inv s -> a_has s account r = Some idx ->
  exists s', remove_from_role_enumeration s account r = Ok s' /\ Inv s' /\
    (forall a r', is_some (a_has s' a r') = is_some (a_has s a r') && negb (N.eqb a account && N.eqb r' r)) /\
    a_has s' account r = None /\
    a_now s' = a_now s /\ a_rt s' = a_rt s /\ a_role_admin s' = a_role_admin s /\ a_nft s' = a_nft s.
Proof.
  intros s account r idx [I1 [I2 I3]] Hh. unfold remove_from_role_enumeration.
  destruct (I1 r) as [A [B C]]. destruct (A _ _ Hh) as [Hidx Hmi].
  assert (E0 : N.eqb (a_count s r) 0 = false) by (apply N.eqb_neq; lia). rewrite E0.
  rewrite Hh. cbn [of_option bind].
  set (last := (a_count s r - 1)%N).
  assert (Hex : forall s', a_count s' = upd (a_count s) r last ->
            a_existing s' = (if N.eqb last 0 then remove_first r (a_existing s) else a_existing s) ->
            NoDup (a_existing s') /\ (forall r', In r' (a_existing s') <-> (0 < a_count s' r')%N)).
  { intros s' Hc He. rewrite He, Hc. destruct (N.eqb_spec last 0) as [Hl|Hl].
    - split; [apply remove_first_nodup; exact I2|]. intros r'. rewrite remove_first_in by exact I2.
      destruct (N.eq_dec r' r) as [->|Hr].
      + rewrite upd_eq. split; [intros [H _]; contradiction|lia].
      + rewrite upd_neq by exact Hr. rewrite I3. tauto.
    - split; [exact I2|]. intros r'. destruct (N.eq_dec r' r) as [->|Hr].
      + rewrite upd_eq. rewrite I3. lia.
      + rewrite upd_neq by exact Hr. apply I3. }
  destruct (N.eqb_spec idx last) as [Heq|Hne]; cbn [negb].
  - cbn [bind]. eexists. split; [reflexivity|]. subst idx. split; [|split; [|split]].
    + split.
      * intros r'. eapply remove_tables_last; eauto.
      * apply Hex; reflexivity.
    + intros a r'. cbn [a_has]. unfold upd2. destruct (N.eqb a account && N.eqb r' r); cbn; [rewrite andb_false_r; reflexivity|].
      rewrite andb_true_r. reflexivity.
    + cbn [a_has]. apply upd2_eq.
    + cbn. auto.
  - destruct (C last ltac:(lia)) as [la Hla]. fold last in Hla. rewrite Hla. cbn [of_option bind].
    eexists. split; [reflexivity|]. split; [|split; [|split]].
    + split.
      * intros r'. eapply remove_tables_swap; eauto.
      * apply Hex; reflexivity.
    + intros a r'. cbn [a_has]. destruct (B _ _ Hla) as [_ Hhl].
      unfold upd2. destruct (N.eqb a account && N.eqb r' r) eqn:E1; cbn; [rewrite andb_false_r; reflexivity|].
      rewrite andb_true_r. destruct (N.eqb a la && N.eqb r' r) eqn:E2; [|reflexivity].
      apply andb_prop in E2. destruct E2 as [E2 E3]. apply N.eqb_eq in E2, E3. subst. rewrite Hhl. reflexivity.
    + cbn [a_has]. apply upd2_eq.
    + cbn. auto.
Qed.

(* ------------------------------------------------------------------ *)
(* refinement: the set of (account, role) pairs *)

Definition abs (s : st) (a : addr) (r : role) : bool := has_role s a r.

(* the obvious set operation of a call *)
Definition abs_after (s : st) (cl : call) (ok : bool) (a : addr) (r' : role) : bool :=
  if ok then
    match cl with
    | Grant account r _ _ => abs s a r' || (N.eqb a account && N.eqb r' r)
    | Revoke account r _ _ => abs s a r' && negb (N.eqb a account && N.eqb r' r)
    | RenounceRole r caller _ => abs s a r' && negb (N.eqb a caller && N.eqb r' r)
    | _ => abs s a r'
    end
  else abs s a r'.

(* who may change the membership of role r *)
Definition authorised (s : st) (cl : call) : Prop :=
  match cl with
  | Grant account r caller au =>
      has_auth au caller = true /\
      (holder (a_rt s) = Some caller \/ exists ar, a_role_admin s r = Some ar /\ abs s caller ar = true)
  | Revoke account r caller au =>
      has_auth au caller = true /\
      (holder (a_rt s) = Some caller \/ exists ar, a_role_admin s r = Some ar /\ abs s caller ar = true) /\
      abs s account r = true
  | RenounceRole r caller au => has_auth au caller = true /\ abs s caller r = true
  | _ => True
  end.

Lemma authority_spec : forall s r caller,
  admin_or_admin_role s r caller = true ->
  holder (a_rt s) = Some caller \/ exists ar, a_role_admin s r = Some ar /\ abs s caller ar = true.
Proof.
  intros s r caller H. unfold admin_or_admin_role in H. apply orb_prop in H. destruct H as [H|H].
  - left. destruct (holder (a_rt s)) as [a|]; [|discriminate]. apply N.eqb_eq in H. subst. reflexivity.
  - right. destruct (a_role_admin s r) as [ar|]; [|discriminate]. exists ar. auto.
Qed.

(* the parts of the state a role operation leaves alone *)
Definition same_rest (s s' : st) : Prop :=
  a_now s' = a_now s /\ a_rt s' = a_rt s /\ a_role_admin s' = a_role_admin s /\ a_nft s' = a_nft s.
Definition same_roles (s s' : st) : Prop :=
  a_has s' = a_has s /\ a_member s' = a_member s /\ a_count s' = a_count s /\ a_existing s' = a_existing s.

Lemma same_roles_inv : forall s s', same_roles s s' -> Inv s -> Inv s'.
Proof.
  intros s s' [A [B [C D]]] HI. apply (inv_ext s s'); auto.
  - intros. rewrite A. reflexivity.
  - intros. rewrite B. reflexivity.
  - intros. rewrite C. reflexivity.
Qed.

Lemma grant_spec : forall c s au account r caller s',
  Inv s -> grant_role c s au account r caller = Ok s' ->
  authorised s (Grant account r caller au) /\ Inv s' /\ same_rest s s' /\
  (forall a r', abs s' a r' = abs s a r' || (N.eqb a account && N.eqb r' r)).
Proof.
  intros c s au account r caller s' HI H. unfold grant_role in H.
  destruct (has_auth au caller) eqn:Ea; [|discriminate]. cbn [guard bind] in H.
  destruct (admin_or_admin_role s r caller) eqn:Eb; [|discriminate]. cbn [guard bind] in H.
  split; [split; [exact Ea|apply authority_spec; exact Eb]|].
  destruct (has_role s account r) eqn:Eh.
  - inversion H; subst s'. split; [exact HI|]. split; [unfold same_rest; auto|].
    intros a r'. destruct (N.eqb a account && N.eqb r' r) eqn:E; [|rewrite orb_false_r; reflexivity].
    apply andb_prop in E. destruct E as [E1 E2]. apply N.eqb_eq in E1, E2. subst. unfold abs. rewrite Eh. reflexivity.
  - assert (Hn : a_has s account r = None).
    { unfold has_role in Eh. destruct (a_has s account r); [discriminate|reflexivity]. }
    split; [eapply add_inv; eauto|].
    unfold add_to_role_enumeration in H.
    destruct (N.eqb (a_count s r) 0);
      [destruct (N.eqb (N.of_nat (length (a_existing s))) (max_roles c)); [discriminate|]|];
      cbn [bind] in H; (destruct (Z.of_N (a_count s r) + 1 <=? MAXU32); [|discriminate]);
      cbn [guard bind] in H; inversion H; subst s'; (split; [unfold same_rest; cbn; auto|]);
      intros a r'; unfold abs, has_role; cbn [a_has]; unfold upd2;
      destruct (N.eqb a account && N.eqb r' r); cbn; rewrite ?orb_true_r, ?orb_false_r; reflexivity.
Qed.

Lemma revoke_spec : forall s au account r caller s',
  Inv s -> revoke_role s au account r caller = Ok s' ->
  authorised s (Revoke account r caller au) /\ Inv s' /\ same_rest s s' /\
  (forall a r', abs s' a r' = abs s a r' && negb (N.eqb a account && N.eqb r' r)).
Proof.
  intros s au account r caller s' HI H. unfold revoke_role in H.
  destruct (has_auth au caller) eqn:Ea; [|discriminate]. cbn [guard bind] in H.
  destruct (admin_or_admin_role s r caller) eqn:Eb; [|discriminate]. cbn [guard bind] in H.
  destruct (has_role s account r) eqn:Eh; [|discriminate]. cbn [guard bind] in H.
  split; [split; [exact Ea|split; [apply authority_spec; exact Eb|exact Eh]]|].
  unfold has_role in Eh. destruct (a_has s account r) as [idx|] eqn:Ei; [|discriminate].
  destruct (remove_spec s account r idx HI Ei) as [s1 [R1 [R2 [R3 [R4 [R5 [R6 [R7 R8]]]]]]]].
  rewrite R1 in H. cbn [bind] in H. inversion H; subst s'; clear H.
  split; [|split].
  - eapply inv_ext; [| | | |exact R2]; cbn; auto.
    intros a r'. unfold upd2. destruct (N.eqb a account && N.eqb r' r) eqn:E; [|reflexivity].
    apply andb_prop in E. destruct E as [E1 E2]. apply N.eqb_eq in E1, E2. subst. symmetry. exact R4.
  - unfold same_rest. cbn. auto.
  - intros a r'. unfold abs, has_role. cbn [a_has]. unfold upd2.
    destruct (N.eqb a account && N.eqb r' r) eqn:E; cbn; [rewrite andb_false_r; reflexivity|].
    rewrite R3. rewrite E. reflexivity.
Qed.

Lemma renounce_role_spec : forall s au r caller s',
  Inv s -> renounce_role s au r caller = Ok s' ->
  authorised s (RenounceRole r caller au) /\ Inv s' /\ same_rest s s' /\
  (forall a r', abs s' a r' = abs s a r' && negb (N.eqb a caller && N.eqb r' r)).
Proof.
  intros s au r caller s' HI H. unfold renounce_role in H.
  destruct (has_auth au caller) eqn:Ea; [|discriminate]. cbn [guard bind] in H.
  destruct (has_role s caller r) eqn:Eh; [|discriminate]. cbn [guard bind] in H.
  split; [split; [exact Ea|exact Eh]|].
  unfold has_role in Eh. destruct (a_has s caller r) as [idx|] eqn:Ei; [|discriminate].
  destruct (remove_spec s caller r idx HI Ei) as [s1 [R1 [R2 [R3 [R4 [R5 [R6 [R7 R8]]]]]]]].
  rewrite R1 in H. cbn [bind] in H. inversion H; subst s'; clear H.
  split; [|split].
  - eapply inv_ext; [| | | |exact R2]; cbn; auto.
    intros a r'. unfold upd2. destruct (N.eqb a caller && N.eqb r' r) eqn:E; [|reflexivity].
    apply andb_prop in E. destruct E as [E1 E2]. apply N.eqb_eq in E1, E2. subst. symmetry. exact R4.
  - unfold same_rest. cbn. auto.
  - intros a r'. unfold abs, has_role. cbn [a_has]. unfold upd2.
    destruct (N.eqb a caller && N.eqb r' r) eqn:E; cbn; [rewrite andb_false_r; reflexivity|].
    rewrite R3. rewrite E. reflexivity.
Qed.

(* every other call leaves the role tables alone *)
Lemma other_calls_same_roles : forall c s cl s',
  exec c s cl = Ok s' ->
  match cl with Grant _ _ _ _ | Revoke _ _ _ _ | RenounceRole _ _ _ => True | _ => same_roles s s' end.
Proof.
  intros c s cl s' H. destruct cl; auto; cbn [exec] in H; unfold same_roles.
  - unfold set_role_admin in H. destruct (enforce_holder_auth auths (a_rt s)); [|discriminate]. inversion H; cbn; auto.
  - destruct (offer (host c) (a_now s) auths new live_until (a_rt s)); [|discriminate]. inversion H; cbn; auto.
  - destruct (accept AC (a_now s) auths (a_rt s)); [|discriminate]. inversion H; cbn; auto.
  - destruct (renounce (a_now s) auths (a_rt s)); [|discriminate]. inversion H; cbn; auto.
  - destruct (enforce_holder_auth auths (a_rt s)); [|discriminate]. inversion H; cbn; auto.
  - destruct (has_role s caller (minter c)); [|discriminate]. destruct (has_auth auths caller); [|discriminate]. inversion H; cbn; auto.
  - destruct (has_any_role c s caller); [|discriminate]. destruct (has_auth auths caller); [|discriminate]. inversion H; cbn; auto.
  - destruct (has_any_role c s caller); [|discriminate]. destruct (has_auth auths caller); [|discriminate]. inversion H; cbn; auto.
  - destruct (has_role s from (burner c)); [|discriminate]. destruct (has_auth auths from); [|discriminate]. cbn [guard bind] in H.
    destruct (n_owner (a_nft s) token) as [o|]; [|discriminate]. cbn [of_option bind] in H. destruct (N.eqb o from); [|discriminate]. inversion H; cbn; auto.
  - destruct (has_role s spender (burner c)); [|discriminate]. destruct (has_auth auths spender); [|discriminate]. cbn [guard bind] in H.
    destruct (N.eqb spender from || match approved_of (a_now s) (a_nft s) token with Some ap => N.eqb ap spender | None => false end); [|discriminate]. cbn [guard bind] in H.
    destruct (n_owner (a_nft s) token) as [o|]; [|discriminate]. cbn [of_option bind] in H. destruct (N.eqb o from); [|discriminate]. inversion H; cbn; auto.
  - destruct (has_auth auths approver); [|discriminate]. cbn [guard bind] in H.
    destruct (n_owner (a_nft s) token) as [o|]; [|discriminate]. cbn [of_option bind] in H. destruct (N.eqb approver o); [|discriminate]. cbn [guard bind] in H.
    destruct (live_until =? 0); [inversion H; cbn; auto|].
    destruct (negb (live_until <? a_now s)); [|discriminate]. cbn [guard bind] in H.
    destruct (live_until - a_now s <=? max_ttl (host c) - 1); [|discriminate]. inversion H; cbn; auto.
  - inversion H; cbn; auto.
Qed.

Lemma same_roles_abs : forall s s', same_roles s s' -> forall a r, abs s' a r = abs s a r.
Proof. intros s s' [A _] a r. unfold abs, has_role. rewrite A. reflexivity. Qed.

(* ---- one step: invariant, commutation with the set operation, authority ---- *)
Lemma step_spec : forall c s cl,
  Inv s ->
  Inv (fst (step c s cl)) /\
  (forall a r, abs (fst (step c s cl)) a r = abs_after s cl (snd (step c s cl)) a r) /\
  (snd (step c s cl) = true -> authorised s cl).
Proof.
  intros c s cl HI. unfold step. destruct (exec c s cl) as [s'|] eqn:E; cbn [fst snd].
  2:{ split; [exact HI|]. split; [intros; reflexivity|discriminate]. }
  destruct cl; try (pose proof (other_calls_same_roles c s _ s' E) as S; cbn in S;
                    split; [eapply same_roles_inv; eauto|]; split; [intros; unfold abs_after; apply same_roles_abs; exact S|intros; exact I]).
  - cbn [exec] in E. destruct (grant_spec _ _ _ _ _ _ _ HI E) as [A [B [_ D]]]. unfold abs_after. auto.
  - cbn [exec] in E. destruct (revoke_spec _ _ _ _ _ _ HI E) as [A [B [_ D]]]. unfold abs_after. auto.
  - cbn [exec] in E. destruct (renounce_role_spec _ _ _ _ _ HI E) as [A [B [_ D]]]. unfold abs_after. auto.
Qed.

Lemma inv_run : forall c start adm cs, Inv (run c (init start adm) cs).
Proof.
  intros c start adm cs. unfold run. induction cs as [|cl r IH] using rev_ind.
  - apply inv_init.
  - rewrite fold_left_app. cbn [fold_left]. apply step_spec. exact IH.
Qed.

(* ------------------------------------------------------------------ *)
(* the enumeration of a role, as a list *)

Lemma nseq_length : forall n s, length (nseq s n) = n.
Proof. intros n. induction n as [|n IH]; intros s; cbn; [reflexivity|rewrite IH; reflexivity]. Qed.
Lemma nseq_nth : forall n s i, (i < n)%nat -> nth_error (nseq s n) i = Some (s + N.of_nat i)%N.
Proof.
  intros n. induction n as [|n IH]; intros s i Hi; [lia|]. destruct i as [|i]; cbn.
  - f_equal. lia.
  - rewrite IH by lia. f_equal. lia.
Qed.

Definition members_list (s : st) (r : role) : list addr :=
  map (fun i => match a_member s r i with Some a => a | None => 0%N end) (nseq 0 (N.to_nat (a_count s r))).

Lemma members_nth : forall s r i a, RoleInv s r ->
  (nth_error (members_list s r) (N.to_nat i) = Some a <-> a_member s r i = Some a).
Proof.
  intros s r i a [A [B C]]. unfold members_list. split.
  - intros H. assert (Hl : (N.to_nat i < N.to_nat (a_count s r))%nat).
    { assert (Hx : nth_error (map (fun i : N => match a_member s r i with Some a => a | None => 0%N end)
                                 (nseq 0 (N.to_nat (a_count s r)))) (N.to_nat i) <> None) by congruence.
      apply nth_error_Some in Hx. rewrite map_length, nseq_length in Hx. exact Hx. }
    assert (Hl' : (N.to_nat i < length (nseq 0 (N.to_nat (a_count s r))))%nat) by (rewrite nseq_length; exact Hl).
    rewrite nth_error_map, (nseq_nth _ 0%N _ Hl) in H. cbn in H. rewrite N2Nat.id in H. rewrite N.add_0_l in H.
    destruct (C i ltac:(lia)) as [a' Ha']. rewrite Ha' in H. inversion H; subst. exact Ha'.
  - intros H. destruct (B _ _ H) as [Hi _].
    rewrite nth_error_map, (nseq_nth _ 0%N) by lia. cbn. rewrite N2Nat.id. rewrite ?N.add_0_l. rewrite H. reflexivity.
Qed.

(* the queryable membership describes exactly the abstract set, gap-free and duplicate-free *)
Theorem enumeration_exact : forall s r, Inv s ->
  let l := members_list s r in
  NoDup l /\ N.of_nat (length l) = a_count s r /\
  (forall a, In a l <-> abs s a r = true) /\
  (forall i a, a_member s r i = Some a <-> nth_error l (N.to_nat i) = Some a) /\
  (forall a i, a_has s a r = Some i <-> nth_error l (N.to_nat i) = Some a) /\
  (forall i, (a_count s r <= i)%N -> a_member s r i = None).
Proof.
  intros s r [I1 _] l. pose proof (I1 r) as HR. destruct HR as [A [B C]].
  assert (Hnth : forall i a, nth_error l (N.to_nat i) = Some a <-> a_member s r i = Some a)
    by (intros; apply members_nth; exact (I1 r)).
  assert (Hlen : length l = N.to_nat (a_count s r)) by (unfold l, members_list; rewrite map_length, nseq_length; reflexivity).
  split; [|split; [|split; [|split; [|split]]]].
  - apply NoDup_nth_error. intros i j Hi Hij.
    destruct (nth_error l i) as [a|] eqn:Ei; [|apply nth_error_None in Ei; lia].
    symmetry in Hij. rewrite <- (Nat2N.id i) in Ei. rewrite <- (Nat2N.id j) in Hij.
    apply Hnth in Ei, Hij. apply B in Ei, Hij. destruct Ei as [_ Ei], Hij as [_ Hij].
    rewrite Ei in Hij. inversion Hij. lia.
  - rewrite Hlen. apply N2Nat.id.
  - intros a. split.
    + intros H. apply In_nth_error in H. destruct H as [i H]. rewrite <- (Nat2N.id i) in H.
      apply Hnth in H. apply B in H. unfold abs, has_role. destruct H as [_ ->]. reflexivity.
    + intros H. unfold abs, has_role in H. destruct (a_has s a r) as [i|] eqn:E; [|discriminate].
      apply A in E. destruct E as [_ E]. apply Hnth in E. eapply nth_error_In; eauto.
  - intros i a. symmetry. apply Hnth.
  - intros a i. rewrite Hnth. split; [intros H; apply A in H; tauto|intros H; apply B in H; tauto].
  - intros i Hi. destruct (a_member s r i) as [a|] eqn:E; [|reflexivity]. apply B in E. lia.
Qed.

Theorem existing_exact : forall s, Inv s ->
  NoDup (a_existing s) /\ forall r, In r (a_existing s) <-> exists a, abs s a r = true.
Proof.
  intros s HI. pose proof HI as [I1 [I2 I3]]. split; [exact I2|]. intros r. rewrite I3.
  destruct (I1 r) as [A [B C]]. split.
  - intros H. destruct (C 0%N H) as [a Ha]. exists a. apply B in Ha. unfold abs, has_role. destruct Ha as [_ ->]. reflexivity.
  - intros [a Ha]. unfold abs, has_role in Ha. destruct (a_has s a r) as [i|] eqn:E; [|discriminate]. apply A in E. lia.
Qed.

(* ------------------------------------------------------------------ *)
(* every change of the membership is an authorised grant / revoke / own renounce *)

Theorem membership_change_authorised : forall c s cl a r,
  Inv s ->
  let s' := fst (step c s cl) in
  (abs s a r = false -> abs s' a r = true ->
     exists caller au, cl = Grant a r caller au /\ has_auth au caller = true /\
       (holder (a_rt s) = Some caller \/ exists ar, a_role_admin s r = Some ar /\ abs s caller ar = true)) /\
  (abs s a r = true -> abs s' a r = false ->
     (exists caller au, cl = Revoke a r caller au /\ has_auth au caller = true /\
        (holder (a_rt s) = Some caller \/ exists ar, a_role_admin s r = Some ar /\ abs s caller ar = true)) \/
     (exists au, cl = RenounceRole r a au /\ has_auth au a = true)).
Proof.
  intros c s cl a r HI s'. subst s'. destruct (step_spec c s cl HI) as [_ [HA HU]].
  rewrite HA. unfold abs_after. destruct (snd (step c s cl)) eqn:Eok.
  2:{ split; intros H1 H2; congruence. }
  specialize (HU eq_refl).
  destruct cl; try (split; intros H1 H2; congruence).
  - split; intros H1 H2; [|rewrite H1 in H2; discriminate].
    rewrite H1 in H2. cbn in H2. apply andb_prop in H2. destruct H2 as [E1 E2]. apply N.eqb_eq in E1, E2. subst.
    destruct HU as [U1 U2]. exists caller, auths. auto.
  - split; intros H1 H2; [rewrite H1 in H2; discriminate|].
    rewrite H1 in H2. cbn in H2. apply negb_false_iff in H2. apply andb_prop in H2. destruct H2 as [E1 E2].
    apply N.eqb_eq in E1, E2. subst. destruct HU as [U1 [U2 U3]]. left. exists caller, auths. auto.
  - split; intros H1 H2; [rewrite H1 in H2; discriminate|].
    rewrite H1 in H2. cbn in H2. apply negb_false_iff in H2. apply andb_prop in H2. destruct H2 as [E1 E2].
    apply N.eqb_eq in E1, E2. subst. destruct HU as [U1 U2]. right. exists auths. auto.
Qed.

(* ------------------------------------------------------------------ *)
(* guard semantics of the macro-restricted entry points (any state) *)

Definition signed_by := Proofs.RoleTransfer.signed_by.

Theorem guard_semantics : forall c s,
  (forall au, snd (step c s (AdminRestricted au)) = signed_by (holder (a_rt s)) au) /\
  (forall r ar au, snd (step c s (SetRoleAdmin r ar au)) = signed_by (holder (a_rt s)) au) /\
  (forall new lu au, snd (step c s (TransferAdmin new lu au)) = true -> signed_by (holder (a_rt s)) au = true) /\
  (forall au, snd (step c s (RenounceAdmin au)) = true -> signed_by (holder (a_rt s)) au = true) /\
  (forall to tok caller au, snd (step c s (Mint to tok caller au)) = abs s caller (minter c) && has_auth au caller) /\
  (forall caller au, snd (step c s (MultiRoleAction caller au)) =
                     (abs s caller (minter c) || abs s caller (burner c)) && has_auth au caller) /\
  (forall caller au, snd (step c s (MultiRoleAuthAction caller au)) =
                     (abs s caller (minter c) || abs s caller (burner c)) && has_auth au caller) /\
  (forall from tok au, snd (step c s (Burn from tok au)) = true ->
                       abs s from (burner c) = true /\ has_auth au from = true /\ n_owner (a_nft s) tok = Some from) /\
  (forall sp from tok au, snd (step c s (BurnFrom sp from tok au)) = true ->
                       abs s sp (burner c) = true /\ has_auth au sp = true).
Proof.
  intros c s. unfold step, signed_by. repeat split; intros; cbn [exec] in *.
  - rewrite Proofs.RoleTransfer.enforce_closed. destruct (Proofs.RoleTransfer.signed_by (holder (a_rt s)) au) eqn:E; [|reflexivity].
    unfold Proofs.RoleTransfer.signed_by in E. destruct (holder (a_rt s)); [reflexivity|discriminate].
  - unfold set_role_admin. rewrite Proofs.RoleTransfer.enforce_closed. destruct (Proofs.RoleTransfer.signed_by (holder (a_rt s)) au) eqn:E; [|reflexivity].
    unfold Proofs.RoleTransfer.signed_by in E. destruct (holder (a_rt s)); [reflexivity|discriminate].
  - unfold offer in H. rewrite Proofs.RoleTransfer.enforce_closed in H.
    destruct (Proofs.RoleTransfer.signed_by (holder (a_rt s)) au); [reflexivity|discriminate].
  - unfold renounce in H. rewrite Proofs.RoleTransfer.enforce_closed in H.
    destruct (Proofs.RoleTransfer.signed_by (holder (a_rt s)) au); [reflexivity|discriminate].
  - unfold abs. destruct (has_role s caller (minter c)); [|reflexivity]. destruct (has_auth au caller); reflexivity.
  - unfold abs, has_any_role. destruct (has_role s caller (minter c) || has_role s caller (burner c)); [|reflexivity].
    destruct (has_auth au caller); reflexivity.
  - unfold abs, has_any_role. destruct (has_role s caller (minter c) || has_role s caller (burner c)); [|reflexivity].
    destruct (has_auth au caller); reflexivity.
  - unfold abs. destruct (has_role s from (burner c)); [reflexivity|discriminate].
  - destruct (has_role s from (burner c)); [|discriminate]. destruct (has_auth au from); [reflexivity|discriminate].
  - destruct (has_role s from (burner c)); [|discriminate]. destruct (has_auth au from); [|discriminate]. cbn [guard bind] in H.
    destruct (n_owner (a_nft s) tok) as [o|]; [|discriminate]. cbn [of_option bind] in H. destruct (N.eqb_spec o from); [subst; reflexivity|discriminate].
  - unfold abs. destruct (has_role s sp (burner c)); [reflexivity|discriminate].
  - destruct (has_role s sp (burner c)); [|discriminate]. destruct (has_auth au sp); [reflexivity|discriminate].
Qed.

(* ------------------------------------------------------------------ *)
(* after the admin is renounced nobody passes the admin check, for good *)

Definition admin_call (cl : call) : bool :=
  match cl with
  | AdminRestricted _ | SetRoleAdmin _ _ _ | TransferAdmin _ _ _ | RenounceAdmin _ | AcceptAdmin _ => true
  | _ => false
  end.

Lemma no_admin_step : forall c s cl, holder (a_rt s) = None ->
  holder (a_rt (fst (step c s cl))) = None /\ (admin_call cl = true -> snd (step c s cl) = false).
Proof.
  intros c s cl Hn. unfold step.
  destruct cl; cbn [exec admin_call].
  - unfold grant_role. destruct (has_auth auths caller); cbn [guard bind]; [|split; [exact Hn|discriminate]].
    destruct (admin_or_admin_role s r caller); cbn [guard bind]; [|split; [exact Hn|discriminate]].
    destruct (has_role s account r); cbn; [split; [exact Hn|discriminate]|].
    unfold add_to_role_enumeration.
    destruct (N.eqb (a_count s r) 0); [destruct (N.eqb (N.of_nat (length (a_existing s))) (max_roles c))|]; cbn [bind];
      try (split; [exact Hn|discriminate]);
      (destruct (Z.of_N (a_count s r) + 1 <=? MAXU32); cbn; (split; [exact Hn|discriminate])).
  - unfold revoke_role. destruct (has_auth auths caller); cbn [guard bind]; [|split; [exact Hn|discriminate]].
    destruct (admin_or_admin_role s r caller); cbn [guard bind]; [|split; [exact Hn|discriminate]].
    destruct (has_role s account r); cbn [guard bind]; [|split; [exact Hn|discriminate]].
    unfold remove_from_role_enumeration. destruct (N.eqb (a_count s r) 0); cbn; [split; [exact Hn|discriminate]|].
    destruct (a_has s account r) as [idx|]; cbn; [|split; [exact Hn|discriminate]].
    destruct (negb (N.eqb idx (a_count s r - 1))); cbn; [destruct (a_member s r (a_count s r - 1)); cbn|]; (split; [exact Hn|discriminate]).
  - unfold renounce_role. destruct (has_auth auths caller); cbn [guard bind]; [|split; [exact Hn|discriminate]].
    destruct (has_role s caller r); cbn [guard bind]; [|split; [exact Hn|discriminate]].
    unfold remove_from_role_enumeration. destruct (N.eqb (a_count s r) 0); cbn; [split; [exact Hn|discriminate]|].
    destruct (a_has s caller r) as [idx|]; cbn; [|split; [exact Hn|discriminate]].
    destruct (negb (N.eqb idx (a_count s r - 1))); cbn; [destruct (a_member s r (a_count s r - 1)); cbn|]; (split; [exact Hn|discriminate]).
  - unfold set_role_admin, enforce_holder_auth. rewrite Hn. cbn. split; [exact Hn|reflexivity].
  - unfold offer, enforce_holder_auth. rewrite Hn. cbn. split; [exact Hn|reflexivity].
  - unfold accept. rewrite Hn. cbn. split; [exact Hn|reflexivity].
  - unfold renounce, enforce_holder_auth. rewrite Hn. cbn. split; [exact Hn|reflexivity].
  - unfold enforce_holder_auth. rewrite Hn. cbn. split; [exact Hn|reflexivity].
  - destruct (has_role s caller (minter c)); cbn; [|split; [exact Hn|discriminate]].
    destruct (has_auth auths caller); cbn; (split; [exact Hn|discriminate]).
  - destruct (has_any_role c s caller); cbn; [|split; [exact Hn|discriminate]].
    destruct (has_auth auths caller); cbn; (split; [exact Hn|discriminate]).
  - destruct (has_any_role c s caller); cbn; [|split; [exact Hn|discriminate]].
    destruct (has_auth auths caller); cbn; (split; [exact Hn|discriminate]).
  - destruct (has_role s from (burner c)); cbn; [|split; [exact Hn|discriminate]].
    destruct (has_auth auths from); cbn; [|split; [exact Hn|discriminate]].
    destruct (n_owner (a_nft s) token) as [o|]; cbn; [|split; [exact Hn|discriminate]].
    destruct (N.eqb o from); cbn; (split; [exact Hn|discriminate]).
  - destruct (has_role s spender (burner c)); cbn; [|split; [exact Hn|discriminate]].
    destruct (has_auth auths spender); cbn; [|split; [exact Hn|discriminate]].
    destruct (N.eqb spender from || match approved_of (a_now s) (a_nft s) token with Some ap => N.eqb ap spender | None => false end); cbn; [|split; [exact Hn|discriminate]].
    destruct (n_owner (a_nft s) token) as [o|]; cbn; [|split; [exact Hn|discriminate]].
    destruct (N.eqb o from); cbn; (split; [exact Hn|discriminate]).
  - destruct (has_auth auths approver); cbn; [|split; [exact Hn|discriminate]].
    destruct (n_owner (a_nft s) token) as [o|]; cbn; [|split; [exact Hn|discriminate]].
    destruct (N.eqb approver o); cbn; [|split; [exact Hn|discriminate]].
    destruct (live_until =? 0); cbn; [split; [exact Hn|discriminate]|].
    destruct (negb (live_until <? a_now s)); cbn; [|split; [exact Hn|discriminate]].
    destruct (live_until - a_now s <=? max_ttl (host c) - 1); cbn; (split; [exact Hn|discriminate]).
  - cbn. split; [exact Hn|discriminate].
Qed.

Theorem admin_renounced_is_final : forall c s cs,
  holder (a_rt s) = None ->
  holder (a_rt (run c s cs)) = None /\
  forall cl, admin_call cl = true -> snd (step c (run c s cs) cl) = false.
Proof.
  intros c s cs. revert s. induction cs as [|cl r IH]; intros s Hn.
  - cbn. split; [exact Hn|]. intros cl Hc. apply (no_admin_step c s cl Hn). exact Hc.
  - cbn [run fold_left]. apply (IH (fst (step c s cl))). apply (no_admin_step c s cl Hn).
Qed.

(* ------------------------------------------------------------------ *)
(* exact success conditions of the role operations *)

Lemma grant_guards : forall c s au account r caller s',
  grant_role c s au account r caller = Ok s' ->
  has_auth au caller = true /\ admin_or_admin_role s r caller = true.
Proof.
  intros c s au account r caller s' H. unfold grant_role in H.
  destruct (has_auth au caller); [|discriminate]. cbn [guard bind] in H.
  destruct (admin_or_admin_role s r caller); [|discriminate]. auto.
Qed.

Lemma grant_succeeds : forall c s au account r caller,
  has_auth au caller = true -> admin_or_admin_role s r caller = true ->
  (has_role s account r = true \/ N.eqb (a_count s r) 0 = false \/
   N.eqb (N.of_nat (length (a_existing s))) (max_roles c) = false) ->
  Z.of_N (a_count s r) + 1 <= MAXU32 ->
  exists s', grant_role c s au account r caller = Ok s'.
Proof.
  intros c s au account r caller Ha Hb Hc Hd. unfold grant_role. rewrite Ha, Hb. cbn [guard bind].
  destruct (has_role s account r) eqn:Eh; [eauto|].
  unfold add_to_role_enumeration.
  assert (Hle : (Z.of_N (a_count s r) + 1 <=? MAXU32) = true) by lia.
  destruct (N.eqb (a_count s r) 0) eqn:E0.
  - destruct Hc as [Hc|[Hc|Hc]]; try discriminate. rewrite Hc. cbn [bind]. rewrite Hle. cbn. eauto.
  - cbn [bind]. rewrite Hle. cbn. eauto.
Qed.

Lemma revoke_guards : forall s au account r caller s',
  revoke_role s au account r caller = Ok s' ->
  has_auth au caller = true /\ admin_or_admin_role s r caller = true /\ has_role s account r = true.
Proof.
  intros s au account r caller s' H. unfold revoke_role in H.
  destruct (has_auth au caller); [|discriminate]. cbn [guard bind] in H.
  destruct (admin_or_admin_role s r caller); [|discriminate]. cbn [guard bind] in H.
  destruct (has_role s account r); [|discriminate]. auto.
Qed.

Lemma revoke_succeeds : forall s au account r caller, Inv s ->
  has_auth au caller = true -> admin_or_admin_role s r caller = true -> has_role s account r = true ->
  exists s', revoke_role s au account r caller = Ok s'.
Proof.
  intros s au account r caller HI Ha Hb Hc. unfold revoke_role. rewrite Ha, Hb, Hc. cbn [guard bind].
  unfold has_role in Hc. destruct (a_has s account r) as [idx|] eqn:E; [|discriminate].
  destruct (remove_spec s account r idx HI E) as [s1 [R1 _]]. rewrite R1. cbn. eauto.
Qed.

Lemma renounce_role_guards : forall s au r caller s',
  renounce_role s au r caller = Ok s' -> has_auth au caller = true /\ has_role s caller r = true.
Proof.
  intros s au r caller s' H. unfold renounce_role in H.
  destruct (has_auth au caller); [|discriminate]. cbn [guard bind] in H.
  destruct (has_role s caller r); [|discriminate]. auto.
Qed.

Lemma renounce_role_succeeds : forall s au r caller, Inv s ->
  has_auth au caller = true -> has_role s caller r = true ->
  exists s', renounce_role s au r caller = Ok s'.
Proof.
  intros s au r caller HI Ha Hc. unfold renounce_role. rewrite Ha, Hc. cbn [guard bind].
  unfold has_role in Hc. destruct (a_has s caller r) as [idx|] eqn:E; [|discriminate].
  destruct (remove_spec s caller r idx HI E) as [s1 [R1 _]]. rewrite R1. cbn. eauto.
Qed.

Definition burnt (s : st) (tok : N) : st :=
  set_nft s {| n_owner := upd (n_owner (a_nft s)) tok None; n_appr := upd (n_appr (a_nft s)) tok None |}.

Lemma burn_closed : forall c s from tok au,
  exec c s (Burn from tok au) =
  if has_role s from (burner c) && has_auth au from &&
     match n_owner (a_nft s) tok with Some o => N.eqb o from | None => false end
  then Ok (burnt s tok) else Fail.
Proof.
  intros. cbn [exec]. destruct (has_role s from (burner c)); [|reflexivity].
  destruct (has_auth au from); [|reflexivity]. cbn [guard bind andb].
  destruct (n_owner (a_nft s) tok) as [o|]; [|reflexivity]. cbn [of_option bind]. destruct (N.eqb o from); reflexivity.
Qed.

Lemma burn_from_closed : forall c s sp from tok au,
  exec c s (BurnFrom sp from tok au) =
  if has_role s sp (burner c) && has_auth au sp &&
     (N.eqb sp from || match approved_of (a_now s) (a_nft s) tok with Some ap => N.eqb ap sp | None => false end) &&
     match n_owner (a_nft s) tok with Some o => N.eqb o from | None => false end
  then Ok (burnt s tok) else Fail.
Proof.
  intros. cbn [exec]. destruct (has_role s sp (burner c)); [|reflexivity].
  destruct (has_auth au sp); [|reflexivity]. cbn [guard bind andb].
  destruct (N.eqb sp from || match approved_of (a_now s) (a_nft s) tok with Some ap => N.eqb ap sp | None => false end); [|reflexivity].
  cbn [guard bind andb].
  destruct (n_owner (a_nft s) tok) as [o|]; [|reflexivity]. cbn [of_option bind]. destruct (N.eqb o from); reflexivity.
Qed.

Lemma mint_closed : forall c s to tok caller au,
  exec c s (Mint to tok caller au) =
  if has_role s caller (minter c) && has_auth au caller
  then Ok (set_nft s {| n_owner := upd (n_owner (a_nft s)) tok (Some to); n_appr := n_appr (a_nft s) |}) else Fail.
Proof.
  intros. cbn [exec]. destruct (has_role s caller (minter c)); [|reflexivity].
  destruct (has_auth au caller); reflexivity.
Qed.

Lemma approve_guards : forall c s approver approved tok lu au s',
  exec c s (Approve approver approved tok lu au) = Ok s' ->
  has_auth au approver = true /\ n_owner (a_nft s) tok = Some approver /\
  a_now s' = a_now s /\ n_owner (a_nft s') = n_owner (a_nft s) /\
  a_rt s' = a_rt s /\ a_role_admin s' = a_role_admin s /\ same_roles s s' /\
  approved_of (a_now s') (a_nft s') tok = (if lu =? 0 then None else Some approved).
Proof.
  intros c s approver approved tok lu au s' H. cbn [exec] in H.
  destruct (has_auth au approver); [|discriminate]. cbn [guard bind] in H.
  destruct (n_owner (a_nft s) tok) as [o|]; [|discriminate]. cbn [of_option bind] in H.
  destruct (N.eqb_spec approver o); [|discriminate]. subst o. cbn [guard bind] in H.
  destruct (lu =? 0) eqn:E0.
  - inversion H; subst s'. unfold same_roles, approved_of. cbn. rewrite upd_eq. repeat split; reflexivity.
  - destruct (lu <? a_now s) eqn:El; [discriminate|]. cbn [negb guard bind] in H.
    destruct (lu - a_now s <=? max_ttl (host c) - 1); [|discriminate]. inversion H; subst s'.
    unfold same_roles, approved_of. cbn. rewrite upd_eq. rewrite El. repeat split; reflexivity.
Qed.

Lemma set_role_admin_closed : forall c s r ar au,
  exec c s (SetRoleAdmin r ar au) =
  if signed_by (holder (a_rt s)) au
  then Ok {| a_now := a_now s; a_rt := a_rt s; a_role_admin := upd (a_role_admin s) r (Some ar);
             a_has := a_has s; a_member := a_member s; a_count := a_count s;
             a_existing := a_existing s; a_nft := a_nft s |}
  else Fail.
Proof.
  intros. cbn [exec]. unfold set_role_admin. rewrite Proofs.RoleTransfer.enforce_closed. unfold signed_by.
  destruct (Proofs.RoleTransfer.signed_by (holder (a_rt s)) au) eqn:E; [|reflexivity].
  unfold Proofs.RoleTransfer.signed_by in E. destruct (holder (a_rt s)); [reflexivity|discriminate].
Qed.

(* ------------------------------------------------------------------ *)
(* the statements over all call sequences, as pinned in Properties/C06.v *)

Theorem refines_set : forall c start adm cs,
  let s := run c (init start adm) cs in
  (forall r, let l := members_list s r in
     NoDup l /\ N.of_nat (length l) = a_count s r /\
     (forall a, In a l <-> abs s a r = true) /\
     (forall i a, a_member s r i = Some a <-> nth_error l (N.to_nat i) = Some a) /\
     (forall a i, a_has s a r = Some i <-> nth_error l (N.to_nat i) = Some a) /\
     (forall i, (a_count s r <= i)%N -> a_member s r i = None)) /\
  (NoDup (a_existing s) /\ forall r, In r (a_existing s) <-> exists a, abs s a r = true) /\
  (forall cl a r, abs (fst (step c s cl)) a r = abs_after s cl (snd (step c s cl)) a r).
Proof.
  intros c start adm cs s. pose proof (inv_run c start adm cs) as HI. fold s in HI.
  split; [|split].
  - intros r. apply enumeration_exact. exact HI.
  - apply existing_exact. exact HI.
  - intros cl. apply (step_spec c s cl HI).
Qed.

Theorem grant_revoke_authority : forall c start adm cs cl a r,
  let s := run c (init start adm) cs in
  let s' := fst (step c s cl) in
  (abs s a r = false -> abs s' a r = true ->
     exists caller au, cl = Grant a r caller au /\ has_auth au caller = true /\
       (holder (a_rt s) = Some caller \/ exists ar, a_role_admin s r = Some ar /\ abs s caller ar = true)) /\
  (abs s a r = true -> abs s' a r = false ->
     (exists caller au, cl = Revoke a r caller au /\ has_auth au caller = true /\
        (holder (a_rt s) = Some caller \/ exists ar, a_role_admin s r = Some ar /\ abs s caller ar = true)) \/
     (exists au, cl = RenounceRole r a au /\ has_auth au a = true)).
Proof. intros c start adm cs cl a r s. apply membership_change_authorised. apply inv_run. Qed.

(* role admins and the admin change only through their own entry points *)
Theorem role_admin_frame : forall c s cl r,
  a_role_admin (fst (step c s cl)) r <> a_role_admin s r ->
  exists ar au, cl = SetRoleAdmin r ar au /\ signed_by (holder (a_rt s)) au = true.
Proof.
  intros c s cl r H. unfold step in H. destruct (exec c s cl) as [s'|] eqn:E; cbn [fst] in H; [|contradiction].
  destruct cl.
  - exfalso; apply H; cbn [exec] in E. unfold grant_role in E. destruct (has_auth auths caller); [|discriminate]. cbn [guard bind] in E.
    destruct (admin_or_admin_role s r0 caller); [|discriminate]. cbn [guard bind] in E.
    destruct (has_role s account r0); [inversion E; reflexivity|]. unfold add_to_role_enumeration in E.
    destruct (N.eqb (a_count s r0) 0); [destruct (N.eqb (N.of_nat (length (a_existing s))) (max_roles c)); [discriminate|]|];
    cbn [bind] in E; (destruct (Z.of_N (a_count s r0) + 1 <=? MAXU32); [|discriminate]); inversion E; reflexivity.
  - exfalso; apply H; cbn [exec] in E. unfold revoke_role in E. destruct (has_auth auths caller); [|discriminate]. cbn [guard bind] in E.
    destruct (admin_or_admin_role s r0 caller); [|discriminate]. cbn [guard bind] in E.
    destruct (has_role s account r0); [|discriminate]. cbn [guard bind] in E.
    unfold remove_from_role_enumeration in E. destruct (N.eqb (a_count s r0) 0); [discriminate|].
    destruct (a_has s account r0) as [idx|]; [|discriminate]. cbn [of_option bind] in E.
    destruct (negb (N.eqb idx (a_count s r0 - 1))); [destruct (a_member s r0 (a_count s r0 - 1)); [|discriminate]|];
    cbn in E; inversion E; reflexivity.
  - exfalso; apply H; cbn [exec] in E. unfold renounce_role in E. destruct (has_auth auths caller); [|discriminate]. cbn [guard bind] in E.
    destruct (has_role s caller r0); [|discriminate]. cbn [guard bind] in E.
    unfold remove_from_role_enumeration in E. destruct (N.eqb (a_count s r0) 0); [discriminate|].
    destruct (a_has s caller r0) as [idx|]; [|discriminate]. cbn [of_option bind] in E.
    destruct (negb (N.eqb idx (a_count s r0 - 1))); [destruct (a_member s r0 (a_count s r0 - 1)); [|discriminate]|];
    cbn in E; inversion E; reflexivity.
  - rewrite set_role_admin_closed in E. destruct (signed_by (holder (a_rt s)) auths) eqn:Es; [|discriminate].
    inversion E; subst s'. cbn [a_role_admin] in H. unfold upd in H. destruct (N.eqb_spec r r0); [|contradiction].
    subst. exists ar, auths. auto.
  - exfalso; apply H; cbn [exec] in E. destruct (offer (host c) (a_now s) auths new live_until (a_rt s)); [|discriminate]. inversion E; reflexivity.
  - exfalso; apply H; cbn [exec] in E. destruct (accept AC (a_now s) auths (a_rt s)); [|discriminate]. inversion E; reflexivity.
  - exfalso; apply H; cbn [exec] in E. destruct (renounce (a_now s) auths (a_rt s)); [|discriminate]. inversion E; reflexivity.
  - exfalso; apply H; cbn [exec] in E. destruct (enforce_holder_auth auths (a_rt s)); [|discriminate]. inversion E; reflexivity.
  - exfalso; apply H. rewrite mint_closed in E.
    destruct (has_role s caller (minter c) && has_auth auths caller); [|discriminate]. inversion E; reflexivity.
  - exfalso; apply H; cbn [exec] in E. destruct (has_any_role c s caller); [|discriminate]. destruct (has_auth auths caller); [|discriminate]. inversion E; reflexivity.
  - exfalso; apply H; cbn [exec] in E. destruct (has_any_role c s caller); [|discriminate]. destruct (has_auth auths caller); [|discriminate]. inversion E; reflexivity.
  - exfalso; apply H. rewrite burn_closed in E.
    destruct (has_role s from (burner c) && has_auth auths from && match n_owner (a_nft s) token with Some o => N.eqb o from | None => false end); [|discriminate].
    inversion E; reflexivity.
  - exfalso; apply H. rewrite burn_from_closed in E.
    destruct (has_role s spender (burner c) && has_auth auths spender && (N.eqb spender from || match approved_of (a_now s) (a_nft s) token with Some ap => N.eqb ap spender | None => false end) && match n_owner (a_nft s) token with Some o => N.eqb o from | None => false end); [|discriminate].
    inversion E; reflexivity.
  - exfalso; apply H. destruct (approve_guards _ _ _ _ _ _ _ _ E) as [_ [_ [_ [_ [_ [R _]]]]]]. rewrite R. reflexivity.
  - exfalso; apply H; cbn [exec] in E. inversion E; reflexivity.
Qed.

(* ------------------------------------------------------------------ *)
(* never more than MAX_ROLES existing roles *)
Lemma remove_first_length : forall r l, (length (remove_first r l) <= length l)%nat.
Proof. intros r l. induction l as [|x t IH]; cbn; [lia|]. destruct (N.eqb x r); cbn; lia. Qed.

Lemma remove_existing_len : forall s account r s',
  remove_from_role_enumeration s account r = Ok s' -> (length (a_existing s') <= length (a_existing s))%nat.
Proof.
  intros s account r s' H. unfold remove_from_role_enumeration in H.
  destruct (N.eqb (a_count s r) 0); [discriminate|].
  destruct (a_has s account r) as [idx|]; [|discriminate]. cbn [of_option bind] in H.
  destruct (negb (N.eqb idx (a_count s r - 1))); [destruct (a_member s r (a_count s r - 1)); [|discriminate]|];
  cbn in H; inversion H; cbn [a_existing]; (destruct (N.eqb (a_count s r - 1) 0); [apply remove_first_length|lia]).
Qed.

Lemma step_existing_len : forall c s cl,
  (N.of_nat (length (a_existing s)) <= max_roles c)%N ->
  (N.of_nat (length (a_existing (fst (step c s cl)))) <= max_roles c)%N.
Proof.
  intros c s cl Hl. unfold step. destruct (exec c s cl) as [s'|] eqn:E; cbn [fst]; [|exact Hl].
  pose proof (other_calls_same_roles c s cl s' E) as S.
  destruct cl; try (destruct S as [_ [_ [_ S]]]; rewrite S; exact Hl); cbn [exec] in E.
  - unfold grant_role in E. destruct (has_auth auths caller); [|discriminate]. cbn [guard bind] in E.
    destruct (admin_or_admin_role s r caller); [|discriminate]. cbn [guard bind] in E.
    destruct (has_role s account r); [inversion E; subst; exact Hl|]. unfold add_to_role_enumeration in E.
    destruct (N.eqb (a_count s r) 0).
    + destruct (N.eqb_spec (N.of_nat (length (a_existing s))) (max_roles c)); [discriminate|]. cbn [bind] in E.
      destruct (Z.of_N (a_count s r) + 1 <=? MAXU32); [|discriminate]. inversion E; cbn [a_existing].
      rewrite app_length. cbn [length]. lia.
    + cbn [bind] in E. destruct (Z.of_N (a_count s r) + 1 <=? MAXU32); [|discriminate]. inversion E; cbn [a_existing]. exact Hl.
  - unfold revoke_role in E. destruct (has_auth auths caller); [|discriminate]. cbn [guard bind] in E.
    destruct (admin_or_admin_role s r caller); [|discriminate]. cbn [guard bind] in E.
    destruct (has_role s account r); [|discriminate]. cbn [guard bind] in E.
    destruct (remove_from_role_enumeration s account r) as [s1|] eqn:R; [|discriminate]. inversion E; cbn [a_existing].
    pose proof (remove_existing_len _ _ _ _ R). lia.
  - unfold renounce_role in E. destruct (has_auth auths caller); [|discriminate]. cbn [guard bind] in E.
    destruct (has_role s caller r); [|discriminate]. cbn [guard bind] in E.
    destruct (remove_from_role_enumeration s caller r) as [s1|] eqn:R; [|discriminate]. inversion E; cbn [a_existing].
    pose proof (remove_existing_len _ _ _ _ R). lia.
Qed.

Theorem max_roles_bound : forall c start adm cs,
  (N.of_nat (length (a_existing (run c (init start adm) cs))) <= max_roles c)%N.
Proof.
  intros c start adm cs. unfold run. induction cs as [|cl r IH] using rev_ind.
  - cbn. lia.
  - rewrite fold_left_app. cbn [fold_left]. apply step_existing_len. exact IH.
Qed.

(* ------------------------------------------------------------------ *)
(* examples/fungible-allowlist: #[only_role(operator, "manager")] *)
From SC Require Import Model.AllowList.
Theorem allowlist_guard : forall c s user op au,
  al_step c s (AllowUser user op au) =
    (if has_role (al_s s) op (al_manager c) && has_auth au op
     then ({| al_s := al_s s; al_allowed := upd (al_allowed s) user true |}, true) else (s, false)) /\
  al_step c s (DisallowUser user op au) =
    (if has_role (al_s s) op (al_manager c) && has_auth au op
     then ({| al_s := al_s s; al_allowed := upd (al_allowed s) user false |}, true) else (s, false)).
Proof. intros. split; reflexivity. Qed.

(* the allow flags change only through a guarded call; in particular never by the passing of time *)
Theorem allowlist_frame : forall c s cl a,
  al_allowed (fst (al_step c s cl)) a <> al_allowed s a ->
  exists op au, (cl = AllowUser a op au \/ cl = DisallowUser a op au) /\
    has_role (al_s s) op (al_manager c) = true /\ has_auth au op = true.
Proof.
  intros c s cl a H. destruct cl as [cl|user op au|user op au]; cbn [al_step] in H.
  - destruct (Access.step (al_c c) (al_s s) cl). cbn in H. contradiction.
  - unfold manager_guard in H. destruct (has_role (al_s s) op (al_manager c)) eqn:E1; [|cbn in H; contradiction].
    destruct (has_auth au op) eqn:E2; [|cbn in H; contradiction]. cbn in H. unfold upd in H.
    destruct (N.eqb_spec a user); [|contradiction]. subst. exists op, au. auto.
  - unfold manager_guard in H. destruct (has_role (al_s s) op (al_manager c)) eqn:E1; [|cbn in H; contradiction].
    destruct (has_auth au op) eqn:E2; [|cbn in H; contradiction]. cbn in H. unfold upd in H.
    destruct (N.eqb_spec a user); [|contradiction]. subst. exists op, au. auto.
Qed.

(* ------------------------------------------------------------------ *)
(* WHO is the admin: the admin part of the state (a_now, a_rt) is a run of the C07 handshake machine *)

Definition hand_call (cl : call) : RoleTransfer.call :=
  match cl with
  | TransferAdmin n lu au => RoleTransfer.Offer n lu au
  | AcceptAdmin au => RoleTransfer.Accept au
  | RenounceAdmin au => RoleTransfer.Renounce au
  | AdminRestricted au => RoleTransfer.Guarded au
  | Advance n => RoleTransfer.Advance n
  | _ => RoleTransfer.Advance 0
  end.
Definition hand_state (s : st) : RoleTransfer.state := {| now := a_now s; rts := a_rt s; ctr := 0 |}.

Lemma remove_rest : forall s account r s',
  remove_from_role_enumeration s account r = Ok s' -> a_now s' = a_now s /\ a_rt s' = a_rt s.
Proof.
  intros s account r s' H. unfold remove_from_role_enumeration in H.
  destruct (N.eqb (a_count s r) 0); [discriminate|].
  destruct (a_has s account r) as [idx|]; [|discriminate]. cbn [of_option bind] in H.
  destruct (negb (N.eqb idx (a_count s r - 1))); [destruct (a_member s r (a_count s r - 1)); [|discriminate]|];
  cbn in H; inversion H; cbn; auto.
Qed.

(* one step of the contract = one step of the handshake machine on (ledger, admin, pending admin) *)
Lemma hand_step_proj : forall c s cl,
  let r := RoleTransfer.step AC (host c) (hand_state s) (hand_call cl) in
  now (fst r) = a_now (fst (step c s cl)) /\ rts (fst r) = a_rt (fst (step c s cl)) /\
  match cl with
  | TransferAdmin _ _ _ | AcceptAdmin _ | RenounceAdmin _ | AdminRestricted _ =>
      snd r = if snd (step c s cl) then Ok 0 else Fail
  | _ => snd r = Ok 0
  end.
Proof.
  intros c s cl. unfold step.
  assert (Same : forall s', a_now s' = a_now s -> a_rt s' = a_rt s ->
            now (fst (RoleTransfer.step AC (host c) (hand_state s) (RoleTransfer.Advance 0))) = a_now s' /\
            rts (fst (RoleTransfer.step AC (host c) (hand_state s) (RoleTransfer.Advance 0))) = a_rt s' /\
            snd (RoleTransfer.step AC (host c) (hand_state s) (RoleTransfer.Advance 0)) = Ok 0).
  { intros s' A B. cbn. rewrite A, B. repeat split; auto. lia. }
  destruct cl; cbn [hand_call exec].
  - unfold grant_role. destruct (has_auth auths caller); cbn [guard bind]; [|apply Same; reflexivity].
    destruct (admin_or_admin_role s r caller); cbn [guard bind]; [|apply Same; reflexivity].
    destruct (has_role s account r); [apply Same; reflexivity|]. unfold add_to_role_enumeration.
    destruct (N.eqb (a_count s r) 0); [destruct (N.eqb (N.of_nat (length (a_existing s))) (max_roles c)); [apply Same; reflexivity|]|];
    cbn [bind]; (destruct (Z.of_N (a_count s r) + 1 <=? MAXU32); cbn [guard bind fst]; apply Same; reflexivity).
  - unfold revoke_role. destruct (has_auth auths caller); cbn [guard bind]; [|apply Same; reflexivity].
    destruct (admin_or_admin_role s r caller); cbn [guard bind]; [|apply Same; reflexivity].
    destruct (has_role s account r); cbn [guard bind]; [|apply Same; reflexivity].
    destruct (remove_from_role_enumeration s account r) as [s1|] eqn:E; cbn [bind fst]; [|apply Same; reflexivity].
    destruct (remove_rest _ _ _ _ E). apply Same; cbn; assumption.
  - unfold renounce_role. destruct (has_auth auths caller); cbn [guard bind]; [|apply Same; reflexivity].
    destruct (has_role s caller r); cbn [guard bind]; [|apply Same; reflexivity].
    destruct (remove_from_role_enumeration s caller r) as [s1|] eqn:E; cbn [bind fst]; [|apply Same; reflexivity].
    destruct (remove_rest _ _ _ _ E). apply Same; cbn; assumption.
  - unfold set_role_admin. destruct (enforce_holder_auth auths (a_rt s)); cbn [bind fst]; apply Same; reflexivity.
  - cbn [RoleTransfer.step hand_state now rts]. destruct (offer (host c) (a_now s) auths new live_until (a_rt s)); cbn; auto.
  - cbn [RoleTransfer.step hand_state now rts]. destruct (accept AC (a_now s) auths (a_rt s)); cbn; auto.
  - cbn [RoleTransfer.step hand_state now rts]. destruct (renounce (a_now s) auths (a_rt s)); cbn; auto.
  - cbn [RoleTransfer.step hand_state now rts]. destruct (enforce_holder_auth auths (a_rt s)); cbn; auto.
  - destruct (has_role s caller (minter c)); cbn [guard bind]; [|apply Same; reflexivity].
    destruct (has_auth auths caller); cbn [guard bind fst]; apply Same; reflexivity.
  - destruct (has_any_role c s caller); cbn [guard bind]; [|apply Same; reflexivity].
    destruct (has_auth auths caller); cbn [guard bind fst]; apply Same; reflexivity.
  - destruct (has_any_role c s caller); cbn [guard bind]; [|apply Same; reflexivity].
    destruct (has_auth auths caller); cbn [guard bind fst]; apply Same; reflexivity.
  - destruct (has_role s from (burner c)); cbn [guard bind]; [|apply Same; reflexivity].
    destruct (has_auth auths from); cbn [guard bind]; [|apply Same; reflexivity].
    destruct (n_owner (a_nft s) token) as [o|]; cbn [of_option bind]; [|apply Same; reflexivity].
    destruct (N.eqb o from); cbn [guard bind fst]; apply Same; reflexivity.
  - destruct (has_role s spender (burner c)); cbn [guard bind]; [|apply Same; reflexivity].
    destruct (has_auth auths spender); cbn [guard bind]; [|apply Same; reflexivity].
    destruct (N.eqb spender from || match approved_of (a_now s) (a_nft s) token with Some ap => N.eqb ap spender | None => false end); cbn [guard bind]; [|apply Same; reflexivity].
    destruct (n_owner (a_nft s) token) as [o|]; cbn [of_option bind]; [|apply Same; reflexivity].
    destruct (N.eqb o from); cbn [guard bind fst]; apply Same; reflexivity.
  - destruct (has_auth auths approver); cbn [guard bind]; [|apply Same; reflexivity].
    destruct (n_owner (a_nft s) token) as [o|]; cbn [of_option bind]; [|apply Same; reflexivity].
    destruct (N.eqb approver o); cbn [guard bind]; [|apply Same; reflexivity].
    destruct (live_until =? 0); [cbn [fst]; apply Same; reflexivity|].
    destruct (negb (live_until <? a_now s)); cbn [guard bind]; [|apply Same; reflexivity].
    destruct (live_until - a_now s <=? max_ttl (host c) - 1); cbn [guard bind fst]; apply Same; reflexivity.
  - cbn. repeat split; auto.
Qed.

Theorem admin_is_handshake_run : forall c s cs,
  now (RoleTransfer.run AC (host c) (hand_state s) (map hand_call cs)) = a_now (run c s cs) /\
  rts (RoleTransfer.run AC (host c) (hand_state s) (map hand_call cs)) = a_rt (run c s cs).
Proof.
  intros c s cs. revert s. induction cs as [|cl r IH]; intros s; [split; reflexivity|].
  cbn [map]. rewrite Proofs.RoleTransfer.run_cons. change (run c s (cl :: r)) with (run c (fst (step c s cl)) r).
  destruct (hand_step_proj c s cl) as [A [B _]].
  specialize (IH (fst (step c s cl))).
  (* the handshake machine only looks at (now, rts) *)
  assert (Ext : forall cs st st', now st = now st' -> rts st = rts st' ->
            now (RoleTransfer.run AC (host c) st cs) = now (RoleTransfer.run AC (host c) st' cs) /\
            rts (RoleTransfer.run AC (host c) st cs) = rts (RoleTransfer.run AC (host c) st' cs)).
  { clear. intros cs. induction cs as [|cl r IH]; intros st st' A B; [auto|].
    rewrite !Proofs.RoleTransfer.run_cons. apply IH.
    - destruct cl; cbn [RoleTransfer.step]; rewrite <- ?A, <- ?B;
        repeat match goal with |- context [match ?x with Ok _ => _ | Fail => _ end] => destruct x end; cbn; auto; lia.
    - destruct cl; cbn [RoleTransfer.step]; rewrite <- ?A, <- ?B;
        repeat match goal with |- context [match ?x with Ok _ => _ | Fail => _ end] => destruct x end; cbn; auto. }
  destruct (Ext (map hand_call r) (fst (RoleTransfer.step AC (host c) (hand_state s) (hand_call cl))) (hand_state (fst (step c s cl))) A B) as [E1 E2].
  rewrite E1, E2. exact IH.
Qed.

(* the admin changes only by a successful accept_admin_transfer (to an authorising account, the live pending
   admin) or a successful renounce_admin (authorised by the admin); never otherwise, never by the passing of time *)
Theorem admin_frame : forall c s cl,
  holder (a_rt (fst (step c s cl))) <> holder (a_rt s) ->
  snd (step c s cl) = true /\
  ((exists au new, cl = AcceptAdmin au /\ holder (a_rt s) <> None /\ tget (a_now s) (pending (a_rt s)) = Some new /\
                   has_auth au new = true /\ holder (a_rt (fst (step c s cl))) = Some new) \/
   (exists au, cl = RenounceAdmin au /\ signed_by (holder (a_rt s)) au = true /\
               tget (a_now s) (pending (a_rt s)) = None /\ holder (a_rt (fst (step c s cl))) = None)).
Proof.
  intros c s cl H. destruct (hand_step_proj c s cl) as [_ [B _]].
  destruct cl; cbn [hand_call] in B;
    try (exfalso; apply H; rewrite <- B; cbn; reflexivity).
  - exfalso. apply H. rewrite <- B. cbn. unfold offer. destruct (enforce_holder_auth auths (a_rt s)); cbn; [|reflexivity].
    destruct (transfer_role (host c) (a_now s) (pending (a_rt s)) new live_until); reflexivity.
  - unfold step in *. cbn [exec] in *. unfold accept, accept_transfer in *.
    destruct (holder (a_rt s)) as [hh|] eqn:Eh; [|exfalso; apply H; cbn; rewrite Eh; reflexivity].
    destruct (tget (a_now s) (pending (a_rt s))) as [pa|] eqn:Et; [|exfalso; apply H; cbn; rewrite Eh; reflexivity].
    destruct (has_auth auths pa) eqn:Ea; [|exfalso; apply H; cbn; rewrite Eh; reflexivity].
    cbn. split; [reflexivity|]. left. exists auths, pa. repeat split; auto. discriminate.
  - unfold step in *. cbn [exec] in *. unfold renounce in *. rewrite Proofs.RoleTransfer.enforce_closed in *.
    unfold signed_by. destruct (Proofs.RoleTransfer.signed_by (holder (a_rt s)) auths) eqn:Es; [|exfalso; apply H; reflexivity].
    destruct (holder (a_rt s)) as [hh|] eqn:Eh; [|discriminate]. cbn [of_option bind] in *.
    destruct (tget (a_now s) (pending (a_rt s))) eqn:Et; [exfalso; apply H; cbn; rewrite Eh; reflexivity|].
    cbn. split; [reflexivity|]. right. exists auths. repeat split; auto.
  - exfalso. apply H. rewrite <- B. cbn. destruct (enforce_holder_auth auths (a_rt s)); reflexivity.
Qed.

Theorem init_empty : forall start adm a r, abs (init start adm) a r = false.
Proof. reflexivity. Qed.

Theorem accept_admin_semantics : forall c s au,
  snd (step c s (AcceptAdmin au)) = true ->
  holder (a_rt s) <> None /\
  exists new, tget (a_now s) (pending (a_rt s)) = Some new /\ has_auth au new = true /\
              holder (a_rt (fst (step c s (AcceptAdmin au)))) = Some new.
Proof.
  intros c s au H. unfold step in *. cbn [exec] in *. unfold accept, accept_transfer in *.
  destruct (holder (a_rt s)) as [hh|]; [|discriminate].
  destruct (tget (a_now s) (pending (a_rt s))) as [pa|]; [|discriminate].
  destruct (has_auth au pa) eqn:Ea; [|discriminate]. cbn. split; [discriminate|]. exists pa. auto.
Qed.

(* the set "granted and not since revoked", read off the history of successful calls *)
Fixpoint outcomes (c : cfg) (s : st) (cs : list call) : list (call * bool) :=
  match cs with
  | [] => []
  | cl :: r => (cl, snd (step c s cl)) :: outcomes c (fst (step c s cl)) r
  end.
Definition set_op (acc : addr -> role -> bool) (co : call * bool) : addr -> role -> bool :=
  fun a r' =>
    if snd co then
      match fst co with
      | Grant account r _ _ => acc a r' || (N.eqb a account && N.eqb r' r)
      | Revoke account r _ _ => acc a r' && negb (N.eqb a account && N.eqb r' r)
      | RenounceRole r caller _ => acc a r' && negb (N.eqb a caller && N.eqb r' r)
      | _ => acc a r'
      end
    else acc a r'.

Lemma fold_set_op_ext : forall l acc acc', (forall a r, acc a r = acc' a r) ->
  forall a r, fold_left set_op l acc a r = fold_left set_op l acc' a r.
Proof.
  intros l. induction l as [|co t IH]; intros acc acc' H a r; [apply H|].
  cbn [fold_left]. apply IH. intros a0 r0. unfold set_op. destruct (snd co); [|apply H].
  destruct (fst co); rewrite ?H; reflexivity.
Qed.

Theorem set_is_history : forall c start adm cs a r,
  abs (run c (init start adm) cs) a r =
  fold_left set_op (outcomes c (init start adm) cs) (fun _ _ => false) a r.
Proof.
  intros c start adm cs.
  assert (G : forall cs s acc, Inv s -> (forall a r, abs s a r = acc a r) ->
            forall a r, abs (run c s cs) a r = fold_left set_op (outcomes c s cs) acc a r).
  { clear cs. intros cs. induction cs as [|cl t IH]; intros s acc HI H a r; [apply H|].
    cbn [outcomes fold_left]. change (run c s (cl :: t)) with (run c (fst (step c s cl)) t).
    destruct (step_spec c s cl HI) as [HI' [HA _]].
    rewrite (IH (fst (step c s cl)) (set_op acc (cl, snd (step c s cl))) HI'); [reflexivity|].
    intros a0 r0. rewrite HA. unfold abs_after, set_op. cbn [fst snd].
    destruct (snd (step c s cl)); [|apply H]. destruct cl; rewrite ?H; reflexivity. }
  intros a r. apply G; [apply inv_init|]. intros; reflexivity.
Qed.
