(* C03 - the theorems pinned in Properties/C03.v, for every reachable account state. *)
From SC Require Import Lib.Prelude Lib.Int Lib.Host Model.SmartAccount Proofs.SmartAccount Proofs.SmartAccountInv Run.C03 Proofs.C03Monitor.
From Coq Require Import Sorted.

(* "r is applicable to c": matching type or Default *)
Definition applicable (c : ctx) (r : rule) : Prop := r_type r = ctx_type c \/ r_type r = TDefault.
Definition not_expired (now : Z) (r : rule) : Prop := match r_valid r with Some u => now <= u | None => True end.

Lemma expired_false now r : expired now r = false <-> not_expired now r.
Proof. unfold expired, not_expired. destruct (r_valid r) as [u|]; [rewrite Z.ltb_ge; tauto|tauto]. Qed.

Lemma validated_props O a now supplied c r c' au :
  wf a -> validated O a now supplied c (r, c', au) ->
  c' = c /\ au = auth_of r supplied /\
  In r (a_rules a) /\ applicable c r /\ not_expired now r /\ requirement O c supplied r /\
  (forall r', In r' (a_rules a) -> applicable c r' -> not_expired now r' -> before r' r = true ->
              rstatus O c supplied r' = RUnsat).
Proof.
  intros W [-> [-> [L [EL [Ef Es]]]]]. rewrite (get_valid_context_rules_wf a now _ W) in EL. inversion EL; subst L.
  pose proof (valid_list_sorted a now (ctx_type c) W (ctx_type_not_default c)) as Sorted.
  destruct (first_decisive_max _ _ _ _ _ Sorted Ef) as [Hin [Hns Hmax]].
  apply In_valid_list in Hin. destruct Hin as [Hr [Ht He]].
  split; [reflexivity|]. split; [reflexivity|]. split; [exact Hr|]. split; [exact Ht|].
  split; [apply expired_false; exact He|]. split; [apply rstatus_sat; exact Es|].
  intros r' Hr' Ha' He' Hb.
  destruct (rstatus O c supplied r') eqn:Es'; [|reflexivity|]; exfalso.
  - assert (Hin' : In r' (valid_list a now (ctx_type c))) by (apply In_valid_list; split; [exact Hr'|split; [exact Ha'|apply expired_false; exact He']]).
    assert (Hne : r' <> r) by (intros ->; rewrite before_irrefl in Hb; discriminate).
    pose proof (Hmax r' Hin' ltac:(congruence) Hne) as H. rewrite (before_asym _ _ Hb) in H. discriminate.
  - assert (Hin' : In r' (valid_list a now (ctx_type c))) by (apply In_valid_list; split; [exact Hr'|split; [exact Ha'|apply expired_false; exact He']]).
    assert (Hne : r' <> r) by (intros ->; rewrite before_irrefl in Hb; discriminate).
    pose proof (Hmax r' Hin' ltac:(congruence) Hne) as H. rewrite (before_asym _ _ Hb) in H. discriminate.
Qed.

(* ---------- soundness ---------- *)
Theorem sound_reachable cfg calls O now auths sigs cs log :
  let a := s_acct (run cfg init calls) in
  do_check_auth O a now auths sigs cs = Ok log ->
  (forall x, In x sigs -> verified O auths x) /\
  forall c, In c cs -> exists r,
    In r (a_rules a) /\ applicable c r /\ not_expired now r /\ requirement O c (map fst sigs) r.
Proof.
  intros a H. pose proof (reachable_wf cfg calls) as W. fold a in W.
  destruct (do_check_auth_ok _ _ _ _ _ _ _ H) as [Hs [vs [Hf _]]]. split; [exact Hs|].
  intros c Hc. clear H. induction Hf as [|c0 v cs0 vs0 Hv Hf IH]; [destruct Hc|].
  destruct Hc as [->|Hc]; [|auto]. destruct v as [[r c'] au].
  destruct (validated_props _ _ _ _ _ _ _ _ W Hv) as [_ [_ [H1 [H2 [H3 [H4 _]]]]]]. eauto.
Qed.

(* ---------- precedence + enforce log ---------- *)
(* r is the rule that decides c: applicable, unexpired, requirement met, and every applicable
   unexpired rule that is tried before it (type-specific before Default, then newest id first)
   does not have its requirement met *)
Definition decides (O : oracles) (a : acct) (now : Z) (supplied : list signer) (c : ctx) (r : rule) : Prop :=
  In r (a_rules a) /\ applicable c r /\ not_expired now r /\ requirement O c supplied r /\
  forall r', In r' (a_rules a) -> applicable c r' -> not_expired now r' -> before r' r = true ->
             ~ requirement O c supplied r'.

Definition enforce_calls (supplied : list signer) (c : ctx) (r : rule) : list event :=
  map (fun p => EEnforce p c (filter (fun s => mem_s s supplied) (r_signers r)) r) (r_policies r).

Lemma decides_unique O a now supplied c r1 r2 :
  wf a -> decides O a now supplied c r1 -> decides O a now supplied c r2 -> r1 = r2.
Proof.
  intros W [I1 [A1 [E1 [R1 P1]]]] [I2 [A2 [E2 [R2 P2]]]].
  destruct (Z.eq_dec (r_id r1) (r_id r2)) as [E|E]; [apply (wf_id_inj a r1 r2 W I1 I2 E)|].
  destruct (before_total r1 r2 E) as [H|H]; exfalso.
  - apply (P2 r1 I1 A1 E1 H R1).
  - apply (P1 r2 I2 A2 E2 H R2).
Qed.

Lemma enf_events_shape supplied crs :
  flat_map enf_events (map (fun cr : ctx * rule => (snd cr, fst cr, auth_of (snd cr) supplied)) crs)
  = concat (map (fun cr => enforce_calls supplied (fst cr) (snd cr)) crs).
Proof.
  induction crs as [|[c r] rest IH]; [reflexivity|]. cbn [map flat_map concat fst snd]. rewrite IH. reflexivity.
Qed.

Lemma validated_shape O a now supplied cs vs :
  wf a -> Forall2 (validated O a now supplied) cs vs ->
  Forall2 (decides O a now supplied) cs (map (fun v => fst (fst v)) vs) /\
  vs = map (fun cr : ctx * rule => (snd cr, fst cr, auth_of (snd cr) supplied)) (combine cs (map (fun v => fst (fst v)) vs)).
Proof.
  intros W Hf. induction Hf as [|c v cs0 vs0 Hv Hf IH]; [split; [constructor|reflexivity]|].
  destruct IH as [I1 I2]. destruct v as [[r c'] au].
  destruct (validated_props _ _ _ _ _ _ _ _ W Hv) as [-> [-> [H1 [H2 [H3 [H4 H5]]]]]].
  cbn [map fst snd combine]. split.
  - constructor; [|exact I1]. repeat (split; [assumption|]).
    intros r' Hr' Ha' He' Hb Hreq. apply rstatus_sat in Hreq. rewrite (H5 r' Hr' Ha' He' Hb) in Hreq. discriminate.
  - rewrite <- I2. reflexivity.
Qed.

Theorem precedence_reachable cfg calls O now auths sigs cs log :
  let a := s_acct (run cfg init calls) in
  do_check_auth O a now auths sigs cs = Ok log ->
  exists rs, Forall2 (decides O a now (map fst sigs)) cs rs /\
             filter is_enf log = concat (map (fun cr => enforce_calls (map fst sigs) (fst cr) (snd cr)) (combine cs rs)) /\
             accepted_seq O [] (concat (map (fun cr => enforce_calls (map fst sigs) (fst cr) (snd cr)) (combine cs rs))) = true.
Proof.
  intros a H. pose proof (reachable_wf cfg calls) as W. fold a in W.
  destruct (do_check_auth_ok _ _ _ _ _ _ _ H) as [_ [vs [Hf [He Hl]]]].
  destruct (validated_shape _ _ _ _ _ _ W Hf) as [Hd Hs].
  exists (map (fun v => fst (fst v)) vs). split; [exact Hd|].
  rewrite <- enf_events_shape, <- Hs. split; assumption.
Qed.

(* nothing but verify / can_enforce / enforce calls happens during a check *)
Definition is_check_event (e : event) : bool :=
  match e with EVerify _ _ _ | ECan _ _ _ _ | EEnforce _ _ _ _ => true | _ => false end.

Lemma authenticate_events O auths sigs l : authenticate O auths sigs = Ok l -> forallb is_check_event l = true.
Proof.
  revert l. induction sigs as [|[s d] r IH]; intros l H; cbn [authenticate] in H; [inversion H; reflexivity|].
  destruct s as [x|v k].
  - destruct (has_auth auths x); [auto|discriminate].
  - destruct (o_verify O v k d) as [[|]|]; try discriminate.
    destruct (authenticate O auths r) as [l'|]; [|discriminate]. cbn in H. inversion H; subst. cbn. auto.
Qed.

Lemma can_enforce_all_events O ps c au r b l :
  can_enforce_all O ps c au r = Ok (b, l) -> forallb is_check_event l = true.
Proof.
  revert b l. induction ps as [|p rest IH]; intros b l H; cbn [can_enforce_all] in H; [inversion H; reflexivity|].
  destruct (o_can O p c au r) as [[|]|]; [| |discriminate].
  - destruct (can_enforce_all O rest c au r) as [[b' l']|]; [|discriminate]. cbn in H. inversion H; subst. cbn. eauto.
  - inversion H; subst. reflexivity.
Qed.

Lemma select_events O rules c supplied r au l :
  select O rules c supplied = Ok (r, au, l) -> forallb is_check_event l = true.
Proof.
  revert r au l. induction rules as [|x rest IH]; intros r au l H; cbn [select] in H; [discriminate|].
  destruct (isnil (r_policies x)).
  - destruct (zlen (r_signers x) =? zlen _); [inversion H; reflexivity|eauto].
  - destruct (can_enforce_all O (r_policies x) c _ x) as [[b l1]|] eqn:E; [|discriminate]. cbn [bind] in H.
    pose proof (can_enforce_all_events _ _ _ _ _ _ _ E) as H1. destruct b; [inversion H; subst; exact H1|].
    destruct (select O rest c supplied) as [[[r' au'] l']|] eqn:E2; [|discriminate]. cbn in H. inversion H; subst.
    rewrite forallb_app, H1. cbn [andb]. eauto.
Qed.

Lemma validate_all_events O a now cs supplied vs l :
  validate_all O a now cs supplied = Ok (vs, l) -> forallb is_check_event l = true.
Proof.
  revert vs l. induction cs as [|c rest IH]; intros vs l H; cbn [validate_all] in H; [inversion H; reflexivity|].
  destruct (get_validated_context O a now c supplied) as [[[r au] l1]|] eqn:E1; [|discriminate]. cbn [bind] in H.
  destruct (validate_all O a now rest supplied) as [[vs' l2]|] eqn:E2; [|discriminate]. cbn in H. inversion H; subst.
  rewrite forallb_app, (IH _ _ eq_refl), andb_true_r.
  unfold get_validated_context in E1. destruct (get_valid_context_rules a now (ctx_type c)); [|discriminate].
  cbn [bind] in E1. eapply select_events; eauto.
Qed.

Theorem check_events_only O a now auths sigs cs log :
  do_check_auth O a now auths sigs cs = Ok log -> forallb is_check_event log = true.
Proof.
  unfold do_check_auth. intros H.
  destruct (authenticate O auths sigs) as [lv|] eqn:Ea; [|discriminate]. cbn [bind] in H.
  destruct (validate_all O a now cs (map fst sigs)) as [[vs lc]|] eqn:Ev; [|discriminate]. cbn [bind] in H.
  rewrite enforce_all_spec in H. destruct (accepted_seq O [] (flat_map enf_events vs)); [|discriminate]. cbn in H. inversion H; subst.
  rewrite !forallb_app, (authenticate_events _ _ _ _ Ea), (validate_all_events _ _ _ _ _ _ _ Ev). cbn [andb].
  clear. induction vs as [|[[r c] au] rest IH]; [reflexivity|]. cbn [flat_map]. rewrite forallb_app, IH, andb_true_r.
  unfold enf_events. induction (r_policies r); [reflexivity|]. cbn. assumption.
Qed.

(* ---------- completeness ---------- *)
Lemma pstatus_no_trap O ps c au r :
  (forall p, In p ps -> o_can O p c au r <> None) -> pstatus O ps c au r <> RTrap.
Proof.
  intros H. induction ps as [|p rest IH]; cbn [pstatus]; [discriminate|].
  destruct (o_can O p c au r) as [[|]|] eqn:E.
  - apply IH. intros q Hq. apply H. right. exact Hq.
  - discriminate.
  - exfalso. exact (H p (or_introl eq_refl) E).
Qed.

Lemma rstatus_no_trap O c supplied r :
  (forall p, In p (r_policies r) -> o_can O p c (auth_of r supplied) r <> None) -> rstatus O c supplied r <> RTrap.
Proof.
  intros H. unfold rstatus. destruct (isnil (r_policies r)).
  - destruct (forallb _ _); discriminate.
  - apply pstatus_no_trap. exact H.
Qed.

Theorem complete_reachable cfg calls O now auths sigs cs :
  let a := s_acct (run cfg init calls) in
  (* no can_enforce hook that the check can consult traps: those of the stored, applicable,
     unexpired rules, on the contexts of the batch and the rule's own supplied signers *)
  (forall c r p, In c cs -> In r (a_rules a) -> applicable c r -> not_expired now r -> In p (r_policies r) ->
     o_can O p c (filter (fun s => mem_s s (map fst sigs)) (r_signers r)) r <> None) ->
  (forall x, In x sigs -> verified O auths x) ->
  (forall c, In c cs -> exists r,
     In r (a_rules a) /\ applicable c r /\ not_expired now r /\ requirement O c (map fst sigs) r) ->
  exists rs, Forall2 (decides O a now (map fst sigs)) cs rs /\
    let calls := concat (map (fun cr => enforce_calls (map fst sigs) (fst cr) (snd cr)) (combine cs rs)) in
    (accepted_seq O [] calls = true -> exists log, do_check_auth O a now auths sigs cs = Ok log) /\
    (accepted_seq O [] calls = false -> do_check_auth O a now auths sigs cs = Fail).
Proof.
  intros a Hnt Hs Hex. pose proof (reachable_wf cfg calls) as W. fold a in W.
  set (supplied := map fst sigs) in *.
  (* every context has a validated choice *)
  assert (Hv : exists vs, Forall2 (validated O a now supplied) cs vs).
  { clear Hs. induction cs as [|c rest IH]; [exists []; constructor|].
    destruct IH as [vs Hvs]; [intros c' r' p' Hc'; apply Hnt; right; exact Hc'|intros c' Hc'; apply Hex; right; exact Hc'|].
    destruct (Hex c (or_introl eq_refl)) as [r [Hr [Ha [He Hq]]]].
    assert (Hin : In r (valid_list a now (ctx_type c))) by (apply In_valid_list; split; [exact Hr|split; [exact Ha|apply expired_false; exact He]]).
    destruct (first_decisive O c supplied (valid_list a now (ctx_type c))) as [h|] eqn:Ef.
    - destruct (first_decisive_split _ _ _ _ _ Ef) as [_ [_ [_ [_ Hn]]]].
      assert (Hsat : rstatus O c supplied h = RSat).
      { assert (Hh : In h (valid_list a now (ctx_type c))).
        { destruct (first_decisive_split _ _ _ _ _ Ef) as [pre [post [Esp _]]]. rewrite Esp. apply in_or_app. right. left. reflexivity. }
        apply In_valid_list in Hh. destruct Hh as [Hh1 [Hh2 Hh3]].
        pose proof (rstatus_no_trap O c supplied h
          (fun p Hp => Hnt c h p (or_introl eq_refl) Hh1 Hh2 (proj1 (expired_false now h) Hh3) Hp)).
        destruct (rstatus O c supplied h); congruence. }
      exists ((h, c, auth_of h supplied) :: vs). constructor; [|exact Hvs].
      cbn. split; [reflexivity|]. split; [reflexivity|]. exists (valid_list a now (ctx_type c)).
      split; [apply get_valid_context_rules_wf; exact W|]. auto.
    - exfalso. apply rstatus_sat in Hq. rewrite (proj1 (first_decisive_none _ _ _ _) Ef r Hin) in Hq. discriminate. }
  destruct Hv as [vs Hf]. exists (map (fun v => fst (fst v)) vs).
  destruct (validated_shape _ _ _ _ _ _ W Hf) as [Hd Hshape].
  split; [exact Hd|]. cbn zeta. rewrite <- enf_events_shape, <- Hshape. split.
  - intros Hall. apply (do_check_auth_complete O a now auths sigs cs vs Hs Hf Hall).
  - intros Hfalse.
    destruct (do_check_auth O a now auths sigs cs) as [log|] eqn:E; [|reflexivity]. exfalso.
    destruct (do_check_auth_ok _ _ _ _ _ _ _ E) as [_ [vs' [Hf' [He' _]]]].
    rewrite (Forall2_validated_fun _ _ _ _ _ _ _ Hf' Hf) in He'. congruence.
Qed.

(* ---------- signers the rules do not name never count ---------- *)
Lemma select_foreign O rules c supplied extra :
  (forall r s, In r rules -> In s extra -> ~ In s (r_signers r)) ->
  select O rules c (supplied ++ extra) = select O rules c supplied.
Proof.
  induction rules as [|x rest IH]; intros H; [reflexivity|]. cbn [select].
  change (get_authenticated_signers (r_signers x) (supplied ++ extra)) with (auth_of x (supplied ++ extra)).
  change (get_authenticated_signers (r_signers x) supplied) with (auth_of x supplied).
  rewrite (auth_of_foreign x supplied extra) by (intros s Hs; apply (H x s); [left; reflexivity|exact Hs]).
  rewrite IH by (intros r s Hr Hs; apply H; [right; exact Hr|exact Hs]). reflexivity.
Qed.

Lemma collect_In a now ids acc l : collect a now ids acc = Ok l ->
  forall r, In r l -> In r acc \/ In r (a_rules a).
Proof.
  revert acc l. induction ids as [|id rest IH]; intros acc l H r Hr; cbn [collect] in H.
  - inversion H; subst. left. exact Hr.
  - destruct (get_context_rule a id) as [x|] eqn:E; [|discriminate]. cbn [bind] in H.
    apply get_context_rule_some in E. apply get_rule_some in E. destruct E as [Ex _].
    destruct (expired now x); [eauto|].
    destruct (IH _ _ H r Hr) as [[->|Ha]|Ha]; auto.
Qed.

Lemma valid_rules_In a now t L : get_valid_context_rules a now t = Ok L -> forall r, In r L -> In r (a_rules a).
Proof.
  unfold get_valid_context_rules. intros H r Hr.
  destruct (collect a now (ids_of a t) []) as [m|] eqn:E1; [|discriminate]. cbn [bind] in H.
  destruct (collect a now (ids_of a TDefault) []) as [d|] eqn:E2; [|discriminate]. cbn in H. inversion H; subst.
  apply in_app_or in Hr. destruct Hr as [Hr|Hr].
  - destruct (collect_In _ _ _ _ _ E1 r Hr) as [[]|]; assumption.
  - destruct (collect_In _ _ _ _ _ E2 r Hr) as [[]|]; assumption.
Qed.

Lemma validate_all_foreign O a now cs supplied extra :
  (forall r s, In r (a_rules a) -> In s extra -> ~ In s (r_signers r)) ->
  validate_all O a now cs (supplied ++ extra) = validate_all O a now cs supplied.
Proof.
  intros H. induction cs as [|c rest IH]; [reflexivity|]. cbn [validate_all]. rewrite IH.
  unfold get_validated_context. destruct (get_valid_context_rules a now (ctx_type c)) as [L|] eqn:EL; [|reflexivity].
  cbn [bind]. rewrite select_foreign; [reflexivity|].
  intros r s Hr Hs. apply H; [eapply valid_rules_In; eauto|exact Hs].
Qed.

Lemma authenticate_app O auths s1 s2 :
  authenticate O auths (s1 ++ s2) =
  (do l1 <- authenticate O auths s1; do l2 <- authenticate O auths s2; Ok (l1 ++ l2)).
Proof.
  induction s1 as [|[s d] r IH]; cbn [app authenticate].
  - cbn [bind]. destruct (authenticate O auths s2); reflexivity.
  - destruct s as [x|v k].
    + destruct (has_auth auths x); [exact IH|reflexivity].
    + destruct (o_verify O v k d) as [[|]|]; try reflexivity. rewrite IH.
      destruct (authenticate O auths r); [|reflexivity]. cbn [bind].
      destruct (authenticate O auths s2); reflexivity.
Qed.

Theorem foreign_signers_dont_count O a now auths sigs extra cs :
  (forall x, In x extra -> verified O auths x) ->
  (forall r x, In r (a_rules a) -> In x extra -> ~ In (fst x) (r_signers r)) ->
  match do_check_auth O a now auths sigs cs, do_check_auth O a now auths (sigs ++ extra) cs with
  | Ok l, Ok l' => filter is_enf l' = filter is_enf l
  | Fail, Fail => True
  | _, _ => False
  end.
Proof.
  intros Hv Hf. unfold do_check_auth. rewrite authenticate_app, map_app.
  rewrite validate_all_foreign by (intros r s Hr Hs; apply in_map_iff in Hs; destruct Hs as [x [<- Hx]]; eauto).
  destruct (authenticate_complete O auths extra Hv) as [lx Hx]. rewrite Hx.
  destruct (authenticate_ok _ _ _ _ Hx) as [_ Hnx].
  destruct (authenticate O auths sigs) as [lv|] eqn:Ea; cbn [bind]; [|exact I].
  destruct (validate_all O a now cs (map fst sigs)) as [[vs lc]|]; cbn [bind]; [|exact I].
  destruct (enforce_all O [] vs) as [le|]; cbn [bind]; [|exact I].
  rewrite !filter_app. rewrite Hnx, app_nil_r. reflexivity.
Qed.

Lemma requirement_foreign O c r supplied extra :
  (forall s, In s extra -> ~ In s (r_signers r)) ->
  (requirement O c (supplied ++ extra) r <-> requirement O c supplied r) /\
  filter (fun s => mem_s s (supplied ++ extra)) (r_signers r) = filter (fun s => mem_s s supplied) (r_signers r).
Proof.
  intros H. split; [|apply (auth_of_foreign r supplied extra H)].
  rewrite <- !rstatus_sat, rstatus_foreign by exact H. tauto.
Qed.

Theorem enforce_log_reachable cfg calls O now auths sigs cs log :
  let a := s_acct (run cfg init calls) in
  do_check_auth O a now auths sigs cs = Ok log ->
  forallb is_check_event log = true /\
  exists rs, Forall2 (decides O a now (map fst sigs)) cs rs /\
             filter is_enf log = concat (map (fun cr => enforce_calls (map fst sigs) (fst cr) (snd cr)) (combine cs rs)).
Proof.
  intros a H. split; [eapply check_events_only; eauto|].
  destruct (precedence_reachable cfg calls O now auths sigs cs log H) as [rs [H1 [H2 _]]]. eauto.
Qed.

Theorem decides_unique_reachable cfg calls O now supplied c r1 r2 :
  let a := s_acct (run cfg init calls) in
  decides O a now supplied c r1 -> decides O a now supplied c r2 -> r1 = r2.
Proof. intros a. apply decides_unique. apply reachable_wf. Qed.

(* the table invariant, spelled out *)
Theorem table_invariant_reachable cfg calls :
  let a := s_acct (run cfg init calls) in
  StronglySorted Z.lt (map r_id (a_rules a)) /\
  (forall r, In r (a_rules a) -> 0 <= r_id r < a_next a) /\
  (forall t, ids_of a t = map r_id (filter (fun r => ctype_eqb (r_type r) t) (a_rules a))) /\
  (forall t, get_context_rules a t = Ok (filter (fun r => ctype_eqb (r_type r) t) (a_rules a))).
Proof.
  intros a. pose proof (reachable_wf cfg calls) as W. fold a in W.
  split; [apply W|]. split; [apply W|]. split; [apply W|].
  intros t. unfold get_context_rules. rewrite (wf_ids a W t). fold (typed_rules a t).
  assert (H : forall r, In r (typed_rules a t) -> get_context_rule a (r_id r) = Ok r).
  { intros r Hr. unfold get_context_rule. rewrite (get_rule_in a r W); [reflexivity|].
    unfold typed_rules in Hr. apply filter_In in Hr. tauto. }
  induction (typed_rules a t) as [|x l IH]; [reflexivity|]. cbn [map mapM].
  rewrite (H x (or_introl eq_refl)). cbn [bind]. rewrite IH by (intros r Hr; apply H; right; exact Hr). reflexivity.
Qed.

Lemma decides_unfolded O a now supplied c r :
  decides O a now supplied c r <->
  (In r (a_rules a) /\
   (r_type r = ctx_type c \/ r_type r = TDefault) /\
   match r_valid r with Some u => now <= u | None => True end /\
   ((r_policies r = [] /\ forall s, In s (r_signers r) -> In s supplied) \/
    (r_policies r <> [] /\ forall p, In p (r_policies r) ->
       o_can O p c (filter (fun s => mem_s s supplied) (r_signers r)) r = Some true)) /\
   forall r', In r' (a_rules a) ->
     (r_type r' = ctx_type c \/ r_type r' = TDefault) ->
     match r_valid r' with Some u => now <= u | None => True end ->
     before r' r = true ->
     ~ ((r_policies r' = [] /\ forall s, In s (r_signers r') -> In s supplied) \/
        (r_policies r' <> [] /\ forall p, In p (r_policies r') ->
           o_can O p c (filter (fun s => mem_s s supplied) (r_signers r')) r' = Some true))).
Proof. reflexivity. Qed.

(* the rule table changes only at construction or through an entry point whose own
   authorisation check (on the context "call of the account itself") succeeded *)
Theorem table_changes_only_when_authorised c st cl :
  s_acct (fst (step c st cl)) <> s_acct st ->
  (exists signers policies, cl = Construct signers policies /\ s_deployed st = false) \/
  (exists sigs auths op l, cl = Admin sigs auths op /\
     do_check_auth (oracles_of (s_modes st)) (s_acct st) (s_now st) auths sigs [CCall self (fn_of op)] = Ok l).
Proof.
  intros H. destruct cl; cbn [step] in H.
  - destruct (s_deployed st) eqn:D; [exfalso; apply H; reflexivity|]. left. eauto.
  - exfalso. apply H. destruct ((0 <=? n) && in_u32 (s_now st + n)); reflexivity.
  - exfalso. apply H. reflexivity.
  - destruct (negb (s_deployed st)); [exfalso; apply H; reflexivity|].
    destruct (do_check_auth (oracles_of (s_modes st)) (s_acct st) (s_now st) auths sigs [CCall self (fn_of op)]) as [l1|] eqn:E;
      [|exfalso; apply H; reflexivity].
    right. exists sigs, auths, op, l1. split; [reflexivity|exact E].
  - exfalso. apply H. destruct (negb (s_deployed st)); [reflexivity|]. destruct (do_check_auth _ _ _ _ _ _); reflexivity.
  - exfalso. apply H. destruct (negb (s_deployed st)); [reflexivity|]. destruct (do_check_auth _ _ _ _ _ _); reflexivity.
  - exfalso. apply H. destruct (negb (s_deployed st)); [reflexivity|]. destruct (do_check_auth _ _ _ _ _ _); [|reflexivity].
    destruct ((1 <=? t) && (t <=? nsig)); reflexivity.
Qed.

(* the list do_check_auth scans for a context of type t, literally: the unexpired rules of type t,
   newest first, followed by the unexpired Default rules, newest first *)
Theorem scan_order_reachable cfg calls now t :
  let a := s_acct (run cfg init calls) in
  get_valid_context_rules a now t =
    Ok (rev (filter (fun r => negb (expired now r)) (filter (fun r => ctype_eqb (r_type r) t) (a_rules a))) ++
        rev (filter (fun r => negb (expired now r)) (filter (fun r => ctype_eqb (r_type r) TDefault) (a_rules a)))).
Proof. intros a. apply (get_valid_context_rules_wf a now t). apply reachable_wf. Qed.

(* Only valid_until lapses: ledgers passing never take a rule's authority away before its own
   expiry.  A rule that decides a context keeps deciding it at every later ledger at which it is
   itself unexpired (the rules tried before it can only drop out), and advancing the ledger is
   not a change of the table. *)
Theorem decides_persists O a now now' supplied c r :
  decides O a now supplied c r -> now <= now' -> not_expired now' r -> decides O a now' supplied c r.
Proof.
  intros [H1 [H2 [_ [H4 H5]]]] Hle He. repeat (split; [assumption|]).
  intros r' Hr' Ha' He' Hb. apply (H5 r' Hr' Ha'); [|exact Hb].
  unfold not_expired in *. destruct (r_valid r'); [lia|exact I].
Qed.

Theorem advance_keeps_table c st n : s_acct (fst (step c st (Advance n))) = s_acct st.
Proof. cbn [step]. destruct ((0 <=? n) && in_u32 (s_now st + n)); reflexivity. Qed.

Theorem only_valid_until_lapses c st n O supplied cx r :
  decides O (s_acct st) (s_now st) supplied cx r ->
  0 <= n -> match r_valid r with Some u => s_now st + n <= u | None => True end ->
  let st' := fst (step c st (Advance n)) in
  decides O (s_acct st') (s_now st + n) supplied cx r.
Proof.
  intros H Hn He st'. unfold st'. rewrite advance_keeps_table.
  apply (decides_persists O (s_acct st) (s_now st) (s_now st + n) supplied cx r H); [lia|exact He].
Qed.
