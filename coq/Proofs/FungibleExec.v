(* What each call of the fungible model does to the token core, flavour by flavour
   ([exec_spec]); everything later (C01 and C02) is derived from this characterisation. *)
From SC Require Import Lib.Prelude Lib.Int Lib.Host Model.Math Model.Fungible Proofs.FungibleBasics.

(* [frame s s'] : the token core, the ledger and the ghost history are untouched *)
Definition frame (s s' : state) : Prop := tk s' = tk s /\ now s' = now s /\ hist s' = hist s.
Lemma frame_refl s : frame s s. Proof. repeat split. Qed.
Lemma frame_trans a b c : frame a b -> frame b c -> frame a c.
Proof. unfold frame. intros (A1 & A2 & A3) (B1 & B2 & B3). repeat split; congruence. Qed.

Lemma move_delegate_votes_frame s f t a s' : move_delegate_votes s f t a = Ok s' -> frame s s'.
Proof.
  unfold move_delegate_votes. destruct (a =? 0); [intros; inv_ok; apply frame_refl|].
  destruct (oaddr_eqb f t); [intros; inv_ok; apply frame_refl|].
  intros H. inv_ok.
  assert (F1 : frame s x). { destruct f; inv_ok; repeat split. }
  eapply frame_trans; [exact F1|]. destruct t; inv_ok; repeat split.
Qed.

Lemma transfer_voting_units_frame s f t a s' : transfer_voting_units s f t a = Ok s' -> frame s s'.
Proof.
  unfold transfer_voting_units. destruct (a =? 0); [intros; inv_ok; apply frame_refl|].
  intros H. inv_ok.
  assert (F1 : frame s x). { destruct f; inv_ok; repeat split. }
  assert (F2 : frame x x0). { destruct t; inv_ok; repeat split. }
  apply move_delegate_votes_frame in H.
  eapply frame_trans; [exact F1|]. eapply frame_trans; [exact F2|exact H].
Qed.

Lemma votes_hook_frame c s f t a s' : votes_hook c s f t a = Ok s' -> frame s s'.
Proof.
  unfold votes_hook. destruct (c_flav c); try (intros; inv_ok; apply frame_refl).
  destruct (0 <? a); [apply transfer_voting_units_frame|intros; inv_ok; apply frame_refl].
Qed.

Lemma do_delegate_frame s au a d s' : do_delegate s au a d = Ok s' -> frame s s'.
Proof.
  unfold do_delegate. intros H. inv_ok. apply move_delegate_votes_frame in H.
  eapply frame_trans; [|exact H]. repeat split.
Qed.

Lemma unfreeze_for_frame s a amt s' : unfreeze_for s a amt = Ok s' -> frame s s'.
Proof.
  unfold unfreeze_for. intros H. inv_ok. destruct (x <? amt); inv_ok; repeat split.
Qed.
Lemma freeze_partial_frame s a amt s' : freeze_partial s a amt = Ok s' -> frame s s'.
Proof. unfold freeze_partial. intros H. inv_ok. repeat split. Qed.
Lemma unfreeze_partial_frame s a amt s' : unfreeze_partial s a amt = Ok s' -> frame s s'.
Proof. unfold unfreeze_partial. intros H. inv_ok. repeat split. Qed.

Lemma forced_transfer_spec s from to amt s' evs : forced_transfer s from to amt = Ok (s', evs) ->
  update (tk s) (Some from) (Some to) amt = Ok (tk s') /\ now s' = now s /\ hist s' = hist s /\
  evs = [ETransfer from to None amt].
Proof.
  unfold forced_transfer. intros H. inv_ok. apply unfreeze_for_frame in E0. destruct E0 as (A & B & C).
  cbn. rewrite <- A. auto.
Qed.

Lemma deposit_internal_spec c s au recv assets shares from op s' :
  deposit_internal c s au recv assets shares from op = Ok s' ->
  update (tk s) None (Some recv) shares = Ok (tk s') /\ now s' = now s /\ hist s' = hist s.
Proof. unfold deposit_internal. intros H. inv_ok. cbn. auto. Qed.

Lemma withdraw_internal_spec c s recv owner assets shares op s' :
  withdraw_internal c s recv owner assets shares op = Ok s' ->
  (exists t1, (if N.eqb op owner then t1 = tk s else spend_allowance (c_host c) (now s) (tk s) owner op shares = Ok t1) /\
              update t1 (Some owner) None shares = Ok (tk s')) /\
  now s' = now s /\ hist s' = hist s.
Proof.
  unfold withdraw_internal. intros H. inv_ok. cbn. split; auto.
  exists x. split; auto. destruct (N.eqb op owner); inv_ok; auto.
Qed.

(* ------------------------------------------------------------------------- *)
(* the characterisation of one successful call *)

Definition call_spec (c : cfg) (s : state) (cl : call) (s' : state) (v : Z) (evs : list event) : Prop :=
  let hc := c_host c in
  match cl with
  | Advance n => 0 <= n /\ tk s' = tk s /\ evs = [] /\ v = 0
  | QBalance a => s' = s /\ v = balance (tk s) a /\ evs = []
  | QSupply => s' = s /\ v = supply (tk s) /\ evs = []
  | QAllowance o sp => s' = s /\ v = allowance (now s) (tk s) o sp /\ evs = []
  | Mint to amt => update (tk s) None (Some to) amt = Ok (tk s') /\ evs = [EMint to amt] /\ v = 0
  | Transfer auths from to mux amt =>
      has_auth auths from = true /\ update (tk s) (Some from) (Some to) amt = Ok (tk s') /\
      (exists m, evs = [ETransfer from to m amt]) /\ v = 0
  | TransferFrom auths sp from to amt =>
      has_auth auths sp = true /\
      (exists t1, spend_allowance hc (now s) (tk s) from sp amt = Ok t1 /\ update t1 (Some from) (Some to) amt = Ok (tk s')) /\
      evs = [ETransfer from to None amt] /\ v = 0
  | Approve auths o sp amt lu =>
      has_auth auths o = true /\ set_allowance hc (now s) (tk s) o sp amt lu = Ok (tk s') /\
      evs = [EApprove o sp amt lu] /\ v = 0
  | Burn auths from amt =>
      has_auth auths from = true /\ update (tk s) (Some from) None amt = Ok (tk s') /\ evs = [EBurn from amt] /\ v = 0
  | BurnFrom auths sp from amt =>
      has_auth auths sp = true /\
      (exists t1, spend_allowance hc (now s) (tk s) from sp amt = Ok t1 /\ update t1 (Some from) None amt = Ok (tk s')) /\
      evs = [EBurn from amt] /\ v = 0
  | SetListed _ _ | Delegate _ _ _ | AssetMint _ _ | AssetApprove _ _ _ _ _
  | RFreeze _ _ | RUnfreeze _ _ | RSetFrozen _ _ | RPause _ | RSetRecovery _ _ =>
      tk s' = tk s /\ evs = [] /\ v = 0
  | VDeposit auths _ assets recv from op =>
      has_auth auths op = true /\ update (tk s) None (Some recv) v = Ok (tk s') /\
      evs = [EDeposit op from recv assets v]
  | VMint auths _ shares recv from op =>
      has_auth auths op = true /\ update (tk s) None (Some recv) shares = Ok (tk s') /\
      evs = [EDeposit op from recv v shares]
  | VWithdraw auths assets recv owner op =>
      has_auth auths op = true /\
      (exists t1, (if N.eqb op owner then t1 = tk s else spend_allowance hc (now s) (tk s) owner op v = Ok t1) /\
                  update t1 (Some owner) None v = Ok (tk s')) /\
      evs = [EWithdraw op recv owner assets v]
  | VRedeem auths shares recv owner op =>
      has_auth auths op = true /\
      (exists t1, (if N.eqb op owner then t1 = tk s else spend_allowance hc (now s) (tk s) owner op shares = Ok t1) /\
                  update t1 (Some owner) None shares = Ok (tk s')) /\
      evs = [EWithdraw op recv owner v shares]
  | RForcedTransfer from to amt =>
      update (tk s) (Some from) (Some to) amt = Ok (tk s') /\ evs = [ETransfer from to None amt] /\ v = 0
  | RBurn a amt => update (tk s) (Some a) None amt = Ok (tk s') /\ evs = [EBurn a amt] /\ v = 0
  | RRecover old new =>
      (v = 0 /\ tk s' = tk s /\ evs = [] /\ balance (tk s) old = 0) \/
      (v = 1 /\ update (tk s) (Some old) (Some new) (balance (tk s) old) = Ok (tk s') /\
       evs = [ETransfer old new None (balance (tk s) old)])
  end.

Definition now_after (s : state) (cl : call) : Z := match cl with Advance n => now s + n | _ => now s end.

Ltac fr H := let A := fresh "A" in let B := fresh "B" in let C := fresh "C" in destruct H as (A & B & C).

Lemma exec_spec c s cl s' v evs : exec c s cl = Ok (s', v, evs) ->
  call_spec c s cl s' v evs /\ now s' = now_after s cl /\ hist s' = hist s.
Proof.
  intros H. destruct cl; cbn [exec] in H; unfold call_spec, now_after.
  - (* Advance *) inv_ok. cbn. apply andb_true_iff in E. destruct E as [E _]. apply Z.leb_le in E. auto 10.
  - (* Mint *)
    destruct (c_flav c) eqn:F; try discriminate; inv_ok; unfold b_mint in E; inv_ok;
      apply votes_hook_frame in E0; fr E0; cbn in *; rewrite A, B, C; auto.
  - (* Transfer *)
    destruct (c_flav c) eqn:F; inv_ok;
      try (unfold b_transfer in E0; inv_ok; apply votes_hook_frame in E1; fr E1; cbn in *; rewrite A, B, C; eauto 10).
    cbn. eauto 10.
  - (* TransferFrom *)
    destruct (c_flav c) eqn:F; inv_ok;
      try (unfold b_transfer_from in E0; inv_ok; apply votes_hook_frame in E1; fr E1; cbn in *; rewrite A, B, C; eauto 10).
    cbn. eauto 10.
  - (* Approve *) inv_ok. unfold b_approve in E0. inv_ok. cbn. auto.
  - (* Burn *)
    destruct (is_std (c_flav c)); [|discriminate]. inv_ok. unfold b_burn in E0. inv_ok.
    apply votes_hook_frame in E1. fr E1. cbn in *. rewrite A, B, C. auto.
  - (* BurnFrom *)
    destruct (is_std (c_flav c)); [|discriminate]. inv_ok. unfold b_burn_from in E0. inv_ok.
    apply votes_hook_frame in E1. fr E1. cbn in *. rewrite A, B, C. eauto 10.
  - inv_ok. auto.
  - inv_ok. auto.
  - inv_ok. auto.
  - (* SetListed *) destruct (c_flav c); try discriminate; inv_ok; cbn; auto.
  - (* Delegate *) destruct (c_flav c); try discriminate. inv_ok. apply do_delegate_frame in E. fr E. auto.
  - (* VDeposit *) destruct (c_flav c); try discriminate. inv_ok.
    apply deposit_internal_spec in E1. destruct E1 as (A & B & C). auto.
  - (* VMint *) destruct (c_flav c); try discriminate. inv_ok.
    apply deposit_internal_spec in E1. destruct E1 as (A & B & C). auto.
  - (* VWithdraw *) destruct (c_flav c); try discriminate. inv_ok.
    apply withdraw_internal_spec in E3. destruct E3 as (A & B & C). auto.
  - (* VRedeem *) destruct (c_flav c); try discriminate. inv_ok.
    apply withdraw_internal_spec in E2. destruct E2 as (A & B & C). auto.
  - (* AssetMint *) destruct (c_flav c); try discriminate. inv_ok. cbn. auto.
  - (* AssetApprove *) destruct (c_flav c); try discriminate. inv_ok. cbn. auto.
  - (* RForcedTransfer *) destruct (c_flav c); try discriminate. inv_ok.
    apply forced_transfer_spec in E. destruct E as (A & B & C & D). auto.
  - (* RBurn *) destruct (c_flav c); try discriminate. inv_ok.
    apply unfreeze_for_frame in E0. fr E0. cbn. rewrite <- A. auto.
  - (* RRecover *) destruct (c_flav c); try discriminate. inv_ok.
    destruct (balance (tk s) old =? 0) eqn:Z0.
    + inv_ok. apply Z.eqb_eq in Z0. auto 10.
    + inv_ok. apply forced_transfer_spec in E1. destruct E1 as (A & B & C & D).
      assert (F2 : frame s0 x1).
      { destruct (0 <? frozen_of s old); [apply freeze_partial_frame in E2; exact E2|inv_ok; apply frame_refl]. }
      fr F2.
      assert (F3 : forall (b : bool) z, tk (if b then w_afrozen x1 z else x1) = tk x1 /\
                                        now (if b then w_afrozen x1 z else x1) = now x1 /\
                                        hist (if b then w_afrozen x1 z else x1) = hist x1).
      { intros [] ?; cbn; auto. }
      destruct (F3 (is_frozen s old) (set_add new (afrozen x1))) as (G1 & G2 & G3).
      rewrite G1, G2, G3, A0, B0, C0. split; [right|]; auto.
  - (* RFreeze *) destruct (c_flav c); try discriminate. inv_ok. apply freeze_partial_frame in E. fr E. auto.
  - (* RUnfreeze *) destruct (c_flav c); try discriminate. inv_ok. apply unfreeze_partial_frame in E. fr E. auto.
  - (* RSetFrozen *) destruct (c_flav c); try discriminate. inv_ok. cbn. auto.
  - (* RPause *) destruct (c_flav c); try discriminate. inv_ok. cbn. auto.
  - (* RSetRecovery *) destruct (c_flav c); try discriminate. inv_ok. cbn. auto.
Qed.
