(* C05: deposit and mint fail only when they must - the exact success condition on a state satisfying the
   invariant (the counterpart of withdraw_succeeds / redeem_succeeds in VaultTrips.v). *)
From SC Require Import Lib.Prelude Lib.Int Lib.Host Model.Math Proofs.Math Model.Vault
  Proofs.VaultSpec Proofs.VaultToken Proofs.VaultOps Proofs.VaultRate Proofs.VaultTrips.
From Coq Require Import ZifyBool.

Lemma update_mint_succeeds t r x : tok_inv t -> 0 <= x -> supply t + x <= MAX128 ->
  update t None (Some r) x = Ok {| bal := upd (bal t) r (bal t r + x); supply := supply t + x; allow := allow t |}.
Proof.
  intros Hi Hx Hm. pose proof (tok_inv_bal_le t r Hi) as Hb. destruct Hi as (_ & Hs & _).
  unfold update. assert (E0 : (x <? 0) = false) by lia. rewrite E0. cbn [negb guard bind].
  unfold checked_add, fit128.
  assert (E1 : in_i128 (supply t + x) = true) by (apply in_i128_iff; rewrite MIN128_val; lia).
  rewrite E1. cbn [of_option bind set_supply bal supply allow].
  assert (E2 : in_i128 (bal t r + x) = true) by (apply in_i128_iff; rewrite MIN128_val; lia).
  rewrite E2. cbn [of_option bind]. reflexivity.
Qed.

(* spending an allowance: exactly when it is large enough (and, for a positive amount, its live_until still
   lies inside the host's maximal TTL - always true for an allowance that was approved) *)
Definition spendable (c : cfg) (nw : Z) (t : token) (o s : addr) (x : Z) : Prop :=
  0 <= x <= allowance nw t o s /\ (0 < x -> snd (allow t o s) <= nw + c_max_ttl c - 1).

Lemma spend_allowance_succeeds c nw t o s x : spendable c nw t o s x ->
  exists t1, spend_allowance c nw t o s x = Ok t1 /\ bal t1 = bal t /\ supply t1 = supply t.
Proof.
  intros (Hx & Hl). unfold spend_allowance. assert (E0 : (x <? 0) = false) by lia. rewrite E0. cbn [negb guard bind].
  unfold allowance in Hx. assert (E1 : (fst (allowance_data nw t o s) <? x) = false) by lia. rewrite E1. cbn [negb guard bind].
  destruct (0 <? x) eqn:Ex; [|eexists; repeat split].
  assert (Hlive : allowance_data nw t o s = allow t o s).
  { unfold allowance_data in *. destruct (snd (allow t o s) <? nw) eqn:El; [cbn [fst] in Hx; lia|reflexivity]. }
  assert (Hge : nw <= snd (allow t o s)).
  { unfold allowance_data in Hx. destruct (snd (allow t o s) <? nw) eqn:El; [cbn [fst] in Hx; lia|lia]. }
  rewrite Hlive in *. unfold set_allowance.
  assert (E2 : (fst (allow t o s) - x <? 0) = false) by lia. rewrite E2. cbn [negb guard bind].
  assert (E3 : (nw + c_max_ttl c - 1 <? snd (allow t o s)) || ((0 <? fst (allow t o s) - x) && (snd (allow t o s) <? nw)) = false).
  { assert (0 < x) by lia. specialize (Hl H). apply orb_false_iff. split; [lia|]. apply andb_false_iff. right. lia. }
  rewrite E3. cbn [negb guard bind]. eexists. repeat split.
Qed.

Lemma spend_allowance_needs c nw t o s x t1 : spend_allowance c nw t o s x = Ok t1 -> spendable c nw t o s x.
Proof.
  intros H. destruct (spend_allowance_ok _ _ _ _ _ _ _ H) as (Hx & _). split; [exact Hx|].
  intros Hp. unfold spend_allowance in H. bsplit H u E0. bsplit H u1 E1. apply guard_ok in E1.
  assert (Ex : (0 <? x) = true) by lia. rewrite Ex in H. apply set_allowance_ok in H. destruct H as (_ & Hl & _ & _).
  unfold allowance_data in *. destruct (snd (allow t o s) <? nw) eqn:El; cbn [fst snd] in *; lia.
Qed.

(* who pays: the operator signed the vault call together with the nested asset-token call, [from] holds the
   assets, and an operator other than [from] has the allowance *)
Definition can_pull (c : cfg) (s : state) (au : auths) (assets : Z) (f o : addr) : Prop :=
  auth_full au o = true /\ 0 <= assets <= bal (asset s) f /\
  (o <> f -> spendable c (now s) (asset s) f o assets).

Lemma deposit_internal_succeeds c s au r a sh f o : Inv c s -> can_pull c s au a f o ->
  0 <= sh -> supply (share s) + sh <= MAX128 -> exists s', deposit_internal c s au r a sh f o = Ok s'.
Proof.
  intros (Ha & Hs & _ & Hst) (Hau & Hx & Hal) Hsh Hm. unfold deposit_internal.
  rewrite (stored_client c s Hst). cbn [bind].
  destruct (N.eqb o f) eqn:Eof.
  - apply N.eqb_eq in Eof. subst o. unfold tok_transfer. rewrite Hau. cbn [guard bind].
    rewrite (update_xfer_succeeds _ _ _ _ Ha Hx). cbn [bind].
    rewrite (update_mint_succeeds _ r _ Hs Hsh Hm). cbn [bind]. eexists. reflexivity.
  - assert (Hne : o <> f) by (intros ->; rewrite N.eqb_refl in Eof; discriminate).
    destruct (spend_allowance_succeeds c (now s) (asset s) f o a (Hal Hne)) as (t1 & E1 & Hb1 & Hs1).
    unfold tok_transfer_from. rewrite Hau. cbn [guard bind]. rewrite E1. cbn [bind].
    assert (Hi1 : tok_inv t1) by (apply (tok_inv_ext (asset s)); auto).
    assert (Hx1 : 0 <= a <= bal t1 f) by (rewrite Hb1; exact Hx).
    rewrite (update_xfer_succeeds _ _ _ _ Hi1 Hx1). cbn [bind].
    rewrite (update_mint_succeeds _ r _ Hs Hsh Hm). cbn [bind]. eexists. reflexivity.
Qed.

Lemma deposit_internal_needs c s au r a sh f o s' : deposit_internal c s au r a sh f o = Ok s' ->
  can_pull c s au a f o /\ 0 <= sh /\ supply (share s) + sh <= MAX128.
Proof.
  unfold deposit_internal. intros H. bsplit H uc Ec. bsplit H a1 E1. bsplit H s1 E2.
  apply update_mint in E2. destruct E2 as (Hsh & Hm & _). split; [|split; assumption].
  destruct (N.eqb o f) eqn:Eof.
  - apply N.eqb_eq in Eof. subst o. apply tok_transfer_ok in E1. destruct E1 as (Hau & Hx & _).
    split; [exact Hau|]. split; [exact Hx|]. intros Hne; contradiction.
  - apply tok_transfer_from_ok in E1. destruct E1 as (Hau & Hx & t1 & Esp & _).
    split; [exact Hau|]. split; [exact Hx|]. intros _. apply (spend_allowance_needs _ _ _ _ _ _ _ Esp).
Qed.

(* deposit succeeds exactly when the preview does, the new supply fits, and the assets can be pulled *)
Theorem deposit_iff c s au a r f o : Inv c s ->
  ((exists s' sh evs, step_res c s (Deposit a r f o au) = Ok (s', (sh, evs))) <->
   (exists sh, preview_deposit c s a = Ok sh /\ total_supply s + sh <= MAX128 /\ can_pull c s au a f o)).
Proof.
  intros Hi. cbn [step_res]. split.
  - intros (s' & sh & evs & H). unfold deposit in H. bsplit H u E0. bsplit H u1 E1. bsplit H sh0 E2. bsplit H s0 E3.
    inversion H; subst. destruct (deposit_internal_needs _ _ _ _ _ _ _ _ _ E3) as (Hp & _ & Hm).
    exists sh. split; [exact E2|]. split; [exact Hm|exact Hp].
  - intros (sh & Hp & Hm & Hpull).
    assert (Har : MIN128 <= a <= MAX128).
    { destruct Hpull as (_ & Hx & _). pose proof (tok_inv_bal_range (asset s) f (proj1 Hi)). rewrite MIN128_val in *. lia. }
    assert (Hsh : 0 <= sh).
    { pose proof Hp as Hp'. unfold preview_deposit in Hp'.
      rewrite (to_shares_spec c s a Floor (Inv_stored c s Hi) Har) in Hp'.
      pose proof (Inv_A_nonneg c s Hi). pose proof (Inv_S_nonneg c s Hi).
      assert (0 <= P_of c) by (unfold P_of; apply Z.pow_nonneg; lia).
      apply (spec_conv_nonneg _ _ _ _ _ _ Hp'); lia. }
    destruct (deposit_internal_succeeds c s au r a sh f o Hi Hpull Hsh Hm) as (s' & Hs').
    unfold deposit. destruct Hpull as (Hau & Hx & _). rewrite (auth_full_root au o Hau). cbn [guard bind].
    assert (E : (max_deposit r <? a) = false).
    { unfold max_deposit. pose proof (tok_inv_bal_range (asset s) f (proj1 Hi)). lia. }
    rewrite E. cbn [negb guard bind]. rewrite Hp. cbn [bind]. rewrite Hs'. cbn [bind]. eauto.
Qed.

Theorem mint_iff c s au x r f o : Inv c s -> MIN128 <= x <= MAX128 ->
  ((exists s' a evs, step_res c s (MintS x r f o au) = Ok (s', (a, evs))) <->
   (exists a, preview_mint c s x = Ok a /\ total_supply s + x <= MAX128 /\ can_pull c s au a f o)).
Proof.
  intros Hi Hxr. cbn [step_res]. split.
  - intros (s' & a & evs & H). unfold mint in H. bsplit H u E0. bsplit H u1 E1. bsplit H a0 E2. bsplit H s0 E3.
    inversion H; subst. destruct (deposit_internal_needs _ _ _ _ _ _ _ _ _ E3) as (Hp & _ & Hm).
    exists a. split; [exact E2|]. split; [exact Hm|exact Hp].
  - intros (a & Hp & Hm & Hpull).
    assert (Hx0 : 0 <= x).
    { pose proof Hp as Hp'. unfold preview_mint in Hp'.
      rewrite (to_assets_spec c s x Ceil (Inv_stored c s Hi) Hxr) in Hp'.
      destruct (spec_conv_ok _ _ _ _ _ _ Hp') as (H0 & _). exact H0. }
    destruct (deposit_internal_succeeds c s au r a x f o Hi Hpull Hx0 Hm) as (s' & Hs').
    unfold mint. destruct Hpull as (Hau & Hx & _). rewrite (auth_full_root au o Hau). cbn [guard bind].
    assert (E : (max_mint r <? x) = false) by (unfold max_mint; lia).
    rewrite E. cbn [negb guard bind]. rewrite Hp. cbn [bind]. rewrite Hs'. cbn [bind]. eauto.
Qed.

(* ---------- what a successful operation needed (for the monitor's "nothing is created" clauses) ---------- *)
Lemma deposit_pull c s au a r f o s' sh evs : deposit c s au a r f o = Ok (s', (sh, evs)) -> can_pull c s au a f o.
Proof.
  unfold deposit. intros H. bsplit H u E0. bsplit H u1 E1. bsplit H sh0 E2. bsplit H s0 E3.
  apply (deposit_internal_needs _ _ _ _ _ _ _ _ _ E3).
Qed.
Lemma mint_pull c s au x r f o s' a evs : mint c s au x r f o = Ok (s', (a, evs)) -> can_pull c s au a f o.
Proof.
  unfold mint. intros H. bsplit H u E0. bsplit H u1 E1. bsplit H a0 E2. bsplit H s0 E3. inversion H; subst.
  apply (deposit_internal_needs _ _ _ _ _ _ _ _ _ E3).
Qed.
Lemma withdraw_internal_spend c s r ow a sh o s' : withdraw_internal c s r ow a sh o = Ok s' ->
  o <> ow -> 0 <= sh <= allowance (now s) (share s) ow o.
Proof.
  unfold withdraw_internal. intros H Hne. bsplit H s0 E0.
  assert (E : N.eqb o ow = false) by (apply N.eqb_neq; exact Hne). rewrite E in E0. cbn [negb] in E0.
  destruct (spend_allowance_ok _ _ _ _ _ _ _ E0) as (Hx & _). exact Hx.
Qed.
Lemma withdraw_spend c s au a r ow o s' sh evs : withdraw c s au a r ow o = Ok (s', (sh, evs)) ->
  o <> ow -> 0 <= sh <= allowance (now s) (share s) ow o.
Proof.
  unfold withdraw. intros H. bsplit H u E0. bsplit H m E1. bsplit H u1 E2. bsplit H sh0 E3. bsplit H s0 E4.
  inversion H; subst. apply (withdraw_internal_spend _ _ _ _ _ _ _ _ E4).
Qed.
Lemma redeem_spend c s au x r ow o s' a evs : redeem c s au x r ow o = Ok (s', (a, evs)) ->
  o <> ow -> 0 <= x <= allowance (now s) (share s) ow o.
Proof.
  unfold redeem. intros H. bsplit H u E0. bsplit H u1 E2. bsplit H a0 E3. bsplit H s0 E4.
  inversion H; subst. apply (withdraw_internal_spend _ _ _ _ _ _ _ _ E4).
Qed.
