(* C19: stored state survives ledger gaps of any length.  In every reachable state an Advance of any
   number of ledgers changes nothing but the ledger sequence: balances, supplies, the allow-list
   (count, entries, indices), the target logs - and every positive allowance reads the same until its
   own live_until ledger has passed (never lapsing earlier, however long nobody reads it). *)
From SC Require Import Lib.Prelude Lib.Int Lib.Host Model.FeeForwarder Proofs.FeeForwarder
  Run.C19 Proofs.FeeForwarderAllow Proofs.FeeForwarderFwd Proofs.C19Monitor Proofs.C19Final.

Lemma zz_eqb_eq x y : zz_eqb x y = true -> x = y.
Proof.
  unfold zz_eqb. destruct x, y; cbn. intros H. apply andb_true_iff in H. destruct H as [H1 H2].
  apply Z.eqb_eq in H1. apply Z.eqb_eq in H2. congruence.
Qed.

Lemma advance_persistence c cs n st' r :
  1 <= min_temp_ttl (c_host c) ->
  let st := run c cs in
  step_ok c st (Advance n) = Ok (st', r) ->
  0 <= n /\ now st' = now st + n /\ toks st' = toks st /\ al st' = al st /\ logs st' = logs st /\
  (forall t h, balance (get_tok st' t) h = balance (get_tok st t) h) /\
  (forall t o s a l,
     allowance_data (now st) (get_tok st t) o s = (a, l) -> 0 < a ->
     allowance_data (now st') (get_tok st' t) o s = if l <? now st' then (0, 0) else (a, l)) /\
  (forall t o s, fst (allowance_data (now st) (get_tok st t) o s) = 0 ->
                 fst (allowance_data (now st') (get_tok st' t) o s) = 0).
Proof.
  intros Hm st H. cbn [step_ok] in H. destruct (n <? 0) eqn:En; [discriminate|]. apply Z.ltb_ge in En.
  inversion H; subst st' r. clear H. cbn [now toks al logs].
  repeat split; auto.
  - intros t o s a l Ha Hp. unfold get_tok. cbn [toks]. fold (get_tok st t).
    pose proof (inv_alw _ _ (Inv_run c cs Hm) t o s) as E. fold st in E.
    pose proof (expire_ok_model (now st) (now st + n) _ E ltac:(lia)) as X.
    rewrite !allowance_data_ad in *. unfold expire_ok in X. rewrite Ha in X. cbn [fst snd] in X.
    destruct (0 <? a) eqn:E0; [|apply Z.ltb_ge in E0; lia].
    apply zz_eqb_eq in X. exact X.
  - intros t o s Hz. unfold get_tok. cbn [toks]. fold (get_tok st t).
    pose proof (inv_alw _ _ (Inv_run c cs Hm) t o s) as E. fold st in E.
    pose proof (expire_ok_model (now st) (now st + n) _ E ltac:(lia)) as X.
    rewrite !allowance_data_ad in *. unfold expire_ok in X. rewrite Hz in X. cbn in X.
    apply Z.eqb_eq in X. exact X.
Qed.
