(* FungibleVotes flavour: the voting units kept by the votes module mirror the token balances and the
   latest total-supply checkpoint mirrors total_supply in every reachable state, hence the first two
   failure sites of transfer_voting_units (units.checked_sub, the total-supply checkpoint arithmetic)
   are unreachable. *)
From SC Require Import Lib.Prelude Lib.Int Lib.Host Model.Math Model.Fungible
  Proofs.FungibleBasics Proofs.FungibleExec Proofs.FungibleAllow Proofs.FungibleInv.

Definition units_moved (s s' : state) (m : move) : Prop :=
  let '(f, t, amt) := m in
  (forall x, getd (units s') x = ocredit (ocredit (getd (units s)) f (- amt)) t amt x) /\
  tsvotes s' = tsvotes s + (if is_none f then amt else 0) - (if is_none t then amt else 0).

Lemma units_moved_same s s' : units s' = units s -> tsvotes s' = tsvotes s -> units_moved s s' no_move.
Proof. intros U T. unfold units_moved, no_move. cbn. rewrite U, T. split; [reflexivity|lia]. Qed.

Lemma ocredit_zero g o x : ocredit g o 0 x = g x.
Proof. destruct o; cbn; auto. unfold credit. destruct (N.eqb x a); lia. Qed.

Lemma units_moved_zero s s' f t : units s' = units s -> tsvotes s' = tsvotes s -> units_moved s s' (f, t, 0).
Proof.
  intros U T. unfold units_moved. rewrite U, T. split.
  - intros x. replace (- 0) with 0 by lia. rewrite !ocredit_zero. reflexivity.
  - destruct (is_none f), (is_none t); lia.
Qed.

Lemma move_delegate_votes_units s f t a s' : move_delegate_votes s f t a = Ok s' ->
  units s' = units s /\ tsvotes s' = tsvotes s.
Proof.
  unfold move_delegate_votes. destruct (a =? 0); [intros; inv_ok; auto|].
  destruct (oaddr_eqb f t); [intros; inv_ok; auto|].
  intros H. inv_ok.
  assert (F1 : units x = units s /\ tsvotes x = tsvotes s). { destruct f; inv_ok; auto. }
  destruct F1 as [A B]. destruct t; inv_ok; cbn; auto.
Qed.

Lemma checked_sub_u128_some a b v : checked_sub_u128 a b = Some v -> v = a - b.
Proof. unfold checked_sub_u128. destruct (in_u128 (a - b)); congruence. Qed.
Lemma checked_add_u128_some a b v : checked_add_u128 a b = Some v -> v = a + b.
Proof. unfold checked_add_u128. destruct (in_u128 (a + b)); congruence. Qed.
Lemma cp_apply_ok prev add d v : cp_apply prev add d = Ok v -> v = if add then prev + d else prev - d.
Proof.
  unfold cp_apply. intros H. apply of_option_ok in H. destruct add; [apply checked_add_u128_some|apply checked_sub_u128_some]; exact H.
Qed.

Lemma tvu_stage1 s (f : option addr) amt x :
  match f with
  | Some a => do nu <- of_option (checked_sub_u128 (getd (units s) a) amt); Ok (w_units s (alist_set a nu (units s)))
  | None => do v <- cp_apply (tsvotes s) true amt; Ok (w_tsvotes s v)
  end = Ok x ->
  (forall y, getd (units x) y = ocredit (getd (units s)) f (- amt) y) /\
  tsvotes x = tsvotes s + (if is_none f then amt else 0).
Proof.
  destruct f as [a|]; intros H; inv_ok.
  - match goal with H : checked_sub_u128 _ _ = Some _ |- _ => apply checked_sub_u128_some in H; subst end.
    cbn. split; [|lia].
    intros y. rewrite getd_set. unfold credit. destruct (N.eqb y a) eqn:Ey; auto. apply N.eqb_eq in Ey. subst. lia.
  - match goal with H : cp_apply _ _ _ = Ok _ |- _ => apply cp_apply_ok in H; subst end.
    cbn. split; [reflexivity|lia].
Qed.
Lemma tvu_stage2 s (t : option addr) amt x :
  match t with
  | Some b => do nu <- of_option (checked_add_u128 (getd (units s) b) amt); Ok (w_units s (alist_set b nu (units s)))
  | None => do v <- cp_apply (tsvotes s) false amt; Ok (w_tsvotes s v)
  end = Ok x ->
  (forall y, getd (units x) y = ocredit (getd (units s)) t amt y) /\
  tsvotes x = tsvotes s - (if is_none t then amt else 0).
Proof.
  destruct t as [b|]; intros H; inv_ok.
  - match goal with H : checked_add_u128 _ _ = Some _ |- _ => apply checked_add_u128_some in H; subst end.
    cbn. split; [|lia].
    intros y. rewrite getd_set. unfold credit. destruct (N.eqb y b) eqn:Ey; auto. apply N.eqb_eq in Ey. subst. reflexivity.
  - match goal with H : cp_apply _ _ _ = Ok _ |- _ => apply cp_apply_ok in H; subst end.
    cbn. split; [reflexivity|lia].
Qed.

Lemma transfer_voting_units_spec s f t amt s' : transfer_voting_units s f t amt = Ok s' -> amt <> 0 ->
  units_moved s s' (f, t, amt).
Proof.
  unfold transfer_voting_units. intros H Nz. destruct (amt =? 0) eqn:Z0; [apply Z.eqb_eq in Z0; contradiction|].
  apply bind_ok in H. destruct H as (s1 & H1 & H). apply bind_ok in H. destruct H as (s2 & H2 & H).
  apply move_delegate_votes_units in H. destruct H as [U2 T2].
  apply tvu_stage1 in H1. destruct H1 as [B1 T1].
  apply tvu_stage2 in H2. destruct H2 as [B2 T3].
  unfold units_moved. rewrite U2, T2. split.
  - intros y. rewrite B2. destruct t as [b|]; cbn [ocredit]; unfold credit; rewrite ?B1; reflexivity.
  - lia.
Qed.

Lemma update_amt_nonneg t f to amt t' : update t f to amt = Ok t' -> 0 <= amt.
Proof. unfold update. destruct (0 <=? amt) eqn:G; cbn; [intros _; apply Z.leb_le; exact G|discriminate]. Qed.

(* the votes hook moves the units exactly as the token movement it follows *)
Lemma votes_hook_units c s f t amt s' : c_flav c = FVotes -> 0 <= amt ->
  votes_hook c s f t amt = Ok s' -> units_moved s s' (f, t, amt).
Proof.
  intros F P H. unfold votes_hook in H. rewrite F in H.
  destruct (0 <? amt) eqn:L.
  - apply Z.ltb_lt in L. apply transfer_voting_units_spec; auto. lia.
  - apply Z.ltb_ge in L. assert (amt = 0) by lia. subst. inv_ok. apply units_moved_zero; reflexivity.
Qed.

Lemma do_delegate_units s au a d s' : do_delegate s au a d = Ok s' -> units s' = units s /\ tsvotes s' = tsvotes s.
Proof.
  unfold do_delegate. intros H. inv_ok. apply move_delegate_votes_units in H. destruct H as [A B].
  rewrite A, B. cbn. auto.
Qed.

(* every successful call of the votes flavour moves the voting units as its event says *)
Lemma exec_units_moved c s cl s' v evs : c_flav c = FVotes ->
  exec c s cl = Ok (s', v, evs) -> units_moved s s' (evs_move evs).
Proof.
  intros F H. destruct cl; cbn [exec] in H; rewrite ?F in H; cbn [is_std] in H; try discriminate;
    unfold b_mint, b_transfer, b_transfer_from, b_burn, b_burn_from, b_approve in H; inv_ok; cbn [evs_move ev_move];
    try (match goal with
         | U : update _ _ _ ?amt = Ok _, Hk : votes_hook _ _ _ _ ?amt = Ok _ |- _ =>
             let P := fresh "P" in pose proof (update_amt_nonneg _ _ _ _ _ U) as P;
             apply (votes_hook_units _ _ _ _ _ _ F P) in Hk; exact Hk
         end);
    try (apply units_moved_same; reflexivity).
  (* Delegate *)
  match goal with D : do_delegate _ _ _ _ = Ok _ |- _ => apply do_delegate_units in D; destruct D end.
  apply units_moved_same; auto.
Qed.

(* the invariant *)
Definition votes_mirror (s : state) : Prop :=
  (forall a, getd (units s) a = balance (tk s) a) /\ tsvotes s = supply (tk s).

Lemma votes_mirror_init start : votes_mirror (init start).
Proof. split; reflexivity. Qed.

Lemma step_votes_mirror c s cl : c_flav c = FVotes -> wf_host (c_host c) -> state_inv s ->
  votes_mirror s -> votes_mirror (step_state c s cl).
Proof.
  intros F W [C _] [V1 V2]. unfold step_state, step.
  destruct (exec c s cl) as [[[s' v] evs]|] eqn:E; cbn [fst]; [|split; auto].
  destruct (exec_balances _ _ _ _ _ _ W C E) as (_ & M & _).
  pose proof (exec_units_moved _ _ _ _ _ _ F E) as U.
  destruct (evs_move evs) as [[f t] amt]. destruct M as (_ & B & S). destruct U as [U1 U2].
  split; cbn [units tsvotes tk w_hist].
  - intros a. rewrite U1, B. destruct f, t; cbn [ocredit]; unfold credit; rewrite ?V1; reflexivity.
  - rewrite U2, S, V2. reflexivity.
Qed.

Lemma run_votes_mirror c cs : c_flav c = FVotes -> wf_host (c_host c) -> forall s, state_inv s ->
  votes_mirror s -> votes_mirror (run c s cs).
Proof.
  intros F W. induction cs as [|cl r IH]; intros s I V; cbn; auto.
  apply IH; [apply step_inv; auto|apply step_votes_mirror; auto].
Qed.

Lemma reachable_votes_mirror c start cs : c_flav c = FVotes -> wf_host (c_host c) ->
  votes_mirror (run c (init start) cs).
Proof. intros F W. apply run_votes_mirror; auto. apply state_inv_init. apply votes_mirror_init. Qed.
