(* C15: the identity registry (a recovered account has no identity) and the relation between the
   code before and after the fix of F4. *)
From SC Require Import Lib.Prelude Lib.Int Lib.Host Model.ClaimIssuer Model.Identity
  Proofs.C15Base Proofs.C15Bytes Proofs.C15Verify Proofs.C15Issuer Proofs.C15Registry Proofs.C15Ident
  Proofs.C15World.

(* ---------------- identity registry storage: a recovered account has no identity ---------------- *)
Definition irs_inv (s : irs) : Prop :=
  forall a, get_recovered_to s a <> None -> aget N.eqb a (ir_identity s) = None.

Lemma irs_inv_init : irs_inv irs0.
Proof. intros a H. reflexivity. Qed.

Lemma is_some_false {A} (o : option A) : is_some o = false <-> o = None.
Proof. destruct o; cbn; split; congruence. Qed.

Lemma irs_inv_add c s a d n s' : irs_inv s -> add_identity c s a d n = Ok s' -> irs_inv s'.
Proof.
  intros Hi H. unfold add_identity in H.
  destruct (is_some (get_recovered_to s a)) eqn:Er; [discriminate|]. apply is_some_false in Er.
  destruct (n =? 0); [discriminate|]. destruct (c_max_countries c <? n); [discriminate|].
  destruct (is_some (aget N.eqb a (ir_identity s))); [discriminate|].
  assert (E1 : ir_identity s' = aset N.eqb a d (ir_identity s)) by (inversion H; reflexivity).
  assert (E2 : ir_recovered s' = ir_recovered s) by (inversion H; reflexivity).
  intros a' Hr. unfold get_recovered_to in Hr. rewrite E2 in Hr. rewrite E1, (aget_aset _ N_eqb_spec).
  destruct (N.eqb a' a) eqn:Ea; [|apply Hi; exact Hr].
  apply N.eqb_eq in Ea. subst a'. unfold get_recovered_to in Er. congruence.
Qed.
Lemma irs_inv_modify s a d s' : irs_inv s -> modify_identity s a d = Ok s' -> irs_inv s'.
Proof.
  intros Hi H. unfold modify_identity in H. apply bind_ok in H. destruct H as [d0 [E0 H]].
  unfold stored_identity in E0. apply of_option_ok in E0.
  assert (E1 : ir_identity s' = aset N.eqb a d (ir_identity s)) by (inversion H; reflexivity).
  assert (E2 : ir_recovered s' = ir_recovered s) by (inversion H; reflexivity).
  intros a' Hr. unfold get_recovered_to in Hr. rewrite E2 in Hr. rewrite E1, (aget_aset _ N_eqb_spec).
  destruct (N.eqb a' a) eqn:Ea; [|apply Hi; exact Hr].
  apply N.eqb_eq in Ea. subst a'. specialize (Hi a Hr). congruence.
Qed.
Lemma irs_inv_remove s a s' : irs_inv s -> remove_identity s a = Ok s' -> irs_inv s'.
Proof.
  intros Hi H. unfold remove_identity in H. apply bind_ok in H. destruct H as [d0 [_ H]].
  apply bind_ok in H. destruct H as [p [_ H]].
  assert (E1 : ir_identity s' = aremove N.eqb a (ir_identity s)) by (inversion H; reflexivity).
  assert (E2 : ir_recovered s' = ir_recovered s) by (inversion H; reflexivity).
  intros a' Hr. unfold get_recovered_to in Hr. rewrite E2 in Hr. rewrite E1, (aget_aremove _ N_eqb_spec).
  destruct (N.eqb a' a); [reflexivity | apply Hi; exact Hr].
Qed.
Lemma irs_inv_recover s old new s' : irs_inv s -> recover_identity s old new = Ok s' -> irs_inv s'.
Proof.
  intros Hi H. unfold recover_identity in H.
  destruct (is_some (get_recovered_to s new)) eqn:Er; [discriminate|]. apply is_some_false in Er.
  apply bind_ok in H. destruct H as [d [E0 H]].
  destruct (is_some (aget N.eqb new (ir_identity s))) eqn:En; [discriminate|]. apply is_some_false in En.
  apply bind_ok in H. destruct H as [p [_ H]].
  assert (E1 : ir_identity s' = aremove N.eqb old (aset N.eqb new d (ir_identity s))) by (inversion H; reflexivity).
  assert (E2 : ir_recovered s' = aset N.eqb old new (ir_recovered s)) by (inversion H; reflexivity).
  intros a' Hr. unfold get_recovered_to in Hr. rewrite E2, (aget_aset _ N_eqb_spec) in Hr.
  rewrite E1, (aget_aremove _ N_eqb_spec). destruct (N.eqb a' old) eqn:Ea; [reflexivity|].
  rewrite (aget_aset _ N_eqb_spec). destruct (N.eqb a' new) eqn:Eb.
  - apply N.eqb_eq in Eb. subst a'. unfold get_recovered_to in Er. congruence.
  - apply Hi. exact Hr.
Qed.

Definition irss_inv (w : world) : Prop := forall a s, aget N.eqb a (w_irss w) = Some s -> irs_inv s.

Lemma the_irs_get w a s : the_irs w a = Ok s -> aget N.eqb a (w_irss w) = Some s.
Proof. unfold the_irs. apply of_option_ok. Qed.

Lemma step_irss_inv c w k : irss_inv w -> irss_inv (fst (step c w k)).
Proof.
  intros Hw. destruct (step c w k) as [w' out] eqn:E. cbn [fst].
  assert (Hsame : forall w1, w_irss w1 = w_irss w -> irss_inv w1) by (intros w1 F a s; rewrite F; apply Hw).
  assert (Hset : forall a s0 s1, the_irs w a = Ok s0 -> irs_inv s1 -> irss_inv (set_irs w a s1)).
  { intros a s0 s1 _ H1 a0 s2. cbn [set_irs w_irss]. rewrite (aget_aset _ N_eqb_spec).
    destruct (N.eqb a0 a); [intros X; inversion X; subst; exact H1 | apply Hw]. }
  destruct k; cbn [step] in E;
    try (unfold pure in E; inversion E; subst; exact Hw);
    try (inversion E; subst; apply Hsame; reflexivity);
    try (apply (upd_inv irss_inv _ _ _ _ _ E Hw); intros s0 _; apply Hsame; reflexivity).
  - apply (upd_inv irss_inv _ _ _ _ _ E Hw). intros s Hs. apply bind_ok in Hs. destruct Hs as [s0 [E0 Hs]].
    apply (Hset _ _ _ E0). eapply irs_inv_add; eauto. apply (Hw _ _ (the_irs_get _ _ _ E0)).
  - apply (upd_inv irss_inv _ _ _ _ _ E Hw). intros s Hs. apply bind_ok in Hs. destruct Hs as [s0 [E0 Hs]].
    apply (Hset _ _ _ E0). eapply irs_inv_modify; eauto. apply (Hw _ _ (the_irs_get _ _ _ E0)).
  - apply (upd_inv irss_inv _ _ _ _ _ E Hw). intros s Hs. apply bind_ok in Hs. destruct Hs as [s0 [E0 Hs]].
    apply (Hset _ _ _ E0). eapply irs_inv_remove; eauto. apply (Hw _ _ (the_irs_get _ _ _ E0)).
  - apply (upd_inv irss_inv _ _ _ _ _ E Hw). intros s Hs. apply bind_ok in Hs. destruct Hs as [s0 [E0 Hs]].
    apply (Hset _ _ _ E0). eapply irs_inv_recover; eauto. apply (Hw _ _ (the_irs_get _ _ _ E0)).
  - match type of E with (match ?x with _ => _ end) = _ => destruct x as [[s' id]|] end; inversion E; subst; [apply Hsame; reflexivity | exact Hw].
Qed.

Theorem reachable_irss_inv c now ctis irss idents issuers ks :
  irss_inv (run c (init now ctis irss idents issuers) ks).
Proof.
  induction ks as [|k ks IH] using rev_ind.
  - intros a s H. cbn [run fold_left init w_irss] in H. apply aget_init in H. subst. apply irs_inv_init.
  - rewrite run_app. apply step_irss_inv. exact IH.
Qed.

(* an account that has been recovered to another one is never verified again *)
Theorem recovered_account_unverifiable c now ctis irss idents issuers ks a b :
  let w := run c (init now ctis irss idents issuers) ks in
  recovery_target w a = Ok (Some b) -> verify_identity c w a = Fail.
Proof.
  intros w Hr. unfold recovery_target in Hr.
  apply bind_ok in Hr. destruct Hr as [ra [E1 Hr]]. apply of_option_ok in E1.
  apply bind_ok in Hr. destruct Hr as [r [E2 Hr]]. inversion Hr as [Hrec].
  pose proof (reachable_irss_inv c now ctis irss idents issuers ks ra r (the_irs_get _ _ _ E2)) as Hi.
  unfold verify_identity, verify_identity_gen. fold w. rewrite E1. cbn [of_option bind]. rewrite E2. cbn [bind].
  unfold stored_identity. rewrite (Hi a); [reflexivity|]. congruence.
Qed.

(* the fix of F4 is the only difference: the two versions agree whenever every required topic
   has at least one trusted issuer, and the fixed one is never more permissive *)
Lemma check_topics_fix_agree c w d m :
  (forall t issuers, In (t, issuers) m -> issuers <> []) ->
  check_topics true c w d m = check_topics false c w d m.
Proof.
  induction m as [|[t issuers] r IH]; intros H; cbn [check_topics]; [reflexivity|].
  rewrite IH by (intros t' i' Hin; apply (H t' i'); right; exact Hin).
  unfold check_topic. destruct issuers as [|i0 rest]; [exfalso; apply (H t []); [left|]; reflexivity|]. reflexivity.
Qed.
Lemma check_topics_fix_stricter c w d m :
  check_topics true c w d m = Ok tt -> check_topics false c w d m = Ok tt.
Proof.
  induction m as [|[t issuers] r IH]; cbn [check_topics]; intros H; [reflexivity|].
  apply bind_ok in H. destruct H as [[] [H1 H2]]. rewrite (IH H2).
  unfold check_topic in *. cbn [andb] in *. destruct issuers as [|i0 rest]; cbn [is_nil] in *; [discriminate|].
  rewrite H1. reflexivity.
Qed.
Theorem fix_is_stricter c w a : verify_identity c w a = Ok tt -> verify_identity_prefix c w a = Ok tt.
Proof.
  unfold verify_identity, verify_identity_prefix, verify_identity_gen. intros H.
  apply bind_ok in H. destruct H as [ra [E1 H]]. apply bind_ok in H. destruct H as [r [E2 H]].
  apply bind_ok in H. destruct H as [d [E3 H]]. apply bind_ok in H. destruct H as [ca [E4 H]].
  apply bind_ok in H. destruct H as [ct [E5 H]]. apply bind_ok in H. destruct H as [m [E6 H]].
  rewrite E1. cbn [bind]. rewrite E2. cbn [bind]. rewrite E3. cbn [bind]. rewrite E4. cbn [bind].
  rewrite E5. cbn [bind]. rewrite E6. cbn [bind]. apply check_topics_fix_stricter. exact H.
Qed.
Theorem fix_only_difference c w a :
  (forall ca ct m t issuers, w_vcti w = Some ca -> the_cti w ca = Ok ct -> get_claim_topics_and_issuers ct = Ok m ->
     In (t, issuers) m -> issuers <> []) ->
  verify_identity c w a = verify_identity_prefix c w a.
Proof.
  intros Hne. unfold verify_identity, verify_identity_prefix, verify_identity_gen.
  destruct (w_virs w) as [ra|]; cbn [of_option bind]; [|reflexivity].
  destruct (the_irs w ra) as [r|]; cbn [bind]; [|reflexivity].
  destruct (stored_identity r a) as [d|]; cbn [bind]; [|reflexivity].
  destruct (w_vcti w) as [ca|] eqn:E4; cbn [of_option bind]; [|reflexivity].
  destruct (the_cti w ca) as [ct|] eqn:E5; cbn [bind]; [|reflexivity].
  destruct (get_claim_topics_and_issuers ct) as [m|] eqn:E6; cbn [bind]; [|reflexivity].
  apply check_topics_fix_agree. intros t issuers Hin. eapply Hne; eauto.
Qed.
