(* C03 - invariants of the rule table, preserved by every rule-management operation,
   hence true in every reachable state (induction over call sequences). *)
From SC Require Import Lib.Prelude Lib.Int Lib.Host Model.SmartAccount Proofs.SmartAccount.
From Coq Require Import Sorted.

(* ------------------------------------------------------------------------- *)
(* list facts                                                                 *)
(* ------------------------------------------------------------------------- *)
Lemma filter_rev' {A} (f : A -> bool) l : filter f (rev l) = rev (filter f l).
Proof.
  induction l as [|x r IH]; [reflexivity|]. cbn [rev filter]. rewrite filter_app, IH. cbn [filter].
  destruct (f x); [reflexivity|apply app_nil_r].
Qed.

Lemma filter_comm {A} (f g : A -> bool) l : filter f (filter g l) = filter g (filter f l).
Proof.
  induction l as [|x r IH]; [reflexivity|]. cbn [filter].
  destruct (g x) eqn:G, (f x) eqn:F; cbn [filter]; rewrite ?G, ?F, IH; reflexivity.
Qed.

Lemma SSorted_app_one l x : StronglySorted Z.lt l -> (forall y, In y l -> y < x) -> StronglySorted Z.lt (l ++ [x]).
Proof.
  induction 1 as [|y l S IH F]; intros H; cbn [app].
  - constructor; constructor.
  - constructor.
    + apply IH. intros z Hz. apply H. right. exact Hz.
    + apply Forall_app. split; [exact F|]. constructor; [apply H; left; reflexivity|constructor].
Qed.

Lemma SSorted_filter (f : Z -> bool) l : StronglySorted Z.lt l -> StronglySorted Z.lt (filter f l).
Proof.
  induction 1 as [|y l S IH F]; cbn [filter]; [constructor|].
  destruct (f y); [|exact IH]. constructor; [exact IH|].
  rewrite Forall_forall in *. intros z Hz. apply filter_In in Hz. apply F. tauto.
Qed.

Lemma SSorted_NoDup l : StronglySorted Z.lt l -> NoDup l.
Proof.
  induction 1 as [|y l S IH F]; constructor; [|exact IH].
  intros Hi. rewrite Forall_forall in F. specialize (F y Hi). lia.
Qed.

Lemma map_filter_id (f : Z -> bool) (l : list rule) :
  map r_id (filter (fun r => f (r_id r)) l) = filter f (map r_id l).
Proof.
  induction l as [|x r IH]; [reflexivity|]. cbn [filter map]. destruct (f (r_id x)); cbn [map]; rewrite IH; reflexivity.
Qed.

Lemma SSorted_map_filter (f : rule -> bool) (l : list rule) :
  StronglySorted Z.lt (map r_id l) -> StronglySorted Z.lt (map r_id (filter f l)).
Proof.
  induction l as [|x l IH]; intros S; [constructor|]. cbn [map] in S. inversion S as [|? ? S' F]; subst.
  cbn [filter]. destruct (f x); [|auto]. cbn [map]. constructor; [auto|].
  rewrite Forall_forall in *. intros z Hz. apply F. apply in_map_iff in Hz. destruct Hz as [y [<- Hy]].
  apply in_map. apply filter_In in Hy. tauto.
Qed.

(* remove_first / remove_last on duplicate-free lists *)
Lemma remove_first_nodup (x : Z) l :
  NoDup l -> In x l -> remove_first Z.eqb x l = Some (filter (fun y => negb (y =? x)) l).
Proof.
  induction 1 as [|y l Hn Hd IH]; intros Hi; [destruct Hi|]. cbn [remove_first filter].
  destruct (x =? y) eqn:E.
  - apply Z.eqb_eq in E. subst y. rewrite Z.eqb_refl. cbn [negb]. f_equal.
    symmetry. clear IH Hd Hi. induction l as [|z l IH]; [reflexivity|]. cbn [filter].
    destruct (z =? x) eqn:E2.
    + apply Z.eqb_eq in E2. subst. exfalso. apply Hn. left. reflexivity.
    + cbn [negb]. f_equal. apply IH. intros H. apply Hn. right. exact H.
  - assert (y =? x = false) as -> by (rewrite Z.eqb_sym; exact E). cbn [negb].
    destruct Hi as [->|Hi]; [rewrite Z.eqb_refl in E; discriminate|].
    rewrite (IH Hi). reflexivity.
Qed.

Lemma remove_first_notin (x : Z) l : ~ In x l -> remove_first Z.eqb x l = None.
Proof.
  induction l as [|y l IH]; intros Hn; [reflexivity|]. cbn [remove_first].
  destruct (x =? y) eqn:E; [apply Z.eqb_eq in E; subst; exfalso; apply Hn; left; reflexivity|].
  rewrite IH; [reflexivity|]. intros H. apply Hn. right. exact H.
Qed.

Lemma remove_last_nodup (x : Z) l :
  NoDup l -> In x l -> remove_last Z.eqb x l = Some (filter (fun y => negb (y =? x)) l).
Proof.
  intros Hd Hi. unfold remove_last.
  rewrite remove_first_nodup; [|apply NoDup_rev; exact Hd|apply in_rev; rewrite rev_involutive; exact Hi].
  rewrite filter_rev', rev_involutive. reflexivity.
Qed.

Lemma remove_last_notin (x : Z) l : ~ In x l -> remove_last Z.eqb x l = None.
Proof.
  intros Hn. unfold remove_last. rewrite remove_first_notin; [reflexivity|].
  intros H. apply Hn. apply in_rev. exact H.
Qed.

Lemma filter_notin_id (x : Z) l : ~ In x l -> filter (fun y => negb (y =? x)) l = l.
Proof.
  induction l as [|y l IH]; intros Hn; [reflexivity|]. cbn [filter].
  destruct (y =? x) eqn:E; [apply Z.eqb_eq in E; subst; exfalso; apply Hn; left; reflexivity|].
  cbn [negb]. f_equal. apply IH. intros H. apply Hn. right. exact H.
Qed.

(* ------------------------------------------------------------------------- *)
(* the id index                                                               *)
(* ------------------------------------------------------------------------- *)
Definition lookup_ids (ids : list (ctype * list Z)) (t : ctype) : list Z :=
  match find (fun p => ctype_eqb (fst p) t) ids with Some p => snd p | None => [] end.

Lemma ids_of_lookup a t : ids_of a t = lookup_ids (a_ids a) t.
Proof. reflexivity. Qed.

Lemma ctype_eqb_sym x y : ctype_eqb x y = ctype_eqb y x.
Proof.
  destruct (ctype_eqb x y) eqn:E.
  - apply ctype_eqb_eq in E. subst. symmetry. apply ctype_eqb_refl.
  - destruct (ctype_eqb y x) eqn:E2; [|reflexivity]. apply ctype_eqb_eq in E2. subst.
    rewrite ctype_eqb_refl in E. discriminate.
Qed.

Lemma lookup_set_ids_eq t l ids : lookup_ids (set_ids t l ids) t = l.
Proof. unfold lookup_ids, set_ids. cbn [find fst]. rewrite ctype_eqb_refl. reflexivity. Qed.

Lemma lookup_set_ids_neq t t' l ids : t <> t' -> lookup_ids (set_ids t l ids) t' = lookup_ids ids t'.
Proof.
  intros Hn. unfold lookup_ids, set_ids. cbn [find fst].
  destruct (ctype_eqb t t') eqn:E; [apply ctype_eqb_eq in E; contradiction|].
  induction ids as [|[t2 l2] r IH]; [reflexivity|]. cbn [filter fst find].
  destruct (ctype_eqb t2 t) eqn:E2; cbn [negb].
  - apply ctype_eqb_eq in E2. subst t2. rewrite E. exact IH.
  - cbn [find fst]. destruct (ctype_eqb t2 t'); [reflexivity|exact IH].
Qed.

(* ------------------------------------------------------------------------- *)
(* the invariant                                                              *)
(* ------------------------------------------------------------------------- *)
Definition typed_rules (a : acct) (t : ctype) : list rule :=
  filter (fun r => ctype_eqb (r_type r) t) (a_rules a).

Record wf (a : acct) : Prop := mkWf {
  (* ids are handed out in increasing order and never reused *)
  wf_sorted : StronglySorted Z.lt (map r_id (a_rules a));
  wf_next0 : 0 <= a_next a;
  wf_next : forall r, In r (a_rules a) -> 0 <= r_id r < a_next a;
  (* Ids(t) lists exactly the rules of type t, oldest first *)
  wf_ids : forall t, ids_of a t = map r_id (typed_rules a t) }.

Lemma wf_acct0 : wf acct0.
Proof. constructor; cbn; [constructor|lia|intros r []|reflexivity]. Qed.

Lemma get_rule_some a id r : get_rule a id = Some r -> In r (a_rules a) /\ r_id r = id.
Proof.
  unfold get_rule. intros H. apply find_some in H. destruct H as [H1 H2].
  split; [exact H1|apply Z.eqb_eq; exact H2].
Qed.

Lemma find_id_in l : StronglySorted Z.lt (map r_id l) ->
  forall r, In r l -> find (fun x => r_id x =? r_id r) l = Some r.
Proof.
  induction l as [|y l IH]; intros S r Hr; [destruct Hr|]. cbn [map] in S. inversion S as [|? ? S' F]; subst.
  cbn [find]. destruct Hr as [->|Hr]; [rewrite Z.eqb_refl; reflexivity|].
  destruct (r_id y =? r_id r) eqn:E; [|apply IH; assumption].
  apply Z.eqb_eq in E. rewrite Forall_forall in F. specialize (F (r_id r) (in_map r_id _ _ Hr)). lia.
Qed.

Lemma get_rule_in a r : wf a -> In r (a_rules a) -> get_rule a (r_id r) = Some r.
Proof. intros W Hr. unfold get_rule. apply find_id_in; [apply W|exact Hr]. Qed.

Lemma wf_id_inj a r1 r2 : wf a -> In r1 (a_rules a) -> In r2 (a_rules a) -> r_id r1 = r_id r2 -> r1 = r2.
Proof.
  intros W H1 H2 E. pose proof (get_rule_in a r1 W H1) as G1. pose proof (get_rule_in a r2 W H2) as G2.
  rewrite E in G1. congruence.
Qed.

(* set_rule: in-place replacement of the rule with the same id *)
Lemma set_rule_ids r' l : map r_id (set_rule r' l) = map r_id l.
Proof.
  unfold set_rule. induction l as [|x l IH]; [reflexivity|]. cbn [map]. rewrite IH. f_equal.
  destruct (r_id x =? r_id r') eqn:E; [apply Z.eqb_eq in E; congruence|reflexivity].
Qed.

Lemma set_rule_In r' l x : In x (set_rule r' l) -> x = r' \/ (In x l /\ r_id x <> r_id r').
Proof.
  unfold set_rule. intros H. apply in_map_iff in H. destruct H as [y [E Hy]].
  destruct (r_id y =? r_id r') eqn:E2; [left; congruence|].
  right. subst y. split; [exact Hy|apply Z.eqb_neq; exact E2].
Qed.

Lemma In_set_rule r r' l : In r l -> r_id r = r_id r' -> In r' (set_rule r' l).
Proof.
  intros Hr E. unfold set_rule. apply in_map_iff. exists r. split; [|exact Hr].
  rewrite E, Z.eqb_refl. reflexivity.
Qed.

Lemma In_set_rule_other r' l x : In x l -> r_id x <> r_id r' -> In x (set_rule r' l).
Proof.
  intros Hx Hn. unfold set_rule. apply in_map_iff. exists x. split; [|exact Hx].
  destruct (r_id x =? r_id r') eqn:E; [apply Z.eqb_eq in E; contradiction|reflexivity].
Qed.

Lemma set_rule_typed r' l t :
  (forall x, In x l -> r_id x = r_id r' -> r_type x = r_type r') ->
  map r_id (filter (fun r => ctype_eqb (r_type r) t) (set_rule r' l))
  = map r_id (filter (fun r => ctype_eqb (r_type r) t) l).
Proof.
  unfold set_rule. induction l as [|x l IH]; intros H; [reflexivity|]. cbn [map filter].
  assert (IH' := IH (fun y Hy => H y (or_intror Hy))).
  destruct (r_id x =? r_id r') eqn:E.
  - apply Z.eqb_eq in E. rewrite <- (H x (or_introl eq_refl) E).
    destruct (ctype_eqb (r_type x) t); cbn [map]; rewrite IH'; [rewrite E|]; reflexivity.
  - destruct (ctype_eqb (r_type x) t); cbn [map]; rewrite IH'; reflexivity.
Qed.

(* replacing a stored rule by one with the same id and type keeps the invariant *)
Lemma wf_set_rule a r r' ids fps :
  wf a -> get_rule a (r_id r') = Some r -> r_type r' = r_type r ->
  ids = a_ids a ->
  wf (mkAcct (set_rule r' (a_rules a)) ids (a_next a) (a_count a) fps).
Proof.
  intros W G Ht ->. destruct (get_rule_some _ _ _ G) as [Hr Hid]. constructor; cbn [a_rules a_next a_ids].
  - rewrite set_rule_ids. apply W.
  - apply W.
  - intros x Hx. destruct (set_rule_In _ _ _ Hx) as [->|[Hx' _]]; [rewrite <- Hid|]; apply W; assumption.
  - intros t. unfold typed_rules. cbn [a_rules]. unfold ids_of. cbn [a_ids]. rewrite set_rule_typed.
    + apply (wf_ids a W t).
    + intros x Hx E. rewrite Ht. f_equal. apply (wf_id_inj a x r W Hx Hr). congruence.
Qed.

(* ------------------------------------------------------------------------- *)
(* preservation                                                               *)
(* ------------------------------------------------------------------------- *)
Ltac bind_inv H :=
  repeat match type of H with
  | bind ?x _ = Ok _ => let E := fresh "E" in destruct x eqn:E; [cbn [bind] in H|discriminate H]
  | (let '(_, _) := ?p in _) = Ok _ => destruct p
  end.

Lemma guard_ok b u : guard b = Ok u -> b = true.
Proof. destruct b; [reflexivity|discriminate]. Qed.

Lemma wf_add_context_rule O c a now t name valid signers policies a' r l :
  wf a -> add_context_rule O c a now t name valid signers policies = Ok (a', r, l) -> wf a'.
Proof.
  intros W H. unfold add_context_rule in H. bind_inv H. inversion H; subst; clear H.
  constructor; cbn [a_rules a_next a_ids].
  - rewrite map_app. cbn [map r_id]. apply SSorted_app_one; [apply W|].
    intros y Hy. apply in_map_iff in Hy. destruct Hy as [x [<- Hx]]. apply (wf_next a W x Hx).
  - pose proof (wf_next0 a W). lia.
  - intros x Hx. apply in_app_or in Hx. destruct Hx as [Hx|[<-|[]]].
    + pose proof (wf_next a W x Hx). lia.
    + cbn [r_id]. pose proof (wf_next0 a W). lia.
  - intros t'. rewrite ids_of_lookup. cbn [a_ids]. unfold typed_rules. cbn [a_rules].
    rewrite filter_app, map_app. cbn [filter r_type].
    destruct (ctype_eqb t t') eqn:Et.
    + apply ctype_eqb_eq in Et. subst t'. rewrite lookup_set_ids_eq. rewrite (wf_ids a W t). reflexivity.
    + rewrite lookup_set_ids_neq by (intros ->; rewrite ctype_eqb_refl in Et; discriminate).
      cbn [map]. rewrite app_nil_r. apply (wf_ids a W t').
Qed.

Lemma wf_update_name a id name a' r l :
  wf a -> update_context_rule_name a id name = Ok (a', r, l) -> wf a'.
Proof.
  intros W H. unfold update_context_rule_name, get_context_rule in H.
  destruct (get_rule a id) as [r0|] eqn:G; [|discriminate]. cbn in H. inversion H; subst; clear H.
  destruct (get_rule_some _ _ _ G) as [_ Hid].
  unfold with_rules. eapply wf_set_rule; eauto.
Qed.

Lemma wf_update_valid a now id valid a' r l :
  wf a -> update_context_rule_valid_until a now id valid = Ok (a', r, l) -> wf a'.
Proof.
  intros W H. unfold update_context_rule_valid_until, get_context_rule in H.
  destruct (get_rule a id) as [r0|] eqn:G; [|discriminate]. cbn [of_option bind] in H.
  destruct (guard (valid_until_ok now valid)); [|discriminate]. cbn in H. inversion H; subst; clear H.
  unfold with_rules. eapply wf_set_rule; eauto.
Qed.

Lemma wf_set_signers a r s fps : wf a -> get_rule a (r_id r) = Some r -> wf (set_signers a r s fps).
Proof. intros W G. unfold set_signers. eapply wf_set_rule; eauto. Qed.
Lemma wf_set_policies a r p fps : wf a -> get_rule a (r_id r) = Some r -> wf (set_policies a r p fps).
Proof. intros W G. unfold set_policies. eapply wf_set_rule; eauto. Qed.

Lemma get_context_rule_some a id r : get_context_rule a id = Ok r -> get_rule a id = Some r.
Proof. unfold get_context_rule. destruct (get_rule a id); cbn; congruence. Qed.

Lemma wf_add_signer c a id s a' l : wf a -> add_signer c a id s = Ok (a', l) -> wf a'.
Proof.
  intros W H. unfold add_signer in H. bind_inv H. inversion H; subst; clear H.
  apply get_context_rule_some in E. destruct (get_rule_some _ _ _ E) as [_ <-].
  apply wf_set_signers; assumption.
Qed.
Lemma wf_remove_signer c a id s a' l : wf a -> remove_signer c a id s = Ok (a', l) -> wf a'.
Proof.
  intros W H. unfold remove_signer in H. bind_inv H. inversion H; subst; clear H.
  apply get_context_rule_some in E. destruct (get_rule_some _ _ _ E) as [_ <-].
  apply wf_set_signers; assumption.
Qed.
Lemma wf_add_policy O c a id p n a' l : wf a -> add_policy O c a id p n = Ok (a', l) -> wf a'.
Proof.
  intros W H. unfold add_policy in H. bind_inv H. inversion H; subst; clear H.
  apply get_context_rule_some in E. destruct (get_rule_some _ _ _ E) as [_ <-].
  apply wf_set_policies; assumption.
Qed.
Lemma wf_remove_policy O c a id p a' l : wf a -> remove_policy O c a id p = Ok (a', l) -> wf a'.
Proof.
  intros W H. unfold remove_policy in H. bind_inv H. inversion H; subst; clear H.
  apply get_context_rule_some in E. destruct (get_rule_some _ _ _ E) as [_ <-].
  apply wf_set_policies; assumption.
Qed.

Lemma typed_rules_del a id t :
  map r_id (filter (fun r => ctype_eqb (r_type r) t) (del_rule id (a_rules a)))
  = filter (fun y => negb (y =? id)) (map r_id (typed_rules a t)).
Proof.
  unfold del_rule, typed_rules. rewrite filter_comm.
  apply (map_filter_id (fun y => negb (y =? id))).
Qed.

Lemma wf_remove_context_rule O a id a' l : wf a -> remove_context_rule O a id = Ok (a', l) -> wf a'.
Proof.
  intros W H. unfold remove_context_rule in H.
  destruct (get_context_rule a id) as [r|] eqn:E; [|discriminate]. cbn [bind] in H.
  destruct (remove_fingerprint (a_fps a) (r_type r) (r_signers r) (r_policies r)) as [fps|]; [|discriminate].
  cbn [bind] in H. destruct (a_count a) as [cnt|]; [|discriminate]. cbn [of_option bind] in H.
  destruct (guard (in_u32 (cnt - 1))); [|discriminate]. cbn [bind] in H. inversion H; subst; clear H.
  apply get_context_rule_some in E. destruct (get_rule_some _ _ _ E) as [Hr Hid].
  constructor; cbn [a_rules a_next a_ids].
  - unfold del_rule. rewrite (map_filter_id (fun y => negb (y =? id))). apply SSorted_filter. apply W.
  - apply W.
  - intros x Hx. unfold del_rule in Hx. apply filter_In in Hx. apply W. tauto.
  - intros t. rewrite ids_of_lookup. cbn [a_ids]. unfold typed_rules at 1. cbn [a_rules].
    rewrite typed_rules_del.
    assert (Hin : In id (ids_of a (r_type r))).
    { rewrite (wf_ids a W). rewrite <- Hid. apply in_map. apply filter_In. split; [exact Hr|apply ctype_eqb_refl]. }
    assert (Hnd : NoDup (ids_of a (r_type r))).
    { rewrite (wf_ids a W). apply SSorted_NoDup. apply SSorted_map_filter. apply W. }
    rewrite (remove_last_nodup id _ Hnd Hin).
    destruct (ctype_eqb (r_type r) t) eqn:Et.
    + apply ctype_eqb_eq in Et. subst t. rewrite lookup_set_ids_eq. rewrite (wf_ids a W). reflexivity.
    + rewrite lookup_set_ids_neq by (intros <-; rewrite ctype_eqb_refl in Et; discriminate).
      rewrite <- ids_of_lookup, (wf_ids a W t). symmetry. apply filter_notin_id.
      intros Hi. apply in_map_iff in Hi. destruct Hi as [x [Hx1 Hx2]]. unfold typed_rules in Hx2.
      apply filter_In in Hx2. destruct Hx2 as [Hx2 Hx3]. apply ctype_eqb_eq in Hx3.
      assert (x = r) by (apply (wf_id_inj a x r W Hx2 Hr); congruence). subst x.
      rewrite Hx3, ctype_eqb_refl in Et. discriminate.
Qed.

Lemma wf_run_op O c a now op a' ret l : wf a -> run_op O c a now op = Ok (a', ret, l) -> wf a'.
Proof.
  intros W H. destruct op; cbn [run_op] in H.
  - destruct (add_context_rule O c a now t name valid signers policies) as [[[a1 r1] l1]|] eqn:E; [|discriminate].
    cbn in H. inversion H; subst. eapply wf_add_context_rule; eauto.
  - destruct (update_context_rule_name a id name) as [[[a1 r1] l1]|] eqn:E; [|discriminate].
    cbn in H. inversion H; subst. eapply wf_update_name; eauto.
  - destruct (update_context_rule_valid_until a now id valid) as [[[a1 r1] l1]|] eqn:E; [|discriminate].
    cbn in H. inversion H; subst. eapply wf_update_valid; eauto.
  - destruct (remove_context_rule O a id) as [[a1 l1]|] eqn:E; [|discriminate].
    cbn in H. inversion H; subst. eapply wf_remove_context_rule; eauto.
  - destruct (add_signer c a id s) as [[a1 l1]|] eqn:E; [|discriminate].
    cbn in H. inversion H; subst. eapply wf_add_signer; eauto.
  - destruct (remove_signer c a id s) as [[a1 l1]|] eqn:E; [|discriminate].
    cbn in H. inversion H; subst. eapply wf_remove_signer; eauto.
  - destruct (add_policy O c a id p param) as [[a1 l1]|] eqn:E; [|discriminate].
    cbn in H. inversion H; subst. eapply wf_add_policy; eauto.
  - destruct (remove_policy O c a id p) as [[a1 l1]|] eqn:E; [|discriminate].
    cbn in H. inversion H; subst. eapply wf_remove_policy; eauto.
Qed.

(* the state invariant: the table is well formed, and nothing is stored before deployment *)
Definition swf (st : state) : Prop := wf (s_acct st) /\ 0 <= s_now st.

Lemma swf_init : swf init.
Proof. split; [apply wf_acct0|cbn; lia]. Qed.

Lemma swf_step c st cl : swf st -> swf (fst (step c st cl)).
Proof.
  intros [W N]. destruct cl; cbn [step].
  - destruct (s_deployed st); [split; assumption|].
    destruct (add_context_rule _ c (s_acct st) (s_now st) TDefault 0%N None signers policies) as [[[a1 r1] l1]|] eqn:E;
      cbn [fst]; [|split; assumption].
    split; [eapply wf_add_context_rule; eauto|exact N].
  - destruct ((0 <=? n) && in_u32 (s_now st + n)) eqn:E; cbn [fst]; [|split; assumption].
    split; [exact W|]. cbn [s_now]. apply andb_prop in E. destruct E as [E _]. lia.
  - split; assumption.
  - destruct (negb (s_deployed st)); [split; assumption|].
    destruct (do_check_auth _ (s_acct st) (s_now st) auths sigs [CCall self (fn_of op)]) as [l1|]; cbn [bind];
      [|split; assumption].
    destruct (run_op _ c (s_acct st) (s_now st) op) as [[[a1 ret] l2]|] eqn:E; cbn [bind fst]; [|split; assumption].
    split; [eapply wf_run_op; eauto|exact N].
  - destruct (negb (s_deployed st)); [split; assumption|].
    destruct (do_check_auth _ (s_acct st) (s_now st) auths sigs cs); split; assumption.
  - destruct (negb (s_deployed st)); [split; assumption|].
    destruct (do_check_auth _ (s_acct st) (s_now st) auths sigs cs); split; assumption.
  - destruct (negb (s_deployed st)); [split; assumption|].
    destruct (do_check_auth _ (s_acct st) (s_now st) auths sigs _); [|split; assumption].
    destruct ((1 <=? t) && (t <=? nsig)); split; assumption.
Qed.

Lemma swf_run c cs : forall st, swf st -> swf (run c st cs).
Proof.
  induction cs as [|cl cs IH]; intros st W; [exact W|]. cbn [run fold_left].
  apply IH. apply swf_step. exact W.
Qed.

Theorem reachable_wf c cs : wf (s_acct (run c init cs)).
Proof. apply (swf_run c cs init swf_init). Qed.

(* ------------------------------------------------------------------------- *)
(* what get_valid_context_rules computes on a well-formed table               *)
(* ------------------------------------------------------------------------- *)
Definition live (now : Z) (r : rule) : bool := negb (expired now r).

Lemma collect_spec a now (F : list rule) acc :
  (forall r, In r F -> get_rule a (r_id r) = Some r) ->
  collect a now (map r_id F) acc = Ok (rev (filter (live now) F) ++ acc).
Proof.
  revert acc. induction F as [|x F IH]; intros acc H; [reflexivity|].
  cbn [map collect]. unfold get_context_rule. rewrite (H x (or_introl eq_refl)). cbn [of_option bind].
  cbn [filter]. unfold live at 1. destruct (expired now x); cbn [negb].
  - apply IH. intros r Hr. apply H. right. exact Hr.
  - rewrite IH by (intros r Hr; apply H; right; exact Hr). cbn [rev]. rewrite <- app_assoc. reflexivity.
Qed.

Definition valid_list (a : acct) (now : Z) (t : ctype) : list rule :=
  rev (filter (live now) (typed_rules a t)) ++ rev (filter (live now) (typed_rules a TDefault)).

Lemma get_valid_context_rules_wf a now t :
  wf a -> get_valid_context_rules a now t = Ok (valid_list a now t).
Proof.
  intros W. unfold get_valid_context_rules, valid_list.
  assert (H : forall t', collect a now (ids_of a t') [] = Ok (rev (filter (live now) (typed_rules a t')))).
  { intros t'. rewrite (wf_ids a W t'). rewrite collect_spec; [rewrite app_nil_r; reflexivity|].
    intros r Hr. apply get_rule_in; [exact W|]. unfold typed_rules in Hr. apply filter_In in Hr. tauto. }
  rewrite !H. reflexivity.
Qed.

Lemma In_valid_list a now t r :
  In r (valid_list a now t) <->
  In r (a_rules a) /\ (r_type r = t \/ r_type r = TDefault) /\ expired now r = false.
Proof.
  unfold valid_list, typed_rules. rewrite in_app_iff, <- !in_rev, !filter_In.
  unfold live. rewrite !ctype_eqb_eq. destruct (expired now r); cbn [negb]; intuition congruence.
Qed.
