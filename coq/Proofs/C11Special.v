(* C11: nobody is exempt from authorisation.  Whatever address a call names as the party that has to
   authorise it - the token contract's own address, another contract, a classic account, the current
   owner - the call fails unless that very address is in the call's authorisation set.  (The model has
   no distinguished address at all; this is the statement the correspondence run checks on the real
   contracts with the contract's own address, a calling contract and a classic account in every party
   position of every call kind.) *)
From SC Require Import Lib.Prelude Lib.Int Lib.Host Model.Nft Proofs.C11Final.
Local Open Scope N_scope.

(* the party whose authorisation the call requires / the authorisation set the call carries *)
Definition signer (cl : call) : option addr :=
  match cl with
  | Transfer _ from _ _ | Burn _ from _ => Some from
  | TransferFrom _ sp _ _ _ | BurnFrom _ sp _ _ => Some sp
  | Approve _ approver _ _ _ => Some approver
  | ApproveForAll _ o _ _ => Some o
  | Advance _ | MintSeq _ | MintId _ _ | BatchMint _ _ => None
  end.
Definition auths_of (cl : call) : list addr :=
  match cl with
  | Transfer a _ _ _ | TransferFrom a _ _ _ _ | Burn a _ _ | BurnFrom a _ _ _ | Approve a _ _ _ _
  | ApproveForAll a _ _ _ => a
  | Advance _ | MintSeq _ | MintId _ _ | BatchMint _ _ => []
  end.

Theorem signer_must_sign fl c s cl x :
  signer cl = Some x -> ~ In x (auths_of cl) -> exec fl c s cl = Fail.
Proof.
  intros Hs Hn. destruct (exec fl c s cl) as [[s' r]|] eqn:E; [exfalso | reflexivity].
  destruct cl; cbn [signer] in Hs; try discriminate; injection Hs as <-; cbn [auths_of] in Hn.
  - pose proof (move_authority _ _ _ _ _ _ E) as H. cbn in H. apply Hn, H.
  - pose proof (move_authority _ _ _ _ _ _ E) as H. cbn in H. apply Hn, H.
  - pose proof (move_authority _ _ _ _ _ _ E) as H. cbn in H. apply Hn, H.
  - pose proof (move_authority _ _ _ _ _ _ E) as H. cbn in H. apply Hn, H.
  - apply Hn. eapply approve_authority; exact E.
  - apply Hn. eapply approve_for_all_authority; exact E.
Qed.

(* in particular a call nobody authorised moves nothing, approves nothing, appoints nobody - and, a failing
   call being rolled back, leaves the state as it was *)
Corollary unsigned_call_fails fl c s cl :
  signer cl <> None -> auths_of cl = [] -> step fl c s cl = (s, Fail).
Proof.
  intros Hs Ha. destruct (signer cl) as [x|] eqn:Ex; [|congruence].
  unfold step. rewrite (signer_must_sign fl c s cl x Ex); [reflexivity|]. rewrite Ha. intros [].
Qed.
