(* Enumerable flavour: the swap-and-pop index lists mirror the plain ownership map. *)
From SC Require Import Lib.Prelude Lib.Int Lib.Host Model.Nft Run.NftCommon Proofs.NftMaps Proofs.NftFrame.
Local Open Scope N_scope.

(* an indexed list: get k for k < n enumerates exactly the ids satisfying P, idx is its inverse *)
Definition IList (get : N -> option N) (idx : N -> option N) (n : N) (P : N -> Prop) : Prop :=
  (forall k id, get k = Some id -> k < n /\ P id /\ idx id = Some k) /\
  (forall id, P id -> exists k, idx id = Some k /\ get k = Some id) /\
  (forall k, k < n -> get k <> None).

Lemma ilist_ext get idx n P get' idx' P' :
  IList get idx n P -> (forall k, get' k = get k) -> (forall x, idx' x = idx x) -> (forall x, P' x <-> P x) ->
  IList get' idx' n P'.
Proof.
  intros (L1&L2&L3) Eg Ei Ep. repeat split.
  - rewrite Eg in H. apply (L1 _ _ H).
  - apply Ep. rewrite Eg in H. apply (L1 _ _ H).
  - rewrite Ei. rewrite Eg in H. apply (L1 _ _ H).
  - intros id Hp. apply Ep in Hp. destruct (L2 id Hp) as (k&A&B). exists k. rewrite Ei, Eg. auto.
  - intros k Hk. rewrite Eg. apply L3. exact Hk.
Qed.

(* the index of non-members may change freely *)
Lemma ilist_frame get idx n P idx' :
  IList get idx n P -> (forall x, P x -> idx' x = idx x) -> IList get idx' n P.
Proof.
  intros (L1&L2&L3) Ei. repeat split.
  - apply (L1 _ _ H).
  - apply (L1 _ _ H).
  - destruct (L1 _ _ H) as (_&Hp&Hi). rewrite (Ei _ Hp). exact Hi.
  - intros id Hp. destruct (L2 id Hp) as (k&A&B). exists k. rewrite (Ei _ Hp). auto.
  - exact L3.
Qed.

Lemma ilist_add get idx n P id :
  IList get idx n P -> ~ P id ->
  IList (fun k => if k =? n then Some id else get k) (fun x => if x =? id then Some n else idx x) (n + 1)
        (fun x => x = id \/ P x).
Proof.
  intros (L1&L2&L3) Hn. repeat split.
  - destruct (k =? n) eqn:E; [apply N.eqb_eq in E; lia|]. destruct (L1 _ _ H) as (A&_). lia.
  - destruct (k =? n) eqn:E; [inversion H; left; reflexivity|]. right. apply (L1 _ _ H).
  - destruct (k =? n) eqn:E.
    + inversion H; subst. rewrite N.eqb_refl. apply N.eqb_eq in E. subst. reflexivity.
    + destruct (L1 _ _ H) as (_&Hp&Hi). destruct (id0 =? id) eqn:E2; [apply N.eqb_eq in E2; subst; contradiction | exact Hi].
  - intros x [->|Hp].
    + exists n. rewrite !N.eqb_refl. auto.
    + destruct (L2 x Hp) as (k&A&B). exists k.
      destruct (x =? id) eqn:E; [apply N.eqb_eq in E; subst; contradiction|].
      destruct (L1 _ _ B) as (Hk&_). destruct (k =? n) eqn:E2; [apply N.eqb_eq in E2; lia | auto].
  - intros k Hk. destruct (k =? n) eqn:E; [discriminate|]. apply L3. apply N.eqb_neq in E. lia.
Qed.

Lemma ilist_remove get idx n P id ri last lid :
  IList get idx n P -> P id -> idx id = Some ri -> n = last + 1 -> get last = Some lid ->
  IList (fun k => if k =? last then None else if k =? ri then Some lid else get k)
        (fun x => if x =? id then None else if x =? lid then Some ri else idx x) last
        (fun x => x <> id /\ P x).
Proof.
  intros (L1&L2&L3) Hp Hri Hn Hl.
  destruct (L1 _ _ Hl) as (_&Hpl&Hil).
  assert (Hgi : get ri = Some id).
  { destruct (L2 id Hp) as (k&A&B). rewrite Hri in A. inversion A; subst. exact B. }
  destruct (L1 _ _ Hgi) as (Hrn&_&_).
  assert (Hsame : ri = last <-> lid = id).
  { split; intros E.
    - subst ri. rewrite Hl in Hgi. inversion Hgi. reflexivity.
    - subst lid. rewrite Hil in Hri. inversion Hri. reflexivity. }
  repeat split.
  - destruct (k =? last) eqn:E1; [discriminate|]. apply N.eqb_neq in E1.
    destruct (k =? ri) eqn:E2; [apply N.eqb_eq in E2; subst; lia|]. destruct (L1 _ _ H) as (A&_). lia.
  - destruct (k =? last) eqn:E1; [discriminate|]. apply N.eqb_neq in E1.
    destruct (k =? ri) eqn:E2.
    + apply N.eqb_eq in E2. subst k. inversion H; subst id0. intros E. apply Hsame in E. contradiction.
    + apply N.eqb_neq in E2. destruct (L1 _ _ H) as (_&_&Hi). intros ->. rewrite Hri in Hi. inversion Hi. congruence.
  - destruct (k =? last) eqn:E1; [discriminate|]. destruct (k =? ri) eqn:E2.
    + inversion H; subst. exact Hpl.
    + apply (L1 _ _ H).
  - destruct (k =? last) eqn:E1; [discriminate|]. apply N.eqb_neq in E1.
    destruct (k =? ri) eqn:E2.
    + apply N.eqb_eq in E2. subst k. inversion H; subst id0.
      destruct (lid =? id) eqn:E3; [apply N.eqb_eq in E3; apply Hsame in E3; contradiction|].
      rewrite N.eqb_refl. reflexivity.
    + apply N.eqb_neq in E2. destruct (L1 _ _ H) as (_&_&Hi).
      destruct (id0 =? id) eqn:E3; [apply N.eqb_eq in E3; subst; rewrite Hri in Hi; inversion Hi; congruence|].
      destruct (id0 =? lid) eqn:E4; [apply N.eqb_eq in E4; subst; rewrite Hil in Hi; inversion Hi; congruence|].
      exact Hi.
  - intros x [Hx Hpx]. apply N.eqb_neq in Hx. rewrite Hx.
    destruct (x =? lid) eqn:E.
    + apply N.eqb_eq in E. subst x. exists ri. split; [reflexivity|].
      destruct (ri =? last) eqn:E2; [apply N.eqb_eq in E2; apply Hsame in E2; apply N.eqb_neq in Hx; contradiction|].
      rewrite N.eqb_refl. reflexivity.
    + apply N.eqb_neq in E. destruct (L2 x Hpx) as (k&A&B). exists k. split; [exact A|].
      destruct (k =? last) eqn:E2; [apply N.eqb_eq in E2; subst; rewrite Hl in B; inversion B; congruence|].
      destruct (k =? ri) eqn:E3; [apply N.eqb_eq in E3; subst; rewrite Hgi in B; inversion B; apply N.eqb_neq in Hx; congruence|].
      exact B.
  - intros k Hk. destruct (k =? last) eqn:E1; [apply N.eqb_eq in E1; lia|].
    destruct (k =? ri); [discriminate|]. apply L3. lia.
Qed.

Lemma Ok_inj {A} (a b : A) : Ok a = Ok b -> a = b.
Proof. intros H. congruence. Qed.

(* ---------- the model's tables as indexed lists ---------- *)
Definition oget (s : state) (a : addr) (k : N) : option N := aget peqb (a, k) (otok s).
Definition oidx (s : state) (x : N) : option N := aget N.eqb x (otidx s).
Definition gget (s : state) (k : N) : option N := aget N.eqb k (gtok s).
Definition gidx (s : state) (x : N) : option N := aget N.eqb x (gtidx s).

Definition OList (s : state) (own : N -> option addr) (len : addr -> N) : Prop :=
  forall a, IList (oget s a) (oidx s) (len a) (fun id => own id = Some a).
Definition GList (s : state) (own : N -> option addr) (n : N) : Prop :=
  IList (gget s) (gidx s) n (fun id => own id <> None).

Lemma peqb_pair a k b j : peqb (a, k) (b, j) = (a =? b) && (k =? j).
Proof. reflexivity. Qed.

Lemma olist_remove s own len o id s' :
  OList s own len -> own id = Some o -> len o = balance s o + 1 ->
  remove_from_owner_enumeration s o id = Ok s' ->
  OList s' (fun j => if j =? id then None else own j) (fun a => if a =? o then balance s o else len a) /\
  same_core s s' /\ total s' = total s /\ gtok s' = gtok s /\ gtidx s' = gtidx s.
Proof.
  intros HO Hown Hlen H. pose proof (remove_from_owner_enumeration_core _ _ _ _ H) as Hcore.
  unfold remove_from_owner_enumeration in H. inv_res H. rename x into ri. rename G into Hri.
  set (last := balance s o) in *.
  pose proof (HO o) as Ho. pose proof Ho as (L1&L2&L3).
  assert (Hgi : oget s o ri = Some id).
  { destruct (L2 id Hown) as (k&A&B). unfold oidx in A. rewrite Hri in A. inversion A; subst. exact B. }
  (* the general description of the new tables *)
  assert (Hgen : exists lid, oget s o last = Some lid /\
            (forall a k, oget s' a k = if (a =? o) && (k =? last) then None
                                      else if (a =? o) && (k =? ri) then Some lid else oget s a k) /\
            (forall x, oidx s' x = if x =? id then None else if x =? lid then Some ri else oidx s x) /\
            total s' = total s /\ gtok s' = gtok s /\ gtidx s' = gtidx s).
  { destruct (ri =? last) eqn:E.
    - apply N.eqb_eq in E. inversion G0; subst x0. subst s'. exists id. rewrite <- E. split; [exact Hgi|].
      split; [|split; [|repeat split]].
      + intros a k. unfold oget. cbn [otok set_otok set_otidx]. rewrite (aget_arem peqb peqb_spec), peqb_pair.
        destruct ((a =? o) && (k =? ri)); reflexivity.
      + intros x. unfold oidx. cbn [otidx set_otok set_otidx]. rewrite (aget_arem N.eqb Neqb_spec).
        destruct (x =? id); reflexivity.
    - inv_res G0. rename x into lid. subst x0 s'. exists lid. split; [exact G|].
      split; [|split; [|repeat split]].
      + intros a k. unfold oget. cbn [otok set_otok set_otidx balance bal].
        rewrite (aget_arem peqb peqb_spec), peqb_pair. fold (balance s o). fold last.
        destruct ((a =? o) && (k =? last)); [reflexivity|].
        rewrite (aget_aset peqb peqb_spec), peqb_pair. reflexivity.
      + intros x. unfold oidx. cbn [otidx set_otok set_otidx]. rewrite (aget_arem N.eqb Neqb_spec).
        destruct (x =? id); [reflexivity|]. rewrite (aget_aset N.eqb Neqb_spec). reflexivity. }
  destruct Hgen as (lid&Hl&Hg'&Hi'&Ht&Hgt&Hgi').
  destruct (L1 _ _ Hl) as (_&Hpl&_). rewrite H1.
  split; [|split; [exact Hcore|split; [exact Ht|split; [exact Hgt|exact Hgi']]]].
  intros a. destruct (a =? o) eqn:Ea.
  - apply N.eqb_eq in Ea. subst a.
    eapply ilist_ext; [apply (ilist_remove _ _ _ _ id ri last lid Ho Hown Hri Hlen Hl) | | |].
    + intros k. rewrite Hg', N.eqb_refl. reflexivity.
    + intros x. rewrite Hi'. reflexivity.
    + intros x. cbv beta. destruct (x =? id) eqn:E.
      * apply N.eqb_eq in E. subst. split; [discriminate | intros [X _]; contradiction].
      * apply N.eqb_neq in E. split; [intros X; split; assumption | intros [_ X]; exact X].
  - apply N.eqb_neq in Ea.
    eapply ilist_ext; [apply (ilist_frame _ _ _ _ (oidx s') (HO a)) | | |].
    + intros x Hx. rewrite Hi'. destruct (x =? id) eqn:E; [apply N.eqb_eq in E; subst; congruence|].
      destruct (x =? lid) eqn:E2; [apply N.eqb_eq in E2; subst; congruence | reflexivity].
    + intros k. rewrite Hg'. apply N.eqb_neq in Ea. rewrite Ea. reflexivity.
    + intros x. reflexivity.
    + intros x. cbv beta. destruct (x =? id) eqn:E; [|reflexivity].
      apply N.eqb_eq in E. subst. split; [discriminate | congruence].
Qed.

Lemma olist_add s own len o id s' :
  OList s own len -> own id = None -> balance s o = len o + 1 ->
  add_to_owner_enumeration s o id = Ok s' ->
  OList s' (fun j => if j =? id then Some o else own j) (fun a => if a =? o then len o + 1 else len a) /\
  same_core s s' /\ total s' = total s /\ gtok s' = gtok s /\ gtidx s' = gtidx s.
Proof.
  intros HO Hown Hlen H. pose proof (add_to_owner_enumeration_core _ _ _ _ H) as Hcore.
  unfold add_to_owner_enumeration in H. inv_res H. rewrite Hlen in H1 |- *.
  replace (len o + 1 - 1) with (len o) in H1 |- * by lia. rewrite H1.
  assert (Hg' : forall a k, oget s' a k = if (a =? o) && (k =? len o) then Some id else oget s a k).
  { intros a k. subst s'. unfold oget. cbn [otok set_otok set_otidx]. rewrite (aget_aset peqb peqb_spec), peqb_pair. reflexivity. }
  assert (Hi' : forall x, oidx s' x = if x =? id then Some (len o) else oidx s x).
  { intros x. subst s'. unfold oidx. cbn [otidx set_otok set_otidx]. rewrite (aget_aset N.eqb Neqb_spec). reflexivity. }
  split; [|split; [exact Hcore | subst s'; repeat split]].
  intros a. destruct (a =? o) eqn:Ea.
  - apply N.eqb_eq in Ea. subst a.
    eapply ilist_ext; [apply (ilist_add _ _ _ _ id (HO o)) | | |].
    + rewrite Hown. discriminate.
    + intros k. rewrite Hg', N.eqb_refl. reflexivity.
    + intros x. rewrite Hi'. reflexivity.
    + intros x. cbv beta. destruct (x =? id) eqn:E.
      * apply N.eqb_eq in E. subst. split; [intros _; left; reflexivity | reflexivity].
      * apply N.eqb_neq in E. split; [intros X; right; exact X | intros [X|X]; [contradiction | exact X]].
  - eapply ilist_ext; [apply (ilist_frame _ _ _ _ (oidx s') (HO a)) | | |].
    + intros x Hx. rewrite Hi'. destruct (x =? id) eqn:E; [apply N.eqb_eq in E; subst; congruence | reflexivity].
    + intros k. rewrite Hg', Ea. reflexivity.
    + intros x. reflexivity.
    + intros x. cbv beta. destruct (x =? id) eqn:E; [|reflexivity].
      apply N.eqb_eq in E. subst. apply N.eqb_neq in Ea. split; [intros X; inversion X; congruence | congruence].
Qed.

Lemma glist_add s own n id (v : addr) :
  GList s own n -> own id = None -> total s = n ->
  GList (add_to_global_enumeration (set_total s (n + 1)) id n) (fun j => if j =? id then Some v else own j) (n + 1).
Proof.
  intros HG Hown Ht. unfold GList.
  eapply ilist_ext; [apply (ilist_add _ _ _ _ id HG) | | |].
  - rewrite Hown. intros X. apply X. reflexivity.
  - intros k. unfold gget, add_to_global_enumeration. cbn [gtok set_gtok set_gtidx set_total].
    rewrite (aget_aset N.eqb Neqb_spec). reflexivity.
  - intros x. unfold gidx, add_to_global_enumeration. cbn [gtidx set_gtok set_gtidx set_total].
    rewrite (aget_aset N.eqb Neqb_spec). reflexivity.
  - intros x. cbv beta. destruct (x =? id) eqn:E.
    + apply N.eqb_eq in E. subst. split; [intros _; left; reflexivity | discriminate].
    + apply N.eqb_neq in E. split; [intros X; right; exact X | intros [X|X]; [contradiction | exact X]].
Qed.

Lemma glist_remove s own n id last s' :
  GList s own n -> own id <> None -> n = last + 1 ->
  remove_from_global_enumeration s id last = Ok s' ->
  GList s' (fun j => if j =? id then None else own j) last.
Proof.
  intros HG Hown Hn H. unfold remove_from_global_enumeration in H.
  apply bind_ok in H; destruct H as [ri [G H]]; apply of_option_ok in G.
  apply bind_ok in H; destruct H as [lid [G0 H]]; apply of_option_ok in G0.
  apply Ok_inj in H. subst s'. unfold GList.
  eapply ilist_ext; [apply (ilist_remove _ _ _ _ id ri last lid HG Hown G Hn G0) | | |].
  - intros k. unfold gget. cbn [gtok set_gtok set_gtidx]. rewrite (aget_arem N.eqb Neqb_spec).
    destruct (k =? last); [reflexivity|]. rewrite (aget_aset N.eqb Neqb_spec). reflexivity.
  - intros x. unfold gidx. cbn [gtidx set_gtok set_gtidx]. rewrite (aget_arem N.eqb Neqb_spec).
    destruct (x =? id); [reflexivity|]. rewrite (aget_aset N.eqb Neqb_spec). reflexivity.
  - intros x. cbv beta. destruct (x =? id) eqn:E.
    + apply N.eqb_eq in E. subst. split; [intros X; exfalso; apply X; reflexivity | intros [X _]; contradiction].
    + apply N.eqb_neq in E. split; [intros X; split; assumption | intros [_ X]; exact X].
Qed.

(* ---------- the invariant and its preservation ---------- *)
Definition EnumInv (s : state) (own : N -> option addr) : Prop :=
  OList s own (balance s) /\ GList s own (total s).

Lemma olist_ext s s' own own' len len' :
  OList s own len -> otok s' = otok s -> otidx s' = otidx s ->
  (forall j, own' j = own j) -> (forall a, len' a = len a) -> OList s' own' len'.
Proof.
  intros H E1 E2 Eo El a. rewrite El. eapply ilist_ext; [apply (H a) | | |].
  - intros k. unfold oget. rewrite E1. reflexivity.
  - intros x. unfold oidx. rewrite E2. reflexivity.
  - intros x. rewrite Eo. reflexivity.
Qed.
Lemma glist_ext s s' own own' n :
  GList s own n -> gtok s' = gtok s -> gtidx s' = gtidx s ->
  (forall j, own' j <> None <-> own j <> None) -> GList s' own' n.
Proof.
  intros H E1 E2 Eo. unfold GList. eapply ilist_ext; [apply H | | |].
  - intros k. unfold gget. rewrite E1. reflexivity.
  - intros x. unfold gidx. rewrite E2. reflexivity.
  - exact Eo.
Qed.

Lemma enum_init now0 : EnumInv (init now0) (fun _ => None).
Proof.
  split.
  - intros a. repeat split; try (intros; discriminate).
    + intros k Hk. unfold balance in Hk. cbn in Hk. lia.
  - repeat split; try (intros; discriminate).
    + intros id H. exfalso. apply H. reflexivity.
    + intros k Hk. cbn in Hk. lia.
Qed.

(* balances after the two halves of a plain update *)
Lemma balance_upd_from s f id a : balance (upd_from s f id) a = if a =? f then balance s f - 1 else balance s a.
Proof. unfold upd_from. rewrite balance_bget. cbn [bal set_appr set_bal]. rewrite bget_aset. reflexivity. Qed.
Lemma balance_upd_to_some s t id a : balance (upd_to s (Some t) id) a = if a =? t then balance s t + 1 else balance s a.
Proof. unfold upd_to. rewrite balance_bget. cbn [bal set_owner set_bal]. rewrite bget_aset. reflexivity. Qed.
Lemma balance_upd_to_none s id a : balance (upd_to s None id) a = balance s a.
Proof. reflexivity. Qed.

Lemma enum_mint c s1 own to id x s' :
  EnumInv s1 own -> own id = None ->
  update FEnum c s1 None (Some to) id = Ok x ->
  add_to_enumerations x to id = Ok s' ->
  EnumInv s' (fun j => if j =? id then Some to else own j).
Proof.
  intros [HO HG] Hown Hu Ha. apply update_plain_mint in Hu; [|discriminate]. destruct Hu as [_ ->].
  unfold add_to_enumerations in Ha. inv_res Ha. rename x into s2. subst s'.
  assert (HOx : OList (upd_to s1 (Some to) id) own (balance s1)) by (eapply olist_ext; [exact HO | | | |]; reflexivity).
  destruct (olist_add _ own (balance s1) to id s2 HOx Hown) as (HO2&Hc&Ht&Hgt&Hgi); [|exact G|].
  { rewrite balance_upd_to_some, N.eqb_refl. reflexivity. }
  split.
  - eapply olist_ext; [exact HO2 | reflexivity | reflexivity | reflexivity |].
    intros a. unfold add_to_global_enumeration.
    rewrite balance_bget. cbn [bal set_gtidx set_gtok set_total]. rewrite <- balance_bget.
    destruct Hc as (_&_&_&Hb&_). rewrite balance_bget, Hb, <- balance_bget. rewrite balance_upd_to_some. reflexivity.
  - assert (HG2 : GList s2 own (total s2)).
    { rewrite Ht. eapply glist_ext; [exact HG | exact Hgt | exact Hgi | reflexivity]. }
    pose proof (glist_add s2 own (total s2) id to HG2 Hown eq_refl) as HG3.
    unfold GList in *. unfold add_to_global_enumeration in *. cbn [total set_gtidx set_gtok set_total] in *. exact HG3.
Qed.

Lemma enum_transfer c s own from to id x s' :
  EnumInv s own -> own id = Some from ->
  update FEnum c s (Some from) (Some to) id = Ok x ->
  enum_after_transfer FEnum x from to id = Ok s' ->
  EnumInv s' (fun j => if j =? id then Some to else own j).
Proof.
  intros [HO HG] Hown Hu Ha. apply update_plain_from in Hu; [|discriminate]. destruct Hu as (_&Hb&_&->).
  set (x := upd_to (upd_from s from id) (Some to) id) in *.
  assert (Hbx : forall a, balance x a = if a =? to then (if to =? from then balance s from - 1 else balance s to) + 1
                                       else if a =? from then balance s from - 1 else balance s a).
  { intros a. unfold x. rewrite balance_upd_to_some, !balance_upd_from. reflexivity. }
  assert (HOx : OList x own (balance s)) by (eapply olist_ext; [exact HO | | | |]; reflexivity).
  assert (HGx : GList x own (total s)) by (eapply glist_ext; [exact HG | | |]; reflexivity).
  cbn [enum_after_transfer] in Ha. destruct (from =? to) eqn:Eft.
  - apply N.eqb_eq in Eft. subst to. apply Ok_inj in Ha. subst s'. split.
    + eapply olist_ext; [exact HOx | reflexivity | reflexivity | |].
      * intros j. destruct (j =? id) eqn:E; [apply N.eqb_eq in E; subst; symmetry; exact Hown | reflexivity].
      * intros a. rewrite Hbx, N.eqb_refl. destruct (a =? from) eqn:E; [apply N.eqb_eq in E; subst; lia | reflexivity].
    + eapply glist_ext; [exact HGx | reflexivity | reflexivity |].
      intros j. destruct (j =? id) eqn:E; [apply N.eqb_eq in E; subst; rewrite Hown; split; discriminate | reflexivity].
  - apply N.eqb_neq in Eft. inv_res Ha. rename x0 into s1.
    destruct (olist_remove x own (balance s) from id s1 HOx Hown) as (HO1&Hc1&Ht1&Hgt1&Hgi1); [|exact G|].
    { rewrite Hbx. destruct (from =? to) eqn:E; [apply N.eqb_eq in E; congruence|]. rewrite N.eqb_refl. lia. }
    destruct (olist_add s1 _ _ to id s' HO1) as (HO2&Hc2&Ht2&Hgt2&Hgi2); [rewrite N.eqb_refl; reflexivity | | exact Ha |].
    { destruct Hc1 as (_&_&_&Hb1&_). rewrite balance_bget, Hb1, <- balance_bget, Hbx, N.eqb_refl.
      destruct (to =? from) eqn:E; [apply N.eqb_eq in E; congruence | reflexivity]. }
    split.
    + eapply olist_ext; [exact HO2 | reflexivity | reflexivity | |].
      * intros j. cbv beta. destruct (j =? id); reflexivity.
      * intros a. cbv beta. destruct Hc1 as (_&_&_&Hb1&_). destruct Hc2 as (_&_&_&Hb2&_).
        rewrite balance_bget, Hb2, Hb1, <- balance_bget, Hbx. rewrite (Hbx from), N.eqb_refl.
        destruct (to =? from) eqn:E; [apply N.eqb_eq in E; congruence|].
        assert (E' : (from =? to) = false) by (apply N.eqb_neq; exact Eft). rewrite ?E'.
        destruct (a =? to) eqn:E1; [reflexivity|]. destruct (a =? from); reflexivity.
    + rewrite Ht2, Ht1. eapply glist_ext; [exact HGx | congruence | congruence |].
      intros j. destruct (j =? id) eqn:E; [apply N.eqb_eq in E; subst; rewrite Hown; split; discriminate | reflexivity].
Qed.

Lemma enum_burn c s own from id x s' :
  EnumInv s own -> own id = Some from ->
  update FEnum c s (Some from) None id = Ok x ->
  remove_from_enumerations x from id = Ok s' ->
  EnumInv s' (fun j => if j =? id then None else own j).
Proof.
  intros [HO HG] Hown Hu Ha. apply update_plain_from in Hu; [|discriminate]. destruct Hu as (_&Hb&_&->).
  set (x := upd_to (upd_from s from id) None id) in *.
  assert (Hbx : forall a, balance x a = if a =? from then balance s from - 1 else balance s a).
  { intros a. unfold x. rewrite balance_upd_to_none, balance_upd_from. reflexivity. }
  assert (HOx : OList x own (balance s)) by (eapply olist_ext; [exact HO | | | |]; reflexivity).
  assert (HGx : GList x own (total s)) by (eapply glist_ext; [exact HG | | |]; reflexivity).
  unfold remove_from_enumerations in Ha. inv_res Ha. rename x0 into s1. apply N.leb_le in G0.
  destruct (olist_remove x own (balance s) from id s1 HOx Hown) as (HO1&Hc1&Ht1&Hgt1&Hgi1); [|exact G|].
  { rewrite Hbx, N.eqb_refl. lia. }
  assert (HG1 : GList (set_total s1 (total s1 - 1)) own (total s)).
  { eapply glist_ext; [exact HGx | cbn [gtok set_total]; exact Hgt1 | cbn [gtidx set_total]; exact Hgi1 | reflexivity]. }
  pose proof (glist_remove _ own (total s) id (total s1 - 1) s' HG1) as HG2.
  split.
  - assert (Hs' : same_core (set_total s1 (total s1 - 1)) s' /\ otok s' = otok s1 /\ otidx s' = otidx s1).
    { split; [eapply remove_from_global_enumeration_core; exact Ha|].
      unfold remove_from_global_enumeration in Ha. inv_res Ha. subst s'. split; reflexivity. }
    destruct Hs' as (Hc2&Eo&Ei).
    eapply olist_ext; [exact HO1 | exact Eo | exact Ei | reflexivity |].
    intros a. destruct Hc1 as (_&_&_&Hb1&_). destruct Hc2 as (_&_&_&Hb2&_). cbn [bal set_total] in Hb2.
    rewrite balance_bget, Hb2, Hb1, <- balance_bget, Hbx. rewrite (balance_bget x from), <- (balance_bget x from), Hbx, N.eqb_refl.
    destruct (a =? from); reflexivity.
  - assert (Et : total s' = total s1 - 1).
    { unfold remove_from_global_enumeration in Ha. inv_res Ha. subst s'. reflexivity. }
    rewrite Et. apply HG2; [rewrite Hown; discriminate | assert (Ex : total x = total s) by reflexivity; lia | exact Ha].
Qed.

Lemma enuminv_ext s s' own own' :
  EnumInv s own -> otok s' = otok s -> otidx s' = otidx s -> gtok s' = gtok s -> gtidx s' = gtidx s ->
  bal s' = bal s -> total s' = total s -> (forall j, own' j = own j) -> EnumInv s' own'.
Proof.
  intros [HO HG] E1 E2 E3 E4 E5 E6 Eo. split.
  - eapply olist_ext; [exact HO | exact E1 | exact E2 | exact Eo |].
    intros a. rewrite !balance_bget, E5. reflexivity.
  - rewrite E6. eapply glist_ext; [exact HG | exact E3 | exact E4 |]. intros j. rewrite Eo. reflexivity.
Qed.

Lemma enum_step c s g cl s' r :
  EnumInv s (rget (g_own g)) -> (forall id, aget N.eqb id (owner s) = rget (g_own g) id) ->
  match cl with
  | MintSeq _ => rget (g_own g) (next_id s) = None
  | MintId _ id => rget (g_own g) id = None
  | _ => True
  end ->
  exec FEnum c s cl = Ok (s', r) ->
  EnumInv s' (rget (g_own (ghost_step g cl (Ok r)))).
Proof.
  intros Hinv Hown Hfresh H. destruct cl; cbn [exec] in H; cbn [ghost_step g_own].
  - apply Ok_inj in H. inversion H; subst. eapply enuminv_ext; [exact Hinv | | | | | | |]; reflexivity.
  - inv_res H. unfold increment_token_id in G. inv_res G. subst x.
    cbv beta iota zeta in H. inv_res H. subst. cbn [g_own].
    assert (Hinv1 : EnumInv (set_next_id s (next_id s + 1)) (rget (g_own g)))
      by (eapply enuminv_ext; [exact Hinv | | | | | | |]; reflexivity).
    cbn [enum_after_mint] in G1.
    exact (enum_mint c _ _ to (next_id s) _ _ Hinv1 Hfresh G G1).
  - inv_res H. subst. cbn [g_own]. cbn [enum_after_mint] in G0.
    exact (enum_mint c _ _ to id _ _ Hinv Hfresh G G0).
  - discriminate.
  - inv_res H. subst.
    assert (Ho : rget (g_own g) id = Some from).
    { apply update_plain_from in G0; [|discriminate]. destruct G0 as (A&_). rewrite <- Hown. exact A. }
    exact (enum_transfer c s _ from to id _ _ Hinv Ho G0 G1).
  - inv_res H. subst.
    assert (Ho : rget (g_own g) id = Some from).
    { apply update_plain_from in G1; [|discriminate]. destruct G1 as (A&_). rewrite <- Hown. exact A. }
    exact (enum_transfer c s _ from to id _ _ Hinv Ho G1 G2).
  - inv_res H. subst.
    assert (Ho : rget (g_own g) id = Some from).
    { apply update_plain_from in G0; [|discriminate]. destruct G0 as (A&_). rewrite <- Hown. exact A. }
    cbn [enum_after_burn] in G1. exact (enum_burn c s _ from id _ _ Hinv Ho G0 G1).
  - inv_res H. subst.
    assert (Ho : rget (g_own g) id = Some from).
    { apply update_plain_from in G1; [|discriminate]. destruct G1 as (A&_). rewrite <- Hown. exact A. }
    cbn [enum_after_burn] in G2. exact (enum_burn c s _ from id _ _ Hinv Ho G1 G2).
  - inv_res H. subst. apply approve_for_owner_ok in G1. destruct G1 as [_ [[_ ->]|(_&_&en&_&_&->)]];
      (eapply enuminv_ext; [exact Hinv | | | | | | |]; reflexivity).
  - inv_res H. subst. apply approve_for_all_ok in G. destruct G as [_ [[_ ->]|(_&_&en&_&_&->)]];
      (eapply enuminv_ext; [exact Hinv | | | | | | |]; reflexivity).
Qed.
