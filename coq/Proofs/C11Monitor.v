(* The C11 monitor accepts every trace of the model. *)
From SC Require Import Lib.Prelude Lib.Int Lib.Host Model.Nft Run.NftCommon Proofs.NftMaps Proofs.NftFrame
  Proofs.NftInv Proofs.NftCons Proofs.NftOwn Proofs.NftSim Proofs.NftScope Run.C11.
Local Open Scope N_scope.

Lemma oaddr_eqb_refl a : oaddr_eqb a a = true.
Proof. destruct a; cbn; [apply N.eqb_refl | reflexivity]. Qed.

Lemma spender_ok_ghost s g sp from id :
  CoreInv s g -> spender_ok s sp from id ->
  (sp =? from) || oaddr_eqb (live_appr g id) (Some sp) || live_oper g from sp = true.
Proof.
  intros (Hc&_&Ha&Ho) [->|[H|H]].
  - rewrite N.eqb_refl. reflexivity.
  - rewrite <- (get_approved_live s g Hc Ha), H. cbn [oaddr_eqb]. rewrite N.eqb_refl, orb_true_r. reflexivity.
  - rewrite <- (is_approved_for_all_live s g Hc Ho), H. apply orb_true_r.
Qed.

Lemma c11_legal_model fl c s g cl s' r :
  Sim fl s g -> exec fl c s cl = Ok (s', r) -> c11_legal g cl (Ok r) = true.
Proof.
  intros [Hc Ho] He. pose proof (own_of fl c s g Ho) as Hown. apply exec_ok in He.
  destruct cl; cbn [exec_spec] in He; cbn [c11_legal]; try reflexivity.
  - destruct He as (_&->). reflexivity.
  - destruct He as (_&->&_). reflexivity.
  - destruct He as (Ha&Hw&->&_). unfold may_move. rewrite Ha, <- Hown, Hw, oaddr_eqb_refl, N.eqb_refl. reflexivity.
  - destruct He as (Ha&Hs&Hw&->&_). unfold may_move. rewrite Ha, <- Hown, Hw, oaddr_eqb_refl. cbn [andb is_none].
    apply (spender_ok_ghost s g); assumption.
  - destruct He as (Ha&Hw&->&_). unfold may_move. rewrite Ha, <- Hown, Hw, oaddr_eqb_refl, N.eqb_refl. reflexivity.
  - destruct He as (Ha&Hs&Hw&->&_). unfold may_move. rewrite Ha, <- Hown, Hw, oaddr_eqb_refl. cbn [andb is_none].
    apply (spender_ok_ghost s g); assumption.
  - destruct He as (Ha&->&o&Hw&Hor&_). rewrite Ha, <- Hown, Hw. cbn [andb is_none].
    destruct Hor as [->|H]; [rewrite N.eqb_refl; reflexivity|].
    destruct Hc as (Hck&_&_&Hop). rewrite <- (is_approved_for_all_live s g Hck Hop), H. apply orb_true_r.
  - destruct He as (Ha&->&_). cbn [is_none andb]. exact Ha.
Qed.

Lemma c11_obs_model fl c s g sh : Sim fl s g -> c11_obs_ok g (model_obs fl c s sh) = true.
Proof.
  intros [(Hc&_&Ha&Ho) Hown]. unfold c11_obs_ok, model_obs. cbn [o_owner o_appr o_oper].
  repeat (apply andb_true_iff; split); apply forallb_forall; intros x Hx; apply in_map_iff in Hx;
    destruct Hx as [p [<- _]]; cbn [fst snd].
  - rewrite (own_of fl c s g Hown). apply oaddr_eqb_refl.
  - rewrite (get_approved_live s g Hc Ha). apply oaddr_eqb_refl.
  - rewrite (is_approved_for_all_live s g Hc Ho). destruct (live_oper g (fst (fst p)) (snd (fst p))); reflexivity.
Qed.

(* hypothesis of the acceptance theorem: the QUERIES are well formed - exactly the shape test of the monitor,
   evaluated on the query shapes along the run; nothing is asked once the run has left the quantifier *)
Fixpoint wf_run (fl : flavour) (c : cfg) (s : state) (g : ghost) (l : list (call * obs)) : bool :=
  match l with
  | [] => true
  | (cl, sh) :: r =>
      let s' := fst (step fl c s cl) in
      let o := snd (step fl c s cl) in
      let g' := ghost_step g cl o in
      match mint_scope fl g cl o with
      | OutOfScope => true
      | _ => c11_shape_ok g' cl o (model_obs fl c s' sh) && wf_run fl c s' g' r
      end
  end.

Lemma mon_model_steps fl c l : forall s g i, Sim fl s g -> wf_run fl c s g l = true ->
  mon_from false fl g (model_steps fl c s l) i = 0.
Proof.
  induction l as [|[cl sh] r IH]; intros s g i Hs Hwf; cbn [model_steps mon_from]; [reflexivity|].
  cbn [wf_run] in Hwf.
  pose proof (sim_step fl c s g cl Hs) as Hs'.
  destruct (step_cases fl c s cl) as [(s'&rr&He&Est)|[He Est]]; rewrite Est in *; cbn [fst snd] in *;
    cbn [mon_from fst snd].
  - rewrite (scope_model fl c s g cl s' rr Hs He) in *.
    destruct (fresh_ok fl c s cl); [|reflexivity].
    apply andb_true_iff in Hwf. destruct Hwf as [Hsh Hwr].
    cbn [c11_step_ok]. rewrite (c11_legal_model fl c s g cl s' rr Hs He), Hsh, (c11_obs_model fl c s' _ sh Hs').
    cbn [andb]. apply IH; assumption.
  - cbn [mint_scope] in *. cbn [ghost_step] in *.
    apply andb_true_iff in Hwf. destruct Hwf as [Hsh Hwr].
    cbn [c11_step_ok ghost_step].
    assert (Hleg : c11_legal g cl Fail = true) by (destruct cl; try reflexivity; cbn in He; discriminate).
    rewrite Hleg, Hsh, (c11_obs_model fl c s g sh Hs). cbn [andb]. apply IH; assumption.
Qed.

Theorem c11_check_accepts_model fl c now0 full l :
  wf_run fl c (init now0) (ghost0 now0) l = true ->
  check (model_trace fl c now0 full l) = (0, 0, 0).
Proof.
  intros Hwf. unfold check. rewrite diff_model_trace. unfold monitor, model_trace. cbn [t_fl t_now0 t_steps].
  rewrite (mon_model_steps fl c l _ _ 0 (sim_init fl now0) Hwf). reflexivity.
Qed.
