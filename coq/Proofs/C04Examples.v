(* C04: concrete runs - non-vacuity of the theorems' hypotheses, and bad traces the monitor rejects. *)
From SC Require Import Lib.Prelude Lib.Int Lib.Host Model.Rwa Model.RwaCompliance Model.RwaIdentity
  Run.C04Compliance Run.C04Identity Run.C04Stack Run.C04 Proofs.RwaPrefix.

Definition ex_cfg : hostcfg := default_cfg 6312000.
Definition ex_univ : list addr := [0; 1; 2; 3]%N.
Definition ex_orc : addr -> oracle := fun _ => mkOracle ex_univ true true [(0, 1)]%N.
Definition by3 (o : op) : call := mkCall o [3%N] ex_orc.

(* a reachable state: 0 holds 100 of which 80 are frozen and is address-frozen, 1 holds 40 / 15 frozen *)
Definition ex_history : list call :=
  [ by3 (SetCompliance 50%N 3%N); by3 (SetIdentityVerifier 60%N 3%N);
    by3 (Mint 0%N 100 3%N); by3 (Mint 1%N 40 3%N);
    by3 (Freeze 0%N 80 3%N); by3 (Freeze 1%N 15 3%N);
    by3 (SetAddressFrozen 0%N true 3%N) ].
Definition ex_state : state := run ex_cfg init ex_history.

(* the same run as the model observes it, as a trace *)
Definition ex_trace (cs : list call) : trace := observe_model ex_cfg ex_univ cs.

(* the trace of the PRE-FIX model (finding F1) *)
Fixpoint prefix_items (hc : hostcfg) (univ : list addr) (s : state) (cs : list call) : list item :=
  match cs with
  | [] => []
  | c :: r => let '(s', o) := step_prefix hc s c in I c o (observe univ s') :: prefix_items hc univ s' r
  end.
Definition f1_trace : trace := mkTrace f1_cfg ex_univ (prefix_items f1_cfg ex_univ init (f1_history ++ [f1_call])).

(* hand-made bad traces: take the model's trace and falsify the last observation *)
Definition map_items (f : list item -> list item) (t : trace) : trace :=
  match t with
  | TokenTrace t => mkTrace (t_hc t) (t_univ t) (f (t_items t))
  | x => x
  end.
Definition on_last (f : item -> item) (l : list item) : list item :=
  match rev l with
  | [] => []
  | it :: r => rev (f it :: r)
  end.
Definition tamper (f : obs -> obs) (t : trace) : trace :=
  map_items (on_last (fun it => I (it_call it) (it_out it) (f (it_obs it)))) t.
Definition set_accts (l : list acct) (o : obs) : obs :=
  mkObs (ob_paused o) (ob_supply o) l (ob_allow o) (ob_idv o) (ob_cmp o) (ob_cmp_at o) (ob_idv_at o) (ob_cmp_from o) (ob_idv_from o).
Definition set_cmp (l : list cev) (o : obs) : obs :=
  mkObs (ob_paused o) (ob_supply o) (ob_accts o) (ob_allow o) (ob_idv o) l (ob_cmp_at o) (ob_idv_at o) (ob_cmp_from o) (ob_idv_from o).
Definition set_out (r : res ret) (t : trace) : trace :=
  map_items (on_last (fun it => I (it_call it) r (it_obs it))) t.
Definition set_call (c : call) (t : trace) : trace :=
  map_items (on_last (fun it => I c (it_out it) (it_obs it))) t.
Definition set_allow (l : list Z) (o : obs) : obs :=
  mkObs (ob_paused o) (ob_supply o) (ob_accts o) l (ob_idv o) (ob_cmp o) (ob_cmp_at o) (ob_idv_at o) (ob_cmp_from o) (ob_idv_from o).

(* ---- compliance layer ---- *)
Definition cex_cfg : ccfg := Build_ccfg 20.
Definition cex_toks : list addr := [10; 11]%N.
Definition cby (o : cop) : ccall := mkCC o [0%N] [].
(* modules 21, 20, 22 (in this order) watch transfers and are asked about them; token 10 is bound *)
Definition cex_history : list ccall :=
  [ cby (CAddModule HTransferred 21%N 0%N); cby (CAddModule HTransferred 20%N 0%N); cby (CAddModule HTransferred 22%N 0%N);
    cby (CAddModule HCanTransfer 21%N 0%N); cby (CAddModule HCanTransfer 20%N 0%N); cby (CAddModule HCanTransfer 22%N 0%N);
    cby (CBind 10%N 0%N) ].
Definition cex_trace (cs : list ccall) : trace := observe_compliance_model cex_cfg cex_toks cs.
Definition cmap_items (f : list citem -> list citem) (t : trace) : trace :=
  match t with
  | ComplianceTrace t => mkCTrace (ct_cfg t) (ct_toks t) (f (ct_items t))
  | x => x
  end.
Definition con_last (f : citem -> citem) (l : list citem) : list citem :=
  match rev l with
  | [] => []
  | it :: r => rev (f it :: r)
  end.
Definition cset_log (l : list (addr * mev)) (t : trace) : trace :=
  cmap_items (con_last (fun it => CI (ci_call it) (ci_out it)
                                    (mkCObs (co_mods (ci_obs it)) (co_bound (ci_obs it)) l))) t.
Definition cset_out (r : res cret) (t : trace) : trace :=
  cmap_items (con_last (fun it => CI (ci_call it) r (ci_obs it))) t.

(* ---- identity layer ---- *)
(* account 0 -> identity 30; topics 1 (issuers 40, 41), 2 (issuer 42), 5 (issuers 41, 40) are required *)
Definition iex_world (cl : list claim) : iworld :=
  mkIW [(0, 30)]%N [(1, [40; 41]%N); (2, [42%N]); (5, [41; 40]%N)] [(30%N, cl)] [(0, 1)]%N.
Definition good_claim (i : addr) (t : Z) : claim := mkClaim i t t i true.
Definition iex_full : list claim := [good_claim 41 1; good_claim 42 2; good_claim 40 5]%N.
Definition iset_out (r : res iret) (t : trace) : trace :=
  match t with
  | IdentityTrace t => mkITrace (map (fun it => II (ii_call it) r (ii_log it)) (it_items t))
  | x => x
  end.
Definition set_links (a b : option addr) (o : obs) : obs :=
  mkObs (ob_paused o) (ob_supply o) (ob_accts o) (ob_allow o) (ob_idv o) (ob_cmp o) a b (ob_cmp_from o) (ob_idv_from o).
Definition set_from (a b : option addr) (o : obs) : obs :=
  mkObs (ob_paused o) (ob_supply o) (ob_accts o) (ob_allow o) (ob_idv o) (ob_cmp o) (ob_cmp_at o) (ob_idv_at o) a b.
Definition set_supply_obs (v : Z) (o : obs) : obs :=
  mkObs (ob_paused o) v (ob_accts o) (ob_allow o) (ob_idv o) (ob_cmp o) (ob_cmp_at o) (ob_idv_at o) (ob_cmp_from o) (ob_idv_from o).
(* tamper with the observation of the k-th item from the end (0 = last) *)
Definition on_nth_last (k : nat) (f : item -> item) (l : list item) : list item :=
  rev (let r := rev l in firstn k r ++ match skipn k r with [] => [] | it :: r' => f it :: r' end).
Definition tamper_at (k : nat) (f : obs -> obs) (t : trace) : trace :=
  map_items (on_nth_last k (fun it => I (it_call it) (it_out it) (f (it_obs it)))) t.
Definition set_paused_obs (b : bool) (o : obs) : obs :=
  mkObs b (ob_supply o) (ob_accts o) (ob_allow o) (ob_idv o) (ob_cmp o) (ob_cmp_at o) (ob_idv_at o) (ob_cmp_from o) (ob_idv_from o).
Definition cset_obs (o : cobs) (t : trace) : trace :=
  cmap_items (con_last (fun it => CI (ci_call it) (ci_out it) o)) t.

(* ---- the whole stack ---- *)
Definition sx_univ : list addr := [0; 1; 2; 3]%N.
Definition sx_tok : addr := 10%N.
(* accounts 0 and 1 have identities 30 / 31; topic 1 is required, issuer 40 trusted for it *)
Definition sx_world (cl0 : list claim) : iworld :=
  mkIW [(0, 30); (1, 31)]%N [(1, [40%N])] [(30%N, cl0); (31%N, [good_claim 40%N 1])] [].
Definition sx_w : iworld := sx_world [good_claim 40%N 1].
Definition sx_history : list scall :=
  [ STok (SetCompliance 50%N 3%N) [3%N] [] sx_w; STok (SetIdentityVerifier 60%N 3%N) [3%N] [] sx_w;
    SCmp (mkCC (CAddModule HCanTransfer 21%N 3%N) [3%N] []); SCmp (mkCC (CAddModule HCanTransfer 20%N 3%N) [3%N] []);
    SCmp (mkCC (CAddModule HTransferred 22%N 3%N) [3%N] []); SCmp (mkCC (CBind sx_tok 3%N) [3%N] []);
    STok (Mint 0%N 100 3%N) [3%N] [] sx_w ].
Definition sx_trace (cs : list scall) : trace := observe_stack_model ex_cfg cex_cfg sx_univ sx_tok cs.
Definition sset_last (f : sitem -> sitem) (t : trace) : trace :=
  match t with
  | StackTrace t => mkSTrace (st_hc t) (st_cf t) (st_univ t) (st_tok t)
                      (match rev (st_items t) with [] => [] | it :: r => rev (f it :: r) end)
  | x => x
  end.
(* graft the outcome and observation of another (successful) run onto the last call *)
Definition sgraft (good : trace) (t : trace) : trace :=
  match good with
  | StackTrace g => match rev (st_items g) with
                    | it' :: _ => sset_last (fun it => SI (si_call it) (si_out it') (si_obs it')) t
                    | [] => t
                    end
  | _ => t
  end.
Definition sset_tok_obs (f : obs -> obs) (t : trace) : trace :=
  sset_last (fun it => SI (si_call it) (si_out it) (mkSObs (f (so_tok (si_obs it))) (so_cmp (si_obs it)))) t.
