(* C19: the fee-token allow-list (Count / Token(i) / TokenIndex(t), swap-and-pop) refines a
   finite set; its enumeration is duplicate-free and lists exactly the members. *)
From SC Require Import Lib.Prelude Lib.Int Lib.Host Model.FeeForwarder Proofs.FeeForwarder Run.C19.

Lemma aget_set {V} (k k' : N) (v : V) l :
  alist_get k (alist_set k' v l) = if N.eqb k k' then Some v else alist_get k l.
Proof.
  destruct (N.eqb k k') eqn:E.
  - apply N.eqb_eq in E. subst. apply alist_get_set_eq.
  - apply N.eqb_neq in E. apply alist_get_set_neq. exact E.
Qed.
Lemma aget_remove {V} (k k' : N) (l : list (N * V)) :
  alist_get k (alist_remove k' l) = if N.eqb k k' then None else alist_get k l.
Proof.
  destruct (N.eqb k k') eqn:E.
  - apply N.eqb_eq in E. subst. apply alist_get_remove_eq.
  - apply N.eqb_neq in E. apply alist_get_remove_neq. exact E.
Qed.

Lemma Ok_inj {A} (x y : A) : Ok x = Ok y -> x = y.
Proof. intros H. inversion H. reflexivity. Qed.

Record al_wf (a : alst) : Prop := {
  wf_tok : forall i t, alist_get i (al_tok a) = Some t ->
                       (i < al_count a)%N /\ alist_get t (al_idx a) = Some i;
  wf_idx : forall t i, alist_get t (al_idx a) = Some i -> alist_get i (al_tok a) = Some t;
  wf_dense : forall i, (i < al_count a)%N -> alist_get i (al_tok a) <> None
}.

Lemma al_wf_0 : al_wf al0.
Proof. constructor; cbn; intros; try discriminate. lia. Qed.

Ltac neqb :=
  repeat match goal with
         | H : N.eqb _ _ = true |- _ => apply N.eqb_eq in H
         | H : N.eqb _ _ = false |- _ => apply N.eqb_neq in H
         end.

Lemma set_allowed_wf a tok b a' : al_wf a -> set_allowed a tok b = Ok a' -> al_wf a'.
Proof.
  intros W. unfold set_allowed. cbv zeta. destruct b.
  - destruct (alist_get tok (al_idx a)) eqn:Ei; [discriminate|].
    destruct (N.leb (al_count a + 1) MAXU32N); [|discriminate].
    intros H. apply Ok_inj in H; subst a'. constructor; cbn [al_count al_tok al_idx].
    + intros i t. rewrite aget_set. destruct (N.eqb i (al_count a)) eqn:E.
      * intros H. inversion H; subst t. neqb. subst i. split; [lia|]. rewrite aget_set, N.eqb_refl. reflexivity.
      * intros H. destruct (wf_tok _ W _ _ H) as [Hlt Hid]. split; [lia|].
        rewrite aget_set. destruct (N.eqb t tok) eqn:E2; [|exact Hid].
        neqb. subst t. rewrite Ei in Hid. discriminate.
    + intros t i. rewrite aget_set. destruct (N.eqb t tok) eqn:E.
      * intros H. inversion H; subst i. neqb. subst t. rewrite aget_set, N.eqb_refl. reflexivity.
      * intros H. pose proof (wf_idx _ W _ _ H) as Ht. destruct (wf_tok _ W _ _ Ht) as [Hlt _].
        rewrite aget_set. destruct (N.eqb i (al_count a)) eqn:E2; [neqb; lia|exact Ht].
    + intros i Hlt. rewrite aget_set. destruct (N.eqb i (al_count a)) eqn:E; [discriminate|].
      neqb. apply (wf_dense _ W). lia.
  - destruct (alist_get tok (al_idx a)) as [r|] eqn:Ei; [|discriminate].
    destruct (N.eqb (al_count a) 0) eqn:Ec; [discriminate|]. neqb.
    pose proof (wf_idx _ W _ _ Ei) as Hr. destruct (wf_tok _ W _ _ Hr) as [Hrlt _].
    destruct (N.eqb r (N.pred (al_count a))) eqn:Er.
    + cbn [bind]. intros H. apply Ok_inj in H; subst a'. neqb. subst r.
      constructor; cbn [al_count al_tok al_idx].
      * intros i t. rewrite aget_remove. destruct (N.eqb i (N.pred (al_count a))) eqn:E; [discriminate|].
        intros H. destruct (wf_tok _ W _ _ H) as [Hlt Hid]. neqb. split; [lia|].
        rewrite aget_remove. destruct (N.eqb t tok) eqn:E2; [|exact Hid].
        neqb. subst t. rewrite Ei in Hid. inversion Hid. congruence.
      * intros t i. rewrite aget_remove. destruct (N.eqb t tok) eqn:E; [discriminate|].
        intros H. pose proof (wf_idx _ W _ _ H) as Ht. rewrite aget_remove.
        destruct (N.eqb i (N.pred (al_count a))) eqn:E2; [|exact Ht].
        neqb. subst i. rewrite Hr in Ht. inversion Ht. congruence.
      * intros i Hlt. rewrite aget_remove. destruct (N.eqb i (N.pred (al_count a))) eqn:E; [neqb; lia|].
        apply (wf_dense _ W). lia.
    + destruct (alist_get (N.pred (al_count a)) (al_tok a)) as [lt|] eqn:El; [|discriminate].
      cbn [bind]. intros H. apply Ok_inj in H; subst a'. neqb.
      destruct (wf_tok _ W _ _ El) as [_ Hlt_idx].
      assert (Hne : lt <> tok) by (intros ->; rewrite Ei in Hlt_idx; inversion Hlt_idx; congruence).
      constructor; cbn [al_count al_tok al_idx].
      * intros i t. rewrite aget_remove. destruct (N.eqb i (N.pred (al_count a))) eqn:E; [discriminate|].
        rewrite aget_set. destruct (N.eqb i r) eqn:E2.
        -- intros H. inversion H; subst t. neqb. subst i. split; [lia|].
           rewrite aget_remove. destruct (N.eqb lt tok) eqn:E3; [neqb; contradiction|].
           rewrite aget_set, N.eqb_refl. reflexivity.
        -- intros H. destruct (wf_tok _ W _ _ H) as [Hlt Hid]. neqb. split; [lia|].
           rewrite aget_remove. destruct (N.eqb t tok) eqn:E3.
           { neqb. subst t. rewrite Ei in Hid. inversion Hid. congruence. }
           rewrite aget_set. destruct (N.eqb t lt) eqn:E4; [|exact Hid].
           neqb. subst t. rewrite Hlt_idx in Hid. inversion Hid. congruence.
      * intros t i. rewrite aget_remove. destruct (N.eqb t tok) eqn:E; [discriminate|].
        rewrite aget_set. destruct (N.eqb t lt) eqn:E2.
        -- intros H. inversion H; subst i. neqb. subst t. rewrite aget_remove.
           destruct (N.eqb r (N.pred (al_count a))) eqn:E3; [neqb; contradiction|].
           rewrite aget_set, N.eqb_refl. reflexivity.
        -- intros H. pose proof (wf_idx _ W _ _ H) as Ht. neqb. rewrite aget_remove.
           destruct (N.eqb i (N.pred (al_count a))) eqn:E3.
           { neqb. subst i. rewrite El in Ht. inversion Ht. congruence. }
           rewrite aget_set. destruct (N.eqb i r) eqn:E4; [|exact Ht].
           neqb. subst i. rewrite Hr in Ht. inversion Ht. congruence.
      * intros i Hlt. rewrite aget_remove. destruct (N.eqb i (N.pred (al_count a))) eqn:E; [neqb; lia|].
        rewrite aget_set. destruct (N.eqb i r); [discriminate|]. apply (wf_dense _ W). lia.
Qed.

(* ---- the abstract set ---- *)
Definition al_set (a : alst) (S : list addr) : Prop :=
  forall t, memb t S = true <-> alist_get t (al_idx a) <> None.

Lemma al_set_0 : al_set al0 [].
Proof. intros t. cbn. split; [discriminate|congruence]. Qed.

Lemma memb_cons t a S : memb t (a :: S) = N.eqb t a || memb t S.
Proof. reflexivity. Qed.

Lemma memb_remove t x S : memb t (remove_addr x S) = negb (N.eqb t x) && memb t S.
Proof.
  induction S as [|a S IH].
  - cbn. rewrite andb_false_r. reflexivity.
  - cbn [remove_addr]. rewrite (memb_cons t a S). destruct (N.eqb x a) eqn:E.
    + rewrite IH. neqb. subst a. destruct (N.eqb t x); reflexivity.
    + rewrite memb_cons, IH. destruct (N.eqb t x) eqn:E2; cbn [negb andb]; [|reflexivity].
      neqb. subst t. destruct (N.eqb x a) eqn:E3; [neqb; contradiction|reflexivity].
Qed.

Lemma set_allowed_set a tok b a' S :
  al_wf a -> al_set a S -> set_allowed a tok b = Ok a' ->
  memb tok S = negb b /\ al_set a' (if b then tok :: S else remove_addr tok S).
Proof.
  intros W HS. unfold set_allowed. cbv zeta. destruct b.
  - destruct (alist_get tok (al_idx a)) eqn:Ei; [discriminate|].
    destruct (N.leb (al_count a + 1) MAXU32N); [|discriminate].
    intros H. apply Ok_inj in H; subst a'. split.
    + cbn. destruct (memb tok S) eqn:E; [|reflexivity]. apply HS in E. congruence.
    + intros t. cbn [al_idx]. rewrite aget_set, memb_cons.
      destruct (N.eqb t tok); cbn [orb]; [split; [discriminate|reflexivity]|apply HS].
  - destruct (alist_get tok (al_idx a)) as [r|] eqn:Ei; [|discriminate].
    destruct (N.eqb (al_count a) 0) eqn:Ec; [discriminate|].
    assert (Hm : memb tok S = true) by (apply HS; congruence).
    assert (Hgen : forall idxm : list (addr * N),
               (forall t, t <> tok -> (alist_get t idxm <> None <-> alist_get t (al_idx a) <> None)) ->
               forall t, memb t (remove_addr tok S) = true <-> alist_get t (alist_remove tok idxm) <> None).
    { intros idxm Hi t. rewrite memb_remove, aget_remove. destruct (N.eqb t tok) eqn:E; cbn [negb andb].
      - split; [discriminate|congruence].
      - neqb. rewrite (Hi t E). apply HS. }
    destruct (N.eqb r (N.pred (al_count a))) eqn:Er.
    + cbn [bind]. intros H. apply Ok_inj in H; subst a'. split; [exact Hm|].
      unfold al_set. cbn [al_idx]. apply Hgen. intros; reflexivity.
    + destruct (alist_get (N.pred (al_count a)) (al_tok a)) as [lt|] eqn:El; [|discriminate].
      cbn [bind]. intros H. apply Ok_inj in H; subst a'. split; [exact Hm|].
      unfold al_set. cbn [al_idx]. apply Hgen. intros t Hne. rewrite aget_set. destruct (N.eqb t lt) eqn:E; [|reflexivity].
      neqb. subst t. destruct (wf_tok _ W _ _ El) as [_ Hx]. rewrite Hx. split; discriminate.
Qed.

(* ---- the enumeration ---- *)
Lemma enum_from_length m i n : length (enum_from m i n) = n.
Proof. revert i. induction n; cbn; intros; [reflexivity|]. rewrite IHn. reflexivity. Qed.

Lemma enum_from_In m i n x :
  In x (enum_from m i n) <-> exists k, (i <= k)%N /\ (k < i + N.of_nat n)%N /\ x = alist_get k m.
Proof.
  revert i. induction n as [|n IH]; intros i; cbn [enum_from In].
  - split; [tauto|]. intros [k [H1 [H2 _]]]. lia.
  - rewrite IH. split.
    + intros [H|[k [H1 [H2 H3]]]].
      * exists i. repeat split; [lia|lia|congruence].
      * exists k. repeat split; [lia|lia|exact H3].
    + intros [k [H1 [H2 H3]]]. destruct (N.eq_dec k i) as [->|Hn].
      * left. congruence.
      * right. exists k. repeat split; [lia|lia|exact H3].
Qed.

Lemma strip_In {A} (l : list (option A)) x : In x (strip l) <-> In (Some x) l.
Proof.
  induction l as [|[a|] l IH]; cbn; [tauto| |].
  - rewrite IH. split; intros [H|H]; auto; left; congruence.
  - rewrite IH. split; [auto|]. intros [H|H]; [discriminate|exact H].
Qed.

Section Enum.
  Variable a : alst.
  Hypothesis W : al_wf a.

  Lemma enumeration_In t :
    In t (strip (enumeration a)) <-> alist_get t (al_idx a) <> None.
  Proof.
    rewrite strip_In. unfold enumeration. rewrite enum_from_In. split.
    - intros [k [_ [_ H]]]. symmetry in H. destruct (wf_tok _ W _ _ H) as [_ Hi]. congruence.
    - intros H. destruct (alist_get t (al_idx a)) as [i|] eqn:E; [|congruence].
      pose proof (wf_idx _ W _ _ E) as Ht. destruct (wf_tok _ W _ _ Ht) as [Hlt _].
      exists i. repeat split; [lia|lia|symmetry; exact Ht].
  Qed.

  Lemma enumeration_all_some : forallb is_some (enumeration a) = true.
  Proof.
    apply forallb_forall. intros x Hx. unfold enumeration in Hx. apply enum_from_In in Hx.
    destruct Hx as [k [_ [H2 H3]]]. subst x.
    destruct (alist_get k (al_tok a)) eqn:E; [reflexivity|].
    exfalso. apply (wf_dense _ W k); [lia|exact E].
  Qed.

  (* position of a token in the enumeration = its TokenIndex *)
  Lemma find_index_enum t n i :
    (i + N.of_nat n = al_count a)%N ->
    find_index t (strip (enum_from (al_tok a) i n)) i =
    match alist_get t (al_idx a) with
    | Some k => if N.leb i k then Some k else None
    | None => None
    end.
  Proof.
    revert i. induction n as [|n IH]; intros i Hc; cbn [enum_from strip find_index].
    - destruct (alist_get t (al_idx a)) as [k|] eqn:E; [|reflexivity].
      pose proof (wf_idx _ W _ _ E) as Ht. destruct (wf_tok _ W _ _ Ht) as [Hlt _].
      destruct (N.leb i k) eqn:E2; [|reflexivity]. apply N.leb_le in E2. lia.
    - destruct (alist_get i (al_tok a)) as [x|] eqn:Ex.
      2:{ exfalso. apply (wf_dense _ W i); [lia|exact Ex]. }
      cbn [strip find_index]. destruct (wf_tok _ W _ _ Ex) as [_ Hxi].
      destruct (N.eqb t x) eqn:E.
      + neqb. subst x. rewrite Hxi. rewrite N.leb_refl. reflexivity.
      + rewrite IH by lia. destruct (alist_get t (al_idx a)) as [k|] eqn:Ek; [|reflexivity].
        assert (k <> i).
        { intros ->. pose proof (wf_idx _ W _ _ Ek) as Ht. rewrite Ex in Ht. inversion Ht. neqb. congruence. }
        destruct (N.leb (N.succ i) k) eqn:E1; destruct (N.leb i k) eqn:E2; try reflexivity;
          rewrite ?N.leb_le, ?N.leb_gt in *; lia.
  Qed.

  Lemma find_index_enumeration t :
    find_index t (strip (enumeration a)) 0 = alist_get t (al_idx a).
  Proof.
    unfold enumeration. rewrite find_index_enum by lia.
    destruct (alist_get t (al_idx a)) as [k|]; [|reflexivity].
    destruct (N.leb 0 k) eqn:E; [reflexivity|]. apply N.leb_gt in E. lia.
  Qed.

  Lemma nodup_enum n i :
    (i + N.of_nat n <= al_count a)%N -> NoDup (strip (enum_from (al_tok a) i n)).
  Proof.
    revert i. induction n as [|n IH]; intros i Hc; cbn [enum_from strip]; [constructor|].
    destruct (alist_get i (al_tok a)) as [x|] eqn:Ex; [|apply IH; lia].
    constructor; [|apply IH; lia].
    rewrite strip_In, enum_from_In. intros [k [H1 [_ H3]]]. symmetry in H3.
    destruct (wf_tok _ W _ _ Ex) as [_ Hxi]. destruct (wf_tok _ W _ _ H3) as [_ Hxk].
    rewrite Hxi in Hxk. inversion Hxk. lia.
  Qed.

  Lemma enumeration_nodup : NoDup (strip (enumeration a)).
  Proof. unfold enumeration. apply nodup_enum. lia. Qed.

  Lemma past_none : alist_get (al_count a) (al_tok a) = None.
  Proof.
    destruct (alist_get (al_count a) (al_tok a)) eqn:E; [|reflexivity].
    destruct (wf_tok _ W _ _ E) as [H _]. lia.
  Qed.
End Enum.

Lemma nodupb_NoDup l : NoDup l -> nodupb l = true.
Proof.
  induction 1 as [|x l Hn _ IH]; cbn; [reflexivity|]. rewrite IH, andb_true_r.
  destruct (memb x l) eqn:E; [|reflexivity]. apply memb_In in E. contradiction.
Qed.
