(* C02 at the level of the model: every step of the model passes the five checks of the monitor,
   evaluated on the model's own state (for every address and every pair, not only a universe). *)
From SC Require Import Lib.Prelude Lib.Int Lib.Host Model.Math Model.Fungible Model.FungibleObs
  Proofs.FungibleBasics Proofs.FungibleExec Proofs.FungibleAllow Proofs.FungibleInv Proofs.FungibleObsFacts
  Run.C02.

Definition state_view (s : state) : view :=
  {| v_now := now s; v_sup := supply (tk s); v_bal := balance (tk s); v_allow := allow_obs s |}.

Lemma amt_of_state s p : amt_of (state_view s) p = fst (allowance_data (now s) (tk s) (fst p) (snd p)).
Proof. reflexivity. Qed.
Lemma lu_of_state s p : lu_of (state_view s) p = snd (allowance_data (now s) (tk s) (fst p) (snd p)).
Proof. reflexivity. Qed.
Lemma ttl_of_state s p : ttl_of (state_view s) p = entry_live_until (now s) (aentry (tk s) (fst p) (snd p)).
Proof. reflexivity. Qed.

(* the allowance view of a pair depends only on the ledger and on that pair's entry *)
Lemma allowance_data_ext nw t t' o sp : aentry t' o sp = aentry t o sp ->
  allowance_data nw t' o sp = allowance_data nw t o sp.
Proof. intros H. unfold allowance_data. rewrite H. reflexivity. Qed.
Lemma allow_obs_ext s s' p : now s' = now s -> aentry (tk s') (fst p) (snd p) = aentry (tk s) (fst p) (snd p) ->
  allow_obs s' p = allow_obs s p.
Proof. intros N A. unfold allow_obs. rewrite N, A. rewrite (allowance_data_ext _ _ _ _ _ A). reflexivity. Qed.
Lemma aentry_allows t t' o sp : allows t' = allows t -> aentry t' o sp = aentry t o sp.
Proof. intros H. unfold aentry. rewrite H. reflexivity. Qed.

Lemma same_al_refl_view pv cv p : v_allow cv p = v_allow pv p -> same_al pv cv p = true.
Proof. intros H. unfold same_al, amt_of, lu_of. rewrite H, !Z.eqb_refl. reflexivity. Qed.

(* a balance that decreased was the [from] side of the movement *)
Lemma moved_decrease t t' f to amt a : bal_moved t t' (f, to, amt) -> balance t' a < balance t a ->
  f = Some a /\ 0 < amt /\ balance t a - balance t' a <= amt.
Proof.
  intros (P & B & _) L. rewrite B in *.
  destruct f as [x|], to as [y|]; cbn [ocredit] in *; unfold credit in *.
  - destruct (N.eqb a x) eqn:E1; destruct (N.eqb a y) eqn:E2; try lia; apply N.eqb_eq in E1; subst; repeat split; auto; lia.
  - destruct (N.eqb a x) eqn:E1; try lia. apply N.eqb_eq in E1; subst; repeat split; auto; lia.
  - destruct (N.eqb a y); lia.
  - lia.
Qed.

Lemma debit_le_state s s' a amt : balance (tk s) a - balance (tk s') a <= amt ->
  debit_le (state_view s) (state_view s') a amt = true.
Proof. intros H. unfold debit_le. cbn [v_bal state_view]. apply Z.leb_le. exact H. Qed.

(* the supervisory operations exist in the RWA flavour only *)
Lemma exec_rwa_only c s cl s' v evs : exec c s cl = Ok (s', v, evs) ->
  match cl with RForcedTransfer _ _ _ | RBurn _ _ | RRecover _ _ => is_rwa c = true | _ => True end.
Proof.
  intros H. destruct cl; auto; cbn [exec] in H; unfold is_rwa; destruct (c_flav c); try discriminate; reflexivity.
Qed.

(* expiry by the passage of time *)
Lemma allowance_data_advance nw nw' t o sp : allow_inv t -> nw <= nw' ->
  let d := allowance_data nw t o sp in
  let d' := allowance_data nw' t o sp in
  d' = d \/ (d' = (0, 0) /\ (fst d = 0 \/ snd d < nw')).
Proof.
  intros I L. cbn zeta. rewrite !allowance_data_stored. unfold stored, tget.
  destruct (tlive_at nw' (aentry t o sp)) as [en|] eqn:L'.
  - rewrite (tlive_at_mono nw nw' _ en L L').
    destruct (snd (tval en) <? nw) eqn:X.
    + apply Z.ltb_lt in X. assert (Y : snd (tval en) <? nw' = true) by (apply Z.ltb_lt; lia). rewrite Y. auto.
    + destruct (snd (tval en) <? nw') eqn:Y; auto. right. split; auto. right. apply Z.ltb_lt in Y. exact Y.
  - destruct (tlive_at nw (aentry t o sp)) as [en|] eqn:L0; auto.
    destruct (snd (tval en) <? nw) eqn:X; auto. right. split; auto.
    apply tlive_at_some in L0. destruct L0 as [A0 A1].
    apply tlive_at_none in L'. destruct L' as [L'|[en' [A2 A3]]]; [congruence|].
    rewrite A0 in A2. injection A2; intros; subst en'.
    destruct (I _ _ _ A0) as [P1 P2].
    destruct (Z.eq_dec (fst (tval en)) 0); auto. right. assert (0 < fst (tval en)) by lia. specialize (P2 H). lia.
Qed.

(* ------------------------------------------------------------------------- *)
(* ghost invariant: the stored allowance never exceeds approved-minus-spent and carries the
   approved live_until *)
Definition G (g : ghost) (s : state) : Prop := forall o sp,
  0 <= capd g (o, sp) /\
  forall d, stored (now s) (tk s) o sp = Some d -> fst d <= capd g (o, sp) /\ snd d = lud g (o, sp).

Lemma G_init start : G ghost0 (init start).
Proof. intros o sp. split; [cbn; lia|]. intros d H. discriminate. Qed.

Lemma G_frame g s s' : now s' = now s -> allows (tk s') = allows (tk s) -> G g s -> G g s'.
Proof.
  intros N A H o sp. destruct (H o sp) as [H1 H2]. split; auto. intros d Hd. apply H2.
  unfold stored in *. rewrite N in Hd. rewrite (aentry_allows _ _ _ _ A) in Hd. exact Hd.
Qed.

Lemma chk_cap_of_G g s p : allow_inv (tk s) -> G g s -> chk_cap g (state_view s) p = true.
Proof.
  intros I H. destruct p as [o sp]. destruct (H o sp) as [H1 H2].
  unfold chk_cap. rewrite amt_of_state. cbn [fst snd v_now state_view].
  pose proof (allow_inv_reported (now s) (tk s) o sp I) as [R1 _].
  rewrite allowance_data_stored in *.
  destruct (stored (now s) (tk s) o sp) as [d|] eqn:S.
  - destruct (H2 d eq_refl) as [C1 C2].
    destruct (snd d <? now s) eqn:X.
    + cbn [fst]. destruct (lud g (o, sp) <? now s); rewrite ?Z.eqb_refl; cbn;
        (apply andb_true_iff; split; [apply andb_true_iff; split|]; try reflexivity; apply Z.leb_le; lia).
    + apply Z.ltb_ge in X.
      assert (Y : lud g (o, sp) <? now s = false) by (apply Z.ltb_ge; lia). rewrite Y.
      apply andb_true_iff; split; [apply andb_true_iff; split|]; try reflexivity; apply Z.leb_le; lia.
  - cbn [fst]. destruct (lud g (o, sp) <? now s); rewrite ?Z.eqb_refl;
      (apply andb_true_iff; split; [apply andb_true_iff; split|]; try reflexivity; apply Z.leb_le; lia).
Qed.

Lemma chk_live_of_inv s p : allow_inv (tk s) -> chk_live (state_view s) p = true.
Proof.
  intros I. destruct p as [o sp]. unfold chk_live. rewrite amt_of_state, lu_of_state, ttl_of_state. cbn [fst snd v_now state_view].
  destruct (0 <? fst (allowance_data (now s) (tk s) o sp)) eqn:P; auto. apply Z.ltb_lt in P.
  destruct (allow_inv_reported (now s) (tk s) o sp I) as [_ R]. destruct (R P) as (L & en & A & V & T1 & T2).
  unfold entry_live_until. rewrite A. rewrite tlive_at_live by exact T2.
  apply andb_true_iff. split; apply Z.leb_le; lia.
Qed.

(* ------------------------------------------------------------------------- *)
(* the spend of an allowance as the views see it *)
Lemma spend_view c s s' o sp amt t1 : wf_host (c_host c) ->
  spend_allowance (c_host c) (now s) (tk s) o sp amt = Ok t1 -> allows (tk s') = allows t1 -> now s' = now s ->
  spent_ok (state_view s) (state_view s') (o, sp) amt = true /\
  (amt = 0 -> v_allow (state_view s') (o, sp) = v_allow (state_view s) (o, sp)) /\
  (forall p, p <> (o, sp) -> v_allow (state_view s') p = v_allow (state_view s) p).
Proof.
  intros W H A N.
  destruct (spend_allowance_spec _ _ _ _ _ _ _ W H) as (P & Le & _ & _ & Fr & Z0 & Pos).
  assert (AD : allowance_data (now s') (tk s') o sp = allowance_data (now s) t1 o sp).
  { rewrite N. apply allowance_data_ext. apply aentry_allows. exact A. }
  split; [|split].
  - unfold spent_ok. rewrite !amt_of_state, !lu_of_state. cbn [fst snd]. rewrite AD.
    assert (B1 : (0 <=? amt) = true) by (apply Z.leb_le; lia).
    assert (B2 : (amt <=? fst (allowance_data (now s) (tk s) o sp)) = true) by (apply Z.leb_le; exact Le).
    rewrite B1, B2. cbn [andb].
    destruct (Z.eq_dec amt 0) as [->|Nz].
    + rewrite (Z0 eq_refl). rewrite Z.sub_0_r, Z.eqb_refl. reflexivity.
    + assert (Pa : 0 < amt) by lia. destruct (Pos Pa) as (_ & _ & _ & _ & R). rewrite R. cbn [fst snd].
      rewrite !Z.eqb_refl. apply orb_true_r.
  - intros ->. cbn [v_allow state_view]. apply allow_obs_ext; auto. cbn [fst snd].
    rewrite (aentry_allows _ _ _ _ A). rewrite (Z0 eq_refl). reflexivity.
  - intros [o' sp'] Hn. cbn [v_allow state_view]. apply allow_obs_ext; auto. cbn [fst snd].
    rewrite (aentry_allows _ _ _ _ A). apply Fr. exact Hn.
Qed.

(* ghost preservation for a spend *)
Lemma G_spend c g s s' o sp amt t1 : wf_host (c_host c) -> G g s ->
  spend_allowance (c_host c) (now s) (tk s) o sp amt = Ok t1 -> allows (tk s') = allows t1 -> now s' = now s ->
  G {| g_cap := pset (o, sp) (capd g (o, sp) - amt) (g_cap g); g_lu := g_lu g |} s'.
Proof.
  intros W H Hs A N o' sp'.
  destruct (spend_allowance_spec _ _ _ _ _ _ _ W Hs) as (P & Le & _ & _ & Fr & Z0 & Pos).
  destruct (H o' sp') as [H1 H2].
  assert (ST : forall d, stored (now s') (tk s') o' sp' = Some d -> stored (now s) t1 o' sp' = Some d).
  { intros d Hd. unfold stored in *. rewrite N in Hd. rewrite (aentry_allows _ _ _ _ A) in Hd. exact Hd. }
  destruct (pkey_eqb (o', sp') (o, sp)) eqn:E.
  - apply pkey_eqb_eq in E. injection E; intros; subst o' sp'.
    unfold capd, lud. cbn [g_cap g_lu]. rewrite pget_set_eq. fold (capd g (o, sp)). fold (lud g (o, sp)).
    destruct (Z.eq_dec amt 0) as [->|Nz].
    + rewrite Z.sub_0_r. split; auto. intros d Hd. apply ST in Hd. rewrite (Z0 eq_refl) in Hd. apply H2. exact Hd.
    + assert (Pa : 0 < amt) by lia. destruct (Pos Pa) as (L1 & S0 & _ & S1 & _).
      destruct (H2 _ S0) as [C1 C2]. unfold allowance in Le.
      split; [lia|]. intros d Hd. apply ST in Hd. rewrite S1 in Hd. injection Hd; intros; subst d. cbn [fst snd]. split; [lia|exact C2].
  - apply pkey_eqb_neq in E. unfold capd, lud. cbn [g_cap g_lu]. rewrite pget_set_neq by exact E.
    fold (capd g (o', sp')). fold (lud g (o', sp')). split; auto. intros d Hd. apply ST in Hd. apply H2.
    unfold stored in *. rewrite <- (Fr _ _ E). exact Hd.
Qed.

Section Step.
  Variable c : cfg.
  Hypothesis W : wf_host (c_host c).

  (* classes of successful calls *)
  (* (A) nothing about the token or the ledger changes *)
  Lemma class_same g s s' cl v :
    tk s' = tk s -> now s' = now s -> core_inv (tk s) ->
    ghost_step g cl (Ok v) = g ->
    (forall a, chk_debit (is_rwa c) (state_view s) (state_view s') cl (Ok v) a = true) /\
    (forall p, chk_change (state_view s) (state_view s') cl (Ok v) p = true) /\
    (G g s -> G (ghost_step g cl (Ok v)) s').
  Proof.
    intros T N C Eg. rewrite Eg. split; [|split].
    - intros a. unfold chk_debit. cbn [v_bal state_view]. rewrite T. rewrite Z.ltb_irrefl. reflexivity.
    - intros p. unfold chk_change. rewrite same_al_refl_view; auto. cbn [v_allow state_view].
      apply allow_obs_ext; auto. rewrite T. reflexivity.
    - intros Hg. apply (G_frame g s s'); auto. rewrite T. reflexivity.
  Qed.

  (* (B) one update on the token, allowances untouched *)
  Lemma class_update g s s' cl v f to amt :
    update (tk s) f to amt = Ok (tk s') -> now s' = now s -> core_inv (tk s) ->
    ghost_step g cl (Ok v) = g ->
    (forall a, f = Some a -> 0 < amt -> balance (tk s) a - balance (tk s') a <= amt ->
               debit_ok (is_rwa c) (state_view s) (state_view s') cl v a = true) ->
    (forall a, chk_debit (is_rwa c) (state_view s) (state_view s') cl (Ok v) a = true) /\
    (forall p, chk_change (state_view s) (state_view s') cl (Ok v) p = true) /\
    (G g s -> G (ghost_step g cl (Ok v)) s').
  Proof.
    intros U N [I A] Eg D. rewrite Eg.
    destruct (update_moved _ _ _ _ _ _ I eq_refl eq_refl U) as (M & _ & Al).
    split; [|split].
    - intros a. unfold chk_debit. cbn [v_bal state_view].
      destruct (balance (tk s') a <? balance (tk s) a) eqn:L; auto. apply Z.ltb_lt in L.
      destruct (moved_decrease _ _ _ _ _ _ M L) as (-> & Pa & Le). apply D; auto.
    - intros p. unfold chk_change. rewrite same_al_refl_view; auto. cbn [v_allow state_view].
      apply allow_obs_ext; auto. apply aentry_allows. exact Al.
    - intros Hg. apply (G_frame g s s'); auto.
  Qed.

  (* (C) a spend of (o, sp) by amt, then one update *)
  Lemma class_spend g s s' cl v o sp amt t1 f to :
    spend_allowance (c_host c) (now s) (tk s) o sp amt = Ok t1 ->
    update t1 f to amt = Ok (tk s') -> now s' = now s -> core_inv (tk s) ->
    spend_of cl v = Some (o, sp, amt) -> (forall au o' s' a' l', cl <> Approve au o' s' a' l') -> (forall n, cl <> Advance n) ->
    has_auth (call_auths cl) sp = true ->
    (forall a, f = Some a -> spent_ok (state_view s) (state_view s') (o, sp) amt = true ->
               balance (tk s) a - balance (tk s') a <= amt ->
               debit_ok (is_rwa c) (state_view s) (state_view s') cl v a = true) ->
    (forall a, chk_debit (is_rwa c) (state_view s) (state_view s') cl (Ok v) a = true) /\
    (forall p, chk_change (state_view s) (state_view s') cl (Ok v) p = true) /\
    (G g s -> G (ghost_step g cl (Ok v)) s').
  Proof.
    intros Hs U N [I A] Sp NA NV Au D.
    destruct (spend_allowance_spec _ _ _ _ _ _ _ W Hs) as (P & Le & B1 & S1 & _).
    destruct (update_moved _ _ _ _ _ _ I B1 S1 U) as (M & _ & Al).
    destruct (spend_view c s s' o sp amt t1 W Hs Al N) as (SO & SZ & SF).
    split; [|split].
    - intros a. unfold chk_debit. cbn [v_bal state_view].
      destruct (balance (tk s') a <? balance (tk s) a) eqn:L; auto. apply Z.ltb_lt in L.
      destruct (moved_decrease _ _ _ _ _ _ M L) as (-> & Pa & Le0). apply D; auto.
    - intros p. unfold chk_change. destruct (same_al (state_view s) (state_view s') p) eqn:Sa; auto.
      assert (X : allow_change_ok (state_view s) (state_view s') cl v p =
                  (pkey_eqb p (o, sp) && has_auth (call_auths cl) sp && (0 <? amt) && spent_ok (state_view s) (state_view s') p amt)).
      { unfold allow_change_ok. rewrite Sp. destruct cl; try reflexivity; exfalso; [eapply NV|eapply NA]; reflexivity. }
      rewrite X. destruct (pkey_eqb p (o, sp)) eqn:E.
      + apply pkey_eqb_eq in E. subst p. rewrite Au. cbn [andb].
        destruct (Z.eq_dec amt 0) as [->|Nz].
        * rewrite same_al_refl_view in Sa; [discriminate|]. apply SZ. reflexivity.
        * assert (Pa : (0 <? amt) = true) by (apply Z.ltb_lt; lia). rewrite Pa, SO. reflexivity.
      + apply pkey_eqb_neq in E. rewrite same_al_refl_view in Sa; [discriminate|]. apply SF. exact E.
    - assert (Eg : ghost_step g cl (Ok v) = {| g_cap := pset (o, sp) (capd g (o, sp) - amt) (g_cap g); g_lu := g_lu g |}).
      { unfold ghost_step. rewrite Sp. destruct cl; try reflexivity. exfalso. eapply NA. reflexivity. }
      rewrite Eg. intros Hg. eapply G_spend; eauto.
  Qed.

  (* (D) approve *)
  Lemma class_approve g s s' au o sp amt lu v :
    has_auth au o = true -> set_allowance (c_host c) (now s) (tk s) o sp amt lu = Ok (tk s') -> now s' = now s ->
    core_inv (tk s) ->
    let cl := Approve au o sp amt lu in
    (forall a, chk_debit (is_rwa c) (state_view s) (state_view s') cl (Ok v) a = true) /\
    (forall p, chk_change (state_view s) (state_view s') cl (Ok v) p = true) /\
    (G g s -> G (ghost_step g cl (Ok v)) s').
  Proof.
    intros Au Hs N [I A]. cbn zeta.
    destruct (set_allowance_spec _ _ _ _ _ _ _ _ W Hs) as (P & _ & _ & B & S & Fr & _).
    destruct (set_allowance_reads _ _ _ _ _ _ _ _ W Hs) as (R1 & R2 & R3).
    split; [|split].
    - intros a. unfold chk_debit. cbn [v_bal state_view]. unfold balance. rewrite B. rewrite Z.ltb_irrefl. reflexivity.
    - intros p. unfold chk_change. destruct (same_al (state_view s) (state_view s') p) eqn:Sa; auto.
      unfold allow_change_ok. destruct (pkey_eqb p (o, sp)) eqn:E.
      + apply pkey_eqb_eq in E. subst p. rewrite Au. cbn [andb].
        rewrite !amt_of_state, !lu_of_state. cbn [fst snd v_now state_view]. rewrite N, R2.
        destruct (lu <? now s); cbn [fst snd]; rewrite !Z.eqb_refl; reflexivity.
      + apply pkey_eqb_neq in E. rewrite same_al_refl_view in Sa; [discriminate|].
        cbn [v_allow state_view]. apply allow_obs_ext; auto. destruct p as [o' sp']. cbn [fst snd]. apply Fr. exact E.
    - cbn [ghost_step]. intros Hg o' sp'. destruct (Hg o' sp') as [H1 H2].
      destruct (pkey_eqb (o', sp') (o, sp)) eqn:E.
      + apply pkey_eqb_eq in E. injection E; intros; subst o' sp'.
        unfold capd, lud. cbn [g_cap g_lu]. rewrite !pget_set_eq. split; auto.
        intros d Hd. rewrite N, R1 in Hd. injection Hd; intros; subst d. cbn. split; [lia|reflexivity].
      + apply pkey_eqb_neq in E. unfold capd, lud. cbn [g_cap g_lu]. rewrite !pget_set_neq by exact E.
        fold (capd g (o', sp')). fold (lud g (o', sp')). split; auto.
        intros d Hd. apply H2. rewrite N in Hd. destruct (R3 _ _ E) as [R31 _]. rewrite R31 in Hd. exact Hd.
  Qed.

  (* (E) the ledger advances *)
  Lemma class_advance g s s' n v :
    0 <= n -> tk s' = tk s -> now s' = now s + n -> core_inv (tk s) ->
    let cl := Advance n in
    (forall a, chk_debit (is_rwa c) (state_view s) (state_view s') cl (Ok v) a = true) /\
    (forall p, chk_change (state_view s) (state_view s') cl (Ok v) p = true) /\
    (G g s -> G (ghost_step g cl (Ok v)) s').
  Proof.
    intros Pn T N [I A]. cbn zeta. split; [|split].
    - intros a. unfold chk_debit. cbn [v_bal state_view]. rewrite T. rewrite Z.ltb_irrefl. reflexivity.
    - intros [o sp]. unfold chk_change. destruct (same_al (state_view s) (state_view s') (o, sp)) eqn:Sa; auto.
      unfold allow_change_ok. unfold same_al in Sa. rewrite !amt_of_state, !lu_of_state in *. cbn [fst snd v_now state_view] in *.
      rewrite T, N in *.
      assert (L : now s <= now s + n) by lia.
      destruct (allowance_data_advance (now s) (now s + n) (tk s) o sp A L) as [X|[X1 X2]].
      + rewrite X in Sa. rewrite !Z.eqb_refl in Sa. discriminate.
      + rewrite X1. cbn [fst snd]. destruct X2 as [X2|X2].
        * rewrite X2. reflexivity.
        * assert (Y : snd (allowance_data (now s) (tk s) o sp) <? now s + n = true) by (apply Z.ltb_lt; exact X2).
          rewrite Y. rewrite orb_true_r. reflexivity.
    - cbn [ghost_step spend_of]. intros Hg o sp. destruct (Hg o sp) as [H1 H2]. split; auto.
      intros d Hd. apply H2. unfold stored, tget in *. rewrite T, N in Hd.
      destruct (tlive_at (now s + n) (aentry (tk s) o sp)) as [en|] eqn:L'; [|discriminate].
      rewrite (tlive_at_mono (now s) (now s + n) _ en); auto. lia.
  Qed.

  Lemma has_auth_nil a : has_auth [] a = false. Proof. reflexivity. Qed.

  (* every successful step of the model passes the checks, on its own state *)
  Theorem model_step_ok g s cl s' v evs :
    core_inv (tk s) -> exec c s cl = Ok (s', v, evs) ->
    (forall a, chk_debit (is_rwa c) (state_view s) (state_view s') cl (Ok v) a = true) /\
    (forall p, chk_change (state_view s) (state_view s') cl (Ok v) p = true) /\
    (G g s -> G (ghost_step g cl (Ok v)) s') /\
    (needs_signer cl = true -> call_auths cl <> []).
  Proof.
    intros C H. pose proof (exec_spec _ _ _ _ _ _ H) as (Sp & N & _).
    assert (R : forall (P Q R0 S0 : Prop), (P /\ Q /\ R0) -> S0 -> P /\ Q /\ R0 /\ S0) by tauto.
    destruct cl; unfold call_spec in Sp; unfold now_after in N; apply R;
      try (intros _; discriminate); try (cbn; intros X; discriminate X).
    - (* Advance *) destruct Sp as (Pn & T & _). apply class_advance; auto.
    - (* Mint *) destruct Sp as (U & _). eapply class_update; eauto. intros a X. discriminate.
    - (* Transfer *) destruct Sp as (Au & U & _). eapply class_update; eauto.
      intros a X _ Le. injection X; intros; subst. cbn [debit_ok]. rewrite N.eqb_refl, Au, (debit_le_state _ _ _ _ Le). reflexivity.
    - destruct Sp as (Au & _). cbn. intros _ E. rewrite E in Au. discriminate.
    - (* TransferFrom *) destruct Sp as (Au & (t1 & Hs & U) & _).
      eapply class_spend; eauto; try (intros; discriminate).
      intros a X SO Le. injection X; intros; subst. cbn [debit_ok]. rewrite N.eqb_refl, Au, SO, (debit_le_state _ _ _ _ Le). reflexivity.
    - destruct Sp as (Au & _). cbn. intros _ E. rewrite E in Au. discriminate.
    - (* Approve *) destruct Sp as (Au & Hs & _). apply class_approve; auto.
    - destruct Sp as (Au & _). cbn. intros _ E. rewrite E in Au. discriminate.
    - (* Burn *) destruct Sp as (Au & U & _). eapply class_update; eauto.
      intros a X _ Le. injection X; intros; subst. cbn [debit_ok]. rewrite N.eqb_refl, Au, (debit_le_state _ _ _ _ Le). reflexivity.
    - destruct Sp as (Au & _). cbn. intros _ E. rewrite E in Au. discriminate.
    - (* BurnFrom *) destruct Sp as (Au & (t1 & Hs & U) & _).
      eapply class_spend; eauto; try (intros; discriminate).
      intros a X SO Le. injection X; intros; subst. cbn [debit_ok]. rewrite N.eqb_refl, Au, SO, (debit_le_state _ _ _ _ Le). reflexivity.
    - destruct Sp as (Au & _). cbn. intros _ E. rewrite E in Au. discriminate.
    - (* QBalance *) destruct Sp as (-> & _). apply class_same; auto.
    - destruct Sp as (-> & _). apply class_same; auto.
    - destruct Sp as (-> & _). apply class_same; auto.
    - (* SetListed *) destruct Sp as (T & _). apply class_same; auto.
    - (* Delegate *) destruct Sp as (T & _). apply class_same; auto.
    - (* VDeposit *) destruct Sp as (Au & U & _). eapply class_update; eauto. intros a X. discriminate.
    - destruct Sp as (Au & _). cbn. intros _ E. rewrite E in Au. discriminate.
    - (* VMint *) destruct Sp as (Au & U & _). eapply class_update; eauto. intros a X. discriminate.
    - destruct Sp as (Au & _). cbn. intros _ E. rewrite E in Au. discriminate.
    - (* VWithdraw *) destruct Sp as (Au & (t1 & Hs & U) & _). destruct (N.eqb operator owner) eqn:E.
      + subst t1. eapply class_update; eauto.
        * cbn [ghost_step spend_of]. rewrite E. reflexivity.
        * intros a X _ Le. injection X; intros; subst. cbn [debit_ok]. rewrite N.eqb_refl, Au, E, (debit_le_state _ _ _ _ Le). reflexivity.
      + eapply class_spend; eauto; try (intros; discriminate).
        * cbn [spend_of]. rewrite E. reflexivity.
        * intros a X SO Le. injection X; intros; subst. cbn [debit_ok]. rewrite N.eqb_refl, Au, SO, E, (debit_le_state _ _ _ _ Le). reflexivity.
    - destruct Sp as (Au & _). cbn. intros _ E. rewrite E in Au. discriminate.
    - (* VRedeem *) destruct Sp as (Au & (t1 & Hs & U) & _). destruct (N.eqb operator owner) eqn:E.
      + subst t1. eapply class_update; eauto.
        * cbn [ghost_step spend_of]. rewrite E. reflexivity.
        * intros a X _ Le. injection X; intros; subst. cbn [debit_ok]. rewrite N.eqb_refl, Au, E, (debit_le_state _ _ _ _ Le). reflexivity.
      + eapply class_spend; eauto; try (intros; discriminate).
        * cbn [spend_of]. rewrite E. reflexivity.
        * intros a X SO Le. injection X; intros; subst. cbn [debit_ok]. rewrite N.eqb_refl, Au, SO, E, (debit_le_state _ _ _ _ Le). reflexivity.
    - destruct Sp as (Au & _). cbn. intros _ E. rewrite E in Au. discriminate.
    - (* AssetMint *) destruct Sp as (T & _). apply class_same; auto.
    - (* AssetApprove *) destruct Sp as (T & _). apply class_same; auto.
    - (* RForcedTransfer *) destruct Sp as (U & _). pose proof (exec_rwa_only _ _ _ _ _ _ H) as Rw. eapply class_update; eauto.
      intros a X _ Le. injection X; intros; subst. cbn [debit_ok]. rewrite Rw, N.eqb_refl, (debit_le_state _ _ _ _ Le). reflexivity.
    - (* RBurn *) destruct Sp as (U & _). pose proof (exec_rwa_only _ _ _ _ _ _ H) as Rw. eapply class_update; eauto.
      intros a0 X _ Le. injection X; intros; subst. cbn [debit_ok]. rewrite Rw, N.eqb_refl, (debit_le_state _ _ _ _ Le). reflexivity.
    - (* RRecover *) pose proof (exec_rwa_only _ _ _ _ _ _ H) as Rw.
      destruct Sp as [(_ & T & _)|(_ & U & _)]; [apply class_same; auto|eapply class_update; eauto].
      intros a X _ _. injection X; intros; subst. cbn [debit_ok]. rewrite Rw, N.eqb_refl. reflexivity.
    - destruct Sp as (T & _). apply class_same; auto.
    - destruct Sp as (T & _). apply class_same; auto.
    - destruct Sp as (T & _). apply class_same; auto.
    - destruct Sp as (T & _). apply class_same; auto.
    - destruct Sp as (T & _). apply class_same; auto.
  Qed.
End Step.
