(* C09: the theorems of DESIGN.md 5 C09. *)
From SC Require Import Lib.Prelude Lib.Int Lib.Host Model.Timelock Model.TimelockGhost Model.TimelockController
  Proofs.TimelockGhost Proofs.Timelock Proofs.C08Final Proofs.Controller.

(* ---------------- access-control helpers ---------------- *)
Lemma mem_list_set_members_neq a r l ex r' : r' <> r -> mem_list (set_members a r l ex) r' = mem_list a r'.
Proof. intros H. unfold mem_list, set_members; cbn [members]. rewrite alist_get_set_neq by exact H. reflexivity. Qed.
Lemma mem_list_set_members_eq a r l ex : mem_list (set_members a r l ex) r = l.
Proof. unfold mem_list, set_members; cbn [members]. rewrite alist_get_set_eq. reflexivity. Qed.

Lemma grant_no_auth_frame mr a x r a' :
  grant_no_auth mr a x r = Ok a' ->
  admin a' = admin a /\ pending a' = pending a /\ radmin a' = radmin a /\
  (forall r', r' <> r -> mem_list a' r' = mem_list a r') /\ holds a' x r = true.
Proof.
  unfold grant_no_auth. destruct (holds a x r) eqn:Eh.
  - intros H. inversion H; subst. repeat split; auto.
  - destruct (mem_list a r) as [|y l] eqn:El.
    + destruct (Z.of_nat (length (existing a)) =? mr); cbn [bind]; [discriminate|].
      intros H. inversion H; subst. cbn [set_members admin pending radmin]. repeat split; auto.
      * intros r' Hr. apply mem_list_set_members_neq. exact Hr.
      * unfold holds, has_role. rewrite mem_list_set_members_eq. cbn. rewrite N.eqb_refl. reflexivity.
    + cbn [bind]. intros H. inversion H; subst. cbn [set_members admin pending radmin]. repeat split; auto.
      * intros r' Hr. apply mem_list_set_members_neq. exact Hr.
      * unfold holds, has_role. rewrite mem_list_set_members_eq.
        assert (G : forall l k, exists j, index_of x (l ++ [x]) k = Some j).
        { induction l0 as [|z l0 IH]; intros k; cbn.
          - rewrite N.eqb_refl. eauto.
          - destruct (N.eqb x z); eauto. }
        destruct (G (y :: l) 0) as (j & Hj). cbn [app] in Hj. rewrite Hj. reflexivity.
Qed.

Lemma revoke_no_auth_frame a x r a' :
  revoke_no_auth a x r = Ok a' ->
  admin a' = admin a /\ pending a' = pending a /\ radmin a' = radmin a /\
  (forall r', r' <> r -> mem_list a' r' = mem_list a r') /\ holds a x r = true.
Proof.
  unfold revoke_no_auth. destruct (holds a x r) eqn:Eh; [|discriminate].
  unfold remove_member. destruct (mem_list a r) as [|y l] eqn:El; [discriminate|].
  destruct (has_role a x r) as [idx|]; [|discriminate].
  intros H. inversion H; subst. cbn [set_members admin pending radmin]. repeat split; auto.
  intros r' Hr. apply mem_list_set_members_neq. exact Hr.
Qed.

Section WithHash.
  Variable hash : op -> id.
  Variable aid : argv -> N.
  Variable cf : cfg.
  Notation pair_op := (pair_op cf).
  Notation ops_of := (ops_of cf).
  Notation exec_all := (exec_all hash).
  Notation check_auth := (check_auth hash cf).
  Notation step_ok := (step_ok hash aid cf).
  Notation step := (step hash aid cf).
  Notation run := (run hash aid cf).
  Notation root_of := (root_of aid cf).
  Notation consumes := (consumes hash aid cf).
  Notation pairs_of := (pairs_of aid cf).
  Notation tl_calls := (tl_calls cf).

  (* ---------------- __check_auth consumes one ready operation per context ---------------- *)
  Lemma nth_error_combine {A B} (l1 : list A) (l2 : list B) k x y :
    nth_error l1 k = Some x -> nth_error l2 k = Some y -> In (x, y) (combine l1 l2).
  Proof.
    revert l2 k. induction l1 as [|a l1 IH]; intros l2 k H1 H2; destruct k; cbn in H1; try discriminate.
    - destruct l2; cbn in H2; [discriminate|]. inversion H1; inversion H2; subst. left. reflexivity.
    - destruct l2; cbn in H2; [discriminate|]. right. eapply IH; eassumption.
  Qed.
  Lemma in_ops_of l p o : In p l -> pair_op p = Some o -> In o (ops_of l).
  Proof.
    induction l as [|q l IH]; intros Hin Ho; cbn [In] in Hin; [contradiction|].
    cbn [TimelockController.ops_of]. destruct Hin as [<-|Hin].
    - rewrite Ho. left. reflexivity.
    - destruct (pair_op q); [right|]; apply IH; assumption.
  Qed.

  Lemma consumed_pair direct s xa pairs s1 p :
    consumed hash cf direct s xa pairs s1 -> In p pairs ->
    exists o, pair_op p = Some o /\
      state_of (ctl s) (hash o) = Ready /\ mark (ctl s1) (hash o) = 1 /\
      (pred o = 0%N \/ mark (ctl s1) (pred o) = 1) /\
      (role_count (acs s) EXECUTOR <> 0 ->
       exists x, m_exec (snd p) = Some x /\ holds (acs s) x EXECUTOR = true /\
                 (x = self cf /\ direct = false \/ x <> self cf /\ xa_has xa x o = true)).
  Proof.
    intros (_ & _ & Hf & He) Hin.
    rewrite Forall_forall in Hf. destruct (Hf p Hin) as (o & Ho & Hx).
    exists o. split; [exact Ho|].
    destruct (exec_all_spec hash _ _ _ He) as (_ & _ & Hall & _ & _).
    destruct (Hall o (in_ops_of _ _ _ Hin Ho)) as (Hr & Hd & Hp).
    repeat split; auto. intros Hne. destruct Hx as [H0|Hx]; [contradiction|exact Hx].
  Qed.

  Theorem check_auth_consumes : forall direct s metas ctxs xa s',
    check_auth direct s metas ctxs xa = Ok s' ->
    length metas = length ctxs /\ acs s' = acs s /\ cruns s' = cruns s /\
    now (ctl s') = now (ctl s) /\ min_delay (ctl s') = min_delay (ctl s) /\
    forall k c m, nth_error ctxs k = Some c -> nth_error metas k = Some m ->
      exists f a, c = CtxC (self cf) f a /\
        let o := Op (self cf) f a (m_pred m) (m_salt m) in
        state_of (ctl s) (hash o) = Ready /\ state_of (ctl s') (hash o) = Done /\
        (m_pred m = 0%N \/ state_of (ctl s') (m_pred m) = Done) /\
        (role_count (acs s) EXECUTOR <> 0 ->
         exists x, m_exec m = Some x /\ holds (acs s) x EXECUTOR = true /\
                   (x = self cf /\ direct = false \/ x <> self cf /\ xa_has xa x o = true)).
  Proof.
    intros direct s metas ctxs xa s' H. apply check_auth_spec in H. destruct H as [Hl Hc].
    split; [exact Hl|]. pose proof Hc as (Ha & Hr & _ & He).
    destruct (exec_all_spec hash _ _ _ He) as (Hn & Hm & _).
    repeat (split; [assumption|]).
    intros k c m Hkc Hkm. pose proof (nth_error_combine _ _ _ _ _ Hkc Hkm) as Hin.
    destruct (consumed_pair _ _ _ _ _ _ Hc Hin) as (o & Ho & Hrd & Hdn & Hp & Hx).
    unfold TimelockController.pair_op in Ho. cbn [fst snd] in Ho.
    destruct c as [contract f a|]; [|discriminate].
    destruct (N.eqb contract (self cf)) eqn:Ec; [|discriminate]. apply N.eqb_eq in Ec. subst contract.
    inversion Ho; subst o. exists f, a. split; [reflexivity|]. cbv zeta.
    split; [exact Hrd|]. split; [apply state_done_iff; exact Hdn|]. split; [|exact Hx].
    cbn [pred] in Hp. destruct Hp as [Hp|Hp]; [left; exact Hp|right; apply state_done_iff; exact Hp].
  Qed.

  (* ---------------- an authorisation by the controller's own address consumes ---------------- *)
  Lemma self_auth_consumes s c s1 :
    auth_ok hash aid cf s c (self cf) s1 ->
    exists se m rest,
      a_self (authz_of c) = Some se /\ se_root se = root_of c /\ se_metas se = m :: rest /\
      length rest = length (se_subs se) /\
      let o := Op (self cf) (fn_of c) (aid (argv_of c)) (m_pred m) (m_salt m) in
      state_of (ctl s) (hash o) = Ready /\ mark (ctl s1) (hash o) = 1 /\
      (m_pred m = 0%N \/ mark (ctl s1) (m_pred m) = 1) /\
      (role_count (acs s) EXECUTOR <> 0 ->
       exists x, m_exec m = Some x /\ holds (acs s) x EXECUTOR = true /\
                 (x = self cf \/ xa_has (a_exec (authz_of c)) x o = true)).
  Proof.
    intros (pairs & Ha & Hc). unfold auth_spec in Ha. rewrite N.eqb_refl in Ha.
    destruct Ha as (se & Hse & Hroot & Hlen & ->). apply ctx_eqb_eq in Hroot.
    destruct (se_metas se) as [|m rest] eqn:Em; [cbn in Hlen; discriminate|].
    cbn [length] in Hlen. injection Hlen as Hlen.
    exists se, m, rest. repeat (split; [assumption|]).
    assert (Hin : In (se_root se, m) (combine (se_root se :: se_subs se) (m :: rest))) by (left; reflexivity).
    destruct (consumed_pair _ _ _ _ _ _ Hc Hin) as (o & Ho & Hrd & Hdn & Hp & Hx).
    unfold TimelockController.pair_op in Ho. cbn [fst snd] in Ho. rewrite Hroot in Ho.
    unfold TimelockController.root_of in Ho. rewrite N.eqb_refl in Ho. inversion Ho; subst o.
    cbv zeta. cbn [pred] in Hp. split; [exact Hrd|]. split; [exact Hdn|]. split; [exact Hp|].
    intros Hne. destruct (Hx Hne) as (x & Hm & Hh & Hs). exists x. split; [exact Hm|]. split; [exact Hh|].
    cbn [snd] in *. destruct Hs as [[Hs _]|[_ Hs]]; auto.
  Qed.

  Lemma consumed_ctl_done direct s xa pairs s1 i : consumed hash cf direct s xa pairs s1 -> mark (ctl s) i = 1 -> mark (ctl s1) i = 1.
  Proof.
    intros (_ & _ & _ & He) Hd.
    destruct (exec_all_spec hash _ _ _ He) as (_ & _ & Hall & Hout & _).
    destruct (in_dec N.eq_dec i (map hash (ops_of pairs))) as [Hi|Hni].
    - apply in_map_iff in Hi. destruct Hi as (o & <- & Ho). apply (Hall o Ho).
    - rewrite (Hout _ Hni). exact Hd.
  Qed.

  (* the admin-only entry points and grant/revoke by the controller itself *)
  Definition self_admin_call (c : call) : Prop :=
    match c with
    | UpdateDelay _ _ | SetRoleAdmin _ _ _ | TransferAdmin _ _ _ | RenounceAdmin _ => True
    | GrantRole _ _ k _ | RevokeRole _ _ k _ | RenounceRole _ k _ => k = self cf
    | _ => False
    end.

  Lemma done_of_mark t i : mark t i = 1 -> state_of t i = Done.
  Proof. apply state_done_iff. Qed.

  Theorem self_admin_call_consumes : forall s c s' r,
    step_ok s c = Ok (s', r) -> admin (acs s) = Some (self cf) -> self_admin_call c -> consumes s c s'.
  Proof.
    intros s c s' r H Hadm Hc.
    assert (K : forall s1, auth_ok hash aid cf s c (self cf) s1 -> marks (ctl s') = marks (ctl s1) -> consumes s c s').
    { intros s1 Hau Hmk. destruct (self_auth_consumes _ _ _ Hau) as (se & m & rest & H1 & H2 & H3 & H4 & H5).
      exists se, m, rest. repeat (split; [assumption|]). cbv zeta in *.
      destruct H5 as (Hrd & Hdn & Hp & Hx).
      assert (Hmm : forall i, mark (ctl s') i = mark (ctl s1) i) by (intros i; unfold mark; rewrite Hmk; reflexivity).
      split; [exact Hrd|]. split; [apply done_of_mark; rewrite Hmm; exact Hdn|]. split; [|exact Hx].
      destruct Hp as [Hp|Hp]; [left; exact Hp|right; apply done_of_mark; rewrite Hmm; exact Hp]. }
    destruct c as [o d p au|o x tgt au|i k au|d au|a ro k au|a ro k au|ro k au|ro ar au|new lu au|au|au|metas ctxs xa|n];
      cbn [self_admin_call] in Hc; try contradiction.
    - apply update_delay_spec in H. destruct H as (ad & s1 & Had & Hau & _ & -> & _).
      rewrite Hadm in Had. injection Had as <-. apply (K s1 Hau). reflexivity.
    - subst k. apply grant_role_spec in H. destruct H as (s1 & a' & Hau & _ & _ & -> & _). apply (K s1 Hau). reflexivity.
    - subst k. apply revoke_role_spec in H. destruct H as (s1 & a' & Hau & _ & _ & -> & _). apply (K s1 Hau). reflexivity.
    - subst k. apply renounce_role_spec in H. destruct H as (s1 & a' & Hau & _ & -> & _). apply (K s1 Hau). reflexivity.
    - apply set_role_admin_spec in H. destruct H as (ad & s1 & Had & Hau & -> & _).
      rewrite Hadm in Had. injection Had as <-. apply (K s1 Hau). reflexivity.
    - apply transfer_admin_spec in H. destruct H as (ad & s1 & p & Had & Hau & _ & -> & _).
      rewrite Hadm in Had. injection Had as <-. apply (K s1 Hau). reflexivity.
    - apply renounce_admin_spec in H. destruct H as (ad & s1 & Had & Hau & _ & -> & _).
      rewrite Hadm in Had. injection Had as <-. apply (K s1 Hau). reflexivity.
  Qed.

  (* what any successful call leaves alone *)
  Lemma consumed_acs direct s xa pairs s1 : consumed hash cf direct s xa pairs s1 -> acs s1 = acs s.
  Proof. intros (H & _). exact H. Qed.
  Lemma consumed_min direct s xa pairs s1 : consumed hash cf direct s xa pairs s1 -> min_delay (ctl s1) = min_delay (ctl s).
  Proof. intros (_ & _ & _ & He). apply (exec_all_spec hash _ _ _ He). Qed.

  Theorem admin_effect_needs_ready_op : forall s c s' r,
    step_ok s c = Ok (s', r) -> admin (acs s) = Some (self cf) ->
    (* the minimum delay, the role admins, the admin and the pending admin offer change only by
       an admin-only call that consumed a ready operation for exactly that call
       (accept_admin_transfer is the new admin's own step, see below) *)
    ((min_delay (ctl s') <> min_delay (ctl s) \/ radmin (acs s') <> radmin (acs s) \/
      ((admin (acs s') <> admin (acs s) \/ pending (acs s') <> pending (acs s)) /\ forall au, c <> AcceptAdmin au))
     -> self_admin_call c /\ consumes s c s') /\
    (* role membership changes only by grant/revoke - by the controller itself (consuming a ready
       operation) or by a signer holding the role's admin role - or by the holder renouncing *)
    (forall ro, mem_list (acs s') ro <> mem_list (acs s) ro ->
       (exists a k au, (c = GrantRole a ro k au \/ c = RevokeRole a ro k au) /\
          (k = self cf /\ consumes s c s'
           \/ k <> self cf /\ has_auth (a_plain au) k = true /\
              exists ar, role_admin (acs s) ro = Some ar /\ holds (acs s) k ar = true))
       \/ (exists k au, c = RenounceRole ro k au /\ holds (acs s) k ro = true /\
             (k = self cf -> consumes s c s') /\ (k <> self cf -> has_auth (a_plain au) k = true))) /\
    (* accepting an admin transfer: only the account the (admin-only) transfer named, with its signature *)
    (forall au, c = AcceptAdmin au ->
       exists pa, tget (now (ctl s)) (pending (acs s)) = Some pa /\ admin (acs s') = Some pa /\
                  (pa <> self cf -> has_auth (a_plain au) pa = true)).
  Proof.
    intros s c s' r H Hadm.
    pose proof (self_admin_call_consumes s c s' r H Hadm) as SC.
    destruct c as [o d p au|o x tgt au|i k au|d au|a ro k au|a ro k au|ro k au|ro ar au|new lu au|au|au|metas ctxs xa|n].
    - (* schedule_op *)
      pose proof H as H0. apply schedule_op_spec in H0. destruct H0 as (_ & s1 & t & (pairs & _ & Hc) & Hs & -> & _).
      apply schedule_ok in Hs. destruct Hs as (_ & _ & m & _ & _ & -> & _).
      cbn [with_ctl ctl acs set_mark min_delay]. rewrite (consumed_acs _ _ _ _ _ Hc), (consumed_min _ _ _ _ _ Hc).
      split; [intros [Hx|[Hx|[[Hx|Hx] _]]]; congruence|]. split; [intros ro Hx; congruence|discriminate].
    - (* execute_op *)
      pose proof H as H0. apply execute_op_spec in H0. destruct H0 as (s1 & t & Hau & Hs & _ & _ & -> & _).
      apply set_execute_ok in Hs. destruct Hs as (_ & _ & ->).
      assert (Ha : acs s1 = acs s /\ min_delay (ctl s1) = min_delay (ctl s)).
      { destruct Hau as [[_ ->]|(_ & e & _ & _ & (pairs & _ & Hc))]; [auto|].
        split; [apply (consumed_acs _ _ _ _ _ Hc)|apply (consumed_min _ _ _ _ _ Hc)]. }
      destruct Ha as [Ha Hm]. cbn [ctl acs set_mark min_delay]. rewrite Ha, Hm.
      split; [intros [Hx|[Hx|[[Hx|Hx] _]]]; congruence|]. split; [intros ro Hx; congruence|discriminate].
    - (* cancel_op *)
      pose proof H as H0. apply cancel_op_spec in H0. destruct H0 as (_ & s1 & t & (pairs & _ & Hc) & Hs & -> & _).
      apply cancel_ok in Hs. destruct Hs as (_ & ->).
      cbn [with_ctl ctl acs del_mark min_delay]. rewrite (consumed_acs _ _ _ _ _ Hc), (consumed_min _ _ _ _ _ Hc).
      split; [intros [Hx|[Hx|[[Hx|Hx] _]]]; congruence|]. split; [intros ro Hx; congruence|discriminate].
    - (* update_delay *)
      split; [intros _; split; [exact I|apply SC; exact I]|].
      pose proof H as H0. apply update_delay_spec in H0. destruct H0 as (ad & s1 & _ & (pairs & _ & Hc) & _ & -> & _).
      cbn [with_ctl acs]. rewrite (consumed_acs _ _ _ _ _ Hc). split; [intros ro Hx; congruence|discriminate].
    - (* grant_role *)
      pose proof H as H0. apply grant_role_spec in H0. destruct H0 as (s1 & a' & (pairs & Hsp & Hc) & Hi & Hg & -> & _).
      apply grant_no_auth_frame in Hg. destruct Hg as (G1 & G2 & G3 & G4 & _).
      cbn [with_acs ctl acs]. rewrite (consumed_min _ _ _ _ _ Hc), G1, G2, G3.
      split; [intros [Hx|[Hx|[[Hx|Hx] _]]]; congruence|]. split; [|discriminate].
      intros ro0 Hx. left. exists a, k, au.
      assert (ro0 = ro) by (destruct (N.eq_dec ro0 ro) as [E|E]; [exact E|exfalso; apply Hx; apply G4; exact E]). subst ro0.
      split; [left; reflexivity|].
      destruct (N.eq_dec k (self cf)) as [->|Hk]; [left; split; [reflexivity|apply SC; reflexivity]|right].
      split; [exact Hk|]. unfold auth_spec in Hsp. replace (N.eqb k (self cf)) with false in Hsp by (symmetry; apply N.eqb_neq; exact Hk).
      destruct Hsp as [Hsp _]. split; [exact Hsp|].
      unfold is_admin_or_admin_role in Hi. rewrite Hadm in Hi.
      replace (N.eqb k (self cf)) with false in Hi by (symmetry; apply N.eqb_neq; exact Hk). cbn [orb] in Hi.
      destruct (role_admin (acs s) ro) as [ar|]; [|discriminate]. exists ar. auto.
    - (* revoke_role *)
      pose proof H as H0. apply revoke_role_spec in H0. destruct H0 as (s1 & a' & (pairs & Hsp & Hc) & Hi & Hg & -> & _).
      apply revoke_no_auth_frame in Hg. destruct Hg as (G1 & G2 & G3 & G4 & _).
      cbn [with_acs ctl acs]. rewrite (consumed_min _ _ _ _ _ Hc), G1, G2, G3.
      split; [intros [Hx|[Hx|[[Hx|Hx] _]]]; congruence|]. split; [|discriminate].
      intros ro0 Hx. left. exists a, k, au.
      assert (ro0 = ro) by (destruct (N.eq_dec ro0 ro) as [E|E]; [exact E|exfalso; apply Hx; apply G4; exact E]). subst ro0.
      split; [right; reflexivity|].
      destruct (N.eq_dec k (self cf)) as [->|Hk]; [left; split; [reflexivity|apply SC; reflexivity]|right].
      split; [exact Hk|]. unfold auth_spec in Hsp. replace (N.eqb k (self cf)) with false in Hsp by (symmetry; apply N.eqb_neq; exact Hk).
      destruct Hsp as [Hsp _]. split; [exact Hsp|].
      unfold is_admin_or_admin_role in Hi. rewrite Hadm in Hi.
      replace (N.eqb k (self cf)) with false in Hi by (symmetry; apply N.eqb_neq; exact Hk). cbn [orb] in Hi.
      destruct (role_admin (acs s) ro) as [ar|]; [|discriminate]. exists ar. auto.
    - (* renounce_role *)
      pose proof H as H0. apply renounce_role_spec in H0. destruct H0 as (s1 & a' & (pairs & Hsp & Hc) & Hg & -> & _).
      apply revoke_no_auth_frame in Hg. destruct Hg as (G1 & G2 & G3 & G4 & G5).
      cbn [with_acs ctl acs]. rewrite (consumed_min _ _ _ _ _ Hc), G1, G2, G3.
      split; [intros [Hx|[Hx|[[Hx|Hx] _]]]; congruence|]. split; [|discriminate].
      intros ro0 Hx. right. exists k, au.
      assert (ro0 = ro) by (destruct (N.eq_dec ro0 ro) as [E|E]; [exact E|exfalso; apply Hx; apply G4; exact E]). subst ro0.
      split; [reflexivity|]. split; [exact G5|]. split.
      + intros ->. apply SC. reflexivity.
      + intros Hk. unfold auth_spec in Hsp. replace (N.eqb k (self cf)) with false in Hsp by (symmetry; apply N.eqb_neq; exact Hk).
        apply Hsp.
    - (* set_role_admin *)
      split; [intros _; split; [exact I|apply SC; exact I]|].
      pose proof H as H0. apply set_role_admin_spec in H0. destruct H0 as (ad & s1 & _ & _ & -> & _).
      cbn [with_acs acs]. split; [intros ro0 Hx; exfalso; apply Hx; reflexivity|discriminate].
    - (* transfer_admin_role *)
      split; [intros _; split; [exact I|apply SC; exact I]|].
      pose proof H as H0. apply transfer_admin_spec in H0. destruct H0 as (ad & s1 & p & _ & _ & _ & -> & _).
      cbn [with_acs acs]. split; [intros ro0 Hx; exfalso; apply Hx; reflexivity|discriminate].
    - (* accept_admin_transfer *)
      pose proof H as H0. apply accept_admin_spec in H0. destruct H0 as (ad & pa & s1 & _ & Hp & (pairs & Hsp & Hc) & -> & _).
      cbn [with_acs ctl acs]. rewrite (consumed_min _ _ _ _ _ Hc).
      split; [intros [Hx|[Hx|[_ Hx]]]; [congruence|cbn in Hx; congruence|exfalso; apply (Hx au); reflexivity]|].
      split; [intros ro0 Hx; exfalso; apply Hx; reflexivity|].
      intros au0 Heq. injection Heq as <-. exists pa. split; [exact Hp|]. split; [reflexivity|].
      intros Hk. unfold auth_spec in Hsp. replace (N.eqb pa (self cf)) with false in Hsp by (symmetry; apply N.eqb_neq; exact Hk).
      apply Hsp.
    - (* renounce_admin *)
      split; [intros _; split; [exact I|apply SC; exact I]|].
      pose proof H as H0. apply renounce_admin_spec in H0. destruct H0 as (ad & s1 & _ & _ & _ & -> & _).
      cbn [with_acs acs]. split; [intros ro0 Hx; exfalso; apply Hx; reflexivity|discriminate].
    - (* __check_auth directly *)
      pose proof H as H0. apply check_auth_call_spec in H0. destruct H0 as (_ & Hc & _).
      rewrite (consumed_acs _ _ _ _ _ Hc), (consumed_min _ _ _ _ _ Hc).
      split; [intros [Hx|[Hx|[[Hx|Hx] _]]]; congruence|]. split; [intros ro Hx; congruence|discriminate].
    - (* advance *)
      pose proof H as H0. apply advance_spec in H0. destruct H0 as (_ & _ & -> & _).
      cbn [with_ctl ctl acs min_delay].
      split; [intros [Hx|[Hx|[[Hx|Hx] _]]]; congruence|]. split; [intros ro Hx; congruence|discriminate].
  Qed.

  (* ---------------- persistence: time alone changes nothing that is stored ---------------- *)
  Definition is_advance (c : call) : bool := match c with Advance _ => true | _ => false end.

  Theorem time_changes_nothing_stored : forall cs s,
    forallb is_advance cs = true ->
    let s' := run s cs in
    acs s' = acs s /\ marks (ctl s') = marks (ctl s) /\ min_delay (ctl s') = min_delay (ctl s) /\
    cruns s' = cruns s /\ now (ctl s) <= now (ctl s').
  Proof.
    induction cs as [|c cs IH]; intros s Hall; [cbn; repeat split; lia|].
    cbn [forallb] in Hall. apply andb_true_iff in Hall. destruct Hall as [Hc Hall].
    cbv zeta. unfold TimelockController.run. cbn [fold_left]. fold (run (fst (step s c)) cs).
    destruct (IH (fst (step s c)) Hall) as (I0 & I1 & I2 & I3 & I4).
    destruct c; try discriminate.
    assert (E : acs (fst (step s (Advance n))) = acs s /\ marks (ctl (fst (step s (Advance n)))) = marks (ctl s)
                /\ min_delay (ctl (fst (step s (Advance n)))) = min_delay (ctl s)
                /\ cruns (fst (step s (Advance n))) = cruns s /\ now (ctl s) <= now (ctl (fst (step s (Advance n))))).
    { unfold TimelockController.step. destruct (step_ok s (Advance n)) as [[s1 r]|] eqn:Es; cbn [fst].
      - apply advance_spec in Es. destruct Es as (Hn & _ & -> & _). cbn. repeat split; lia.
      - repeat split; lia. }
    destruct E as (E0 & E1 & E2 & E3 & E4). rewrite I0, I1, I2, I3. repeat split; auto; lia.
  Qed.

  (* ---------------- roles ---------------- *)
  Theorem roles : forall s s' r,
    (forall o d p au, step_ok s (ScheduleOp o d p au) = Ok (s', r) ->
       holds (acs s) p PROPOSER = true /\
       (p <> self cf -> has_auth (a_plain au) p = true) /\
       (p = self cf -> exists s1, auth_ok hash aid cf s (ScheduleOp o d p au) (self cf) s1)) /\
    (forall i k au, step_ok s (CancelOp i k au) = Ok (s', r) ->
       holds (acs s) k CANCELLER = true /\
       (k <> self cf -> has_auth (a_plain au) k = true) /\
       (k = self cf -> exists s1, auth_ok hash aid cf s (CancelOp i k au) (self cf) s1)) /\
    (forall o x tgt au, step_ok s (ExecuteOp o x tgt au) = Ok (s', r) ->
       role_count (acs s) EXECUTOR <> 0 ->
       exists e, x = Some e /\ holds (acs s) e EXECUTOR = true /\
         (e <> self cf -> has_auth (a_plain au) e = true) /\
         (e = self cf -> exists s1, auth_ok hash aid cf s (ExecuteOp o x tgt au) (self cf) s1)).
  Proof.
    intros s s' r. split; [|split].
    - intros o d p au H. apply schedule_op_spec in H. destruct H as (Hh & s1 & t & Hau & _).
      split; [exact Hh|]. split.
      + intros Hp. destruct Hau as (pairs & Hsp & _). unfold auth_spec in Hsp.
        replace (N.eqb p (self cf)) with false in Hsp by (symmetry; apply N.eqb_neq; exact Hp). apply Hsp.
      + intros ->. exists s1. exact Hau.
    - intros i k au H. apply cancel_op_spec in H. destruct H as (Hh & s1 & t & Hau & _).
      split; [exact Hh|]. split.
      + intros Hp. destruct Hau as (pairs & Hsp & _). unfold auth_spec in Hsp.
        replace (N.eqb k (self cf)) with false in Hsp by (symmetry; apply N.eqb_neq; exact Hp). apply Hsp.
      + intros ->. exists s1. exact Hau.
    - intros o x tgt au H Hne. apply execute_op_spec in H. destruct H as (s1 & t & Hau & _).
      destruct Hau as [[H0 _]|(_ & e & -> & Hh & Hau)]; [contradiction|].
      exists e. split; [reflexivity|]. split; [exact Hh|]. split.
      + intros Hp. destruct Hau as (pairs & Hsp & _). unfold auth_spec in Hsp.
        replace (N.eqb e (self cf)) with false in Hsp by (symmetry; apply N.eqb_neq; exact Hp). apply Hsp.
      + intros ->. exists s1. exact Hau.
  Qed.

  (* ---------------- the timelock-level run log of the controller ---------------- *)
  Definition cevents (s : state) (c : call) : list hev :=
    match step_ok s c with
    | Ok (s', _) =>
        match pairs_of (admin (acs s)) (role_count (acs s) EXECUTOR) (admin (acs s')) c with
        | Some pairs => map (fun tc => HE tc (now (ctl s)) (min_delay (ctl s)) true) (tl_calls c pairs)
        | None => []
        end
    | Fail => []
    end.
  Fixpoint chist (s : state) (cs : list call) : list hev :=
    match cs with
    | [] => []
    | c :: r => cevents s c ++ chist (fst (step s c)) r
    end.

  Lemma gfeed_gfold g now mind tcs :
    gfeed hash g now mind tcs = gfold hash g (map (fun tc => HE tc now mind true) tcs).
  Proof.
    revert g. induction tcs as [|c tcs IH]; intros g; cbn [map TimelockGhost.gfeed TimelockGhost.gfold he_now he_min he_call he_ok]; [reflexivity|].
    destruct (gstep hash g now mind c true); auto.
  Qed.

  Lemma step_unfold s c : step s c = match step_ok s c with Ok (s', r) => (s', Ok r) | Fail => (s, Fail) end.
  Proof. reflexivity. Qed.

  Lemma crun_ghost cs : forall s g,
    ginv (ctl s) g -> exists g', gfold hash g (chist s cs) = Some g' /\ ginv (ctl (run s cs)) g'.
  Proof.
    induction cs as [|c cs IH]; intros s g Hg.
    - exists g. split; [reflexivity|exact Hg].
    - cbn [chist]. unfold TimelockController.run. cbn [fold_left]. fold (run (fst (step s c)) cs).
      rewrite gfold_app. unfold cevents. rewrite step_unfold.
      destruct (step_ok s c) as [[s' r]|] eqn:E; cbn [fst].
      + destruct (cstep_ghost hash aid cf _ _ _ _ _ Hg E) as (pairs & g1 & Hp & Hf & Hg1).
        rewrite Hp, <- gfeed_gfold, Hf. apply IH. exact Hg1.
      + cbn [TimelockGhost.gfold]. apply IH. exact Hg.
  Qed.

  Lemma cstep_now_mono s c : now (ctl s) <= now (ctl (fst (step s c))).
  Proof.
    rewrite step_unfold. destruct (step_ok s c) as [[s' r]|] eqn:E; cbn [fst]; [|lia].
    destruct (step_spec hash aid cf _ _ _ _ E) as (pairs & s1 & _ & (_ & _ & _ & He) & Ho).
    destruct (exec_all_spec hash _ _ _ He) as (Hn & _).
    destruct c; cbn [own_effect] in Ho.
    - destruct Ho as (_ & t & Hs & -> & _). apply schedule_ok in Hs. destruct Hs as (_ & _ & m & _ & _ & -> & _). cbn. lia.
    - destruct Ho as (_ & t & Hs & _ & _ & -> & _). apply set_execute_ok in Hs. destruct Hs as (_ & _ & ->). cbn. lia.
    - destruct Ho as (_ & t & Hs & -> & _). apply cancel_ok in Hs. destruct Hs as (_ & ->). cbn. lia.
    - destruct Ho as (_ & -> & _). cbn. lia.
    - destruct Ho as (_ & a' & _ & -> & _). cbn. lia.
    - destruct Ho as (_ & a' & _ & -> & _). cbn. lia.
    - destruct Ho as (a' & _ & -> & _). cbn. lia.
    - destruct Ho as (-> & _). cbn. lia.
    - destruct Ho as (p & _ & -> & _). cbn. lia.
    - destruct Ho as (pa & _ & -> & _). cbn. lia.
    - destruct Ho as (_ & -> & _). cbn. lia.
    - destruct Ho as (-> & _). lia.
    - destruct Ho as (? & _ & -> & _). cbn. lia.
  Qed.

  Lemma chist_now_ge cs : forall s lo, lo <= now (ctl s) -> forall x, In x (chist s cs) -> lo <= he_now x.
  Proof.
    induction cs as [|c cs IH]; intros s lo Hs x; cbn [chist In]; [tauto|].
    intros Hx. apply in_app_or in Hx. destruct Hx as [Hx|Hx].
    - unfold cevents in Hx. destruct (step_ok s c) as [[s' r]|]; [|contradiction].
      destruct (pairs_of _ _ _ c); [|contradiction].
      apply in_map_iff in Hx. destruct Hx as (tc & <- & _). exact Hs.
    - eapply IH; [|exact Hx]. pose proof (cstep_now_mono s c). lia.
  Qed.

  Lemma construct_ginv n0 md props execs adm s0 :
    2 <= n0 <= MAXU32 -> construct cf n0 md props execs adm = Ok s0 -> ginv (ctl s0) [].
  Proof.
    intros Hn H. unfold construct in H.
    destruct (grant_all cf _ props _) as [a1|]; cbn [bind] in H; [|discriminate].
    destruct (grant_all cf a1 execs _) as [a2|]; cbn [bind] in H; [|discriminate].
    unfold set_min_delay in H. destruct (in_u32 md); cbn [guard bind] in H; [|discriminate].
    inversion H; subst. cbn [ctl]. split; [exact Hn|]. intros i. reflexivity.
  Qed.

  (* every Schedule event of the log is a successful schedule_op call by a proposer *)
  Lemma schedule_event_origin cs : forall s o d at_ m,
    In (HE (Schedule o d) at_ (Some m) true) (chist s cs) ->
    exists pre p au rest,
      cs = pre ++ ScheduleOp o d p au :: rest /\
      let s1 := run s pre in
      snd (step s1 (ScheduleOp o d p au)) <> Fail /\ holds (acs s1) p PROPOSER = true /\
      now (ctl s1) = at_ /\ min_delay (ctl s1) = Some m /\
      (p <> self cf -> has_auth (a_plain au) p = true).
  Proof.
    induction cs as [|c cs IH]; intros s o d at_ m Hin; cbn [chist] in Hin; [contradiction|].
    apply in_app_or in Hin. destruct Hin as [Hin|Hin].
    - unfold cevents in Hin. destruct (step_ok s c) as [[s' r]|] eqn:E; [|contradiction].
      destruct (pairs_of _ _ _ c) as [pairs|]; [|contradiction].
      apply in_map_iff in Hin. destruct Hin as (tc & Htc & Hin). injection Htc as -> <- Hm.
      unfold TimelockController.tl_calls in Hin. apply in_app_or in Hin. destruct Hin as [Hin|Hin].
      { apply in_map_iff in Hin. destruct Hin as (o2 & Ho2 & _). discriminate. }
      destruct c as [o' d' p au|? ? ? ?|? ? ?|? ?|? ? ? ?|? ? ? ?|? ? ?|? ? ?|? ? ?|?|?|? ? ?|?];
        cbn [own_event In] in Hin; try (destruct Hin as [Hin|[]]; discriminate); try contradiction.
      destruct Hin as [Hin|[]]. injection Hin as -> ->.
      exists [], p, au, cs. split; [reflexivity|]. cbv zeta. cbn [TimelockController.run fold_left].
      pose proof E as E2. apply schedule_op_spec in E2. destruct E2 as (Hh & s1 & t & (prs & Hsp & _) & _).
      split; [rewrite step_unfold, E; discriminate|]. split; [exact Hh|]. split; [reflexivity|]. split; [auto|].
      intros Hp. unfold auth_spec in Hsp. replace (N.eqb p (self cf)) with false in Hsp by (symmetry; apply N.eqb_neq; exact Hp).
      apply Hsp.
    - destruct (IH _ _ _ _ _ Hin) as (pre & p & au & rest & -> & Hrest).
      exists (c :: pre), p, au, rest. split; [reflexivity|]. exact Hrest.
  Qed.

  (* Every operation that is pending (Waiting or Ready) in a reachable state was scheduled by an
     account holding the proposer role, with that account's authorisation, with a delay no smaller
     than the minimum delay then in force; nothing succeeded on its id since; if it is Ready, the
     delay has fully elapsed. *)
  Theorem pending_op_was_scheduled_by_proposer : forall n0 md props execs adm s0 cs i,
    2 <= n0 <= MAXU32 -> construct cf n0 md props execs adm = Ok s0 ->
    let s := run s0 cs in
    state_of (ctl s) i = Waiting \/ state_of (ctl s) i = Ready ->
    exists Ha o d m at_ Hb pre p au rest,
      chist s0 cs = Ha ++ HE (Schedule o d) at_ (Some m) true :: Hb /\ hash o = i /\ m <= d /\
      (forall x, In x Hb -> subject hash (he_call x) = Some i -> he_ok x = false) /\
      cs = pre ++ ScheduleOp o d p au :: rest /\
      snd (step (run s0 pre) (ScheduleOp o d p au)) <> Fail /\
      holds (acs (run s0 pre)) p PROPOSER = true /\
      (p <> self cf -> has_auth (a_plain au) p = true) /\
      now (ctl (run s0 pre)) = at_ /\ min_delay (ctl (run s0 pre)) = Some m /\
      (state_of (ctl s) i = Ready -> Z.min (at_ + d) MAXU32 <= now (ctl s)).
  Proof.
    intros n0 md props execs adm s0 cs i Hn Hc s Hst.
    destruct (crun_ghost cs s0 [] (construct_ginv _ _ _ _ _ _ Hn Hc)) as (g & Hf & Hg).
    fold s in Hg.
    assert (H01 : mark (ctl s) i <> 0 /\ mark (ctl s) i <> 1).
    { destruct Hst as [Hs|Hs]; [apply state_waiting_iff in Hs|apply state_ready_iff in Hs]; tauto. }
    destruct Hg as [Hnow Hent].
    destruct (entry_mark_pending _ _ _ (Hent i) (proj1 H01) (proj2 H01)) as (a & d & m & He & Hmk & Ha & Hmd & Hd).
    destruct (gfold_pending hash _ [] g i a d m Hf He)
      as [[Habs _]|(HA & o & HB & Hsplit & Ho & (Hmd' & Hd') & Hno & _)]; [discriminate|].
    assert (Hin : In (HE (Schedule o d) a (Some m) true) (chist s0 cs)).
    { rewrite Hsplit. apply in_or_app. right. left. reflexivity. }
    destruct (schedule_event_origin cs s0 o d a m Hin) as (pre & p & au & rest & Hcs & Hok & Hh & Hn1 & Hm1 & Hau).
    exists HA, o, d, m, a, HB, pre, p, au, rest. repeat (split; [assumption|]).
    intros Hr. apply state_ready_iff in Hr. rewrite <- sat_add_u32_spec by lia. lia.
  Qed.
  (* ---------------- end to end: effect => scheduled by a signing proposer, elapsed, consumed ---------------- *)
  Theorem self_admin_call_was_scheduled : forall n0 md props execs adm s0 cs c s' r,
    2 <= n0 <= MAXU32 -> construct cf n0 md props execs adm = Ok s0 ->
    let s := run s0 cs in
    step_ok s c = Ok (s', r) -> admin (acs s) = Some (self cf) -> self_admin_call c ->
    consumes s c s' /\
    exists se m rest0,
      a_self (authz_of c) = Some se /\ se_metas se = m :: rest0 /\
      let o := Op (self cf) (fn_of c) (aid (argv_of c)) (m_pred m) (m_salt m) in
      state_of (ctl s) (hash o) = Ready /\ state_of (ctl s') (hash o) = Done /\
      exists Ha o' d mm at_ Hb pre p au rest,
        chist s0 cs = Ha ++ HE (Schedule o' d) at_ (Some mm) true :: Hb /\ hash o' = hash o /\
        ((forall a b, hash a = hash b -> a = b) -> o' = o) /\ mm <= d /\
        (forall x, In x Hb -> subject hash (he_call x) = Some (hash o) -> he_ok x = false) /\
        cs = pre ++ ScheduleOp o' d p au :: rest /\
        snd (step (run s0 pre) (ScheduleOp o' d p au)) <> Fail /\
        holds (acs (run s0 pre)) p PROPOSER = true /\
        (p <> self cf -> has_auth (a_plain au) p = true) /\
        now (ctl (run s0 pre)) = at_ /\ min_delay (ctl (run s0 pre)) = Some mm /\
        Z.min (at_ + d) MAXU32 <= now (ctl s).
  Proof.
    intros n0 md props execs adm s0 cs c s' r Hn Hc s H Hadm Hself.
    pose proof (self_admin_call_consumes s c s' r H Hadm Hself) as Hcons. split; [exact Hcons|].
    destruct Hcons as (se & m & rest0 & H1 & H2 & H3 & H4 & H5). cbv zeta in H5. destruct H5 as (Hrd & Hdn & _).
    exists se, m, rest0. split; [exact H1|]. split; [exact H3|]. cbv zeta. split; [exact Hrd|]. split; [exact Hdn|].
    destruct (pending_op_was_scheduled_by_proposer n0 md props execs adm s0 cs _ Hn Hc (or_intror Hrd))
      as (Ha & o' & d & mm & at_ & Hb & pre & p & au & rest & E1 & E2 & E3 & E4 & E5 & E6 & E7 & E8 & E9 & E10 & E11).
    exists Ha, o', d, mm, at_, Hb, pre, p, au, rest.
    split; [exact E1|]. split; [exact E2|]. split; [intros Hinj; apply Hinj; exact E2|]. split; [exact E3|]. split; [exact E4|].
    split; [exact E5|]. split; [exact E6|]. split; [exact E7|]. split; [exact E8|]. split; [exact E9|]. split; [exact E10|].
    apply E11. exact Hrd.
  Qed.

  (* ---------------- the admin offer that accept_admin_transfer completes was made by transfer_admin_role ---------------- *)
  Lemma tset_tval {V} c nw (p : option (tentry V)) v : exists en, tset c nw p v = Some en /\ tval en = v.
  Proof. unfold tset. destruct (tlive_at nw p); eexists; split; reflexivity. Qed.
  Lemma textend_tval {V} c nw (en : tentry V) thr ext e :
    textend c nw (Some en) thr ext = Ok (Some e) -> tval e = tval en.
  Proof.
    unfold textend. destruct (ext <? thr); [discriminate|].
    destruct (tlive_at nw (Some en)) as [en'|] eqn:E; [|discriminate].
    unfold tlive_at in E. destruct (tlive en <? nw); [discriminate|]. inversion E; subst en'.
    destruct (max_ttl c - 1 <? ext); [discriminate|].
    destruct ((tlive en - nw <=? thr) && (tlive en <? nw + ext)); intros H; inversion H; reflexivity.
  Qed.
  Lemma transfer_role_tval hc nw p new lu e : transfer_role hc nw p new lu = Ok (Some e) -> tval e = new.
  Proof.
    unfold transfer_role. destruct (lu =? 0).
    - destruct (tget nw p) as [pa|]; [|discriminate]. destruct (N.eqb pa new); discriminate.
    - destruct (_ || _); [discriminate|].
      destruct (tset_tval hc nw p new) as (en & -> & Hv). intros H. apply textend_tval in H. congruence.
  Qed.

  Lemma pending_step s c s' r :
    step_ok s c = Ok (s', r) ->
    (exists new lu au p, c = TransferAdmin new lu au /\
        transfer_role (hcfg cf) (now (ctl s)) (pending (acs s)) new lu = Ok p /\ pending (acs s') = p)
    \/ (exists au, c = AcceptAdmin au /\ pending (acs s') = None)
    \/ pending (acs s') = pending (acs s).
  Proof.
    intros H. destruct (step_spec hash aid cf _ _ _ _ H) as (pairs & s1 & _ & (Ha & _) & Ho).
    destruct c as [o d p au|o x tgt au|j k au|d au|a ro k au|a ro k au|ro k au|ro ar au|new lu au|au|au|metas ctxs xa|n];
      cbn [own_effect] in Ho.
    - right. right. destruct Ho as (_ & t & _ & -> & _). cbn. rewrite Ha. reflexivity.
    - right. right. destruct Ho as (_ & t & _ & _ & _ & -> & _). cbn. rewrite Ha. reflexivity.
    - right. right. destruct Ho as (_ & t & _ & -> & _). cbn. rewrite Ha. reflexivity.
    - right. right. destruct Ho as (_ & -> & _). cbn. rewrite Ha. reflexivity.
    - right. right. destruct Ho as (_ & a' & Hg & -> & _). apply grant_no_auth_frame in Hg. cbn. apply Hg.
    - right. right. destruct Ho as (_ & a' & Hg & -> & _). apply revoke_no_auth_frame in Hg. cbn. apply Hg.
    - right. right. destruct Ho as (a' & Hg & -> & _). apply revoke_no_auth_frame in Hg. cbn. apply Hg.
    - right. right. destruct Ho as (-> & _). reflexivity.
    - left. destruct Ho as (p & Ht & -> & _). exists new, lu, au, p. auto.
    - right. left. destruct Ho as (pa & _ & -> & _). exists au. auto.
    - right. right. destruct Ho as (_ & -> & _). reflexivity.
    - right. right. destruct Ho as (-> & _). rewrite Ha. reflexivity.
    - right. right. destruct Ho as (_ & _ & -> & _). cbn. rewrite Ha. reflexivity.
  Qed.

  Lemma pending_origin cs : forall s e,
    pending (acs (run s cs)) = Some e ->
    (exists e0, pending (acs s) = Some e0 /\ tval e0 = tval e) \/
    exists pre lu au rest, cs = pre ++ TransferAdmin (tval e) lu au :: rest /\
                           snd (step (run s pre) (TransferAdmin (tval e) lu au)) <> Fail.
  Proof.
    induction cs as [|c cs IH]; intros s e He.
    - left. exists e. auto.
    - unfold TimelockController.run in He. cbn [fold_left] in He. fold (run (fst (step s c)) cs) in He.
      destruct (IH _ _ He) as [(e0 & Hp & Ht)|(pre & lu & au & rest & -> & Hok)].
      + rewrite step_unfold in Hp. destruct (step_ok s c) as [[s1 r]|] eqn:E; cbn [fst] in Hp.
        * destruct (pending_step _ _ _ _ E) as [(new & lu & au & p & -> & Htr & Hps)|[(au & -> & Hps)|Hps]].
          -- right. rewrite Hps in Hp. subst p. apply transfer_role_tval in Htr. rewrite Ht in Htr. subst new.
             exists [], lu, au, cs. split; [reflexivity|]. cbn [TimelockController.run fold_left]. rewrite step_unfold, E. discriminate.
          -- rewrite Hps in Hp. discriminate.
          -- left. exists e0. rewrite <- Hps. auto.
        * left. exists e0. auto.
      + right. exists (c :: pre), lu, au, rest. split; [reflexivity|]. exact Hok.
  Qed.

  Theorem accepted_admin_was_offered : forall n0 md props execs adm s0 cs au s' r,
    construct cf n0 md props execs adm = Ok s0 ->
    let s := run s0 cs in
    step_ok s (AcceptAdmin au) = Ok (s', r) ->
    exists pa pre lu au' rest,
      admin (acs s') = Some pa /\ (pa <> self cf -> has_auth (a_plain au) pa = true) /\
      cs = pre ++ TransferAdmin pa lu au' :: rest /\
      snd (step (run s0 pre) (TransferAdmin pa lu au')) <> Fail /\
      (admin (acs (run s0 pre)) = Some (self cf) ->
       consumes (run s0 pre) (TransferAdmin pa lu au') (fst (step (run s0 pre) (TransferAdmin pa lu au')))).
  Proof.
    intros n0 md props execs adm s0 cs au s' r Hc s H.
    pose proof H as H0. apply accept_admin_spec in H0. destruct H0 as (ad & pa & s1 & _ & Hp & (pairs & Hsp & _) & -> & _).
    unfold tget in Hp. destruct (tlive_at (now (ctl s)) (pending (acs s))) as [en|] eqn:El; [|discriminate].
    injection Hp as Hp. unfold tlive_at in El. destruct (pending (acs s)) as [e|] eqn:Ep; [|discriminate].
    destruct (tlive e <? now (ctl s)); [discriminate|]. injection El as <-.
    destruct (pending_origin cs s0 e Ep) as [(e0 & Hp0 & _)|(pre & lu & au' & rest & Hcs & Hok)].
    - exfalso. unfold construct in Hc.
      destruct (grant_all cf _ props _) as [a1|] eqn:E1; cbn [bind] in Hc; [|discriminate].
      destruct (grant_all cf a1 execs _) as [a2|] eqn:E2; cbn [bind] in Hc; [|discriminate].
      destruct (set_min_delay _ _); cbn [bind] in Hc; [|discriminate]. inversion Hc; subst s0. cbn [acs] in Hp0.
      assert (G : forall l rs q q', grant_all cf q l rs = Ok q' -> pending q' = pending q).
      { induction l as [|x l IHl]; intros rs q q' Hg; cbn [grant_all] in Hg; [inversion Hg; reflexivity|].
        match type of Hg with context [bind ?e _] => destruct e as [q3|] eqn:E3 end; cbn [bind] in Hg; [|discriminate].
        rewrite (IHl _ _ _ Hg). clear Hg IHl. revert q q3 E3. induction rs as [|r0 rs IHr]; intros q q3 E3; [inversion E3; reflexivity|].
        destruct (grant_no_auth (max_roles cf) q x r0) as [q4|] eqn:G4; cbn [bind] in E3; [|discriminate].
        rewrite (IHr _ _ E3). apply grant_no_auth_frame in G4. apply G4. }
      rewrite (G _ _ _ _ E2), (G _ _ _ _ E1) in Hp0. discriminate.
    - rewrite Hp in *. exists pa, pre, lu, au', rest. cbn [with_acs acs admin]. split; [reflexivity|]. split.
      + intros Hk. unfold auth_spec in Hsp. replace (N.eqb pa (self cf)) with false in Hsp by (symmetry; apply N.eqb_neq; exact Hk).
        apply Hsp.
      + split; [exact Hcs|]. split; [exact Hok|]. intros Hadm.
        rewrite step_unfold in Hok |- *. destruct (step_ok (run s0 pre) (TransferAdmin pa lu au')) as [[s2 r2]|] eqn:E2; [|contradiction].
        cbn [fst]. apply (self_admin_call_consumes _ _ _ _ E2 Hadm). exact I.
  Qed.
End WithHash.

(* ---------------- the defect before fix fd487bd ---------------- *)
Definition ex_cf : cfg := {| self := 1%N; hcfg := default_cfg 5000; max_roles := 256 |}.
Definition ex_aid (v : argv) : N := match v with AV_u32 d => Z.to_N d | _ => 77%N end.
Definition ex_state : state :=
  match construct ex_cf 100 10 [2%N] [4%N] None with Ok s => s | Fail => {| ctl := init_tl 0; acs := {| admin := None; pending := None; members := []; radmin := []; existing := [] |}; cruns := [] |} end.

Theorem prefix_refuted :
  (* nothing is scheduled, executors are configured, admin = the controller itself *)
  marks (ctl ex_state) = [] /\ admin (acs ex_state) = Some (self ex_cf) /\ role_count (acs ex_state) EXECUTOR = 1 /\
  (* the pre-fix __check_auth accepts the context of update_delay(0) with an empty descriptor list *)
  check_auth_prefix hash_pair ex_cf true ex_state [] [CtxC 1 F_update_delay 0] [] = Ok ex_state /\
  (* so update_delay(0) goes through end to end with nothing consumed ... *)
  (exists s', check_auth_prefix hash_pair ex_cf true ex_state [] [CtxC 1 F_update_delay 0] [] = Ok s' /\ marks (ctl s') = []) /\
  (* ... while the fixed __check_auth and the fixed end-to-end call refuse it *)
  check_auth hash_pair ex_cf true ex_state [] [CtxC 1 F_update_delay 0] [] = Fail /\
  step_ok hash_pair ex_aid ex_cf ex_state
    (UpdateDelay 0 (AZ [] (Some (SE (CtxC 1 F_update_delay 0) [] [])) [])) = Fail.
Proof. vm_compute. repeat split. exists ex_state. vm_compute. split; reflexivity. Qed.
