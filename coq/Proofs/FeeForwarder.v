(* C19: lemmas about the fee-forwarder model (values, authorisation manager, fee token). *)
From SC Require Import Lib.Prelude Lib.Int Lib.Host Model.FeeForwarder.

(* ------------------------------------------------------------------------- *)
(* boolean equalities                                                         *)
(* ------------------------------------------------------------------------- *)
Lemma atom_eqb_eq x y : atom_eqb x y = true <-> x = y.
Proof.
  destruct x, y; cbn; split; intros H; try discriminate; try congruence.
  - apply N.eqb_eq in H. congruence.
  - inversion H. apply N.eqb_refl.
  - apply Z.eqb_eq in H. congruence.
  - inversion H. apply Z.eqb_refl.
Qed.

Lemma list_eqb_eq {A} (eqb : A -> A -> bool) :
  (forall x y, eqb x y = true <-> x = y) -> forall l m, list_eqb eqb l m = true <-> l = m.
Proof.
  intros E. induction l as [|x l IH]; destruct m as [|y m]; cbn; split; intros H; try discriminate; auto.
  - apply andb_true_iff in H. destruct H as [H1 H2]. apply E in H1. apply IH in H2. congruence.
  - inversion H; subst. apply andb_true_iff. split; [apply E; reflexivity | apply IH; reflexivity].
Qed.

Lemma list_eqb_refl {A} (eqb : A -> A -> bool) :
  (forall x, eqb x x = true) -> forall l, list_eqb eqb l l = true.
Proof. intros E. induction l; cbn; auto. rewrite E, IHl. reflexivity. Qed.

Lemma val_eqb_eq x y : val_eqb x y = true <-> x = y.
Proof.
  destruct x, y; cbn; split; intros H; try discriminate; try congruence.
  - apply N.eqb_eq in H. congruence.
  - inversion H. apply N.eqb_refl.
  - apply Z.eqb_eq in H. congruence.
  - inversion H. apply Z.eqb_refl.
  - apply N.eqb_eq in H. congruence.
  - inversion H. apply N.eqb_refl.
  - apply (list_eqb_eq atom_eqb atom_eqb_eq) in H. congruence.
  - inversion H. apply (list_eqb_eq atom_eqb atom_eqb_eq). reflexivity.
Qed.

Lemma func_eqb_eq f g : func_eqb f g = true <-> f = g.
Proof.
  unfold func_eqb. destruct f as [c1 n1 a1], g as [c2 n2 a2]; cbn. split; intros H.
  - apply andb_true_iff in H. destruct H as [H H3]. apply andb_true_iff in H. destruct H as [H1 H2].
    apply N.eqb_eq in H1. apply N.eqb_eq in H2. apply (list_eqb_eq val_eqb val_eqb_eq) in H3. congruence.
  - inversion H; subst. rewrite !N.eqb_refl. cbn. apply (list_eqb_eq val_eqb val_eqb_eq). reflexivity.
Qed.

Lemma memb_In a l : memb a l = true <-> In a l.
Proof.
  unfold memb. rewrite existsb_exists. split.
  - intros [x [Hi He]]. apply N.eqb_eq in He. subst. exact Hi.
  - intros Hi. exists a. split; [exact Hi | apply N.eqb_refl].
Qed.

(* ------------------------------------------------------------------------- *)
(* authorisation manager                                                      *)
(* ------------------------------------------------------------------------- *)
Notation entries ts := (map tk_entry ts) (only parsing).

Lemma entries_init au : entries (map init_tracker au) = au.
Proof. rewrite map_map. cbn. apply map_id. Qed.

Lemma try_tracker_entry inner allow f t t' :
  try_tracker inner allow f t = Some t' -> tk_entry t' = tk_entry t.
Proof.
  unfold try_tracker. intros H.
  destruct (cur_matched inner t); [discriminate|].
  destruct (inner && tk_m0 t).
  - destruct (match_sub f (en_subs (tk_entry t)) (tk_sub_ex t)); inversion H; reflexivity.
  - destruct (negb (tk_root_ex t) && allow && func_eqb (en_root (tk_entry t)) f); inversion H; reflexivity.
Qed.

Lemma req_loop_entries inner allow who f ts ts' :
  req_loop inner allow who f ts = Some ts' -> entries ts' = entries ts.
Proof.
  revert ts'. induction ts as [|t r IH]; cbn; intros ts' H; [discriminate|].
  destruct (N.eqb (tk_who t) who).
  - destruct (try_tracker inner allow f t) eqn:E.
    + inversion H; subst. cbn. rewrite (try_tracker_entry _ _ _ _ _ E). reflexivity.
    + destruct (req_loop inner allow who f r); inversion H; subst. cbn. rewrite (IH _ eq_refl). reflexivity.
  - destruct (req_loop inner allow who f r); inversion H; subst. cbn. rewrite (IH _ eq_refl). reflexivity.
Qed.

Lemma require_auth_entries inner inv who f ts ts' :
  require_auth inner inv who f ts = Ok ts' -> entries ts' = entries ts.
Proof.
  unfold require_auth. destruct (inner && _).
  - intros H; inversion H; reflexivity.
  - destruct (req_loop _ _ _ _ _) eqn:E; cbn; intros H; inversion H; subst.
    eapply req_loop_entries; eauto.
Qed.

Lemma push_frame_entries ts : entries (push_frame ts) = entries ts.
Proof. unfold push_frame. rewrite map_map. reflexivity. Qed.
Lemma pop_frame_entries ts : entries (pop_frame ts) = entries ts.
Proof. unfold pop_frame. rewrite map_map. reflexivity. Qed.

Lemma match_sub_some f subs ex ex' :
  match_sub f subs ex = Some ex' -> existsb (fun s => func_eqb s f) subs = true.
Proof.
  revert ex ex'. induction subs as [|s subs IH]; intros [|x ex] ex' H; cbn in H; try discriminate.
  cbn. destruct (negb x && func_eqb s f) eqn:E.
  - apply andb_true_iff in E. destruct E as [_ E]. rewrite E. reflexivity.
  - destruct (match_sub f subs ex) eqn:E2; [|discriminate].
    rewrite (IH _ _ E2). apply orb_true_r.
Qed.

(* what a successful match says about the tracker's entry *)
Definition covers (e : entry) (who : addr) (f : func) : bool :=
  N.eqb (en_who e) who && (func_eqb (en_root e) f || existsb (fun s => func_eqb s f) (en_subs e)).
Definition covers_root (e : entry) (who : addr) (f : func) : bool :=
  N.eqb (en_who e) who && func_eqb (en_root e) f.

Lemma try_tracker_outer allow f t t' :
  try_tracker false allow f t = Some t' -> func_eqb (en_root (tk_entry t)) f = true.
Proof.
  unfold try_tracker. cbn [cur_matched andb]. intros H.
  destruct (tk_m0 t); [discriminate|].
  destruct (negb (tk_root_ex t) && allow && func_eqb (en_root (tk_entry t)) f) eqn:E; [|discriminate].
  apply andb_true_iff in E. tauto.
Qed.

Lemma try_tracker_inner allow f t t' :
  try_tracker true allow f t = Some t' ->
  func_eqb (en_root (tk_entry t)) f || existsb (fun s => func_eqb s f) (en_subs (tk_entry t)) = true.
Proof.
  unfold try_tracker. cbn [cur_matched andb]. intros H.
  destruct (tk_m1 t); [discriminate|].
  destruct (tk_m0 t).
  - destruct (match_sub f (en_subs (tk_entry t)) (tk_sub_ex t)) eqn:E; [|discriminate].
    rewrite (match_sub_some _ _ _ _ E). apply orb_true_r.
  - destruct (negb (tk_root_ex t) && allow && func_eqb (en_root (tk_entry t)) f) eqn:E; [|discriminate].
    apply andb_true_iff in E. destruct E as [_ E]. rewrite E. reflexivity.
Qed.

Lemma req_loop_outer allow who f ts ts' :
  req_loop false allow who f ts = Some ts' ->
  existsb (fun e => covers_root e who f) (entries ts) = true.
Proof.
  revert ts'. induction ts as [|t r IH]; cbn; intros ts' H; [discriminate|].
  unfold covers_root at 1. fold (tk_who t).
  destruct (N.eqb (tk_who t) who) eqn:Ew; cbn [andb].
  - destruct (try_tracker false allow f t) eqn:E.
    + rewrite (try_tracker_outer _ _ _ _ E). reflexivity.
    + destruct (req_loop false allow who f r) eqn:E2; [|discriminate].
      rewrite (IH _ eq_refl). apply orb_true_r.
  - destruct (req_loop false allow who f r) eqn:E2; [|discriminate].
    rewrite (IH _ eq_refl). reflexivity.
Qed.

Lemma req_loop_inner allow who f ts ts' :
  req_loop true allow who f ts = Some ts' ->
  existsb (fun e => covers e who f) (entries ts) = true.
Proof.
  revert ts'. induction ts as [|t r IH]; cbn; intros ts' H; [discriminate|].
  unfold covers at 1. fold (tk_who t).
  destruct (N.eqb (tk_who t) who) eqn:Ew; cbn [andb].
  - destruct (try_tracker true allow f t) eqn:E.
    + rewrite (try_tracker_inner _ _ _ _ E). reflexivity.
    + destruct (req_loop true allow who f r) eqn:E2; [|discriminate].
      rewrite (IH _ eq_refl). apply orb_true_r.
  - destruct (req_loop true allow who f r) eqn:E2; [|discriminate].
    rewrite (IH _ eq_refl). reflexivity.
Qed.

(* a require_auth in the outer frame can only be satisfied by the ROOT of an entry *)
Lemma require_auth_outer who f ts ts' :
  require_auth false None who f ts = Ok ts' ->
  existsb (fun e => covers_root e who f) (entries ts) = true.
Proof.
  unfold require_auth. cbn [andb]. destruct (req_loop _ _ _ _ _) eqn:E; cbn; intros H; [|discriminate].
  eapply req_loop_outer; eauto.
Qed.

(* in an inner frame: the direct invoker, or an entry covering the function *)
Lemma require_auth_inner F who f ts ts' :
  require_auth true (Some F) who f ts = Ok ts' ->
  F = who \/ existsb (fun e => covers e who f) (entries ts) = true.
Proof.
  unfold require_auth. cbn [andb]. destruct (N.eqb F who) eqn:E.
  - left. apply N.eqb_eq. exact E.
  - destruct (req_loop _ _ _ _ _) eqn:E2; cbn; intros H; [|discriminate].
    right. eapply req_loop_inner; eauto.
Qed.

(* leaf frames at depth 2 *)
Lemma try_tracker2_covers allow f t t' :
  try_tracker2 allow f t = Some t' ->
  func_eqb (en_root (tk_entry t)) f || existsb (fun s => func_eqb s f) (en_subs (tk_entry t)) = true.
Proof.
  unfold try_tracker2. intros H.
  destruct (tk_m0 t && tk_m1 t); [discriminate|].
  destruct (tk_m0 t || tk_m1 t).
  - destruct (match_sub f (en_subs (tk_entry t)) (tk_sub_ex t)) eqn:E; [|discriminate].
    rewrite (match_sub_some _ _ _ _ E). apply orb_true_r.
  - destruct (negb (tk_root_ex t) && allow && func_eqb (en_root (tk_entry t)) f) eqn:E; [|discriminate].
    apply andb_true_iff in E. destruct E as [_ E]. rewrite E. reflexivity.
Qed.

Lemma req_loop2_covers allow who f ts ts' :
  req_loop2 allow who f ts = Some ts' ->
  existsb (fun e => covers e who f) (entries ts) = true.
Proof.
  revert ts'. induction ts as [|t r IH]; cbn; intros ts' H; [discriminate|].
  unfold covers at 1. fold (tk_who t).
  destruct (N.eqb (tk_who t) who) eqn:Ew; cbn [andb].
  - destruct (try_tracker2 allow f t) eqn:E.
    + rewrite (try_tracker2_covers _ _ _ _ E). reflexivity.
    + destruct (req_loop2 allow who f r) eqn:E2; [|discriminate].
      rewrite (IH _ eq_refl). apply orb_true_r.
  - destruct (req_loop2 allow who f r) eqn:E2; [|discriminate].
    rewrite (IH _ eq_refl). reflexivity.
Qed.

Lemma require_auth2_covers inv who f ts ts' :
  require_auth2 inv who f ts = Ok ts' ->
  inv = who \/ existsb (fun e => covers e who f) (entries ts) = true.
Proof.
  unfold require_auth2. destruct (N.eqb inv who) eqn:E.
  - left. apply N.eqb_eq. exact E.
  - destruct (req_loop2 _ _ _ _) eqn:E2; cbn; intros H; [|discriminate].
    right. eapply req_loop2_covers; eauto.
Qed.

(* ------------------------------------------------------------------------- *)
(* fee token                                                                  *)
(* ------------------------------------------------------------------------- *)
Lemma balance_set_bal t a b h : balance (set_bal t a b) h = if N.eqb h a then b else balance t h.
Proof.
  unfold balance, set_bal. cbn [t_bal]. destruct (N.eqb h a) eqn:E.
  - apply N.eqb_eq in E. subst. rewrite alist_get_set_eq. reflexivity.
  - apply N.eqb_neq in E. rewrite alist_get_set_neq by exact E. reflexivity.
Qed.

Lemma alw_get_put t o s en o' s' :
  alw_get (alw_put t o s (Some en)) o' s' =
  if N.eqb o' o && N.eqb s' s then Some en else alw_get t o' s'.
Proof.
  unfold alw_get, alw_put. cbn [t_alw].
  destruct (N.eqb o' o) eqn:Eo; cbn [andb].
  - apply N.eqb_eq in Eo. subst o'. rewrite alist_get_set_eq.
    destruct (N.eqb s' s) eqn:Es.
    + apply N.eqb_eq in Es. subst. apply alist_get_set_eq.
    + apply N.eqb_neq in Es. rewrite alist_get_set_neq by exact Es.
      destruct (alist_get o (t_alw t)); reflexivity.
  - apply N.eqb_neq in Eo. rewrite alist_get_set_neq by exact Eo. reflexivity.
Qed.

(* allowance_data as a function of the stored temporary entry *)
Definition ad (nw : Z) (e : option alw_entry) : Z * Z :=
  match tget nw e with
  | Some (a, l) => if l <? nw then (0, 0) else (a, l)
  | None => (0, 0)
  end.
Lemma allowance_data_ad nw t o s : allowance_data nw t o s = ad nw (alw_get t o s).
Proof. reflexivity. Qed.

(* invariant of allowance entries: a positive allowance is kept alive by the host at least
   until its own live_until_ledger *)
Definition entry_ok (e : option alw_entry) : Prop :=
  match e with
  | Some en => 0 <= fst (tval en) /\ (0 < fst (tval en) -> snd (tval en) <= tlive en)
  | None => True
  end.
Definition alw_inv (t : tokst) : Prop := forall o s, entry_ok (alw_get t o s).

Lemma alw_inv_tok0 : alw_inv tok0.
Proof. intros o s. cbn. exact I. Qed.

Lemma alw_inv_set_bal t a b : alw_inv t -> alw_inv (set_bal t a b).
Proof. intros H o s. exact (H o s). Qed.

Record set_allowance_post (hc : hostcfg) (nw : Z) (t t' : tokst) (o s : addr) (amt l : Z) : Prop := {
  sa_bal : t_bal t' = t_bal t;
  sa_total : t_total t' = t_total t;
  sa_amt : 0 <= amt;
  sa_live : 0 < amt -> nw <= l;
  sa_other : forall o' s', N.eqb o' o && N.eqb s' s = false -> alw_get t' o' s' = alw_get t o' s';
  sa_pos : 0 < amt -> ad nw (alw_get t' o s) = (amt, l);
  sa_zero : amt = 0 -> fst (ad nw (alw_get t' o s)) = 0;
  sa_zero_live : amt = 0 -> tlive_at nw (alw_get t o s) <> None -> nw <= l -> ad nw (alw_get t' o s) = (0, l);
  sa_inv : alw_inv t -> alw_inv t'
}.

Lemma tset_live {V} hc nw (e : option (tentry V)) v :
  1 <= min_temp_ttl hc ->
  exists en, tset hc nw e v = Some en /\ tval en = v /\ nw <= tlive en /\
             (forall en0, tlive_at nw e = Some en0 -> tlive en = tlive en0).
Proof.
  intros Hm. unfold tset. destruct (tlive_at nw e) as [en0|] eqn:E.
  - eexists. split; [reflexivity|]. cbn. repeat split.
    + unfold tlive_at in E. destruct e as [x|]; [|discriminate].
      destruct (tlive x <? nw) eqn:E2; [discriminate|]. inversion E; subst. apply Z.ltb_ge in E2. exact E2.
    + intros en1 H1. inversion H1. reflexivity.
  - eexists. split; [reflexivity|]. cbn. repeat split; [lia|]. intros en0 H0. discriminate.
Qed.

Lemma set_allowance_spec hc nw t o s amt l t' :
  1 <= min_temp_ttl hc ->
  set_allowance hc nw t o s amt l = Ok t' -> set_allowance_post hc nw t t' o s amt l.
Proof.
  intros Hm. unfold set_allowance.
  destruct (amt <? 0) eqn:E1; [discriminate|]. apply Z.ltb_ge in E1.
  destruct ((max_live_until hc nw <? l) || ((0 <? amt) && (l <? nw))) eqn:E2; [discriminate|].
  apply orb_false_iff in E2. destruct E2 as [E2 E3].
  destruct (tset_live hc nw (alw_get t o s) (amt, l) Hm) as [en1 [He1 [Hv1 [Hl1 Hk1]]]].
  rewrite He1.
  assert (Hlive : 0 < amt -> nw <= l).
  { intros Hp. apply andb_false_iff in E3. destruct E3 as [E3|E3].
    - apply Z.ltb_ge in E3. lia.
    - apply Z.ltb_ge in E3. exact E3. }
  destruct (0 <? amt) eqn:E4.
  - apply Z.ltb_lt in E4. specialize (Hlive E4).
    unfold textend.
    destruct (l - nw <? l - nw) eqn:E5; [apply Z.ltb_lt in E5; lia|].
    assert (Hla : tlive_at nw (Some en1) = Some en1).
    { unfold tlive_at. destruct (tlive en1 <? nw) eqn:E6; [apply Z.ltb_lt in E6; lia|reflexivity]. }
    rewrite Hla.
    destruct (max_ttl hc - 1 <? l - nw); [discriminate|].
    set (en2 := if (tlive en1 - nw <=? l - nw) && (tlive en1 <? nw + (l - nw))
                then {| tval := tval en1; tlive := nw + (l - nw) |} else en1).
    assert (Hen2 : tval en2 = (amt, l) /\ nw <= tlive en2 /\ l <= tlive en2).
    { unfold en2. destruct ((tlive en1 - nw <=? l - nw) && (tlive en1 <? nw + (l - nw))) eqn:E7; cbn.
      - repeat split; [exact Hv1 | lia | lia].
      - repeat split; [exact Hv1 | exact Hl1 |].
        apply andb_false_iff in E7. destruct E7 as [E7|E7].
        + apply Z.leb_gt in E7. lia.
        + apply Z.ltb_ge in E7. lia. }
    destruct Hen2 as [Hv2 [Hl2 Hl2']].
    assert (Hres : (if (tlive en1 - nw <=? l - nw) && (tlive en1 <? nw + (l - nw))
                    then Ok (Some {| tval := tval en1; tlive := nw + (l - nw) |}) else Ok (Some en1))
                   = Ok (Some en2)).
    { unfold en2. destruct ((tlive en1 - nw <=? l - nw) && (tlive en1 <? nw + (l - nw))); reflexivity. }
    rewrite Hres. cbn [bind]. intros H. inversion H; subst t'. clear H.
    constructor.
    + reflexivity.
    + reflexivity.
    + lia.
    + intros _. exact Hlive.
    + intros o' s' Hn. rewrite alw_get_put, Hn. reflexivity.
    + intros _. rewrite alw_get_put, !N.eqb_refl. cbn [andb]. unfold ad, tget, tlive_at.
      destruct (tlive en2 <? nw) eqn:E8; [apply Z.ltb_lt in E8; lia|]. rewrite Hv2.
      destruct (l <? nw) eqn:E9; [apply Z.ltb_lt in E9; lia|reflexivity].
    + intros Hz. lia.
    + intros Hz. lia.
    + intros Hi o' s'. rewrite alw_get_put. destruct (N.eqb o' o && N.eqb s' s).
      * cbn. rewrite Hv2. cbn. split; [lia|intros _; exact Hl2'].
      * apply Hi.
  - apply Z.ltb_ge in E4. assert (amt = 0) by lia. subst amt.
    intros H. inversion H; subst t'. clear H.
    constructor.
    + reflexivity.
    + reflexivity.
    + lia.
    + intros Hz. lia.
    + intros o' s' Hn. rewrite alw_get_put, Hn. reflexivity.
    + intros Hz. lia.
    + intros _. rewrite alw_get_put, !N.eqb_refl. cbn [andb]. unfold ad, tget, tlive_at.
      destruct (tlive en1 <? nw); [reflexivity|]. rewrite Hv1. destruct (l <? nw); reflexivity.
    + intros _ Hne Hnl. rewrite alw_get_put, !N.eqb_refl. cbn [andb]. unfold ad, tget, tlive_at.
      destruct (tlive en1 <? nw) eqn:E8; [apply Z.ltb_lt in E8; lia|]. rewrite Hv1.
      destruct (l <? nw) eqn:E9; [apply Z.ltb_lt in E9; lia|reflexivity].
    + intros Hi o' s'. rewrite alw_get_put. destruct (N.eqb o' o && N.eqb s' s).
      * cbn. rewrite Hv1. cbn. split; lia.
      * apply Hi.
Qed.

(* spend_allowance with a positive amount *)
Record spend_post (nw : Z) (t t' : tokst) (o s : addr) (amt : Z) : Prop := {
  sp_bal : t_bal t' = t_bal t;
  sp_total : t_total t' = t_total t;
  sp_enough : amt <= fst (ad nw (alw_get t o s));
  sp_cell : ad nw (alw_get t' o s) = (fst (ad nw (alw_get t o s)) - amt, snd (ad nw (alw_get t o s)));
  sp_other : forall o' s', N.eqb o' o && N.eqb s' s = false -> alw_get t' o' s' = alw_get t o' s';
  sp_inv : alw_inv t -> alw_inv t'
}.

Lemma spend_allowance_spec hc nw t o s amt t' :
  1 <= min_temp_ttl hc -> 0 < amt ->
  spend_allowance hc nw t o s amt = Ok t' -> spend_post nw t t' o s amt.
Proof.
  intros Hm Hp. unfold spend_allowance.
  destruct (amt <? 0) eqn:E1; [discriminate|].
  rewrite allowance_data_ad.
  destruct (ad nw (alw_get t o s)) as [a l] eqn:Ead.
  destruct (a <? amt) eqn:E2; [discriminate|]. apply Z.ltb_ge in E2.
  destruct (0 <? amt) eqn:E3; [|apply Z.ltb_ge in E3; lia].
  intros H. pose proof (set_allowance_spec _ _ _ _ _ _ _ _ Hm H) as P.
  (* the entry was live and not expired, since a >= amt > 0 *)
  assert (Hlive : tlive_at nw (alw_get t o s) <> None /\ nw <= l).
  { unfold ad, tget in Ead. destruct (tlive_at nw (alw_get t o s)) as [en|] eqn:E4.
    - split; [discriminate|]. destruct (tval en) as [a' l']. destruct (l' <? nw) eqn:E5.
      + inversion Ead. lia.
      + inversion Ead; subst. apply Z.ltb_ge in E5. exact E5.
    - inversion Ead. lia. }
  destruct Hlive as [Hl1 Hl2].
  constructor.
  - apply (sa_bal _ _ _ _ _ _ _ _ P).
  - apply (sa_total _ _ _ _ _ _ _ _ P).
  - rewrite Ead. cbn. exact E2.
  - rewrite Ead. cbn [fst snd]. destruct (Z.eq_dec (a - amt) 0) as [Hz|Hz].
    + rewrite Hz. apply (sa_zero_live _ _ _ _ _ _ _ _ P); auto.
    + apply (sa_pos _ _ _ _ _ _ _ _ P). lia.
  - apply (sa_other _ _ _ _ _ _ _ _ P).
  - apply (sa_inv _ _ _ _ _ _ _ _ P).
Qed.

Lemma update_transfer_spec t from to amt t' :
  update_transfer t from to amt = Ok t' ->
  0 <= amt /\ amt <= balance t from /\ t_total t' = t_total t /\ t_alw t' = t_alw t /\
  forall h, balance t' h = balance t h + (if N.eqb h to then amt else 0) - (if N.eqb h from then amt else 0).
Proof.
  unfold update_transfer.
  destruct (amt <? 0) eqn:E1; [discriminate|]. apply Z.ltb_ge in E1.
  destruct (balance t from <? amt) eqn:E2; [discriminate|]. apply Z.ltb_ge in E2.
  destruct (in_i128 _); [|discriminate].
  intros H. inversion H; subst t'. clear H. repeat split; auto.
  intros h. rewrite !balance_set_bal.
  destruct (N.eqb h to) eqn:Et; destruct (N.eqb h from) eqn:Ef; destruct (N.eqb to from) eqn:Etf;
    rewrite ?N.eqb_eq, ?N.eqb_neq in *; subst; try lia; try (exfalso; congruence).
Qed.

Lemma alw_get_same_alw t t' o s : t_alw t' = t_alw t -> alw_get t' o s = alw_get t o s.
Proof. unfold alw_get. intros ->. reflexivity. Qed.

Lemma mint_spec t to amt t' :
  mint t to amt = Ok t' ->
  0 <= amt /\ t_total t' = t_total t + amt /\ t_alw t' = t_alw t /\
  forall h, balance t' h = balance t h + (if N.eqb h to then amt else 0).
Proof.
  unfold mint. destruct (amt <? 0) eqn:E1; [discriminate|]. apply Z.ltb_ge in E1.
  unfold checked_add, fit128. destruct (in_i128 (t_total t + amt)); cbn [of_option bind]; [|discriminate].
  destruct (in_i128 _); [|discriminate].
  intros H. inversion H; subst t'. clear H. cbn [t_total t_alw]. repeat split; auto.
  intros h. unfold balance at 1. cbn [t_bal]. destruct (N.eqb h to) eqn:E.
  - apply N.eqb_eq in E. subst. rewrite alist_get_set_eq. lia.
  - apply N.eqb_neq in E. rewrite alist_get_set_neq by exact E. unfold balance. lia.
Qed.
