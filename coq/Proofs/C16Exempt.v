(* C16: no address is exempt from the lists.
   For EVERY address x - an ordinary user, the admin, the manager, the token contract's own address,
   another contract, an account - the following holds over every call sequence:
   while x is closed (allow list: not allowed; block list: blocked) and no call re-opens it, no call
   whatsoever moves x's balance, and x stays closed.  Consequently, on the allow-list example, an
   address that was never the subject of an allow_user call (and is not the admin the constructor
   allows) never holds a token and never reads as allowed. *)
From SC Require Import Lib.Prelude Lib.Int Lib.Host Model.Gates Model.GatesSpec Proofs.Gates Proofs.C16Final.

Definition is_list (k : kind) : bool := is_allow k || is_block k.

(* x cannot take part in a vetted role: not on the allow list / on the block list *)
Definition closed (c : cfg) (s : state) (x : addr) : bool :=
  if is_block (knd c) then blocked s x else negb (allowed s x).

(* the only calls that may change that: the list operation that opens x; at library level also the
   harness contracts' mint, which is the ungated Base::mint (the examples have no mint) *)
Definition reopens (c : cfg) (x : addr) (o : op) : bool :=
  match o with
  | AllowUser u _ => is_allow (knd c) && N.eqb u x
  | UnblockUser u _ => is_block (knd c) && N.eqb u x
  | Mint t _ => (kind_eqb (knd c) KAllowLib || kind_eqb (knd c) KBlockLib) && N.eqb t x
  | _ => false
  end.

Lemma closed_listed c s x : is_list (knd c) = true ->
  closed c s x = if is_block (knd c) then listed c s x else negb (listed c s x).
Proof. unfold closed, listed. destruct (is_block (knd c)); reflexivity. Qed.

Lemma gate_open_not_closed c s v o x : is_list (knd c) = true ->
  gate_open c (hist_of c s) v o = true -> closed c s x = true -> ~ In x (vetted o).
Proof.
  intros Hk Hg Hc Hin. unfold gate_open in Hg. unfold closed in Hc.
  destruct (knd c) eqn:K; try discriminate Hk; cbn in Hc;
    rewrite forallb_forall in Hg; specialize (Hg x Hin); cbn in Hg; unfold listed in Hg; rewrite K in Hg; cbn in Hg;
    destruct (allowed s x); destruct (blocked s x); discriminate.
Qed.

Lemma exp_bal_frame v o x : ~ In x (vetted o) ->
  match o with Mint t _ => t <> x | _ => True end ->
  exp_bal v o x = v_bal v x.
Proof.
  intros Hn Hm. destruct o; cbn in *; try reflexivity.
  - destruct (N.eqb x to) eqn:E1; [b2p; subst; exfalso; apply Hn; cbn; auto|]. destruct (N.eqb x from) eqn:E2; [b2p; subst; exfalso; apply Hn; cbn; auto|]. reflexivity.
  - destruct (N.eqb x to) eqn:E1; [b2p; subst; exfalso; apply Hn; cbn; auto|]. destruct (N.eqb x from) eqn:E2; [b2p; subst; exfalso; apply Hn; cbn; auto|]. reflexivity.
  - destruct (N.eqb x to) eqn:E1; [b2p; subst; exfalso; apply Hn; cbn; auto|]. destruct (N.eqb x from) eqn:E2; [b2p; subst; exfalso; apply Hn; cbn; auto|]. reflexivity.
  - destruct (N.eqb x from) eqn:E2; [b2p; subst; exfalso; apply Hn; cbn; auto|]. reflexivity.
  - destruct (N.eqb x from) eqn:E2; [b2p; subst; exfalso; apply Hn; cbn; auto|]. reflexivity.
  - destruct (N.eqb x to) eqn:E1; [b2p; congruence|]. reflexivity.
Qed.

(* a successful call on a listed token has its gate open (for the calls that have vetted parties) and,
   if it is a mint, the contract is one of the two library-level harness contracts *)
Lemma ok_gate c h v o au : is_list (knd c) = true ->
  expected_ok c h v (o, au) = true ->
  (vetted o = [] \/ gate_open c h v o = true) /\
  match o with Mint _ _ => kind_eqb (knd c) KAllowLib || kind_eqb (knd c) KBlockLib = true | _ => True end.
Proof.
  intros Hk He. unfold expected_ok in He. cbn [fst snd] in He.
  destruct o; cbn [vetted]; try (split; [left; reflexivity|exact I]);
    try (repeat (apply andb_true_iff in He; destruct He as [He ?]); split; [right; assumption|exact I]).
  - (* Mint *)
    split; [left; reflexivity|].
    repeat (apply andb_true_iff in He; destruct He as [He ?]).
    destruct (knd c); cbn in *; try discriminate; reflexivity.
Qed.

Lemma closed_step c s cl x : is_list (knd c) = true -> Inv c s -> closed c s x = true ->
  reopens c x (fst cl) = false ->
  bal (fst (step c s cl)) x = bal s x /\ closed c (fst (step c s cl)) x = true /\ Inv c (fst (step c s cl)).
Proof.
  intros Hk HI Hc Hr.
  destruct (step_spec_step c (hist_of c s) s cl HI (rel_hist_of c s)) as (Hok & Heff & Hfail & HR' & HI').
  destruct (snd (step c s cl)) eqn:E.
  2:{ rewrite (Hfail eq_refl). auto. }
  specialize (Heff eq_refl). destruct Heff as (_ & Hb & _).
  destruct HR' as (_ & _ & Rl & _).
  destruct cl as [o au]. cbn [fst] in *.
  symmetry in Hok. destruct (ok_gate c _ _ o au Hk Hok) as [Hg Hm].
  split; [|split; [|exact HI']].
  - (* the balance *)
    rewrite Hb. change (bal s x) with (v_bal (view_st s) x). apply exp_bal_frame.
    + destruct Hg as [Hg|Hg]; [rewrite Hg; intros []|]. eapply gate_open_not_closed; eauto.
    + destruct o; try exact I. cbn in Hr. rewrite Hm in Hr. cbn in Hr. b2p. exact Hr.
  - (* still closed *)
    rewrite closed_listed by exact Hk. rewrite <- Rl.
    rewrite closed_listed in Hc by exact Hk.
    assert (Hl : h_listed (hist_of c s) x = listed c s x) by reflexivity.
    unfold is_list in Hk.
    destruct o; cbn [hist_upd h_listed]; try (rewrite Hl; exact Hc);
      unfold expected_ok in Hok; cbn [fst snd] in Hok; cbn [reopens] in Hr;
      destruct (knd c) eqn:K; try discriminate Hk;
      cbn [is_block is_allow kind_eqb andb orb negb] in *; try discriminate Hok;
      unfold updB;
      first [ rewrite N.eqb_sym in Hr; rewrite Hr; rewrite Hl; exact Hc
            | destruct (N.eqb x user); [reflexivity | rewrite Hl; exact Hc] ].
Qed.

Lemma closed_run c cs : forall s x, is_list (knd c) = true -> Inv c s -> closed c s x = true ->
  forallb (fun cl => negb (reopens c x (fst cl))) cs = true ->
  bal (run c s cs) x = bal s x /\ closed c (run c s cs) x = true.
Proof.
  induction cs as [|cl r IH]; intros s x Hk HI Hc Hn; [split; [reflexivity|exact Hc]|].
  cbn [forallb] in Hn. apply andb_true_iff in Hn. destruct Hn as [H1 H2].
  apply negb_true_iff in H1.
  destruct (closed_step c s cl x Hk HI Hc H1) as (Hb & Hc' & HI').
  change (run c s (cl :: r)) with (run c (fst (step c s cl)) r).
  destruct (IH _ x Hk HI' Hc' H2) as [Hb2 Hc2]. split; [rewrite Hb2; exact Hb|exact Hc2].
Qed.

(* from deployment (any prefix cs0): once closed, frozen until re-opened *)
Theorem closed_balance_frozen : forall c cs0 cs x,
  wf_cfg c = true -> is_list (knd c) = true ->
  closed c (run c (init c) cs0) x = true ->
  forallb (fun cl => negb (reopens c x (fst cl))) cs = true ->
  bal (run c (init c) (cs0 ++ cs)) x = bal (run c (init c) cs0) x /\
  closed c (run c (init c) (cs0 ++ cs)) x = true.
Proof.
  intros c cs0 cs x Hw Hk Hc Hn. rewrite run_app.
  apply closed_run; auto. apply reach_inv; exact Hw.
Qed.

(* the allow-list example: an address that is not the admin and was never the subject of an allow_user
   call - successful or not - never holds a token and never reads as allowed *)
Theorem never_allowed_never_holds : forall c cs x,
  wf_cfg c = true -> knd c = KAllowEx -> x <> owner c ->
  forallb (fun cl => match fst cl with AllowUser u _ => negb (N.eqb u x) | _ => true end) cs = true ->
  bal (run c (init c) cs) x = 0 /\ allowed (run c (init c) cs) x = false.
Proof.
  intros c cs x Hw K Hx Hn.
  assert (Hk : is_list (knd c) = true) by (rewrite K; reflexivity).
  assert (Hc0 : closed c (init c) x = true).
  { unfold closed, init. rewrite K. cbn. unfold updB. destruct (N.eqb x (owner c)) eqn:E; [b2p; contradiction|reflexivity]. }
  assert (Hb0 : bal (init c) x = 0).
  { unfold init. rewrite K. cbn. unfold updZ. destruct (N.eqb x (owner c)) eqn:E; [b2p; contradiction|reflexivity]. }
  assert (Hn' : forallb (fun cl => negb (reopens c x (fst cl))) cs = true).
  { rewrite forallb_forall in *. intros cl Hin. specialize (Hn cl Hin). unfold reopens. rewrite K. cbn.
    destruct (fst cl); try reflexivity. exact Hn. }
  destruct (closed_run c cs (init c) x Hk (init_inv c Hw) Hc0 Hn') as [Hb Hc].
  split; [rewrite Hb; exact Hb0|].
  unfold closed in Hc. rewrite K in Hc. cbn in Hc. apply negb_true_iff in Hc. exact Hc.
Qed.
