(* C20 / identity registry storage: the three per-account storage keys refine one map
   account -> (identity, profile) plus the recovery links; a recovered account is never
   registered again. *)
From SC Require Import Lib.Prelude Model.SwapPop Model.RegCommon Model.RegIRS Run.C20 Proofs.C20Common.
From Coq Require Import PeanoNat.
Local Open Scope nat_scope.
Set Implicit Arguments.

Section IRS.
  Variable c : irs_cfg.

  Definition irs_rel (s : irs_state) (a : irs_ref) : Prop :=
    (forall x, id_get (irs_ident s) x = option_map fst (aget N.eqb x (rM a)))
    /\ (forall x, pf_get (irs_profile s) x = option_map snd (aget N.eqb x (rM a)))
    /\ (forall x, id_get (irs_recov s) x = aget N.eqb x (rV a))
    /\ (forall x, ahas N.eqb x (rV a) = true -> ahas N.eqb x (rM a) = false).

  Lemma irs_rel_init : irs_rel irs_init irs_ref0.
  Proof. repeat split; intros; cbn in *; auto; discriminate. Qed.

  Ltac getset :=
    unfold id_get, id_set, id_del, pf_get, pf_set, pf_del in *;
    repeat (rewrite (aget_aset N.eqb N.eqb_eq) || rewrite (aget_adel N.eqb N.eqb_eq)).

  Lemma ahas_get {V} x (l : list (N * V)) : ahas N.eqb x l = match aget N.eqb x l with Some _ => true | None => false end.
  Proof. reflexivity. Qed.

  Lemma irs_spec_sim s a k : irs_rel s a ->
    match irs_step c s k with
    | Ok (s', _) => exists a', irs_spec c a k = Ok a' /\ irs_rel s' a'
    | Fail => irs_spec c a k = Fail
    end.
  Proof.
    intros (Hid & Hpf & Hrv & Hrec).
    destruct k as [acct ident ty cds|acct ident|acct|old new|acct cds|acct i d|acct i];
      cbn [irs_step irs_spec].
    - (* add_identity *)
      unfold irs_add_identity, irs_recovered_to. rewrite Hrv, Hid. rewrite !ahas_get.
      destruct (aget N.eqb acct (rV a)) as [r|] eqn:Er; [reflexivity|]. cbn [orb].
      destruct cds as [|cd cds]; [reflexivity|]. set (l := cd :: cds) in *. cbn [orb].
      destruct (irs_max_countries c <? length l); [reflexivity|]. cbn [orb].
      destruct (forallb (cd_valid c) l); [|reflexivity]. cbn [negb orb].
      destruct (aget N.eqb acct (rM a)) as [v|] eqn:Em; cbn [option_map bind]; [reflexivity|].
      eexists. split; [reflexivity|]. unfold irs_rel. cbn [irs_ident irs_profile irs_recov rM rV].
      split; [|split; [|split]]; auto.
      + intros x. getset. destruct (N.eqb x acct); auto.
      + intros x. getset. destruct (N.eqb x acct); auto.
      + intros x Hx. rewrite ahas_get. getset. destruct (N.eqb x acct) eqn:E.
        * apply N.eqb_eq in E. subst. rewrite ahas_get, Er in Hx. discriminate.
        * apply Hrec. auto.
    - (* modify_identity *)
      unfold irs_modify_identity. rewrite Hid.
      destruct (aget N.eqb acct (rM a)) as [[i0 p]|] eqn:Em; cbn [option_map bind]; [|reflexivity].
      eexists. split; [reflexivity|]. unfold irs_rel. cbn [irs_ident irs_profile irs_recov rM rV].
      split; [|split; [|split]]; auto.
      + intros x. getset. destruct (N.eqb x acct); auto.
      + intros x. rewrite Hpf. getset. destruct (N.eqb x acct) eqn:E; auto.
        apply N.eqb_eq in E. subst. rewrite Em. reflexivity.
      + intros x Hx. rewrite ahas_get. getset. destruct (N.eqb x acct) eqn:E.
        * apply N.eqb_eq in E. subst. apply Hrec in Hx. rewrite ahas_get, Em in Hx. discriminate.
        * apply Hrec. auto.
    - (* remove_identity *)
      unfold irs_remove_identity. rewrite Hid, Hpf, ahas_get.
      destruct (aget N.eqb acct (rM a)) as [[i0 p]|] eqn:Em; cbn [option_map bind]; [|reflexivity].
      eexists. split; [reflexivity|]. unfold irs_rel. cbn [irs_ident irs_profile irs_recov rM rV].
      split; [|split; [|split]]; auto.
      + intros x. getset. destruct (N.eqb x acct); auto.
      + intros x. getset. destruct (N.eqb x acct); auto.
      + intros x Hx. rewrite ahas_get. getset. destruct (N.eqb x acct); auto. apply Hrec. auto.
    - (* recover_identity *)
      unfold irs_recover, irs_recovered_to. rewrite Hrv, !Hid, Hpf, !ahas_get.
      destruct (aget N.eqb old (rM a)) as [[i0 p]|] eqn:Eo; cbn [option_map];
        [|destruct (aget N.eqb new (rV a)); reflexivity].
      destruct (aget N.eqb new (rV a)) as [r|] eqn:Er; [reflexivity|]. cbn [orb].
      destruct (aget N.eqb new (rM a)) as [v|] eqn:En; cbn [option_map bind]; [reflexivity|].
      eexists. split; [reflexivity|]. unfold irs_rel. cbn [irs_ident irs_profile irs_recov rM rV].
      split; [|split; [|split]].
      + intros x. getset. destruct (N.eqb x old); auto. destruct (N.eqb x new); auto.
      + intros x. getset. destruct (N.eqb x old); auto. destruct (N.eqb x new); auto.
      + intros x. getset. destruct (N.eqb x old); auto.
      + intros x Hx. unfold ahas in *. getset. rewrite (aget_aset N.eqb N.eqb_eq) in Hx.
        destruct (N.eqb x old) eqn:E1; auto.
        destruct (N.eqb x new) eqn:E2.
        * apply N.eqb_eq in E2. rewrite E2, Er in Hx. discriminate.
        * apply Hrec. exact Hx.
    - (* add_country_data_entries *)
      unfold irs_add_countries. rewrite Hpf.
      destruct (aget N.eqb acct (rM a)) as [[i0 [ty0 old]]|] eqn:Em; cbn [option_map snd].
      + destruct cds as [|cd cds]; [reflexivity|]. set (l := cd :: cds) in *. cbn [orb].
        destruct (forallb (cd_valid c) l); [|reflexivity]. cbn [negb orb].
        rewrite app_length. destruct (irs_max_countries c <? length old + length l); [reflexivity|].
        cbn [bind]. eexists. split; [reflexivity|]. unfold irs_rel. cbn [irs_ident irs_profile irs_recov rM rV].
        split; [|split; [|split]]; auto.
        * intros x. rewrite Hid. getset. destruct (N.eqb x acct) eqn:E; auto.
          apply N.eqb_eq in E. subst. rewrite Em. reflexivity.
        * intros x. getset. destruct (N.eqb x acct); auto.
        * intros x Hx. rewrite ahas_get. getset. destruct (N.eqb x acct) eqn:E.
          -- apply N.eqb_eq in E. subst. apply Hrec in Hx. rewrite ahas_get, Em in Hx. discriminate.
          -- apply Hrec. auto.
      + destruct cds; [reflexivity|]. destruct (forallb (cd_valid c) (c0 :: cds)); reflexivity.
    - (* modify_country_data *)
      unfold irs_modify_country. rewrite Hpf.
      destruct (cd_valid c d); cbn [negb orb]; [|destruct (aget N.eqb acct (rM a)) as [[? [? ?]]|]; reflexivity].
      destruct (aget N.eqb acct (rM a)) as [[i0 [ty0 old]]|] eqn:Em; cbn [option_map snd]; [|reflexivity].
      destruct (N.of_nat (length old) <=? i)%N; [reflexivity|].
      cbn [bind]. eexists. split; [reflexivity|]. unfold irs_rel. cbn [irs_ident irs_profile irs_recov rM rV].
      split; [|split; [|split]]; auto.
      + intros x. rewrite Hid. getset. destruct (N.eqb x acct) eqn:E; auto.
        apply N.eqb_eq in E. subst. rewrite Em. reflexivity.
      + intros x. getset. destruct (N.eqb x acct); auto.
      + intros x Hx. rewrite ahas_get. getset. destruct (N.eqb x acct) eqn:E.
        * apply N.eqb_eq in E. subst. apply Hrec in Hx. rewrite ahas_get, Em in Hx. discriminate.
        * apply Hrec. auto.
    - (* delete_country_data *)
      unfold irs_delete_country. rewrite Hpf.
      destruct (aget N.eqb acct (rM a)) as [[i0 [ty0 old]]|] eqn:Em; cbn [option_map snd]; [|reflexivity].
      destruct (length old =? 1); [reflexivity|]. cbn [orb].
      destruct (N.of_nat (length old) <=? i)%N; [reflexivity|].
      cbn [bind]. eexists. split; [reflexivity|]. unfold irs_rel. cbn [irs_ident irs_profile irs_recov rM rV].
      split; [|split; [|split]]; auto.
      + intros x. rewrite Hid. getset. destruct (N.eqb x acct) eqn:E; auto.
        apply N.eqb_eq in E. subst. rewrite Em. reflexivity.
      + intros x. getset. destruct (N.eqb x acct); auto.
      + intros x Hx. rewrite ahas_get. getset. destruct (N.eqb x acct) eqn:E.
        * apply N.eqb_eq in E. subst. apply Hrec in Hx. rewrite ahas_get, Em in Hx. discriminate.
        * apply Hrec. auto.
  Qed.

  Lemma cdata_eqb_refl d : cdata_eqb d d = true.
  Proof. apply cdata_eqb_spec. reflexivity. Qed.
  Lemma cds_eqb_refl (l : list cdata) : list_eqb cdata_eqb l l = true.
  Proof. apply (list_eqb_spec cdata_eqb cdata_eqb_spec). reflexivity. Qed.
  Lemma profile_eqb_refl (p : N * list cdata) : profile_eqb p p = true.
  Proof. unfold profile_eqb, pair_eqb. rewrite N.eqb_refl, cds_eqb_refl. reflexivity. Qed.

  Lemma irs_chk_ok s a q : irs_rel s a -> irs_chk a (q, irs_answer s q) = true.
  Proof.
    intros (Hid & Hpf & Hrv & Hrec).
    destruct q as [x|x|x i|x|x]; cbn [irs_answer irs_chk].
    - unfold irs_stored_identity. rewrite Hid. apply res_eqb_refl. apply N.eqb_refl.
    - unfold irs_get_profile. rewrite Hpf. apply res_eqb_refl. apply profile_eqb_refl.
    - unfold irs_country, irs_get_profile. rewrite Hpf.
      destruct (aget N.eqb x (rM a)) as [[i0 [ty0 cds]]|]; cbn [option_map of_option bind snd].
      + apply res_eqb_refl. apply cdata_eqb_refl.
      + reflexivity.
    - unfold irs_countries. rewrite Hpf.
      destruct (aget N.eqb x (rM a)) as [[i0 [ty0 cds]]|]; cbn [option_map snd]; apply cds_eqb_refl.
    - unfold irs_recovered_to. rewrite Hrv. apply andb_true_intro. split.
      + destruct (aget N.eqb x (rV a)); cbn; auto. apply N.eqb_refl.
      + destruct (aget N.eqb x (rV a)) eqn:E; auto. rewrite Hrec; auto. unfold ahas. rewrite E. reflexivity.
  Qed.

  Lemma irs_mon_step s a cq : irs_rel s a ->
    exists a', mon_of (spec_unit (irs_spec c)) irs_chk (fun _ _ => true) a (model_ev (irs_step c) irs_answer s cq) = Some a'
               /\ irs_rel (step_state (irs_step c) s (fst cq)) a'.
  Proof.
    apply (@unit_mon_step _ _ _ _ _ (irs_step c) irs_answer (irs_spec c) irs_chk (fun _ _ => true) irs_rel).
    - intros. apply irs_spec_sim. auto.
    - intros. apply irs_chk_ok. auto.
    - reflexivity.
  Qed.
End IRS.
