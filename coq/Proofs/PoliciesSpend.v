(* C14 - spending limit: can_enforce/enforce agreement, and the relation between the stored
   history/cache and the specification-level log of enforcements (rolling window). *)
From SC Require Import Lib.Prelude Lib.Int Lib.Host Model.Policies Model.PoliciesSpec Proofs.Policies.
From Coq Require Import ZifyBool Sorting.Sorted.

Definition is_true_res (r : res bool) : bool := match r with Ok true => true | _ => false end.

(* ---------- the scan of can_enforce and the cleanup of enforce walk the same prefix ---------- *)
Lemma ce_scan_cleanup mh cutoff h : forall acc,
  ce_scan mh cutoff h acc =
  match cleanup cutoff h acc with
  | Fail => Fail
  | Ok (r, h') => match h' with
                  | [] => Ok (Some r)
                  | _ :: _ => if mh <=? len h' then Ok None else Ok (Some r)
                  end
  end.
Proof.
  induction h as [|[a l] r IH]; intros acc; cbn [ce_scan cleanup]; [reflexivity|].
  destruct (l <=? cutoff) eqn:E.
  - destruct (checked_add acc a) as [x|]; [apply IH|reflexivity].
  - reflexivity.
Qed.

Lemma l_agree_one c s au a r sgs ctx : 0 < max_history c ->
  is_ok (l_enforce_one c s au a r sgs ctx) = has_auth au a && is_true_res (l_can_enforce c s a r ctx sgs).
Proof.
  intros Hmh. unfold l_enforce_one, l_can_enforce.
  destruct (has_auth au a); cbn [guard bind andb]; [|reflexivity].
  destruct sgs as [|sg0 sgr]; [reflexivity|].
  destruct (kget (a, r) (st_spend s)) as [d|]; cbn [of_option bind]; [|reflexivity].
  destruct (transfer_amount ctx) as [amt|]; [|reflexivity].
  unfold l_enforce_data. rewrite ce_scan_cleanup.
  destruct (cleanup (sat_sub (now s) (sd_period d)) (sd_hist d) 0) as [[removed h']|]; cbn [bind]; [|reflexivity].
  destruct h' as [|e0 h0].
  - cbn [bind]. destruct (checked_sub (sd_cached d) removed) as [x|]; cbn [of_option bind]; [|reflexivity].
    destruct (checked_add x amt) as [y|]; cbn [of_option bind]; [|reflexivity].
    unfold len; cbn [length]. destruct (sd_limit d <? y) eqn:E1; cbn [is_ok is_true_res].
    + replace (y <=? sd_limit d) with false by lia. reflexivity.
    + replace (max_history c <=? Z.of_nat 0) with false by lia.
      replace (y <=? sd_limit d) with true by lia. reflexivity.
  - destruct (max_history c <=? len (e0 :: h0)) eqn:E0.
    + cbn [bind is_true_res].
      destruct (checked_sub (sd_cached d) removed) as [x|]; cbn [of_option bind]; [|reflexivity].
      destruct (checked_add x amt) as [y|]; cbn [of_option bind]; [|reflexivity].
      destruct (sd_limit d <? y); reflexivity.
    + cbn [bind].
      destruct (checked_sub (sd_cached d) removed) as [x|]; cbn [of_option bind]; [|reflexivity].
      destruct (checked_add x amt) as [y|]; cbn [of_option bind]; [|reflexivity].
      destruct (sd_limit d <? y) eqn:E1; cbn [is_ok is_true_res].
      * replace (y <=? sd_limit d) with false by lia. reflexivity.
      * replace (y <=? sd_limit d) with true by lia. reflexivity.
Qed.

(* ---------- lists of entries ---------- *)
Definition ledger_sorted (l : list entry) : Prop := StronglySorted (fun a b => snd a <= snd b) l.

Lemma sum_entries_app l1 l2 : sum_entries (l1 ++ l2) = sum_entries l1 + sum_entries l2.
Proof.
  unfold sum_entries. induction l1 as [|e l1 IH]; cbn [app fold_right]; [lia|]. rewrite IH. lia.
Qed.
Lemma newer_app c l1 l2 : newer c (l1 ++ l2) = newer c l1 ++ newer c l2.
Proof. unfold newer. apply filter_app. Qed.
Lemma newer_all c l : Forall (fun e => c < snd e) l -> newer c l = l.
Proof.
  unfold newer. induction 1 as [|e l H _ IH]; cbn [filter]; [reflexivity|].
  replace (c <? snd e) with true by lia. rewrite IH. reflexivity.
Qed.
Lemma sorted_filter (f : entry -> bool) l : ledger_sorted l -> ledger_sorted (filter f l).
Proof.
  unfold ledger_sorted. induction 1 as [|e l Hs IH Hf]; cbn [filter]; [constructor|].
  destruct (f e); [|exact IH]. constructor; [exact IH|].
  rewrite Forall_forall in *. intros x Hx. apply filter_In in Hx as [Hx _]. auto.
Qed.
Lemma sorted_snoc l e : ledger_sorted l -> Forall (fun x => snd x <= snd e) l -> ledger_sorted (l ++ [e]).
Proof.
  unfold ledger_sorted. induction 1 as [|x l Hs IH Hf]; intros Hle; cbn [app].
  - constructor; constructor.
  - inversion Hle as [|y l' Hy Hl']; subst. constructor; [auto|].
    apply Forall_app. split; [exact Hf|]. constructor; [exact Hy|constructor].
Qed.

(* cleanup on a ledger-sorted history removes exactly the entries not newer than the cutoff *)
Lemma cleanup_sorted cutoff h : ledger_sorted h -> forall acc r h',
  cleanup cutoff h acc = Ok (r, h') ->
  h' = newer cutoff h /\ r = acc + sum_entries h - sum_entries h'.
Proof.
  unfold ledger_sorted. induction 1 as [|[a l] rest Hs IH Hf]; intros acc r h'; cbn [cleanup].
  - intros H. inversion H. cbn. split; [reflexivity|lia].
  - destruct (l <=? cutoff) eqn:E.
    + unfold checked_add, fit128. destruct (in_i128 (acc + a)); [|discriminate].
      intros H. apply IH in H as [H1 H2]. split.
      * unfold newer in *. cbn [filter snd]. replace (cutoff <? l) with false by lia. exact H1.
      * unfold sum_entries in *. cbn [fold_right fst]. lia.
    + intros H. inversion H. subst. split; [|lia]. symmetry. apply newer_all.
      constructor; [cbn [snd]; lia|].
      rewrite Forall_forall in *. intros x Hx. specialize (Hf x Hx). cbn [snd] in Hf. lia.
Qed.

(* with ledgers >= 1 the code's saturating cutoff selects the same entries as n - period *)
Lemma newer_newer_sat nw P cut log :
  cut <= nw - P -> Forall (fun e => 1 <= snd e) log ->
  newer (sat_sub nw P) (newer cut log) = newer (nw - P) log.
Proof.
  intros Hc. unfold newer, sat_sub. induction 1 as [|e l H _ IH]; cbn [filter]; [reflexivity|].
  destruct (cut <? snd e) eqn:E1; cbn [filter].
  - rewrite IH. replace (Z.max 0 (nw - P) <? snd e) with (nw - P <? snd e) by lia. reflexivity.
  - rewrite IH. replace (nw - P <? snd e) with false by lia. reflexivity.
Qed.

(* ---------- the relation between one installation's log and the stored data ---------- *)
Record lrel (nw : Z) (i : linst) (d : sdata) : Prop := mk_lrel {
  lr_limit : sd_limit d = gi_limit i;
  lr_period : sd_period d = gi_period i;
  lr_ppos : 0 < gi_period i;
  lr_hist : sd_hist d = newer (gi_cut i) (gi_log i);
  lr_cached : sd_cached d = sum_entries (sd_hist d);
  lr_cut : gi_cut i <= nw - gi_period i;
  lr_sorted : ledger_sorted (gi_log i);
  lr_range : Forall (fun e => 1 <= snd e <= nw) (gi_log i) }.

Lemma lrel_obs nw i d : lrel nw i d -> linst_obs i = obs_l d.
Proof.
  intros [H1 H2 _ H4 H5 _ _ _]. unfold linst_obs, obs_l. cbn zeta.
  rewrite <- H4, <- H1, <- H2, <- H5. reflexivity.
Qed.

Lemma lrel_advance nw nw' i d : nw <= nw' -> lrel nw i d -> lrel nw' i d.
Proof.
  intros Hle [H1 H2 H3 H4 H5 H6 H7 H8]. constructor; auto; [lia|].
  rewrite Forall_forall in *. intros e He. specialize (H8 e He). lia.
Qed.

Definition inst_push (nw : Z) (i : linst) (amt : Z) : linst :=
  {| gi_limit := gi_limit i; gi_period := gi_period i;
     gi_log := gi_log i ++ [(amt, nw)]; gi_cut := nw - gi_period i |}.

(* one successful enforcement: the stored data follows the log, and the amount inside the window
   (including this transfer) is within the limit in force *)
Lemma l_enforce_data_rel c nw i d amt d' :
  1 <= nw -> lrel nw i d -> l_enforce_data c nw d amt = Ok d' ->
  lrel nw (inst_push nw i amt) d' /\
  sd_cached d' = window_sum nw (gi_period i) (gi_log i ++ [(amt, nw)]) /\
  window_sum nw (gi_period i) (gi_log i ++ [(amt, nw)]) <= gi_limit i.
Proof.
  intros Hnw [H1 H2 H3 H4 H5 H6 H7 H8]. unfold l_enforce_data.
  destruct (cleanup (sat_sub nw (sd_period d)) (sd_hist d) 0) as [[removed h]|] eqn:Ec; cbn [bind]; [|discriminate].
  unfold checked_sub, checked_add, fit128.
  destruct (in_i128 (sd_cached d - removed)); cbn [of_option bind]; [|discriminate].
  destruct (in_i128 (sd_cached d - removed + amt)); cbn [of_option bind]; [|discriminate].
  destruct (sd_limit d <? sd_cached d - removed + amt) eqn:El; [discriminate|].
  destruct (max_history c <=? len h); [discriminate|].
  intros H. inversion H. subst d'. clear H.
  assert (Hs : ledger_sorted (sd_hist d)) by (rewrite H4; apply sorted_filter; exact H7).
  destruct (cleanup_sorted _ _ Hs _ _ _ Ec) as [Hh Hr].
  assert (Hge1 : Forall (fun e => 1 <= snd e) (gi_log i)).
  { rewrite Forall_forall in *. intros e He. specialize (H8 e He). lia. }
  assert (Hh' : h = newer (nw - gi_period i) (gi_log i)).
  { rewrite Hh, H4, H2. apply newer_newer_sat; assumption. }
  assert (Hwin : newer (nw - gi_period i) (gi_log i ++ [(amt, nw)]) = h ++ [(amt, nw)]).
  { rewrite newer_app, <- Hh'. f_equal. unfold newer. cbn [filter snd].
    replace (nw - gi_period i <? nw) with true by lia. reflexivity. }
  assert (Hsum : sd_cached d - removed + amt = sum_entries (h ++ [(amt, nw)])).
  { rewrite sum_entries_app. unfold sum_entries at 2. cbn [fold_right fst]. lia. }
  split; [|split].
  - constructor; cbn [sd_limit sd_period sd_hist sd_cached inst_push gi_limit gi_period gi_log gi_cut]; auto; try lia.
    + apply sorted_snoc; [exact H7|]. rewrite Forall_forall in *. intros e He. specialize (H8 e He). cbn [snd]. lia.
    + apply Forall_app. split; [exact H8|]. constructor; [cbn [snd]; lia|constructor].
  - cbn [sd_cached]. unfold window_sum. rewrite Hwin. exact Hsum.
  - unfold window_sum. rewrite Hwin, <- Hsum. lia.
Qed.

(* ---------- what a successful spending call does ---------- *)
Lemma l_enforce_one_ok c s au a r sgs ctx s1 ev :
  l_enforce_one c s au a r sgs ctx = Ok (s1, ev) ->
  has_auth au a = true /\ sgs <> [] /\
  exists d amt d', kget (a, r) (st_spend s) = Some d /\ transfer_amount ctx = Some amt /\
    l_enforce_data c (now s) d amt = Ok d' /\
    s1 = set_spend s (kset (a, r) d' (st_spend s)) /\ ev = EvEnforced PL a r 0 amt (sd_cached d').
Proof.
  unfold l_enforce_one. intros H.
  destruct (has_auth au a); cbn [guard bind] in H; [|discriminate].
  destruct sgs as [|sg0 sgr]; [discriminate|].
  destruct (kget (a, r) (st_spend s)) as [d|]; cbn [of_option bind] in H; [|discriminate].
  destruct (transfer_amount ctx) as [amt|]; [|discriminate].
  destruct (l_enforce_data c (now s) d amt) as [d'|] eqn:Ed; cbn [bind] in H; [|discriminate].
  inversion H. split; [reflexivity|]. split; [discriminate|]. exists d, amt, d'. auto.
Qed.

Lemma l_install_ok s au a r l p s' :
  l_install s au a r l p = Ok s' ->
  has_auth au a = true /\ 0 < l /\ 0 < p /\ kget (a, r) (st_spend s) = None /\
  s' = set_spend s (kset (a, r) {| sd_limit := l; sd_period := p; sd_hist := []; sd_cached := 0 |} (st_spend s)).
Proof.
  unfold l_install. intros H.
  destruct (has_auth au a); cbn [guard bind] in H; [|discriminate].
  destruct (in_i128 l && in_u32 p) eqn:Hg; cbn [guard bind] in H; [|discriminate].
  destruct ((l <=? 0) || (p =? 0)) eqn:Hc; [discriminate|].
  destruct (kget (a, r) (st_spend s)); [discriminate|]. inversion H.
  apply andb_prop in Hg as [_ Hp]. unfold in_u32 in Hp. repeat split; auto; lia.
Qed.
Lemma l_set_limit_ok s au a r l s' :
  l_set_limit s au a r l = Ok s' ->
  has_auth au a = true /\ 0 < l /\ exists d, kget (a, r) (st_spend s) = Some d /\
  s' = set_spend s (kset (a, r) {| sd_limit := l; sd_period := sd_period d; sd_hist := sd_hist d; sd_cached := sd_cached d |} (st_spend s)).
Proof.
  unfold l_set_limit. intros H.
  destruct (has_auth au a); cbn [guard bind] in H; [|discriminate].
  destruct (in_i128 l); cbn [guard bind] in H; [|discriminate].
  destruct (l <=? 0) eqn:Hc; [discriminate|].
  destruct (kget (a, r) (st_spend s)) as [d|]; cbn [of_option bind] in H; [|discriminate]. inversion H.
  repeat split; auto; [lia|]. exists d. auto.
Qed.
Lemma l_uninstall_ok s au a r s' :
  l_uninstall s au a r = Ok s' ->
  has_auth au a = true /\ s' = set_spend s (kremove (a, r) (st_spend s)).
Proof.
  unfold l_uninstall. intros H. destruct (has_auth au a); cbn [guard bind] in H; [|discriminate].
  inversion H. auto.
Qed.

(* ---------- a whole batch ---------- *)
Definition batch_inst (nw : Z) (ctxs : list context) (i : linst) : linst :=
  match ctxs with
  | [] => i
  | _ :: _ => {| gi_limit := gi_limit i; gi_period := gi_period i;
                 gi_log := log_batch nw ctxs (gi_log i); gi_cut := nw - gi_period i |}
  end.

Lemma batch_inst_cons nw c r i amt : transfer_amount c = Some amt ->
  batch_inst nw (c :: r) i = batch_inst nw r (inst_push nw i amt).
Proof.
  intros H. unfold batch_inst, inst_push. cbn [log_batch]. rewrite H.
  destruct r as [|c2 r2]; cbn [log_batch gi_limit gi_period gi_log gi_cut]; reflexivity.
Qed.

Lemma l_batch_rel c au a r sgs : forall ctxs s d i s' evs,
  1 <= now s -> kget (a, r) (st_spend s) = Some d -> lrel (now s) i d ->
  enforce_batch c PL s au a r sgs ctxs = Ok (s', evs) ->
  exists d', kget (a, r) (st_spend s') = Some d' /\ lrel (now s) (batch_inst (now s) ctxs i) d' /\
    (forall k', k' <> (a, r) -> kget k' (st_spend s') = kget k' (st_spend s)) /\
    now s' = now s /\ st_simple s' = st_simple s /\ st_weighted s' = st_weighted s /\
    evs = l_events (now s) (gi_period i) a r ctxs (gi_log i) /\
    l_batch_ok (now s) (gi_limit i) (gi_period i) ctxs (gi_log i) = true /\
    (ctxs <> [] -> has_auth au a = true /\ sgs <> []).
Proof.
  induction ctxs as [|ctx rest IH]; intros s d i s' evs Hnw Hk Hrel H; cbn [enforce_batch] in H.
  - inversion H. subst s' evs. exists d. cbn [batch_inst l_events l_batch_ok].
    split; [exact Hk|]. split; [exact Hrel|]. split; [auto|]. do 5 (split; [reflexivity|]).
    intros Hne. exfalso. apply Hne. reflexivity.
  - cbn [enforce_one] in H.
    destruct (l_enforce_one c s au a r sgs ctx) as [[s1 ev]|] eqn:E1; cbn [bind fst snd] in H; [|discriminate].
    destruct (enforce_batch c PL s1 au a r sgs rest) as [[s2 evs2]|] eqn:E2; cbn [bind fst snd] in H; [|discriminate].
    inversion H. subst s' evs. clear H.
    apply l_enforce_one_ok in E1 as (Hau & Hsg & d0 & amt & d1 & Hk0 & Hamt & Hd & Hs1 & Hev).
    rewrite Hk in Hk0. inversion Hk0. subst d0. clear Hk0.
    destruct (l_enforce_data_rel c (now s) i d amt d1 Hnw Hrel Hd) as (Hrel1 & Hc1 & Hw1).
    assert (Hnow1 : now s1 = now s) by (subst s1; reflexivity).
    assert (Hk1 : kget (a, r) (st_spend s1) = Some d1) by (subst s1; cbn [st_spend set_spend]; apply kget_set_eq).
    assert (Hrel1' : lrel (now s1) (inst_push (now s) i amt) d1) by (rewrite Hnow1; exact Hrel1).
    destruct (IH s1 d1 (inst_push (now s) i amt) s2 evs2) as (d2 & Hk2 & Hrel2 & Hoth & Hn2 & Hs2 & Hw2 & Hevs & Hok & _);
      try assumption; try lia.
    exists d2. rewrite Hnow1 in *.
    split; [exact Hk2|]. split; [rewrite (batch_inst_cons _ _ _ _ _ Hamt); exact Hrel2|].
    split.
    { intros k' Hne. rewrite (Hoth k' Hne). subst s1. cbn [st_spend set_spend]. apply kget_set_neq. exact Hne. }
    split; [lia|]. split; [rewrite Hs2; subst s1; reflexivity|]. split; [rewrite Hw2; subst s1; reflexivity|].
    cbn [l_events l_batch_ok]. rewrite Hamt. cbn [inst_push gi_limit gi_period gi_log] in Hevs, Hok.
    split; [rewrite Hevs, Hev, Hc1; reflexivity|].
    split; [rewrite Hok; replace (window_sum (now s) (gi_period i) (gi_log i ++ [(amt, now s)]) <=? gi_limit i) with true by lia; reflexivity|].
    intros _. split; assumption.
Qed.

(* ---------- the relation on whole states ---------- *)
Definition grel (s : state) (g : ghost_l) : Prop :=
  forall k, match kget k g, kget k (st_spend s) with
            | None, None => True
            | Some i, Some d => lrel (now s) i d
            | _, _ => False
            end.

Lemma grel_init n0 : grel (init n0) [].
Proof. intros k. cbn. exact I. Qed.

Lemma grel_some s g k i : grel s g -> kget k g = Some i -> exists d, kget k (st_spend s) = Some d /\ lrel (now s) i d.
Proof. intros H Hk. specialize (H k). rewrite Hk in H. destruct (kget k (st_spend s)) as [d|]; [eauto|contradiction]. Qed.
Lemma grel_none s g k : grel s g -> kget k g = None -> kget k (st_spend s) = None.
Proof. intros H Hk. specialize (H k). rewrite Hk in H. destruct (kget k (st_spend s)); [contradiction|reflexivity]. Qed.
Lemma grel_some' s g k d : grel s g -> kget k (st_spend s) = Some d -> exists i, kget k g = Some i /\ lrel (now s) i d.
Proof. intros H Hk. specialize (H k). rewrite Hk in H. destruct (kget k g) as [i|]; [eauto|contradiction]. Qed.
Lemma grel_none' s g k : grel s g -> kget k (st_spend s) = None -> kget k g = None.
Proof. intros H Hk. specialize (H k). rewrite Hk in H. destruct (kget k g); [contradiction|reflexivity]. Qed.

(* updating one key on both sides *)
Lemma grel_set s g k i d s' :
  grel s g -> now s' = now s -> st_spend s' = kset k d (st_spend s) -> lrel (now s) i d ->
  grel s' (kset k i g).
Proof.
  intros H Hn Hs Hr k'. rewrite Hs, Hn. destruct (key_eqb k' k) eqn:E.
  - apply key_eqb_eq in E. subst k'. rewrite !kget_set_eq. exact Hr.
  - apply key_eqb_neq in E. rewrite !kget_set_neq by exact E. apply H.
Qed.
Lemma grel_remove s g k s' :
  grel s g -> now s' = now s -> st_spend s' = kremove k (st_spend s) -> grel s' (kremove k g).
Proof.
  intros H Hn Hs k'. rewrite Hs, Hn. destruct (key_eqb k' k) eqn:E.
  - apply key_eqb_eq in E. subst k'. rewrite !kget_remove_eq. exact I.
  - apply key_eqb_neq in E. rewrite !kget_remove_neq by exact E. apply H.
Qed.
Lemma grel_same s g s' : grel s g -> now s <= now s' -> st_spend s' = st_spend s -> grel s' g.
Proof.
  intros H Hn Hs k. rewrite Hs. specialize (H k).
  destruct (kget k g), (kget k (st_spend s)); auto. eapply lrel_advance; eauto.
Qed.
