(* The C12 monitor accepts every trace the model produces on well-formed call lists. *)
From SC Require Import Lib.Prelude Lib.Int Model.Math Proofs.Math Run.C12.
From Coq Require Import ZifyBool.

Lemma eqb_out_refl o : eqb_out o o = true.
Proof. destruct o as [[v|]|]; cbn; auto using Z.eqb_refl. Qed.

Lemma r128_iff z : r128 z = true <-> MIN128 <= z <= MAX128.
Proof. unfold r128. apply in_i128_iff. Qed.

Lemma spec_ok_model c : in_range_call c = true -> spec_ok c (run_call c) = true.
Proof.
  destruct c as [rd x y d|rd x y d|rd x y d|rd x y d|a b|a b|n d|n|x e|x e];
    cbn [in_range_call spec_ok run_call]; intros H.
  - apply andb_prop in H as [H Hd]; apply andb_prop in H as [Hx Hy].
    rewrite r128_iff in *. rewrite mul_div128_ok by auto. apply eqb_out_refl.
  - apply andb_prop in H as [H Hd]; apply andb_prop in H as [Hx Hy].
    rewrite r128_iff in *. rewrite checked_mul_div128_ok by auto. apply eqb_out_refl.
  - apply andb_prop in H as [H Hd]; apply andb_prop in H as [Hx Hy].
    destruct (d =? 0) eqn:Ed.
    + unfold mul_div256. rewrite Ed. reflexivity.
    + destruct (in_i256 (x * y)) eqn:Hp; [|reflexivity].
      rewrite in_i256_iff in *. rewrite mul_div256_ok by auto. apply eqb_out_refl.
  - apply andb_prop in H as [H Hd]; apply andb_prop in H as [Hx Hy].
    destruct (d =? 0) eqn:Ed.
    + unfold checked_mul_div256. rewrite Ed. reflexivity.
    + destruct (in_i256 (x * y)) eqn:Hp; [|reflexivity].
      rewrite in_i256_iff in *. rewrite checked_mul_div256_ok by auto. unfold spec_checked256.
      rewrite Ed. destruct (fit256 (exact rd (x * y) d)); cbn [lift256]; [apply eqb_out_refl|reflexivity].
  - apply andb_prop in H as [Ha Hb]. rewrite r128_iff in *. rewrite wad_checked_mul_ok by auto. apply eqb_out_refl.
  - apply andb_prop in H as [Ha Hb]. rewrite r128_iff in *. rewrite wad_checked_div_ok by auto. apply eqb_out_refl.
  - apply andb_prop in H as [Ha Hb]. rewrite r128_iff in *. rewrite wad_from_ratio_ok by auto.
    destruct (d =? 0); [reflexivity|]. destruct (fit128 (trunc_div (n * WAD) d)); apply eqb_out_refl.
  - unfold wad_from_integer, checked_mul. destruct (fit128 (n * WAD)); apply eqb_out_refl.
  - apply andb_prop in H as [Hx He]. rewrite r128_iff in Hx.
    assert (He' : 0 <= e < 2 ^ 32) by (unfold in_u32, MAXU32 in He; lia).
    pose proof (wad_checked_pow_no_trap x e Hx He') as Hn.
    destruct (wad_checked_pow x e) as [[v|]|]; cbn; auto.
  - reflexivity.
Qed.

Lemma pow_pair_model (prevc : option call) c :
  in_range_call c = true ->
  (match c with
   | WadPow x e => match prevc with Some (WadCPow x' e') => (x =? x') && (e =? e') | _ => false end
   | _ => true
   end) = true ->
  pow_pair_ok (option_map model_obs prevc) (model_obs c) = true.
Proof.
  intros Hc Hp. destruct c; cbn [model_obs pow_pair_ok]; auto.
  destruct prevc as [c'|]; [|discriminate]. destruct c'; try discriminate.
  cbn [option_map model_obs]. rewrite Hp. cbn [andb].
  assert (x0 = x /\ e0 = e) as [-> ->] by lia. cbn [run_call].
  cbn [in_range_call] in Hc. apply andb_prop in Hc as [Hx He]. rewrite r128_iff in Hx.
  assert (He' : 0 <= e < 2 ^ 32) by (unfold in_u32, MAXU32 in He; lia).
  pose proof (wad_checked_pow_no_trap x e Hx He') as Hn.
  unfold wad_pow. destruct (wad_checked_pow x e) as [[v|]|]; cbn [flatten bind]; auto using Z.eqb_refl.
Qed.

Theorem monitor_accepts_model : forall (cs : list call) (prevc : option call),
  forallb in_range_call cs = true -> paired prevc cs = true ->
  forall i, mon_from (option_map model_obs prevc) (map model_obs cs) i = 0%N.
Proof.
  induction cs as [|c cs IH]; intros prevc Hr Hp i; [reflexivity|].
  cbn [forallb] in Hr. apply andb_prop in Hr as [Hc Hcs].
  cbn [paired] in Hp. apply andb_prop in Hp as [Hp1 Hp2].
  cbn [map mon_from]. unfold mon_step.
  change (fst (model_obs c)) with c. change (snd (model_obs c)) with (run_call c).
  rewrite Hc, (spec_ok_model c Hc), (pow_pair_model prevc c Hc Hp1). cbn [andb].
  apply (IH (Some c)); auto.
Qed.

Lemma diff_accepts_model (cs : list call) : forall i,
  first_false step_ok (map model_obs cs) i = 0%N.
Proof.
  induction cs as [|c cs IH]; intros i; [reflexivity|].
  cbn [map first_false]. unfold step_ok at 1. cbn [model_obs fst snd]. rewrite eqb_out_refl.
  apply IH.
Qed.

Theorem check_accepts_model (cs : list call) :
  wf_calls cs = true -> check (map model_obs cs) = (0%N, 0%N, 0%N).
Proof.
  intros Hw. unfold wf_calls in Hw. apply andb_prop in Hw as [Hr Hp].
  unfold check. f_equal. f_equal.
  - apply diff_accepts_model.
  - apply (monitor_accepts_model cs None); auto.
Qed.

(* ---- the monitor is not trivially true: wrong answers and malformed traces are rejected ---- *)
Example monitor_rejects_wrong_floor :
  check [(MulDiv128 Floor (-7) 1 2, Ok (Some (-3)))] = (1%N, 1%N, 0%N).
Proof. vm_compute. reflexivity. Qed.
Example monitor_rejects_missed_overflow :
  snd (fst (check [(CMulDiv128 Truncate MIN128 1 (-1), Ok (Some MIN128))])) = 1%N.
Proof. vm_compute. reflexivity. Qed.
(* reviewer's traces (.cache/review/C12): reversed / separated pow pair, consistent-but-trapping
   checked_pow, value returned for d = 0 or for an unfitting I256 quotient, out-of-range input *)
Example monitor_rejects_reversed_pow_pair :
  snd (fst (check [(WadPow (2 * WAD) 2, Fail); (WadCPow (2 * WAD) 2, Ok (Some (4 * WAD)))])) = 1%N.
Proof. vm_compute. reflexivity. Qed.
Example monitor_rejects_separated_pow_pair :
  snd (fst (check [(WadCPow (2 * WAD) 2, Ok (Some (4 * WAD))); (WadFromInteger 1, Ok (Some WAD));
                   (WadPow (2 * WAD) 2, Fail)])) = 3%N.
Proof. vm_compute. reflexivity. Qed.
Example monitor_rejects_trapping_checked_pow :
  snd (fst (check [(WadCPow (2 * WAD) 2, Fail)])) = 1%N.
Proof. vm_compute. reflexivity. Qed.
Example monitor_rejects_value_for_zero_divisor_256 :
  snd (fst (check [(CMulDiv256 Floor MAX256 MAX256 0, Ok (Some 5))])) = 1%N /\
  snd (fst (check [(MulDiv256 Floor MAX256 2 0, Ok (Some 5))])) = 1%N.
Proof. vm_compute. split; reflexivity. Qed.
Example monitor_rejects_value_for_unfitting_quotient_256 :
  snd (fst (check [(CMulDiv256 Truncate MIN256 1 (-1), Ok (Some 0))])) = 1%N.
Proof. vm_compute. reflexivity. Qed.
Example monitor_rejects_wrong_from_integer :
  snd (fst (check [(WadFromInteger 3, Ok (Some 3))])) = 1%N.
Proof. vm_compute. reflexivity. Qed.
Example monitor_rejects_out_of_range_input :
  snd (fst (check [(WadCMul (MAX128 + 1) 1, Ok None)])) = 1%N.
Proof. vm_compute. reflexivity. Qed.
