(* The C12 monitor accepts every trace the model produces on in-range inputs. *)
From SC Require Import Lib.Prelude Lib.Int Model.Math Proofs.Math Run.C12.
From Coq Require Import ZifyBool.

Lemma eqb_out_refl o : eqb_out o o = true.
Proof. destruct o as [[v|]|]; cbn; auto using Z.eqb_refl. Qed.

Lemma r128_iff z : r128 z = true <-> MIN128 <= z <= MAX128.
Proof. unfold r128. apply in_i128_iff. Qed.

Lemma spec_matches_model c :
  in_range_call c = true ->
  match spec_call c with Some s => s = run_call c | None => True end.
Proof.
  destruct c as [rd x y d|rd x y d|rd x y d|rd x y d|a b|a b|n d|n|x e|x e];
    cbn [in_range_call spec_call run_call]; intros H.
  - apply andb_prop in H as [H Hd]; apply andb_prop in H as [Hx Hy].
    rewrite r128_iff in *. rewrite mul_div128_ok by auto. reflexivity.
  - apply andb_prop in H as [H Hd]; apply andb_prop in H as [Hx Hy].
    rewrite r128_iff in *. rewrite checked_mul_div128_ok by auto. reflexivity.
  - apply andb_prop in H as [H Hd]; apply andb_prop in H as [Hx Hy].
    destruct (in_i256 (x * y)) eqn:Hp; [|exact I].
    rewrite in_i256_iff in *. rewrite mul_div256_ok by auto. reflexivity.
  - apply andb_prop in H as [H Hd]; apply andb_prop in H as [Hx Hy].
    destruct (in_i256 (x * y)) eqn:Hp; [|exact I].
    rewrite in_i256_iff in *. rewrite checked_mul_div256_ok by auto. unfold spec_checked256.
    destruct (d =? 0); [reflexivity|]. destruct (fit256 (exact rd (x * y) d)); [reflexivity|exact I].
  - apply andb_prop in H as [Ha Hb]. rewrite r128_iff in *. rewrite wad_checked_mul_ok by auto. reflexivity.
  - apply andb_prop in H as [Ha Hb]. rewrite r128_iff in *. rewrite wad_checked_div_ok by auto. reflexivity.
  - apply andb_prop in H as [Ha Hb]. rewrite r128_iff in *. rewrite wad_from_ratio_ok by auto.
    destruct (d =? 0); [reflexivity|]. destruct (fit128 (trunc_div (n * WAD) d)); reflexivity.
  - exact I.
  - exact I.
  - exact I.
Qed.

Lemma pow_pair_model prev c :
  in_range_call c = true ->
  (forall c', prev = Some c' -> in_range_call (fst c') = true /\ c' = model_obs (fst c')) ->
  pow_pair_ok prev (model_obs c) = true.
Proof.
  intros Hc Hprev. destruct c; cbn [model_obs pow_pair_ok]; auto.
  destruct prev as [[c' o']|]; auto. destruct c'; auto.
  destruct (Hprev _ eq_refl) as [Hr Hm]. cbn [fst] in *. inversion Hm as [Ho']. clear Hm.
  destruct ((x =? x0) && (e =? e0)) eqn:E; auto.
  assert (x0 = x /\ e0 = e) as [-> ->] by lia. cbn [run_call].
  cbn [in_range_call] in Hc. apply andb_prop in Hc as [Hx He]. rewrite r128_iff in Hx.
  assert (He' : 0 <= e < 2 ^ 32) by (unfold in_u32, MAXU32 in He; lia).
  pose proof (wad_checked_pow_no_trap x e Hx He') as Hn.
  unfold wad_pow. destruct (wad_checked_pow x e) as [[v|]|]; cbn [flatten bind]; auto using Z.eqb_refl.
Qed.

Theorem monitor_accepts_model : forall (cs : list call) prev,
  forallb in_range_call cs = true ->
  (forall c', prev = Some c' -> in_range_call (fst c') = true /\ c' = model_obs (fst c')) ->
  forall i, mon_from prev (map model_obs cs) i = 0%N.
Proof.
  induction cs as [|c cs IH]; intros prev Hr Hprev i; [reflexivity|].
  cbn [forallb] in Hr. apply andb_prop in Hr as [Hc Hcs].
  cbn [map mon_from]. unfold mon_step.
  pose proof (spec_matches_model c Hc) as Hs. cbn [model_obs fst snd] in *.
  assert (H1 : match spec_call c with Some s => eqb_out s (run_call c) | None => true end = true).
  { destruct (spec_call c); [subst; apply eqb_out_refl|reflexivity]. }
  change (fst (c, run_call c)) with c. change (snd (c, run_call c)) with (run_call c).
  rewrite H1. change (c, run_call c) with (model_obs c).
  rewrite (pow_pair_model prev c Hc Hprev). cbn [andb].
  apply IH; auto. intros c' Hc'. inversion Hc'; subst. split; auto.
Qed.

Lemma diff_accepts_model (cs : list call) : forall i,
  first_false step_ok (map model_obs cs) i = 0%N.
Proof.
  induction cs as [|c cs IH]; intros i; [reflexivity|].
  cbn [map first_false]. unfold step_ok at 1. cbn [model_obs fst snd]. rewrite eqb_out_refl.
  apply IH.
Qed.

Theorem check_accepts_model (cs : list call) :
  forallb in_range_call cs = true -> check (map model_obs cs) = (0%N, 0%N, 0%N).
Proof.
  intros Hr. unfold check. f_equal. f_equal.
  - apply diff_accepts_model.
  - apply monitor_accepts_model; auto. intros c' H; discriminate.
Qed.

(* the monitor is not trivially true: a wrong answer is rejected *)
Example monitor_rejects_wrong_floor :
  check [(MulDiv128 Floor (-7) 1 2, Ok (Some (-3)))] = (1%N, 1%N, 0%N).
Proof. vm_compute. reflexivity. Qed.
Example monitor_rejects_missed_overflow :
  snd (fst (check [(CMulDiv128 Truncate MIN128 1 (-1), Ok (Some MIN128))])) = 1%N.
Proof. vm_compute. reflexivity. Qed.
