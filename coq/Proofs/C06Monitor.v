(* C06: the monitor of Run/C06.v accepts every run of the model (calls over the universe). *)
From SC Require Import Lib.Prelude Lib.Int Lib.Host Model.RoleTransfer Model.Access Model.AllowList Proofs.Access Run.C06.
From SC Require Proofs.RoleTransfer Run.C07 Proofs.C07Monitor.
From Coq Require Import Permutation.

(* ------------------------------------------------------------------ *)
(* lists, positions *)
Lemma inb_In : forall x l, inb x l = true <-> In x l.
Proof.
  intros x l. unfold inb. rewrite existsb_exists. split.
  - intros [y [H1 H2]]. apply N.eqb_eq in H2. subst. exact H1.
  - intros H. exists x. split; [exact H|apply N.eqb_refl].
Qed.

Lemma nodupb_NoDup : forall l, nodupb l = true <-> NoDup l.
Proof.
  induction l as [|x r IH]; cbn.
  - split; [constructor|reflexivity].
  - rewrite andb_true_iff, negb_true_iff, IH. split.
    + intros [H1 H2]. constructor; [|exact H2]. intros Hi. apply inb_In in Hi. unfold inb in Hi. congruence.
    + intros H. inversion H; subst. split; [|assumption].
      destruct (existsb (N.eqb x) r) eqn:E; [|reflexivity]. exfalso. apply H2. apply inb_In. exact E.
Qed.

Lemma index_of_nth : forall x l k, index_of x l = Some k -> nth_error l k = Some x.
Proof.
  intros x l. induction l as [|y r IH]; intros k H; cbn in H; [discriminate|].
  destruct (N.eqb_spec x y).
  - inversion H; subst. reflexivity.
  - destruct (index_of x r) as [k'|]; [|discriminate]. inversion H; subst. cbn. apply IH. reflexivity.
Qed.

Lemma index_of_in : forall x l, In x l -> exists k, index_of x l = Some k.
Proof.
  intros x l. induction l as [|y r IH]; intros H; [destruct H|]. cbn.
  destruct (N.eqb_spec x y); [eauto|]. destruct H as [H|H]; [congruence|].
  destruct (IH H) as [k ->]. eauto.
Qed.

Lemma index_of_none : forall x l, index_of x l = None -> ~ In x l.
Proof. intros x l H Hi. destruct (index_of_in x l Hi) as [k Hk]. congruence. Qed.

Lemma index_of_nodup : forall l k x, NoDup l -> nth_error l k = Some x -> index_of x l = Some k.
Proof.
  induction l as [|y r IH]; intros k x Hn H; [destruct k; discriminate|].
  inversion Hn; subst. destruct k as [|k]; cbn in *.
  - inversion H; subst. rewrite N.eqb_refl. reflexivity.
  - destruct (N.eqb_spec x y).
    + subst. exfalso. apply H2. eapply nth_error_In; eauto.
    + rewrite (IH k x H3 H). reflexivity.
Qed.

Lemma nth_o_map : forall A B (f : A -> option B) l k x, nth_error l k = Some x -> nth_o (map f l) k = f x.
Proof.
  intros A B f l. induction l as [|y r IH]; intros k x H; destruct k; cbn in *; try discriminate.
  - inversion H; subst. reflexivity.
  - apply IH. exact H.
Qed.

Lemma eqb_on_refl : forall a, eqb_on a a = true.
Proof. intros [a|]; cbn; [apply N.eqb_refl|reflexivity]. Qed.
Lemma eqb_list_refl : forall A (f : A -> A -> bool) l, (forall x, f x x = true) -> eqb_list f l l = true.
Proof. intros A f l H. induction l as [|x r IH]; cbn; [reflexivity|]. rewrite H, IH. reflexivity. Qed.
Lemma eqb_robs_refl : forall a, eqb_robs a a = true.
Proof.
  intros a. unfold eqb_robs. rewrite eqb_on_refl, N.eqb_refl, !eqb_list_refl; auto using eqb_on_refl.
Qed.
Lemma eqb_aobs_refl : forall a, eqb_aobs a a = true.
Proof.
  intros a. unfold eqb_aobs. rewrite eqb_on_refl, Proofs.C07Monitor.eqb_pv_refl.
  rewrite !eqb_list_refl; auto using eqb_on_refl, eqb_robs_refl, N.eqb_refl.
Qed.
Lemma eqb_membership_refl : forall m, eqb_membership m m = true.
Proof. intros m. unfold eqb_membership. apply eqb_list_refl. intros x. apply eqb_list_refl. intros []; reflexivity. Qed.

Lemma diff_model : forall c u cs s i, diff_from c u s (model_items c u s cs) i = 0%N.
Proof.
  intros c u cs. induction cs as [|cl r IH]; intros s i; [reflexivity|].
  cbn [model_items]. destruct (Access.step c s cl) as [s' ok] eqn:E. cbn [diff_from]. rewrite E.
  rewrite eqb_reflx, eqb_aobs_refl. cbn [andb]. apply IH.
Qed.

(* ------------------------------------------------------------------ *)
(* reading the model's observation *)

(* all holders and held roles belong to the universe *)
Definition Cl (u : universe) (s : st) : Prop :=
  forall a r, has_role s a r = true -> In a (u_accounts u) /\ In r (u_roles u).

Lemma role_obs_model : forall u s r,
  role_obs u (observe u s) r =
  match index_of r (u_roles u) with Some _ => Some (observe_role u s r) | None => None end.
Proof.
  intros u s r. unfold role_obs. destruct (index_of r (u_roles u)) as [k|] eqn:E; [|reflexivity].
  apply index_of_nth in E. cbn [observe ob_roles]. apply map_nth_error. exact E.
Qed.

Lemma obs_has_model : forall u s a r, Cl u s -> In a (u_accounts u) ->
  obs_has u (observe u s) a r = has_role s a r.
Proof.
  intros u s a r HC Ha. unfold obs_has. rewrite role_obs_model.
  destruct (index_of r (u_roles u)) as [kr|] eqn:Er.
  - destruct (index_of_in a _ Ha) as [ka Eka]. rewrite Eka. apply index_of_nth in Eka.
    cbn [observe_role ro_has]. rewrite (nth_o_map _ _ (fun a0 => a_has s a0 r) _ _ _ Eka). reflexivity.
  - apply index_of_none in Er. destruct (has_role s a r) eqn:Eh; [|reflexivity].
    exfalso. apply Er. apply (HC a r Eh).
Qed.

Lemma obs_role_admin_model : forall u s r, In r (u_roles u) ->
  obs_role_admin u (observe u s) r = a_role_admin s r.
Proof.
  intros u s r Hr. unfold obs_role_admin. rewrite role_obs_model.
  destruct (index_of_in r _ Hr) as [k ->]. reflexivity.
Qed.

Lemma obs_token_model : forall u s t, In t (u_tokens u) -> obs_token u (observe u s) t = n_owner (a_nft s) t.
Proof.
  intros u s t Ht. unfold obs_token. destruct (index_of_in t _ Ht) as [k Ek]. rewrite Ek.
  apply index_of_nth in Ek. cbn [observe ob_tokens]. apply (nth_o_map _ _ (n_owner (a_nft s))). exact Ek.
Qed.

Lemma obs_appr_model : forall u s t, In t (u_tokens u) -> obs_appr u (observe u s) t = approved_of (a_now s) (a_nft s) t.
Proof.
  intros u s t Ht. unfold obs_appr. destruct (index_of_in t _ Ht) as [k Ek]. rewrite Ek.
  apply index_of_nth in Ek. cbn [observe ob_approved]. apply (nth_o_map _ _ (approved_of (a_now s) (a_nft s))). exact Ek.
Qed.

Lemma obs_authority_model : forall u s r caller, Cl u s -> In caller (u_accounts u) -> In r (u_roles u) ->
  obs_authority u (observe u s) r caller = admin_or_admin_role s r caller.
Proof.
  intros u s r caller HC Hc Hr. unfold obs_authority, admin_or_admin_role.
  rewrite obs_role_admin_model by exact Hr. cbn [observe ob_admin].
  f_equal.
  - destruct (holder (a_rt s)); [apply N.eqb_sym|reflexivity].
  - destruct (a_role_admin s r) as [ar|]; [|reflexivity]. apply obs_has_model; assumption.
Qed.

Lemma membership_model : forall u s,
  membership (observe u s) = map (fun r => map (fun a => has_role s a r) (u_accounts u)) (u_roles u).
Proof.
  intros u s. unfold membership. cbn [observe ob_roles]. rewrite map_map. apply map_ext. intros r.
  cbn [observe_role ro_has]. rewrite map_map. reflexivity.
Qed.

Lemma set_nth_map : forall A (g : N -> A) l k x v, NoDup l -> index_of x l = Some k ->
  set_nth (map g l) k v = map (fun y => if N.eqb y x then v else g y) l.
Proof.
  intros A g l. induction l as [|y r IH]; intros k x v Hn H; [discriminate|].
  inversion Hn; subst. cbn in H. destruct (N.eqb_spec x y).
  - inversion H; subst. unfold set_nth. cbn. rewrite N.eqb_refl. f_equal.
    apply map_ext_in. intros z Hz. destruct (N.eqb_spec z y); [subst; contradiction|reflexivity].
  - destruct (index_of x r) as [k'|] eqn:E; [|discriminate]. inversion H; subst.
    unfold set_nth in *. cbn. destruct (N.eqb_spec y x); [congruence|]. f_equal. apply IH; assumption.
Qed.

Lemma nth_map_default : forall A B (g : A -> B) l k x d, nth_error l k = Some x -> nth k (map g l) d = g x.
Proof.
  intros A B g l. induction l as [|y r IH]; intros k x d H; destruct k; cbn in *; try discriminate.
  - inversion H; reflexivity.
  - apply IH; exact H.
Qed.

Lemma membership_set_model : forall u (f : addr -> role -> bool) a r v,
  NoDup (u_accounts u) -> NoDup (u_roles u) -> In a (u_accounts u) -> In r (u_roles u) ->
  membership_set u (map (fun r' => map (fun a' => f a' r') (u_accounts u)) (u_roles u)) a r v =
  map (fun r' => map (fun a' => if N.eqb a' a && N.eqb r' r then v else f a' r') (u_accounts u)) (u_roles u).
Proof.
  intros u f a r v Na Nr Ha Hr. unfold membership_set.
  destruct (index_of_in r _ Hr) as [kr Ekr]. destruct (index_of_in a _ Ha) as [ka Eka]. rewrite Ekr, Eka.
  rewrite (nth_map_default _ _ (fun r' => map (fun a' => f a' r') (u_accounts u)) _ _ r []) by (apply index_of_nth; exact Ekr).
  rewrite (set_nth_map _ (fun a' => f a' r) _ _ _ _ Na Eka).
  rewrite (set_nth_map _ (fun r' => map (fun a' => f a' r') (u_accounts u)) _ _ _ _ Nr Ekr).
  apply map_ext. intros r'. destruct (N.eqb_spec r' r).
  - subst. apply map_ext. intros a'. rewrite andb_true_r. reflexivity.
  - apply map_ext. intros a'. rewrite andb_false_r. reflexivity.
Qed.

(* ------------------------------------------------------------------ *)
(* the model's observations are consistent enumerations *)

Lemma forall_idx_spec : forall A (f : nat -> A -> bool) l i0,
  forall_idx f l i0 = true <-> (forall k x, nth_error l k = Some x -> f (i0 + k)%nat x = true).
Proof.
  intros A f l. induction l as [|y r IH]; intros i0; cbn.
  - split; [intros _ k x H; destruct k; discriminate|reflexivity].
  - rewrite andb_true_iff, IH. split.
    + intros [H1 H2] k x H. destruct k as [|k]; cbn in H.
      * inversion H; subst. rewrite Nat.add_0_r. exact H1.
      * replace (i0 + S k)%nat with (S i0 + k)%nat by lia. apply H2. exact H.
    + intros H. split.
      * specialize (H O y eq_refl). rewrite Nat.add_0_r in H. exact H.
      * intros k x Hk. replace (S i0 + k)%nat with (i0 + S k)%nat by lia. apply H. exact Hk.
Qed.

Lemma count_true_filter : forall A (p : A -> bool) l, count_true (map p l) = N.of_nat (length (filter p l)).
Proof.
  intros A p l. induction l as [|x r IH]; cbn; [reflexivity|]. rewrite IH. destruct (p x); cbn [length]; lia.
Qed.

Lemma nth_error_map_nseq : forall A (g : N -> A) n k x,
  nth_error (map g (nseq 0 n)) k = Some x -> (k < n)%nat /\ x = g (N.of_nat k).
Proof.
  intros A g n k x H.
  assert (Hk : (k < n)%nat).
  { assert (Hx : nth_error (map g (nseq 0 n)) k <> None) by congruence.
    apply nth_error_Some in Hx. rewrite map_length, nseq_length in Hx. exact Hx. }
  split; [exact Hk|]. rewrite nth_error_map, (nseq_nth _ 0%N _ Hk) in H. cbn in H. inversion H. rewrite N.add_0_l. reflexivity.
Qed.

Lemma nth_o_map_nseq : forall A (g : N -> option A) n j, (j < n)%nat -> nth_o (map g (nseq 0 n)) j = g (N.of_nat j).
Proof.
  intros A g n j Hj. unfold nth_o.
  assert (H : nth_error (map g (nseq 0 n)) j = Some (g (N.of_nat j))).
  { rewrite nth_error_map, (nseq_nth _ 0%N _ Hj). cbn. rewrite N.add_0_l. reflexivity. }
  apply nth_error_nth with (d := None) in H. exact H.
Qed.

Lemma role_consistent_model : forall u s r, Inv s -> Cl u s -> NoDup (u_accounts u) ->
  role_consistent u (observe_role u s r) = true.
Proof.
  intros u s r HI HC Na. pose proof (enumeration_exact s r HI) as E. cbn zeta in E.
  destruct E as [E1 [E2 [E3 [E4 [E5 E6]]]]]. destruct HI as [I1 _]. destruct (I1 r) as [A [B C]].
  unfold role_consistent. cbn [observe_role ro_count ro_has ro_members].
  rewrite !andb_true_iff. repeat split.
  - (* count = number of holders *)
    apply N.eqb_eq. rewrite map_map. rewrite (count_true_filter _ (fun a => is_some (a_has s a r))).
    rewrite <- E2. f_equal. apply Permutation_length. apply NoDup_Permutation; [exact E1|apply NoDup_filter; exact Na|].
    intros a. rewrite E3, filter_In. unfold abs, has_role. split.
    + intros H. split; [apply (HC a r H)|exact H].
    + tauto.
  - apply Nat.eqb_eq. apply map_length.
  - apply Nat.eqb_eq. rewrite map_length, nseq_length. reflexivity.
  - apply forall_idx_spec. intros k m Hk. cbn [Nat.add].
    apply nth_error_map_nseq in Hk. destruct Hk as [Hk ->].
    destruct (N.of_nat k <? a_count s r)%N eqn:El.
    + apply N.ltb_lt in El. destruct (C _ El) as [a Ha]. rewrite Ha. destruct (B _ _ Ha) as [_ Hh].
      assert (Hin : In a (u_accounts u)) by (apply (HC a r); unfold has_role; rewrite Hh; reflexivity).
      destruct (index_of_in a _ Hin) as [ka Eka]. rewrite Eka. apply index_of_nth in Eka.
      rewrite (nth_o_map _ _ (fun a0 => a_has s a0 r) _ _ _ Eka). rewrite Hh. apply eqb_on_refl.
    + apply N.ltb_ge in El. rewrite (E6 _ El). reflexivity.
  - apply forall_idx_spec. intros k h Hk. cbn [Nat.add].
    rewrite nth_error_map in Hk. destruct (nth_error (u_accounts u) k) as [a|] eqn:Ea; [|discriminate].
    cbn in Hk. inversion Hk; subst h. destruct (a_has s a r) as [i|] eqn:Eh; [|reflexivity].
    destruct (A _ _ Eh) as [Hi Hm]. apply andb_true_iff. split; [apply N.ltb_lt; exact Hi|].
    rewrite nth_o_map_nseq by lia. rewrite N2Nat.id. rewrite Hm. apply eqb_on_refl.
Qed.

Lemma obs_consistent_model : forall u s, Inv s -> Cl u s -> NoDup (u_accounts u) -> NoDup (u_roles u) ->
  obs_consistent u (observe u s) = true.
Proof.
  intros u s HI HC Na Nr. unfold obs_consistent. cbn [observe ob_roles].
  rewrite !andb_true_iff. repeat split.
  - apply Nat.eqb_eq. apply map_length.
  - apply forallb_forall. intros ro Hro. apply in_map_iff in Hro. destruct Hro as [r [<- _]].
    apply role_consistent_model; assumption.
  - unfold existing_consistent. cbn [observe ob_existing ob_roles].
    destruct (existing_exact s HI) as [X1 X2]. destruct HI as [I1 [I2 I3]].
    rewrite !andb_true_iff. repeat split.
    + apply nodupb_NoDup. exact I2.
    + apply forallb_forall. intros r Hr. rewrite role_obs_model.
      assert (Hin : In r (u_roles u)).
      { apply X2 in Hr. destruct Hr as [a Ha]. apply (HC a r Ha). }
      destruct (index_of_in r _ Hin) as [k ->]. cbn [observe_role ro_count]. apply N.ltb_lt. apply I3. exact Hr.
    + apply forall_idx_spec. intros k ro Hk. cbn [Nat.add].
      rewrite nth_error_map in Hk. destruct (nth_error (u_roles u) k) as [r|] eqn:Er; [|discriminate].
      cbn in Hk. inversion Hk; subst ro. cbn [observe_role ro_count].
      destruct (0 <? a_count s r)%N eqn:El; [|reflexivity].
      apply N.ltb_lt in El. apply I3 in El. apply inb_In. exact El.
Qed.

(* ------------------------------------------------------------------ *)
(* frame facts as the monitor reads them *)

Lemma wf_parts : forall h, wf_aheader h = true ->
  NoDup (u_accounts (ah_u h)) /\ NoDup (u_roles (ah_u h)) /\ NoDup (u_tokens (ah_u h)) /\
  Z.of_nat (length (u_accounts (ah_u h))) < MAXU32.
Proof.
  intros h H. unfold wf_aheader in H. rewrite !andb_true_iff in H. destruct H as [[[[A B] C] D] E].
  rewrite nodupb_NoDup in A, B, C. repeat split; auto. lia.
Qed.

Lemma role_admins_model : forall u s, role_admins (observe u s) = map (a_role_admin s) (u_roles u).
Proof. intros. unfold role_admins. cbn [observe ob_roles]. rewrite map_map. reflexivity. Qed.

Lemma same_admin_b : forall u s s', holder (a_rt s') = holder (a_rt s) ->
  eqb_on (ob_admin (observe u s')) (ob_admin (observe u s)) = true.
Proof. intros u s s' H. cbn [observe ob_admin]. rewrite H. apply eqb_on_refl. Qed.
Lemma same_ra_b : forall u s s', a_role_admin s' = a_role_admin s ->
  eqb_list eqb_on (role_admins (observe u s')) (role_admins (observe u s)) = true.
Proof. intros u s s' H. rewrite !role_admins_model, H. apply eqb_list_refl. apply eqb_on_refl. Qed.
Lemma same_own_b : forall u s s', n_owner (a_nft s') = n_owner (a_nft s) ->
  eqb_list eqb_on (ob_tokens (observe u s')) (ob_tokens (observe u s)) = true.
Proof. intros u s s' H. cbn [observe ob_tokens]. rewrite H. apply eqb_list_refl. apply eqb_on_refl. Qed.
Lemma same_appr_b : forall u s s', a_now s' = a_now s -> n_appr (a_nft s') = n_appr (a_nft s) ->
  eqb_list eqb_on (ob_approved (observe u s')) (ob_approved (observe u s)) = true.
Proof.
  intros u s s' Hn H. cbn [observe ob_approved].
  replace (map (approved_of (a_now s') (a_nft s')) (u_tokens u)) with (map (approved_of (a_now s) (a_nft s)) (u_tokens u)).
  - apply eqb_list_refl. apply eqb_on_refl.
  - apply map_ext. intros t. unfold approved_of. rewrite H, Hn. reflexivity.
Qed.
Lemma same_tok_b : forall u s s', a_now s' = a_now s -> a_nft s' = a_nft s ->
  eqb_list eqb_on (ob_tokens (observe u s')) (ob_tokens (observe u s)) &&
  eqb_list eqb_on (ob_approved (observe u s')) (ob_approved (observe u s)) = true.
Proof. intros u s s' Hn H. rewrite same_own_b, same_appr_b by (rewrite ?H; auto). reflexivity. Qed.
Lemma same_mem_b : forall u s s', (forall a r, has_role s' a r = has_role s a r) ->
  eqb_membership (membership (observe u s')) (membership (observe u s)) = true.
Proof.
  intros u s s' H. rewrite !membership_model.
  replace (map (fun r => map (fun a => has_role s' a r) (u_accounts u)) (u_roles u))
    with (map (fun r => map (fun a => has_role s a r) (u_accounts u)) (u_roles u)).
  - apply eqb_membership_refl.
  - apply map_ext. intros r. apply map_ext. intros a. symmetry. apply H.
Qed.

Lemma count_bound : forall u s r, Inv s -> Cl u s -> NoDup (u_accounts u) ->
  (a_count s r <= N.of_nat (length (u_accounts u)))%N.
Proof.
  intros u s r HI HC Na. pose proof (enumeration_exact s r HI) as E. cbn zeta in E.
  destruct E as [E1 [E2 [E3 _]]]. rewrite <- E2.
  assert (length (members_list s r) <= length (u_accounts u))%nat; [|lia].
  apply NoDup_incl_length; [exact E1|]. intros a Ha. apply E3 in Ha. apply (HC a r Ha).
Qed.

Lemma Cl_step : forall c u s cl, wf_call u cl = true -> Inv s -> Cl u s -> Cl u (fst (step c s cl)).
Proof.
  intros c u s cl Hw HI HC. destruct (step_spec c s cl HI) as [_ [HA _]].
  intros a r H. change (abs (fst (step c s cl)) a r = true) in H. rewrite HA in H. unfold abs_after in H.
  destruct (snd (step c s cl)); [|apply HC; exact H].
  destruct cl; try (apply HC; exact H).
  - apply orb_prop in H. destruct H as [H|H]; [apply HC; exact H|].
    apply andb_prop in H. destruct H as [E1 E2]. apply N.eqb_eq in E1, E2. subst.
    cbn in Hw. rewrite !andb_true_iff in Hw. destruct Hw as [[W1 W2] W3]. rewrite inb_In in W1, W2. auto.
  - apply andb_prop in H. destruct H as [H _]. apply HC; exact H.
  - apply andb_prop in H. destruct H as [H _]. apply HC; exact H.
Qed.

Lemma Cl_init : forall u start adm, Cl u (Access.init start adm).
Proof. intros u start adm a r H. unfold has_role, Access.init in H. cbn in H. discriminate. Qed.

Lemma admin_auth_model : forall u s au, admin_auth (observe u s) au = Proofs.Access.signed_by (holder (a_rt s)) au.
Proof. reflexivity. Qed.

(* ------------------------------------------------------------------ *)
(* one model step satisfies the monitor *)

Lemma no_admin_clause : forall c u s cl,
  match ob_admin (observe u s) with
  | None => negb (is_some (ob_admin (observe u (fst (step c s cl)))))
  | Some _ => true
  end = true.
Proof.
  intros c u s cl. cbn [observe ob_admin]. destruct (holder (a_rt s)) eqn:E; [reflexivity|].
  destruct (no_admin_step c s cl E) as [H _]. rewrite H. reflexivity.
Qed.

Lemma tokens_set_model : forall u s s' token k v,
  NoDup (u_tokens u) -> index_of token (u_tokens u) = Some k ->
  n_owner (a_nft s') = upd (n_owner (a_nft s)) token v ->
  eqb_list eqb_on (ob_tokens (observe u s')) (set_nth (ob_tokens (observe u s)) k v) = true.
Proof.
  intros u s s' token k v Nt Ek H. cbn [observe ob_tokens]. rewrite H.
  erewrite set_nth_map; [|exact Nt|exact Ek]. apply eqb_list_refl. apply eqb_on_refl.
Qed.

Lemma approved_unset_model : forall u s s' token k,
  NoDup (u_tokens u) -> index_of token (u_tokens u) = Some k ->
  a_now s' = a_now s -> n_appr (a_nft s') = upd (n_appr (a_nft s)) token None ->
  eqb_list eqb_on (ob_approved (observe u s')) (set_nth (ob_approved (observe u s)) k None) = true.
Proof.
  intros u s s' token k Nt Ek Hn H. cbn [observe ob_approved].
  erewrite set_nth_map; [|exact Nt|exact Ek].
  replace (map (approved_of (a_now s') (a_nft s')) (u_tokens u))
    with (map (fun y => if N.eqb y token then None else approved_of (a_now s) (a_nft s) y) (u_tokens u)).
  - apply eqb_list_refl. apply eqb_on_refl.
  - apply map_ext. intros t. unfold approved_of. rewrite H, Hn. unfold upd. destruct (N.eqb t token); reflexivity.
Qed.

Lemma appr_lapse : forall (f : nftst) now (n : N) l,
  eqb_list (fun x o' => match x with None => true | Some _ => eqb_on x o' end)
    (map (approved_of (now + Z.of_N n) f) l) (map (approved_of now f) l) = true.
Proof.
  intros f now n l. induction l as [|t r IH]; [reflexivity|]. cbn [map eqb_list].
  rewrite IH, andb_true_r. unfold approved_of. destruct (n_appr f t) as [[a lu]|]; [|reflexivity].
  destruct (lu <? now + Z.of_N n) eqn:E1; [reflexivity|].
  apply Z.ltb_ge in E1. assert (E2 : (lu <? now) = false) by (apply Z.ltb_ge; lia). rewrite E2. apply eqb_on_refl.
Qed.

Lemma mon_step_model : forall h s cl,
  wf_aheader h = true -> wf_call (ah_u h) cl = true -> Inv s -> Cl (ah_u h) s ->
  mon_step h (observe (ah_u h) s)
    (cl, snd (step (ah_cfg h) s cl), observe (ah_u h) (fst (step (ah_cfg h) s cl))) = true.
Proof.
  intros h s cl Hwf Hwc HI HC.
  destruct (wf_parts h Hwf) as [Na [Nr [Nt Hlen]]].
  set (u := ah_u h) in *. set (c := ah_cfg h) in *.
  pose proof (step_spec c s cl HI) as [HI' [HA HU]].
  pose proof (Cl_step c u s cl Hwc HI HC) as HC'.
  unfold mon_step. fold u.
  rewrite (obs_consistent_model u _ HI' HC' Na Nr). rewrite (no_admin_clause c u s cl). cbn [andb].
  unfold step in *. destruct (exec c s cl) as [s'|] eqn:E; cbn [fst snd] in *.
  2:{ (* a failing call: the state is the old one *)
    assert (SM : eqb_membership (membership (observe u s)) (membership (observe u s)) = true) by apply eqb_membership_refl.
    assert (SA : eqb_on (ob_admin (observe u s)) (ob_admin (observe u s)) = true) by apply eqb_on_refl.
    assert (SR : eqb_list eqb_on (role_admins (observe u s)) (role_admins (observe u s)) = true) by (apply eqb_list_refl; apply eqb_on_refl).
    assert (ST : eqb_list eqb_on (ob_tokens (observe u s)) (ob_tokens (observe u s)) = true) by (apply eqb_list_refl; apply eqb_on_refl).
    assert (SP : eqb_list eqb_on (ob_approved (observe u s)) (ob_approved (observe u s)) = true) by (apply eqb_list_refl; apply eqb_on_refl).
    destruct cl; cbn [wf_call] in Hwc; rewrite ?andb_true_iff, ?inb_In in Hwc; rewrite ?SM, ?SA, ?SR, ?ST, ?SP; cbn [andb].
    - (* Grant *) destruct Hwc as [[W1 W2] W3].
      rewrite (obs_authority_model u s r caller HC W3 W2), (obs_has_model u s account r HC W1).
      rewrite role_obs_model. destruct (index_of_in r _ W2) as [k ->]. cbn [observe_role ro_count observe ob_existing].
      apply negb_true_iff. destruct (has_auth auths caller) eqn:Ea; [|reflexivity].
      destruct (admin_or_admin_role s r caller) eqn:Eb; [|reflexivity]. cbn [andb].
      destruct (has_role s account r) eqn:Eh.
      + exfalso. cbn [exec] in E. unfold grant_role in E. rewrite Ea, Eb, Eh in E. discriminate.
      + cbn [orb].
        destruct (N.eqb (N.of_nat (length (a_existing s))) (ah_max_roles h)) eqn:Em; cbn [negb orb].
        * destruct (0 <? a_count s r)%N eqn:E0; [|reflexivity]. exfalso.
          pose proof (count_bound u s r HI HC Na).
          destruct (grant_succeeds c s auths account r caller Ea Eb) as [s' Hs'].
          { right. left. apply N.eqb_neq. apply N.ltb_lt in E0. lia. }
          { lia. }
          cbn [exec] in E. congruence.
        * exfalso. pose proof (count_bound u s r HI HC Na).
          destruct (grant_succeeds c s auths account r caller Ea Eb) as [s' Hs'].
          { right. right. exact Em. }
          { lia. }
          cbn [exec] in E. congruence.
    - (* Revoke *) destruct Hwc as [[W1 W2] W3].
      rewrite (obs_authority_model u s r caller HC W3 W2), (obs_has_model u s account r HC W1).
      apply negb_true_iff. destruct (has_auth auths caller) eqn:Ea; [|reflexivity].
      destruct (admin_or_admin_role s r caller) eqn:Eb; [|reflexivity]. cbn [andb].
      destruct (has_role s account r) eqn:Eh; [|reflexivity]. exfalso.
      destruct (revoke_succeeds s auths account r caller HI Ea Eb Eh) as [s' Hs']. cbn [exec] in E. congruence.
    - (* RenounceRole *) destruct Hwc as [W1 W2].
      rewrite (obs_has_model u s caller r HC W2).
      apply negb_true_iff. destruct (has_auth auths caller) eqn:Ea; [|reflexivity]. cbn [andb].
      destruct (has_role s caller r) eqn:Eh; [|reflexivity]. exfalso.
      destruct (renounce_role_succeeds s auths r caller HI Ea Eh) as [s' Hs']. cbn [exec] in E. congruence.
    - (* SetRoleAdmin *) rewrite admin_auth_model. rewrite set_role_admin_closed in E.
      destruct (Proofs.Access.signed_by (holder (a_rt s)) auths); [discriminate|reflexivity].
    - reflexivity.
    - reflexivity.
    - reflexivity.
    - (* AdminRestricted *) rewrite admin_auth_model.
      destruct (guard_semantics c s) as [G _]. specialize (G auths). unfold step in G. rewrite E in G. cbn in G. rewrite <- G. reflexivity.
    - (* Mint *) destruct Hwc as [[W1 W2] W3]. rewrite (obs_has_model u s caller _ HC W3).
      rewrite mint_closed in E. change (ah_minter h) with (minter c).
      destruct (has_role s caller (minter c) && has_auth auths caller); [discriminate|reflexivity].
    - (* MultiRoleAction *) unfold obs_any_role. rewrite !(obs_has_model u s caller _ HC Hwc).
      destruct (guard_semantics c s) as [_ [_ [_ [_ [_ [G _]]]]]]. specialize (G caller auths). unfold step in G. rewrite E in G.
      cbn [snd] in G. unfold abs in G. change (minter c) with (ah_minter h) in G. change (burner c) with (ah_burner h) in G.
      rewrite <- G. reflexivity.
    - unfold obs_any_role. rewrite !(obs_has_model u s caller _ HC Hwc).
      destruct (guard_semantics c s) as [_ [_ [_ [_ [_ [_ [G _]]]]]]]. specialize (G caller auths). unfold step in G. rewrite E in G.
      cbn [snd] in G. unfold abs in G. change (minter c) with (ah_minter h) in G. change (burner c) with (ah_burner h) in G.
      rewrite <- G. reflexivity.
    - (* Burn *) destruct Hwc as [W1 W2]. rewrite (obs_has_model u s from _ HC W1), (obs_token_model u s token W2).
      rewrite burn_closed in E. change (ah_burner h) with (burner c).
      destruct (has_role s from (burner c)); [|reflexivity]. destruct (has_auth auths from); [|reflexivity]. cbn [andb] in *.
      destruct (n_owner (a_nft s) token) as [o|]; [|reflexivity]. cbn [eqb_on]. destruct (N.eqb o from); [discriminate|reflexivity].
    - (* BurnFrom *) destruct Hwc as [[W1 W2] W3].
      rewrite (obs_has_model u s spender _ HC W1), (obs_token_model u s token W3), (obs_appr_model u s token W3).
      rewrite burn_from_closed in E. change (ah_burner h) with (burner c).
      destruct (has_role s spender (burner c)); [|reflexivity]. destruct (has_auth auths spender); [|reflexivity]. cbn [andb] in *.
      assert (Hap : eqb_on (approved_of (a_now s) (a_nft s) token) (Some spender) =
                    match approved_of (a_now s) (a_nft s) token with Some ap => N.eqb ap spender | None => false end).
      { destruct (approved_of (a_now s) (a_nft s) token); reflexivity. }
      rewrite Hap.
      destruct (N.eqb spender from || match approved_of (a_now s) (a_nft s) token with Some ap => N.eqb ap spender | None => false end); [|reflexivity].
      cbn [andb] in *. destruct (n_owner (a_nft s) token) as [o|]; [|reflexivity]. cbn [eqb_on]. destruct (N.eqb o from); [discriminate|reflexivity].
    - (* Approve *) reflexivity.
    - (* Advance never fails *) cbn [exec] in E. discriminate. }
  (* successful calls *)
  destruct cl; cbn [wf_call] in Hwc; rewrite ?andb_true_iff, ?inb_In in Hwc.
  - (* Grant *) destruct Hwc as [[W1 W2] W3]. cbn [exec] in E.
    destruct (grant_spec _ _ _ _ _ _ _ HI E) as [_ [_ [[R1 [R2 [R3 R4]]] D]]].
    destruct (grant_guards _ _ _ _ _ _ _ E) as [Ga Gb].
    rewrite (same_admin_b u s s') by (rewrite R2; reflexivity). rewrite (same_ra_b u s s' R3), (same_tok_b u s s' R1 R4). cbn [andb].
    rewrite (obs_authority_model u s r caller HC W3 W2), Ga, Gb. cbn [andb].
    rewrite !membership_model. rewrite (membership_set_model u (fun a r => has_role s a r) account r true Na Nr W1 W2).
    replace (map (fun r0 => map (fun a => has_role s' a r0) (u_accounts u)) (u_roles u))
      with (map (fun r' => map (fun a' => if N.eqb a' account && N.eqb r' r then true else has_role s a' r') (u_accounts u)) (u_roles u)).
    + apply eqb_membership_refl.
    + apply map_ext. intros r'. apply map_ext. intros a'. change (has_role s' a' r') with (abs s' a' r'). rewrite D.
      unfold abs. destruct (N.eqb a' account && N.eqb r' r); [rewrite orb_true_r|rewrite orb_false_r]; reflexivity.
  - (* Revoke *) destruct Hwc as [[W1 W2] W3]. cbn [exec] in E.
    destruct (revoke_spec _ _ _ _ _ _ HI E) as [_ [_ [[R1 [R2 [R3 R4]]] D]]].
    destruct (revoke_guards _ _ _ _ _ _ E) as [Ga [Gb Gc]].
    rewrite (same_admin_b u s s') by (rewrite R2; reflexivity). rewrite (same_ra_b u s s' R3), (same_tok_b u s s' R1 R4). cbn [andb].
    rewrite (obs_authority_model u s r caller HC W3 W2), Ga, Gb, (obs_has_model u s account r HC W1), Gc. cbn [andb].
    rewrite !membership_model. rewrite (membership_set_model u (fun a r => has_role s a r) account r false Na Nr W1 W2).
    replace (map (fun r0 => map (fun a => has_role s' a r0) (u_accounts u)) (u_roles u))
      with (map (fun r' => map (fun a' => if N.eqb a' account && N.eqb r' r then false else has_role s a' r') (u_accounts u)) (u_roles u)).
    + apply eqb_membership_refl.
    + apply map_ext. intros r'. apply map_ext. intros a'. change (has_role s' a' r') with (abs s' a' r'). rewrite D.
      unfold abs. destruct (N.eqb a' account && N.eqb r' r); cbn; [rewrite andb_false_r|rewrite andb_true_r]; reflexivity.
  - (* RenounceRole *) destruct Hwc as [W1 W2]. cbn [exec] in E.
    destruct (renounce_role_spec _ _ _ _ _ HI E) as [_ [_ [[R1 [R2 [R3 R4]]] D]]].
    destruct (renounce_role_guards _ _ _ _ _ E) as [Ga Gc].
    rewrite (same_admin_b u s s') by (rewrite R2; reflexivity). rewrite (same_ra_b u s s' R3), (same_tok_b u s s' R1 R4). cbn [andb].
    rewrite Ga, (obs_has_model u s caller r HC W2), Gc. cbn [andb].
    rewrite !membership_model. rewrite (membership_set_model u (fun a r => has_role s a r) caller r false Na Nr W2 W1).
    replace (map (fun r0 => map (fun a => has_role s' a r0) (u_accounts u)) (u_roles u))
      with (map (fun r' => map (fun a' => if N.eqb a' caller && N.eqb r' r then false else has_role s a' r') (u_accounts u)) (u_roles u)).
    + apply eqb_membership_refl.
    + apply map_ext. intros r'. apply map_ext. intros a'. change (has_role s' a' r') with (abs s' a' r'). rewrite D.
      unfold abs. destruct (N.eqb a' caller && N.eqb r' r); cbn; [rewrite andb_false_r|rewrite andb_true_r]; reflexivity.
  - (* SetRoleAdmin *) destruct Hwc as [W1 W2]. rewrite set_role_admin_closed in E. rewrite admin_auth_model.
    destruct (Proofs.Access.signed_by (holder (a_rt s)) auths); [|discriminate]. inversion E; subst s'; clear E.
    rewrite (same_mem_b u s) by reflexivity. rewrite (same_admin_b u s) by reflexivity. rewrite (same_tok_b u s) by reflexivity. cbn [andb].
    destruct (index_of_in r _ W1) as [k Ek]. rewrite Ek. rewrite !role_admins_model. cbn [a_role_admin].
    erewrite set_nth_map; [|exact Nr|exact Ek].
    apply eqb_list_refl. apply eqb_on_refl.
  - (* TransferAdmin *) cbn [exec] in E.
    destruct (offer (host c) (a_now s) auths new live_until (a_rt s)) as [rr|] eqn:Eo; [|discriminate]. inversion E; subst s'; clear E.
    assert (Hh : holder rr = holder (a_rt s) /\ Proofs.Access.signed_by (holder (a_rt s)) auths = true).
    { unfold offer in Eo. rewrite Proofs.RoleTransfer.enforce_closed in Eo. unfold Proofs.Access.signed_by.
      destruct (Proofs.RoleTransfer.signed_by (holder (a_rt s)) auths); [|discriminate].
      destruct (holder (a_rt s)); [|discriminate]. cbn [of_option bind] in Eo.
      destruct (transfer_role (host c) (a_now s) (pending (a_rt s)) new live_until); [|discriminate]. inversion Eo. auto. }
    destruct Hh as [Hh Hs].
    rewrite (same_mem_b u s) by reflexivity. rewrite (same_admin_b u s) by (cbn; exact Hh).
    rewrite (same_ra_b u s) by reflexivity. rewrite (same_tok_b u s) by reflexivity. cbn [andb].
    rewrite admin_auth_model. exact Hs.
  - (* AcceptAdmin *) cbn [exec] in E.
    destruct (accept AC (a_now s) auths (a_rt s)) as [rr|] eqn:Eo; [|discriminate]. inversion E; subst s'; clear E.
    rewrite (same_mem_b u s) by reflexivity. rewrite (same_ra_b u s) by reflexivity. rewrite (same_tok_b u s) by reflexivity. cbn [andb].
    cbn [observe ob_admin set_rt a_rt]. unfold accept, accept_transfer in Eo.
    destruct (holder (a_rt s)) as [hh|]; [|discriminate].
    destruct (tget (a_now s) (pending (a_rt s))) as [pa|]; [|discriminate].
    destruct (has_auth auths pa) eqn:Ea; [|discriminate]. inversion Eo. cbn. exact Ea.
  - (* RenounceAdmin *) cbn [exec] in E.
    destruct (renounce (a_now s) auths (a_rt s)) as [rr|] eqn:Eo; [|discriminate]. inversion E; subst s'; clear E.
    rewrite (same_mem_b u s) by reflexivity. rewrite (same_ra_b u s) by reflexivity. rewrite (same_tok_b u s) by reflexivity. cbn [andb].
    rewrite admin_auth_model. cbn [observe ob_admin set_rt a_rt]. unfold renounce in Eo.
    rewrite Proofs.RoleTransfer.enforce_closed in Eo. unfold Proofs.Access.signed_by.
    destruct (Proofs.RoleTransfer.signed_by (holder (a_rt s)) auths); [|discriminate].
    destruct (holder (a_rt s)); [|discriminate]. cbn [of_option bind] in Eo.
    destruct (tget (a_now s) (pending (a_rt s))); [discriminate|]. inversion Eo. reflexivity.
  - (* AdminRestricted *)
    destruct (guard_semantics c s) as [G _]. specialize (G auths). unfold step in G. rewrite E in G. cbn in G.
    cbn [exec] in E. destruct (enforce_holder_auth auths (a_rt s)); [|discriminate]. inversion E; subst s'.
    rewrite (same_mem_b u s) by reflexivity. rewrite (same_admin_b u s) by reflexivity.
    rewrite (same_ra_b u s) by reflexivity. rewrite (same_tok_b u s) by reflexivity. cbn [andb].
    rewrite admin_auth_model. rewrite <- G. reflexivity.
  - (* Mint *) destruct Hwc as [[W1 W2] W3]. rewrite mint_closed in E. rewrite (obs_has_model u s caller _ HC W3).
    change (ah_minter h) with (minter c).
    destruct (has_role s caller (minter c) && has_auth auths caller); [|discriminate]. inversion E; subst s'; clear E.
    rewrite (same_mem_b u s) by reflexivity. rewrite (same_admin_b u s) by reflexivity. rewrite (same_ra_b u s) by reflexivity. cbn [andb].
    destruct (index_of_in token _ W2) as [kt Ekt]. rewrite Ekt.
    rewrite (tokens_set_model u s _ token kt (Some to) Nt Ekt) by reflexivity.
    rewrite (same_appr_b u s) by reflexivity. reflexivity.
  - (* MultiRoleAction *)
    destruct (guard_semantics c s) as [_ [_ [_ [_ [_ [G _]]]]]]. specialize (G caller auths). unfold step in G. rewrite E in G. cbn [snd] in G.
    cbn [exec] in E. destruct (has_any_role c s caller); [|discriminate]. destruct (has_auth auths caller); [|discriminate]. inversion E; subst s'.
    rewrite (same_mem_b u s) by reflexivity. rewrite (same_admin_b u s) by reflexivity.
    rewrite (same_ra_b u s) by reflexivity. rewrite (same_tok_b u s) by reflexivity. cbn [andb].
    unfold obs_any_role. rewrite !(obs_has_model u s caller _ HC Hwc).
    unfold abs in G. change (minter c) with (ah_minter h) in G. change (burner c) with (ah_burner h) in G. rewrite <- G. reflexivity.
  - destruct (guard_semantics c s) as [_ [_ [_ [_ [_ [_ [G _]]]]]]]. specialize (G caller auths). unfold step in G. rewrite E in G. cbn [snd] in G.
    cbn [exec] in E. destruct (has_any_role c s caller); [|discriminate]. destruct (has_auth auths caller); [|discriminate]. inversion E; subst s'.
    rewrite (same_mem_b u s) by reflexivity. rewrite (same_admin_b u s) by reflexivity.
    rewrite (same_ra_b u s) by reflexivity. rewrite (same_tok_b u s) by reflexivity. cbn [andb].
    unfold obs_any_role. rewrite !(obs_has_model u s caller _ HC Hwc).
    unfold abs in G. change (minter c) with (ah_minter h) in G. change (burner c) with (ah_burner h) in G. rewrite <- G. reflexivity.
  - (* Burn *) destruct Hwc as [W1 W2]. rewrite burn_closed in E.
    rewrite (obs_has_model u s from _ HC W1), (obs_token_model u s token W2). change (ah_burner h) with (burner c).
    destruct (has_role s from (burner c)); [|discriminate]. destruct (has_auth auths from); [|discriminate]. cbn [andb] in *.
    destruct (n_owner (a_nft s) token) as [o|]; [|discriminate]. destruct (N.eqb_spec o from); [|discriminate]. subst o.
    inversion E; subst s'; clear E.
    rewrite (same_mem_b u s) by reflexivity. rewrite (same_admin_b u s) by reflexivity. rewrite (same_ra_b u s) by reflexivity. cbn [andb].
    cbn [eqb_on]. rewrite N.eqb_refl. cbn [Bool.eqb andb].
    destruct (index_of_in token _ W2) as [kt Ekt]. rewrite Ekt.
    rewrite (tokens_set_model u s _ token kt None Nt Ekt) by reflexivity.
    rewrite (approved_unset_model u s _ token kt Nt Ekt) by reflexivity. reflexivity.
  - (* BurnFrom *) destruct Hwc as [[W1 W2] W3]. rewrite burn_from_closed in E.
    rewrite (obs_has_model u s spender _ HC W1), (obs_token_model u s token W3), (obs_appr_model u s token W3). change (ah_burner h) with (burner c).
    destruct (has_role s spender (burner c)); [|discriminate]. destruct (has_auth auths spender); [|discriminate]. cbn [andb] in *.
    assert (Hap : eqb_on (approved_of (a_now s) (a_nft s) token) (Some spender) =
                  match approved_of (a_now s) (a_nft s) token with Some ap => N.eqb ap spender | None => false end).
    { destruct (approved_of (a_now s) (a_nft s) token); reflexivity. }
    rewrite Hap.
    destruct (N.eqb spender from || match approved_of (a_now s) (a_nft s) token with Some ap => N.eqb ap spender | None => false end); [|discriminate].
    cbn [andb] in *. destruct (n_owner (a_nft s) token) as [o|]; [|discriminate]. destruct (N.eqb_spec o from); [|discriminate]. subst o.
    inversion E; subst s'; clear E.
    rewrite (same_mem_b u s) by reflexivity. rewrite (same_admin_b u s) by reflexivity. rewrite (same_ra_b u s) by reflexivity. cbn [andb].
    cbn [eqb_on]. rewrite N.eqb_refl. cbn [Bool.eqb andb].
    destruct (index_of_in token _ W3) as [kt Ekt]. rewrite Ekt.
    rewrite (tokens_set_model u s _ token kt None Nt Ekt) by reflexivity.
    rewrite (approved_unset_model u s _ token kt Nt Ekt) by reflexivity. reflexivity.
  - (* Approve *) destruct Hwc as [[W1 W2] W3].
    destruct (approve_guards _ _ _ _ _ _ _ _ E) as [G1 [G2 [G3 [G4 [G5 [G6 [G7 G8]]]]]]].
    rewrite (same_mem_b u s) by (intros; unfold has_role; destruct G7 as [-> _]; reflexivity).
    rewrite (same_admin_b u s) by (rewrite G5; reflexivity). rewrite (same_ra_b u s s' G6). rewrite (same_own_b u s s' G4). cbn [andb].
    rewrite G1, (obs_token_model u s token W3), G2, eqb_on_refl. cbn [andb].
    rewrite (obs_appr_model u s' token W3), G8. apply eqb_on_refl.
  - (* Advance *) cbn [exec] in E. inversion E; subst s'.
    rewrite (same_mem_b u s) by reflexivity. rewrite (same_admin_b u s) by reflexivity.
    rewrite (same_ra_b u s) by reflexivity. rewrite (same_own_b u s) by reflexivity. cbn [andb].
    cbn [observe ob_approved a_now a_nft]. apply appr_lapse.
Qed.


Lemma forallb_forall_map_calls : forall h cs s,
  forallb (wf_call (ah_u h)) cs = true ->
  forallb (fun it : aitem => wf_call (ah_u h) (fst (fst it))) (model_items (ah_cfg h) (ah_u h) s cs) = true.
Proof.
  intros h cs. induction cs as [|cl r IH]; intros s Hw; [reflexivity|]. cbn [forallb] in Hw. apply andb_prop in Hw.
  cbn [model_items]. destruct (step (ah_cfg h) s cl) as [s' ok]. cbn [forallb fst]. rewrite (proj1 Hw). apply IH. tauto.
Qed.

(* ---- the hand-over clauses (C07's monitor on the admin projection) hold on every model step ---- *)
Module CM := Proofs.C07Monitor.

Lemma R_ext : forall q st st', now st = now st' -> rts st = rts st' -> CM.R q st -> CM.R q st'.
Proof. intros q st st' A B H. unfold CM.R in *. rewrite <- A, <- B. exact H. Qed.

Lemma proj_hand_call : forall cl, proj_call cl = hand_call cl.
Proof. intros cl; destruct cl; reflexivity. Qed.

Lemma wf_c07 : forall h, wf_aheader h = true -> C07.wf_header (c07_hd h) = true.
Proof. intros h H. unfold wf_aheader in H. rewrite !andb_true_iff in H. unfold C07.wf_header, c07_hd. cbn. tauto. Qed.

Lemma hand_step_model : forall h s cl q,
  wf_aheader h = true -> CM.R q (hand_state s) ->
  exists q', hand_step h q (cl, snd (step (ah_cfg h) s cl), observe (ah_u h) (fst (step (ah_cfg h) s cl))) = Some q' /\
             CM.R q' (hand_state (fst (step (ah_cfg h) s cl))).
Proof.
  intros h s cl q Hwf HR.
  destruct (CM.mon_step_model (c07_hd h) q (hand_state s) (hand_call cl) (wf_c07 h Hwf) HR) as [q' [M1 M2]].
  destruct (hand_step_proj (ah_cfg h) s cl) as [A [B C]]. cbn zeta in A, B, C.
  change (C07.h_kind (c07_hd h)) with AC in *. change (C07.h_cfg (c07_hd h)) with (host (ah_cfg h)) in *.
  exists q'. split.
  - unfold hand_step, proj_item. rewrite proj_hand_call. rewrite <- M1. f_equal. f_equal. f_equal; [f_equal|].
    + destruct cl; cbn [is_admin_call]; rewrite C; reflexivity.
    + unfold RoleTransfer.observe, RoleTransfer.pending_view. cbn [observe ob_admin ob_pending]. rewrite A, B. reflexivity.
  - eapply R_ext; [| |exact M2]; [exact A|exact B].
Qed.

Lemma calls_of_model_items : forall c u cs s, map (fun it => fst (fst it)) (model_items c u s cs) = cs.
Proof.
  intros c u cs. induction cs as [|cl r IH]; intros s; [reflexivity|]. cbn [model_items].
  destruct (step c s cl) as [s' ok]. cbn. rewrite IH. reflexivity.
Qed.

Lemma mon_model : forall h cs s q i,
  wf_aheader h = true -> forallb (wf_call (ah_u h)) cs = true -> Inv s -> Cl (ah_u h) s -> CM.R q (hand_state s) ->
  mon_from h (observe (ah_u h) s) q (model_items (ah_cfg h) (ah_u h) s cs) i = 0%N.
Proof.
  intros h cs. induction cs as [|cl r IH]; intros s q i Hwf Hw HI HC HR; [reflexivity|].
  cbn [forallb] in Hw. apply andb_prop in Hw. destruct Hw as [Hw1 Hw2].
  cbn [model_items]. pose proof (mon_step_model h s cl Hwf Hw1 HI HC) as M.
  destruct (hand_step_model h s cl q Hwf HR) as [q' [H1 H2]].
  pose proof (step_spec (ah_cfg h) s cl HI) as [HI' _].
  pose proof (Cl_step (ah_cfg h) (ah_u h) s cl Hw1 HI HC) as HC'.
  destruct (step (ah_cfg h) s cl) as [s' ok] eqn:E. cbn [fst snd] in *. cbn [mon_from]. rewrite M, H1. cbn [snd].
  apply IH; auto.
Qed.

Lemma init_obs_model : forall h, init_obs h = observe (ah_u h) (ah_init h).
Proof. intros h. reflexivity. Qed.

Lemma R_init_access : forall h, CM.R (C07.mon_init (c07_hd h)) (hand_state (ah_init h)).
Proof. intros h. unfold CM.R, C07.mon_init, hand_state, ah_init, Access.init. cbn. repeat split; auto. Qed.

Theorem check_model : forall h cs,
  wf_aheader h = true -> forallb (wf_call (ah_u h)) cs = true ->
  check (observe_model h cs) = (0%N, 0%N, 0%N).
Proof.
  intros h cs Hwf Hw. unfold check, observe_model. rewrite Hwf, eqb_aobs_refl. cbn [andb].
  rewrite diff_model.
  rewrite forallb_forall_map_calls by exact Hw. rewrite <- init_obs_model, eqb_aobs_refl. cbn [andb].
  rewrite init_obs_model.
  rewrite (mon_model h cs (ah_init h) _ 0%N Hwf Hw (Proofs.Access.inv_init _ _) (Cl_init _ _ _) (R_init_access h)). reflexivity.
Qed.

(* ---- the allow-list contract ---- *)
Lemma eqb_lb_refl : forall l, eqb_list Bool.eqb l l = true.
Proof. intros l. apply eqb_list_refl. intros []; reflexivity. Qed.
Lemma eqb_alobs_refl : forall a, eqb_alobs a a = true.
Proof. intros [a l]. unfold eqb_alobs. cbn. rewrite eqb_aobs_refl, eqb_lb_refl. reflexivity. Qed.

Lemma al_diff_model : forall c u cs s i, al_diff_from c u s (al_model_items c u s cs) i = 0%N.
Proof.
  intros c u cs. induction cs as [|cl r IH]; intros s i; [reflexivity|].
  cbn [al_model_items]. destruct (al_step c s cl) as [s' ok] eqn:E. cbn [al_diff_from]. rewrite E.
  rewrite eqb_reflx, eqb_alobs_refl. cbn [andb]. apply IH.
Qed.

Lemma al_mon_step_model : forall h s cl,
  wf_aheader (alh h) = true -> wf_alcall (ah_u (alh h)) cl = true ->
  Proofs.Access.Inv (al_s s) -> Cl (ah_u (alh h)) (al_s s) ->
  al_mon_step h (al_observe (ah_u (alh h)) s)
    (cl, snd (al_step (alh_cfg h) s cl), al_observe (ah_u (alh h)) (fst (al_step (alh_cfg h) s cl))) = true /\
  Proofs.Access.Inv (al_s (fst (al_step (alh_cfg h) s cl))) /\ Cl (ah_u (alh h)) (al_s (fst (al_step (alh_cfg h) s cl))).
Proof.
  intros h s cl Hwf Hw HI HC. destruct (wf_parts (alh h) Hwf) as [Na [Nr _]].
  set (u := ah_u (alh h)) in *.
  assert (Guarded : forall user op au v,
    inb user (u_accounts u) && inb op (u_accounts u) = true ->
    let r := if manager_guard (alh_cfg h) s op au
             then ({| al_s := al_s s; al_allowed := upd (al_allowed s) user v |}, true) else (s, false) in
    obs_consistent u (fst (al_observe u (fst r)))
    && eqb_membership (membership (fst (al_observe u (fst r)))) (membership (fst (al_observe u s)))
    && eqb_on (ob_admin (fst (al_observe u (fst r)))) (ob_admin (fst (al_observe u s)))
    && eqb_list eqb_on (role_admins (fst (al_observe u (fst r)))) (role_admins (fst (al_observe u s)))
    && Bool.eqb (snd r) (obs_has u (fst (al_observe u s)) op (alh_manager h) && has_auth au op)
    && eqb_list Bool.eqb (snd (al_observe u (fst r)))
         (if snd r then match index_of user (u_accounts u) with Some k => set_nth (snd (al_observe u s)) k v | None => snd (al_observe u s) end
          else snd (al_observe u s)) = true /\
    Proofs.Access.Inv (al_s (fst r)) /\ Cl u (al_s (fst r))).
  { intros user op au v Hin r. apply andb_prop in Hin. destruct Hin as [W1 W2]. rewrite inb_In in W1, W2.
    assert (Hs : al_s (fst r) = al_s s) by (subst r; destruct (manager_guard (alh_cfg h) s op au); reflexivity).
    split; [|rewrite Hs; auto].
    unfold al_observe. cbn [fst snd]. rewrite Hs.
    rewrite (obs_consistent_model u _ HI HC Na Nr), eqb_membership_refl, eqb_on_refl.
    rewrite (eqb_list_refl _ eqb_on) by apply eqb_on_refl. cbn [andb].
    rewrite (obs_has_model u (al_s s) op _ HC W2).
    subst r. unfold manager_guard. cbn [alh_cfg al_manager].
    destruct (has_role (al_s s) op (alh_manager h) && has_auth au op); cbn [fst snd Bool.eqb andb al_allowed].
    - destruct (index_of_in user _ W1) as [k Ek]. rewrite Ek.
      erewrite set_nth_map; [|exact Na|exact Ek]. unfold upd. apply eqb_lb_refl.
    - apply eqb_lb_refl. }
  destruct cl as [c|user op au|user op au]; cbn [wf_alcall] in Hw.
  - subst u. cbn [al_step]. pose proof (mon_step_model (alh h) (al_s s) c Hwf Hw HI HC) as M.
    pose proof (step_spec (ah_cfg (alh h)) (al_s s) c HI) as [HI' _].
    pose proof (Cl_step (ah_cfg (alh h)) (ah_u (alh h)) (al_s s) c Hw HI HC) as HC'.
    cbn [alh_cfg al_c]. destruct (Access.step (ah_cfg (alh h)) (al_s s) c) as [s' ok] eqn:E. cbn [fst snd] in *.
    split; [|split; assumption].
    unfold al_mon_step, al_observe. cbn [fst snd al_s al_allowed]. rewrite M. apply eqb_lb_refl.
  - cbn [al_step]. exact (Guarded user op au true Hw).
  - cbn [al_step]. exact (Guarded user op au false Hw).
Qed.

Lemma advance0_obs : forall c u s, observe u (fst (step c s (Advance 0))) = observe u s.
Proof.
  intros c u s. unfold step. cbn [exec fst]. unfold observe. cbn [a_now a_rt a_role_admin a_has a_member a_count a_existing a_nft].
  change (Z.of_N 0) with 0. rewrite Z.add_0_r. reflexivity.
Qed.

Lemma al_hand_step_model : forall h s cl q,
  wf_aheader (alh h) = true -> CM.R q (hand_state (al_s s)) ->
  exists q', hand_step (alh h) q (al_proj (cl, snd (al_step (alh_cfg h) s cl), al_observe (ah_u (alh h)) (fst (al_step (alh_cfg h) s cl)))) = Some q' /\
             CM.R q' (hand_state (al_s (fst (al_step (alh_cfg h) s cl)))).
Proof.
  intros h s cl q Hwf HR.
  assert (Neutral : forall s', al_s s' = al_s s ->
            exists q', hand_step (alh h) q (Advance 0, true, observe (ah_u (alh h)) (al_s s')) = Some q' /\ CM.R q' (hand_state (al_s s'))).
  { intros s' Hs. destruct (hand_step_model (alh h) (al_s s) (Advance 0) q Hwf HR) as [q' [A B]].
    rewrite advance0_obs in A. exists q'. rewrite Hs. split.
    - unfold step in A. cbn [exec snd] in A. exact A.
    - eapply R_ext; [| |exact B]; unfold step; cbn; [lia|reflexivity]. }
  destruct cl as [c|user op au|user op au]; cbn [al_step].
  - cbn [alh_cfg al_c]. destruct (hand_step_model (alh h) (al_s s) c q Hwf HR) as [q' [A B]].
    destruct (step (ah_cfg (alh h)) (al_s s) c) as [s' ok]. cbn [fst snd al_proj al_observe al_s] in *. eauto.
  - destruct (manager_guard (alh_cfg h) s op au); cbn [fst snd al_proj al_observe]; apply Neutral; reflexivity.
  - destruct (manager_guard (alh_cfg h) s op au); cbn [fst snd al_proj al_observe]; apply Neutral; reflexivity.
Qed.

Lemma al_mon_model : forall h cs s q i,
  wf_aheader (alh h) = true -> forallb (wf_alcall (ah_u (alh h))) cs = true ->
  Proofs.Access.Inv (al_s s) -> Cl (ah_u (alh h)) (al_s s) -> CM.R q (hand_state (al_s s)) ->
  al_mon_from h (al_observe (ah_u (alh h)) s) q (al_model_items (alh_cfg h) (ah_u (alh h)) s cs) i = 0%N.
Proof.
  intros h cs. induction cs as [|cl r IH]; intros s q i Hwf Hw HI HC HR; [reflexivity|].
  cbn [forallb] in Hw. apply andb_prop in Hw. destruct Hw as [Hw1 Hw2].
  cbn [al_model_items]. destruct (al_mon_step_model h s cl Hwf Hw1 HI HC) as [M [HI' HC']].
  destruct (al_hand_step_model h s cl q Hwf HR) as [q' [H1 H2]].
  destruct (al_step (alh_cfg h) s cl) as [s' ok] eqn:E. cbn [fst snd] in *. cbn [al_mon_from]. rewrite M, H1. cbn [snd].
  apply IH; auto.
Qed.

Lemma al_calls_wf : forall h cs s,
  forallb (wf_alcall (ah_u (alh h))) cs = true ->
  forallb (fun it : alitem => wf_alcall (ah_u (alh h)) (fst (fst it))) (al_model_items (alh_cfg h) (ah_u (alh h)) s cs) = true.
Proof.
  intros h cs. induction cs as [|cl r IH]; intros s Hw; [reflexivity|]. cbn [forallb] in Hw. apply andb_prop in Hw.
  cbn [al_model_items]. destruct (al_step (alh_cfg h) s cl) as [s' ok]. cbn [forallb fst]. rewrite (proj1 Hw). apply IH. tauto.
Qed.

(* the initial observation demanded by the monitor is the constructor's state of the model *)
Lemma al_init_obs_model : forall h, wf_alheader h = true -> al_init_obs h = al_observe (ah_u (alh h)) (alh_init h).
Proof.
  intros h Hwa. unfold wf_alheader in Hwa. destruct (ah_admin (alh h)) as [adm|] eqn:Ea; [|discriminate].
  rewrite !andb_true_iff in Hwa. destruct Hwa as [[[A1 A2] A3] A4]. apply negb_true_iff in A4.
  unfold al_init_obs, al_observe, alh_init, al_init. rewrite Ea. cbn [al_s al_allowed alh_cfg al_c al_manager].
  unfold step. cbn [exec]. unfold grant_role, has_auth. cbn [existsb]. rewrite N.eqb_refl. cbn [orb guard bind].
  unfold admin_or_admin_role. cbn [Access.init a_rt holder]. rewrite N.eqb_refl. cbn [orb guard bind].
  unfold has_role at 1. cbn [Access.init a_has is_some].
  unfold add_to_role_enumeration. cbn [Access.init a_count a_existing length N.of_nat].
  change (N.eqb 0 0) with true. cbv iota.
  rewrite N.eqb_sym in A4. change (max_roles (ah_cfg (alh h))) with (ah_max_roles (alh h)). rewrite A4. cbn [bind]. change (Z.of_N 0 + 1 <=? MAXU32) with true. cbn [guard bind fst].
  f_equal.
  - unfold observe. cbn [a_rt a_now a_role_admin a_has a_member a_count a_existing a_nft holder pending tlive_at n_owner n_appr app].
    f_equal.
    + apply map_ext. intros r. unfold observe_role. cbn [a_role_admin a_has a_member a_count]. unfold upd, upd2.
      destruct (N.eqb r (alh_manager h)) eqn:Er; cbn [N.add]; f_equal;
        try reflexivity;
        try (apply map_ext; intros a; rewrite ?Er, ?andb_true_r, ?andb_false_r; reflexivity);
        try (cbn; rewrite ?Er, ?andb_true_r, ?andb_false_r; cbn; rewrite ?Er, ?andb_false_r; reflexivity).
  - apply map_ext. intros a. unfold upd. destruct (N.eqb a adm); reflexivity.
Qed.

Theorem check_model_allow : forall h cs,
  wf_aheader (alh h) = true -> wf_alheader h = true -> forallb (wf_alcall (ah_u (alh h))) cs = true ->
  check (observe_model_allow h cs) = (0%N, 0%N, 0%N).
Proof.
  intros h cs Hwf Hwa Hw. unfold check, observe_model_allow. rewrite Hwf, Hwa, eqb_alobs_refl. cbn [andb].
  rewrite al_diff_model. rewrite (al_calls_wf h cs _ Hw). rewrite <- (al_init_obs_model h Hwa), eqb_alobs_refl. cbn [andb].
  rewrite (al_init_obs_model h Hwa).
  pose proof Hwa as Hwa'. unfold wf_alheader in Hwa'. destruct (ah_admin (alh h)) as [adm|] eqn:Ea; [|discriminate].
  rewrite !andb_true_iff in Hwa'. destruct Hwa' as [[[A1 A2] A3] A4].
  set (g := Grant (alh_macct h) (alh_manager h) adm [adm]).
  assert (Hg : wf_call (ah_u (alh h)) g = true).
  { unfold g. cbn [wf_call]. unfold inb. rewrite A1, A2, A3. reflexivity. }
  assert (HI : Proofs.Access.Inv (al_s (alh_init h))).
  { unfold alh_init, al_init. rewrite Ea. cbn [al_s alh_cfg al_c al_manager]. apply step_spec. apply Proofs.Access.inv_init. }
  assert (HC : Cl (ah_u (alh h)) (al_s (alh_init h))).
  { unfold alh_init, al_init. rewrite Ea. cbn [al_s alh_cfg al_c al_manager]. apply Cl_step; [exact Hg|apply Proofs.Access.inv_init|apply Cl_init]. }
  assert (HR : CM.R (C07.mon_init (c07_hd (alh h))) (hand_state (al_s (alh_init h)))).
  { unfold alh_init, al_init. rewrite Ea. cbn [al_s alh_cfg al_c al_manager].
    destruct (hand_step_proj (ah_cfg (alh h)) (Access.init (ah_start (alh h)) (Some adm)) g) as [P1 [P2 _]].
    eapply R_ext; [| |apply (R_init_access (alh h))].
    - unfold g in P1. cbn [hand_state now]. unfold ah_init. rewrite Ea. rewrite <- P1. cbn. lia.
    - unfold g in P2. cbn [hand_state rts]. unfold ah_init. rewrite Ea. rewrite <- P2. cbn. reflexivity. }
  rewrite (al_mon_model h cs (alh_init h) _ 0%N Hwf Hw HI HC HR). reflexivity.
Qed.

(* ---- the ownable half ---- *)
Import Proofs.RoleTransfer.

Lemma own_step_model : forall k c s cl, 1 <= min_temp_ttl c -> J s ->
  own_step (holder (rts s)) (cl, snd (RoleTransfer.step k c s cl), RoleTransfer.observe (fst (RoleTransfer.step k c s cl))) = true.
Proof.
  intros k c s cl Hmin HJ. unfold own_step. cbn [RoleTransfer.observe fst].
  destruct (holder (rts s)) as [a|] eqn:Eh.
  - pose proof (ev_of_facts k c s cl Hmin) as F. cbn zeta in F. unfold ev_of, holder_signed in F.
    cbn [ev_out ev_now ev_after ev_holder] in F. rewrite Eh in F. unfold Proofs.RoleTransfer.signed_by in F.
    destruct cl as [new lu au|au|au|au|n].
    + destruct F as [_ [F2 F3]]. rewrite F3. rewrite eqb_on_refl, andb_true_r.
      destruct (is_ok (snd (RoleTransfer.step k c s (Offer new lu au)))); [apply F2; reflexivity|reflexivity].
    + destruct (is_ok (snd (RoleTransfer.step k c s (Accept au)))).
      * destruct F as [b [F1 F2]]. rewrite F1. exact F2.
      * rewrite F. apply eqb_on_refl.
    + destruct (is_ok (snd (RoleTransfer.step k c s (Renounce au)))).
      * destruct F as [F1 F2]. rewrite F1, F2. reflexivity.
      * rewrite F. apply eqb_on_refl.
    + destruct F as [F1 F2]. rewrite F1, F2. rewrite eqb_on_refl, eqb_reflx. reflexivity.
    + destruct F as [_ F2]. rewrite F2. apply eqb_on_refl.
  - destruct (dead_step k c s cl Eh HJ) as [[n ->]|Hs].
    + cbn. rewrite Eh. reflexivity.
    + rewrite Hs. cbn [fst snd]. rewrite Eh. cbn. destruct cl; reflexivity.
Qed.

Lemma own_model : forall hd cs s q i, C07.wf_header hd = true -> J s -> CM.R q s ->
  own_from hd (holder (rts s)) q (C07.model_items (C07.h_kind hd) (C07.h_cfg hd) s cs) i = 0%N.
Proof.
  intros hd cs. induction cs as [|cl r IH]; intros s q i Hwf HJ HR; [reflexivity|].
  assert (Hmin : 1 <= min_temp_ttl (C07.h_cfg hd)) by (unfold C07.wf_header in Hwf; cbn; lia).
  cbn [C07.model_items]. pose proof (own_step_model (C07.h_kind hd) (C07.h_cfg hd) s cl Hmin HJ) as M.
  destruct (CM.mon_step_model hd q s cl Hwf HR) as [q' [H1 H2]].
  pose proof (J_step (C07.h_kind hd) (C07.h_cfg hd) s cl HJ) as HJ'.
  destruct (RoleTransfer.step (C07.h_kind hd) (C07.h_cfg hd) s cl) as [s' o] eqn:E. cbn [fst snd] in *.
  cbn [own_from]. rewrite M, H1. cbn [snd fst RoleTransfer.observe]. apply IH; assumption.
Qed.

Theorem check_model_own : forall hd cs,
  C07.wf_header hd = true ->
  check (observe_model_own hd cs) = (0%N, 0%N, 0%N).
Proof.
  intros hd cs Hwf. unfold check, observe_model_own. rewrite Hwf.
  rewrite Proofs.C07Monitor.diff_model.
  pose proof (own_model hd cs (C07.h_init hd) (C07.mon_init hd) 0%N Hwf (J_init _ _) (CM.R_init hd)) as M.
  unfold C07.h_init in *. cbn [RoleTransfer.init rts holder] in M. rewrite M. reflexivity.
Qed.
