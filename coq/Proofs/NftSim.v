(* The simulation between model runs and the reference bookkeeping, over whole call
   sequences; the model's own trace has an empty diff. *)
From SC Require Import Lib.Prelude Lib.Int Lib.Host Model.Nft Run.NftCommon Proofs.NftMaps Proofs.NftFrame
  Proofs.NftInv Proofs.NftCons Proofs.NftOwn.
Local Open Scope N_scope.

Definition Sim (fl : flavour) (s : state) (g : ghost) : Prop := CoreInv s g /\ OwnInv fl s g.

Lemma sim_init fl now0 : Sim fl (init now0) (ghost0 now0).
Proof. split; [apply core_init | apply own_init]. Qed.

Lemma step_cases fl c s cl :
  (exists s' r, exec fl c s cl = Ok (s', r) /\ step fl c s cl = (s', Ok r)) \/
  (exec fl c s cl = Fail /\ step fl c s cl = (s, Fail)).
Proof.
  unfold step. destruct (exec fl c s cl) as [[s' r]|]; [left; exists s', r; auto | right; auto].
Qed.

Lemma sim_step fl c s g cl :
  Sim fl s g -> Sim fl (fst (step fl c s cl)) (ghost_step g cl (snd (step fl c s cl))).
Proof.
  intros [Hc Ho]. destruct (step_cases fl c s cl) as [(s'&r&He&->)|[He ->]]; cbn [fst snd].
  - split; [eapply core_step; [exact Hc | apply exec_ok; exact He] | eapply own_step; eassumption].
  - cbn [ghost_step]. split; assumption.
Qed.

(* the state and the reference after a whole call sequence *)
Fixpoint run_sg (fl : flavour) (c : cfg) (s : state) (g : ghost) (cs : list call) : state * ghost :=
  match cs with
  | [] => (s, g)
  | cl :: r => run_sg fl c (fst (step fl c s cl)) (ghost_step g cl (snd (step fl c s cl))) r
  end.
Lemma run_sg_sim fl c cs : forall s g, Sim fl s g -> Sim fl (fst (run_sg fl c s g cs)) (snd (run_sg fl c s g cs)).
Proof.
  induction cs as [|cl r IH]; intros s g H; cbn [run_sg]; [exact H|]. apply IH. apply sim_step. exact H.
Qed.
Lemma run_sg_state fl c cs : forall s g, fst (run_sg fl c s g cs) = run fl c s cs.
Proof.
  induction cs as [|cl r IH]; intros s g; cbn [run_sg run fold_left]; [reflexivity|]. apply IH.
Qed.

(* ---------- the model's own trace has an empty diff ---------- *)
Lemma on_eqb_refl a : on_eqb a a = true.
Proof. destruct a; cbn; [apply N.eqb_refl | reflexivity]. Qed.
Lemma list_eqb_refl {A} (f : A -> A -> bool) : (forall x, f x x = true) -> forall l, list_eqb f l l = true.
Proof. intros Hf. induction l as [|a r IH]; cbn; [reflexivity|]. rewrite Hf, IH. reflexivity. Qed.
Lemma out_eqb_refl o : out_eqb o o = true.
Proof. destruct o; cbn; [apply on_eqb_refl | reflexivity]. Qed.
Lemma peqb_refl k : peqb k k = true.
Proof. apply peqb_spec. reflexivity. Qed.
Lemma obs_eqb_refl o : obs_eqb o o = true.
Proof.
  unfold obs_eqb. rewrite !N.eqb_refl. cbn [andb].
  rewrite !list_eqb_refl; try reflexivity.
  - intros [a l]. cbn [fst snd]. rewrite N.eqb_refl. cbn [andb]. apply list_eqb_refl. apply on_eqb_refl.
  - apply on_eqb_refl.
  - intros [k v]. cbn [fst snd]. rewrite peqb_refl. destruct v; reflexivity.
  - intros [a v]. cbn [fst snd]. rewrite N.eqb_refl, on_eqb_refl. reflexivity.
  - intros [a v]. cbn [fst snd]. rewrite !N.eqb_refl. reflexivity.
  - intros [a v]. cbn [fst snd]. rewrite N.eqb_refl, on_eqb_refl. reflexivity.
Qed.

Lemma map_key_idem {K V W} (F : K -> V) (l : list (K * W)) :
  map (fun p : K * V => (fst p, F (fst p))) (map (fun p : K * W => (fst p, F (fst p))) l)
  = map (fun p : K * W => (fst p, F (fst p))) l.
Proof. rewrite map_map. apply map_ext. intros [k w]. reflexivity. Qed.
Lemma mapi_from_idem {A B} (G : N -> B) (l : list A) k :
  mapi_from (fun i (_ : B) => G i) k (mapi_from (fun i (_ : A) => G i) k l) = mapi_from (fun i (_ : A) => G i) k l.
Proof. revert k. induction l as [|a r IH]; intros k; cbn [mapi_from]; [reflexivity|]. rewrite IH. reflexivity. Qed.

Lemma model_obs_idem fl c s sh : model_obs fl c s (model_obs fl c s sh) = model_obs fl c s sh.
Proof.
  unfold model_obs. cbn [o_owner o_bal o_appr o_oper o_glob o_otok].
  rewrite (map_key_idem (owner_of fl c s)), (map_key_idem (balance s)), (map_key_idem (get_approved s)).
  f_equal.
  - rewrite map_map. apply map_ext. intros [[a b] v]. reflexivity.
  - apply mapi_from_idem.
  - rewrite map_map. apply map_ext. intros [a l]. cbn [fst snd]. f_equal. apply mapi_from_idem.
Qed.

Lemma diff_model_steps fl c l : forall s i, diff_from fl c s (model_steps fl c s l) i = 0.
Proof.
  induction l as [|[cl sh] r IH]; intros s i; cbn [model_steps diff_from]; [reflexivity|].
  destruct (step fl c s cl) as [s' o'] eqn:E. cbn [diff_from]. rewrite E.
  rewrite out_eqb_refl, model_obs_idem, obs_eqb_refl. cbn [andb]. apply IH.
Qed.
Lemma diff_model_trace fl c now0 full l : diff (model_trace fl c now0 full l) = 0.
Proof. unfold diff, model_trace. cbn. apply diff_model_steps. Qed.
