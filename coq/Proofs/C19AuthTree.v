(* C19: a fresh approval inside a forward is authorised UNDER the user's signed forward tree: the
   token.approve invocation is a sub-invocation of an entry signed by the user whose root was
   matched by the forward frame itself (the user's tuple - or, when user = relayer, possibly the
   relayer's argument list).  A separately signed root `approve` does not count (the host refuses
   to start a new root while a tracker of the same address is active). *)
From SC Require Import Lib.Prelude Lib.Int Lib.Host Model.FeeForwarder Proofs.FeeForwarder
  Run.C19 Proofs.FeeForwarderAllow Proofs.FeeForwarderFwd.

Section Tree.
  Variables (user relayer : addr) (f1 f2 : func).

  (* trackers as they can look while the forward frame runs *)
  Definition good (t : tracker) : Prop :=
    tk_done t = false /\
    (tk_m0 t = true ->
     tk_root_ex t = true /\
     ((tk_who t = relayer /\ en_root (tk_entry t) = f1) \/ (tk_who t = user /\ en_root (tk_entry t) = f2))).

  Lemma good_init e : good (init_tracker e).
  Proof. split; cbn; [reflexivity|discriminate]. Qed.

  Lemma try_outer_good allow who f t t' :
    (who = relayer /\ f = f1) \/ (who = user /\ f = f2) ->
    tk_who t = who -> good t -> try_tracker false allow f t = Some t' ->
    good t' /\ tk_who t' = who /\ tk_m0 t' = true.
  Proof.
    intros Hf Hw [Hd Hm]. unfold try_tracker. cbn [cur_matched andb].
    destruct (tk_m0 t) eqn:E0; [discriminate|].
    destruct (negb (tk_root_ex t) && allow && func_eqb (en_root (tk_entry t)) f) eqn:E; [|discriminate].
    intros H. inversion H; subst t'. clear H.
    apply andb_true_iff in E. destruct E as [_ E]. apply func_eqb_eq in E.
    unfold good, tk_who in *. cbn. repeat split; auto.
    destruct Hf as [[-> ->]|[-> ->]]; [left|right]; auto.
  Qed.

  Lemma req_outer_good allow who f ts ts' :
    (who = relayer /\ f = f1) \/ (who = user /\ f = f2) ->
    Forall good ts -> req_loop false allow who f ts = Some ts' ->
    Forall good ts' /\ exists t, In t ts' /\ tk_who t = who /\ tk_m0 t = true.
  Proof.
    intros Hf. revert ts'. induction ts as [|t r IH]; intros ts' Hg H; cbn in H; [discriminate|].
    inversion Hg as [|? ? Hgt Hgr]; subst.
    destruct (N.eqb (tk_who t) who) eqn:Ew.
    - apply N.eqb_eq in Ew. destruct (try_tracker false allow f t) as [t1|] eqn:E.
      + inversion H; subst ts'. destruct (try_outer_good _ _ _ _ _ Hf Ew Hgt E) as [G1 [G2 G3]].
        split; [constructor; assumption|]. exists t1. split; [left; reflexivity|]. auto.
      + destruct (req_loop false allow who f r) as [r'|] eqn:E2; [|discriminate]. inversion H; subst ts'.
        destruct (IH _ Hgr eq_refl) as [G [t1 [Hi Ht]]].
        split; [constructor; assumption|]. exists t1. split; [right; exact Hi|exact Ht].
    - destruct (req_loop false allow who f r) as [r'|] eqn:E2; [|discriminate]. inversion H; subst ts'.
      destruct (IH _ Hgr eq_refl) as [G [t1 [Hi Ht]]].
      split; [constructor; assumption|]. exists t1. split; [right; exact Hi|exact Ht].
  Qed.

  Lemma require_outer_good who f ts ts' :
    (who = relayer /\ f = f1) \/ (who = user /\ f = f2) ->
    Forall good ts -> require_auth false None who f ts = Ok ts' ->
    Forall good ts' /\ exists t, In t ts' /\ tk_who t = who /\ tk_m0 t = true.
  Proof.
    intros Hf Hg. unfold require_auth. cbn [andb].
    destruct (req_loop _ _ _ _ _) as [r|] eqn:E; cbn [of_option]; intros H; inversion H; subst.
    eapply req_outer_good; eauto.
  Qed.

  (* inside an inner frame, with a new root forbidden: only a sub-invocation of a tracker matched
     by the outer frame can authorise *)
  Lemma req_inner_sub who f ts ts' :
    req_loop true false who f ts = Some ts' ->
    exists t, In t ts /\ tk_who t = who /\ tk_m0 t = true /\
              existsb (fun s => func_eqb s f) (en_subs (tk_entry t)) = true.
  Proof.
    revert ts'. induction ts as [|t r IH]; intros ts' H; cbn in H; [discriminate|].
    assert (Hrest : forall r', req_loop true false who f r = Some r' ->
              exists t0, In t0 (t :: r) /\ tk_who t0 = who /\ tk_m0 t0 = true /\
                         existsb (fun s => func_eqb s f) (en_subs (tk_entry t0)) = true).
    { intros r' Hr. destruct (IH _ Hr) as [t0 [Hi Ht]]. exists t0. split; [right; exact Hi|exact Ht]. }
    destruct (N.eqb (tk_who t) who) eqn:Ew.
    - apply N.eqb_eq in Ew. destruct (try_tracker true false f t) as [t1|] eqn:E.
      + exists t. split; [left; reflexivity|]. split; [exact Ew|].
        unfold try_tracker in E. cbn [cur_matched andb] in E.
        destruct (tk_m1 t); [discriminate|]. destruct (tk_m0 t) eqn:E0.
        * split; [reflexivity|]. destruct (match_sub f (en_subs (tk_entry t)) (tk_sub_ex t)) eqn:Em; [|discriminate].
          eapply match_sub_some; eauto.
        * rewrite andb_false_r in E. cbn in E. discriminate.
      + destruct (req_loop true false who f r) as [r'|] eqn:E2; [|discriminate]. eapply Hrest; eauto.
    - destruct (req_loop true false who f r) as [r'|] eqn:E2; [|discriminate]. eapply Hrest; eauto.
  Qed.

  Lemma push_good ts : Forall good ts -> Forall good (push_frame ts).
  Proof.
    intros H. unfold push_frame. apply Forall_forall. intros t' Ht. apply in_map_iff in Ht.
    destruct Ht as [t [<- Hi]]. rewrite Forall_forall in H. exact (H t Hi).
  Qed.

  Lemma has_active_user ts :
    Forall good ts -> (exists t, In t ts /\ tk_who t = user /\ tk_m0 t = true) ->
    has_active true user (push_frame ts) = true.
  Proof.
    intros Hg [t [Hi [Hw Hm]]]. unfold has_active. apply existsb_exists.
    exists {| tk_entry := tk_entry t; tk_root_ex := tk_root_ex t; tk_sub_ex := tk_sub_ex t;
              tk_m0 := tk_m0 t; tk_m1 := false; tk_done := tk_done t |}.
    split.
    - unfold push_frame. apply in_map_iff. exists t. split; [reflexivity|exact Hi].
    - rewrite Forall_forall in Hg. destruct (Hg t Hi) as [Hd Hr]. destruct (Hr Hm) as [Hre _].
      unfold tk_who, tk_active in *. cbn. rewrite Hw, N.eqb_refl, Hre, Hd. reflexivity.
  Qed.

  Lemma approve_frame_under_tree hc nw F tok t spender amt exp ts r :
    F <> user -> Forall good ts -> (exists t0, In t0 ts /\ tk_who t0 = user /\ tk_m0 t0 = true) ->
    approve_frame hc nw F tok t user spender amt exp ts = Ok r ->
    exists e, In e (map tk_entry ts) /\ en_who e = user /\
              In (mkf tok F_APPROVE (approve_args user spender amt exp)) (en_subs e) /\
              (en_root e = f2 \/ (user = relayer /\ en_root e = f1)).
  Proof.
    intros Hne Hg Hex. unfold approve_frame.
    destruct (require_auth true (Some F) user _ (push_frame ts)) as [ts2|] eqn:Er; cbn [bind]; [|discriminate].
    intros _. unfold require_auth in Er. cbn [andb] in Er.
    destruct (N.eqb F user) eqn:Ef; [apply N.eqb_eq in Ef; contradiction|].
    rewrite (has_active_user ts Hg Hex) in Er. cbn [negb] in Er.
    destruct (req_loop true false user _ (push_frame ts)) as [r'|] eqn:El; [|discriminate].
    destruct (req_inner_sub _ _ _ _ El) as [t1 [Hi [Hw [Hm Hs]]]].
    unfold push_frame in Hi. apply in_map_iff in Hi. destruct Hi as [t0 [<- Hi0]].
    cbn [tk_entry tk_m0] in *. unfold tk_who in Hw. cbn [tk_entry] in Hw.
    rewrite Forall_forall in Hg. destruct (Hg t0 Hi0) as [_ Hr]. destruct (Hr Hm) as [_ Hroot].
    exists (tk_entry t0). split; [apply in_map; exact Hi0|]. split; [exact Hw|]. split.
    - apply existsb_exists in Hs. destruct Hs as [s [Hs1 Hs2]]. apply func_eqb_eq in Hs2. subst. exact Hs1.
    - unfold tk_who in Hroot. destruct Hroot as [[H1 H2]|[H1 H2]].
      + right. split; [congruence|exact H2].
      + left. exact H2.
  Qed.
End Tree.

Lemma forward_fresh_approval_under_tree c st k tok fee max exp target fn args user relayer au st' ret :
  step_ok c st (Forward k tok fee max exp target fn args user relayer au) = Ok (st', ret) ->
  let F := fwd_addr c k in
  let old := allowance_data (now st) (get_tok st tok) user F in
  (match k with Permissioned => fst old <? max | Permissionless => true end) = true ->
  exists e, In e au /\ en_who e = user /\
    In {| f_contract := tok; f_name := F_APPROVE; f_args := [VA user; VA F; VI max; VI exp] |} (en_subs e) /\
    (en_root e = {| f_contract := F; f_name := F_FORWARD;
                    f_args := [VA tok; VI max; VI exp; VA target; VS fn; VL args] |}
     \/ (user = relayer /\
         en_root e = {| f_contract := F; f_name := F_FORWARD;
                        f_args := [VA tok; VI fee; VI max; VI exp; VA target; VS fn; VL args; VA user; VA relayer] |})).
Proof.
  intros H F old Hfresh. cbn [step_ok] in H. unfold forward in H.
  destruct (match k with Permissioned => memb relayer (c_executors c) | Permissionless => true end);
    cbn [guard bind] in H; [|discriminate].
  set (f1 := mkf (fwd_addr c k) F_FORWARD (forward_args tok fee max exp target fn args user relayer)) in *.
  set (f2 := mkf (fwd_addr c k) F_FORWARD (user_args tok max exp target fn args)) in *.
  destruct (require_auth false None relayer f1 (map init_tracker au)) as [ts1|] eqn:E1; cbn [bind] in H; [|discriminate].
  destruct (require_auth false None user f2 ts1) as [ts2|] eqn:E2; cbn [bind] in H; [|discriminate].
  destruct (collect_fee _ _ _ _ _ _ _ _ _ _ _ _ ts2) as [[t' ts3]|] eqn:E3; cbn [bind] in H; [|discriminate].
  clear H.
  assert (G0 : Forall (good user relayer f1 f2) (map init_tracker au)).
  { apply Forall_forall. intros t Ht. apply in_map_iff in Ht. destruct Ht as [e [<- _]]. apply good_init. }
  destruct (require_outer_good user relayer f1 f2 relayer f1 _ _ (or_introl (conj eq_refl eq_refl)) G0 E1) as [G1 _].
  destruct (require_outer_good user relayer f1 f2 user f2 _ _ (or_intror (conj eq_refl eq_refl)) G1 E2) as [G2 Hex].
  assert (Hen : map tk_entry ts2 = au).
  { rewrite (require_auth_entries _ _ _ _ _ _ E2), (require_auth_entries _ _ _ _ _ _ E1). apply entries_init. }
  unfold collect_fee in E3.
  destruct (is_allowed _ tok); cbn [guard bind] in E3; [|discriminate].
  destruct (N.eqb (fwd_addr c k) user) eqn:Eu; cbn [negb guard bind] in E3; [discriminate|]. apply N.eqb_neq in Eu.
  destruct ((fee <=? 0) || (max <? fee)); cbn [negb guard bind] in E3; [discriminate|].
  destruct (memb tok (c_tokens c)); cbn [guard bind] in E3; [|discriminate].
  assert (Happ : exists r, approve_frame (c_host c) (now st) (fwd_addr c k) tok (get_tok st tok) user
                             (fwd_addr c k) max exp ts2 = Ok r).
  { destruct k; cbn [approval_of] in E3.
    - unfold allowance in E3. unfold old, F in Hfresh. cbn [fwd_addr] in *. rewrite Hfresh in E3.
      destruct (approve_frame _ _ _ _ _ _ _ _ _ _) as [r|]; [exists r; reflexivity|discriminate].
    - destruct (approve_frame _ _ _ _ _ _ _ _ _ _) as [r|]; [exists r; reflexivity|discriminate]. }
  destruct Happ as [r Hr].
  destruct (approve_frame_under_tree user relayer f1 f2 _ _ _ _ _ _ _ _ _ _ Eu G2 Hex Hr) as [e [He1 [He2 [He3 He4]]]].
  rewrite Hen in He1. exists e. repeat split; auto.
Qed.
