(* C14 - spending limit, exact acceptance: with non-negative amounts, enforce / can_enforce accept
   exactly when the transfer fits in the window under the limit in force and the stored window
   has room for another entry (no arithmetic trap can interfere). *)
From SC Require Import Lib.Prelude Lib.Int Lib.Host Model.Policies Model.PoliciesSpec
  Proofs.Policies Proofs.PoliciesSpend Proofs.PoliciesInv.
From Coq Require Import ZifyBool Sorting.Sorted.

(* ---------- stored limits and cached totals are i128 values ---------- *)
Definition linv (s : state) : Prop :=
  forall k d, kget k (st_spend s) = Some d -> sd_limit d <= MAX128 /\ sd_cached d <= MAX128.

Lemma in_i128_le z : in_i128 z = true -> z <= MAX128.
Proof. unfold in_i128. lia. Qed.

Lemma l_enforce_data_range c nw d amt d' :
  l_enforce_data c nw d amt = Ok d' -> sd_limit d' = sd_limit d /\ sd_cached d' <= MAX128.
Proof.
  unfold l_enforce_data.
  destruct (cleanup (sat_sub nw (sd_period d)) (sd_hist d) 0) as [[removed h]|]; cbn [bind]; [|discriminate].
  unfold checked_sub, checked_add, fit128.
  destruct (in_i128 (sd_cached d - removed)); cbn [of_option bind]; [|discriminate].
  destruct (in_i128 (sd_cached d - removed + amt)) eqn:E; cbn [of_option bind]; [|discriminate].
  destruct (sd_limit d <? sd_cached d - removed + amt); [discriminate|].
  destruct (max_history c <=? len h); [discriminate|]. intros H. inversion H. cbn [sd_limit sd_cached].
  split; [reflexivity|apply in_i128_le; exact E].
Qed.

Lemma linv_set s k d : linv s -> sd_limit d <= MAX128 /\ sd_cached d <= MAX128 ->
  linv (set_spend s (kset k d (st_spend s))).
Proof.
  intros H Hd k' d'. cbn [st_spend set_spend]. destruct (key_eqb k' k) eqn:E.
  - apply key_eqb_eq in E. subst. rewrite kget_set_eq. intros X. inversion X. subst. exact Hd.
  - apply key_eqb_neq in E. rewrite kget_set_neq by exact E. apply H.
Qed.
Lemma linv_remove s k : linv s -> linv (set_spend s (kremove k (st_spend s))).
Proof.
  intros H k' d'. cbn [st_spend set_spend]. destruct (key_eqb k' k) eqn:E.
  - apply key_eqb_eq in E. subst. rewrite kget_remove_eq. discriminate.
  - apply key_eqb_neq in E. rewrite kget_remove_neq by exact E. apply H.
Qed.

Lemma l_batch_linv c au a r sgs : forall ctxs s s' evs,
  linv s -> enforce_batch c PL s au a r sgs ctxs = Ok (s', evs) -> linv s'.
Proof.
  induction ctxs as [|ctx rest IH]; intros s s' evs Hl H; cbn [enforce_batch] in H.
  - inversion H. subst. exact Hl.
  - cbn [enforce_one] in H.
    destruct (l_enforce_one c s au a r sgs ctx) as [[s1 ev]|] eqn:E1; cbn [bind fst snd] in H; [|discriminate].
    destruct (enforce_batch c PL s1 au a r sgs rest) as [[s2 evs2]|] eqn:E2; cbn [bind fst snd] in H; [|discriminate].
    inversion H. subst s' evs.
    apply l_enforce_one_ok in E1 as (_ & _ & d & amt & d1 & Hd & _ & Hd1 & Hs1 & _).
    apply (IH s1 s2 evs2); [|exact E2]. subst s1. apply linv_set; [exact Hl|].
    destruct (l_enforce_data_range _ _ _ _ _ Hd1) as [E3 E4]. rewrite E3. split; [apply (Hl _ _ Hd)|exact E4].
Qed.

Lemma exec_linv c s cl s' rt evs : linv s -> exec c s cl = Ok (s', rt, evs) -> linv s'.
Proof.
  intros Hl H. destruct cl; cbn [exec] in H.
  - destruct ((0 <=? n) && (now s + n <=? MAXU32)); [|discriminate]. inversion H. subst. exact Hl.
  - destruct (can_enforce c p s acct rid ctx sgs); cbn [bind] in H; [|discriminate]. inversion H. subst. exact Hl.
  - destruct (enforce_batch c p s auths acct rid sgs ctxs) as [[s1 e1]|] eqn:E; cbn [bind fst snd] in H; [|discriminate].
    inversion H. subst s1 rt e1. destruct p.
    + rewrite s_batch_spec in E. destruct (is_nil ctxs || _); [|discriminate]. inversion E. subst. exact Hl.
    + (* weighted batch: state unchanged *)
      clear H. revert E. generalize evs. induction ctxs as [|ctx rest IH]; intros evs0 E; cbn [enforce_batch] in E.
      * inversion E. subst. exact Hl.
      * cbn [enforce_one] in E. unfold w_enforce_one in E at 1.
        destruct (has_auth auths acct); cbn [guard bind] in E; [|discriminate].
        destruct (kget (acct, rid) (st_weighted s)) as [d|]; cbn [of_option bind] in E; [|discriminate].
        destruct (calc_weight (wd_weights d) sgs) as [w|]; cbn [of_option bind] in E; [|discriminate].
        destruct (wd_thr d <=? w); [|discriminate]. cbn [bind fst snd] in E.
        destruct (enforce_batch c PW s auths acct rid sgs rest) as [[s2 ev2]|] eqn:E3; cbn [bind fst snd] in E; [|discriminate].
        inversion E. subst. eapply IH. reflexivity.
    + eapply l_batch_linv; eassumption.
  - apply unit_of_ok in H as (H & -> & ->). destruct p; cbn [uninstall] in H.
    + apply s_uninstall_ok in H as (_ & ->). exact Hl.
    + apply w_uninstall_ok in H as (_ & ->). exact Hl.
    + apply l_uninstall_ok in H as (_ & ->). apply linv_remove. exact Hl.
  - apply unit_of_ok in H as (H & -> & ->). apply s_install_ok in H as (_ & _ & _ & _ & _ & ->). exact Hl.
  - apply unit_of_ok in H as (H & -> & ->). apply s_set_threshold_ok in H as (_ & _ & _ & _ & ->). exact Hl.
  - apply unit_of_ok in H as (H & -> & ->). apply w_install_ok in H as (_ & _ & _ & ->). exact Hl.
  - apply unit_of_ok in H as (H & -> & ->). unfold w_set_threshold in H.
    destruct (has_auth auths acct); cbn [guard bind] in H; [|discriminate].
    destruct (in_u32 t); cbn [guard bind] in H; [|discriminate].
    destruct (t =? 0); [discriminate|].
    destruct (kget (acct, rid) (st_weighted s)) as [d|]; cbn [of_option bind] in H; [|discriminate].
    destruct (total_weight (wd_weights d)) as [tot|]; cbn [of_option bind] in H; [|discriminate].
    destruct (tot <? t); [discriminate|]. inversion H. subst. exact Hl.
  - apply unit_of_ok in H as (H & -> & ->). unfold w_set_weight in H.
    destruct (has_auth auths acct); cbn [guard bind] in H; [|discriminate].
    destruct (in_u32 w); cbn [guard bind] in H; [|discriminate].
    destruct (kget (acct, rid) (st_weighted s)) as [d|]; cbn [of_option bind] in H; [|discriminate].
    cbn zeta in H. destruct (total_weight (alist_set sg w (wd_weights d))) as [tot|]; cbn [of_option bind] in H; [|discriminate].
    destruct (tot <? wd_thr d); [discriminate|]. inversion H. subst. exact Hl.
  - apply unit_of_ok in H as (H & -> & ->). unfold l_install in H.
    destruct (has_auth auths acct); cbn [guard bind] in H; [|discriminate].
    destruct (in_i128 limit && in_u32 period) eqn:Hg; cbn [guard bind] in H; [|discriminate].
    destruct ((limit <=? 0) || (period =? 0)); [discriminate|].
    destruct (kget (acct, rid) (st_spend s)); [discriminate|]. inversion H. subst.
    apply andb_prop in Hg as [Hg _]. apply linv_set; [exact Hl|]. cbn [sd_limit sd_cached].
    split; [apply in_i128_le; exact Hg|unfold MAX128; lia].
  - apply unit_of_ok in H as (H & -> & ->). unfold l_set_limit in H.
    destruct (has_auth auths acct); cbn [guard bind] in H; [|discriminate].
    destruct (in_i128 limit) eqn:Hg; cbn [guard bind] in H; [|discriminate].
    destruct (limit <=? 0); [discriminate|].
    destruct (kget (acct, rid) (st_spend s)) as [d|] eqn:Hd; cbn [of_option bind] in H; [|discriminate]. inversion H. subst.
    apply linv_set; [exact Hl|]. cbn [sd_limit sd_cached]. split; [apply in_i128_le; exact Hg|apply (Hl _ _ Hd)].
Qed.

Lemma step_linv c s cl : linv s -> linv (step_state c s cl).
Proof.
  intros Hl. unfold step_state, step. destruct (exec c s cl) as [[[s1 r1] e1]|] eqn:E; cbn [fst]; [|exact Hl].
  eapply exec_linv; eassumption.
Qed.
Lemma run_linv c cs : forall s, linv s -> linv (run c s cs).
Proof.
  induction cs as [|cl r IH]; intros s Hl; cbn [run fold_left]; [exact Hl|]. apply IH. apply step_linv. exact Hl.
Qed.
Lemma init_linv n0 : linv (init n0).
Proof. intros k d H. cbn in H. discriminate. Qed.

(* ---------- no trap on non-negative histories ---------- *)
Lemma nonneg_log_forall l : nonneg_log l = true -> Forall (fun e => 0 <= fst e) l.
Proof.
  unfold nonneg_log. rewrite forallb_forall, Forall_forall. intros H e He. specialize (H e He). lia.
Qed.
Lemma sum_entries_nonneg l : Forall (fun e => 0 <= fst e) l -> 0 <= sum_entries l.
Proof. unfold sum_entries. induction 1 as [|e l He _ IH]; cbn [fold_right]; lia. Qed.
Lemma newer_forall (P : entry -> Prop) c l : Forall P l -> Forall P (newer c l).
Proof.
  unfold newer. rewrite !Forall_forall. intros H e He. apply filter_In in He as [He _]. auto.
Qed.
Lemma newer_sum_le c l : Forall (fun e => 0 <= fst e) l -> sum_entries (newer c l) <= sum_entries l.
Proof.
  unfold sum_entries, newer. induction 1 as [|e l He _ IH]; cbn [filter fold_right]; [lia|].
  destruct (c <? snd e); cbn [fold_right]; lia.
Qed.

Lemma cleanup_nonneg_ok cutoff h : Forall (fun e => 0 <= fst e) h ->
  forall acc, 0 <= acc -> acc + sum_entries h <= MAX128 -> exists r h', cleanup cutoff h acc = Ok (r, h').
Proof.
  induction 1 as [|[a l] rest Ha Hr IH]; intros acc Hacc Hb; cbn [cleanup]; [eauto|].
  destruct (l <=? cutoff); [|eauto].
  unfold sum_entries in Hb. cbn [fold_right fst] in Hb. fold (sum_entries rest) in Hb.
  pose proof (sum_entries_nonneg rest Hr). cbn [fst] in Ha.
  unfold checked_add, fit128, in_i128.
  replace ((MIN128 <=? acc + a) && (acc + a <=? MAX128)) with true by (unfold MIN128 in *; lia).
  apply IH; lia.
Qed.

(* ---------- exact acceptance of one transfer ---------- *)
Lemma l_enforce_data_exact c nw i d amt :
  1 <= nw -> lrel nw i d -> nonneg_log (stored i) = true -> 0 <= amt ->
  sd_limit d <= MAX128 -> sd_cached d <= MAX128 ->
  is_ok (l_enforce_data c nw d amt) = l_fits (max_history c) nw (gi_limit i) (gi_period i) (gi_log i) amt.
Proof.
  intros Hnw [H1 H2 H3 H4 H5 H6 H7 H8] Hnn Hamt Hlim Hc.
  apply nonneg_log_forall in Hnn. unfold stored in Hnn.
  assert (Hhn : Forall (fun e => 0 <= fst e) (sd_hist d)) by (rewrite H4; exact Hnn).
  destruct (cleanup_nonneg_ok (sat_sub nw (sd_period d)) (sd_hist d) Hhn 0 ltac:(lia) ltac:(lia)) as (removed & h & Ec).
  unfold l_enforce_data. rewrite Ec. cbn [bind].
  assert (Hs : ledger_sorted (sd_hist d)) by (rewrite H4; apply sorted_filter; exact H7).
  destruct (cleanup_sorted _ _ Hs _ _ _ Ec) as [Hh Hr].
  assert (Hge1 : Forall (fun e => 1 <= snd e) (gi_log i)).
  { rewrite Forall_forall in *. intros e He. specialize (H8 e He). lia. }
  assert (Hh' : h = newer (nw - gi_period i) (gi_log i)).
  { rewrite Hh, H4, H2. apply newer_newer_sat; assumption. }
  assert (Hhnn : 0 <= sum_entries h) by (apply sum_entries_nonneg; rewrite Hh; apply newer_forall; exact Hhn).
  assert (Hhle : sum_entries h <= sum_entries (sd_hist d)) by (rewrite Hh; apply newer_sum_le; exact Hhn).
  unfold checked_sub, checked_add, fit128, in_i128.
  replace ((MIN128 <=? sd_cached d - removed) && (sd_cached d - removed <=? MAX128)) with true by (unfold MIN128 in *; lia).
  cbn [of_option bind].
  unfold l_fits, window_sum. rewrite <- Hh'.
  replace (sd_cached d - removed + amt) with (sum_entries h + amt) by lia.
  destruct ((MIN128 <=? sum_entries h + amt) && (sum_entries h + amt <=? MAX128)) eqn:E; cbn [of_option bind].
  - rewrite H1. destruct (gi_limit i <? sum_entries h + amt) eqn:E1.
    + replace (sum_entries h + amt <=? gi_limit i) with false by lia. reflexivity.
    + replace (sum_entries h + amt <=? gi_limit i) with true by lia.
      destruct (max_history c <=? len h) eqn:E2; cbn [is_ok andb]; lia.
  - replace (sum_entries h + amt <=? gi_limit i) with false by (unfold MIN128 in *; lia). reflexivity.
Qed.

(* can_enforce, same state *)
Lemma l_can_exact c s a r ctx sgs i d amt :
  0 < max_history c -> 1 <= now s -> sgs <> [] ->
  kget (a, r) (st_spend s) = Some d -> lrel (now s) i d -> transfer_amount ctx = Some amt ->
  nonneg_log (stored i) = true -> 0 <= amt -> sd_limit d <= MAX128 -> sd_cached d <= MAX128 ->
  is_true_res (l_can_enforce c s a r ctx sgs) =
  l_fits (max_history c) (now s) (gi_limit i) (gi_period i) (gi_log i) amt.
Proof.
  intros Hmh Hn Hsg Hd Hrel Ha Hnn Hamt Hlim Hc.
  pose proof (l_agree_one c s [a] a r sgs ctx Hmh) as Hag.
  assert (Hau : has_auth [a] a = true) by (unfold has_auth; cbn [existsb]; rewrite N.eqb_refl; reflexivity).
  rewrite Hau in Hag. cbn [andb] in Hag. rewrite <- Hag.
  unfold l_enforce_one. rewrite Hau. cbn [guard bind]. destruct sgs as [|sg0 sgr]; [contradiction|].
  rewrite Hd, Ha. cbn [of_option bind].
  rewrite <- (l_enforce_data_exact c (now s) i d amt Hn Hrel Hnn Hamt Hlim Hc).
  destruct (l_enforce_data c (now s) d amt); reflexivity.
Qed.

(* ---------- exact acceptance of a batch ---------- *)
Lemma nonneg_log_snoc l a nw : nonneg_log l = true -> 0 <= a -> nonneg_log (l ++ [(a, nw)]) = true.
Proof.
  unfold nonneg_log. rewrite !forallb_forall. intros H Ha e He. apply in_app_or in He as [He|[<-|[]]]; [auto|cbn; lia].
Qed.

Lemma nonneg_log_app l1 l2 : nonneg_log l1 = true -> nonneg_log l2 = true -> nonneg_log (l1 ++ l2) = true.
Proof. unfold nonneg_log. rewrite forallb_app. intros H1 H2. apply andb_true_intro. split; assumption. Qed.
Lemma nonneg_newer_mono c1 c2 l : c1 <= c2 -> nonneg_log (newer c1 l) = true -> nonneg_log (newer c2 l) = true.
Proof.
  intros Hc. unfold nonneg_log, newer. rewrite !forallb_forall. intros H e He.
  apply filter_In in He as [He1 He2]. apply H. apply filter_In. split; [exact He1|lia].
Qed.
Lemma nonneg_log_newer c l : nonneg_log l = true -> nonneg_log (newer c l) = true.
Proof.
  unfold nonneg_log, newer. rewrite !forallb_forall. intros H e He. apply filter_In in He as [He _]. auto.
Qed.

Lemma l_batch_exact_ok c au a r sgs : forall ctxs s d i,
  1 <= now s -> linv s -> kget (a, r) (st_spend s) = Some d -> lrel (now s) i d ->
  nonneg_log (stored i) = true -> nonneg_ctxs ctxs = true -> ctxs <> [] ->
  is_ok (enforce_batch c PL s au a r sgs ctxs) =
  has_auth au a && (match sgs with [] => false | _ => true end) &&
  l_batch_exact (max_history c) (now s) (gi_limit i) (gi_period i) ctxs (gi_log i).
Proof.
  induction ctxs as [|ctx rest IH]; intros s d i Hn Hlin Hd Hrel Hnn Hcn Hne; [contradiction|].
  cbn [enforce_batch enforce_one l_batch_exact]. cbn [nonneg_ctxs forallb] in Hcn. apply andb_prop in Hcn as [Hc1 Hc2].
  unfold l_enforce_one at 1. destruct (has_auth au a) eqn:Hau; cbn [guard bind andb]; [|reflexivity].
  destruct sgs as [|sg0 sgr] eqn:Hsg; [reflexivity|]. rewrite <- Hsg in *. rewrite Hd. cbn [of_option bind].
  destruct (transfer_amount ctx) as [amt|] eqn:Ha; [|subst sgs; reflexivity].
  assert (Hamt : 0 <= amt) by lia.
  destruct (Hlin _ _ Hd) as [Hlim Hcc].
  pose proof (l_enforce_data_exact c (now s) i d amt Hn Hrel Hnn Hamt Hlim Hcc) as Hex.
  destruct (l_enforce_data c (now s) d amt) as [d1|] eqn:Ed; cbn [is_ok] in Hex; rewrite <- Hex; cbn [bind fst snd andb];
    [|subst sgs; reflexivity].
  destruct (l_enforce_data_rel c (now s) i d amt d1 Hn Hrel Ed) as (Hrel1 & _ & _).
  set (s1 := set_spend s (kset (a, r) d1 (st_spend s))).
  assert (Hk1 : kget (a, r) (st_spend s1) = Some d1) by (unfold s1; cbn [st_spend set_spend]; apply kget_set_eq).
  assert (Hlin1 : linv s1).
  { unfold s1. apply linv_set; [exact Hlin|]. destruct (l_enforce_data_range _ _ _ _ _ Ed) as [E3 E4]. rewrite E3. auto. }
  destruct rest as [|c2 rest2].
  - cbn [enforce_batch bind fst snd is_ok l_batch_exact]. subst sgs. reflexivity.
  - assert (Hnn1 : nonneg_log (stored (inst_push (now s) i amt)) = true).
    { unfold stored. cbn [inst_push gi_log gi_cut]. rewrite newer_app. apply nonneg_log_app.
      - apply (nonneg_newer_mono (gi_cut i)); [exact (lr_cut _ _ _ Hrel)|exact Hnn].
      - unfold newer. cbn [filter snd]. destruct (now s - gi_period i <? now s); cbn; [|reflexivity]. replace (0 <=? amt) with true by lia. reflexivity. }
    specialize (IH s1 d1 (inst_push (now s) i amt) Hn Hlin1 Hk1 Hrel1 Hnn1 Hc2 ltac:(discriminate)).
    cbn [andb] in IH. cbn [inst_push gi_limit gi_period gi_log] in IH.
    change (now s1) with (now s) in IH.
    destruct (enforce_batch c PL s1 au a r sgs (c2 :: rest2)) as [[s2 e2]|]; cbn [bind fst snd is_ok] in *.
    + rewrite <- IH. subst sgs. reflexivity.
    + rewrite <- IH. subst sgs. reflexivity.
Qed.

(* the value of can_enforce when the sum stays an i128 *)
Lemma l_can_value c s a r ctx sgs i d amt :
  0 < max_history c -> 1 <= now s -> sgs <> [] ->
  kget (a, r) (st_spend s) = Some d -> lrel (now s) i d -> transfer_amount ctx = Some amt ->
  nonneg_log (stored i) = true -> 0 <= amt -> sd_limit d <= MAX128 -> sd_cached d <= MAX128 ->
  window_sum (now s) (gi_period i) (gi_log i) + amt <= MAX128 ->
  l_can_enforce c s a r ctx sgs = Ok (l_fits (max_history c) (now s) (gi_limit i) (gi_period i) (gi_log i) amt).
Proof.
  intros Hmh Hnw Hsg Hd [H1 H2 H3 H4 H5 H6 H7 H8] Ha Hnn Hamt Hlim Hc Hsum.
  apply nonneg_log_forall in Hnn. unfold stored in Hnn.
  assert (Hhn : Forall (fun e => 0 <= fst e) (sd_hist d)) by (rewrite H4; exact Hnn).
  destruct (cleanup_nonneg_ok (sat_sub (now s) (sd_period d)) (sd_hist d) Hhn 0 ltac:(lia) ltac:(lia)) as (removed & h & Ec).
  unfold l_can_enforce. destruct sgs as [|sg0 sgr]; [contradiction|]. rewrite Hd, Ha, ce_scan_cleanup, Ec.
  assert (Hs : ledger_sorted (sd_hist d)) by (rewrite H4; apply sorted_filter; exact H7).
  destruct (cleanup_sorted _ _ Hs _ _ _ Ec) as [Hh Hr].
  assert (Hge1 : Forall (fun e => 1 <= snd e) (gi_log i)).
  { rewrite Forall_forall in *. intros e He. specialize (H8 e He). lia. }
  assert (Hh' : h = newer (now s - gi_period i) (gi_log i)).
  { rewrite Hh, H4, H2. apply newer_newer_sat; assumption. }
  assert (Hhnn : 0 <= sum_entries h) by (apply sum_entries_nonneg; rewrite Hh; apply newer_forall; exact Hhn).
  assert (Hhle : sum_entries h <= sum_entries (sd_hist d)) by (rewrite Hh; apply newer_sum_le; exact Hhn).
  unfold l_fits, window_sum in *. rewrite <- Hh' in *.
  assert (Hfin : (do total <- of_option (checked_sub (sd_cached d) removed);
                  do sum <- of_option (checked_add total amt); Ok (sum <=? sd_limit d)) =
                 Ok (sum_entries h + amt <=? gi_limit i)).
  { unfold checked_sub, checked_add, fit128, in_i128.
    replace ((MIN128 <=? sd_cached d - removed) && (sd_cached d - removed <=? MAX128)) with true by (unfold MIN128 in *; lia).
    cbn [of_option bind].
    replace ((MIN128 <=? sd_cached d - removed + amt) && (sd_cached d - removed + amt <=? MAX128)) with true by (unfold MIN128 in *; lia).
    cbn [of_option bind]. rewrite H1. f_equal. f_equal. lia. }
  destruct h as [|e0 h0]; cbn [bind].
  - rewrite Hfin. unfold len. cbn [length]. replace (Z.of_nat 0 <? max_history c) with true by lia.
    rewrite andb_true_r. reflexivity.
  - destruct (max_history c <=? len (e0 :: h0)) eqn:E.
    + replace (len (e0 :: h0) <? max_history c) with false by lia. rewrite andb_false_r. reflexivity.
    + cbn [bind]. rewrite Hfin. replace (len (e0 :: h0) <? max_history c) with true by lia.
      rewrite andb_true_r. reflexivity.
Qed.


(* ---------- whatever the signs of the amounts: an answer that is not a trap is the exact one ---------- *)
Lemma l_enforce_data_fits c nw i d amt d' :
  1 <= nw -> lrel nw i d -> l_enforce_data c nw d amt = Ok d' ->
  l_fits (max_history c) nw (gi_limit i) (gi_period i) (gi_log i) amt = true.
Proof.
  intros Hnw Hrel H. destruct (l_enforce_data_rel c nw i d amt d' Hnw Hrel H) as (_ & _ & Hw).
  destruct Hrel as [H1 H2 H3 H4 H5 H6 H7 H8]. unfold l_enforce_data in H.
  destruct (cleanup (sat_sub nw (sd_period d)) (sd_hist d) 0) as [[removed h]|] eqn:Ec; cbn [bind] in H; [|discriminate].
  destruct (checked_sub (sd_cached d) removed); cbn [of_option bind] in H; [|discriminate].
  destruct (checked_add z amt); cbn [of_option bind] in H; [|discriminate].
  destruct (sd_limit d <? z0); [discriminate|].
  destruct (max_history c <=? len h) eqn:Ecap; [discriminate|].
  assert (Hs : ledger_sorted (sd_hist d)) by (rewrite H4; apply sorted_filter; exact H7).
  destruct (cleanup_sorted _ _ Hs _ _ _ Ec) as [Hh _].
  assert (Hge1 : Forall (fun e => 1 <= snd e) (gi_log i)).
  { rewrite Forall_forall in *. intros e He. specialize (H8 e He). lia. }
  assert (Hh' : h = newer (nw - gi_period i) (gi_log i)).
  { rewrite Hh, H4, H2. apply newer_newer_sat; assumption. }
  unfold l_fits. rewrite <- Hh'.
  assert (Hww : window_sum nw (gi_period i) (gi_log i) + amt <= gi_limit i).
  { unfold window_sum in *. rewrite newer_app, sum_entries_app in Hw. unfold newer at 2 in Hw. cbn [filter snd] in Hw.
    replace (nw - gi_period i <? nw) with true in Hw by lia. unfold sum_entries at 2 in Hw. cbn [fold_right fst] in Hw. lia. }
  replace (window_sum nw (gi_period i) (gi_log i) + amt <=? gi_limit i) with true by lia.
  replace (len h <? max_history c) with true by lia. reflexivity.
Qed.

Lemma l_batch_fits c au a r sgs : forall ctxs s d i s' evs,
  1 <= now s -> kget (a, r) (st_spend s) = Some d -> lrel (now s) i d ->
  enforce_batch c PL s au a r sgs ctxs = Ok (s', evs) ->
  l_batch_exact (max_history c) (now s) (gi_limit i) (gi_period i) ctxs (gi_log i) = true.
Proof.
  induction ctxs as [|ctx rest IH]; intros s d i s' evs Hn Hd Hrel H; [reflexivity|].
  cbn [enforce_batch enforce_one] in H.
  destruct (l_enforce_one c s au a r sgs ctx) as [[s1 ev]|] eqn:E1; cbn [bind fst snd] in H; [|discriminate].
  destruct (enforce_batch c PL s1 au a r sgs rest) as [[s2 evs2]|] eqn:E2; cbn [bind fst snd] in H; [|discriminate].
  apply l_enforce_one_ok in E1 as (_ & _ & d0 & amt & d1 & Hd0 & Ha & Hd1 & Hs1 & _).
  rewrite Hd in Hd0. inversion Hd0. subst d0.
  cbn [l_batch_exact]. rewrite Ha. rewrite (l_enforce_data_fits c (now s) i d amt d1 Hn Hrel Hd1). cbn [andb].
  destruct (l_enforce_data_rel c (now s) i d amt d1 Hn Hrel Hd1) as (Hrel1 & _ & _).
  assert (Hk1 : kget (a, r) (st_spend s1) = Some d1) by (subst s1; cbn [st_spend set_spend]; apply kget_set_eq).
  assert (Hnow1 : now s1 = now s) by (subst s1; reflexivity).
  specialize (IH s1 d1 (inst_push (now s) i amt) s2 evs2). rewrite Hnow1 in IH.
  apply (IH Hn Hk1 Hrel1 E2).
Qed.

Lemma l_can_ok_value c s a r ctx sgs i d amt b :
  0 < max_history c -> 1 <= now s -> sgs <> [] ->
  kget (a, r) (st_spend s) = Some d -> lrel (now s) i d -> transfer_amount ctx = Some amt ->
  l_can_enforce c s a r ctx sgs = Ok b ->
  b = l_fits (max_history c) (now s) (gi_limit i) (gi_period i) (gi_log i) amt.
Proof.
  intros Hmh Hnw Hsg Hd [H1 H2 H3 H4 H5 H6 H7 H8] Ha.
  unfold l_can_enforce. destruct sgs as [|sg0 sgr]; [contradiction|]. rewrite Hd, Ha, ce_scan_cleanup.
  destruct (cleanup (sat_sub (now s) (sd_period d)) (sd_hist d) 0) as [[removed h]|] eqn:Ec; cbn [bind]; [|discriminate].
  assert (Hs : ledger_sorted (sd_hist d)) by (rewrite H4; apply sorted_filter; exact H7).
  destruct (cleanup_sorted _ _ Hs _ _ _ Ec) as [Hh Hr].
  assert (Hge1 : Forall (fun e => 1 <= snd e) (gi_log i)).
  { rewrite Forall_forall in *. intros e He. specialize (H8 e He). lia. }
  assert (Hh' : h = newer (now s - gi_period i) (gi_log i)).
  { rewrite Hh, H4, H2. apply newer_newer_sat; assumption. }
  unfold l_fits, window_sum. rewrite <- Hh'.
  assert (Hfin : forall b0, (do total <- of_option (checked_sub (sd_cached d) removed);
                             do sum <- of_option (checked_add total amt); Ok (sum <=? sd_limit d)) = Ok b0 ->
                            b0 = (sum_entries h + amt <=? gi_limit i)).
  { intros b0. unfold checked_sub, checked_add, fit128.
    destruct (in_i128 (sd_cached d - removed)); cbn [of_option bind]; [|discriminate].
    destruct (in_i128 (sd_cached d - removed + amt)); cbn [of_option bind]; [|discriminate].
    intros E. inversion E. rewrite H1. f_equal. lia. }
  destruct h as [|e0 h0].
  - intros E. rewrite (Hfin b E). unfold len. cbn [length]. replace (Z.of_nat 0 <? max_history c) with true by lia.
    rewrite andb_true_r. reflexivity.
  - destruct (max_history c <=? len (e0 :: h0)) eqn:Ecap.
    + intros E. inversion E. replace (len (e0 :: h0) <? max_history c) with false by lia. rewrite andb_false_r. reflexivity.
    + intros E. rewrite (Hfin b E). replace (len (e0 :: h0) <? max_history c) with true by lia. rewrite andb_true_r. reflexivity.
Qed.
