(* C07: the monitor of Run/C07.v accepts every run of the model, except that it reports
   class 1 (the known finding F2) - and nothing else - where the model exhibits F2. *)
From SC Require Import Lib.Prelude Lib.Int Lib.Host Model.RoleTransfer Proofs.RoleTransfer Run.C07.

Lemma eqb_oaddr_refl : forall a, eqb_oaddr a a = true.
Proof. intros [a|]; cbn; [apply N.eqb_refl|reflexivity]. Qed.
Lemma eqb_res_refl : forall a, eqb_res a a = true.
Proof. intros [a|]; cbn; [apply Z.eqb_refl|reflexivity]. Qed.
Lemma eqb_pv_refl : forall a, eqb_pv a a = true.
Proof. intros [[a l]|]; cbn; [rewrite N.eqb_refl, Z.eqb_refl|]; reflexivity. Qed.
Lemma eqb_obs_refl : forall a, eqb_obs a a = true.
Proof. intros [a b]. unfold eqb_obs. cbn. rewrite eqb_oaddr_refl, eqb_pv_refl. reflexivity. Qed.

Lemma diff_model : forall k c cs s i, diff_from k c s (model_items k c s cs) i = 0%N.
Proof.
  intros k c cs. induction cs as [|cl r IH]; intros s i; [reflexivity|].
  cbn [model_items]. destruct (step k c s cl) as [s' o] eqn:E. cbn [diff_from]. rewrite E.
  rewrite eqb_res_refl, eqb_obs_refl. cbn [andb]. apply IH.
Qed.

(* the monitor's reconstruction agrees with the model state *)
Definition R (q : mon) (s : state) : Prop :=
  q_now q = now s /\ q_holder q = holder (rts s) /\
  (holder (rts s) = None -> tlive_at (now s) (pending (rts s)) = None) /\
  match tlive_at (now s) (pending (rts s)) with
  | Some e => exists f, q_off q = Some f /\ o_new f = tval e /\ o_cover f = tlive e /\ o_lu f <= o_cover f
  | None => match q_off q with
            | None => True
            | Some f => o_cover f < now s /\ o_lu f <= o_cover f
            end
  end.

Lemma holder_auth_signed : forall h au, holder_auth h au = signed_by h au.
Proof. reflexivity. Qed.

Lemma tlive_at_later : forall V n n' (p : option (tentry V)) e,
  n <= n' -> tlive_at n' p = Some e -> tlive_at n p = Some e.
Proof. intros V n n' p e Hn H. apply tlive_at_some in H. apply tlive_at_some. destruct H. split; [assumption|lia]. Qed.

Lemma mon_step_model : forall hd q s cl,
  wf_header hd = true -> R q s ->
  exists q', cont (mon_step hd q (cl, snd (step (h_kind hd) (h_cfg hd) s cl),
                                  observe (fst (step (h_kind hd) (h_cfg hd) s cl)))) = Some q' /\
             R q' (fst (step (h_kind hd) (h_cfg hd) s cl)).
Proof.
  intros hd q s cl Hwf HR.
  assert (Hmin1 : min_temp_ttl (h_cfg hd) = 1) by (unfold wf_header in Hwf; cbn; lia).
  assert (Hmin : 1 <= min_temp_ttl (h_cfg hd)) by lia.
  destruct q as [qn qh qo]. unfold R in HR. cbn [q_now q_holder q_off] in HR.
  destruct HR as [R1 [R2 [R3 R4]]]. subst qn qh.
  set (k := h_kind hd). set (c := h_cfg hd).
  destruct cl as [new lu au|au|au|au|n].
  - (* Offer *)
    destruct (Z.eq_dec lu 0) as [Hz|Hz].
    + subst lu. rewrite (step_cancel k c s new au).
      unfold mon_step. cbn [q_holder q_now q_off fst snd].
      destruct (signed_by (holder (rts s)) au &&
                match tget (now s) (pending (rts s)) with Some pa => N.eqb pa new | None => false end) eqn:Eb.
      * cbn [fst snd observe with_rt rts holder]. rewrite eqb_oaddr_refl. cbn [negb]. change (0 =? 0) with true. cbv iota.
        apply andb_prop in Eb. destruct Eb as [Es Eg].
        change holder_auth with signed_by. rewrite Es. cbn [andb].
        unfold tget in Eg. destruct (tlive_at (now s) (pending (rts s))) as [e|] eqn:Et; [|discriminate].
        destruct R4 as [f [F1 [F2 [F3 F4]]]]. rewrite F1. rewrite F2, Eg.
        eexists. split; [reflexivity|].
        unfold R, set_off. cbn [q_now q_holder q_off now rts holder pending with_rt tlive_at].
        repeat split; auto.
      * cbn [fst snd observe]. rewrite eqb_oaddr_refl. cbn [negb]. change (0 =? 0) with true. cbv iota.
        change holder_auth with signed_by.
        match goal with |- exists q', cont (if ?b then _ else _) = _ /\ _ => assert (Hb : b = false) end.
        { apply andb_false_iff in Eb. destruct Eb as [Eb|Eb]; [rewrite Eb; reflexivity|].
          destruct (signed_by (holder (rts s)) au); [|reflexivity]. cbn [andb].
          destruct qo as [f|]; [|reflexivity].
          unfold tget in Eb. destruct (tlive_at (now s) (pending (rts s))) as [e|] eqn:Et.
          - destruct R4 as [f' [F1 [F2 [F3 F4]]]]. inversion F1; subst f'. rewrite F2, Eb. reflexivity.
          - destruct R4 as [F3 F4]. destruct (now s <=? o_lu f) eqn:El; [|apply andb_false_r]. lia. }
        rewrite Hb. eexists. split; [reflexivity|]. unfold R. cbn [q_now q_holder q_off]. auto.
    + rewrite (step_offer k c s new lu au Hmin Hz).
      unfold mon_step. cbn [q_holder q_now q_off fst snd].
      assert (E0 : (lu =? 0) = false) by (apply Z.eqb_neq; exact Hz). rewrite E0.
      change holder_auth with signed_by.
      assert (Hv : signed_by (holder (rts s)) au && (now s <=? lu) && (lu <=? now s + h_max hd - 1) =
                   signed_by (holder (rts s)) au && ((now s <=? lu) && (lu <=? now s + max_ttl c - 1))).
      { rewrite andb_assoc. reflexivity. }
      rewrite Hv.
      destruct (signed_by (holder (rts s)) au && ((now s <=? lu) && (lu <=? now s + max_ttl c - 1))) eqn:Eb.
      * cbn [fst snd observe with_rt rts holder]. rewrite eqb_oaddr_refl. cbn [negb].
        eexists. split; [reflexivity|].
        apply andb_prop in Eb. destruct Eb as [Es Ev]. apply andb_prop in Ev. destruct Ev as [Ev1 Ev2].
        unfold R, set_off. cbn [q_now q_holder q_off now rts holder pending with_rt].
        split; [reflexivity|]. split; [reflexivity|]. split.
        { intros Hn. unfold signed_by in Es. rewrite Hn in Es. discriminate. }
        destruct (tlive_at (now s) (pending (rts s))) as [e|] eqn:Et.
        -- destruct R4 as [f [F1 [F2 [F3 F4]]]]. rewrite F1.
           apply tlive_at_some in Et. destruct Et as [_ Hl].
           assert (El : (now s <=? o_cover f) = true) by lia. rewrite El.
           unfold tlive_at. cbn [tlive tval].
           assert (Z.max (tlive e) lu <? now s = false) as -> by lia.
           eexists. split; [reflexivity|]. cbn [o_new o_lu o_cover tval tlive]. repeat split; lia.
        -- unfold tlive_at. cbn [tlive tval].
           assert (Z.max lu (now s + min_temp_ttl c - 1) <? now s = false) as -> by lia.
           assert (Hf : Z.max lu (now s + min_temp_ttl c - 1) = lu) by (unfold c; rewrite Hmin1; lia).
           destruct qo as [f|].
           ++ destruct R4 as [F3 F4]. assert (El : (now s <=? o_cover f) = false) by lia. rewrite El.
              eexists. split; [reflexivity|]. cbn [o_new o_lu o_cover tval tlive]. repeat split; lia.
           ++ eexists. split; [reflexivity|]. cbn [o_new o_lu o_cover tval tlive]. repeat split; lia.
      * cbn [fst snd observe]. rewrite eqb_oaddr_refl. cbn [negb].
        eexists. split; [reflexivity|]. unfold R. cbn [q_now q_holder q_off]. auto.
  - (* Accept *)
    rewrite (step_accept k c s au). unfold mon_step. cbn [q_holder q_now q_off].
    unfold tget in *.
    destruct (tlive_at (now s) (pending (rts s))) as [e|] eqn:Et.
    + destruct R4 as [f [F1 [F2 [F3 F4]]]]. rewrite F1.
      apply tlive_at_some in Et. destruct Et as [Ep Hl].
      destruct (has_auth au (tval e) && kind_ready k (holder (rts s))) eqn:Eb.
      * cbn [fst snd observe with_rt rts holder]. apply andb_prop in Eb. destruct Eb as [Ea Ek].
        rewrite F2, Ea. rewrite eqb_oaddr_refl. cbn [andb].
        assert (Hs : is_some (holder (rts s)) = true).
        { destruct (holder (rts s)) as [hh|] eqn:Eh; [reflexivity|].
          specialize (R3 eq_refl). discriminate. }
        rewrite Hs.
        destruct (now s <=? o_lu f) eqn:El.
        -- eexists. split; [reflexivity|]. unfold R. cbn [q_now q_holder q_off now rts holder pending with_rt tlive_at].
           repeat split; auto.
        -- assert (Ec : (now s <=? o_cover f) = true) by lia. rewrite Ec.
           eexists. split; [reflexivity|]. unfold R. cbn [q_now q_holder q_off now rts holder pending with_rt tlive_at].
           repeat split; auto.
      * cbn [fst snd observe]. rewrite eqb_oaddr_refl. cbn [negb].
        assert (Hb : has_auth au (o_new f) && (now s <=? o_lu f) && is_some (holder (rts s)) = false).
        { rewrite F2. apply andb_false_iff in Eb. destruct Eb as [Eb|Eb]; [rewrite Eb; reflexivity|].
          unfold kind_ready in Eb. destruct k; [discriminate|].
          destruct (holder (rts s)); [discriminate|]. cbn. apply andb_false_r. }
        rewrite Hb. eexists. split; [reflexivity|]. unfold R. cbn [q_now q_holder q_off].
        rewrite (proj2 (tlive_at_some _ _ _ _) (conj Ep Hl)). repeat split; auto. exists f. auto.
    + cbn [fst snd observe]. rewrite eqb_oaddr_refl. cbn [negb].
      destruct qo as [f|].
      * destruct R4 as [F3 F4].
        assert (Hb : has_auth au (o_new f) && (now s <=? o_lu f) && is_some (holder (rts s)) = false).
        { assert ((now s <=? o_lu f) = false) as -> by lia. rewrite andb_false_r. reflexivity. }
        rewrite Hb. eexists. split; [reflexivity|]. unfold R. cbn [q_now q_holder q_off]. rewrite Et. auto.
      * eexists. split; [reflexivity|]. unfold R. cbn [q_now q_holder q_off]. rewrite Et. auto.
  - (* Renounce *)
    rewrite (step_renounce k c s au). unfold mon_step. cbn [q_holder q_now q_off].
    change holder_auth with signed_by. unfold tget in *.
    destruct (signed_by (holder (rts s)) au) eqn:Es; cbn [andb].
    + destruct (tlive_at (now s) (pending (rts s))) as [e|] eqn:Et.
      * cbn [fst snd observe]. rewrite eqb_oaddr_refl. cbn [negb].
        destruct R4 as [f [F1 [F2 [F3 F4]]]]. rewrite F1.
        apply tlive_at_some in Et. destruct Et as [Ep Hl].
        assert ((o_cover f <? now s) = false) as -> by lia.
        eexists. split; [reflexivity|]. unfold R. cbn [q_now q_holder q_off].
        rewrite (proj2 (tlive_at_some _ _ _ _) (conj Ep Hl)). repeat split; auto. exists f. auto.
      * cbn [fst snd observe with_rt rts holder eqb_oaddr].
        assert (Hb : negb match qo with Some f => now s <=? o_cover f | None => false end = true).
        { destruct qo as [f|]; [|reflexivity]. destruct R4 as [F3 F4].
          assert ((now s <=? o_cover f) = false) as -> by lia. reflexivity. }
        rewrite Hb. cbn [andb].
        eexists. split; [reflexivity|]. unfold R. cbn [q_now q_holder q_off now rts holder pending with_rt].
        rewrite Et. repeat split; auto.
    + cbn [fst snd observe]. rewrite eqb_oaddr_refl. cbn [negb].
      eexists. split; [reflexivity|]. unfold R. cbn [q_now q_holder q_off]. auto.
  - (* Guarded *)
    rewrite (step_guarded k c s au). unfold mon_step. cbn [q_holder q_now q_off].
    change holder_auth with signed_by.
    destruct (signed_by (holder (rts s)) au) eqn:Es.
    + destruct k; cbn [fst snd observe rts holder is_ok]; rewrite eqb_oaddr_refl; cbn;
        eexists; (split; [reflexivity|]); unfold R; cbn [q_now q_holder q_off now rts]; auto.
    + cbn [fst snd observe is_ok]. rewrite eqb_oaddr_refl. cbn.
      eexists. split; [reflexivity|]. unfold R. cbn [q_now q_holder q_off]. auto.
  - (* Advance *)
    cbn [step fst snd]. unfold mon_step. cbn [q_holder q_now q_off observe rts holder fst is_ok].
    rewrite eqb_oaddr_refl. cbn [andb].
    eexists. split; [reflexivity|]. unfold R. cbn [q_now q_holder q_off now rts].
    assert (Hle : now s <= now s + Z.of_N n) by lia.
    split; [reflexivity|]. split; [reflexivity|]. split.
    { intros Hn. apply tlive_at_mono with (n := now s); auto. }
    destruct (tlive_at (now s + Z.of_N n) (pending (rts s))) as [e|] eqn:Et.
    + rewrite (tlive_at_later _ _ _ _ _ Hle Et) in R4. exact R4.
    + destruct (tlive_at (now s) (pending (rts s))) as [e|] eqn:Et0.
      * destruct R4 as [f [F1 [F2 [F3 F4]]]]. rewrite F1.
        apply tlive_at_some in Et0. destruct Et0 as [Ep _]. rewrite tlive_at_none in Et. specialize (Et e Ep).
        split; lia.
      * destruct qo as [f|]; [|exact I]. destruct R4. split; lia.
Qed.

Lemma R_init : forall hd, R (mon_init hd) (h_init hd).
Proof. intros hd. unfold R, mon_init, h_init, init. cbn. repeat split; auto. Qed.

(* over a model run the monitor never meets an unclassified failure *)
Lemma mon_model : forall hd cs q s i known,
  wf_header hd = true -> R q s ->
  let r := mon_from hd q (model_items (h_kind hd) (h_cfg hd) s cs) i known in
  (known = 0%N /\ r = (0%N, 0%N)) \/ snd r = 1%N.
Proof.
  intros hd cs. induction cs as [|cl rest IH]; intros q s i known Hwf HR.
  - cbn. destruct (N.eqb_spec known 0); [left; auto|right; reflexivity].
  - cbn [model_items]. destruct (step (h_kind hd) (h_cfg hd) s cl) as [s' o] eqn:E.
    cbn [mon_from].
    destruct (mon_step_model hd q s cl Hwf HR) as [q' [M1 M2]]. rewrite E in M1, M2. cbn [fst snd] in M1, M2.
    destruct (mon_step hd q (cl, o, observe s')) as [q1|q1|]; cbn [cont] in M1; [| |discriminate]; inversion M1; subst q1.
    + apply IH; assumption.
    + destruct (IH q' s' (N.succ i) (if N.eqb known 0 then N.succ i else known) Hwf M2) as [[K _]|K]; [|right; exact K].
      exfalso. destruct (N.eqb_spec known 0); lia.
Qed.

Theorem check_model : forall hd cs,
  wf_header hd = true ->
  let v := check (observe_model hd cs) in
  fst (fst v) = 0%N /\ ((snd (fst v) = 0%N /\ snd v = 0%N) \/ snd v = 1%N).
Proof.
  intros hd cs Hwf. unfold check, observe_model. rewrite Hwf. rewrite diff_model.
  pose proof (mon_model hd cs (mon_init hd) (h_init hd) 0%N 0%N Hwf (R_init hd)) as M. cbn zeta in M.
  destruct (mon_from hd (mon_init hd) (model_items (h_kind hd) (h_cfg hd) (h_init hd) cs) 0%N 0%N) as [m cls].
  cbn [fst snd] in *. split; [reflexivity|].
  destruct M as [[_ M]|M]; [inversion M; left; auto|right; exact M].
Qed.

(* ------------------------------------------------------------------ *)
(* if no offer is written over a still stored entry that outlives it, the known class never
   shows and the verdict of a model run is clean.  The hypothesis is a boolean of the run itself
   (met by every harness input without a shorter-over-stored offer). *)

Definition safe_call (s : state) (cl : call) : bool :=
  match cl with
  | Offer _ lu _ =>
      (lu =? 0) || match tlive_at (now s) (pending (rts s)) with Some e => tlive e <=? lu | None => true end
  | _ => true
  end.
Fixpoint no_shorter_override (k : kind) (c : hostcfg) (s : state) (cs : list call) : bool :=
  match cs with
  | [] => true
  | cl :: r => safe_call s cl && no_shorter_override k c (fst (step k c s cl)) r
  end.

Definition Pc (q : mon) : Prop := forall f, q_off q = Some f -> o_cover f = o_lu f.

Lemma mon_step_Pc : forall hd q it q',
  cont (mon_step hd q it) = Some q' -> Pc q ->
  (forall new lu au v ob f, it = (Offer new lu au, Ok v, ob) -> lu <> 0 ->
     q_off q = Some f -> q_now q <= o_cover f -> o_cover f <= lu) ->
  Pc q'.
Proof.
  intros hd q [[cl o] ob] q' H HP Hs. unfold mon_step in H.
  destruct cl as [new lu au|au|au|au|n].
  - destruct (negb (eqb_oaddr (fst ob) (q_holder q))); [discriminate|].
    destruct (lu =? 0) eqn:E0.
    + destruct o.
      * destruct (holder_auth (q_holder q) au && match q_off q with Some f => (o_new f =? new)%N | None => false end); [|discriminate].
        inversion H; subst q'. intros f Hf. discriminate.
      * destruct (holder_auth (q_holder q) au && match q_off q with Some f => (o_new f =? new)%N && (q_now q <=? o_lu f) | None => false end); [discriminate|].
        inversion H; subst q'. exact HP.
    + apply Z.eqb_neq in E0. destruct o as [v|].
      * destruct (holder_auth (q_holder q) au && (q_now q <=? lu) && (lu <=? q_now q + h_max hd - 1)); [|discriminate].
        destruct (q_off q) as [f0|] eqn:Eq.
        -- destruct (q_now q <=? o_cover f0) eqn:El; inversion H; subst q'; unfold set_off; intros f Hf; cbn in Hf; inversion Hf; subst f; cbn [o_cover o_lu]; [|reflexivity].
           specialize (Hs new lu au v ob f0 eq_refl E0 eq_refl). lia.
        -- inversion H; subst q'. unfold set_off. intros f Hf. cbn in Hf. inversion Hf; subst f. reflexivity.
      * destruct (holder_auth (q_holder q) au && (q_now q <=? lu) && (lu <=? q_now q + h_max hd - 1)); [discriminate|].
        inversion H; subst q'. exact HP.
  - destruct o.
    + destruct (q_off q) as [f0|]; [|discriminate].
      destruct (has_auth au (o_new f0) && eqb_oaddr (fst ob) (Some (o_new f0)) && is_some (q_holder q)); [|discriminate].
      destruct (q_now q <=? o_lu f0); [|destruct (q_now q <=? o_cover f0); [|discriminate]];
        inversion H; subst q'; intros f Hf; discriminate.
    + destruct (negb (eqb_oaddr (fst ob) (q_holder q))); [discriminate|].
      destruct (q_off q) as [f0|] eqn:Eq.
      * destruct (has_auth au (o_new f0) && (q_now q <=? o_lu f0) && is_some (q_holder q)); [discriminate|].
        inversion H; subst q'. exact HP.
      * inversion H; subst q'. exact HP.
  - destruct o.
    + destruct (holder_auth (q_holder q) au && eqb_oaddr (fst ob) None &&
                negb match q_off q with Some f => q_now q <=? o_cover f | None => false end); [|discriminate].
      inversion H; subst q'. exact HP.
    + destruct (negb (eqb_oaddr (fst ob) (q_holder q))); [discriminate|].
      destruct (holder_auth (q_holder q) au && match q_off q with Some f => o_cover f <? q_now q | None => true end); [discriminate|].
      inversion H; subst q'. exact HP.
  - destruct (eqb_oaddr (fst ob) (q_holder q) && Bool.eqb (is_ok o) (holder_auth (q_holder q) au)); [|discriminate].
    inversion H; subst q'. exact HP.
  - destruct (is_ok o && eqb_oaddr (fst ob) (q_holder q)); [|discriminate].
    inversion H; subst q'. exact HP.
Qed.

Lemma mon_step_not_known : forall hd q it q', Pc q -> mon_step hd q it <> MKnown q'.
Proof.
  intros hd q [[cl o] ob] q' HP. unfold mon_step.
  destruct cl as [new lu au|au|au|au|n].
  - destruct (negb (eqb_oaddr (fst ob) (q_holder q))); [discriminate|].
    destruct (lu =? 0); destruct o;
    repeat match goal with |- context [if ?b then _ else _] => destruct b end; discriminate.
  - destruct o.
    + destruct (q_off q) as [f0|] eqn:Eq; [|discriminate].
      destruct (has_auth au (o_new f0) && eqb_oaddr (fst ob) (Some (o_new f0)) && is_some (q_holder q)); [|discriminate].
      destruct (q_now q <=? o_lu f0) eqn:El; [discriminate|].
      rewrite (HP f0 Eq). rewrite El. discriminate.
    + destruct (negb (eqb_oaddr (fst ob) (q_holder q))); [discriminate|].
      destruct (q_off q) as [f0|]; [|discriminate].
      destruct (has_auth au (o_new f0) && (q_now q <=? o_lu f0) && is_some (q_holder q)); discriminate.
  - destruct o; repeat match goal with |- context [if ?b then _ else _] => destruct b end; discriminate.
  - repeat match goal with |- context [if ?b then _ else _] => destruct b end; discriminate.
  - repeat match goal with |- context [if ?b then _ else _] => destruct b end; discriminate.
Qed.

Lemma mon_model_safe : forall hd cs q s i,
  wf_header hd = true -> R q s -> Pc q ->
  no_shorter_override (h_kind hd) (h_cfg hd) s cs = true ->
  mon_from hd q (model_items (h_kind hd) (h_cfg hd) s cs) i 0%N = (0%N, 0%N).
Proof.
  intros hd cs. induction cs as [|cl rest IH]; intros q s i Hwf HR HP Hs; [reflexivity|].
  cbn [no_shorter_override] in Hs. apply andb_prop in Hs. destruct Hs as [Hs1 Hs2].
  cbn [model_items]. destruct (step (h_kind hd) (h_cfg hd) s cl) as [s' o] eqn:E.
  cbn [mon_from].
  destruct (mon_step_model hd q s cl Hwf HR) as [q' [M1 M2]]. rewrite E in M1, M2. cbn [fst snd] in M1, M2.
  assert (HP' : Pc q').
  { apply (mon_step_Pc hd q _ q' M1 HP). intros new lu au v ob f Hit Hz Hq Hn. inversion Hit; subst cl.
    unfold safe_call in Hs1. destruct (lu =? 0) eqn:E0; [apply Z.eqb_eq in E0; contradiction|]. cbn [orb] in Hs1.
    destruct HR as [R1 [R2 [R3 R4]]].
    destruct (tlive_at (now s) (pending (rts s))) as [e|].
    - destruct R4 as [f' [F1 [F2 [F3 F4]]]]. rewrite Hq in F1. inversion F1; subst f'. lia.
    - rewrite Hq in R4. lia. }
  destruct (mon_step hd q (cl, o, observe s')) as [q1|q1|] eqn:Em; cbn [cont] in M1; [| |discriminate]; inversion M1; subst q1.
  - cbn [fst] in Hs2. apply IH; assumption.
  - exfalso. exact (mon_step_not_known hd q _ q' HP Em).
Qed.

Theorem check_model_no_override : forall hd cs,
  wf_header hd = true ->
  no_shorter_override (h_kind hd) (h_cfg hd) (h_init hd) cs = true ->
  check (observe_model hd cs) = (0%N, 0%N, 0%N).
Proof.
  intros hd cs Hwf Hs. unfold check, observe_model. rewrite Hwf. rewrite diff_model.
  rewrite (mon_model_safe hd cs (mon_init hd) (h_init hd) 0%N Hwf (R_init hd)); auto.
  intros f Hf. discriminate.
Qed.

(* ------------------------------------------------------------------ *)
(* class 1 is EXACTLY the shape of known_findings.json, on ANY trace (implementation or model):
   "offer A until L1, offer B until L2 < L1 (A merely replaced: no cancel / accept in between),
    B accepts at n with L2 < n <= L1" *)

Definition offer_item (it : item) (new : addr) (lu : Z) : Prop :=
  exists au v ob, it = (Offer new lu au, Ok v, ob) /\ lu <> 0.
(* no successful offer, cancel or accept / no successful cancel or accept *)
Definition is_quiet (it : item) : bool :=
  match it with (Offer _ _ _, Ok _, _) | (Accept _, Ok _, _) => false | _ => true end.
Definition is_no_ca (it : item) : bool :=
  match it with (Offer _ lu _, Ok _, _) => negb (lu =? 0) | (Accept _, Ok _, _) => false | _ => true end.

Fixpoint mon_run (hd : header) (q : mon) (l : list item) : option mon :=
  match l with
  | [] => Some q
  | it :: r => match cont (mon_step hd q it) with Some q' => mon_run hd q' r | None => None end
  end.

Lemma mon_run_app : forall hd l1 l2 q,
  mon_run hd q (l1 ++ l2) = match mon_run hd q l1 with Some q1 => mon_run hd q1 l2 | None => None end.
Proof.
  intros hd l1. induction l1 as [|it r IH]; intros l2 q; [reflexivity|].
  cbn [app mon_run]. destruct (cont (mon_step hd q it)); [apply IH|reflexivity].
Qed.

Definition Shape (l : list item) (f : offer_t) : Prop :=
  exists l1 itB l2, l = l1 ++ itB :: l2 /\ offer_item itB (o_new f) (o_lu f) /\ forallb is_quiet l2 = true /\
    (o_cover f = o_lu f \/
     (o_lu f < o_cover f /\
      exists m1 itA m2 a, l1 = m1 ++ itA :: m2 /\ offer_item itA a (o_cover f) /\ forallb is_no_ca m2 = true)).

Lemma quiet_no_ca : forall l, forallb is_quiet l = true -> forallb is_no_ca l = true.
Proof.
  intros l. induction l as [|it r IH]; [reflexivity|]. cbn [forallb]. rewrite !andb_true_iff. intros [A B].
  split; [|apply IH; exact B]. destruct it as [[cl o] ob]. destruct cl; destruct o; cbn in *; auto; discriminate.
Qed.

Lemma mon_step_cases : forall hd q it q',
  cont (mon_step hd q it) = Some q' ->
  (q_off q' = q_off q /\ is_quiet it = true) \/ q_off q' = None \/
  (exists new lu au v ob, it = (Offer new lu au, Ok v, ob) /\ lu <> 0 /\
     q_off q' = Some (match q_off q with
                      | Some f => if q_now q <=? o_cover f
                                  then {| o_new := new; o_lu := lu; o_cover := Z.max lu (o_cover f) |}
                                  else {| o_new := new; o_lu := lu; o_cover := lu |}
                      | None => {| o_new := new; o_lu := lu; o_cover := lu |}
                      end)).
Proof.
  intros hd q [[cl o] ob] q' H. unfold mon_step in H.
  destruct cl as [new lu au|au|au|au|n].
  - destruct (negb (eqb_oaddr (fst ob) (q_holder q))); [discriminate|].
    destruct (lu =? 0) eqn:E0.
    + destruct o.
      * destruct (holder_auth (q_holder q) au && match q_off q with Some f => (o_new f =? new)%N | None => false end); [|discriminate].
        inversion H; subst q'. right. left. reflexivity.
      * destruct (holder_auth (q_holder q) au && match q_off q with Some f => (o_new f =? new)%N && (q_now q <=? o_lu f) | None => false end); [discriminate|].
        inversion H; subst q'. left. auto.
    + apply Z.eqb_neq in E0. destruct o as [v|].
      * destruct (holder_auth (q_holder q) au && (q_now q <=? lu) && (lu <=? q_now q + h_max hd - 1)); [|discriminate].
        inversion H; subst q'. right. right. exists new, lu, au, v, ob. repeat split; auto.
      * destruct (holder_auth (q_holder q) au && (q_now q <=? lu) && (lu <=? q_now q + h_max hd - 1)); [discriminate|].
        inversion H; subst q'. left. auto.
  - destruct o.
    + destruct (q_off q) as [f0|]; [|discriminate].
      destruct (has_auth au (o_new f0) && eqb_oaddr (fst ob) (Some (o_new f0)) && is_some (q_holder q)); [|discriminate].
      destruct (q_now q <=? o_lu f0); [|destruct (q_now q <=? o_cover f0); [|discriminate]];
        inversion H; subst q'; right; left; reflexivity.
    + destruct (negb (eqb_oaddr (fst ob) (q_holder q))); [discriminate|].
      destruct (q_off q) as [f0|] eqn:Eq.
      * destruct (has_auth au (o_new f0) && (q_now q <=? o_lu f0) && is_some (q_holder q)); [discriminate|].
        inversion H; subst q'. left. auto.
      * inversion H; subst q'. left. auto.
  - destruct o.
    + destruct (holder_auth (q_holder q) au && eqb_oaddr (fst ob) None &&
                negb match q_off q with Some f => q_now q <=? o_cover f | None => false end); [|discriminate].
      inversion H; subst q'. left. auto.
    + destruct (negb (eqb_oaddr (fst ob) (q_holder q))); [discriminate|].
      destruct (holder_auth (q_holder q) au && match q_off q with Some f => o_cover f <? q_now q | None => true end); [discriminate|].
      inversion H; subst q'. left. auto.
  - destruct (eqb_oaddr (fst ob) (q_holder q) && Bool.eqb (is_ok o) (holder_auth (q_holder q) au)); [|discriminate].
    inversion H; subst q'. left. destruct o; auto.
  - destruct (is_ok o && eqb_oaddr (fst ob) (q_holder q)); [|discriminate].
    inversion H; subst q'. left. destruct o; auto.
Qed.

Lemma shape_step : forall hd l q it q',
  (forall f, q_off q = Some f -> Shape l f) ->
  cont (mon_step hd q it) = Some q' ->
  forall f', q_off q' = Some f' -> Shape (l ++ [it]) f'.
Proof.
  intros hd l q it q' IH H f' Hf'.
  destruct (mon_step_cases hd q it q' H) as [[A B]|[A|[new [lu [au [v [ob [A [B C]]]]]]]]].
  - rewrite A in Hf'. destruct (IH f' Hf') as [l1 [itB [l2 [E1 [E2 [E3 E4]]]]]].
    exists l1, itB, (l2 ++ [it]). split; [rewrite E1, <- app_assoc; reflexivity|]. split; [exact E2|]. split; [|exact E4].
    rewrite forallb_app, E3. cbn. rewrite B. reflexivity.
  - congruence.
  - rewrite C in Hf'. inversion Hf'; subst f'; clear Hf'.
    assert (Hit : forall a0, a0 = new -> offer_item it a0 lu) by (intros a0 ->; exists au, v, ob; auto).
    destruct (q_off q) as [f0|] eqn:Eq.
    + destruct (q_now q <=? o_cover f0) eqn:El.
      * exists l, it, []. split; [reflexivity|]. split; [apply Hit; reflexivity|]. split; [reflexivity|]. cbn [o_cover o_lu].
        destruct (Z.max_spec lu (o_cover f0)) as [[M1 M2]|[M1 M2]]; [|left; lia].
        right. split; [lia|]. rewrite M2.
        destruct (IH f0 eq_refl) as [l1 [itB [l2 [E1 [E2 [E3 E4]]]]]].
        destruct E4 as [E4|[E4 [m1 [itA [m2 [a [F1 [F2 F3]]]]]]]].
        -- exists l1, itB, l2, (o_new f0). split; [exact E1|]. split; [rewrite E4; exact E2|]. apply quiet_no_ca; exact E3.
        -- exists m1, itA, (m2 ++ itB :: l2), a. split; [rewrite E1, F1, <- app_assoc; reflexivity|]. split; [exact F2|].
           rewrite forallb_app, F3. cbn [forallb andb]. rewrite (quiet_no_ca _ E3), andb_true_r.
           destruct E2 as [au0 [v0 [ob0 [-> Hz]]]]. cbn. destruct (o_lu f0 =? 0) eqn:E0; [apply Z.eqb_eq in E0; contradiction|reflexivity].
      * exists l, it, []. split; [reflexivity|]. split; [apply Hit; reflexivity|]. split; [reflexivity|]. left. reflexivity.
    + exists l, it, []. split; [reflexivity|]. split; [apply Hit; reflexivity|]. split; [reflexivity|]. left. reflexivity.
Qed.

Lemma shape_inv : forall hd l q,
  mon_run hd (mon_init hd) l = Some q -> forall f, q_off q = Some f -> Shape l f.
Proof.
  intros hd l. induction l as [|it r IH] using rev_ind; intros q H f Hf.
  - cbn in H. inversion H; subst q. discriminate.
  - rewrite mon_run_app in H. destruct (mon_run hd (mon_init hd) r) as [q1|] eqn:E; [|discriminate].
    cbn [mon_run] in H. destruct (cont (mon_step hd q1 it)) as [q2|] eqn:E2; [|discriminate]. inversion H; subst q2.
    eapply shape_step; eauto.
Qed.

Theorem known_is_F2_shape : forall hd l q it q',
  mon_run hd (mon_init hd) l = Some q -> mon_step hd q it = MKnown q' ->
  exists au v ob b L2 L1 m1 itA m2 a itB l2,
    it = (Accept au, Ok v, ob) /\ has_auth au b = true /\ fst ob = Some b /\
    l = (m1 ++ itA :: m2) ++ itB :: l2 /\
    offer_item itA a L1 /\ forallb is_no_ca m2 = true /\       (* offer A until L1, only replaced since *)
    offer_item itB b L2 /\ forallb is_quiet l2 = true /\        (* the latest offer: B until L2 *)
    L2 < q_now q <= L1.                                          (* accepted after L2, within L1 *)
Proof.
  intros hd l q [[cl o] ob] q' Hr Hk. unfold mon_step in Hk.
  destruct cl as [new lu au|au|au|au|n].
  - exfalso. destruct (negb (eqb_oaddr (fst ob) (q_holder q))); [discriminate|].
    destruct (lu =? 0); destruct o;
    repeat match goal with H : context [if ?b then _ else _] |- _ => destruct b end; discriminate.
  - destruct o as [v|].
    + destruct (q_off q) as [f|] eqn:Eq; [|discriminate].
      destruct (has_auth au (o_new f) && eqb_oaddr (fst ob) (Some (o_new f)) && is_some (q_holder q)) eqn:Ec; [|discriminate].
      destruct (q_now q <=? o_lu f) eqn:E1; [discriminate|].
      destruct (q_now q <=? o_cover f) eqn:E2; [|discriminate].
      apply andb_prop in Ec. destruct Ec as [Ec _]. apply andb_prop in Ec. destruct Ec as [Ea Eh].
      destruct (shape_inv hd l q Hr f Eq) as [l1 [itB [l2 [S1 [S2 [S3 S4]]]]]].
      destruct S4 as [S4|[S4 [m1 [itA [m2 [a [F1 [F2 F3]]]]]]]]; [lia|].
      exists au, v, ob, (o_new f), (o_lu f), (o_cover f), m1, itA, m2, a, itB, l2.
      repeat split; auto; try lia.
      * destruct (fst ob) as [x|]; cbn in Eh; [apply N.eqb_eq in Eh; subst; reflexivity|discriminate].
      * rewrite S1, F1. reflexivity.
    + exfalso. destruct (negb (eqb_oaddr (fst ob) (q_holder q))); [discriminate|].
      destruct (q_off q) as [f|]; [|discriminate].
      destruct (has_auth au (o_new f) && (q_now q <=? o_lu f) && is_some (q_holder q)); discriminate.
  - exfalso. destruct o; repeat match goal with H : context [if ?b then _ else _] |- _ => destruct b end; discriminate.
  - exfalso. repeat match goal with H : context [if ?b then _ else _] |- _ => destruct b end; discriminate.
  - exfalso. repeat match goal with H : context [if ?b then _ else _] |- _ => destruct b end; discriminate.
Qed.

(* a class-1 verdict of [check] points at such a step *)
Lemma mon_from_known_nonzero : forall hd l q i known, known <> 0%N ->
  let r := mon_from hd q l i known in r = (known, 1%N) \/ snd r = 0%N.
Proof.
  intros hd l. induction l as [|it rest IH]; intros q i known Hk; cbn [mon_from].
  - destruct (N.eqb_spec known 0); [contradiction|left; reflexivity].
  - destruct (mon_step hd q it) as [q1|q1|].
    + apply IH; exact Hk.
    + destruct (N.eqb_spec known 0); [contradiction|]. apply IH; exact Hk.
    + right. reflexivity.
Qed.

Theorem verdict_known_points_at_F2 : forall hd l k,
  mon_from hd (mon_init hd) l 0%N 0%N = (k, 1%N) ->
  exists l1 it l2 q1 q', l = l1 ++ it :: l2 /\ k = N.of_nat (length l1 + 1) /\
    mon_run hd (mon_init hd) l1 = Some q1 /\ mon_step hd q1 it = MKnown q'.
Proof.
  intros hd l k. generalize (mon_init hd) as q0.
  assert (G : forall l q i pre q0, mon_run hd q0 pre = Some q -> i = N.of_nat (length pre) ->
              mon_from hd q l i 0%N = (k, 1%N) ->
              exists l1 it l2 q1 q', pre ++ l = l1 ++ it :: l2 /\ k = N.of_nat (length l1 + 1) /\
                mon_run hd q0 l1 = Some q1 /\ mon_step hd q1 it = MKnown q').
  { clear l. intros l. induction l as [|it rest IH]; intros q i pre q0 Hp Hi H; cbn [mon_from] in H; [cbn in H; discriminate|].
    destruct (mon_step hd q it) as [q1|q1|] eqn:Em.
    - destruct (IH q1 (N.succ i) (pre ++ [it]) q0) as [l1 [it' [l2 [q1' [q'' [A B]]]]]]; auto.
      + rewrite mon_run_app, Hp. cbn [mon_run]. rewrite Em. reflexivity.
      + rewrite app_length. cbn. lia.
      + exists l1, it', l2, q1', q''. rewrite <- app_assoc in A. exact (conj A B).
    - change (if (0 =? 0)%N then N.succ i else 0%N) with (N.succ i) in H.
      destruct (mon_from_known_nonzero hd rest q1 (N.succ i) (N.succ i) ltac:(lia)) as [K|K]; cbn zeta in K.
      + rewrite K in H. inversion H. exists pre, it, rest, q, q1. repeat split; auto. lia.
      + rewrite H in K. discriminate.
    - discriminate. }
  intros q0 H. destruct (G l q0 0%N [] q0 eq_refl eq_refl H) as [l1 [it [l2 [q1 [q' X]]]]]. exists l1, it, l2, q1, q'. exact X.
Qed.
