(* C07: the monitor of Run/C07.v accepts every run of the model, except that it reports
   class 1 (the known finding F2) - and nothing else - where the model exhibits F2. *)
From SC Require Import Lib.Prelude Lib.Int Lib.Host Model.RoleTransfer Proofs.RoleTransfer Run.C07.

Lemma eqb_oaddr_refl : forall a, eqb_oaddr a a = true.
Proof. intros [a|]; cbn; [apply N.eqb_refl|reflexivity]. Qed.
Lemma eqb_res_refl : forall a, eqb_res a a = true.
Proof. intros [a|]; cbn; [apply Z.eqb_refl|reflexivity]. Qed.
Lemma eqb_pv_refl : forall a, eqb_pv a a = true.
Proof. intros [[a l]|]; cbn; [rewrite N.eqb_refl, Z.eqb_refl|]; reflexivity. Qed.
Lemma eqb_obs_refl : forall a, eqb_obs a a = true.
Proof. intros [a b]. unfold eqb_obs. cbn. rewrite eqb_oaddr_refl, eqb_pv_refl. reflexivity. Qed.

Lemma diff_model : forall k c cs s i, diff_from k c s (model_items k c s cs) i = 0%N.
Proof.
  intros k c cs. induction cs as [|cl r IH]; intros s i; [reflexivity|].
  cbn [model_items]. destruct (step k c s cl) as [s' o] eqn:E. cbn [diff_from]. rewrite E.
  rewrite eqb_res_refl, eqb_obs_refl. cbn [andb]. apply IH.
Qed.

(* the monitor's reconstruction agrees with the model state *)
Definition R (q : mon) (s : state) : Prop :=
  q_now q = now s /\ q_holder q = holder (rts s) /\
  (holder (rts s) = None -> tlive_at (now s) (pending (rts s)) = None) /\
  match tlive_at (now s) (pending (rts s)) with
  | Some e => exists f, q_off q = Some f /\ o_new f = tval e /\ o_cover f = tlive e /\ o_lu f <= o_cover f
  | None => match q_off q with
            | None => True
            | Some f => o_cover f < now s /\ o_lu f <= o_cover f
            end
  end.

Lemma holder_auth_signed : forall h au, holder_auth h au = signed_by h au.
Proof. reflexivity. Qed.

Lemma tlive_at_later : forall V n n' (p : option (tentry V)) e,
  n <= n' -> tlive_at n' p = Some e -> tlive_at n p = Some e.
Proof. intros V n n' p e Hn H. apply tlive_at_some in H. apply tlive_at_some. destruct H. split; [assumption|lia]. Qed.

Lemma mon_step_model : forall hd q s cl,
  wf_header hd = true -> R q s ->
  (exists q', mon_step hd q (cl, snd (step (h_kind hd) (h_cfg hd) s cl),
                             observe (fst (step (h_kind hd) (h_cfg hd) s cl))) = MOk q' /\
              R q' (fst (step (h_kind hd) (h_cfg hd) s cl))) \/
  mon_step hd q (cl, snd (step (h_kind hd) (h_cfg hd) s cl),
                 observe (fst (step (h_kind hd) (h_cfg hd) s cl))) = MBad 1%N.
Proof.
  intros hd q s cl Hwf HR.
  assert (Hmin : 1 <= min_temp_ttl (h_cfg hd)) by (unfold wf_header in Hwf; cbn; lia).
  destruct q as [qn qh qo]. unfold R in HR. cbn [q_now q_holder q_off] in HR.
  destruct HR as [R1 [R2 [R3 R4]]]. subst qn qh.
  set (k := h_kind hd). set (c := h_cfg hd).
  destruct cl as [new lu au|au|au|au|n].
  - (* Offer *)
    destruct (Z.eq_dec lu 0) as [Hz|Hz].
    + subst lu. rewrite (step_cancel k c s new au).
      unfold mon_step. cbn [q_holder q_now q_off fst snd].
      destruct (signed_by (holder (rts s)) au &&
                match tget (now s) (pending (rts s)) with Some pa => N.eqb pa new | None => false end) eqn:Eb.
      * cbn [fst snd observe with_rt rts holder]. rewrite eqb_oaddr_refl. cbn [negb]. change (0 =? 0) with true. cbv iota.
        apply andb_prop in Eb. destruct Eb as [Es Eg].
        change holder_auth with signed_by. rewrite Es. cbn [andb].
        unfold tget in Eg. destruct (tlive_at (now s) (pending (rts s))) as [e|] eqn:Et; [|discriminate].
        destruct R4 as [f [F1 [F2 [F3 F4]]]]. rewrite F1. rewrite F2, Eg.
        left. eexists. split; [reflexivity|].
        unfold R, set_off. cbn [q_now q_holder q_off now rts holder pending with_rt tlive_at].
        repeat split; auto.
      * cbn [fst snd observe]. rewrite eqb_oaddr_refl. cbn [negb]. change (0 =? 0) with true. cbv iota.
        change holder_auth with signed_by.
        match goal with |- (exists q', (if ?b then _ else _) = _ /\ _) \/ _ => assert (Hb : b = false) end.
        { apply andb_false_iff in Eb. destruct Eb as [Eb|Eb]; [rewrite Eb; reflexivity|].
          destruct (signed_by (holder (rts s)) au); [|reflexivity]. cbn [andb].
          destruct qo as [f|]; [|reflexivity].
          unfold tget in Eb. destruct (tlive_at (now s) (pending (rts s))) as [e|] eqn:Et.
          - destruct R4 as [f' [F1 [F2 [F3 F4]]]]. inversion F1; subst f'. rewrite F2, Eb. reflexivity.
          - destruct R4 as [F3 F4]. destruct (now s <=? o_lu f) eqn:El; [|apply andb_false_r]. lia. }
        rewrite Hb. left. eexists. split; [reflexivity|]. unfold R. cbn [q_now q_holder q_off]. auto.
    + rewrite (step_offer k c s new lu au Hmin Hz).
      unfold mon_step. cbn [q_holder q_now q_off fst snd].
      assert (E0 : (lu =? 0) = false) by (apply Z.eqb_neq; exact Hz). rewrite E0.
      change holder_auth with signed_by.
      assert (Hv : signed_by (holder (rts s)) au && (now s <=? lu) && (lu <=? now s + h_max hd - 1) =
                   signed_by (holder (rts s)) au && ((now s <=? lu) && (lu <=? now s + max_ttl c - 1))).
      { rewrite andb_assoc. reflexivity. }
      rewrite Hv.
      destruct (signed_by (holder (rts s)) au && ((now s <=? lu) && (lu <=? now s + max_ttl c - 1))) eqn:Eb.
      * cbn [fst snd observe with_rt rts holder]. rewrite eqb_oaddr_refl. cbn [negb].
        left. eexists. split; [reflexivity|].
        apply andb_prop in Eb. destruct Eb as [Es Ev]. apply andb_prop in Ev. destruct Ev as [Ev1 Ev2].
        unfold R, set_off. cbn [q_now q_holder q_off now rts holder pending with_rt].
        split; [reflexivity|]. split; [reflexivity|]. split.
        { intros Hn. unfold signed_by in Es. rewrite Hn in Es. discriminate. }
        destruct (tlive_at (now s) (pending (rts s))) as [e|] eqn:Et.
        -- destruct R4 as [f [F1 [F2 [F3 F4]]]]. rewrite F1.
           apply tlive_at_some in Et. destruct Et as [_ Hl].
           assert (El : (now s <=? o_cover f) = true) by lia. rewrite El.
           unfold tlive_at. cbn [tlive tval].
           assert (Z.max (tlive e) lu <? now s = false) as -> by lia.
           eexists. split; [reflexivity|]. cbn [o_new o_lu o_cover tval tlive]. repeat split; lia.
        -- unfold tlive_at. cbn [tlive tval].
           assert (Z.max lu (now s + min_temp_ttl c - 1) <? now s = false) as -> by lia.
           assert (Hf : Z.max lu (now s + h_min hd - 1) = Z.max lu (now s + min_temp_ttl c - 1)) by reflexivity.
           destruct qo as [f|].
           ++ destruct R4 as [F3 F4]. assert (El : (now s <=? o_cover f) = false) by lia. rewrite El.
              eexists. split; [reflexivity|]. cbn [o_new o_lu o_cover tval tlive]. repeat split; lia.
           ++ eexists. split; [reflexivity|]. cbn [o_new o_lu o_cover tval tlive]. repeat split; lia.
      * cbn [fst snd observe]. rewrite eqb_oaddr_refl. cbn [negb].
        left. eexists. split; [reflexivity|]. unfold R. cbn [q_now q_holder q_off]. auto.
  - (* Accept *)
    rewrite (step_accept k c s au). unfold mon_step. cbn [q_holder q_now q_off].
    unfold tget in *.
    destruct (tlive_at (now s) (pending (rts s))) as [e|] eqn:Et.
    + destruct R4 as [f [F1 [F2 [F3 F4]]]]. rewrite F1.
      apply tlive_at_some in Et. destruct Et as [Ep Hl].
      destruct (has_auth au (tval e) && kind_ready k (holder (rts s))) eqn:Eb.
      * cbn [fst snd observe with_rt rts holder]. apply andb_prop in Eb. destruct Eb as [Ea Ek].
        rewrite F2, Ea. rewrite eqb_oaddr_refl. cbn [andb].
        assert (Hs : is_some (holder (rts s)) = true).
        { destruct (holder (rts s)) as [hh|] eqn:Eh; [reflexivity|].
          specialize (R3 eq_refl). discriminate. }
        rewrite Hs.
        destruct (now s <=? o_lu f) eqn:El.
        -- left. eexists. split; [reflexivity|]. unfold R. cbn [q_now q_holder q_off now rts holder pending with_rt tlive_at].
           repeat split; auto.
        -- assert (Ec : (now s <=? o_cover f) = true) by lia. rewrite Ec. right. reflexivity.
      * cbn [fst snd observe]. rewrite eqb_oaddr_refl. cbn [negb].
        assert (Hb : has_auth au (o_new f) && (now s <=? o_lu f) && is_some (holder (rts s)) = false).
        { rewrite F2. apply andb_false_iff in Eb. destruct Eb as [Eb|Eb]; [rewrite Eb; reflexivity|].
          unfold kind_ready in Eb. destruct k; [discriminate|].
          destruct (holder (rts s)); [discriminate|]. cbn. apply andb_false_r. }
        rewrite Hb. left. eexists. split; [reflexivity|]. unfold R. cbn [q_now q_holder q_off].
        rewrite (proj2 (tlive_at_some _ _ _ _) (conj Ep Hl)). repeat split; auto. exists f. auto.
    + cbn [fst snd observe]. rewrite eqb_oaddr_refl. cbn [negb].
      destruct qo as [f|].
      * destruct R4 as [F3 F4].
        assert (Hb : has_auth au (o_new f) && (now s <=? o_lu f) && is_some (holder (rts s)) = false).
        { assert ((now s <=? o_lu f) = false) as -> by lia. rewrite andb_false_r. reflexivity. }
        rewrite Hb. left. eexists. split; [reflexivity|]. unfold R. cbn [q_now q_holder q_off]. rewrite Et. auto.
      * left. eexists. split; [reflexivity|]. unfold R. cbn [q_now q_holder q_off]. rewrite Et. auto.
  - (* Renounce *)
    rewrite (step_renounce k c s au). unfold mon_step. cbn [q_holder q_now q_off].
    change holder_auth with signed_by. unfold tget in *.
    destruct (signed_by (holder (rts s)) au) eqn:Es; cbn [andb].
    + destruct (tlive_at (now s) (pending (rts s))) as [e|] eqn:Et.
      * cbn [fst snd observe]. rewrite eqb_oaddr_refl. cbn [negb].
        destruct R4 as [f [F1 [F2 [F3 F4]]]]. rewrite F1.
        apply tlive_at_some in Et. destruct Et as [Ep Hl].
        assert ((o_cover f <? now s) = false) as -> by lia.
        left. eexists. split; [reflexivity|]. unfold R. cbn [q_now q_holder q_off].
        rewrite (proj2 (tlive_at_some _ _ _ _) (conj Ep Hl)). repeat split; auto. exists f. auto.
      * cbn [fst snd observe with_rt rts holder eqb_oaddr].
        assert (Hb : negb match qo with Some f => now s <=? o_lu f | None => false end = true).
        { destruct qo as [f|]; [|reflexivity]. destruct R4 as [F3 F4].
          assert ((now s <=? o_lu f) = false) as -> by lia. reflexivity. }
        rewrite Hb. cbn [andb].
        left. eexists. split; [reflexivity|]. unfold R. cbn [q_now q_holder q_off now rts holder pending with_rt].
        rewrite Et. repeat split; auto.
    + cbn [fst snd observe]. rewrite eqb_oaddr_refl. cbn [negb].
      left. eexists. split; [reflexivity|]. unfold R. cbn [q_now q_holder q_off]. auto.
  - (* Guarded *)
    rewrite (step_guarded k c s au). unfold mon_step. cbn [q_holder q_now q_off].
    change holder_auth with signed_by.
    destruct (signed_by (holder (rts s)) au) eqn:Es.
    + destruct k; cbn [fst snd observe rts holder is_ok]; rewrite eqb_oaddr_refl; cbn;
        left; eexists; (split; [reflexivity|]); unfold R; cbn [q_now q_holder q_off now rts]; auto.
    + cbn [fst snd observe is_ok]. rewrite eqb_oaddr_refl. cbn.
      left. eexists. split; [reflexivity|]. unfold R. cbn [q_now q_holder q_off]. auto.
  - (* Advance *)
    cbn [step fst snd]. unfold mon_step. cbn [q_holder q_now q_off observe rts holder fst is_ok].
    rewrite eqb_oaddr_refl. cbn [andb].
    left. eexists. split; [reflexivity|]. unfold R. cbn [q_now q_holder q_off now rts].
    assert (Hle : now s <= now s + Z.of_N n) by lia.
    split; [reflexivity|]. split; [reflexivity|]. split.
    { intros Hn. apply tlive_at_mono with (n := now s); auto. }
    destruct (tlive_at (now s + Z.of_N n) (pending (rts s))) as [e|] eqn:Et.
    + rewrite (tlive_at_later _ _ _ _ _ Hle Et) in R4. exact R4.
    + destruct (tlive_at (now s) (pending (rts s))) as [e|] eqn:Et0.
      * destruct R4 as [f [F1 [F2 [F3 F4]]]]. rewrite F1.
        apply tlive_at_some in Et0. destruct Et0 as [Ep _]. rewrite tlive_at_none in Et. specialize (Et e Ep).
        split; lia.
      * destruct qo as [f|]; [|exact I]. destruct R4. split; lia.
Qed.

Lemma R_init : forall hd, R (mon_init hd) (h_init hd).
Proof. intros hd. unfold R, mon_init, h_init, init. cbn. repeat split; auto. Qed.

(* over a model run the monitor either accepts everything or stops with class 1 *)
Lemma mon_model : forall hd cs q s i,
  wf_header hd = true -> R q s ->
  let r := mon_from hd q (model_items (h_kind hd) (h_cfg hd) s cs) i in
  r = (0%N, 0%N) \/ snd r = 1%N.
Proof.
  intros hd cs. induction cs as [|cl rest IH]; intros q s i Hwf HR; [left; reflexivity|].
  cbn [model_items]. destruct (step (h_kind hd) (h_cfg hd) s cl) as [s' o] eqn:E.
  cbn [mon_from].
  pose proof (mon_step_model hd q s cl Hwf HR) as M. rewrite E in M. cbn [fst snd] in M.
  destruct M as [[q' [M1 M2]]|M].
  - rewrite M1. apply IH; assumption.
  - rewrite M. right. reflexivity.
Qed.

Theorem check_model : forall hd cs,
  wf_header hd = true ->
  let v := check (observe_model hd cs) in
  fst (fst v) = 0%N /\ ((snd (fst v) = 0%N /\ snd v = 0%N) \/ snd v = 1%N).
Proof.
  intros hd cs Hwf. unfold check, observe_model. rewrite Hwf. rewrite diff_model.
  pose proof (mon_model hd cs (mon_init hd) (h_init hd) 0%N Hwf (R_init hd)) as M. cbn zeta in M.
  destruct (mon_from hd (mon_init hd) (model_items (h_kind hd) (h_cfg hd) (h_init hd) cs) 0%N) as [m cls].
  cbn [fst snd] in *. split; [reflexivity|].
  destruct M as [M|M]; [inversion M; left; auto|right; exact M].
Qed.

(* ------------------------------------------------------------------ *)
(* with min_temp_entry_ttl = 1 and offers whose live_until never decreases, nothing is ever
   overwritten by a shorter-lived offer: the monitor accepts the whole model run *)

Fixpoint lus_ok (m : Z) (cs : list call) : bool :=
  match cs with
  | [] => true
  | Offer _ lu _ :: r => if lu =? 0 then lus_ok m r else (m <=? lu) && lus_ok (Z.max m lu) r
  | _ :: r => lus_ok m r
  end.

Definition Pc (m : Z) (q : mon) : Prop :=
  forall f, q_off q = Some f -> o_cover f = o_lu f /\ o_lu f <= Z.max m (q_now q).

Ltac break_if :=
  match goal with
  | H : context [if ?b then _ else _] |- _ => destruct b eqn:?
  | H : context [match ?x with Some _ => _ | None => _ end] |- _ => destruct x eqn:?
  | H : context [match ?x with Ok _ => _ | Fail => _ end] |- _ => destruct x eqn:?
  end.

Lemma mon_step_Pc : forall hd q cl o ob q' m,
  h_min hd = 1 -> mon_step hd q (cl, o, ob) = MOk q' -> Pc m q ->
  (forall new lu au, cl = Offer new lu au -> lu <> 0 -> m <= lu) ->
  Pc (match cl with Offer _ lu _ => if lu =? 0 then m else Z.max m lu | _ => m end) q'.
Proof.
  intros hd q cl o ob q' m Hmin H HP Hm. unfold mon_step in H.
  destruct cl as [new lu au|au|au|au|n].
  - destruct (negb (eqb_oaddr (fst ob) (q_holder q))); [discriminate|].
    destruct (lu =? 0) eqn:E0.
    + destruct o.
      * destruct (holder_auth (q_holder q) au && match q_off q with Some f => (o_new f =? new)%N | None => false end); [|discriminate].
        inversion H; subst q'. unfold Pc, set_off. cbn. intros f Hf. discriminate.
      * destruct (holder_auth (q_holder q) au && match q_off q with Some f => (o_new f =? new)%N && (q_now q <=? o_lu f) | None => false end); [discriminate|].
        inversion H; subst q'. unfold Pc in *. intros f Hf. specialize (HP f Hf). lia.
    + apply Z.eqb_neq in E0. specialize (Hm new lu au eq_refl E0).
      destruct o.
      * destruct (holder_auth (q_holder q) au && (q_now q <=? lu) && (lu <=? q_now q + h_max hd - 1)) eqn:Ev; [|discriminate].
        apply andb_prop in Ev. destruct Ev as [Ev _]. apply andb_prop in Ev. destruct Ev as [_ Ev].
        destruct (q_off q) as [f0|] eqn:Eq.
        -- destruct (HP f0 Eq) as [A B].
           destruct (q_now q <=? o_cover f0) eqn:El; inversion H; subst q'; unfold Pc, set_off; cbn [q_off q_now];
             intros f Hf; inversion Hf; subst f; cbn [o_cover o_lu]; rewrite ?Hmin; split; lia.
        -- inversion H; subst q'; unfold Pc, set_off; cbn [q_off q_now];
             intros f Hf; inversion Hf; subst f; cbn [o_cover o_lu]; rewrite ?Hmin; split; lia.
      * destruct (holder_auth (q_holder q) au && (q_now q <=? lu) && (lu <=? q_now q + h_max hd - 1)); [discriminate|].
        inversion H; subst q'. unfold Pc in *. intros f Hf. specialize (HP f Hf). lia.
  - destruct o.
    + destruct (q_off q) as [f0|]; [|discriminate].
      destruct (has_auth au (o_new f0) && eqb_oaddr (fst ob) (Some (o_new f0)) && is_some (q_holder q)); [|discriminate].
      destruct (q_now q <=? o_lu f0).
      * inversion H; subst q'. unfold Pc. cbn. intros f Hf. discriminate.
      * destruct (q_now q <=? o_cover f0); discriminate.
    + destruct (negb (eqb_oaddr (fst ob) (q_holder q))); [discriminate|].
      destruct (q_off q) as [f0|] eqn:Eq.
      * destruct (has_auth au (o_new f0) && (q_now q <=? o_lu f0) && is_some (q_holder q)); [discriminate|].
        inversion H; subst q'. exact HP.
      * inversion H; subst q'. exact HP.
  - destruct o.
    + destruct (holder_auth (q_holder q) au && eqb_oaddr (fst ob) None &&
                negb match q_off q with Some f => q_now q <=? o_lu f | None => false end); [|discriminate].
      inversion H; subst q'. unfold Pc in *. cbn [q_off q_now]. exact HP.
    + destruct (negb (eqb_oaddr (fst ob) (q_holder q))); [discriminate|].
      destruct (holder_auth (q_holder q) au && match q_off q with Some f => o_cover f <? q_now q | None => true end); [discriminate|].
      inversion H; subst q'. exact HP.
  - destruct (eqb_oaddr (fst ob) (q_holder q) && Bool.eqb (is_ok o) (holder_auth (q_holder q) au)); [|discriminate].
    inversion H; subst q'. exact HP.
  - destruct (is_ok o && eqb_oaddr (fst ob) (q_holder q)); [|discriminate].
    inversion H; subst q'. unfold Pc in *. cbn [q_off q_now]. intros f Hf. specialize (HP f Hf). lia.
Qed.

Lemma mon_step_not_known : forall hd q it m, Pc m q -> mon_step hd q it <> MBad 1%N.
Proof.
  intros hd q [[cl o] ob] m HP. unfold mon_step.
  destruct cl as [new lu au|au|au|au|n].
  - destruct (negb (eqb_oaddr (fst ob) (q_holder q))); [discriminate|].
    destruct (lu =? 0); destruct o;
    repeat match goal with |- context [if ?b then _ else _] => destruct b end; discriminate.
  - destruct o.
    + destruct (q_off q) as [f0|] eqn:Eq; [|discriminate].
      destruct (has_auth au (o_new f0) && eqb_oaddr (fst ob) (Some (o_new f0)) && is_some (q_holder q)); [|discriminate].
      destruct (q_now q <=? o_lu f0) eqn:El; [discriminate|].
      destruct (HP f0 Eq) as [A _]. assert ((q_now q <=? o_cover f0) = false) as -> by lia. discriminate.
    + destruct (negb (eqb_oaddr (fst ob) (q_holder q))); [discriminate|].
      destruct (q_off q) as [f0|]; [|discriminate].
      destruct (has_auth au (o_new f0) && (q_now q <=? o_lu f0) && is_some (q_holder q)); discriminate.
  - destruct o; repeat match goal with |- context [if ?b then _ else _] => destruct b end; discriminate.
  - repeat match goal with |- context [if ?b then _ else _] => destruct b end; discriminate.
  - repeat match goal with |- context [if ?b then _ else _] => destruct b end; discriminate.
Qed.

Lemma mon_model_no_override : forall hd cs q s i m,
  wf_header hd = true -> h_min hd = 1 -> R q s -> Pc m q -> lus_ok m cs = true ->
  mon_from hd q (model_items (h_kind hd) (h_cfg hd) s cs) i = (0%N, 0%N).
Proof.
  intros hd cs. induction cs as [|cl rest IH]; intros q s i m Hwf Hmin HR HP Hl; [reflexivity|].
  cbn [model_items]. destruct (step (h_kind hd) (h_cfg hd) s cl) as [s' o] eqn:E.
  cbn [mon_from].
  pose proof (mon_step_model hd q s cl Hwf HR) as M. rewrite E in M. cbn [fst snd] in M.
  destruct M as [[q' [M1 M2]]|M].
  - rewrite M1.
    assert (Hm : forall new lu au, cl = Offer new lu au -> lu <> 0 -> m <= lu).
    { intros new lu au -> Hz. cbn [lus_ok] in Hl. destruct (lu =? 0) eqn:E0; [apply Z.eqb_eq in E0; contradiction|].
      apply andb_prop in Hl. lia. }
    pose proof (mon_step_Pc hd q cl o (observe s') q' m Hmin M1 HP Hm) as HP'.
    apply IH with (m := match cl with Offer _ lu _ => if lu =? 0 then m else Z.max m lu | _ => m end); auto.
    destruct cl as [new lu au|au|au|au|n]; cbn [lus_ok] in Hl; auto.
    destruct (lu =? 0) eqn:E0.
    + exact Hl.
    + apply andb_prop in Hl. tauto.
  - exfalso. exact (mon_step_not_known hd q _ m HP M).
Qed.

Theorem check_model_no_override : forall hd cs,
  wf_header hd = true -> h_min hd = 1 -> lus_ok 0 cs = true ->
  check (observe_model hd cs) = (0%N, 0%N, 0%N).
Proof.
  intros hd cs Hwf Hmin Hl. unfold check, observe_model. rewrite Hwf. rewrite diff_model.
  rewrite (mon_model_no_override hd cs (mon_init hd) (h_init hd) 0%N 0 Hwf Hmin (R_init hd)); auto.
  unfold Pc, mon_init. cbn. intros f Hf. discriminate.
Qed.
