(* C19: what a successful collect_fee / forward does, in terms of the getters. *)
From SC Require Import Lib.Prelude Lib.Int Lib.Host Model.FeeForwarder Proofs.FeeForwarder
  Run.C19 Proofs.FeeForwarderAllow.

Definition need_approve (ap : approval) (x : Z * Z) (max : Z) : bool :=
  match ap with Eager => true | Lazy => fst x <? max end.

Lemma balance_same_bal t t' h : t_bal t' = t_bal t -> balance t' h = balance t h.
Proof. unfold balance. intros ->. reflexivity. Qed.

Lemma approve_frame_spec hc nw F tok t owner spender amt exp ts t1 ts1 :
  1 <= min_temp_ttl hc ->
  approve_frame hc nw F tok t owner spender amt exp ts = Ok (t1, ts1) ->
  set_allowance_post hc nw t t1 owner spender amt exp /\
  (F = owner \/
   existsb (fun e => covers e owner (mkf tok F_APPROVE (approve_args owner spender amt exp)))
     (map tk_entry ts) = true) /\
  map tk_entry ts1 = map tk_entry ts.
Proof.
  intros Hm. unfold approve_frame.
  destruct (require_auth true (Some F) owner _ (push_frame ts)) as [ts2|] eqn:Er; cbn [bind]; [|discriminate].
  destruct (set_allowance hc nw t owner spender amt exp) as [t'|] eqn:Es; cbn [bind]; [|discriminate].
  intros H. inversion H; subst. clear H. split; [|split].
  - apply set_allowance_spec; assumption.
  - destruct (require_auth_inner _ _ _ _ _ Er) as [Hf|Hc]; [left; exact Hf|right].
    rewrite push_frame_entries in Hc. exact Hc.
  - rewrite pop_frame_entries. rewrite (require_auth_entries _ _ _ _ _ _ Er). apply push_frame_entries.
Qed.

Definition step1_post (nw : Z) (t t1 : tokst) (tok user F : addr) (max exp : Z) (need : bool)
  (x : Z * Z) (ts ts1 : list tracker) : Prop :=
  t_bal t1 = t_bal t /\ t_total t1 = t_total t /\
  (forall o' s', N.eqb o' user && N.eqb s' F = false -> alw_get t1 o' s' = alw_get t o' s') /\
  ad nw (alw_get t1 user F) = (if need then (max, exp) else x) /\
  nw <= exp /\
  (need = true ->
   existsb (fun e => covers e user (mkf tok F_APPROVE (approve_args user F max exp))) (map tk_entry ts) = true) /\
  map tk_entry ts1 = map tk_entry ts /\ (alw_inv t -> alw_inv t1).

Lemma step1_approve hc nw F tok t user max exp ts t1 ts1 x :
  1 <= min_temp_ttl hc -> 0 < max -> F <> user ->
  approve_frame hc nw F tok t user F max exp ts = Ok (t1, ts1) ->
  step1_post nw t t1 tok user F max exp true x ts ts1.
Proof.
  intros Hm Hmax Hu Hap. destruct (approve_frame_spec _ _ _ _ _ _ _ _ _ _ _ _ Hm Hap) as [P [Hau Hen]].
  unfold step1_post. repeat split.
  - apply (sa_bal _ _ _ _ _ _ _ _ P).
  - apply (sa_total _ _ _ _ _ _ _ _ P).
  - apply (sa_other _ _ _ _ _ _ _ _ P).
  - apply (sa_pos _ _ _ _ _ _ _ _ P). lia.
  - apply (sa_live _ _ _ _ _ _ _ _ P). lia.
  - intros _. destruct Hau as [Hau|Hau]; [contradiction|exact Hau].
  - exact Hen.
  - apply (sa_inv _ _ _ _ _ _ _ _ P).
Qed.

Record collect_post (c : cfg) (nw : Z) (a : alst) (F : addr) (t t' : tokst) (tok : addr)
  (fee max exp : Z) (user recipient : addr) (ap : approval) (es : list entry) : Prop := {
  cp_allowed : is_allowed a tok = true;
  cp_user : F <> user;
  cp_fee : 0 < fee <= max;
  cp_tok : memb tok (c_tokens c) = true;
  cp_exp : nw <= exp;
  cp_total : t_total t' = t_total t;
  cp_bal : forall h, balance t' h =
             balance t h + (if N.eqb h recipient then fee else 0) - (if N.eqb h user then fee else 0);
  cp_alw : forall o s, ad nw (alw_get t' o s) =
             if N.eqb o user && N.eqb s F then
               (if need_approve ap (ad nw (alw_get t user F)) max then (max - fee, exp)
                else (fst (ad nw (alw_get t user F)) - fee, snd (ad nw (alw_get t user F))))
             else ad nw (alw_get t o s);
  cp_auth : need_approve ap (ad nw (alw_get t user F)) max = true ->
            existsb (fun e => covers e user (mkf tok F_APPROVE (approve_args user F max exp))) es = true;
  cp_inv : alw_inv t -> alw_inv t'
}.

Lemma collect_fee_spec c nw a F t tok fee max exp user recipient ap ts t' ts' :
  1 <= min_temp_ttl (c_host c) ->
  collect_fee c nw a F t tok fee max exp user recipient ap ts = Ok (t', ts') ->
  collect_post c nw a F t t' tok fee max exp user recipient ap (map tk_entry ts)
  /\ map tk_entry ts' = map tk_entry ts.
Proof.
  intros Hm. unfold collect_fee.
  destruct (is_allowed a tok) eqn:Ea; cbn [guard bind]; [|discriminate].
  destruct (N.eqb F user) eqn:Eu; cbn [negb guard bind]; [discriminate|]. apply N.eqb_neq in Eu.
  destruct ((fee <=? 0) || (max <? fee)) eqn:Ef; cbn [negb guard bind]; [discriminate|].
  apply orb_false_iff in Ef. destruct Ef as [Ef1 Ef2]. apply Z.leb_gt in Ef1. apply Z.ltb_ge in Ef2.
  destruct (memb tok (c_tokens c)) eqn:Et; cbn [guard bind]; [|discriminate].
  (* step 1: the approval strategy *)
  set (x := ad nw (alw_get t user F)).
  assert (Hstep1 : forall t1 ts1,
    (match ap with
     | Eager => approve_frame (c_host c) nw F tok t user F max exp ts
     | Lazy => if allowance nw t user F <? max
               then approve_frame (c_host c) nw F tok t user F max exp ts
               else (do _ <- guard (negb (exp <? nw)); Ok (t, ts))
     end) = Ok (t1, ts1) ->
    step1_post nw t t1 tok user F max exp (need_approve ap x max) x ts ts1).
  { intros t1 ts1 H1. destruct ap.
    - unfold allowance in H1. rewrite allowance_data_ad in H1. fold x in H1.
      cbn [need_approve]. destruct (fst x <? max) eqn:El.
      + eapply step1_approve; eauto. lia.
      + destruct (exp <? nw) eqn:Ex; cbn [negb guard bind] in H1; [discriminate|].
        inversion H1; subst. apply Z.ltb_ge in Ex.
        unfold step1_post. repeat split; auto. intros Hd. discriminate.
    - cbn [need_approve]. eapply step1_approve; eauto. lia. }
  destruct (match ap with Eager => _ | Lazy => _ end) as [[t1 ts1]|] eqn:E1; cbn [bind]; [|discriminate].
  destruct (Hstep1 _ _ eq_refl) as [Hb1 [Ht1 [Ho1 [Hc1 [Hexp [Hau1 [Hen1 Hi1]]]]]]]. clear Hstep1.
  destruct (spend_allowance (c_host c) nw t1 user F fee) as [t2|] eqn:E2; cbn [bind]; [|discriminate].
  pose proof (spend_allowance_spec _ _ _ _ _ _ _ Hm Ef1 E2) as P2.
  destruct (update_transfer t2 user recipient fee) as [t3|] eqn:E3; cbn [bind]; [|discriminate].
  destruct (update_transfer_spec _ _ _ _ _ E3) as [_ [_ [Ht3 [Ha3 Hb3]]]].
  intros H. inversion H; subst t3 ts1. clear H. split; [|exact Hen1].
  constructor.
  - exact Ea.
  - exact Eu.
  - lia.
  - exact Et.
  - exact Hexp.
  - rewrite Ht3, (sp_total _ _ _ _ _ _ P2). exact Ht1.
  - intros h. rewrite Hb3. rewrite (balance_same_bal t1 t2) by apply (sp_bal _ _ _ _ _ _ P2).
    rewrite (balance_same_bal t t1) by exact Hb1. reflexivity.
  - intros o s. rewrite (alw_get_same_alw t2 t') by exact Ha3.
    destruct (N.eqb o user && N.eqb s F) eqn:Eos.
    + apply andb_true_iff in Eos. destruct Eos as [Eo Es]. apply N.eqb_eq in Eo. apply N.eqb_eq in Es. subst o s.
      rewrite (sp_cell _ _ _ _ _ _ P2), Hc1. fold x. destruct (need_approve ap x max); reflexivity.
    + rewrite (sp_other _ _ _ _ _ _ P2) by exact Eos. rewrite Ho1 by exact Eos. reflexivity.
  - exact Hau1.
  - intros Hi o s. rewrite (alw_get_same_alw t2 t') by exact Ha3.
    apply (sp_inv _ _ _ _ _ _ P2). apply Hi1. exact Hi.
Qed.

Lemma get_log_set l g g' x :
  get_log (alist_set g' x l) g = if N.eqb g g' then x else get_log l g.
Proof. unfold get_log. rewrite aget_set. destruct (N.eqb g g'); reflexivity. Qed.

(* ---- the target call ---- *)
Definition toks_inv (tks : list (addr * tokst)) : Prop := forall tok, alw_inv (get_tokm tks tok).

Lemma get_tokm_set tks tok t' t :
  get_tokm (alist_set tok t' tks) t = if N.eqb t tok then t' else get_tokm tks t.
Proof. unfold get_tokm. rewrite aget_set. destruct (N.eqb t tok); reflexivity. Qed.

Lemma toks_inv_set tks tok t' : toks_inv tks -> alw_inv t' -> toks_inv (alist_set tok t' tks).
Proof. intros H Ht t. rewrite get_tokm_set. destruct (N.eqb t tok); [exact Ht|apply H]. Qed.

Lemma alw_inv_same_alw t t' : t_alw t' = t_alw t -> alw_inv t -> alw_inv t'.
Proof. intros E H o s. rewrite (alw_get_same_alw _ _ _ _ E). apply H. Qed.

(* whatever a re-entering target manages to do keeps the allowance-entry invariant *)
Lemma inner_pull_inv c nw tks target tk spender from to amt ts tks' :
  1 <= min_temp_ttl (c_host c) ->
  inner_pull c nw tks target tk spender from to amt ts = Ok tks' -> toks_inv tks -> toks_inv tks'.
Proof.
  intros Hm. unfold inner_pull.
  destruct (memb tk (c_tokens c)); cbn [guard bind]; [|discriminate].
  destruct (require_auth2 _ _ _ _) as [ts2|]; cbn [bind]; [|discriminate].
  unfold spend_allowance. destruct (amt <? 0) eqn:E0; cbn [bind]; [discriminate|].
  destruct (allowance_data nw (get_tokm tks tk) from spender) as [a l].
  destruct (a <? amt); cbn [bind]; [discriminate|].
  destruct (0 <? amt) eqn:E1.
  - destruct (set_allowance _ _ _ _ _ _ _) as [t1|] eqn:Es; cbn [bind]; [|discriminate].
    destruct (update_transfer t1 from to amt) as [t2|] eqn:Eu; cbn [bind]; [|discriminate].
    intros H Hi. inversion H; subst. apply toks_inv_set; [exact Hi|].
    destruct (update_transfer_spec _ _ _ _ _ Eu) as [_ [_ [_ [Ha _]]]].
    apply (alw_inv_same_alw _ _ Ha). apply (sa_inv _ _ _ _ _ _ _ _ (set_allowance_spec _ _ _ _ _ _ _ _ Hm Es)). apply Hi.
  - cbn [bind]. destruct (update_transfer _ from to amt) as [t2|] eqn:Eu; cbn [bind]; [|discriminate].
    intros H Hi. inversion H; subst. apply toks_inv_set; [exact Hi|].
    destruct (update_transfer_spec _ _ _ _ _ Eu) as [_ [_ [_ [Ha _]]]].
    apply (alw_inv_same_alw _ _ Ha). apply Hi.
Qed.

Lemma inner_approve_inv c nw tks target tk owner spender amt exp ts tks' :
  1 <= min_temp_ttl (c_host c) ->
  inner_approve c nw tks target tk owner spender amt exp ts = Ok tks' -> toks_inv tks -> toks_inv tks'.
Proof.
  intros Hm. unfold inner_approve.
  destruct (memb tk (c_tokens c)); cbn [guard bind]; [|discriminate].
  destruct (require_auth2 _ _ _ _) as [ts2|]; cbn [bind]; [|discriminate].
  destruct (set_allowance _ _ _ _ _ _ _) as [t1|] eqn:Es; cbn [bind]; [|discriminate].
  intros H Hi. inversion H; subst. apply toks_inv_set; [exact Hi|].
  apply (sa_inv _ _ _ _ _ _ _ _ (set_allowance_spec _ _ _ _ _ _ _ _ Hm Es)). apply Hi.
Qed.

Lemma scripted_inv (P : list (addr * tokst) -> Prop) fn args sw tks r ent tks' :
  scripted fn args sw tks r = Ok (ent, tks') -> P tks -> (forall x, r = Ok x -> P x) -> P tks'.
Proof.
  unfold scripted. destruct r as [x|].
  - intros H _ Hr. inversion H; subst. apply Hr. reflexivity.
  - destruct (sw =? 0); [discriminate|]. intros H Hp _. inversion H; subst. exact Hp.
Qed.

Lemma target_body_inv c nw tks F target fn args ts ent tks' :
  1 <= min_temp_ttl (c_host c) ->
  target_body c nw tks F target fn args ts = Ok (ent, tks') -> toks_inv tks -> toks_inv tks'.
Proof.
  intros Hm H Hi. unfold target_body in H.
  destruct args as [|x1 r1]; [discriminate|]. destruct x1 as [a1|v1].
  2:{ destruct r1; [|discriminate]. destruct (N.eqb fn F_HIT); inversion H; subst. exact Hi. }
  destruct r1 as [|x2 r2]; [discriminate|]. destruct x2 as [a2|v2].
  2:{ destruct r2; [|discriminate]. destruct (N.eqb fn F_AUTH).
      - destruct (require_auth true (Some F) a1 _ ts); cbn [bind] in H; inversion H; subst. exact Hi.
      - destruct (N.eqb fn F_REENTER); [|discriminate].
        eapply (scripted_inv toks_inv); eauto. intros x Hx. discriminate. }
  destruct r2 as [|x3 r3]; [discriminate|]. destruct x3 as [a3|v3]; [|discriminate].
  destruct r3 as [|x4 r4]; [discriminate|]. destruct x4 as [a4|v4].
  - destruct r4 as [|x5 r5]; [discriminate|]. destruct x5 as [a5|v5]; [discriminate|].
    destruct r5 as [|x6 r6]; [discriminate|]. destruct x6 as [a6|v6]; [discriminate|].
    destruct r6; [|discriminate]. destruct (N.eqb fn F_PULL); [|discriminate].
    eapply (scripted_inv toks_inv); eauto. intros x Hx. eapply inner_pull_inv; eauto.
  - destruct r4 as [|x5 r5]; [discriminate|]. destruct x5 as [a5|v5]; [discriminate|].
    destruct r5 as [|x6 r6]; [discriminate|]. destruct x6 as [a6|v6]; [discriminate|].
    destruct r6; [|discriminate]. destruct (N.eqb fn F_APPROVE_FOR); [|discriminate].
    eapply (scripted_inv toks_inv); eauto. intros x Hx. eapply inner_approve_inv; eauto.
Qed.

(* under [wf_call] the inner calls of a re-entering target are refused: nothing but the log moves *)
Lemma scripted_fail fn args sw tks ent tks' :
  scripted fn args sw tks Fail = Ok (ent, tks') -> ent = (fn, args ++ [AI 0]) /\ tks' = tks.
Proof. unfold scripted. destruct (sw =? 0); [discriminate|]. intros H. inversion H. auto. Qed.

Lemma inner_pull_refused c nw tks target tk spender from to amt ts au :
  map tk_entry ts = au -> N.eqb target spender = false ->
  has_sub_or_root au spender (mkf tk F_TRANSFER_FROM [VA spender; VA from; VA to; VI amt]) = false ->
  inner_pull c nw tks target tk spender from to amt ts = Fail.
Proof.
  intros Hen Hne Hno. unfold inner_pull.
  destruct (memb tk (c_tokens c)); cbn [guard bind]; [|reflexivity].
  destruct (require_auth2 _ _ _ _) as [ts2|] eqn:E; cbn [bind]; [|reflexivity].
  destruct (require_auth2_covers _ _ _ _ _ E) as [H|H].
  - apply N.eqb_neq in Hne. contradiction.
  - rewrite Hen in H. unfold has_sub_or_root in Hno. unfold covers in H. congruence.
Qed.

Lemma inner_approve_refused c nw tks target tk owner spender amt exp ts au :
  map tk_entry ts = au -> N.eqb target owner = false ->
  has_sub_or_root au owner (mkf tk F_APPROVE (approve_args owner spender amt exp)) = false ->
  inner_approve c nw tks target tk owner spender amt exp ts = Fail.
Proof.
  intros Hen Hne Hno. unfold inner_approve.
  destruct (memb tk (c_tokens c)); cbn [guard bind]; [|reflexivity].
  destruct (require_auth2 _ _ _ _) as [ts2|] eqn:E; cbn [bind]; [|reflexivity].
  destruct (require_auth2_covers _ _ _ _ _ E) as [H|H].
  - apply N.eqb_neq in Hne. contradiction.
  - rewrite Hen in H. unfold has_sub_or_root in Hno. unfold covers in H. congruence.
Qed.

Lemma target_body_spec c nw tks k tok fee max exp target fn args user relayer au ts ent tks' :
  wf_call c (Forward k tok fee max exp target fn args user relayer au) = true ->
  map tk_entry ts = au ->
  target_body c nw tks (fwd_addr c k) target fn args (push_frame ts) = Ok (ent, tks') ->
  ent = expected_entry fn args /\ tks' = tks.
Proof.
  intros Hwf Hen H. unfold target_body in H. cbn [wf_call] in Hwf.
  apply andb_true_iff in Hwf. destruct Hwf as [_ Hwf]. unfold expected_entry, is_script.
  assert (Hen' : map tk_entry (push_frame ts) = au) by (rewrite push_frame_entries; exact Hen).
  destruct args as [|x1 r1]; [discriminate|]. destruct x1 as [a1|v1].
  2:{ destruct r1; [|discriminate]. destruct (N.eqb fn F_HIT) eqn:E; [|discriminate]. inversion H; subst.
      apply N.eqb_eq in E. subst fn. split; reflexivity. }
  destruct r1 as [|x2 r2]; [discriminate|]. destruct x2 as [a2|v2].
  2:{ destruct r2; [|discriminate]. destruct (N.eqb fn F_AUTH) eqn:E.
      - destruct (require_auth true (Some (fwd_addr c k)) a1 _ _); cbn [bind] in H; inversion H; subst.
        apply N.eqb_eq in E. subst fn. split; reflexivity.
      - destruct (N.eqb fn F_REENTER) eqn:E2; [|discriminate]. apply N.eqb_eq in E2. subst fn.
        apply scripted_fail in H. destruct H as [-> ->]. split; reflexivity. }
  destruct r2 as [|x3 r3]; [discriminate|]. destruct x3 as [a3|v3]; [|discriminate].
  destruct r3 as [|x4 r4]; [discriminate|]. destruct x4 as [a4|v4].
  - destruct r4 as [|x5 r5]; [discriminate|]. destruct x5 as [a5|v5]; [discriminate|].
    destruct r5 as [|x6 r6]; [discriminate|]. destruct x6 as [a6|v6]; [discriminate|].
    destruct r6; [|discriminate]. destruct (N.eqb fn F_PULL) eqn:E; [|discriminate].
    apply N.eqb_eq in E. subst fn. cbn [negb orb] in Hwf.
    apply andb_true_iff in Hwf. destruct Hwf as [W1 W2]. apply negb_true_iff in W1. apply negb_true_iff in W2.
    rewrite (inner_pull_refused _ _ _ _ _ _ _ _ _ _ _ Hen' W1 W2) in H.
    apply scripted_fail in H. destruct H as [-> ->]. split; reflexivity.
  - destruct r4 as [|x5 r5]; [discriminate|]. destruct x5 as [a5|v5]; [discriminate|].
    destruct r5 as [|x6 r6]; [discriminate|]. destruct x6 as [a6|v6]; [discriminate|].
    destruct r6; [|discriminate]. destruct (N.eqb fn F_APPROVE_FOR) eqn:E; [|discriminate].
    apply N.eqb_eq in E. subst fn. cbn [negb orb] in Hwf.
    apply andb_true_iff in Hwf. destruct Hwf as [W1 W2]. apply negb_true_iff in W1. apply negb_true_iff in W2.
    rewrite (inner_approve_refused _ _ _ _ _ _ _ _ _ _ _ Hen' W1 W2) in H.
    apply scripted_fail in H. destruct H as [-> ->]. split; reflexivity.
Qed.

(* ---- spend_allowance for any amount ---- *)
Lemma spend_allowance_zero hc nw t o s t' : spend_allowance hc nw t o s 0 = Ok t' -> t' = t.
Proof.
  unfold spend_allowance. cbn. destruct (allowance_data nw t o s) as [a l].
  destruct (a <? 0); [discriminate|]. intros H. inversion H. reflexivity.
Qed.

(* ---- what the target call does to the token states ---- *)
Record target_post (c : cfg) (nw : Z) (tks tks' : list (addr * tokst)) (target : addr) (fn : N)
  (args : list atom) : Prop := {
  tp_total : forall t, t_total (get_tokm tks' t) = t_total (get_tokm tks t);
  tp_bal : forall t h, balance (get_tokm tks' t) h =
             balance (get_tokm tks t) h + tgt_delta (tgt_moves c target fn args) target t h;
  tp_alw : forall t o s, ad nw (alw_get (get_tokm tks' t) o s) =
             tgt_alw (tgt_moves c target fn args) target t o s (ad nw (alw_get (get_tokm tks t) o s));
  tp_amt : forall from to amt sp, tgt_moves c target fn args = Some (from, to, amt, sp) -> 0 <= amt
}.

Lemma target_post_refl c nw tks target fn args :
  tgt_moves c target fn args = None -> target_post c nw tks tks target fn args.
Proof.
  intros E. constructor.
  - reflexivity.
  - intros t h. rewrite E. cbn [tgt_delta]. lia.
  - intros t o s. rewrite E. reflexivity.
  - intros from to amt sp H. congruence.
Qed.

Lemma tgt_moves_not_token c target fn args : memb target (c_tokens c) = false -> tgt_moves c target fn args = None.
Proof. unfold tgt_moves. intros ->. reflexivity. Qed.

Lemma target_post_one c nw tks target fn args t2 mv :
  tgt_moves c target fn args = mv ->
  t_total t2 = t_total (get_tokm tks target) ->
  (forall h, balance t2 h = balance (get_tokm tks target) h + tgt_delta mv target target h) ->
  (forall o s, ad nw (alw_get t2 o s) = tgt_alw mv target target o s (ad nw (alw_get (get_tokm tks target) o s))) ->
  (forall from to amt sp, mv = Some (from, to, amt, sp) -> 0 <= amt) ->
  target_post c nw tks (alist_set target t2 tks) target fn args.
Proof.
  intros Emv Ht Hb Ha Hamt. constructor; [| | |rewrite Emv; exact Hamt]; intros t; intros; rewrite get_tokm_set, ?Emv;
    destruct (N.eqb t target) eqn:E.
  - apply N.eqb_eq in E. subst t. exact Ht.
  - reflexivity.
  - apply N.eqb_eq in E. subst t. apply Hb.
  - unfold tgt_delta, transfer_delta. destruct mv as [[[[f to] amt] sp]|]; [rewrite E|]; lia.
  - apply N.eqb_eq in E. subst t. apply Ha.
  - unfold tgt_alw. destruct mv as [[[[f to] amt] [sp|]]|]; try reflexivity. rewrite E. reflexivity.
Qed.

Lemma token_target_spec c nw tks F target fn args ts tks' :
  1 <= min_temp_ttl (c_host c) -> memb target (c_tokens c) = true ->
  token_target c nw tks F target fn args ts = Ok tks' ->
  tgt_moves c target fn args <> None /\ target_post c nw tks tks' target fn args /\ (toks_inv tks -> toks_inv tks').
Proof.
  intros Hm Ht H. unfold token_target in H.
  destruct args as [|x1 r1]; [discriminate|]. destruct x1 as [a1|v1]; [|discriminate].
  destruct r1 as [|x2 r2]; [discriminate|]. destruct x2 as [a2|v2]; [|discriminate].
  destruct r2 as [|x3 r3]; [discriminate|]. destruct x3 as [a3|v3].
  - (* transfer_from(a1 = spender, a2 = from, a3 = to, amt) *)
    destruct r3 as [|x4 r4]; [discriminate|]. destruct x4 as [a4|amt]; [discriminate|].
    destruct r4; [|discriminate]. destruct (N.eqb fn F_TRANSFER_FROM) eqn:Ef; [|discriminate].
    assert (Emv : tgt_moves c target fn [AA a1; AA a2; AA a3; AI amt] = Some (a2, a3, amt, Some a1)).
    { unfold tgt_moves. rewrite Ht, Ef. reflexivity. }
    destruct (require_auth true (Some F) a1 _ ts); cbn [bind] in H; [|discriminate].
    destruct (spend_allowance (c_host c) nw (get_tokm tks target) a2 a1 amt) as [t1|] eqn:Es; cbn [bind] in H; [|discriminate].
    destruct (update_transfer t1 a2 a3 amt) as [t2|] eqn:Eu; cbn [bind] in H; [|discriminate].
    inversion H; subst tks'. clear H.
    destruct (update_transfer_spec _ _ _ _ _ Eu) as [Hge [_ [Ht2 [Ha2 Hb2]]]].
    split; [rewrite Emv; discriminate|].
    destruct (Z.eq_dec amt 0) as [Hz|Hz].
    + subst amt. apply spend_allowance_zero in Es. subst t1. split; [|intros Hi].
      * apply (target_post_one _ _ _ _ _ _ _ _ Emv).
        -- exact Ht2.
        -- intros h. rewrite Hb2. unfold tgt_delta, transfer_delta. rewrite N.eqb_refl. lia.
        -- intros o s. rewrite (alw_get_same_alw _ _ _ _ Ha2). unfold tgt_alw. rewrite andb_false_r. reflexivity.
        -- intros f0 t0 a0 s0 Hq. inversion Hq. lia.
      * apply toks_inv_set; [exact Hi|]. apply (alw_inv_same_alw _ _ Ha2). apply Hi.
    + assert (Hp : 0 < amt) by lia.
      pose proof (spend_allowance_spec _ _ _ _ _ _ _ Hm Hp Es) as P. split; [|intros Hi].
      * apply (target_post_one _ _ _ _ _ _ _ _ Emv).
        -- rewrite Ht2. apply (sp_total _ _ _ _ _ _ P).
        -- intros h. rewrite Hb2. rewrite (balance_same_bal _ _ h (sp_bal _ _ _ _ _ _ P)).
           unfold tgt_delta, transfer_delta. rewrite N.eqb_refl. lia.
        -- intros o s. rewrite (alw_get_same_alw _ _ _ _ Ha2). unfold tgt_alw. rewrite N.eqb_refl. cbn [andb].
           assert (E0 : (0 <? amt) = true) by (apply Z.ltb_lt; exact Hp). rewrite E0, andb_true_r.
           destruct (N.eqb o a2 && N.eqb s a1) eqn:Eos.
           ++ apply andb_true_iff in Eos. destruct Eos as [Eo Es']. apply N.eqb_eq in Eo. apply N.eqb_eq in Es'. subst o s.
              apply (sp_cell _ _ _ _ _ _ P).
           ++ rewrite (sp_other _ _ _ _ _ _ P) by exact Eos. reflexivity.
        -- intros f0 t0 a0 s0 Hq. inversion Hq. lia.
      * apply toks_inv_set; [exact Hi|]. apply (alw_inv_same_alw _ _ Ha2). apply (sp_inv _ _ _ _ _ _ P). apply Hi.
  - (* transfer(a1 = from, a2 = to, v3 = amt) *)
    destruct r3; [|discriminate]. destruct (N.eqb fn F_TRANSFER) eqn:Ef; [|discriminate].
    assert (Emv : tgt_moves c target fn [AA a1; AA a2; AI v3] = Some (a1, a2, v3, None)).
    { unfold tgt_moves. rewrite Ht, Ef. reflexivity. }
    destruct (require_auth true (Some F) a1 _ ts); cbn [bind] in H; [|discriminate].
    destruct (update_transfer (get_tokm tks target) a1 a2 v3) as [t2|] eqn:Eu; cbn [bind] in H; [|discriminate].
    inversion H; subst tks'. clear H.
    destruct (update_transfer_spec _ _ _ _ _ Eu) as [Hge [_ [Ht2 [Ha2 Hb2]]]].
    split; [rewrite Emv; discriminate|]. split; [|intros Hi].
    + apply (target_post_one _ _ _ _ _ _ _ _ Emv).
      * exact Ht2.
      * intros h. rewrite Hb2. unfold tgt_delta, transfer_delta. rewrite N.eqb_refl. lia.
      * intros o s. rewrite (alw_get_same_alw _ _ _ _ Ha2). reflexivity.
      * intros f0 t0 a0 s0 Hq. inversion Hq. subst. exact Hge.
    + apply toks_inv_set; [exact Hi|]. apply (alw_inv_same_alw _ _ Ha2). apply Hi.
Qed.

(* what holds of every successful forward, whatever the target does *)
Record forward_pre (c : cfg) (st : state) (k : kind) (tok : addr) (fee max exp : Z)
  (target : addr) (fn : N) (args : list atom) (user relayer : addr) (au : list entry) (t' : tokst) : Prop := {
  fq_user_auth : existsb (fun e => covers_root e user
                    (mkf (fwd_addr c k) F_FORWARD (user_args tok max exp target fn args))) au = true;
  fq_relayer_auth : existsb (fun e => covers_root e relayer
                    (mkf (fwd_addr c k) F_FORWARD (forward_args tok fee max exp target fn args user relayer))) au = true;
  fq_role : match k with Permissioned => memb relayer (c_executors c) = true | Permissionless => True end;
  fq_collect : collect_post c (now st) (al_of st k) (fwd_addr c k) (get_tok st tok) t'
                 tok fee max exp user (recipient_of c k relayer) (approval_of k) au
}.

(* [t1] = the fee token's state after the fee has been collected, before the target runs *)
Record forward_post (c : cfg) (st st' : state) (k : kind) (tok : addr) (fee max exp : Z)
  (target : addr) (fn : N) (args : list atom) (user relayer : addr) (au : list entry) (ret : Z)
  (t1 : tokst) : Prop := {
  fp_pre : forward_pre c st k tok fee max exp target fn args user relayer au t1;
  fp_now : now st' = now st;
  fp_al : al st' = al st;
  fp_tpost : target_post c (now st) (alist_set tok t1 (toks st)) (toks st') target fn args;
  fp_target : if memb target (c_tokens c)
              then tgt_moves c target fn args <> None /\ logs st' = logs st /\ ret = 0
              else memb target (c_targets c) = true /\
                   (forall g, get_log (logs st') g =
                      if N.eqb g target then get_log (logs st) target ++ [expected_entry fn args]
                      else get_log (logs st) g) /\
                   ret = Z.of_nat (length (get_log (logs st') target))
}.

(* the forward, opened up to the target call *)
Lemma forward_open c st k tok fee max exp target fn args user relayer au st' ret :
  1 <= min_temp_ttl (c_host c) ->
  forward c st k tok fee max exp target fn args user relayer au = Ok (st', ret) ->
  exists t' ts3 tks' l',
    forward_pre c st k tok fee max exp target fn args user relayer au t' /\
    map tk_entry ts3 = au /\
    target_call c (now st) (alist_set tok t' (toks st)) (logs st) (fwd_addr c k) target fn args ts3 = Ok (tks', l', ret) /\
    st' = {| now := now st; toks := tks'; al := al st; logs := l' |}.
Proof.
  intros Hm. unfold forward.
  destruct (match k with Permissioned => memb relayer (c_executors c) | Permissionless => true end) eqn:Er;
    cbn [guard bind]; [|discriminate].
  destruct (require_auth false None relayer _ (map init_tracker au)) as [ts1|] eqn:E1; cbn [bind]; [|discriminate].
  destruct (require_auth false None user _ ts1) as [ts2|] eqn:E2; cbn [bind]; [|discriminate].
  destruct (collect_fee c (now st) (al_of st k) (fwd_addr c k) (get_tok st tok) tok fee max exp user _ (approval_of k) ts2)
    as [[t' ts3]|] eqn:E3; cbn [bind]; [|discriminate].
  destruct (target_call _ _ _ _ _ _ _ _ _) as [[[tks' l'] r]|] eqn:E4; cbn [bind]; [|discriminate].
  intros H. inversion H; subst st' ret. clear H.
  pose proof (require_auth_outer _ _ _ _ E1) as A1. rewrite entries_init in A1.
  pose proof (require_auth_outer _ _ _ _ E2) as A2.
  rewrite (require_auth_entries _ _ _ _ _ _ E1), entries_init in A2.
  destruct (collect_fee_spec _ _ _ _ _ _ _ _ _ _ _ _ _ _ _ Hm E3) as [P Pe].
  assert (Hen2 : map tk_entry ts2 = au).
  { rewrite (require_auth_entries _ _ _ _ _ _ E2), (require_auth_entries _ _ _ _ _ _ E1). apply entries_init. }
  rewrite Hen2 in P. rewrite Hen2 in Pe.
  exists t', ts3, tks', l'. split; [|split; [exact Pe|split; [exact E4|reflexivity]]].
  constructor; auto; try (destruct k; [exact Er|exact I]); try (unfold recipient_of; destruct k; exact P).
Qed.

(* the target call, under [wf_call] *)
Lemma target_call_spec c nw tks l k tok fee max exp target fn args user relayer au ts tks' l' ret :
  1 <= min_temp_ttl (c_host c) ->
  wf_call c (Forward k tok fee max exp target fn args user relayer au) = true ->
  map tk_entry ts = au ->
  target_call c nw tks l (fwd_addr c k) target fn args ts = Ok (tks', l', ret) ->
  target_post c nw tks tks' target fn args /\
  (if memb target (c_tokens c)
   then tgt_moves c target fn args <> None /\ l' = l /\ ret = 0
   else memb target (c_targets c) = true /\
        (forall g, get_log l' g = if N.eqb g target then get_log l target ++ [expected_entry fn args] else get_log l g) /\
        ret = Z.of_nat (length (get_log l' target))).
Proof.
  intros Hm Hwf Hen. unfold target_call. destruct (memb target (c_tokens c)) eqn:Et.
  - destruct (token_target _ _ _ _ _ _ _ _) as [x|] eqn:E; cbn [bind]; [|discriminate].
    intros H. inversion H; subst tks' l' ret. destruct (token_target_spec _ _ _ _ _ _ _ _ _ Hm Et E) as [A [B _]].
    split; [exact B|]. auto.
  - destruct (memb target (c_targets c)); cbn [guard bind]; [|discriminate].
    destruct (N.eqb target (fwd_addr c k)); cbn [negb guard bind]; [discriminate|].
    destruct (target_body _ _ _ _ _ _ _ _) as [[ent x]|] eqn:E; cbn [bind]; [|discriminate].
    destruct (target_body_spec _ _ _ _ _ _ _ _ _ _ _ _ _ _ _ _ _ Hwf Hen E) as [-> ->].
    intros H. inversion H; subst tks' l' ret. clear H.
    split; [apply target_post_refl; apply tgt_moves_not_token; exact Et|].
    split; [reflexivity|]. split.
    + intros g. apply get_log_set.
    + rewrite get_log_set, N.eqb_refl. reflexivity.
Qed.

Lemma target_call_inv c nw tks l F target fn args ts tks' l' ret :
  1 <= min_temp_ttl (c_host c) ->
  target_call c nw tks l F target fn args ts = Ok (tks', l', ret) -> toks_inv tks -> toks_inv tks'.
Proof.
  intros Hm. unfold target_call. destruct (memb target (c_tokens c)) eqn:Et.
  - destruct (token_target _ _ _ _ _ _ _ _) as [x|] eqn:E; cbn [bind]; [|discriminate].
    intros H. inversion H; subst. destruct (token_target_spec _ _ _ _ _ _ _ _ _ Hm Et E) as [_ [_ B]]. exact B.
  - destruct (memb target (c_targets c)); cbn [guard bind]; [|discriminate].
    destruct (N.eqb target F); cbn [negb guard bind]; [discriminate|].
    destruct (target_body _ _ _ _ _ _ _ _) as [[ent x]|] eqn:E; cbn [bind]; [|discriminate].
    intros H. inversion H; subst. eapply target_body_inv; eauto.
Qed.

Lemma forward_spec c st k tok fee max exp target fn args user relayer au st' ret :
  1 <= min_temp_ttl (c_host c) ->
  wf_call c (Forward k tok fee max exp target fn args user relayer au) = true ->
  forward c st k tok fee max exp target fn args user relayer au = Ok (st', ret) ->
  exists t1, forward_post c st st' k tok fee max exp target fn args user relayer au ret t1.
Proof.
  intros Hm Hwf H.
  destruct (forward_open _ _ _ _ _ _ _ _ _ _ _ _ _ _ _ Hm H) as [t' [ts3 [tks' [l' [Q [Hen [Hc ->]]]]]]].
  destruct (target_call_spec _ _ _ _ _ _ _ _ _ _ _ _ _ _ _ _ _ _ _ Hm Hwf Hen Hc) as [TP TL].
  exists t'. constructor; cbn [now al logs toks]; auto.
Qed.

(* the intermediate token states: after the fee, before the target *)
Lemma mid_get st tok t1 t :
  get_tokm (alist_set tok t1 (toks st)) t = if N.eqb t tok then t1 else get_tok st t.
Proof. rewrite get_tokm_set. reflexivity. Qed.
