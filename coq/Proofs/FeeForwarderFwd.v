(* C19: what a successful collect_fee / forward does, in terms of the getters. *)
From SC Require Import Lib.Prelude Lib.Int Lib.Host Model.FeeForwarder Proofs.FeeForwarder
  Run.C19 Proofs.FeeForwarderAllow.

Definition need_approve (ap : approval) (x : Z * Z) (max : Z) : bool :=
  match ap with Eager => true | Lazy => fst x <? max end.

Lemma balance_same_bal t t' h : t_bal t' = t_bal t -> balance t' h = balance t h.
Proof. unfold balance. intros ->. reflexivity. Qed.

Lemma approve_frame_spec hc nw F tok t owner spender amt exp ts t1 ts1 :
  1 <= min_temp_ttl hc ->
  approve_frame hc nw F tok t owner spender amt exp ts = Ok (t1, ts1) ->
  set_allowance_post hc nw t t1 owner spender amt exp /\
  (F = owner \/
   existsb (fun e => covers e owner (mkf tok F_APPROVE (approve_args owner spender amt exp)))
     (map tk_entry ts) = true) /\
  map tk_entry ts1 = map tk_entry ts.
Proof.
  intros Hm. unfold approve_frame.
  destruct (require_auth true (Some F) owner _ (push_frame ts)) as [ts2|] eqn:Er; cbn [bind]; [|discriminate].
  destruct (set_allowance hc nw t owner spender amt exp) as [t'|] eqn:Es; cbn [bind]; [|discriminate].
  intros H. inversion H; subst. clear H. split; [|split].
  - apply set_allowance_spec; assumption.
  - destruct (require_auth_inner _ _ _ _ _ Er) as [Hf|Hc]; [left; exact Hf|right].
    rewrite push_frame_entries in Hc. exact Hc.
  - rewrite pop_frame_entries. rewrite (require_auth_entries _ _ _ _ _ _ Er). apply push_frame_entries.
Qed.

Definition step1_post (nw : Z) (t t1 : tokst) (tok user F : addr) (max exp : Z) (need : bool)
  (x : Z * Z) (ts ts1 : list tracker) : Prop :=
  t_bal t1 = t_bal t /\ t_total t1 = t_total t /\
  (forall o' s', N.eqb o' user && N.eqb s' F = false -> alw_get t1 o' s' = alw_get t o' s') /\
  ad nw (alw_get t1 user F) = (if need then (max, exp) else x) /\
  nw <= exp /\
  (need = true ->
   existsb (fun e => covers e user (mkf tok F_APPROVE (approve_args user F max exp))) (map tk_entry ts) = true) /\
  map tk_entry ts1 = map tk_entry ts /\ (alw_inv t -> alw_inv t1).

Lemma step1_approve hc nw F tok t user max exp ts t1 ts1 x :
  1 <= min_temp_ttl hc -> 0 < max -> F <> user ->
  approve_frame hc nw F tok t user F max exp ts = Ok (t1, ts1) ->
  step1_post nw t t1 tok user F max exp true x ts ts1.
Proof.
  intros Hm Hmax Hu Hap. destruct (approve_frame_spec _ _ _ _ _ _ _ _ _ _ _ _ Hm Hap) as [P [Hau Hen]].
  unfold step1_post. repeat split.
  - apply (sa_bal _ _ _ _ _ _ _ _ P).
  - apply (sa_total _ _ _ _ _ _ _ _ P).
  - apply (sa_other _ _ _ _ _ _ _ _ P).
  - apply (sa_pos _ _ _ _ _ _ _ _ P). lia.
  - apply (sa_live _ _ _ _ _ _ _ _ P). lia.
  - intros _. destruct Hau as [Hau|Hau]; [contradiction|exact Hau].
  - exact Hen.
  - apply (sa_inv _ _ _ _ _ _ _ _ P).
Qed.

Record collect_post (c : cfg) (nw : Z) (a : alst) (F : addr) (t t' : tokst) (tok : addr)
  (fee max exp : Z) (user recipient : addr) (ap : approval) (es : list entry) : Prop := {
  cp_allowed : is_allowed a tok = true;
  cp_user : F <> user;
  cp_fee : 0 < fee <= max;
  cp_tok : memb tok (c_tokens c) = true;
  cp_exp : nw <= exp;
  cp_total : t_total t' = t_total t;
  cp_bal : forall h, balance t' h =
             balance t h + (if N.eqb h recipient then fee else 0) - (if N.eqb h user then fee else 0);
  cp_alw : forall o s, ad nw (alw_get t' o s) =
             if N.eqb o user && N.eqb s F then
               (if need_approve ap (ad nw (alw_get t user F)) max then (max - fee, exp)
                else (fst (ad nw (alw_get t user F)) - fee, snd (ad nw (alw_get t user F))))
             else ad nw (alw_get t o s);
  cp_auth : need_approve ap (ad nw (alw_get t user F)) max = true ->
            existsb (fun e => covers e user (mkf tok F_APPROVE (approve_args user F max exp))) es = true;
  cp_inv : alw_inv t -> alw_inv t'
}.

Lemma collect_fee_spec c nw a F t tok fee max exp user recipient ap ts t' ts' :
  1 <= min_temp_ttl (c_host c) ->
  collect_fee c nw a F t tok fee max exp user recipient ap ts = Ok (t', ts') ->
  collect_post c nw a F t t' tok fee max exp user recipient ap (map tk_entry ts)
  /\ map tk_entry ts' = map tk_entry ts.
Proof.
  intros Hm. unfold collect_fee.
  destruct (is_allowed a tok) eqn:Ea; cbn [guard bind]; [|discriminate].
  destruct (N.eqb F user) eqn:Eu; cbn [negb guard bind]; [discriminate|]. apply N.eqb_neq in Eu.
  destruct ((fee <=? 0) || (max <? fee)) eqn:Ef; cbn [negb guard bind]; [discriminate|].
  apply orb_false_iff in Ef. destruct Ef as [Ef1 Ef2]. apply Z.leb_gt in Ef1. apply Z.ltb_ge in Ef2.
  destruct (memb tok (c_tokens c)) eqn:Et; cbn [guard bind]; [|discriminate].
  (* step 1: the approval strategy *)
  set (x := ad nw (alw_get t user F)).
  assert (Hstep1 : forall t1 ts1,
    (match ap with
     | Eager => approve_frame (c_host c) nw F tok t user F max exp ts
     | Lazy => if allowance nw t user F <? max
               then approve_frame (c_host c) nw F tok t user F max exp ts
               else (do _ <- guard (negb (exp <? nw)); Ok (t, ts))
     end) = Ok (t1, ts1) ->
    step1_post nw t t1 tok user F max exp (need_approve ap x max) x ts ts1).
  { intros t1 ts1 H1. destruct ap.
    - unfold allowance in H1. rewrite allowance_data_ad in H1. fold x in H1.
      cbn [need_approve]. destruct (fst x <? max) eqn:El.
      + eapply step1_approve; eauto. lia.
      + destruct (exp <? nw) eqn:Ex; cbn [negb guard bind] in H1; [discriminate|].
        inversion H1; subst. apply Z.ltb_ge in Ex.
        unfold step1_post. repeat split; auto. intros Hd. discriminate.
    - cbn [need_approve]. eapply step1_approve; eauto. lia. }
  destruct (match ap with Eager => _ | Lazy => _ end) as [[t1 ts1]|] eqn:E1; cbn [bind]; [|discriminate].
  destruct (Hstep1 _ _ eq_refl) as [Hb1 [Ht1 [Ho1 [Hc1 [Hexp [Hau1 [Hen1 Hi1]]]]]]]. clear Hstep1.
  destruct (spend_allowance (c_host c) nw t1 user F fee) as [t2|] eqn:E2; cbn [bind]; [|discriminate].
  pose proof (spend_allowance_spec _ _ _ _ _ _ _ Hm Ef1 E2) as P2.
  destruct (update_transfer t2 user recipient fee) as [t3|] eqn:E3; cbn [bind]; [|discriminate].
  destruct (update_transfer_spec _ _ _ _ _ E3) as [_ [_ [Ht3 [Ha3 Hb3]]]].
  intros H. inversion H; subst t3 ts1. clear H. split; [|exact Hen1].
  constructor.
  - exact Ea.
  - exact Eu.
  - lia.
  - exact Et.
  - exact Hexp.
  - rewrite Ht3, (sp_total _ _ _ _ _ _ P2). exact Ht1.
  - intros h. rewrite Hb3. rewrite (balance_same_bal t1 t2) by apply (sp_bal _ _ _ _ _ _ P2).
    rewrite (balance_same_bal t t1) by exact Hb1. reflexivity.
  - intros o s. rewrite (alw_get_same_alw t2 t') by exact Ha3.
    destruct (N.eqb o user && N.eqb s F) eqn:Eos.
    + apply andb_true_iff in Eos. destruct Eos as [Eo Es]. apply N.eqb_eq in Eo. apply N.eqb_eq in Es. subst o s.
      rewrite (sp_cell _ _ _ _ _ _ P2), Hc1. fold x. destruct (need_approve ap x max); reflexivity.
    + rewrite (sp_other _ _ _ _ _ _ P2) by exact Eos. rewrite Ho1 by exact Eos. reflexivity.
  - exact Hau1.
  - intros Hi o s. rewrite (alw_get_same_alw t2 t') by exact Ha3.
    apply (sp_inv _ _ _ _ _ _ P2). apply Hi1. exact Hi.
Qed.

Lemma get_log_set l g g' x :
  get_log (alist_set g' x l) g = if N.eqb g g' then x else get_log l g.
Proof. unfold get_log. rewrite aget_set. destruct (N.eqb g g'); reflexivity. Qed.

Lemma target_call_spec c l F target fn args ts l' ret ts' :
  target_call c l F target fn args ts = Ok (l', ret, ts') ->
  memb target (c_targets c) = true /\
  (forall g, get_log l' g = if N.eqb g target then get_log l target ++ [(fn, args)] else get_log l g) /\
  ret = Z.of_nat (length (get_log l' target)).
Proof.
  unfold target_call. destruct (memb target (c_targets c)); cbn [guard bind]; [|discriminate].
  intros H.
  assert (Hgen : l' = alist_set target (get_log l target ++ [(fn, args)]) l /\
                 ret = Z.of_nat (length (get_log l target ++ [(fn, args)]))).
  { destruct args as [|x1 r1]; [discriminate|].
    destruct x1 as [who|v].
    - destruct r1 as [|x2 r2]; [discriminate|]. destruct x2 as [w2|v2]; [discriminate|].
      destruct r2; [|discriminate].
      destruct (N.eqb fn F_AUTH); [|discriminate].
      destruct (require_auth true (Some F) who _ (push_frame ts)); cbn [bind] in H; [|discriminate].
      inversion H. split; reflexivity.
    - destruct r1; [|discriminate]. destruct (N.eqb fn F_HIT); [|discriminate].
      inversion H. split; reflexivity. }
  destruct Hgen as [-> ->]. split; [reflexivity|]. split.
  - intros g. apply get_log_set.
  - rewrite get_log_set, N.eqb_refl. reflexivity.
Qed.

Definition recipient_of (c : cfg) (k : kind) (relayer : addr) : addr :=
  match k with Permissioned => fwd_addr c k | Permissionless => relayer end.

Record forward_post (c : cfg) (st st' : state) (k : kind) (tok : addr) (fee max exp : Z)
  (target : addr) (fn : N) (args : list atom) (user relayer : addr) (au : list entry) (ret : Z) : Prop := {
  fp_user_auth : existsb (fun e => covers_root e user
                    (mkf (fwd_addr c k) F_FORWARD (user_args tok max exp target fn args))) au = true;
  fp_relayer_auth : existsb (fun e => covers_root e relayer
                    (mkf (fwd_addr c k) F_FORWARD (forward_args tok fee max exp target fn args user relayer))) au = true;
  fp_role : match k with Permissioned => memb relayer (c_executors c) = true | Permissionless => True end;
  fp_now : now st' = now st;
  fp_al : al st' = al st;
  fp_other : forall t, t <> tok -> get_tok st' t = get_tok st t;
  fp_collect : collect_post c (now st) (al_of st k) (fwd_addr c k) (get_tok st tok) (get_tok st' tok)
                 tok fee max exp user (recipient_of c k relayer) (approval_of k) au;
  fp_target : memb target (c_targets c) = true;
  fp_logs : forall g, get_log (logs st') g =
              if N.eqb g target then get_log (logs st) target ++ [(fn, args)] else get_log (logs st) g;
  fp_ret : ret = Z.of_nat (length (get_log (logs st') target))
}.

Lemma get_tok_set st tok t' t l a :
  get_tok {| now := l; toks := alist_set tok t' (toks st); al := a; logs := logs st |} t =
  if N.eqb t tok then t' else get_tok st t.
Proof. unfold get_tok. cbn [toks]. rewrite aget_set. destruct (N.eqb t tok); reflexivity. Qed.

Lemma forward_spec c st k tok fee max exp target fn args user relayer au st' ret :
  1 <= min_temp_ttl (c_host c) ->
  forward c st k tok fee max exp target fn args user relayer au = Ok (st', ret) ->
  forward_post c st st' k tok fee max exp target fn args user relayer au ret.
Proof.
  intros Hm. unfold forward.
  destruct (match k with Permissioned => memb relayer (c_executors c) | Permissionless => true end) eqn:Er;
    cbn [guard bind]; [|discriminate].
  destruct (require_auth false None relayer _ (map init_tracker au)) as [ts1|] eqn:E1; cbn [bind]; [|discriminate].
  destruct (require_auth false None user _ ts1) as [ts2|] eqn:E2; cbn [bind]; [|discriminate].
  destruct (collect_fee c (now st) (al_of st k) (fwd_addr c k) (get_tok st tok) tok fee max exp user _ (approval_of k) ts2)
    as [[t' ts3]|] eqn:E3; cbn [bind]; [|discriminate].
  destruct (target_call c (logs st) (fwd_addr c k) target fn args ts3) as [[[l' r] ts4]|] eqn:E4; cbn [bind]; [|discriminate].
  intros H. inversion H; subst st' r. clear H.
  pose proof (require_auth_outer _ _ _ _ E1) as A1. rewrite entries_init in A1.
  pose proof (require_auth_outer _ _ _ _ E2) as A2.
  rewrite (require_auth_entries _ _ _ _ _ _ E1), entries_init in A2.
  destruct (collect_fee_spec _ _ _ _ _ _ _ _ _ _ _ _ _ _ _ Hm E3) as [P _].
  rewrite (require_auth_entries _ _ _ _ _ _ E2), (require_auth_entries _ _ _ _ _ _ E1), entries_init in P.
  destruct (target_call_spec _ _ _ _ _ _ _ _ _ _ E4) as [T1 [T2 T3]].
  constructor; cbn [now al logs]; auto.
  - destruct k; [exact Er|exact I].
  - intros t Hne. unfold get_tok. cbn [toks]. rewrite aget_set.
    destruct (N.eqb t tok) eqn:E; [apply N.eqb_eq in E; contradiction|reflexivity].
  - unfold get_tok at 2. cbn [toks]. rewrite aget_set, N.eqb_refl.
    unfold recipient_of. destruct k; exact P.
Qed.
