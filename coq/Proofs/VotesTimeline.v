(* C13: one checkpoint timeline - sortedness, the binary search, push_checkpoint. *)
From SC Require Import Lib.Prelude Lib.Int Lib.Host Model.Votes.
Open Scope Z_scope.

(* ---------- specification-level notions (timeline = newest first) ---------- *)
Definition head_ledger (t : timeline) : Z := match t with [] => -1 | c :: _ => cp_ledger c end.
Definition latest (t : timeline) : Z := match t with [] => 0 | c :: _ => cp_votes c end.

(* ledgers strictly decrease from the head (= strictly increase along the storage index),
   and are non-negative *)
Fixpoint sorted (t : timeline) : Prop :=
  match t with
  | [] => True
  | c :: r => head_ledger r < cp_ledger c /\ sorted r
  end.

(* value of the newest checkpoint with ledger <= q, 0 if there is none *)
Fixpoint lookup_spec (q : Z) (t : timeline) : Z :=
  match t with
  | [] => 0
  | c :: r => if cp_ledger c <=? q then cp_votes c else lookup_spec q r
  end.

Definition dcp : checkpoint := {| cp_ledger := 0; cp_votes := 0 |}.
(* the checkpoint stored at index i *)
Definition at_index (t : timeline) (i : Z) : checkpoint := nth (Z.to_nat (tl_num t - 1 - i)) t dcp.

Lemma tl_num_nonneg t : 0 <= tl_num t.
Proof. unfold tl_num. lia. Qed.
Lemma tl_num_cons c t : tl_num (c :: t) = tl_num t + 1.
Proof. unfold tl_num. cbn [length]. lia. Qed.

(* ---------- sortedness ---------- *)
Lemma sorted_all_lt c r : sorted (c :: r) -> forall c', In c' r -> cp_ledger c' < cp_ledger c.
Proof.
  revert c. induction r as [|c1 r IH]; intros c Hs c' Hin; [destruct Hin|].
  cbn [sorted head_ledger] in Hs. destruct Hs as [H1 [H2 H3]].
  destruct Hin as [->|Hin]; [exact H1|].
  assert (cp_ledger c' < cp_ledger c1) by (apply IH; [cbn [sorted]; auto|exact Hin]). lia.
Qed.

Lemma sorted_tail c r : sorted (c :: r) -> sorted r.
Proof. cbn [sorted]. tauto. Qed.

Lemma sorted_nonneg t : sorted t -> forall c, In c t -> 0 <= cp_ledger c.
Proof.
  induction t as [|c r IH]; intros Hs c' Hin; [destruct Hin|].
  destruct Hin as [->|Hin]; [|apply IH; [eapply sorted_tail; eauto|exact Hin]].
  destruct r as [|c1 r]; cbn [sorted head_ledger] in Hs; [lia|].
  assert (0 <= cp_ledger c1) by (apply IH; [cbn [sorted head_ledger]; tauto|left; reflexivity]). lia.
Qed.

Lemma sorted_nth_lt t : sorted t -> forall i j, (i < j < length t)%nat ->
  cp_ledger (nth j t dcp) < cp_ledger (nth i t dcp).
Proof.
  induction t as [|c r IH]; intros Hs i j Hij; [cbn in Hij; lia|].
  destruct j as [|j]; [lia|]. cbn [length] in Hij.
  destruct i as [|i]; cbn [nth].
  - apply (sorted_all_lt c r Hs). apply nth_In. lia.
  - apply IH; [eapply sorted_tail; eauto|lia].
Qed.

Lemma at_index_mono t : sorted t -> forall i j, 0 <= i -> i < j -> j < tl_num t ->
  cp_ledger (at_index t i) < cp_ledger (at_index t j).
Proof.
  intros Hs i j Hi Hij Hj. unfold at_index. apply sorted_nth_lt; [exact Hs|].
  unfold tl_num in *. lia.
Qed.

(* ---------- get_checkpoint ---------- *)
Lemma tl_get_ok t i : 0 <= i < tl_num t -> tl_get t i = Ok (at_index t i).
Proof.
  intros H. unfold tl_get, at_index.
  replace ((0 <=? i) && (i <? tl_num t)) with true by (symmetry; apply andb_true_intro; split; [apply Z.leb_le|apply Z.ltb_lt]; lia).
  rewrite (nth_error_nth' t dcp); [reflexivity|]. unfold tl_num in *. lia.
Qed.

Lemma at_index_last c r : at_index (c :: r) (tl_num (c :: r) - 1) = c.
Proof. unfold at_index. replace (tl_num (c :: r) - 1 - (tl_num (c :: r) - 1)) with 0 by lia. reflexivity. Qed.

Lemma tl_latest_ok t : tl_latest t = Ok (latest t).
Proof.
  unfold tl_latest. destruct t as [|c r]; [reflexivity|]. cbv zeta.
  pose proof (tl_num_nonneg r). rewrite (tl_num_cons c r).
  replace (tl_num r + 1 =? 0) with false by (symmetry; apply Z.eqb_neq; lia).
  rewrite <- (tl_num_cons c r). rewrite tl_get_ok by (rewrite tl_num_cons; lia).
  rewrite at_index_last. reflexivity.
Qed.

(* ---------- lookup_spec ---------- *)
Lemma lookup_spec_none q t : (forall c, In c t -> q < cp_ledger c) -> lookup_spec q t = 0.
Proof.
  induction t as [|c r IH]; intros H; [reflexivity|]. cbn [lookup_spec].
  assert (q < cp_ledger c) by (apply H; left; reflexivity).
  replace (cp_ledger c <=? q) with false by (symmetry; apply Z.leb_gt; lia).
  apply IH. intros; apply H; right; assumption.
Qed.

Lemma lookup_spec_head q t : head_ledger t <= q -> lookup_spec q t = latest t.
Proof.
  destruct t as [|c r]; intros H; [reflexivity|]. cbn [lookup_spec head_ledger latest] in *.
  replace (cp_ledger c <=? q) with true by (symmetry; apply Z.leb_le; lia). reflexivity.
Qed.

(* position p is the first one with ledger <= q *)
Lemma lookup_spec_nth q t : forall p, (p < length t)%nat ->
  (forall k, (k < p)%nat -> q < cp_ledger (nth k t dcp)) ->
  cp_ledger (nth p t dcp) <= q ->
  lookup_spec q t = cp_votes (nth p t dcp).
Proof.
  induction t as [|c r IH]; intros p Hp Hbefore Hat; [cbn in Hp; lia|].
  cbn [lookup_spec]. destruct p as [|p].
  - cbn [nth] in *. replace (cp_ledger c <=? q) with true by (symmetry; apply Z.leb_le; lia). reflexivity.
  - assert (q < cp_ledger c) by (apply (Hbefore 0%nat); lia).
    replace (cp_ledger c <=? q) with false by (symmetry; apply Z.leb_gt; lia).
    cbn [nth]. apply IH; [cbn [length] in Hp; lia| |exact Hat].
    intros k Hk. apply (Hbefore (S k)). lia.
Qed.

(* a self-contained characterisation of lookup_spec on a sorted timeline *)
Lemma lookup_spec_char q t : sorted t ->
  (exists c, In c t /\ cp_ledger c <= q /\ lookup_spec q t = cp_votes c /\
             forall c', In c' t -> cp_ledger c' <= q -> cp_ledger c' <= cp_ledger c)
  \/ (lookup_spec q t = 0 /\ forall c, In c t -> q < cp_ledger c).
Proof.
  induction t as [|c r IH]; intros Hs; [right; split; [reflexivity|intros c []]|].
  cbn [lookup_spec]. destruct (cp_ledger c <=? q) eqn:E.
  - apply Z.leb_le in E. left. exists c. split; [left; reflexivity|]. split; [exact E|]. split; [reflexivity|].
    intros c' [->|Hin] _; [lia|]. pose proof (sorted_all_lt c r Hs c' Hin). lia.
  - apply Z.leb_gt in E. destruct (IH (sorted_tail _ _ Hs)) as [[c0 [Hin [Hle [Hv Hmax]]]]|[Hz Hall]].
    + left. exists c0. split; [right; exact Hin|]. split; [exact Hle|]. split; [exact Hv|].
      intros c' [->|Hin'] Hle'; [lia|]. apply Hmax; assumption.
    + right. split; [exact Hz|]. intros c' [->|Hin']; [lia|]. apply Hall; assumption.
Qed.

(* ---------- the binary search ---------- *)
Lemma half_up_bounds d : 0 < d -> 0 < (d + 1) / 2 <= d /\ d - (d + 1) / 2 <= d / 2 /\ (d + 1) / 2 - 1 <= d / 2.
Proof. intros H. Z.div_mod_to_equations. lia. Qed.

Lemma bsearch_ok t q : sorted t -> forall fuel low high,
  0 <= low -> low <= high -> high < tl_num t ->
  high - low < 2 ^ Z.of_nat fuel ->
  cp_ledger (at_index t low) <= q ->
  (forall j, high < j -> j < tl_num t -> q < cp_ledger (at_index t j)) ->
  exists r, bsearch fuel t q low high = Ok r /\ low <= r <= high /\
            cp_ledger (at_index t r) <= q /\
            (forall j, r < j -> j < tl_num t -> q < cp_ledger (at_index t j)).
Proof.
  intros Hs. induction fuel as [|f IH]; intros low high Hl Hlh Hh Hfuel Hlow Hhigh.
  - cbn [Z.of_nat] in Hfuel. change (2 ^ 0) with 1 in Hfuel. assert (low = high) by lia. subst high.
    cbn [bsearch]. rewrite Z.ltb_irrefl. exists low. repeat split; auto; lia.
  - cbn [bsearch]. destruct (low <? high) eqn:E.
    2:{ apply Z.ltb_ge in E. assert (low = high) by lia. subst high. exists low. repeat split; auto; lia. }
    apply Z.ltb_lt in E.
    rewrite Nat2Z.inj_succ, Z.pow_succ_r in Hfuel by lia.
    pose proof (half_up_bounds (high - low) ltac:(lia)) as [Hm1 [Hm2 Hm3]].
    assert (Hd2 : (high - low) / 2 < 2 ^ Z.of_nat f) by (apply Z.div_lt_upper_bound; lia).
    set (mid := low + (high - low + 1) / 2) in *.
    rewrite tl_get_ok by (unfold mid; lia). cbn [bind].
    destruct (cp_ledger (at_index t mid) <=? q) eqn:Em.
    + apply Z.leb_le in Em.
      destruct (IH mid high) as [r [Hr [Hr1 [Hr2 Hr3]]]]; try (unfold mid; lia); auto.
      exists r. split; [exact Hr|]. split; [unfold mid in *; lia|]. split; auto.
    + apply Z.leb_gt in Em.
      destruct (IH low (mid - 1)) as [r [Hr [Hr1 [Hr2 Hr3]]]]; try (unfold mid; lia); auto.
      { intros j Hj1 Hj2. destruct (Z.eq_dec j mid) as [->|Hne]; [exact Em|].
        pose proof (at_index_mono t Hs mid j ltac:(unfold mid; lia) ltac:(lia) Hj2). lia. }
      exists r. split; [exact Hr|]. split; [unfold mid in *; lia|]. split; auto.
Qed.

(* lookup_checkpoint_at returns the value of the last checkpoint with ledger <= q (0 if none);
   the fuel (32) never runs out for fewer than 2^32 checkpoints *)
Theorem lookup_checkpoint_at_ok t q : sorted t -> tl_num t <= 2 ^ 32 ->
  lookup_checkpoint_at t q = Ok (lookup_spec q t).
Proof.
  intros Hs Hn. unfold lookup_checkpoint_at. cbv zeta.
  destruct t as [|c r]; [reflexivity|].
  remember (c :: r) as t eqn:Ht.
  assert (Hnum : 0 < tl_num t) by (subst t; rewrite tl_num_cons; pose proof (tl_num_nonneg r); lia).
  replace (tl_num t =? 0) with false by (symmetry; apply Z.eqb_neq; lia).
  rewrite tl_get_ok by lia. cbn [bind].
  assert (Hlast : at_index t (tl_num t - 1) = c) by (subst t; apply at_index_last).
  rewrite Hlast.
  destruct (cp_ledger c <=? q) eqn:E1.
  { subst t. cbn [lookup_spec]. rewrite E1. reflexivity. }
  apply Z.leb_gt in E1.
  rewrite tl_get_ok by lia. cbn [bind].
  destruct (q <? cp_ledger (at_index t 0)) eqn:E2.
  { apply Z.ltb_lt in E2. rewrite lookup_spec_none; [reflexivity|].
    intros c' Hin. destruct (In_nth t c' dcp Hin) as [p [Hp Hc']]. subst c'.
    destruct (Z.eq_dec (tl_num t - 1 - Z.of_nat p) 0) as [Hz|Hnz].
    - unfold at_index in E2. replace (Z.to_nat (tl_num t - 1 - 0)) with p in E2 by lia. exact E2.
    - pose proof (at_index_mono t Hs 0 (tl_num t - 1 - Z.of_nat p) ltac:(lia)) as Hm.
      unfold tl_num in Hm at 1 2. specialize (Hm ltac:(unfold tl_num in *; lia) ltac:(unfold tl_num in *; lia)).
      unfold at_index at 2 in Hm.
      replace (Z.to_nat (tl_num t - 1 - (tl_num t - 1 - Z.of_nat p))) with p in Hm by (unfold tl_num in *; lia). lia. }
  apply Z.ltb_ge in E2.
  assert (Hfuel : tl_num t - 1 - 0 < 2 ^ Z.of_nat BS_FUEL)
    by (unfold BS_FUEL; change (2 ^ Z.of_nat 32) with (2 ^ 32); lia).
  destruct (bsearch_ok t q Hs BS_FUEL 0 (tl_num t - 1) ltac:(lia) ltac:(lia) ltac:(lia) Hfuel E2 ltac:(intros; lia))
    as [lo [Hb [Hlo1 [Hlo2 Hlo3]]]].
  rewrite Hb. cbn [bind]. rewrite tl_get_ok by lia. cbn [bind]. f_equal.
  symmetry. unfold at_index.
  apply lookup_spec_nth.
  - unfold tl_num in *. lia.
  - intros k Hk. specialize (Hlo3 (tl_num t - 1 - Z.of_nat k) ltac:(unfold tl_num in *; lia) ltac:(unfold tl_num in *; lia)).
    unfold at_index in Hlo3.
    replace (Z.to_nat (tl_num t - 1 - (tl_num t - 1 - Z.of_nat k))) with k in Hlo3 by (unfold tl_num in *; lia). exact Hlo3.
  - exact Hlo2.
Qed.

(* ---------- push_checkpoint ---------- *)
Definition mkcp (l v : Z) : checkpoint := {| cp_ledger := l; cp_votes := v |}.

Lemma push_checkpoint_inv now t op d t' prev v :
  push_checkpoint now t op d = Ok (t', (prev, v)) ->
  prev = latest t /\ apply_checkpoint_op prev op d = Ok v /\
  ((t <> [] /\ head_ledger t = now /\ t' = mkcp now v :: tl t) \/
   ((t = [] \/ head_ledger t <> now) /\ t' = mkcp now v :: t /\ tl_num t + 1 <= MAXU32)).
Proof.
  unfold push_checkpoint. cbv zeta. destruct t as [|c r].
  - cbn [tl_num length Z.of_nat]. replace (0 <? 0) with false by reflexivity. cbn [bind].
    destruct (apply_checkpoint_op 0 op d) as [v0|] eqn:Ea; cbn [bind]; [|discriminate].
    destruct (in_u32 (0 + 1)) eqn:Eu; cbn [guard bind]; [|discriminate].
    intros H. inversion H; subst. split; [reflexivity|]. split; [exact Ea|]. right.
    split; [left; reflexivity|]. split; [reflexivity|]. unfold in_u32 in Eu. lia.
  - pose proof (tl_num_nonneg r) as Hr0. pose proof (tl_num_cons c r) as Hc.
    replace (0 <? tl_num (c :: r)) with true by (symmetry; apply Z.ltb_lt; lia).
    rewrite tl_get_ok by lia. rewrite at_index_last. cbn [bind].
    destruct (apply_checkpoint_op (cp_votes c) op d) as [v0|] eqn:Ea; cbn [bind]; [|discriminate].
    destruct (cp_ledger c =? now) eqn:El.
    + apply Z.eqb_eq in El. intros H. inversion H; subst. split; [reflexivity|]. split; [exact Ea|].
      left. split; [discriminate|]. split; reflexivity.
    + apply Z.eqb_neq in El. destruct (in_u32 (tl_num (c :: r) + 1)) eqn:Eu; cbn [guard bind]; [|discriminate].
      intros H. inversion H; subst. split; [reflexivity|]. split; [exact Ea|]. right.
      split; [right; exact El|]. split; [reflexivity|]. unfold in_u32 in Eu. lia.
Qed.

(* what a push at ledger [now] guarantees about the timeline *)
Record tl_ext (now : Z) (t t' : timeline) : Prop := {
  ext_wf : sorted t -> head_ledger t <= now -> tl_num t <= MAXU32 ->
           sorted t' /\ head_ledger t' <= now /\ tl_num t' <= MAXU32;
  ext_past : forall q, q < now -> lookup_spec q t' = lookup_spec q t
}.

Lemma tl_ext_refl now t : tl_ext now t t.
Proof. split; auto. Qed.
Lemma tl_ext_trans now t1 t2 t3 : tl_ext now t1 t2 -> tl_ext now t2 t3 -> tl_ext now t1 t3.
Proof.
  intros [W1 P1] [W2 P2]. split.
  - intros a b c. destruct (W1 a b c) as [x [y z]]. apply W2; assumption.
  - intros q Hq. rewrite P2, P1 by assumption. reflexivity.
Qed.

Lemma push_checkpoint_ext now t op d t' pv : 0 <= now ->
  push_checkpoint now t op d = Ok (t', pv) ->
  tl_ext now t t' /\ latest t' = snd pv /\ fst pv = latest t /\ apply_checkpoint_op (latest t) op d = Ok (snd pv) /\
  head_ledger t' = now.
Proof.
  intros Hnow H. destruct pv as [prev v]. apply push_checkpoint_inv in H.
  destruct H as [-> [Hop Hcase]]. cbn [fst snd].
  assert (Hl : latest t' = v) by (destruct Hcase as [[_ [_ ->]]|[_ [-> _]]]; reflexivity).
  assert (Hh : head_ledger t' = now) by (destruct Hcase as [[_ [_ ->]]|[_ [-> _]]]; reflexivity).
  split; [|auto]. split.
  - intros Hs Hhd Hn. destruct Hcase as [[Hne [Hhead ->]]|[Hne [-> Hlen]]].
    + destruct t as [|c r]; [contradiction|]. cbn [tl head_ledger] in *.
      cbn [sorted] in Hs. destruct Hs as [Hs1 Hs2].
      split; [cbn [sorted mkcp cp_ledger]; split; [lia|exact Hs2]|].
      split; [cbn [head_ledger mkcp cp_ledger]; lia|].
      rewrite tl_num_cons in *. lia.
    + split; [cbn [sorted mkcp cp_ledger]; split; [destruct Hne as [->|Hne]; [cbn [head_ledger]; lia|lia]|exact Hs]|].
      split; [cbn [head_ledger mkcp cp_ledger]; lia|]. rewrite tl_num_cons. lia.
  - intros q Hq. destruct Hcase as [[Hne [Hhead ->]]|[Hne [-> Hlen]]].
    + destruct t as [|c r]; [contradiction|]. cbn [tl head_ledger] in *. cbn [lookup_spec mkcp cp_ledger].
      replace (now <=? q) with false by (symmetry; apply Z.leb_gt; lia).
      replace (cp_ledger c <=? q) with false by (symmetry; apply Z.leb_gt; lia). reflexivity.
    + cbn [lookup_spec mkcp cp_ledger].
      replace (now <=? q) with false by (symmetry; apply Z.leb_gt; lia). reflexivity.
Qed.

