(* C13 (deepening): the votes bookkeeping fails only when it must.  In every reachable state,
   transfer_voting_units succeeds whenever the source holds the units and a mint does not push the
   u128 supply over its range; delegate succeeds whenever it is authorised and the delegate differs.
   (As long as the ledger sequence leaves room for one more checkpoint index: now + 2 <= u32::MAX.) *)
From SC Require Import Lib.Prelude Lib.Int Lib.Host Model.Votes
  Proofs.VotesTimeline Proofs.VotesState Proofs.VotesRun Proofs.C13Bounds.
Open Scope Z_scope.

Lemma sorted_len t : sorted t -> tl_num t <= head_ledger t + 1.
Proof.
  induction t as [|c r IH]; intros Hs; [cbn; lia|]. destruct Hs as [H1 H2]. specialize (IH H2).
  rewrite tl_num_cons. cbn [head_ledger]. lia.
Qed.

Lemma apply_op_total prev op d :
  0 <= (match op with OpAdd => prev + d | OpSub => prev - d end) <= MAXU128 ->
  exists v, apply_checkpoint_op prev op d = Ok v.
Proof.
  intros H. unfold apply_checkpoint_op, checked_add_u128, checked_sub_u128, in_u128. destruct op.
  - replace ((0 <=? prev + d) && (prev + d <=? MAXU128)) with true; [eexists; reflexivity|].
    symmetry. apply andb_true_intro. split; apply Z.leb_le; lia.
  - replace ((0 <=? prev - d) && (prev - d <=? MAXU128)) with true; [eexists; reflexivity|].
    symmetry. apply andb_true_intro. split; apply Z.leb_le; lia.
Qed.

Lemma push_checkpoint_total now t op d : 0 <= now -> now + 2 <= MAXU32 -> tl_wf now t ->
  0 <= (match op with OpAdd => latest t + d | OpSub => latest t - d end) <= MAXU128 ->
  exists r, push_checkpoint now t op d = Ok r.
Proof.
  intros H0 Hroom [Hs [Hh Hn]] Hr. pose proof (sorted_len t Hs) as Hlen.
  unfold push_checkpoint. cbv zeta. destruct t as [|c r].
  - cbn [tl_num length Z.of_nat]. replace (0 <? 0) with false by reflexivity. cbn [bind latest] in *.
    destruct (apply_op_total 0 op d Hr) as [v ->]. cbn [bind].
    replace (in_u32 (0 + 1)) with true by reflexivity. cbn [guard bind]. eexists; reflexivity.
  - pose proof (tl_num_nonneg r) as Hr0. pose proof (tl_num_cons c r) as Hc.
    replace (0 <? tl_num (c :: r)) with true by (symmetry; apply Z.ltb_lt; lia).
    rewrite tl_get_ok by lia. rewrite at_index_last. cbn [bind latest] in *.
    destruct (apply_op_total (cp_votes c) op d Hr) as [v ->]. cbn [bind].
    destruct (cp_ledger c =? now); [eexists; reflexivity|].
    replace (in_u32 (tl_num (c :: r) + 1)) with true; [cbn [guard bind]; eexists; reflexivity|].
    symmetry. unfold in_u32. cbn [head_ledger] in *. apply andb_true_intro. split; apply Z.leb_le; lia.
Qed.

Lemma push_total now s ct op d : 0 <= now -> now + 2 <= MAXU32 -> tl_wf now (get_tl s ct) ->
  0 <= (match op with OpAdd => latest (get_tl s ct) + d | OpSub => latest (get_tl s ct) - d end) <= MAXU128 ->
  exists s', push now s ct op d = Ok s'.
Proof.
  intros H0 Hroom W Hr. unfold push. destruct (push_checkpoint_total now _ op d H0 Hroom W Hr) as [r ->].
  cbn [bind]. eexists; reflexivity.
Qed.

(* move_delegate_votes: enough votes at the source delegate, room at the target delegate *)
Lemma mdv_total now s from to amt : 0 <= now -> now + 2 <= MAXU32 -> 0 <= amt ->
  (forall a, tl_wf now (tl_of s a)) ->
  (forall a, 0 <= votes_of s a <= MAXU128) ->
  (forall f, from = Some f -> from <> to -> amt <= votes_of s f) ->
  (forall t, to = Some t -> from <> to -> votes_of s t + amt <= MAXU128) ->
  exists s', move_delegate_votes now s from to amt = Ok s'.
Proof.
  intros H0 Hroom Ha W R Hf Ht. unfold move_delegate_votes.
  destruct (amt =? 0); [eexists; reflexivity|].
  destruct (oaddr_eqb from to) eqn:E; [eexists; reflexivity|]. apply oaddr_eqb_neq in E.
  assert (S1 : exists s1, match from with Some f => push now s (CAcct f) OpSub amt | None => Ok s end = Ok s1 /\
                          forall a, (from <> Some a -> tl_of s1 a = tl_of s a) /\ tl_wf now (tl_of s1 a)).
  { destruct from as [f|].
    - destruct (push_total now s (CAcct f) OpSub amt H0 Hroom (W f)) as [s1 E1].
      { cbn [get_tl]. pose proof (R f). specialize (Hf f eq_refl E). unfold votes_of in *. lia. }
      exists s1. split; [exact E1|]. destruct (push_spec _ _ _ _ _ _ H0 E1) as [t1 [-> [X1 _]]]. cbn [get_tl] in X1.
      intros a. rewrite tl_of_set_tl_acct. destruct (N.eqb a f) eqn:Eaf.
      + apply N.eqb_eq in Eaf. subst a. split; [congruence|]. eapply tl_wf_ext; [exact X1|apply W].
      + split; [reflexivity|apply W].
    - exists s. split; [reflexivity|]. intros a. split; [reflexivity|apply W]. }
  destruct S1 as [s1 [-> S1]]. cbn [bind].
  destruct to as [t|]; [|eexists; reflexivity].
  assert (Hne : from <> Some t) by congruence.
  destruct (S1 t) as [Heq Hwf]. specialize (Heq Hne).
  apply (push_total now s1 (CAcct t) OpAdd amt H0 Hroom); cbn [get_tl]; [exact Hwf|].
  rewrite Heq. pose proof (R t). specialize (Ht t eq_refl E). unfold votes_of in *. lia.
Qed.

Section Reachable.
  Variable (U : list addr) (s : state).
  Hypothesis (Hnd : NoDup U) (I : inv U s) (Hroom : s_now s + 2 <= MAXU32).
  Local Notation v := (s_v s).

  Local Definition F (d : addr) (a : addr) : Z := ind (oaddr_eqb (delegate_of v a) (Some d)) (units_of v a).

  Lemma F_nonneg d a : 0 <= F d a.
  Proof. unfold F, ind. pose proof (inv_units_nonneg U s I a). destruct (oaddr_eqb _ _); lia. Qed.

  Lemma votes_range d : 0 <= votes_of v d <= MAXU128.
  Proof.
    rewrite (inv_votes U s I d). fold (F d). split; [apply sumf_nonneg, F_nonneg|].
    pose proof (inv_supply_range U s I) as R. rewrite (inv_supply U s I) in R.
    assert (sumf (F d) U <= sumf (units_of v) U); [|lia].
    apply sumf_le. intros a. unfold F, ind. pose proof (inv_units_nonneg U s I a). destruct (oaddr_eqb _ _); lia.
  Qed.

  (* the voting power of d plus the units of an account NOT delegating to d fits in the supply *)
  Lemma votes_plus_outsider d x : In x U -> delegate_of v x <> Some d ->
    votes_of v d + units_of v x <= supply_of v.
  Proof.
    intros Hx Hd. rewrite (inv_votes U s I d), (inv_supply U s I). fold (F d).
    rewrite <- (sumf_pick U (Some x) (units_of v) Hnd) by (intros f Hf; inversion Hf; subst; exact Hx).
    rewrite <- sumf_add. apply sumf_le. intros a. unfold F, ind. cbn [oaddr_eqb].
    pose proof (inv_units_nonneg U s I a).
    destruct (N.eqb x a) eqn:E.
    - apply N.eqb_eq in E. subst a. apply oaddr_eqb_neq in Hd. rewrite Hd. lia.
    - destruct (oaddr_eqb _ _); lia.
  Qed.

  Lemma units_le_votes a d : delegate_of v a = Some d -> units_of v a <= votes_of v d.
  Proof.
    intros Hd. destruct (in_dec N.eq_dec a U) as [HaU|HaU].
    - rewrite (inv_votes U s I d). fold (F d).
      pose proof (sumf_ge_term (F d) U a (F_nonneg d) HaU) as G. unfold F at 1 in G.
      rewrite Hd, oaddr_eqb_refl in G. cbn [ind] in G. exact G.
    - rewrite (inv_outside U s I a HaU). apply votes_range.
  Qed.

  Lemma units_le_supply a : units_of v a <= supply_of v.
  Proof.
    destruct (in_dec N.eq_dec a U) as [HaU|HaU].
    - rewrite (inv_supply U s I). apply sumf_ge_term; [apply (inv_units_nonneg U s I)|exact HaU].
    - rewrite (inv_outside U s I a HaU). apply (inv_supply_range U s I).
  Qed.

  (* delegate fails only without authorisation or when the delegate is unchanged *)
  Theorem delegate_total auths acc d :
    has_auth auths acc = true -> delegate_of v acc <> Some d ->
    exists v', delegate (s_now s) auths v acc d = Ok v'.
  Proof.
    intros Ha Hd. unfold delegate. rewrite Ha. cbn [guard bind].
    replace (oaddr_eqb (delegate_of v acc) (Some d)) with false by (symmetry; apply oaddr_eqb_neq; exact Hd).
    cbn [negb guard bind]. rewrite units_of_set_delegate.
    pose proof (inv_supply_range U s I) as SR.
    apply mdv_total; auto.
    - apply (inv_now U s I).
    - apply (inv_units_nonneg U s I).
    - intros a. rewrite tl_of_set_delegate. apply (inv_tl U s I).
    - intros a. unfold votes_of. rewrite tl_of_set_delegate. apply votes_range.
    - intros f Hf _. unfold votes_of. rewrite tl_of_set_delegate. apply units_le_votes. exact Hf.
    - intros t Ht _. inversion Ht; subst t. unfold votes_of. rewrite tl_of_set_delegate. fold (votes_of v d).
      destruct (in_dec N.eq_dec acc U) as [HaU|HaU].
      + pose proof (votes_plus_outsider d acc HaU Hd). lia.
      + rewrite (inv_outside U s I acc HaU). pose proof (votes_range d). lia.
  Qed.

  (* transfer_voting_units fails only when the source lacks the units or a mint overflows u128 *)
  Theorem tvu_total from to amt :
    0 < amt ->
    (forall a, from = Some a \/ to = Some a -> In a U) ->
    (forall f, from = Some f -> amt <= units_of v f) ->
    (from = None -> supply_of v + amt <= MAXU128) ->
    exists v', transfer_voting_units (s_now s) v from to amt = Ok v'.
  Proof.
    intros Hamt HU Hf Hmint.
    pose proof (inv_now U s I) as H0. pose proof (inv_supply_range U s I) as SR.
    unfold transfer_voting_units. replace (amt =? 0) with false by (symmetry; apply Z.eqb_neq; lia).
    set (fd := match from with Some a => delegate_of v a | None => None end).
    set (td := match to with Some a => delegate_of v a | None => None end).
    (* step 1 *)
    assert (S1 : exists s1,
      match from with
      | Some f => do nu <- of_option (checked_sub_u128 (units_of v f) amt); Ok (set_units v f nu)
      | None => push (s_now s) v CTotal OpAdd amt end = Ok s1 /\
      (forall a, tl_of s1 a = tl_of v a) /\ (forall a, delegate_of s1 a = delegate_of v a) /\
      (forall a, units_of s1 a = units_of v a - ind (oaddr_eqb from (Some a)) amt) /\
      tl_wf (s_now s) (v_ts s1) /\
      latest (v_ts s1) = supply_of v + ind (is_none_addr from) amt).
    { destruct from as [f|].
      - specialize (Hf f eq_refl). pose proof (units_le_supply f).
        unfold checked_sub_u128, in_u128.
        replace ((0 <=? units_of v f - amt) && (units_of v f - amt <=? MAXU128)) with true
          by (symmetry; apply andb_true_intro; split; apply Z.leb_le; lia).
        cbn [of_option bind]. eexists. split; [reflexivity|].
        split; [intros; reflexivity|]. split; [intros; reflexivity|]. split.
        { intros a. rewrite units_of_set_units. cbn [oaddr_eqb]. unfold ind.
          destruct (N.eqb a f) eqn:E; bool_hyps; subst; rewrite ?N.eqb_refl; [lia|].
          replace (N.eqb f a) with false by (symmetry; apply N.eqb_neq; congruence). lia. }
        split; [apply (inv_ts U s I)|]. cbn [is_none_addr ind v_ts set_units]. unfold supply_of. lia.
      - specialize (Hmint eq_refl).
        destruct (push_total (s_now s) v CTotal OpAdd amt H0 Hroom (inv_ts U s I)) as [s1 E1].
        { cbn [get_tl]. unfold supply_of in *. lia. }
        exists s1. split; [exact E1|]. destruct (push_spec _ _ _ _ _ _ H0 E1) as [t1 [-> [X1 [L1 _]]]]. cbn [get_tl] in *.
        split; [intros; reflexivity|]. split; [intros; rewrite delegate_of_set_tl; reflexivity|].
        split; [intros; rewrite units_of_set_tl; cbn [oaddr_eqb ind]; lia|].
        split; [eapply tl_wf_ext; [exact X1|apply (inv_ts U s I)]|]. cbn [is_none_addr ind v_ts set_tl]. exact L1. }
    destruct S1 as [s1 [-> [A1 [A2 [A3 [A4 A5]]]]]]. cbn [bind].
    (* step 2 *)
    assert (S2 : exists s2,
      match to with
      | Some t => do nu <- of_option (checked_add_u128 (units_of s1 t) amt); Ok (set_units s1 t nu)
      | None => push (s_now s) s1 CTotal OpSub amt end = Ok s2 /\
      (forall a, tl_of s2 a = tl_of v a)).
    { destruct to as [t|].
      - assert (units_of s1 t + amt <= MAXU128 /\ 0 <= units_of s1 t + amt).
        { rewrite A3. pose proof (inv_units_nonneg U s I t) as Ht0. unfold ind.
          destruct (oaddr_eqb from (Some t)) eqn:E.
          - apply oaddr_eqb_eq in E. pose proof (units_le_supply t). lia.
          - destruct from as [f|].
            + specialize (Hf f eq_refl). apply oaddr_eqb_neq in E.
              assert (f <> t) by congruence.
              (* units t + units f <= supply *)
              assert (units_of v t + units_of v f <= supply_of v); [|lia].
              rewrite (inv_supply U s I).
              rewrite <- (sumf_pick U (Some t) (units_of v) Hnd) by (intros x Hx; inversion Hx; subst; apply HU; right; reflexivity).
              rewrite <- (sumf_pick U (Some f) (units_of v) Hnd) by (intros x Hx; inversion Hx; subst; apply HU; left; reflexivity).
              rewrite <- sumf_add. apply sumf_le. intros a. unfold ind. cbn [oaddr_eqb].
              pose proof (inv_units_nonneg U s I a).
              destruct (N.eqb t a) eqn:E1; destruct (N.eqb f a) eqn:E2; bool_hyps; subst; try congruence; lia.
            + specialize (Hmint eq_refl). pose proof (units_le_supply t). lia. }
        unfold checked_add_u128, in_u128.
        replace ((0 <=? units_of s1 t + amt) && (units_of s1 t + amt <=? MAXU128)) with true
          by (symmetry; apply andb_true_intro; split; apply Z.leb_le; lia).
        cbn [of_option bind]. eexists. split; [reflexivity|]. intros a. rewrite tl_of_set_units. apply A1.
      - destruct (push_total (s_now s) s1 CTotal OpSub amt H0 Hroom A4) as [s2 E2].
        { cbn [get_tl]. rewrite A5. destruct from as [f|]; cbn [is_none_addr ind].
          - specialize (Hf f eq_refl). pose proof (units_le_supply f). lia.
          - specialize (Hmint eq_refl). lia. }
        exists s2. split; [exact E2|]. destruct (push_spec _ _ _ _ _ _ H0 E2) as [t2 [-> _]].
        intros a. rewrite tl_of_set_tl_total. apply A1. }
    destruct S2 as [s2 [-> B1]]. cbn [bind].
    (* step 3 *)
    apply mdv_total; auto; try lia.
    - intros a. rewrite B1. apply (inv_tl U s I).
    - intros a. unfold votes_of. rewrite B1. apply votes_range.
    - intros d Hd _. unfold votes_of. rewrite B1. fold (votes_of v d).
      destruct from as [f|]; [|discriminate]. specialize (Hf f eq_refl).
      pose proof (units_le_votes f d Hd). lia.
    - intros d Hd Hne. unfold votes_of. rewrite B1. fold (votes_of v d).
      destruct from as [f|].
      + specialize (Hf f eq_refl).
        assert (delegate_of v f <> Some d) by (intros X; apply Hne; unfold fd; rewrite X; symmetry; exact Hd).
        pose proof (votes_plus_outsider d f (HU f (or_introl eq_refl)) H). lia.
      + specialize (Hmint eq_refl). pose proof (votes_range d).
        assert (votes_of v d <= supply_of v); [|lia].
        rewrite (inv_votes U s I d), (inv_supply U s I).
        apply sumf_le. intros a. unfold ind. pose proof (inv_units_nonneg U s I a). destruct (oaddr_eqb _ _); lia.
  Qed.
End Reachable.
