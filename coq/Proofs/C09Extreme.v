(* C09: delays at the u32 extremes.  schedule_op stores the ready ledger min(ledger + delay, u32::MAX) - the sum is
   never reduced modulo 2^32 - so that whatever delay a proposer passes (u32::MAX, ledger + delay >= 2^32, ...) the
   operation is Waiting, hence refused by __check_auth and execute_op, at every ledger before ledger + delay that a
   u32 ledger sequence can take below u32::MAX. *)
From SC Require Import Lib.Prelude Lib.Int Lib.Host Model.Timelock Model.TimelockGhost Model.TimelockController
  Proofs.TimelockGhost Proofs.Timelock Proofs.C08Final Proofs.Controller.
Require Import Lia.

Section WithHash.
  Variable hash : op -> id.
  Variable aid : argv -> N.
  Variable cf : cfg.

  Lemma schedule_waits_full_delay t o d t' i :
    2 <= now t ->
    schedule_operation hash t o d = Ok (t', i) ->
    i = hash o /\ now t' = now t /\ mark t' i = Z.min (now t + d) MAXU32 /\
    (forall l, now t <= l -> l < now t + d -> l < MAXU32 -> state_of_mark l (mark t' i) = Waiting).
  Proof.
    intros Hn H. apply schedule_ok in H. destruct H as (Hd & _ & m & _ & _ & -> & ->).
    rewrite mark_set_eq. rewrite sat_add_u32_spec by lia.
    split; [reflexivity|]. split; [reflexivity|]. split; [reflexivity|].
    intros l Hl1 Hl2 Hl3. unfold state_of_mark, UNSET_LEDGER, DONE_LEDGER.
    pose proof MAXU32_val as HM.
    destruct (Z.eqb_spec (Z.min (now t + d) MAXU32) 0); [lia|].
    destruct (Z.eqb_spec (Z.min (now t + d) MAXU32) 1); [lia|].
    destruct (Z.ltb_spec l (Z.min (now t + d) MAXU32)); [reflexivity|lia].
  Qed.

  (* the controller's entry point: in the state s' after a successful schedule_op(o, d) (made in ledger now s') *)
  Theorem scheduled_op_waits_full_delay s o d p au s' r :
    step_ok hash aid cf s (ScheduleOp o d p au) = Ok (s', r) ->
    2 <= now (ctl s') ->
    r = Some (hash o) /\ 0 <= d <= MAXU32 /\
    mark (ctl s') (hash o) = Z.min (now (ctl s') + d) MAXU32 /\
    (forall l, now (ctl s') <= l -> l < now (ctl s') + d -> l < MAXU32 ->
               state_of_mark l (mark (ctl s') (hash o)) = Waiting).
  Proof.
    intros H Hn. apply schedule_op_spec in H. destruct H as (_ & s1 & t & _ & Hs & -> & ->).
    pose proof (schedule_ok hash _ _ _ _ _ Hs) as (Hd & _).
    cbn [ctl with_ctl] in *.
    assert (Hnow : now t = now (ctl s1)).
    { pose proof (schedule_ok hash _ _ _ _ _ Hs) as (_ & _ & m & _ & _ & -> & _). reflexivity. }
    rewrite Hnow in *.
    destruct (schedule_waits_full_delay _ _ _ _ _ Hn Hs) as (_ & _ & Hm & Hw).
    split; [reflexivity|]. split; [exact Hd|]. split; [exact Hm|exact Hw].
  Qed.

  (* in particular with the largest delay: not Ready at any ledger below u32::MAX *)
  Corollary max_delay_never_ready s o p au s' r :
    step_ok hash aid cf s (ScheduleOp o MAXU32 p au) = Ok (s', r) ->
    2 <= now (ctl s') ->
    forall l, now (ctl s') <= l -> l < MAXU32 -> state_of_mark l (mark (ctl s') (hash o)) = Waiting.
  Proof.
    intros H Hn l Hl1 Hl2. destruct (scheduled_op_waits_full_delay _ _ _ _ _ _ _ H Hn) as (_ & _ & _ & Hw).
    apply Hw; lia.
  Qed.
End WithHash.
