(* C15: the claim topics and issuers registry - the two indexes (topic -> issuers,
   issuer -> topics) stay coherent under every history of add / remove / update operations;
   the map handed to the verifier lists, for every required topic, exactly the issuers
   currently trusted for it. *)
From Coq Require Import Sorting.Sorted.
From SC Require Import Lib.Prelude Lib.Int Lib.Host Model.ClaimIssuer Model.Identity Proofs.C15Base.

Definition tiss (s : cti) (t : Z) : list addr :=
  match aget Z.eqb t (ct_tissuers s) with Some l => l | None => [] end.
Definition itop (s : cti) (i : addr) : list Z :=
  match aget N.eqb i (ct_itopics s) with Some l => l | None => [] end.

Record cti_inv (s : cti) : Prop := {
  ri_topics_nodup : NoDup (ct_topics s);
  ri_issuers_nodup : NoDup (ct_issuers s);
  ri_tpresent : forall t, In t (ct_topics s) <-> aget Z.eqb t (ct_tissuers s) <> None;
  ri_ipresent : forall i, In i (ct_issuers s) <-> aget N.eqb i (ct_itopics s) <> None;
  ri_coherent : forall t i, In i (tiss s t) <-> In t (itop s i);
  ri_tiss_nodup : forall t, NoDup (tiss s t);
  ri_itop_nodup : forall i, NoDup (itop s i)
}.

Lemma cti_inv_init : cti_inv cti0.
Proof.
  constructor; unfold tiss, itop; cbn; intros; try constructor; try tauto; try congruence.
Qed.

Section Inv.
  Variable s : cti.
  Hypothesis Hi : cti_inv s.

  Lemma listed_is_trusted t i : In i (tiss s t) -> In i (ct_issuers s).
  Proof.
    intros H. apply (ri_coherent s Hi) in H. apply (ri_ipresent s Hi).
    unfold itop in H. destruct (aget N.eqb i (ct_itopics s)); [discriminate | destruct H].
  Qed.
  Lemma assigned_is_topic t i : In t (itop s i) -> In t (ct_topics s).
  Proof.
    intros H. apply (ri_coherent s Hi) in H. apply (ri_tpresent s Hi).
    unfold tiss in H. destruct (aget Z.eqb t (ct_tissuers s)); [discriminate | destruct H].
  Qed.
  Lemma untrusted_no_topics i : ~ In i (ct_issuers s) -> itop s i = [].
  Proof.
    intros H. unfold itop. destruct (aget N.eqb i (ct_itopics s)) eqn:E; auto.
    exfalso. apply H. apply (ri_ipresent s Hi). congruence.
  Qed.
  Lemma nontopic_no_issuers t : ~ In t (ct_topics s) -> tiss s t = [].
  Proof.
    intros H. unfold tiss. destruct (aget Z.eqb t (ct_tissuers s)) eqn:E; auto.
    exfalso. apply H. apply (ri_tpresent s Hi). congruence.
  Qed.
End Inv.

(* ---------------- remove_first_or_same on duplicate-free lists ---------------- *)
Lemma rfos_In {A} (eqb : A -> A -> bool) (Heq : eqb_spec eqb) x (l : list A) : NoDup l ->
  forall y, In y (remove_first_or_same (eqb x) l) <-> (In y l /\ y <> x).
Proof.
  intros Hnd y. unfold remove_first_or_same. destruct (remove_first (eqb x) l) eqn:E.
  - apply (remove_first_In_nodup _ Heq x l l0 Hnd E).
  - apply (remove_first_none _ Heq) in E. split; [intros H; split; auto; intros ->; contradiction | tauto].
Qed.
Lemma rfos_NoDup {A} (eqb : A -> A -> bool) (Heq : eqb_spec eqb) x (l : list A) : NoDup l ->
  NoDup (remove_first_or_same (eqb x) l).
Proof.
  intros Hnd. unfold remove_first_or_same. destruct (remove_first (eqb x) l) eqn:E; auto.
  apply (remove_first_NoDup _ Heq x l l0 Hnd E).
Qed.

(* ---------------- the three folds ---------------- *)
Lemma add_issuer_spec i ts : forall m m', NoDup ts -> add_issuer_to_topics i ts m = Ok m' ->
  (forall t, aget Z.eqb t m' = if mem_z t ts then option_map (fun l => l ++ [i]) (aget Z.eqb t m) else aget Z.eqb t m)
  /\ (forall t, In t ts -> aget Z.eqb t m <> None).
Proof.
  induction ts as [|t0 r IH]; intros m m' Hnd H; cbn [add_issuer_to_topics] in H.
  - inversion H. subst. split; [intros t; reflexivity | intros t []].
  - inversion Hnd as [|? ? Hn0 Hr]. subst.
    apply bind_ok in H. destruct H as [is0 [E0 H]]. apply of_option_ok in E0.
    destruct (IH _ _ Hr H) as [IH1 IH2]. split.
    + intros t. rewrite IH1. cbn [mem_z existsb]. fold (mem_z t r).
      rewrite (aget_aset _ Z_eqb_spec). destruct (t =? t0) eqn:Et.
      * apply Z.eqb_eq in Et. subst t. cbn [orb].
        assert (mem_z t0 r = false) as -> by (apply mem_z_false; exact Hn0). rewrite E0. reflexivity.
      * cbn [orb]. reflexivity.
    + intros t [->|Ht]; [congruence|].
      specialize (IH2 t Ht). rewrite (aget_aset _ Z_eqb_spec) in IH2. destruct (t =? t0) eqn:Et; auto.
      apply Z.eqb_eq in Et. subst. congruence.
Qed.
Lemma add_issuer_succeeds i ts : forall m, (forall t, In t ts -> aget Z.eqb t m <> None) ->
  exists m', add_issuer_to_topics i ts m = Ok m'.
Proof.
  induction ts as [|t0 r IH]; intros m H; cbn [add_issuer_to_topics]; [eauto|].
  destruct (aget Z.eqb t0 m) as [is0|] eqn:E0; [|exfalso; apply (H t0); [left; reflexivity | exact E0]].
  cbn [of_option bind]. apply IH. intros t Ht. rewrite (aget_aset _ Z_eqb_spec).
  destruct (t =? t0); [discriminate | apply H; right; exact Ht].
Qed.

Lemma remove_issuer_spec i ts : forall m m', NoDup ts -> remove_issuer_from_topics i ts m = Ok m' ->
  (forall t, aget Z.eqb t m' = if mem_z t ts then option_map (remove_first_or_same (N.eqb i)) (aget Z.eqb t m) else aget Z.eqb t m)
  /\ (forall t, In t ts -> aget Z.eqb t m <> None).
Proof.
  induction ts as [|t0 r IH]; intros m m' Hnd H; cbn [remove_issuer_from_topics] in H.
  - inversion H. subst. split; [intros t; reflexivity | intros t []].
  - inversion Hnd as [|? ? Hn0 Hr]. subst.
    apply bind_ok in H. destruct H as [is0 [E0 H]]. apply of_option_ok in E0.
    destruct (IH _ _ Hr H) as [IH1 IH2].
    assert (Hm1 : forall t, aget Z.eqb t (match remove_first (N.eqb i) is0 with Some is' => aset Z.eqb t0 is' m | None => m end)
                  = if t =? t0 then Some (remove_first_or_same (N.eqb i) is0) else aget Z.eqb t m).
    { intros t. unfold remove_first_or_same. destruct (remove_first (N.eqb i) is0) eqn:Er.
      - rewrite (aget_aset _ Z_eqb_spec). reflexivity.
      - destruct (t =? t0) eqn:Et; auto. apply Z.eqb_eq in Et. subst. exact E0. }
    split.
    + intros t. rewrite IH1, Hm1. cbn [mem_z existsb]. fold (mem_z t r). destruct (t =? t0) eqn:Et.
      * apply Z.eqb_eq in Et. subst t. cbn [orb].
        assert (mem_z t0 r = false) as -> by (apply mem_z_false; exact Hn0). rewrite E0. reflexivity.
      * cbn [orb]. reflexivity.
    + intros t [->|Ht]; [congruence|].
      specialize (IH2 t Ht). rewrite Hm1 in IH2. destruct (t =? t0) eqn:Et; auto.
      apply Z.eqb_eq in Et. subst. congruence.
Qed.
Lemma remove_issuer_succeeds i ts : forall m, (forall t, In t ts -> aget Z.eqb t m <> None) ->
  exists m', remove_issuer_from_topics i ts m = Ok m'.
Proof.
  induction ts as [|t0 r IH]; intros m H; cbn [remove_issuer_from_topics]; [eauto|].
  destruct (aget Z.eqb t0 m) as [is0|] eqn:E0; [|exfalso; apply (H t0); [left; reflexivity | exact E0]].
  cbn [of_option bind]. apply IH. intros t Ht.
  destruct (remove_first (N.eqb i) is0).
  - rewrite (aget_aset _ Z_eqb_spec). destruct (t =? t0); [discriminate | apply H; right; exact Ht].
  - apply H. right. exact Ht.
Qed.

Lemma drop_topic_spec t issuers : forall m, NoDup issuers ->
  forall i, aget N.eqb i (drop_topic_of_issuers t issuers m) =
            if mem_a i issuers then option_map (remove_first_or_same (Z.eqb t)) (aget N.eqb i m) else aget N.eqb i m.
Proof.
  unfold drop_topic_of_issuers.
  induction issuers as [|i0 r IH]; intros m Hnd i; cbn [fold_left]; [reflexivity|].
  inversion Hnd as [|? ? Hn0 Hr]. subst.
  set (m1 := match aget N.eqb i0 m with
             | Some ts => match remove_first (Z.eqb t) ts with Some ts' => aset N.eqb i0 ts' m | None => m end
             | None => m end).
  assert (Hm1 : forall j, aget N.eqb j m1 = if N.eqb j i0 then option_map (remove_first_or_same (Z.eqb t)) (aget N.eqb i0 m) else aget N.eqb j m).
  { intros j. unfold m1, remove_first_or_same. destruct (aget N.eqb i0 m) as [ts|] eqn:E0; cbn [option_map].
    - destruct (remove_first (Z.eqb t) ts) eqn:Er.
      + rewrite (aget_aset _ N_eqb_spec). reflexivity.
      + destruct (N.eqb j i0) eqn:Ej; auto. apply N.eqb_eq in Ej. subst. exact E0.
    - destruct (N.eqb j i0) eqn:Ej; auto. apply N.eqb_eq in Ej. subst. exact E0. }
  rewrite (IH m1 Hr i), Hm1. cbn [mem_a existsb]. fold (mem_a i r). destruct (N.eqb i i0) eqn:Ei.
  - apply N.eqb_eq in Ei. subst i. cbn [orb].
    assert (mem_a i0 r = false) as -> by (apply mem_a_false; exact Hn0). reflexivity.
  - cbn [orb]. reflexivity.
Qed.

(* ---------------- preservation ---------------- *)
Lemma topics_arg_ok_spec c s ts : topics_arg_ok c s ts = true ->
  ts <> [] /\ NoDup ts /\ forall t, In t ts -> In t (ct_topics s).
Proof.
  unfold topics_arg_ok. rewrite !andb_true_iff. intros [[[H1 _] H3] H4].
  split; [destruct ts; [discriminate | congruence]|]. split; [apply nodupb_NoDup; exact H3|].
  intros t Ht. rewrite forallb_forall in H4. apply mem_z_In. apply H4. exact Ht.
Qed.

Lemma cti_inv_add_topic c s t s' : cti_inv s -> add_claim_topic c s t = Ok s' -> cti_inv s'.
Proof.
  intros Hi H. unfold add_claim_topic in H.
  destruct (c_max_topics c <=? zlen (ct_topics s)); [discriminate|].
  destruct (mem_z t (ct_topics s)) eqn:Em; [discriminate|]. apply mem_z_false in Em.
  inversion H. subst s'. clear H.
  assert (Hv : forall t', tiss {| ct_topics := ct_topics s ++ [t]; ct_issuers := ct_issuers s; ct_itopics := ct_itopics s;
                                  ct_tissuers := aset Z.eqb t [] (ct_tissuers s) |} t' = if t' =? t then [] else tiss s t').
  { intros t'. unfold tiss. cbn [ct_tissuers]. rewrite (aget_aset _ Z_eqb_spec). destruct (t' =? t); reflexivity. }
  constructor; cbn [ct_topics ct_issuers ct_itopics ct_tissuers].
  - apply NoDup_app_single; [apply (ri_topics_nodup s Hi) | exact Em].
  - apply (ri_issuers_nodup s Hi).
  - intros t'. rewrite In_app_single, (aget_aset _ Z_eqb_spec). destruct (t' =? t) eqn:Et.
    + apply Z.eqb_eq in Et. split; [discriminate | auto].
    + apply Z.eqb_neq in Et. rewrite (ri_tpresent s Hi). tauto.
  - apply (ri_ipresent s Hi).
  - intros t' i. rewrite Hv. unfold itop. cbn [ct_itopics]. fold (itop s i). destruct (t' =? t) eqn:Et.
    + apply Z.eqb_eq in Et. subst t'. split; [intros []|]. intros Hin. apply Em. eapply assigned_is_topic; eauto.
    + apply (ri_coherent s Hi).
  - intros t'. rewrite Hv. destruct (t' =? t); [constructor | apply (ri_tiss_nodup s Hi)].
  - apply (ri_itop_nodup s Hi).
Qed.

Lemma cti_inv_remove_topic s t s' : cti_inv s -> remove_claim_topic s t = Ok s' -> cti_inv s'.
Proof.
  intros Hi H. unfold remove_claim_topic in H.
  apply bind_ok in H. destruct H as [topics' [Er H]]. apply of_option_ok in Er. inversion H. subst s'. clear H.
  pose proof (ri_topics_nodup s Hi) as Hnd.
  pose proof (remove_first_In_nodup _ Z_eqb_spec t _ _ Hnd Er) as Hin'.
  pose proof (drop_topic_spec t (ct_issuers s) (ct_itopics s) (ri_issuers_nodup s Hi)) as Hd.
  assert (Hit : forall i, itop {| ct_topics := topics'; ct_issuers := ct_issuers s;
                                  ct_itopics := drop_topic_of_issuers t (ct_issuers s) (ct_itopics s);
                                  ct_tissuers := aremove Z.eqb t (ct_tissuers s) |} i
                          = remove_first_or_same (Z.eqb t) (itop s i)).
  { intros i. unfold itop. cbn [ct_itopics]. rewrite Hd. destruct (mem_a i (ct_issuers s)) eqn:Em.
    - destruct (aget N.eqb i (ct_itopics s)); reflexivity.
    - apply mem_a_false in Em. pose proof (untrusted_no_topics s Hi i Em) as E0. unfold itop in E0.
      destruct (aget N.eqb i (ct_itopics s)); [subst; reflexivity | reflexivity]. }
  assert (Hv : forall t', tiss {| ct_topics := topics'; ct_issuers := ct_issuers s;
                                  ct_itopics := drop_topic_of_issuers t (ct_issuers s) (ct_itopics s);
                                  ct_tissuers := aremove Z.eqb t (ct_tissuers s) |} t' = if t' =? t then [] else tiss s t').
  { intros t'. unfold tiss. cbn [ct_tissuers]. rewrite (aget_aremove _ Z_eqb_spec). destruct (t' =? t); reflexivity. }
  constructor; cbn [ct_topics ct_issuers ct_itopics ct_tissuers].
  - apply (remove_first_NoDup _ Z_eqb_spec t _ _ Hnd Er).
  - apply (ri_issuers_nodup s Hi).
  - intros t'. rewrite Hin', (aget_aremove _ Z_eqb_spec). destruct (t' =? t) eqn:Et.
    + apply Z.eqb_eq in Et. split; [intros [_ Hn]; contradiction | congruence].
    + apply Z.eqb_neq in Et. rewrite (ri_tpresent s Hi). tauto.
  - intros i. rewrite Hd, (ri_ipresent s Hi). destruct (mem_a i (ct_issuers s)); [|tauto].
    destruct (aget N.eqb i (ct_itopics s)); cbn; intuition congruence.
  - intros t' i. rewrite Hv, Hit, (rfos_In _ Z_eqb_spec t _ (ri_itop_nodup s Hi i)).
    destruct (t' =? t) eqn:Et.
    + apply Z.eqb_eq in Et. subst. split; [intros [] | intros [_ Hn]; congruence].
    + apply Z.eqb_neq in Et. rewrite (ri_coherent s Hi). tauto.
  - intros t'. rewrite Hv. destruct (t' =? t); [constructor | apply (ri_tiss_nodup s Hi)].
  - intros i. rewrite Hit. apply rfos_NoDup; [exact Z_eqb_spec | apply (ri_itop_nodup s Hi)].
Qed.

Lemma cti_inv_add_issuer c s i ts s' : cti_inv s -> add_trusted_issuer c s i ts = Ok s' -> cti_inv s'.
Proof.
  intros Hi H. unfold add_trusted_issuer in H.
  destruct (topics_arg_ok c s ts) eqn:Ea; cbn [negb] in H; [|discriminate].
  destruct (c_max_issuers c <=? zlen (ct_issuers s)); [discriminate|].
  destruct (mem_a i (ct_issuers s)) eqn:Em; [discriminate|]. apply mem_a_false in Em.
  apply bind_ok in H. destruct H as [m [Ef H]]. inversion H. subst s'. clear H.
  destruct (topics_arg_ok_spec _ _ _ Ea) as [Hne [Hnd Hsub]].
  destruct (add_issuer_spec i ts _ _ Hnd Ef) as [Hm _].
  set (s1 := {| ct_topics := ct_topics s; ct_issuers := ct_issuers s ++ [i];
                ct_itopics := aset N.eqb i ts (ct_itopics s); ct_tissuers := m |}).
  assert (Hv : forall t, tiss s1 t = if mem_z t ts then tiss s t ++ [i] else tiss s t).
  { intros t. unfold tiss. cbn [ct_tissuers s1]. rewrite Hm. destruct (mem_z t ts) eqn:Et; auto.
    apply mem_z_In in Et. apply Hsub in Et. apply (ri_tpresent s Hi) in Et.
    destruct (aget Z.eqb t (ct_tissuers s)); [reflexivity | congruence]. }
  assert (Hit : forall j, itop s1 j = if N.eqb j i then ts else itop s j).
  { intros j. unfold itop. cbn [ct_itopics s1]. rewrite (aget_aset _ N_eqb_spec). destruct (N.eqb j i); reflexivity. }
  assert (Hni : forall t, ~ In i (tiss s t)) by (intros t Hx; apply Em; eapply listed_is_trusted; eauto).
  constructor.
  - apply (ri_topics_nodup s Hi).
  - cbn [ct_issuers s1]. apply NoDup_app_single; [apply (ri_issuers_nodup s Hi) | exact Em].
  - intros t. cbn [ct_topics ct_tissuers s1]. rewrite Hm, (ri_tpresent s Hi).
    destruct (mem_z t ts); [|tauto]. destruct (aget Z.eqb t (ct_tissuers s)); cbn; intuition congruence.
  - intros j. cbn [ct_issuers ct_itopics s1]. rewrite In_app_single, (aget_aset _ N_eqb_spec). destruct (N.eqb j i) eqn:Ej.
    + apply N.eqb_eq in Ej. split; [discriminate | auto].
    + apply N.eqb_neq in Ej. rewrite (ri_ipresent s Hi). tauto.
  - intros t j. rewrite Hv, Hit. destruct (N.eqb j i) eqn:Ej.
    + apply N.eqb_eq in Ej. subst j. destruct (mem_z t ts) eqn:Et.
      * apply mem_z_In in Et. rewrite In_app_single. tauto.
      * apply mem_z_false in Et. split; [intros Hx; exfalso; apply (Hni t Hx) | tauto].
    + apply N.eqb_neq in Ej. destruct (mem_z t ts).
      * rewrite In_app_single, (ri_coherent s Hi). tauto.
      * apply (ri_coherent s Hi).
  - intros t. rewrite Hv. destruct (mem_z t ts).
    + apply NoDup_app_single; [apply (ri_tiss_nodup s Hi) | apply Hni].
    + apply (ri_tiss_nodup s Hi).
  - intros j. rewrite Hit. destruct (N.eqb j i); [exact Hnd | apply (ri_itop_nodup s Hi)].
Qed.

Lemma cti_inv_remove_issuer s i s' : cti_inv s -> remove_trusted_issuer s i = Ok s' -> cti_inv s'.
Proof.
  intros Hi H. unfold remove_trusted_issuer in H.
  apply bind_ok in H. destruct H as [issuers' [Er H]]. apply of_option_ok in Er.
  apply bind_ok in H. destruct H as [its [Et H]]. unfold get_trusted_issuer_claim_topics in Et. apply of_option_ok in Et.
  apply bind_ok in H. destruct H as [m [Ef H]]. inversion H. subst s'. clear H.
  assert (Hits : itop s i = its) by (unfold itop; rewrite Et; reflexivity).
  assert (Hnd : NoDup its) by (rewrite <- Hits; apply (ri_itop_nodup s Hi)).
  destruct (remove_issuer_spec i its _ _ Hnd Ef) as [Hm _].
  pose proof (remove_first_In_nodup _ N_eqb_spec i _ _ (ri_issuers_nodup s Hi) Er) as Hin'.
  set (s1 := {| ct_topics := ct_topics s; ct_issuers := issuers';
                ct_itopics := aremove N.eqb i (ct_itopics s); ct_tissuers := m |}).
  assert (Hv : forall t, tiss s1 t = if mem_z t its then remove_first_or_same (N.eqb i) (tiss s t) else tiss s t).
  { intros t. unfold tiss. cbn [ct_tissuers s1]. rewrite Hm. destruct (mem_z t its); auto.
    destruct (aget Z.eqb t (ct_tissuers s)); reflexivity. }
  assert (Hit : forall j, itop s1 j = if N.eqb j i then [] else itop s j).
  { intros j. unfold itop. cbn [ct_itopics s1]. rewrite (aget_aremove _ N_eqb_spec). destruct (N.eqb j i); reflexivity. }
  constructor.
  - apply (ri_topics_nodup s Hi).
  - cbn [ct_issuers s1]. apply (remove_first_NoDup _ N_eqb_spec i _ _ (ri_issuers_nodup s Hi) Er).
  - intros t. cbn [ct_topics ct_tissuers s1]. rewrite Hm, (ri_tpresent s Hi).
    destruct (mem_z t its); [|tauto]. destruct (aget Z.eqb t (ct_tissuers s)); cbn; intuition congruence.
  - intros j. cbn [ct_issuers ct_itopics s1]. rewrite Hin', (aget_aremove _ N_eqb_spec). destruct (N.eqb j i) eqn:Ej.
    + apply N.eqb_eq in Ej. split; [intros [_ Hn]; contradiction | congruence].
    + apply N.eqb_neq in Ej. rewrite (ri_ipresent s Hi). tauto.
  - intros t j. rewrite Hv, Hit. destruct (N.eqb j i) eqn:Ej.
    + apply N.eqb_eq in Ej. subst j. split; [|intros []]. destruct (mem_z t its) eqn:Em.
      * rewrite (rfos_In _ N_eqb_spec i _ (ri_tiss_nodup s Hi t)). intros [_ Hn]. congruence.
      * apply mem_z_false in Em. rewrite (ri_coherent s Hi), Hits. exact Em.
    + apply N.eqb_neq in Ej. destruct (mem_z t its).
      * rewrite (rfos_In _ N_eqb_spec i _ (ri_tiss_nodup s Hi t)), (ri_coherent s Hi). tauto.
      * apply (ri_coherent s Hi).
  - intros t. rewrite Hv. destruct (mem_z t its).
    + apply rfos_NoDup; [exact N_eqb_spec | apply (ri_tiss_nodup s Hi)].
    + apply (ri_tiss_nodup s Hi).
  - intros j. rewrite Hit. destruct (N.eqb j i); [constructor | apply (ri_itop_nodup s Hi)].
Qed.

Lemma NoDup_filter {A} (f : A -> bool) l : NoDup l -> NoDup (filter f l).
Proof.
  induction l as [|x r IH]; cbn; intros H; [constructor|]. inversion H. subst.
  destruct (f x); [constructor; [rewrite filter_In; tauto | auto] | auto].
Qed.

Lemma cti_inv_update_issuer c s i ts s' : cti_inv s -> update_issuer_claim_topics c s i ts = Ok s' -> cti_inv s'.
Proof.
  intros Hi H. unfold update_issuer_claim_topics in H.
  destruct (topics_arg_ok c s ts) eqn:Ea; cbn [negb] in H; [|discriminate].
  destruct (is_trusted_issuer s i) eqn:Etr; cbn [negb] in H; [|discriminate].
  apply bind_ok in H. destruct H as [old [Eo H]]. unfold get_trusted_issuer_claim_topics in Eo. apply of_option_ok in Eo.
  apply bind_ok in H. destruct H as [m1 [Ef1 H]].
  apply bind_ok in H. destruct H as [m2 [Ef2 H]]. inversion H. subst s'. clear H.
  destruct (topics_arg_ok_spec _ _ _ Ea) as [Hne [Hnd Hsub]].
  assert (Hold : itop s i = old) by (unfold itop; rewrite Eo; reflexivity).
  assert (Hndo : NoDup old) by (rewrite <- Hold; apply (ri_itop_nodup s Hi)).
  set (to_remove := filter (fun o => negb (mem_z o ts)) old) in *.
  set (to_add := filter (fun n => negb (mem_z n old)) ts) in *.
  destruct (remove_issuer_spec i to_remove _ _ (NoDup_filter _ _ Hndo) Ef1) as [Hm1 _].
  destruct (add_issuer_spec i to_add _ _ (NoDup_filter _ _ Hnd) Ef2) as [Hm2 _].
  assert (Hrm : forall t, mem_z t to_remove = mem_z t old && negb (mem_z t ts)).
  { intros t. apply eq_true_iff_eq. unfold to_remove. rewrite mem_z_In, filter_In, andb_true_iff, mem_z_In. tauto. }
  assert (Had : forall t, mem_z t to_add = mem_z t ts && negb (mem_z t old)).
  { intros t. apply eq_true_iff_eq. unfold to_add. rewrite mem_z_In, filter_In, andb_true_iff, mem_z_In. tauto. }
  set (s1 := {| ct_topics := ct_topics s; ct_issuers := ct_issuers s;
                ct_itopics := aset N.eqb i ts (ct_itopics s); ct_tissuers := m2 |}).
  assert (Hv : forall t, tiss s1 t =
            if mem_z t ts && negb (mem_z t old) then tiss s t ++ [i]
            else if mem_z t old && negb (mem_z t ts) then remove_first_or_same (N.eqb i) (tiss s t) else tiss s t).
  { intros t. unfold tiss. cbn [ct_tissuers s1]. rewrite Hm2, Hm1, Had, Hrm.
    destruct (mem_z t ts) eqn:E1; destruct (mem_z t old) eqn:E2; cbn [andb negb]; auto.
    - apply mem_z_In in E1. apply Hsub in E1. apply (ri_tpresent s Hi) in E1.
      destruct (aget Z.eqb t (ct_tissuers s)); [reflexivity | congruence].
    - destruct (aget Z.eqb t (ct_tissuers s)); reflexivity. }
  assert (Hit : forall j, itop s1 j = if N.eqb j i then ts else itop s j).
  { intros j. unfold itop. cbn [ct_itopics s1]. rewrite (aget_aset _ N_eqb_spec). destruct (N.eqb j i); reflexivity. }
  assert (Hio : forall t, In i (tiss s t) <-> In t old) by (intros t; rewrite (ri_coherent s Hi), Hold; tauto).
  unfold is_trusted_issuer in Etr. apply mem_a_In in Etr.
  constructor.
  - apply (ri_topics_nodup s Hi).
  - apply (ri_issuers_nodup s Hi).
  - intros t. cbn [ct_topics ct_tissuers s1]. rewrite Hm2, Hm1, (ri_tpresent s Hi).
    destruct (mem_z t to_add); destruct (mem_z t to_remove); destruct (aget Z.eqb t (ct_tissuers s)); cbn; intuition congruence.
  - intros j. cbn [ct_issuers ct_itopics s1]. rewrite (aget_aset _ N_eqb_spec). destruct (N.eqb j i) eqn:Ej.
    + apply N.eqb_eq in Ej. subst j. split; [discriminate | intros _; exact Etr].
    + apply (ri_ipresent s Hi).
  - intros t j. rewrite Hv, Hit. destruct (N.eqb j i) eqn:Ej.
    + apply N.eqb_eq in Ej. subst j.
      destruct (mem_z t ts) eqn:E1; destruct (mem_z t old) eqn:E2; cbn [andb negb].
      * rewrite Hio. apply mem_z_In in E1. apply mem_z_In in E2. tauto.
      * rewrite In_app_single. apply mem_z_In in E1. tauto.
      * rewrite (rfos_In _ N_eqb_spec i _ (ri_tiss_nodup s Hi t)). apply mem_z_false in E1. tauto.
      * rewrite Hio. apply mem_z_false in E1. apply mem_z_false in E2. tauto.
    + apply N.eqb_neq in Ej.
      destruct (mem_z t ts && negb (mem_z t old)); [|destruct (mem_z t old && negb (mem_z t ts))].
      * rewrite In_app_single, (ri_coherent s Hi). tauto.
      * rewrite (rfos_In _ N_eqb_spec i _ (ri_tiss_nodup s Hi t)), (ri_coherent s Hi). tauto.
      * apply (ri_coherent s Hi).
  - intros t. rewrite Hv.
    destruct (mem_z t ts) eqn:E1; destruct (mem_z t old) eqn:E2; cbn [andb negb]; try apply (ri_tiss_nodup s Hi).
    + apply NoDup_app_single; [apply (ri_tiss_nodup s Hi)|]. rewrite Hio. apply mem_z_false. exact E2.
    + apply rfos_NoDup; [exact N_eqb_spec | apply (ri_tiss_nodup s Hi)].
  - intros j. rewrite Hit. destruct (N.eqb j i); [exact Hnd | apply (ri_itop_nodup s Hi)].
Qed.

(* ---------------- what the verifier is handed ---------------- *)
Definition ssorted {V} (m : list (Z * V)) : Prop := StronglySorted (fun a b => fst a < fst b) m.

Lemma map_set_sorted {V} k (v : V) m : ssorted m ->
  ssorted (map_set k v m) /\ forall x, In x (map_set k v m) <-> (x = (k, v) \/ (In x m /\ fst x <> k)).
Proof.
  unfold ssorted. induction m as [|[k0 v0] r IH]; intros Hs; cbn [map_set].
  - split; [repeat constructor|]. intros x. cbn. split; [intros [<-|[]]; auto | intros [->|[[] _]]; auto].
  - apply StronglySorted_inv in Hs. destruct Hs as [Hr Hall]. rewrite Forall_forall in Hall. cbn [fst] in Hall.
    destruct (k <? k0) eqn:E1; [|destruct (k =? k0) eqn:E2].
    + apply Z.ltb_lt in E1. split.
      * constructor; [constructor; [exact Hr | apply Forall_forall; exact Hall]|].
        apply Forall_forall. intros x [<-|Hx]; cbn [fst]; [exact E1 | specialize (Hall x Hx); lia].
      * intros x. cbn [In]. split; [intros [<-|[<-|Hx]]; auto|].
        -- right. split; [left; reflexivity | cbn; lia].
        -- right. split; [right; exact Hx | specialize (Hall x Hx); lia].
        -- intros [->|[Hx _]]; auto.
    + apply Z.eqb_eq in E2. subst k0. split.
      * constructor; [exact Hr | apply Forall_forall; exact Hall].
      * intros x. cbn [In]. split.
        -- intros [<-|Hx]; auto. right. split; [right; exact Hx | specialize (Hall x Hx); lia].
        -- intros [->|[[<-|Hx] Hn]]; auto. cbn in Hn. congruence.
    + apply Z.ltb_ge in E1. apply Z.eqb_neq in E2. destruct (IH Hr) as [IH1 IH2]. split.
      * constructor; [exact IH1|]. apply Forall_forall. intros x Hx. apply IH2 in Hx. cbn [fst].
        destruct Hx as [->|[Hx _]]; [cbn; lia | apply Hall; exact Hx].
      * intros x. cbn [In]. rewrite IH2. split.
        -- intros [<-|[->|[Hx Hn]]]; [right; split; [left; reflexivity | cbn; lia] | left; reflexivity | right; split; [right; exact Hx | exact Hn]].
        -- intros [->|[[<-|Hx] Hn]]; [right; left; reflexivity | left; reflexivity | right; right; split; [exact Hx | exact Hn]].
Qed.

Lemma topics_and_issuers_from_spec s ts : forall acc m, ssorted acc ->
  topics_and_issuers_from s ts acc = Ok m ->
  ssorted m /\
  forall t l, In (t, l) m <-> ((In t ts /\ aget Z.eqb t (ct_tissuers s) = Some l) \/ (~ In t ts /\ In (t, l) acc)).
Proof.
  induction ts as [|t0 r IH]; intros acc m Hs H; cbn [topics_and_issuers_from] in H.
  - inversion H. subst. split; auto. intros t l. cbn. tauto.
  - apply bind_ok in H. destruct H as [is0 [E0 H]]. unfold get_claim_topic_issuers in E0. apply of_option_ok in E0.
    destruct (map_set_sorted t0 is0 acc Hs) as [Hs1 Hin1].
    destruct (IH _ _ Hs1 H) as [IH1 IH2]. split; auto.
    intros t l. rewrite IH2, Hin1. cbn [In fst]. split.
    + intros [[Hr Hg]|[Hn [Hx|[Hx Hne]]]].
      * left. auto.
      * inversion Hx. subst. left. auto.
      * right. split; auto. intros [Hy|Hy]; [congruence | contradiction].
    + intros [[[<-|Hr] Hg]|[Hn Hx]].
      * destruct (in_dec Z.eq_dec t0 r) as [Hr|Hr]; [left; auto|]. right. split; auto. left. congruence.
      * left. auto.
      * right. split; [tauto|]. right. split; [exact Hx|]. intros ->. apply Hn. left. reflexivity.
Qed.
Lemma map_set_get {V} k (v : V) m k' :
  aget Z.eqb k' (map_set k v m) = if k' =? k then Some v else aget Z.eqb k' m.
Proof.
  induction m as [|[k0 v0] r IH]; cbn [map_set aget].
  - destruct (k' =? k); reflexivity.
  - destruct (k <? k0) eqn:E1; [cbn [aget]; destruct (k' =? k); reflexivity|].
    destruct (k =? k0) eqn:E2.
    + apply Z.eqb_eq in E2. subst k0. cbn [aget]. destruct (k' =? k); reflexivity.
    + cbn [aget]. rewrite IH. destruct (k' =? k0) eqn:E3; auto.
      apply Z.eqb_eq in E3. subst k0. destruct (k' =? k) eqn:E4; auto. apply Z.eqb_eq in E4. subst. rewrite Z.eqb_refl in E2. discriminate.
Qed.
Lemma topics_and_issuers_from_get s ts : forall acc m, topics_and_issuers_from s ts acc = Ok m ->
  forall t, aget Z.eqb t m = if mem_z t ts then aget Z.eqb t (ct_tissuers s) else aget Z.eqb t acc.
Proof.
  induction ts as [|t0 r IH]; intros acc m H t; cbn [topics_and_issuers_from] in H.
  - inversion H. reflexivity.
  - apply bind_ok in H. destruct H as [is0 [E0 H]]. unfold get_claim_topic_issuers in E0. apply of_option_ok in E0.
    rewrite (IH _ _ H t), map_set_get. cbn [mem_z existsb]. fold (mem_z t r).
    destruct (mem_z t r); [rewrite orb_true_r; reflexivity|]. rewrite orb_false_r.
    destruct (t =? t0) eqn:Et; auto. apply Z.eqb_eq in Et. subst. auto.
Qed.

Lemma topics_and_issuers_from_succeeds s ts : forall acc,
  (forall t, In t ts -> aget Z.eqb t (ct_tissuers s) <> None) ->
  exists m, topics_and_issuers_from s ts acc = Ok m.
Proof.
  induction ts as [|t0 r IH]; intros acc H; cbn [topics_and_issuers_from]; [eauto|].
  unfold get_claim_topic_issuers. destruct (aget Z.eqb t0 (ct_tissuers s)) eqn:E; [|exfalso; apply (H t0); [left; reflexivity | exact E]].
  cbn [of_option bind]. apply IH. intros t Ht. apply H. right. exact Ht.
Qed.

Lemma has_claim_topic_true s i t : has_claim_topic s i t = Ok true <-> In t (itop s i).
Proof.
  unfold has_claim_topic, get_trusted_issuer_claim_topics, itop.
  destruct (aget N.eqb i (ct_itopics s)) as [l|]; cbn [of_option bind].
  - split; [intros H; inversion H; apply mem_z_In; auto | intros H; apply mem_z_In in H; rewrite H; reflexivity].
  - split; [discriminate | intros []].
Qed.

(* In every state satisfying the invariant the map exists; its entries are exactly the required
   topics with their per-topic issuer lists; and the issuers listed for a topic are exactly the
   trusted issuers whose claim topics include it *)
Theorem topics_and_issuers_reading s : cti_inv s ->
  exists m, get_claim_topics_and_issuers s = Ok m /\
    (forall t l, In (t, l) m <-> (In t (ct_topics s) /\ get_claim_topic_issuers s t = Ok l)) /\
    (forall t l, In (t, l) m ->
       forall i, In i l <-> (is_trusted_issuer s i = true /\ has_claim_topic s i t = Ok true)).
Proof.
  intros Hi. unfold get_claim_topics_and_issuers.
  destruct (topics_and_issuers_from_succeeds s (ct_topics s) []) as [m E].
  { intros t Ht. apply (ri_tpresent s Hi). exact Ht. }
  exists m. split; auto.
  destruct (topics_and_issuers_from_spec s _ _ _ (SSorted_nil _) E) as [_ Hm].
  assert (H1 : forall t l, In (t, l) m <-> In t (ct_topics s) /\ get_claim_topic_issuers s t = Ok l).
  { intros t l. rewrite Hm. unfold get_claim_topic_issuers. rewrite of_option_ok. cbn [In]. tauto. }
  split; auto.
  intros t l Hin i. apply H1 in Hin. destruct Hin as [Ht Hg].
  unfold get_claim_topic_issuers in Hg. apply of_option_ok in Hg.
  assert (Hl : tiss s t = l) by (unfold tiss; rewrite Hg; reflexivity).
  rewrite <- Hl, (ri_coherent s Hi), has_claim_topic_true. unfold is_trusted_issuer. rewrite mem_a_In.
  split; [|tauto]. intros Hx. split; auto.
  apply (ri_ipresent s Hi). unfold itop in Hx. destruct (aget N.eqb i (ct_itopics s)); [discriminate | destruct Hx].
Qed.
