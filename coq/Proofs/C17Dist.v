(* C17: the distributor state machine (Model.Merkle.step), for an arbitrary hash.
   Claimed flags only ever go from false to true; an index is marked only by a claim with a
   proof that verifies against the root stored at that moment (or by the explicit
   set_claimed entry point); a marked index refuses every later claim, whatever happens in
   between (root changes included); a failing call changes nothing; the airdrop pays the
   leaf's amount exactly when it marks. *)
From SC Require Import Lib.Prelude Lib.Int Lib.Host Model.Merkle Proofs.Merkle.

Section Dist.
  Variable D : Type.
  Variable deqb : D -> D -> bool.
  Variable H : D -> D -> D.
  Variable gtb : D -> D -> bool.
  Variable LH : N -> addr -> Z -> D.

  Notation step := (step deqb H gtb LH).
  Notation run := (run deqb H gtb LH).
  Notation state := (state D).
  Notation call := (call D).

  (* the index a call tries to claim *)
  Definition claim_index (c : call) : option N :=
    match c with
    | ClaimS i _ _ _ | ClaimI i _ _ _ | Airdrop i _ _ _ => Some i
    | _ => None
    end.

  (* "the proof of this claim verifies against root r" *)
  Definition claim_valid (r : D) (c : call) : Prop :=
    match c with
    | ClaimS i a m p | Airdrop i a m p => verify deqb H gtb p r (LH i a m) = true
    | ClaimI i a m p => verify_with_index deqb H p r (LH i a m) (Z.of_N i) = Ok true
    | _ => False
    end.

  Lemma run_app s cs1 cs2 : run s (cs1 ++ cs2) = run (run s cs1) cs2.
  Proof. unfold Merkle.run. apply fold_left_app. Qed.
  Lemma run_cons s c cs : run s (c :: cs) = run (fst (step s c)) cs.
  Proof. reflexivity. Qed.

  (* ---- characterisation of the three claim entry points ---- *)
  Lemma claim_sorted_ok s i a m p s' :
    claim_sorted deqb H gtb LH s i a m p = Ok s' <->
    exists r, root s = Some r /\ is_claimed s i = false /\
              verify deqb H gtb p r (LH i a m) = true /\ s' = set_claimed s i.
  Proof.
    unfold claim_sorted. destruct (root s) as [r|]; cbn [of_option bind].
    - destruct (is_claimed s i) eqn:Ec.
      + split; [discriminate|]. intros (r' & _ & E & _). discriminate.
      + destruct (verify deqb H gtb p r (LH i a m)) eqn:Ev.
        * split; [intros E; inversion E; eauto 6|]. intros (r' & E1 & _ & _ & ->). reflexivity.
        * split; [discriminate|]. intros (r' & E1 & _ & E2 & _). inversion E1; subst. congruence.
    - split; [discriminate|]. intros (r' & E & _). discriminate.
  Qed.

  Lemma claim_indexed_ok s i a m p s' :
    claim_indexed deqb H LH s i a m p = Ok s' <->
    exists r, root s = Some r /\ is_claimed s i = false /\
              verify_with_index deqb H p r (LH i a m) (Z.of_N i) = Ok true /\ s' = set_claimed s i.
  Proof.
    unfold claim_indexed. destruct (root s) as [r|]; cbn [of_option bind].
    - destruct (is_claimed s i) eqn:Ec.
      + split; [discriminate|]. intros (r' & _ & E & _). discriminate.
      + destruct (verify_with_index deqb H p r (LH i a m) (Z.of_N i)) as [[|]|] eqn:Ev; cbn [bind].
        * split; [intros E; inversion E; eauto 6|]. intros (r' & E1 & _ & _ & ->). reflexivity.
        * split; [discriminate|]. intros (r' & E1 & _ & E2 & _). inversion E1; subst. congruence.
        * split; [discriminate|]. intros (r' & E1 & _ & E2 & _). inversion E1; subst. congruence.
    - split; [discriminate|]. intros (r' & E & _). discriminate.
  Qed.

  Lemma transfer_ok (s : state) from to m (s' : state) :
    transfer s from to m = Ok s' ->
    0 <= m <= balance s from /\ root s' = root s /\ claimed s' = claimed s /\ self s' = self s.
  Proof.
    unfold transfer, guard. destruct (0 <=? m) eqn:E1; cbn [bind]; [|discriminate].
    destruct (m <=? balance s from) eqn:E2; cbn [bind]; [|discriminate].
    intros E. inversion E; subst. cbn. repeat split; lia.
  Qed.

  (* ---- a failing call changes nothing; state changes only through a successful call ---- *)
  Theorem fail_unchanged : forall s c, snd (step s c) = Fail -> fst (step s c) = s.
  Proof.
    intros s c. destruct c; cbn [Merkle.step fst snd]; try discriminate; try reflexivity;
      unfold unit_call;
      match goal with |- context [match ?x with Ok _ => _ | Fail => _ end] => destruct x end;
      cbn; try discriminate; reflexivity.
  Qed.

  (* ---- effect of each call on the claimed flags ---- *)
  Lemma is_claimed_set (s : state) i j : is_claimed (set_claimed s i) j = N.eqb j i || is_claimed s j.
  Proof. reflexivity. Qed.

  Lemma step_claimed : forall s c j,
    is_claimed (fst (step s c)) j = true ->
    is_claimed s j = true \/
    (snd (step s c) = Ok None /\ is_claimed s j = false /\
     (c = SetClaimed j \/
      (claim_index c = Some j /\ exists r, root s = Some r /\ claim_valid r c))).
  Proof.
    intros s c j. destruct (is_claimed s j) eqn:Ej; [auto|]. intros Hc. right.
    destruct c as [p r v|p r v i|r|i|i a m p|i a m p|i a m p|n]; cbn [Merkle.step fst snd] in *; try congruence.
    - (* SetRoot *) change (is_claimed s j = true) in Hc. congruence.
    - (* SetClaimed *) rewrite is_claimed_set, Ej, orb_false_r in Hc. apply N.eqb_eq in Hc. subst. auto.
    - unfold unit_call in *. destruct (claim_sorted deqb H gtb LH s i a m p) as [s'|] eqn:E; cbn [fst snd] in *; [|congruence].
      apply claim_sorted_ok in E. destruct E as (r & Hr & Hci & Hv & ->).
      rewrite is_claimed_set, Ej, orb_false_r in Hc. apply N.eqb_eq in Hc. subst.
      repeat split; auto. right. cbn. eauto.
    - unfold unit_call in *. destruct (claim_indexed deqb H LH s i a m p) as [s'|] eqn:E; cbn [fst snd] in *; [|congruence].
      apply claim_indexed_ok in E. destruct E as (r & Hr & Hci & Hv & ->).
      rewrite is_claimed_set, Ej, orb_false_r in Hc. apply N.eqb_eq in Hc. subst.
      repeat split; auto. right. cbn. eauto.
    - unfold unit_call, airdrop_claim in *.
      destruct (claim_sorted deqb H gtb LH s i a m p) as [s1|] eqn:E; cbn [bind] in *; [|cbn in Hc; congruence].
      destruct (transfer s1 (self s1) a m) as [s2|] eqn:Et; cbn [fst snd] in *; [|congruence].
      apply claim_sorted_ok in E. destruct E as (r & Hr & Hci & Hv & ->).
      apply transfer_ok in Et. destruct Et as (_ & _ & Hcl & _).
      unfold is_claimed in Hc. rewrite Hcl in Hc. fold (is_claimed (set_claimed s i) j) in Hc.
      rewrite is_claimed_set, Ej, orb_false_r in Hc. apply N.eqb_eq in Hc. subst.
      repeat split; auto. right. cbn. eauto.
  Qed.

  Lemma step_claimed_mono : forall s c j, is_claimed s j = true -> is_claimed (fst (step s c)) j = true.
  Proof.
    intros s c j Hj.
    destruct c as [p r v|p r v i|r|i|i a m p|i a m p|i a m p|n]; cbn [Merkle.step fst snd]; auto.
    - rewrite is_claimed_set, Hj. apply orb_true_r.
    - unfold unit_call. destruct (claim_sorted deqb H gtb LH s i a m p) as [s'|] eqn:E; cbn [fst]; auto.
      apply claim_sorted_ok in E. destruct E as (r & _ & _ & _ & ->). rewrite is_claimed_set, Hj. apply orb_true_r.
    - unfold unit_call. destruct (claim_indexed deqb H LH s i a m p) as [s'|] eqn:E; cbn [fst]; auto.
      apply claim_indexed_ok in E. destruct E as (r & _ & _ & _ & ->). rewrite is_claimed_set, Hj. apply orb_true_r.
    - unfold unit_call, airdrop_claim.
      destruct (claim_sorted deqb H gtb LH s i a m p) as [s1|] eqn:E; cbn [bind]; auto.
      destruct (transfer s1 (self s1) a m) as [s2|] eqn:Et; cbn [fst]; auto.
      apply claim_sorted_ok in E. destruct E as (r & _ & _ & _ & ->).
      apply transfer_ok in Et. destruct Et as (_ & _ & Hcl & _).
      unfold is_claimed. rewrite Hcl. fold (is_claimed (set_claimed s i) j).
      rewrite is_claimed_set, Hj. apply orb_true_r.
  Qed.

  (* claimed forever: over every call sequence *)
  Theorem claimed_forever : forall cs s j, is_claimed s j = true -> is_claimed (run s cs) j = true.
  Proof.
    induction cs as [|c cs IH]; intros s j Hj; [exact Hj|].
    rewrite run_cons. apply IH. apply step_claimed_mono. exact Hj.
  Qed.

  (* a claim for a claimed index fails (and, failing, changes nothing) *)
  Lemma claim_of_claimed_fails : forall s c j,
    claim_index c = Some j -> is_claimed s j = true -> snd (step s c) = Fail.
  Proof.
    intros s c j Hc Hj.
    destruct c as [p r v|p r v i|r|i|i a m p|i a m p|i a m p|n]; cbn in Hc; try discriminate;
      inversion Hc; subst; cbn [Merkle.step snd]; unfold unit_call.
    - destruct (claim_sorted deqb H gtb LH s j a m p) as [s'|] eqn:E; [|reflexivity].
      apply claim_sorted_ok in E. destruct E as (r & _ & E & _). congruence.
    - destruct (claim_indexed deqb H LH s j a m p) as [s'|] eqn:E; [|reflexivity].
      apply claim_indexed_ok in E. destruct E as (r & _ & E & _). congruence.
    - unfold airdrop_claim. destruct (claim_sorted deqb H gtb LH s j a m p) as [s'|] eqn:E; cbn [bind]; [|reflexivity].
      apply claim_sorted_ok in E. destruct E as (r & _ & E & _). congruence.
  Qed.

  (* a successful claim marks its index *)
  Lemma claim_ok_marks : forall s c j,
    claim_index c = Some j -> snd (step s c) = Ok None -> is_claimed (fst (step s c)) j = true.
  Proof.
    intros s c j Hc Hok.
    destruct c as [p r v|p r v i|r|i|i a m p|i a m p|i a m p|n]; cbn in Hc; try discriminate;
      inversion Hc; subst; cbn [Merkle.step fst snd] in *; unfold unit_call in *.
    - destruct (claim_sorted deqb H gtb LH s j a m p) as [s'|] eqn:E; cbn [fst snd] in *; [|discriminate].
      apply claim_sorted_ok in E. destruct E as (r & _ & _ & _ & ->). rewrite is_claimed_set, N.eqb_refl. reflexivity.
    - destruct (claim_indexed deqb H LH s j a m p) as [s'|] eqn:E; cbn [fst snd] in *; [|discriminate].
      apply claim_indexed_ok in E. destruct E as (r & _ & _ & _ & ->). rewrite is_claimed_set, N.eqb_refl. reflexivity.
    - unfold airdrop_claim in *. destruct (claim_sorted deqb H gtb LH s j a m p) as [s1|] eqn:E; cbn [bind] in *; [|discriminate].
      destruct (transfer s1 (self s1) a m) as [s2|] eqn:Et; cbn [fst snd] in *; [|discriminate].
      apply claim_sorted_ok in E. destruct E as (r & _ & _ & _ & ->).
      apply transfer_ok in Et. destruct Et as (_ & _ & Hcl & _).
      unfold is_claimed. rewrite Hcl. fold (is_claimed (set_claimed s j) j).
      rewrite is_claimed_set, N.eqb_refl. reflexivity.
  Qed.

  (* SINGLE CLAIM: once a claim for index j has succeeded, every claim for j - by any entry
     point, with any data and proof, after any sequence of calls (root changes included) - fails *)
  Theorem claim_once : forall s c j cs c',
    claim_index c = Some j -> snd (step s c) = Ok None ->
    claim_index c' = Some j ->
    snd (step (run (fst (step s c)) cs) c') = Fail /\
    fst (step (run (fst (step s c)) cs) c') = run (fst (step s c)) cs.
  Proof.
    intros s c j cs c' Hc Hok Hc'.
    assert (Hf : snd (step (run (fst (step s c)) cs) c') = Fail).
    { eapply claim_of_claimed_fails; eauto. apply claimed_forever. eapply claim_ok_marks; eauto. }
    split; [exact Hf|]. apply fail_unchanged. exact Hf.
  Qed.

  (* ONLY AFTER A VALID PROOF: an index that is claimed after a call sequence was either claimed
     before, or the sequence contains a successful call - set_claimed j, or a claim for j whose
     proof verified against the root stored at that moment while j was unclaimed *)
  Theorem claimed_only_by : forall cs s j,
    is_claimed (run s cs) j = true ->
    is_claimed s j = true \/
    exists cs1 c cs2, cs = cs1 ++ c :: cs2 /\
      snd (step (run s cs1) c) = Ok None /\ is_claimed (run s cs1) j = false /\
      (c = SetClaimed j \/
       (claim_index c = Some j /\ exists r, root (run s cs1) = Some r /\ claim_valid r c)).
  Proof.
    induction cs as [|c cs IH]; intros s j Hj; [left; exact Hj|].
    rewrite run_cons in Hj. destruct (IH _ _ Hj) as [H1|(cs1 & c1 & cs2 & -> & Hok & Hnc & Hm)].
    - destruct (step_claimed _ _ _ H1) as [H0|(Hok & Hnc & Hm)]; [left; exact H0|].
      right. exists [], c, cs. cbn [app]. auto.
    - right. exists (c :: cs1), c1, cs2. cbn [app]. rewrite !run_cons. auto.
  Qed.

  (* number of successful claims for index j along a call sequence *)
  Fixpoint successes (j : N) (s : state) (cs : list call) : nat :=
    match cs with
    | [] => 0
    | c :: r =>
        (match claim_index c, snd (step s c) with
         | Some i, Ok _ => if N.eqb i j then 1 else 0
         | _, _ => 0
         end + successes j (fst (step s c)) r)%nat
    end.

  Lemma successes_claimed : forall cs s j, is_claimed s j = true -> successes j s cs = 0%nat.
  Proof.
    induction cs as [|c cs IH]; intros s j Hj; [reflexivity|].
    cbn [successes]. rewrite (IH _ _ (step_claimed_mono s c j Hj)).
    destruct (claim_index c) as [i|] eqn:Ec; [|reflexivity].
    destruct (N.eqb i j) eqn:E; [|destruct (snd (step s c)); reflexivity].
    apply N.eqb_eq in E. subst i. rewrite (claim_of_claimed_fails s c j Ec Hj). reflexivity.
  Qed.

  (* AT MOST ONE: in every call sequence from every state, at most one claim per index succeeds *)
  Theorem at_most_one_claim : forall cs s j, (successes j s cs <= 1)%nat.
  Proof.
    induction cs as [|c cs IH]; intros s j; [cbn; lia|].
    cbn [successes].
    destruct (claim_index c) as [i|] eqn:Ec; [|apply IH].
    destruct (snd (step s c)) as [o|] eqn:Es; [|apply IH].
    destruct (N.eqb i j) eqn:E; [|apply IH].
    apply N.eqb_eq in E. subst i.
    assert (Ho : snd (step s c) = Ok None).
    { destruct c; cbn in Ec; try discriminate; cbn [Merkle.step snd] in *; unfold unit_call in *;
        match goal with H0 : snd (match ?x with Ok _ => _ | Fail => _ end) = _ |- _ => destruct x end; cbn in *; congruence. }
    rewrite (successes_claimed cs _ j (claim_ok_marks s c j Ec Ho)). lia.
  Qed.

  (* the stored root changes only through set_root *)
  Theorem root_only_set_root : forall s c,
    (forall r, c <> SetRoot r) -> root (fst (step s c)) = root s.
  Proof.
    intros s c Hn.
    destruct c as [p r v|p r v i|r|i|i a m p|i a m p|i a m p|n]; cbn [Merkle.step fst]; auto.
    - exfalso. eapply Hn. reflexivity.
    - unfold unit_call. destruct (claim_sorted deqb H gtb LH s i a m p) as [s'|] eqn:E; cbn [fst]; auto.
      apply claim_sorted_ok in E. destruct E as (r & _ & _ & _ & ->). reflexivity.
    - unfold unit_call. destruct (claim_indexed deqb H LH s i a m p) as [s'|] eqn:E; cbn [fst]; auto.
      apply claim_indexed_ok in E. destruct E as (r & _ & _ & _ & ->). reflexivity.
    - unfold unit_call, airdrop_claim. destruct (claim_sorted deqb H gtb LH s i a m p) as [s1|] eqn:E; cbn [bind]; auto.
      destruct (transfer s1 (self s1) a m) as [s2|] eqn:Et; cbn [fst]; auto.
      apply claim_sorted_ok in E. destruct E as (r & _ & _ & _ & ->).
      apply transfer_ok in Et. destruct Et as (_ & Hr & _). rewrite Hr. reflexivity.
  Qed.

  (* ---- the airdrop pays exactly the leaf's amount, exactly when it marks ---- *)
  Lemma balance_set_bal (s : state) a z x : balance (set_bal s a z) x = if N.eqb x a then z else balance s x.
  Proof.
    unfold balance, set_bal. cbn [bals]. destruct (N.eqb x a) eqn:E.
    - apply N.eqb_eq in E. subst. rewrite alist_get_set_eq. reflexivity.
    - apply N.eqb_neq in E. rewrite alist_get_set_neq by exact E. reflexivity.
  Qed.

  Theorem airdrop_pays : forall s i a m p s',
    step s (Airdrop i a m p) = (s', Ok None) ->
    0 <= m <= balance s (self s) /\
    is_claimed s i = false /\ is_claimed s' i = true /\
    forall x, balance s' x = balance s x - (if N.eqb x (self s) then m else 0) + (if N.eqb x a then m else 0).
  Proof.
    intros s i a m p s'. cbn [Merkle.step]. unfold unit_call, airdrop_claim.
    destruct (claim_sorted deqb H gtb LH s i a m p) as [s1|] eqn:E; cbn [bind]; [|discriminate].
    destruct (transfer s1 (self s1) a m) as [s2|] eqn:Et; [|discriminate].
    intros Es. inversion Es; subst s2. clear Es.
    apply claim_sorted_ok in E. destruct E as (r & _ & Hci & _ & ->).
    unfold transfer, guard in Et. cbn [self set_claimed] in Et.
    destruct (0 <=? m) eqn:E1; cbn [bind] in Et; [|discriminate].
    destruct (m <=? balance (set_claimed s i) (self s)) eqn:E2; cbn [bind] in Et; [|discriminate].
    inversion Et; subst s'. clear Et.
    apply Z.leb_le in E1. apply Z.leb_le in E2.
    change (balance (set_claimed s i)) with (balance s) in *.
    split; [lia|]. split; [exact Hci|]. split.
    - unfold is_claimed. cbn. rewrite N.eqb_refl. reflexivity.
    - intros x. rewrite !balance_set_bal.
      change (balance (set_claimed s i)) with (balance s).
      destruct (N.eqb x a) eqn:Ea, (N.eqb x (self s)) eqn:Es.
      + apply N.eqb_eq in Ea, Es. subst a. rewrite Es, N.eqb_refl. lia.
      + apply N.eqb_eq in Ea. subst. rewrite Es. lia.
      + apply N.eqb_eq in Es. subst. lia.
      + lia.
  Qed.

  Theorem balances_change_only_by_airdrop : forall s c,
    (forall i a m p, c <> Airdrop i a m p) -> forall x, balance (fst (step s c)) x = balance s x.
  Proof.
    intros s c Hn x.
    destruct c as [p r v|p r v i|r|i|i a m p|i a m p|i a m p|n]; cbn [Merkle.step fst]; auto.
    - unfold unit_call. destruct (claim_sorted deqb H gtb LH s i a m p) as [s'|] eqn:E; cbn [fst]; auto.
      apply claim_sorted_ok in E. destruct E as (r & _ & _ & _ & ->). reflexivity.
    - unfold unit_call. destruct (claim_indexed deqb H LH s i a m p) as [s'|] eqn:E; cbn [fst]; auto.
      apply claim_indexed_ok in E. destruct E as (r & _ & _ & _ & ->). reflexivity.
    - exfalso. eapply Hn. reflexivity.
  Qed.

  Lemma step_self_gen : forall s c, self (fst (step s c)) = self s.
  Proof.
    intros s c.
    destruct c as [p r v|p r v i|r|i|i a m p|i a m p|i a m p|n]; cbn [Merkle.step fst]; auto; unfold unit_call.
    - destruct (claim_sorted deqb H gtb LH s i a m p) as [s'|] eqn:E; cbn [fst]; auto.
      apply claim_sorted_ok in E. destruct E as (r & _ & _ & _ & ->). reflexivity.
    - destruct (claim_indexed deqb H LH s i a m p) as [s'|] eqn:E; cbn [fst]; auto.
      apply claim_indexed_ok in E. destruct E as (r & _ & _ & _ & ->). reflexivity.
    - unfold airdrop_claim. destruct (claim_sorted deqb H gtb LH s i a m p) as [s1|] eqn:E; cbn [bind]; auto.
      destruct (transfer s1 (self s1) a m) as [s2|] eqn:Et; cbn [fst]; auto.
      apply claim_sorted_ok in E. destruct E as (r & _ & _ & _ & ->).
      apply transfer_ok in Et. destruct Et as (_ & _ & _ & Hs). rewrite Hs. reflexivity.
  Qed.

  (* tokens that left the contract along a call sequence: the amounts of the successful airdrop
     claims (a claim paying the contract itself moves nothing) *)
  Fixpoint paid (s : state) (cs : list call) : Z :=
    match cs with
    | [] => 0
    | c :: r =>
        match c, snd (step s c) with
        | Airdrop i a m p, Ok _ => if N.eqb a (self s) then 0 else m
        | _, _ => 0
        end + paid (fst (step s c)) r
    end.

  (* POOL ACCOUNTING over every call sequence: the contract's balance decreases exactly by the
     amounts of the successful airdrop claims - each of which marked a fresh index (airdrop_pays),
     and at most one per index ever succeeds (at_most_one_claim) *)
  Theorem pool_accounting : forall cs s,
    balance (run s cs) (self s) = balance s (self s) - paid s cs.
  Proof.
    induction cs as [|c cs IH]; intros s; [cbn; lia|].
    rewrite run_cons. cbn [paid]. rewrite <- (step_self_gen s c) at 1. rewrite IH, (step_self_gen s c).
    destruct c as [p r v|p r v i|r|i|i a m p|i a m p|i a m p|n];
      try (rewrite balances_change_only_by_airdrop by (intros; discriminate); lia).
    destruct (step s (Airdrop i a m p)) as [s' o] eqn:Es. cbn [fst snd].
    destruct o as [o|].
    - assert (o = None).
      { cbn [Merkle.step] in Es. unfold unit_call in Es.
        destruct (airdrop_claim deqb H gtb LH s i a m p); inversion Es; reflexivity. }
      subst o. destruct (airdrop_pays _ _ _ _ _ _ Es) as (_ & _ & _ & Hb).
      rewrite Hb, N.eqb_refl. rewrite (N.eqb_sym (self s) a). destruct (N.eqb a (self s)); lia.
    - assert (s' = s).
      { pose proof (fail_unchanged s (Airdrop i a m p)) as Hf. rewrite Es in Hf. cbn [fst snd] in Hf. auto. }
      subst s'. lia.
  Qed.

  (* ---- end to end: with a root that is the root of a tree of leaf hashes, only listed
          (index, address, amount) triples can be claimed ---- *)
  Section EndToEnd.
    Hypothesis deqb_spec : forall a b, deqb a b = true <-> a = b.
    Hypothesis H_inj : forall a b c d, H a b = H c d -> a = c /\ b = d.
    Hypothesis gtb_asym : forall a b, gtb a b = true -> gtb b a = false.
    Hypothesis gtb_total : forall a b, gtb a b = false -> gtb b a = false -> a = b.
    Hypothesis LH_inj : forall i a m i' a' m', LH i a m = LH i' a' m' -> (i, a, m) = (i', a', m').
    (* leaf hashes are never pair hashes (the leaves are not 64-byte values) *)
    Hypothesis LH_not_node : forall i a m x y, LH i a m <> H x y.

    Definition is_leaf_hash (d : D) : Prop := exists i a m, d = LH i a m.

    Lemma leaf_hash_not_node : forall a b, ~ is_leaf_hash (H a b).
    Proof. intros a b (i & x & m & E). eapply LH_not_node. symmetry. exact E. Qed.
    Lemma leaf_hash_not_cnode : forall a b, ~ is_leaf_hash (cpair H gtb a b).
    Proof. intros a b. unfold cpair. destruct (gtb a b); apply leaf_hash_not_node. Qed.

    Definition lh3 (x : N * addr * Z) : D := LH (fst (fst x)) (snd (fst x)) (snd x).

    Lemma data_leaves_wf : forall data t, leaves t = map lh3 data -> Forall is_leaf_hash (leaves t).
    Proof.
      intros data t ->. apply Forall_forall. intros d Hd. apply in_map_iff in Hd.
      destruct Hd as [[[i a] m] [<- _]]. exists i, a, m. reflexivity.
    Qed.

    Lemma listed_in_data : forall data i a m, In (LH i a m) (map lh3 data) -> In (i, a, m) data.
    Proof.
      intros data i a m Hin. apply in_map_iff in Hin. destruct Hin as [[[i' a'] m'] [E Hin]].
      unfold lh3 in E. cbn [fst snd] in E. apply LH_inj in E. rewrite <- E. exact Hin.
    Qed.

    (* data = the list of (index, address, amount) the tree was built from (any shape) *)
    Theorem claim_only_listed_sorted : forall data t s i a m p s',
      leaves t = map lh3 data -> root s = Some (troot (cpair H gtb) t) ->
      claim_sorted deqb H gtb LH s i a m p = Ok s' -> In (i, a, m) data.
    Proof.
      intros data t s i a m p s' Hd Hr Hc. apply claim_sorted_ok in Hc.
      destruct Hc as (r & Hr' & _ & Hv & _). rewrite Hr in Hr'. inversion Hr'; subst r.
      pose proof (data_leaves_wf _ _ Hd) as Hw.
      destruct (sound_sorted D deqb H gtb deqb_spec H_inj is_leaf_hash leaf_hash_not_cnode t p _ Hw Hv)
        as (path & sub & Hl & Hs & _).
      apply listed_in_data. rewrite <- Hd.
      destruct sub as [d|l r]; cbn [troot] in Hs.
      - subst d. eapply lookup_leaf_in; eauto.
      - exfalso. eapply leaf_hash_not_cnode. exists i, a, m. exact Hs.
    Qed.

    Theorem claim_only_listed_indexed : forall data t s i a m p s',
      leaves t = map lh3 data -> root s = Some (troot H t) ->
      claim_indexed deqb H LH s i a m p = Ok s' ->
      In (i, a, m) data /\
      exists path, lookup t path = Some (Lf (LH i a m)) /\ index_of path = Z.of_N i /\ p = proof_of H t path.
    Proof.
      intros data t s i a m p s' Hd Hr Hc. apply claim_indexed_ok in Hc.
      destruct Hc as (r & Hr' & _ & Hv & _). rewrite Hr in Hr'. inversion Hr'; subst r.
      pose proof (data_leaves_wf _ _ Hd) as Hw.
      destruct (sound_indexed D deqb H deqb_spec H_inj is_leaf_hash leaf_hash_not_node t p _ _ Hw (N2Z.is_nonneg i) Hv)
        as (path & sub & Hl & Hs & Hp & Hi & _).
      destruct sub as [d|l r]; cbn [troot] in Hs.
      - subst d. split; [|exists path; auto].
        apply listed_in_data. rewrite <- Hd. eapply lookup_leaf_in; eauto.
      - exfalso. eapply leaf_hash_not_node. exists i, a, m. exact Hs.
    Qed.
  End EndToEnd.
End Dist.
