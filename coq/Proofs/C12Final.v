(* C12 statements in the self-contained form pinned in Properties/C12.v *)
From SC Require Import Lib.Prelude Lib.Int Model.Math Proofs.Math.

Lemma plain128_final rd x y d :
  MIN128 <= x <= MAX128 -> MIN128 <= y <= MAX128 -> MIN128 <= d <= MAX128 ->
  mul_div128 rd x y d =
    if d =? 0 then Fail
    else if in_i128 (exact rd (x * y) d) then Ok (exact rd (x * y) d) else Fail.
Proof.
  intros. rewrite mul_div128_ok by auto. unfold spec_plain128, fit128.
  destruct (d =? 0); [reflexivity|]. destruct (in_i128 _); reflexivity.
Qed.

Lemma checked128_final rd x y d :
  MIN128 <= x <= MAX128 -> MIN128 <= y <= MAX128 -> MIN128 <= d <= MAX128 ->
  checked_mul_div128 rd x y d =
    Ok (if d =? 0 then None
        else if in_i128 (exact rd (x * y) d) then Some (exact rd (x * y) d) else None).
Proof. intros. rewrite checked_mul_div128_ok by auto. reflexivity. Qed.

Lemma plain256_final rd x y d :
  MIN256 <= x * y <= MAX256 -> MIN256 <= d <= MAX256 ->
  mul_div256 rd x y d =
    if d =? 0 then Fail
    else if in_i256 (exact rd (x * y) d) then Ok (exact rd (x * y) d) else Fail.
Proof.
  intros. rewrite mul_div256_ok by auto. unfold spec_plain256, fit256.
  destruct (d =? 0); [reflexivity|]. destruct (in_i256 _); reflexivity.
Qed.

Lemma checked256_final rd x y d :
  MIN256 <= x * y <= MAX256 -> MIN256 <= d <= MAX256 ->
  checked_mul_div256 rd x y d =
    if d =? 0 then Ok None
    else if in_i256 (exact rd (x * y) d) then Ok (Some (exact rd (x * y) d)) else Fail.
Proof.
  intros. rewrite checked_mul_div256_ok by auto. unfold spec_checked256, fit256.
  destruct (d =? 0); [reflexivity|]. destruct (in_i256 _); reflexivity.
Qed.
