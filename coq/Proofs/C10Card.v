(* The reference's counters are cardinalities of its plain ownership map, along any sequence
   of calls that the C10 monitor finds legal. *)
From Coq Require Import Permutation.
From SC Require Import Lib.Prelude Lib.Int Lib.Host Model.Nft Run.NftCommon Proofs.NftMaps Proofs.NftFrame Proofs.NftCard Run.C10.
Local Open Scope N_scope.

Lemma is_none_eq {A} (o : option A) : is_none o = true <-> o = None.
Proof. destruct o; cbn; split; intros; try discriminate; reflexivity. Qed.

(* the facts about a successful call that the cardinality argument uses *)
Definition legal0 (g : ghost) (cl : call) (o : outcome) : bool :=
  match o with
  | Fail => true
  | Ok r =>
      match cl with
      | MintSeq _ =>
          match r with
          | Some id => (g_next g <=? id) && is_none (rget (g_own g) id)
          | None => false
          end
      | MintId _ id => is_none (rget (g_own g) id)
      | BatchMint _ amount =>
          match r with
          | Some last => (1 <=? amount) && (amount <=? last + 1) && (g_next g <=? last + 1 - amount)
          | None => false
          end
      | Transfer _ from _ id | TransferFrom _ _ from _ id | Burn _ from id | BurnFrom _ _ from id =>
          oaddr_eqb (rget (g_own g) id) (Some from)
      | _ => true
      end
  end.

Definition is_mint_id (cl : call) : Prop := match cl with MintId _ _ => True | _ => False end.
Definition is_batch (cl : call) : Prop := match cl with BatchMint _ _ => True | _ => False end.

Lemma cnt_ge_1 bounded g i a : CardInv bounded g -> rget (g_own g) i = Some a -> 1 <= cnt (g_cnt g) a /\ 1 <= g_supply g.
Proof.
  intros (dom&Hn&Hc&Hcnt&Hs&_) Hr. assert (Hi : In i dom) by (apply Hc; rewrite Hr; discriminate).
  rewrite Hcnt, Hs. split.
  - pose proof (cnt_in_pos (owned_by (rget (g_own g)) a) dom i Hi). unfold owned_by in H at 1. rewrite Hr in H.
    specialize (H (proj2 (oaddr_eqb_eq _ _) eq_refl)). lia.
  - pose proof (cnt_in_pos (exists_in (rget (g_own g))) dom i Hi). unfold exists_in in H at 1. rewrite Hr in H.
    specialize (H eq_refl). lia.
Qed.

Lemma card_step (bounded : Prop) g cl r :
  CardInv bounded g -> legal0 g cl (Ok r) = true ->
  (bounded -> ~ is_mint_id cl) -> (is_batch cl -> bounded) ->
  CardInv bounded (ghost_step g cl (Ok r)).
Proof.
  intros Hinv Hl Hnm Hbt.
  destruct cl; cbn [legal0] in Hl; cbn [ghost_step].
  - (* Advance *) destruct Hinv as (dom&H). exists dom. exact H.
  - (* MintSeq *)
    destruct r as [id|]; [|discriminate]. apply andb_true_iff in Hl. destruct Hl as [Hle Hfr].
    apply N.leb_le in Hle. apply is_none_eq in Hfr.
    unfold CardInv. cbn [g_own g_cnt g_supply g_next].
    apply (card_point bounded g id (Some to) _ (cnt (cnt_add (g_cnt g) to 1)) _ _ Hinv).
    + intros j. reflexivity.
    + intros a. rewrite cnt_add_get. unfold owned_by. rewrite Hfr. cbn [oaddr_eqb]. rewrite (N.eqb_sym to a).
      destruct (a =? to) eqn:E; [apply N.eqb_eq in E; subst|]; lia.
    + unfold exists_in. rewrite Hfr. lia.
    + intros _. split; lia.
  - (* MintId *)
    apply is_none_eq in Hl.
    unfold CardInv. cbn [g_own g_cnt g_supply g_next].
    apply (card_point bounded g id (Some to) _ (cnt (cnt_add (g_cnt g) to 1)) _ _ Hinv).
    + intros j. reflexivity.
    + intros a. rewrite cnt_add_get. unfold owned_by. rewrite Hl. cbn [oaddr_eqb]. rewrite (N.eqb_sym to a).
      destruct (a =? to) eqn:E; [apply N.eqb_eq in E; subst|]; lia.
    + unfold exists_in. rewrite Hl. lia.
    + intros HB. exfalso. apply (Hnm HB). exact I.
  - (* BatchMint *)
    destruct r as [last|]; [|discriminate].
    repeat (apply andb_true_iff in Hl; destruct Hl as [Hl ?]).
    apply N.leb_le in Hl, H0, H.
    unfold CardInv. cbn [g_own g_cnt g_supply g_next].
    assert (HB : bounded) by (apply Hbt; exact I).
    destruct (card_range bounded g (last + 1 - amount) last to (LRange (last + 1 - amount) last to :: g_own g)
                (cnt (cnt_add (g_cnt g) to amount)) (g_supply g + amount) HB Hinv) as (dom&A&B&C&D&E); try lia.
    + intros j. reflexivity.
    + intros a. rewrite cnt_add_get. destruct (a =? to) eqn:Ea; [apply N.eqb_eq in Ea; subst|]; lia.
    + exists dom. repeat split; try assumption.
  - (* Transfer *)
    apply oaddr_eqb_eq in Hl. destruct (cnt_ge_1 bounded g id from Hinv Hl) as [Hc1 _].
    unfold CardInv. cbn [g_own g_cnt g_supply g_next].
    apply (card_point bounded g id (Some to) _ (cnt (cnt_add (cnt_sub (g_cnt g) from 1) to 1)) _ _ Hinv).
    + intros j. reflexivity.
    + intros a. rewrite cnt_add_get, !cnt_sub_get. unfold owned_by. rewrite Hl. rewrite !oaddr_eqb_some.
      rewrite (N.eqb_sym from a), (N.eqb_sym to a).
      repeat match goal with |- context [?x =? ?y] => destruct (N.eqb_spec x y); subst end; try lia; try congruence.
    + unfold exists_in. rewrite Hl. lia.
    + intros _. split; [lia|]. intros X. rewrite Hl in X. discriminate.
  - (* TransferFrom *)
    apply oaddr_eqb_eq in Hl. destruct (cnt_ge_1 bounded g id from Hinv Hl) as [Hc1 _].
    unfold CardInv. cbn [g_own g_cnt g_supply g_next].
    apply (card_point bounded g id (Some to) _ (cnt (cnt_add (cnt_sub (g_cnt g) from 1) to 1)) _ _ Hinv).
    + intros j. reflexivity.
    + intros a. rewrite cnt_add_get, !cnt_sub_get. unfold owned_by. rewrite Hl. rewrite !oaddr_eqb_some.
      rewrite (N.eqb_sym from a), (N.eqb_sym to a).
      repeat match goal with |- context [?x =? ?y] => destruct (N.eqb_spec x y); subst end; try lia; try congruence.
    + unfold exists_in. rewrite Hl. lia.
    + intros _. split; [lia|]. intros X. rewrite Hl in X. discriminate.
  - (* Burn *)
    apply oaddr_eqb_eq in Hl. destruct (cnt_ge_1 bounded g id from Hinv Hl) as [Hc1 Hs1].
    unfold CardInv. cbn [g_own g_cnt g_supply g_next].
    apply (card_point bounded g id None _ (cnt (cnt_sub (g_cnt g) from 1)) _ _ Hinv).
    + intros j. reflexivity.
    + intros a. rewrite cnt_sub_get. unfold owned_by. rewrite Hl. rewrite !oaddr_eqb_some. cbn [oaddr_eqb].
      rewrite (N.eqb_sym from a).
      repeat match goal with |- context [?x =? ?y] => destruct (N.eqb_spec x y); subst end; try lia; try congruence.
    + unfold exists_in. rewrite Hl. lia.
    + intros _. split; [lia|]. intros X. rewrite Hl in X. discriminate.
  - (* BurnFrom *)
    apply oaddr_eqb_eq in Hl. destruct (cnt_ge_1 bounded g id from Hinv Hl) as [Hc1 Hs1].
    unfold CardInv. cbn [g_own g_cnt g_supply g_next].
    apply (card_point bounded g id None _ (cnt (cnt_sub (g_cnt g) from 1)) _ _ Hinv).
    + intros j. reflexivity.
    + intros a. rewrite cnt_sub_get. unfold owned_by. rewrite Hl. rewrite !oaddr_eqb_some. cbn [oaddr_eqb].
      rewrite (N.eqb_sym from a).
      repeat match goal with |- context [?x =? ?y] => destruct (N.eqb_spec x y); subst end; try lia; try congruence.
    + unfold exists_in. rewrite Hl. lia.
    + intros _. split; [lia|]. intros X. rewrite Hl in X. discriminate.
  - destruct Hinv as (dom&H). exists dom. exact H.
  - destruct Hinv as (dom&H). exists dom. exact H.
Qed.


(* what the monitor's scope and legality tests give *)
Lemma legal0_of_scope fl g cl r :
  mint_scope fl g cl (Ok r) = InScope -> c10_legal g cl (Ok r) = true ->
  legal0 g cl (Ok r) = true /\ (fl = FCons -> ~ is_mint_id cl) /\ (is_batch cl -> fl = FCons).
Proof.
  intros Hs Hl. destruct cl; cbn [mint_scope c10_legal legal0 is_mint_id is_batch] in *;
    try (split; [reflexivity | split; [intros _ X; exact X | intros X; destruct X]]).
  - destruct fl; try discriminate; (destruct r as [id|]; [|discriminate]);
      (destruct (id <? g_next g) eqn:E; [discriminate|]); apply N.ltb_ge in E;
      (destruct (is_none (rget (g_own g) id)) eqn:E2; [|discriminate]);
      (split; [apply andb_true_iff; split; [apply N.leb_le; exact E | reflexivity] | split; [intros X; discriminate X | intros X; destruct X]]).
  - destruct fl; try discriminate; (destruct (is_none (rget (g_own g) id)) eqn:E2; [|discriminate]);
      (split; [reflexivity | split; [intros X; discriminate X | intros X; destruct X]]).
  - destruct fl; try discriminate. destruct r as [last|]; [|discriminate].
    destruct ((1 <=? amount) && (amount <=? last + 1) && (g_next g <=? last + 1 - amount)) eqn:E; [|discriminate].
    split; [reflexivity | split; [intros _ X; exact X | reflexivity]].
  - apply andb_true_iff in Hl. destruct Hl as [_ Hl]. split; [exact Hl | split; [intros _ X; exact X | intros X; destruct X]].
  - apply andb_true_iff in Hl. destruct Hl as [_ Hl]. split; [exact Hl | split; [intros _ X; exact X | intros X; destruct X]].
  - apply andb_true_iff in Hl. destruct Hl as [_ Hl]. split; [exact Hl | split; [intros _ X; exact X | intros X; destruct X]].
  - apply andb_true_iff in Hl. destruct Hl as [_ Hl]. split; [exact Hl | split; [intros _ X; exact X | intros X; destruct X]].
Qed.
