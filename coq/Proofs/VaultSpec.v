(* C05: the specification of the conversions, written from the property text, and the proof that the
   model's conversion functions (which go through the C12 model of mul_div_i128) meet it. *)
From SC Require Import Lib.Prelude Lib.Int Lib.Host Model.Math Proofs.Math Model.Vault.
From Coq Require Import ZifyBool.

(* each conversion equals the exact rational x * num / den rounded in the stated direction, or fails
   exactly when the amount is negative, an effective total (10^offset, S + 10^offset, A + 1) or the rounded
   result does not fit in i128 *)
Definition spec_conv (P x num den : Z) (rd : rounding) : res Z :=
  if x <? 0 then Fail
  else if x =? 0 then Ok 0
  else if in_i128 P && in_i128 num && in_i128 den && negb (den =? 0) then
    (if in_i128 (exact rd (x * num) den) then Ok (exact rd (x * num) den) else Fail)
  else Fail.

(* assets-per-share rate (A+1)/(S+P), cross-multiplied: rate(before) <= rate(after) *)
Definition rate_le (P A S A' S' : Z) : bool := (A + 1) * (S' + P) <=? (A' + 1) * (S + P).

Definition P_of (c : cfg) : Z := 10 ^ c_off c.

Lemma fit128_some z v : fit128 z = Some v -> v = z /\ MIN128 <= z <= MAX128.
Proof. destruct (fit128_case z) as [[-> H]|[-> H]]; intros E; inversion E; subst; split; auto. Qed.

(* the constructor's two instance entries are in place: the asset address is the asset token's and the stored
   decimals offset is the constructor argument *)
Definition Stored (c : cfg) (s : state) : Prop := v_asset s = Some ASSET_ADDR /\ v_off s = Some (c_off c).

Lemma stored_client c s : Stored c s -> asset_client s = Ok tt.
Proof. intros [Ha _]. unfold asset_client, query_asset. rewrite Ha. cbn. reflexivity. Qed.
Lemma stored_off c s : Stored c s -> get_decimals_offset s = c_off c.
Proof. intros [_ Ho]. unfold get_decimals_offset. rewrite Ho. reflexivity. Qed.
Lemma stored_total_assets c s : Stored c s -> total_assets_r s = Ok (total_assets s).
Proof. intros H. unfold total_assets_r. rewrite (stored_client c s H). reflexivity. Qed.

Lemma to_shares_spec c s a rd : Stored c s -> MIN128 <= a <= MAX128 ->
  to_shares c s a rd = spec_conv (P_of c) a (total_supply s + P_of c) (total_assets s + 1) rd.
Proof.
  intros Hst Ha. unfold to_shares, spec_conv, pow10, P_of.
  rewrite (stored_off c s Hst), (stored_total_assets c s Hst).
  destruct (a <? 0); [reflexivity|]. destruct (a =? 0); [reflexivity|].
  unfold fit128 at 1. destruct (in_i128 (10 ^ c_off c)) eqn:EP; cbn [of_option bind andb]; [|reflexivity].
  unfold checked_add, fit128 at 1.
  destruct (in_i128 (total_supply s + 10 ^ c_off c)) eqn:EY; cbn [of_option bind andb]; [|reflexivity].
  unfold fit128 at 1.
  destruct (in_i128 (total_assets s + 1)) eqn:ED; cbn [of_option bind andb]; [|reflexivity].
  rewrite mul_div128_ok by (rewrite <- ?in_i128_iff; auto; apply in_i128_iff; auto).
  unfold spec_plain128. destruct (total_assets s + 1 =? 0); cbn [negb]; [reflexivity|].
  unfold fit128. destruct (in_i128 (exact rd _ _)); reflexivity.
Qed.

Lemma to_assets_spec c s x rd : Stored c s -> MIN128 <= x <= MAX128 ->
  to_assets c s x rd = spec_conv (P_of c) x (total_assets s + 1) (total_supply s + P_of c) rd.
Proof.
  intros Hst Hx. unfold to_assets, spec_conv, pow10, P_of.
  rewrite (stored_off c s Hst), (stored_total_assets c s Hst).
  destruct (x <? 0); [reflexivity|]. destruct (x =? 0); [reflexivity|]. cbn [bind].
  unfold checked_add, fit128 at 1.
  destruct (in_i128 (total_assets s + 1)) eqn:EY; cbn [of_option bind andb];
    [|rewrite andb_false_r; reflexivity].
  unfold fit128 at 1. destruct (in_i128 (10 ^ c_off c)) eqn:EP; cbn [of_option bind andb]; [|reflexivity].
  unfold fit128 at 1.
  destruct (in_i128 (total_supply s + 10 ^ c_off c)) eqn:ED; cbn [of_option bind andb]; [|reflexivity].
  rewrite mul_div128_ok by (rewrite <- ?in_i128_iff; auto; apply in_i128_iff; auto).
  unfold spec_plain128. destruct (total_supply s + 10 ^ c_off c =? 0); cbn [negb]; [reflexivity|].
  unfold fit128. destruct (in_i128 (exact rd _ _)); reflexivity.
Qed.

(* ---------- what a successful conversion tells ---------- *)
Lemma spec_conv_ok P x num den rd q : spec_conv P x num den rd = Ok q ->
  0 <= x /\ (x = 0 -> q = 0) /\
  (0 < x -> q = exact rd (x * num) den /\ den <> 0 /\ MIN128 <= q <= MAX128
            /\ MIN128 <= num <= MAX128 /\ MIN128 <= den <= MAX128 /\ MIN128 <= P <= MAX128).
Proof.
  unfold spec_conv. destruct (x <? 0) eqn:E1; [discriminate|].
  destruct (x =? 0) eqn:E2.
  - intros H; inversion H. repeat split; try lia.
  - destruct (in_i128 P && in_i128 num && in_i128 den && negb (den =? 0)) eqn:E3; [|discriminate].
    destruct (in_i128 (exact rd (x * num) den)) eqn:E4; [|discriminate].
    intros H; inversion H; subst q. split; [lia|]. split; [lia|]. intros _.
    apply andb_prop in E3 as [E3 E5]. apply andb_prop in E3 as [E3 E6]. apply andb_prop in E3 as [E3 E7].
    rewrite in_i128_iff in *. repeat split; try lia.
Qed.

(* floor and ceiling for a positive denominator, in multiplication form *)
Lemma floor_pos n d : 0 < d -> let q := exact Floor n d in q * d <= n < (q + 1) * d.
Proof. intros Hd. destruct (floor_div_spec n d) as [H _]; [lia|]. apply H; exact Hd. Qed.
Lemma ceil_pos n d : 0 < d -> let q := exact Ceil n d in (q - 1) * d < n <= q * d.
Proof. intros Hd. destruct (ceil_div_spec n d) as [H _]; [lia|]. apply H; exact Hd. Qed.

Lemma spec_conv_floor P x num den q : spec_conv P x num den Floor = Ok q -> 0 < den ->
  q * den <= x * num < (q + 1) * den.
Proof.
  intros H Hd. destruct (spec_conv_ok _ _ _ _ _ _ H) as (Hx & H0 & Hp).
  destruct (Z.eq_dec x 0) as [->|Hne].
  - rewrite (H0 eq_refl). lia.
  - destruct Hp as (-> & _); [lia|]. apply floor_pos; exact Hd.
Qed.
Lemma spec_conv_ceil P x num den q : spec_conv P x num den Ceil = Ok q -> 0 < den -> 0 < x ->
  (q - 1) * den < x * num <= q * den.
Proof.
  intros H Hd Hx. destruct (spec_conv_ok _ _ _ _ _ _ H) as (_ & _ & Hp).
  destruct Hp as (-> & _); [lia|]. apply ceil_pos; exact Hd.
Qed.
(* the direction only (also for x = 0) *)
Lemma spec_conv_ceil_ge P x num den q : spec_conv P x num den Ceil = Ok q -> 0 < den ->
  x * num <= q * den.
Proof.
  intros H Hd. destruct (spec_conv_ok _ _ _ _ _ _ H) as (Hx & H0 & Hp).
  destruct (Z.eq_dec x 0) as [->|Hne].
  - rewrite (H0 eq_refl). lia.
  - apply (spec_conv_ceil P x num den q); auto. lia.
Qed.

Lemma spec_conv_nonneg P x num den rd q : spec_conv P x num den rd = Ok q -> 0 < den -> 0 <= num -> 0 <= q.
Proof.
  intros H Hd Hn. destruct (spec_conv_ok _ _ _ _ _ _ H) as (Hx & H0 & Hp).
  destruct (Z.eq_dec x 0) as [->|Hne]; [rewrite (H0 eq_refl); lia|].
  destruct Hp as (-> & _); [lia|].
  assert (0 <= x * num) by nia.
  destruct rd; cbn [exact].
  - pose proof (floor_pos (x * num) den Hd) as Hf. cbn [exact] in Hf. nia.
  - pose proof (ceil_pos (x * num) den Hd) as Hf. cbn [exact] in Hf. nia.
  - unfold trunc_div. apply Z.quot_pos; lia.
Qed.
