(* Progress: in every reachable state the owner can transfer or burn an existing token - the
   call cannot fail for an internal reason (missing index entry, marker, counter ...). *)
From Coq Require Import Permutation.
From SC Require Import Lib.Prelude Lib.Int Lib.Host Model.Nft Run.NftCommon Proofs.NftMaps Proofs.NftFrame
  Proofs.NftInv Proofs.NftCons Proofs.NftOwn Proofs.NftSim Proofs.NftScope Proofs.NftCard Proofs.NftEnum Run.C10 Proofs.C10Card
  Proofs.C10Sim.
Local Open Scope N_scope.

Lemma guard_true b : b = true -> guard b = Ok tt.
Proof. intros ->. reflexivity. Qed.

Lemma decrease_balance_progress s f : 1 <= balance s f ->
  decrease_balance s f 1 = Ok (set_bal s (aset N.eqb f (balance s f - 1) (bal s))).
Proof. intros H. unfold decrease_balance. rewrite guard_true by (apply N.leb_le; exact H). reflexivity. Qed.
Lemma increase_balance_progress s t : balance s t + 1 <= MAXU32N ->
  increase_balance s t 1 = Ok (set_bal s (aset N.eqb t (balance s t + 1) (bal s))).
Proof. intros H. unfold increase_balance. rewrite guard_true by (apply N.leb_le; exact H). reflexivity. Qed.

Lemma update_progress_plain fl c s f to id : plain fl ->
  aget N.eqb id (owner s) = Some f -> 1 <= balance s f ->
  (forall t, to = Some t -> balance (upd_from s f id) t + 1 <= MAXU32N) ->
  update fl c s (Some f) to id = Ok (upd_to (upd_from s f id) to id).
Proof.
  intros Hp Ho Hb Hroom. unfold update.
  assert (Eo : owner_of fl c s id = Some f) by (destruct fl; try exact Ho; exfalso; apply Hp; reflexivity).
  rewrite Eo. cbn [of_option bind]. rewrite N.eqb_refl. cbn [guard bind].
  rewrite (decrease_balance_progress s f Hb). cbn [bind].
  assert (E1 : (match fl with
                | FCons => set_owner_for_previous_token (set_appr (set_bal s (aset N.eqb f (balance s f - 1) (bal s))) (arem N.eqb id (appr (set_bal s (aset N.eqb f (balance s f - 1) (bal s)))))) f id
                | _ => Ok (set_appr (set_bal s (aset N.eqb f (balance s f - 1) (bal s))) (arem N.eqb id (appr (set_bal s (aset N.eqb f (balance s f - 1) (bal s))))))
                end) = Ok (upd_from s f id))
    by (destruct fl; try reflexivity; exfalso; apply Hp; reflexivity).
  rewrite E1. cbn [bind]. destruct to as [t|].
  - rewrite (increase_balance_progress _ t (Hroom t eq_refl)). cbn [bind].
    destruct fl; try reflexivity. exfalso; apply Hp; reflexivity.
  - destruct fl; try reflexivity. exfalso; apply Hp; reflexivity.
Qed.

Lemma set_ownership_in_bucket_progress s id : id < next_id s -> set_ownership_in_bucket s id = Ok (mark s id).
Proof. intros H. unfold set_ownership_in_bucket, mark. rewrite guard_true by (apply N.ltb_lt; exact H). cbn [bind]. destruct (memN id (marks s)); reflexivity. Qed.

Lemma set_owner_for_previous_token_progress s f id : id < next_id s ->
  set_owner_for_previous_token s f id = Ok (after_prev s f id).
Proof.
  intros H. unfold set_owner_for_previous_token, after_prev, prev_needs.
  destruct ((id =? 0) || (next_id s <=? id)) eqn:E; cbn [negb andb]; [reflexivity|].
  destruct (aget N.eqb (id - 1) (owner s)); cbn [andb]; [reflexivity|].
  destruct (memN (id - 1) (burned s)); cbn [negb]; [reflexivity|].
  apply orb_false_iff in E. destruct E as [E1 _]. apply N.eqb_neq in E1.
  apply set_ownership_in_bucket_progress. cbn [next_id set_owner]. lia.
Qed.

Lemma update_progress_cons c s f to id :
  cons_owner_of c s id = Some f -> id < next_id s -> 1 <= balance s f ->
  (forall t, to = Some t -> balance (after_prev (upd_from s f id) f id) t + 1 <= MAXU32N) ->
  update FCons c s (Some f) to id = Ok (cons_upd_to (after_prev (upd_from s f id) f id) to id).
Proof.
  intros Ho Hlt Hb Hroom. unfold update. cbn [owner_of]. rewrite Ho. cbn [of_option bind]. rewrite N.eqb_refl. cbn [guard bind].
  rewrite (decrease_balance_progress s f Hb). cbn [bind].
  match goal with |- context [set_owner_for_previous_token ?X f id] => change X with (upd_from s f id) end.
  rewrite (set_owner_for_previous_token_progress (upd_from s f id) f id) by exact Hlt. cbn [bind].
  destruct (after_prev_fields (upd_from s f id) f id) as (_&Hn&_).
  destruct to as [t|]; cbn [cons_upd_to].
  - rewrite (increase_balance_progress _ t (Hroom t eq_refl)). cbn [bind].
    apply set_ownership_in_bucket_progress. cbn [next_id set_owner set_bal]. rewrite Hn. exact Hlt.
  - reflexivity.
Qed.

(* ---------- enumerable fix-ups cannot fail ---------- *)
Lemma remove_owner_progress s own len o id :
  OList s own len -> own id = Some o -> len o = balance s o + 1 ->
  exists s', remove_from_owner_enumeration s o id = Ok s'.
Proof.
  intros HO Hown Hlen. destruct (HO o) as (L1&L2&L3). destruct (L2 id Hown) as (ri&Hri&Hgi).
  unfold remove_from_owner_enumeration. unfold oidx in Hri. rewrite Hri. cbn [of_option bind].
  destruct (ri =? balance s o) eqn:E; cbn [bind]; [eexists; reflexivity|].
  destruct (get_owner_token_id s o (balance s o)) as [lid|] eqn:El; cbn [of_option bind]; [eexists; reflexivity|].
  exfalso. apply (L3 (balance s o)); [lia | exact El].
Qed.
Lemma add_owner_progress s o id : 1 <= balance s o -> exists s', add_to_owner_enumeration s o id = Ok s'.
Proof. intros H. unfold add_to_owner_enumeration. rewrite guard_true by (apply N.leb_le; exact H). eexists; reflexivity. Qed.
Lemma remove_global_progress s own n id last : GList s own n -> own id <> None -> n = last + 1 ->
  exists s', remove_from_global_enumeration s id last = Ok s'.
Proof.
  intros (G1&G2&G3) Hown Hn. destruct (G2 id Hown) as (ri&Hri&_). unfold remove_from_global_enumeration.
  unfold gidx in Hri. rewrite Hri. cbn [of_option bind].
  destruct (get_token_id s last) as [lid|] eqn:El; cbn [of_option bind]; [eexists; reflexivity|].
  exfalso. apply (G3 last); [lia | exact El].
Qed.

(* ---------- the owner's transfer and burn always go through ---------- *)
Lemma sim10_facts fl c s g id f : Sim10 fl s g -> rget (g_own g) id = Some f ->
  owner_of fl c s id = Some f /\ 1 <= balance s f /\ 1 <= g_supply g.
Proof.
  intros (Hs&Hcard&_) Hr. destruct Hs as [Hc Ho]. split; [rewrite (own_of fl c s g Ho); exact Hr|].
  destruct (cnt_ge_1 _ g id f Hcard Hr) as [A B]. destruct Hc as (_&Hb&_). rewrite Hb. split; assumption.
Qed.

Theorem owner_transfer_progress fl c s g auths from to id :
  Sim10 fl s g -> has_auth auths from = true -> rget (g_own g) id = Some from ->
  balance s to + 1 <= MAXU32N ->
  exists s', exec fl c s (Transfer auths from to id) = Ok (s', None).
Proof.
  intros Hs Ha Hr Hroom. destruct (sim10_facts fl c s g id from Hs Hr) as (Ho&Hb&_).
  assert (Hroom1 : forall t, Some to = Some t -> balance (upd_from s from id) t + 1 <= MAXU32N).
  { intros t E. inversion E; subst t. rewrite balance_upd_from. destruct (to =? from) eqn:E2; [apply N.eqb_eq in E2; subst; lia | exact Hroom]. }
  cbn [exec]. rewrite Ha. cbn [guard bind].
  destruct fl.
  - rewrite (update_progress_plain FBase c s from (Some to) id); [| discriminate | exact Ho | exact Hb | exact Hroom1].
    cbn. eexists; reflexivity.
  - rewrite (update_progress_plain FEnum c s from (Some to) id); [| discriminate | exact Ho | exact Hb | exact Hroom1].
    cbn [bind enum_after_transfer]. set (x := upd_to (upd_from s from id) (Some to) id).
    destruct (from =? to) eqn:Eft; [eexists; reflexivity|]. apply N.eqb_neq in Eft.
    destruct Hs as (_&_&Hen&_). destruct (Hen eq_refl) as [[HO HG] _].
    assert (HOx : OList x (rget (g_own g)) (balance s)) by (eapply olist_ext; [exact HO | | | |]; reflexivity).
    assert (Hbx : forall a, balance x a = if a =? to then (if to =? from then balance s from - 1 else balance s to) + 1
                                         else if a =? from then balance s from - 1 else balance s a).
    { intros a. unfold x. rewrite balance_upd_to_some, !balance_upd_from. reflexivity. }
    assert (Hlen : balance s from = balance x from + 1).
    { rewrite Hbx. destruct (from =? to) eqn:E; [apply N.eqb_eq in E; congruence|]. rewrite N.eqb_refl. lia. }
    destruct (remove_owner_progress x _ _ from id HOx Hr Hlen) as [s1 E1]. rewrite E1. cbn [bind].
    destruct (olist_remove x _ _ from id s1 HOx Hr Hlen E1) as (_&Hc1&_).
    destruct (add_owner_progress s1 to id) as [s2 E2].
    { destruct Hc1 as (_&_&_&Hb1&_). rewrite balance_bget, Hb1, <- balance_bget, Hbx, N.eqb_refl. lia. }
    rewrite E2. cbn [bind]. eexists; reflexivity.
  - cbn [owner_of] in Ho. pose proof Hs as ((_&HoI)&_). cbn [OwnInv] in HoI.
    assert (Hlt : id < next_id s).
    { rewrite (cons_owner_of_cown c s id (proj1 HoI)) in Ho. apply (cown_live_of _ _ _ Ho). }
    rewrite (update_progress_cons c s from (Some to) id Ho Hlt Hb).
    + cbn. eexists; reflexivity.
    + intros t E. destruct (after_prev_fields (upd_from s from id) from id) as (_&_&Hbal&_).
      rewrite balance_bget, Hbal, <- balance_bget. apply Hroom1. exact E.
Qed.

Theorem owner_burn_progress fl c s g auths from id :
  Sim10 fl s g -> has_auth auths from = true -> rget (g_own g) id = Some from ->
  exists s', exec fl c s (Burn auths from id) = Ok (s', None).
Proof.
  intros Hs Ha Hr. destruct (sim10_facts fl c s g id from Hs Hr) as (Ho&Hb&Hsup).
  assert (Hroom1 : forall t, @None addr = Some t -> balance (upd_from s from id) t + 1 <= MAXU32N) by (intros t E; discriminate).
  cbn [exec]. rewrite Ha. cbn [guard bind].
  destruct fl.
  - rewrite (update_progress_plain FBase c s from None id); [| discriminate | exact Ho | exact Hb | exact Hroom1].
    cbn. eexists; reflexivity.
  - rewrite (update_progress_plain FEnum c s from None id); [| discriminate | exact Ho | exact Hb | exact Hroom1].
    cbn [bind enum_after_burn]. set (x := upd_to (upd_from s from id) None id).
    destruct Hs as (_&_&Hen&_). destruct (Hen eq_refl) as [[HO HG] Htot].
    assert (HOx : OList x (rget (g_own g)) (balance s)) by (eapply olist_ext; [exact HO | | | |]; reflexivity).
    assert (HGx : GList x (rget (g_own g)) (total s)) by (eapply glist_ext; [exact HG | | |]; reflexivity).
    assert (Hlen : balance s from = balance x from + 1).
    { unfold x. rewrite balance_upd_to_none, balance_upd_from, N.eqb_refl. lia. }
    destruct (remove_owner_progress x _ _ from id HOx Hr Hlen) as [s1 E1].
    unfold remove_from_enumerations. rewrite E1. cbn [bind].
    destruct (olist_remove x _ _ from id s1 HOx Hr Hlen E1) as (_&_&Ht1&Hgt1&Hgi1).
    assert (Etx : total x = total s) by reflexivity.
    rewrite guard_true by (apply N.leb_le; lia). cbn [bind].
    assert (HG1 : GList (set_total s1 (total s1 - 1)) (rget (g_own g)) (total s)).
    { eapply glist_ext; [exact HGx | cbn [gtok set_total]; exact Hgt1 | cbn [gtidx set_total]; exact Hgi1 | reflexivity]. }
    destruct (remove_global_progress _ _ _ id (total s1 - 1) HG1) as [s2 E2]; [rewrite Hr; discriminate | lia|].
    rewrite E2. eexists; reflexivity.
  - cbn [owner_of] in Ho. pose proof Hs as ((_&HoI)&_). cbn [OwnInv] in HoI.
    assert (Hlt : id < next_id s).
    { rewrite (cons_owner_of_cown c s id (proj1 HoI)) in Ho. apply (cown_live_of _ _ _ Ho). }
    rewrite (update_progress_cons c s from None id Ho Hlt Hb); [|intros t E; discriminate].
    cbn. eexists; reflexivity.
Qed.


Theorem batch_mint_progress c s to amt :
  1 <= amt -> amt <= max_batch c -> next_id s + amt <= MAXU32N -> balance s to + amt <= MAXU32N ->
  exists s', exec FCons c s (BatchMint to amt) = Ok (s', Some (next_id s + amt - 1)).
Proof.
  intros H1 H2 H3 H4. cbn [exec].
  rewrite guard_true by (apply andb_true_iff; split; [apply negb_true_iff, N.eqb_neq; lia | apply N.leb_le; exact H2]).
  cbn [bind]. unfold increment_token_id. rewrite guard_true by (apply N.leb_le; exact H3). cbn [bind].
  unfold increase_balance. rewrite (balance_bget (set_next_id _ _)). cbn [bal set_next_id]. rewrite <- balance_bget.
  rewrite guard_true by (apply N.leb_le; exact H4). cbn [bind].
  rewrite set_ownership_in_bucket_progress by (cbn [next_id set_bal set_next_id]; lia). cbn [bind].
  eexists; reflexivity.
Qed.


(* the *_from variants: once the spender's authorisation and approval are accepted they run the owner's path *)
Lemma has_auth_self a : has_auth [a] a = true.
Proof. unfold has_auth. cbn. rewrite N.eqb_refl. reflexivity. Qed.
Lemma transfer_from_as_transfer fl c s auths sp from to id :
  has_auth auths sp = true -> check_spender_approval s sp from id = Ok tt ->
  exec fl c s (TransferFrom auths sp from to id) = exec fl c s (Transfer [from] from to id).
Proof. intros Ha Hc. cbn [exec]. rewrite Ha, Hc, has_auth_self. reflexivity. Qed.
Lemma burn_from_as_burn fl c s auths sp from id :
  has_auth auths sp = true -> check_spender_approval s sp from id = Ok tt ->
  exec fl c s (BurnFrom auths sp from id) = exec fl c s (Burn [from] from id).
Proof. intros Ha Hc. cbn [exec]. rewrite Ha, Hc, has_auth_self. reflexivity. Qed.

Lemma spender_check_progress s g sp from id : CoreInv s g ->
  (sp =? from) || oaddr_eqb (live_appr g id) (Some sp) || live_oper g from sp = true ->
  check_spender_approval s sp from id = Ok tt.
Proof.
  intros (Hc&_&Ha&Ho) H. unfold check_spender_approval.
  apply guard_true. rewrite (get_approved_live s g Hc Ha), (is_approved_for_all_live s g Hc Ho). exact H.
Qed.
