(* C15: identity claims - with the library's add_claim / remove_claim only, every listed claim id
   resolves to a stored claim whose issuer and topic are the ones the id was computed from. *)
From SC Require Import Lib.Prelude Lib.Int Lib.Host Model.ClaimIssuer Model.Identity
  Proofs.C15Base Proofs.C15Verify.

Record ident_inv (s : ident) : Prop := {
  ii_key : forall id cl, aget cid_eqb id (id_claims s) = Some cl -> id = (cl_issuer cl, cl_topic cl);
  ii_index : forall t id, In id (get_claim_ids_by_topic s t) <-> (aget cid_eqb id (id_claims s) <> None /\ snd id = t);
  ii_nodup : forall t, NoDup (get_claim_ids_by_topic s t)
}.

Lemma ident_inv_init : ident_inv ident0.
Proof.
  constructor; unfold get_claim_ids_by_topic; cbn.
  - discriminate.
  - intros t id. split; [intros [] | intros [H _]; congruence].
  - constructor.
Qed.

Lemma ids_after_set s t l t' :
  (match aget Z.eqb t' (aset Z.eqb t l (id_index s)) with Some x => x | None => [] end)
  = if t' =? t then l else get_claim_ids_by_topic s t'.
Proof. unfold get_claim_ids_by_topic. rewrite (aget_aset _ Z_eqb_spec). destruct (t' =? t); reflexivity. Qed.

Lemma ident_inv_add s cl valid s' id :
  ident_inv s -> add_claim s cl valid = Ok (s', id) -> ident_inv s' /\ id = (cl_issuer cl, cl_topic cl).
Proof.
  intros Hi H. unfold add_claim in H. destruct valid as [[]|]; cbn [bind] in H; [|discriminate].
  set (id0 := (cl_issuer cl, cl_topic cl)) in *.
  assert (Eid : id = id0) by (inversion H; reflexivity). subst id. split; [|reflexivity].
  assert (Ec : id_claims s' = aset cid_eqb id0 cl (id_claims s)) by (inversion H; reflexivity).
  assert (Ex : id_index s' = if negb (is_some (aget cid_eqb id0 (id_claims s)))
                              then aset Z.eqb (cl_topic cl) (get_claim_ids_by_topic s (cl_topic cl) ++ [id0]) (id_index s)
                              else id_index s) by (inversion H; reflexivity).
  clear H.
  assert (Hp : forall id', aget cid_eqb id' (id_claims s') <> None <-> (id' = id0 \/ aget cid_eqb id' (id_claims s) <> None)).
  { intros id'. rewrite Ec, (aget_aset _ cid_eqb_spec). destruct (cid_eqb id' id0) eqn:E.
    - apply cid_eqb_spec in E. split; [auto | discriminate].
    - apply (eqb_false_of _ cid_eqb_spec) in E. tauto. }
  constructor.
  - intros id' cl'. rewrite Ec, (aget_aset _ cid_eqb_spec). destruct (cid_eqb id' id0) eqn:E.
    + apply cid_eqb_spec in E. intros Hx. inversion Hx. subst. reflexivity.
    + apply (ii_key s Hi).
  - intros t id'. rewrite Hp. unfold get_claim_ids_by_topic at 1. rewrite Ex.
    destruct (aget cid_eqb id0 (id_claims s)) as [old|] eqn:Eold; cbn [is_some negb].
    + fold (get_claim_ids_by_topic s t). rewrite (ii_index s Hi). split; [tauto|].
      intros [[->|Hx] Ht]; split; auto. congruence.
    + rewrite ids_after_set. destruct (t =? cl_topic cl) eqn:Et.
      * apply Z.eqb_eq in Et. subst t. rewrite In_app_single, (ii_index s Hi). split.
        -- intros [[Hx Ht]| ->]; [tauto | split; [left; reflexivity | reflexivity]].
        -- intros [[->|Hx] Ht]; [right; reflexivity | left; tauto].
      * apply Z.eqb_neq in Et. rewrite (ii_index s Hi). split; [tauto|].
        intros [[->|Hx] Ht]; [cbn in Ht; congruence | tauto].
  - intros t. unfold get_claim_ids_by_topic. rewrite Ex.
    destruct (aget cid_eqb id0 (id_claims s)) as [old|] eqn:Eold; cbn [is_some negb].
    + apply (ii_nodup s Hi).
    + rewrite ids_after_set. destruct (t =? cl_topic cl); [|apply (ii_nodup s Hi)].
      apply NoDup_app_single; [apply (ii_nodup s Hi)|]. rewrite (ii_index s Hi). intros [Hx _]. congruence.
Qed.

Lemma ident_inv_remove s id s' : ident_inv s -> remove_claim s id = Ok s' -> ident_inv s'.
Proof.
  intros Hi H. unfold remove_claim in H. apply bind_ok in H. destruct H as [cl [Eg H]].
  unfold get_claim in Eg. apply of_option_ok in Eg.
  pose proof (ii_key s Hi _ _ Eg) as Hid.
  set (t := cl_topic cl) in *. set (ids := get_claim_ids_by_topic s t) in *.
  assert (Hin : In id ids). { apply (ii_index s Hi). split; [congruence | subst id; reflexivity]. }
  destruct (remove_first (cid_eqb id) ids) as [ids'|] eqn:Er;
    [|apply (remove_first_none _ cid_eqb_spec) in Er; contradiction].
  assert (Ec : id_claims s' = aremove cid_eqb id (id_claims s)) by (inversion H; reflexivity).
  assert (Ex : id_index s' = if is_nil ids' then aremove Z.eqb t (id_index s) else aset Z.eqb t ids' (id_index s))
    by (inversion H; reflexivity).
  clear H.
  pose proof (remove_first_In_nodup _ cid_eqb_spec id ids ids' (ii_nodup s Hi t) Er) as Hin'.
  assert (Hids : forall t', get_claim_ids_by_topic s' t' = if t' =? t then ids' else get_claim_ids_by_topic s t').
  { intros t'. unfold get_claim_ids_by_topic. rewrite Ex. destruct (is_nil ids') eqn:En.
    - destruct ids'; [|discriminate]. rewrite (aget_aremove _ Z_eqb_spec). destruct (t' =? t); reflexivity.
    - rewrite (aget_aset _ Z_eqb_spec). destruct (t' =? t); reflexivity. }
  assert (Hp : forall id', aget cid_eqb id' (id_claims s') <> None <-> (id' <> id /\ aget cid_eqb id' (id_claims s) <> None)).
  { intros id'. rewrite Ec, (aget_aremove _ cid_eqb_spec). destruct (cid_eqb id' id) eqn:E.
    - apply cid_eqb_spec in E. split; [congruence | tauto].
    - apply (eqb_false_of _ cid_eqb_spec) in E. tauto. }
  constructor.
  - intros id' cl'. rewrite Ec, (aget_aremove _ cid_eqb_spec). destruct (cid_eqb id' id); [discriminate | apply (ii_key s Hi)].
  - intros t' id'. rewrite Hids, Hp. destruct (t' =? t) eqn:Et.
    + apply Z.eqb_eq in Et. subst t'. rewrite Hin'. unfold ids. rewrite (ii_index s Hi). tauto.
    + apply Z.eqb_neq in Et. rewrite (ii_index s Hi). split; [|tauto].
      intros [Hx Ht]. split; auto. split; auto. intros ->. subst id. cbn in Ht. apply Et. symmetry. exact Ht.
  - intros t'. rewrite Hids. destruct (t' =? t); [|apply (ii_nodup s Hi)].
    apply (remove_first_NoDup _ cid_eqb_spec id ids ids' (ii_nodup s Hi t) Er).
Qed.

(* consequences *)
Lemma ident_inv_sound s t : ident_inv s -> index_sound_at s t.
Proof.
  intros Hi id Hin. apply (ii_index s Hi) in Hin. destruct Hin as [Hp _].
  unfold get_claim. destruct (aget cid_eqb id (id_claims s)) as [cl|]; [exists cl; reflexivity | congruence].
Qed.
(* the fields of a stored claim agree with the id it is stored under *)
Lemma ident_inv_fields s i t cl : ident_inv s -> get_claim s (i, t) = Ok cl -> cl_issuer cl = i /\ cl_topic cl = t.
Proof.
  intros Hi Hg. unfold get_claim in Hg. apply of_option_ok in Hg. apply (ii_key s Hi) in Hg. inversion Hg. auto.
Qed.
