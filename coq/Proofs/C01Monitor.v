(* The C01 monitor accepts every run of the model. *)
From SC Require Import Lib.Prelude Lib.Int Lib.Host Model.Math Model.Fungible Model.FungibleObs
  Proofs.FungibleBasics Proofs.FungibleExec Proofs.FungibleAllow Proofs.FungibleInv Proofs.FungibleObsFacts
  Run.C01.

Lemma call_addrs_incl cl a : In a (call_addrs cl) -> In a (call_addrs_all cl).
Proof. destruct cl; cbn; tauto. Qed.

(* the events of a successful call describe exactly the movement the monitor expects *)
Lemma exec_expected c s cl s' v evs (prev : obs) :
  exec c s cl = Ok (s', v, evs) ->
  (forall old new, cl = RRecover old new -> bal_of prev old = balance (tk s) old) ->
  evs_move evs = expected_move prev cl v.
Proof.
  intros H P. apply exec_spec in H. destruct H as (Sp & _ & _).
  destruct cl; unfold call_spec in Sp; cbn [expected_move].
  - destruct Sp as (_ & _ & -> & _). reflexivity.
  - destruct Sp as (_ & -> & _). reflexivity.
  - destruct Sp as (_ & _ & [m ->] & _). reflexivity.
  - destruct Sp as (_ & _ & -> & _). reflexivity.
  - destruct Sp as (_ & _ & -> & _). reflexivity.
  - destruct Sp as (_ & _ & -> & _). reflexivity.
  - destruct Sp as (_ & _ & -> & _). reflexivity.
  - destruct Sp as (_ & _ & ->). reflexivity.
  - destruct Sp as (_ & _ & ->). reflexivity.
  - destruct Sp as (_ & _ & ->). reflexivity.
  - destruct Sp as (_ & -> & _). reflexivity.
  - destruct Sp as (_ & -> & _). reflexivity.
  - destruct Sp as (_ & _ & ->). reflexivity.
  - destruct Sp as (_ & _ & ->). reflexivity.
  - destruct Sp as (_ & _ & ->). reflexivity.
  - destruct Sp as (_ & _ & ->). reflexivity.
  - destruct Sp as (_ & -> & _). reflexivity.
  - destruct Sp as (_ & -> & _). reflexivity.
  - destruct Sp as (_ & -> & _). reflexivity.
  - destruct Sp as (_ & -> & _). reflexivity.
  - destruct Sp as [(-> & _ & -> & _)|(-> & _ & ->)]; cbn; [reflexivity|]. rewrite (P old new eq_refl). reflexivity.
  - destruct Sp as (_ & -> & _). reflexivity.
  - destruct Sp as (_ & -> & _). reflexivity.
  - destruct Sp as (_ & -> & _). reflexivity.
  - destruct Sp as (_ & -> & _). reflexivity.
  - destruct Sp as (_ & -> & _). reflexivity.
Qed.

(* the addresses a movement names are addresses of the call *)
Lemma expected_move_addrs prev cl v f t amt a :
  expected_move prev cl v = (f, t, amt) -> (f = Some a \/ t = Some a) -> In a (call_addrs cl).
Proof.
  destruct cl; cbn [expected_move call_addrs]; unfold no_move; intros E [X|X]; subst;
    try (destruct (v =? 0)); inversion E; subst; cbn; auto; try discriminate.
Qed.

(* ---- the monitor's ghost ledger agrees with the functional one ---- *)
Lemma getd_acredit l o v a : getd (acredit l o v) a = ocredit (getd l) o v a.
Proof.
  destruct o as [x|]; cbn; auto. rewrite getd_set. unfold credit. destruct (N.eqb a x) eqn:E; auto.
  apply N.eqb_eq in E. subst. reflexivity.
Qed.

Section Run.
  Variable c : cfg.
  Variable univ : list addr.
  Hypothesis W : wf_host (c_host c).
  Hypothesis ND : NoDup univ.

  (* relation between the monitor's memory and the model state *)
  Record J (m : m01) (s : state) : Prop := {
    j_prev : m_prev m = observe c univ s;
    j_sup : o_supply (m_prev m) = supply (tk s);
    j_bal : forall a, In a univ -> bal_of (m_prev m) a = balance (tk s) a;
    j_allow : forall p, In p (pairs univ) -> allow_of (m_prev m) p = allow_obs s p;
    j_led : forall a, getd (m_led m) a = balance (tk s) a;
    j_lsup : m_sup m = supply (tk s);
    j_extra : o_extra (m_prev m) = [] \/ o_extra (m_prev m) = extras c univ s;
    j_core : core_inv (tk s);
    j_supp : forall a, ~ In a univ -> balance (tk s) a = 0
  }.

  Lemma J_init start : J (m01_init (observe c univ (init start))) (init start).
  Proof.
    constructor; cbn [m_prev m_led m_sup m01_init]; auto.
    - intros a H. apply bal_of_observe. exact H.
    - intros p H. apply allow_of_observe. exact H.
    - apply core_inv_tok0.
  Qed.

  Lemma forallb_univ (P : addr -> bool) : (forall a, In a univ -> P a = true) -> forallb P univ = true.
  Proof. intros H. apply forallb_forall. exact H. Qed.

  Lemma c01_item_model m s cl :
    J m s -> forallb (fun a => mem a univ) (call_addrs_all cl) = true ->
    let '(s', out, evs) := step c s cl in
    exists m', c01_item univ m (cl, out, evs, observe c univ s') = (true, m') /\ J m' s'.
  Proof.
    intros Jm Wc. destruct Jm as [JP J1 J2 J3 J4 J5 JX J6 J7].
    assert (Wc' : forall a, In a (call_addrs cl) -> In a univ).
    { intros a Ha. rewrite forallb_forall in Wc. apply mem_In. apply Wc. apply call_addrs_incl. exact Ha. }
    pose proof (common_ok_model c univ s cl W J6 Wc) as CM. rewrite <- JP in CM.
    unfold step in *. destruct (exec c s cl) as [[[s1 v] evs]|] eqn:E.
    - (* the call succeeds *)
      destruct (exec_balances _ _ _ _ _ _ W J6 E) as (Len & M & C1).
      assert (EX : evs_move evs = expected_move (m_prev m) cl v).
      { apply (exec_expected _ _ _ _ _ _ _ E). intros old new ->. apply J2. apply Wc'. cbn. auto. }
      rewrite (observe_w_hist c univ s1) in *.
      destruct (expected_move (m_prev m) cl v) as [[f t] amt] eqn:XM.
      rewrite EX in M. destruct M as (Pa & Mb & Ms).
      assert (SUPP : forall a, ~ In a univ -> balance (tk s1) a = 0).
      { intros a Ha. rewrite Mb. rewrite !ocredit_outside; auto.
        - intros x -> ->. apply Ha. apply Wc'. eapply expected_move_addrs; eauto.
        - intros x -> ->. apply Ha. apply Wc'. eapply expected_move_addrs; eauto. }
      (* the ledger after replaying this call's events *)
      assert (LED : forall a, getd (fst (fold_left led_apply evs (m_led m, m_sup m))) a = balance (tk s1) a /\
                              snd (fold_left led_apply evs (m_led m, m_sup m)) = supply (tk s1)).
      { intros a. destruct evs as [|e [|e2 r]]; cbn [fold_left]; cbn [length] in Len; [| |lia].
        - cbn in EX. unfold no_move in EX. inversion EX; subst. cbn [fst snd]. rewrite Mb, Ms, J4, J5. cbn. split; [reflexivity|lia].
        - cbn in EX. unfold led_apply. rewrite EX. cbn [fst snd].
          rewrite getd_acredit. rewrite Mb, Ms, J5. split; [|reflexivity].
          apply ocredit_at. rewrite getd_acredit. apply ocredit_at. apply J4. }
      eexists. split.
      + unfold c01_item. cbn [m_prev m_led m_sup]. rewrite XM, CM.
        replace (forallb (ev_ok univ) evs) with true.
        2:{ symmetry. destruct evs as [|e [|e2 r]]; cbn [forallb length] in *; [reflexivity| |lia].
            cbn in EX. unfold ev_ok. rewrite EX. rewrite andb_true_r.
            assert (Q : forall o, (o = f \/ o = t) -> match o with Some a => mem a univ | None => true end = true).
            { intros [a|] Ho; auto. apply mem_In. apply Wc'. eapply expected_move_addrs; eauto. destruct Ho; subst; auto. }
            rewrite (Q f), (Q t) by auto. apply Z.leb_le in Pa. rewrite Pa. reflexivity. }
        replace (sum_over (bal_of (observe c univ s1)) univ =? o_supply (observe c univ s1)) with true.
        2:{ symmetry. apply Z.eqb_eq. cbn [o_supply observe].
            rewrite (sum_over_ext _ (balance (tk s1))) by (intros; apply bal_of_observe; auto).
            apply sum_balances_supply; auto. apply C1. }
        replace (forallb (fun a => 0 <=? bal_of (observe c univ s1) a) univ) with true.
        2:{ symmetry. apply forallb_univ. intros a Ha. rewrite bal_of_observe by auto. apply Z.leb_le. apply C1. }
        replace (moved_ok univ (m_prev m) (observe c univ s1) (f, t, amt)) with true.
        2:{ symmetry. unfold moved_ok. apply andb_true_iff. split; [apply andb_true_iff; split|].
            - apply Z.leb_le. exact Pa.
            - apply forallb_univ. intros a Ha. apply Z.eqb_eq. rewrite bal_of_observe by auto. rewrite Mb.
              apply ocredit_at. apply ocredit_at. symmetry. apply J2. exact Ha.
            - apply Z.eqb_eq. cbn [o_supply observe]. rewrite Ms, J1. reflexivity. }
        replace (forallb (fun a => getd (fst (fold_left led_apply evs (m_led m, m_sup m))) a =? bal_of (observe c univ s1) a) univ) with true.
        2:{ symmetry. apply forallb_univ. intros a Ha. apply Z.eqb_eq. rewrite bal_of_observe by auto. apply LED. }
        replace (snd (fold_left led_apply evs (m_led m, m_sup m)) =? o_supply (observe c univ s1)) with true.
        2:{ symmetry. apply Z.eqb_eq. cbn [o_supply observe]. apply (LED 0%N). }
        cbn. reflexivity.
      + constructor; cbn [m_prev m_led m_sup tk w_hist]; auto.
        * intros a Ha. apply bal_of_observe. exact Ha.
        * intros p Hp. rewrite allow_of_observe by exact Hp. reflexivity.
        * intros a. apply LED.
        * apply (LED 0%N).
    - (* the call fails: nothing changes *)
      eexists. split.
      + unfold c01_item. cbn [m_prev m_led m_sup fold_left fst snd forallb]. rewrite CM.
        replace (sum_over (bal_of (observe c univ s)) univ =? o_supply (observe c univ s)) with true.
        2:{ symmetry. apply Z.eqb_eq. cbn [o_supply observe].
            rewrite (sum_over_ext _ (balance (tk s))) by (intros; apply bal_of_observe; auto).
            apply sum_balances_supply; auto. apply J6. }
        replace (forallb (fun a => 0 <=? bal_of (observe c univ s) a) univ) with true.
        2:{ symmetry. apply forallb_univ. intros a Ha. rewrite bal_of_observe by auto. apply Z.leb_le. apply J6. }
        replace (same_token univ (m_prev m) (observe c univ s)) with true.
        2:{ symmetry. unfold same_token. apply andb_true_iff. split; [apply andb_true_iff; split|].
            - apply Z.eqb_eq. cbn [o_supply observe]. symmetry. exact J1.
            - apply forallb_univ. intros a Ha. apply Z.eqb_eq. rewrite bal_of_observe by auto. symmetry. apply J2. exact Ha.
            - apply forallb_forall. intros p Hp. rewrite allow_of_observe by auto. rewrite J3 by auto. apply z3_eqb_refl. }
        replace (forallb (fun a => getd (m_led m) a =? bal_of (observe c univ s) a) univ) with true.
        2:{ symmetry. apply forallb_univ. intros a Ha. apply Z.eqb_eq. rewrite bal_of_observe by auto. apply J4. }
        replace (m_sup m =? o_supply (observe c univ s)) with true.
        2:{ symmetry. apply Z.eqb_eq. cbn [o_supply observe]. exact J5. }
        cbn. reflexivity.
      + constructor; cbn [m_prev m_led m_sup]; auto.
        * intros a Ha. apply bal_of_observe. exact Ha.
        * intros p Hp. apply allow_of_observe. exact Hp.
  Qed.

  Lemma c01_from_model cs : forall m s i,
    J m s -> forallb (fun cl => forallb (fun a => mem a univ) (call_addrs_all cl)) cs = true ->
    c01_from univ m (model_items c univ s cs) i = 0%N.
  Proof.
    induction cs as [|cl r IH]; intros m s i Jm Wf; cbn [model_items c01_from]; auto.
    cbn [forallb] in Wf. apply andb_true_iff in Wf. destruct Wf as [W1 W2].
    pose proof (c01_item_model m s cl Jm W1) as X.
    destruct (step c s cl) as [[s' out] evs]. destruct X as (m' & X1 & X2).
    cbn [c01_from]. rewrite X1. apply IH; auto.
  Qed.
End Run.

Definition wf_cfg (c : cfg) : bool := 1 <=? min_temp_ttl (c_host c).

Theorem check_accepts_model : forall c univ start cs,
  wf_cfg c = true -> wf_calls univ cs = true ->
  check (model_trace c univ start cs) = (0%N, 0%N, 0%N).
Proof.
  intros c univ start cs Wc Wf. unfold check. rewrite diff_model.
  unfold wf_calls, wf_calls_all in Wf. apply andb_true_iff in Wf. destruct Wf as [Wn Wa].
  unfold c01_monitor, model_trace. cbn [t_univ t_start t_items t_init].
  rewrite (genesis_observe c univ start Wn).
  rewrite (c01_from_model c univ); auto.
  - unfold wf_host. apply Z.leb_le. exact Wc.
  - apply nodupb_NoDup. exact Wn.
  - apply J_init.
Qed.
