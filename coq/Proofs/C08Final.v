(* C08: the theorems of DESIGN.md 5 C08, over all call sequences. *)
From SC Require Import Lib.Prelude Lib.Int Lib.Host Model.Timelock Model.TimelockGhost
  Proofs.TimelockGhost Proofs.Timelock.

Lemma option_eq_dec (x : option id) (i : id) : {x = Some i} + {x <> Some i}.
Proof.
  destruct x as [j|]; [|right; discriminate].
  destruct (N.eq_dec j i) as [->|H]; [left; reflexivity|right; congruence].
Qed.

Section WithHash.
  Variable hash : op -> id.
  Notation step := (step hash).
  Notation run := (run hash).
  Notation hist := (hist hash).
  Notation subject := (subject hash).

  (* ---------------- one step, by cases ---------------- *)
  Lemma step_cases s c :
    (snd (step s c) = Fail /\ fst (step s c) = s) \/
    (snd (step s c) <> Fail /\
     match c with
     | Schedule o d =>
         snd (step s c) = Ok (Some (hash o)) /\
         fst (step s c) = with_tl s (set_mark (tls s) (hash o) (sat_add_u32 (now (tls s)) d)) /\
         mark (tls s) (hash o) = 0 /\ 0 <= d <= MAXU32 /\ exists m, min_delay (tls s) = Some m /\ m <= d
     | Execute o t =>
         t = true /\ snd (step s c) = Ok None /\
         tls (fst (step s c)) = set_mark (tls s) (hash o) DONE_LEDGER /\
         runs (fst (step s c)) = alist_set (args o) (run_count s (args o) + 1) (runs s) /\
         state_of (tls s) (hash o) = Ready /\ (pred o = 0%N \/ state_of (tls s) (pred o) = Done)
     | SetExecute o =>
         snd (step s c) = Ok None /\
         fst (step s c) = with_tl s (set_mark (tls s) (hash o) DONE_LEDGER) /\
         state_of (tls s) (hash o) = Ready /\ (pred o = 0%N \/ state_of (tls s) (pred o) = Done)
     | Cancel i =>
         snd (step s c) = Ok None /\
         fst (step s c) = with_tl s (del_mark (tls s) i) /\
         (state_of (tls s) i = Waiting \/ state_of (tls s) i = Ready)
     | SetMinDelay d =>
         snd (step s c) = Ok None /\ 0 <= d <= MAXU32 /\
         fst (step s c) = with_tl s {| now := now (tls s); min_delay := Some d; marks := marks (tls s) |}
     | Advance n =>
         snd (step s c) = Ok None /\ 0 <= n /\ now (tls s) + n <= MAXU32 /\
         fst (step s c) = with_tl s {| now := now (tls s) + n; min_delay := min_delay (tls s); marks := marks (tls s) |}
     end).
  Proof.
    destruct c as [o d|o t|o|i|d|n]; cbn [Timelock.step].
    - destruct (schedule_operation hash (tls s) o d) as [[t i]|] eqn:E; cbn [fst snd]; [right|left; auto].
      apply schedule_ok in E. destruct E as (Hd & Hm & m & Hmin & Hle & -> & ->).
      split; [discriminate|]. repeat split; auto; try lia. exists m; auto.
    - destruct (set_execute_operation hash (tls s) o) as [t'|] eqn:E; cbn [fst snd]; [|left; auto].
      destruct t; cbn [fst snd]; [right|left; auto].
      apply set_execute_ok in E. destruct E as (Hr & Hp & ->). split; [discriminate|]. repeat split; auto.
    - destruct (set_execute_operation hash (tls s) o) as [t'|] eqn:E; cbn [fst snd]; [right|left; auto].
      apply set_execute_ok in E. destruct E as (Hr & Hp & ->). split; [discriminate|]. repeat split; auto.
    - destruct (cancel_operation (tls s) i) as [t'|] eqn:E; cbn [fst snd]; [right|left; auto].
      apply cancel_ok in E. destruct E as (Hs & ->). split; [discriminate|]. repeat split; auto.
    - unfold set_min_delay. destruct (in_u32 d) eqn:E; cbn [guard bind fst snd]; [right|left; auto].
      apply in_u32_iff in E. split; [discriminate|]. repeat split; auto; lia.
    - destruct ((0 <=? n) && in_u32 (now (tls s) + n)) eqn:E; cbn [fst snd]; [right|left; auto].
      apply andb_true_iff in E. destruct E as [E1 E2]. apply Z.leb_le in E1. apply in_u32_iff in E2.
      split; [discriminate|]. repeat split; auto; lia.
  Qed.

  Lemma is_ok_true_iff {A} (r : res A) : is_ok r = true <-> r <> Fail.
  Proof. destruct r; cbn; split; congruence. Qed.

  (* the ledger never goes back *)
  Lemma step_now_mono s c : now (tls s) <= now (tls (fst (step s c))).
  Proof.
    destruct (step_cases s c) as [[_ ->]|[_ H]]; [lia|].
    destruct c.
    - destruct H as (_ & -> & _). cbn. lia.
    - destruct H as (_ & _ & -> & _). cbn. lia.
    - destruct H as (_ & -> & _). cbn. lia.
    - destruct H as (_ & -> & _). cbn. lia.
    - destruct H as (_ & _ & ->). cbn. lia.
    - destruct H as (_ & ? & _ & ->). cbn. lia.
  Qed.

  Lemma hist_now_ge cs : forall s lo, lo <= now (tls s) -> forall x, In x (hist s cs) -> lo <= he_now x.
  Proof.
    induction cs as [|c cs IH]; intros s lo Hs x; cbn [TimelockGhost.hist In]; [tauto|].
    intros [<-|Hx]; [exact Hs|].
    eapply IH; [|exact Hx]. pose proof (step_now_mono s c). lia.
  Qed.

  (* ---------------- frame: a call touches only the id it names ---------------- *)
  Theorem step_frame s c i :
    subject c <> Some i -> mark (tls (fst (step s c))) i = mark (tls s) i.
  Proof.
    intros Hs. destruct (step_cases s c) as [[_ ->]|[_ H]]; [reflexivity|].
    destruct c; cbn [TimelockGhost.subject] in Hs.
    - destruct H as (_ & -> & _). cbn [with_tl tls]. apply mark_set_neq. congruence.
    - destruct H as (_ & _ & -> & _). apply mark_set_neq. congruence.
    - destruct H as (_ & -> & _). cbn [with_tl tls]. apply mark_set_neq. congruence.
    - destruct H as (_ & -> & _). cbn [with_tl tls]. apply mark_del_neq. congruence.
    - destruct H as (_ & _ & ->). reflexivity.
    - destruct H as (_ & _ & _ & ->). reflexivity.
  Qed.

  (* with a collision-free hash: calls about other descriptors do not touch [o] *)
  Theorem id_independent :
    (forall a b, hash a = hash b -> a = b) ->
    forall s c o,
      (forall o' d, c = Schedule o' d -> o' <> o) ->
      (forall o', executes c = Some o' -> o' <> o) ->
      c <> Cancel (hash o) ->
      mark (tls (fst (step s c))) (hash o) = mark (tls s) (hash o).
  Proof.
    intros Hinj s c o Hs He Hc. apply step_frame.
    destruct c as [o' d|o' t|o'|i|d|n]; cbn [TimelockGhost.subject]; try discriminate.
    - intros E. injection E as E. apply Hinj in E. exact (Hs o' d eq_refl E).
    - intros E. injection E as E. apply Hinj in E. exact (He o' eq_refl E).
    - intros E. injection E as E. apply Hinj in E. exact (He o' eq_refl E).
    - intros E. injection E as E. subst i. apply Hc. reflexivity.
  Qed.

  (* ---------------- post-conditions of the successful calls ---------------- *)
  Theorem execute_marks_done s c o :
    executes c = Some o -> is_ok (snd (step s c)) = true ->
    state_of (tls (fst (step s c))) (hash o) = Done.
  Proof.
    intros He Hok. apply is_ok_true_iff in Hok. destruct (step_cases s c) as [[Hf _]|[_ H]]; [contradiction|].
    destruct c as [o' d|o' t|o'|i|d|n]; cbn in He; inversion He; subst o'.
    - destruct H as (_ & _ & -> & _). apply state_done_iff. apply mark_set_eq.
    - destruct H as (_ & -> & _). apply state_done_iff. apply mark_set_eq.
  Qed.
  Theorem cancel_clears s i :
    is_ok (snd (step s (Cancel i))) = true ->
    (state_of (tls s) i = Waiting \/ state_of (tls s) i = Ready) /\ state_of (tls (fst (step s (Cancel i)))) i = Unset.
  Proof.
    intros Hok. apply is_ok_true_iff in Hok. destruct (step_cases s (Cancel i)) as [[Hf _]|[_ H]]; [contradiction|].
    destruct H as (_ & -> & Hp). split; [exact Hp|]. apply state_unset_iff. apply mark_del_eq.
  Qed.
  Theorem schedule_stores_ready_ledger s o d :
    0 <= now (tls s) -> is_ok (snd (step s (Schedule o d))) = true ->
    state_of (tls s) (hash o) = Unset /\ (exists m, min_delay (tls s) = Some m /\ m <= d) /\
    snd (step s (Schedule o d)) = Ok (Some (hash o)) /\
    mark (tls (fst (step s (Schedule o d)))) (hash o) = Z.min (now (tls s) + d) MAXU32.
  Proof.
    intros Hn Hok. apply is_ok_true_iff in Hok. destruct (step_cases s (Schedule o d)) as [[Hf _]|[_ H]]; [contradiction|].
    destruct H as (Hr & -> & Hm & Hd & m & Hmin & Hle). split; [apply state_unset_iff; exact Hm|].
    split; [exists m; auto|]. split; [exact Hr|]. cbn [with_tl tls]. rewrite mark_set_eq. apply sat_add_u32_spec. lia.
  Qed.

  (* ---------------- persistence: only calls change what is stored ---------------- *)
  Theorem min_delay_frame s c :
    min_delay (tls (fst (step s c))) <> min_delay (tls s) -> exists d, c = SetMinDelay d.
  Proof.
    intros Hne. destruct (step_cases s c) as [[_ E]|[_ H]]; [rewrite E in Hne; contradiction|].
    destruct c.
    - destruct H as (_ & E & _). rewrite E in Hne. cbn in Hne. contradiction.
    - destruct H as (_ & _ & E & _). rewrite E in Hne. cbn in Hne. contradiction.
    - destruct H as (_ & E & _). rewrite E in Hne. cbn in Hne. contradiction.
    - destruct H as (_ & E & _). rewrite E in Hne. cbn in Hne. contradiction.
    - eauto.
    - destruct H as (_ & _ & _ & E). rewrite E in Hne. cbn in Hne. contradiction.
  Qed.

  Definition is_advance (c : call) : bool := match c with Advance _ => true | _ => false end.

  (* any amount of time passing, in any number of steps, leaves every stored item as it is *)
  Theorem time_changes_nothing_stored : forall cs s,
    forallb is_advance cs = true ->
    marks (tls (run s cs)) = marks (tls s) /\ min_delay (tls (run s cs)) = min_delay (tls s) /\
    runs (run s cs) = runs s /\ now (tls s) <= now (tls (run s cs)).
  Proof.
    induction cs as [|c cs IH]; intros s Hall; [cbn; repeat split; lia|].
    cbn [forallb] in Hall. apply andb_true_iff in Hall. destruct Hall as [Hc Hall].
    rewrite run_cons. destruct (IH (fst (step s c)) Hall) as (I1 & I2 & I3 & I4).
    destruct c; try discriminate.
    assert (E : marks (tls (fst (step s (Advance n)))) = marks (tls s) /\ min_delay (tls (fst (step s (Advance n)))) = min_delay (tls s)
                /\ runs (fst (step s (Advance n))) = runs s /\ now (tls s) <= now (tls (fst (step s (Advance n))))).
    { destruct (step_cases s (Advance n)) as [[_ E]|[_ (_ & Hn & _ & E)]]; rewrite E; cbn; repeat split; lia. }
    destruct E as (E1 & E2 & E3 & E4). rewrite I1, I2, I3. repeat split; auto; lia.
  Qed.

  (* ---------------- done is forever ---------------- *)
  Lemma step_done s c i :
    mark (tls s) i = 1 ->
    mark (tls (fst (step s c))) i = 1 /\ (subject c = Some i -> snd (step s c) = Fail).
  Proof.
    intros Hd.
    assert (Hst : state_of (tls s) i = Done) by (apply state_done_iff; exact Hd).
    destruct (step_cases s c) as [[Hf ->]|[Hnf H]]; [auto|].
    destruct (option_eq_dec (subject c) i) as [Hs|Hs].
    - exfalso. destruct c; cbn [TimelockGhost.subject] in Hs; try discriminate; injection Hs as Hs; subst i.
      + destruct H as (_ & _ & Hm & _). lia.
      + destruct H as (_ & _ & _ & _ & Hr & _). congruence.
      + destruct H as (_ & _ & Hr & _). congruence.
      + destruct H as (_ & _ & [Hr|Hr]); congruence.
    - split; [|intros; contradiction]. rewrite step_frame by exact Hs. exact Hd.
  Qed.

  Theorem done_forever : forall cs s i,
    state_of (tls s) i = Done ->
    state_of (tls (run s cs)) i = Done /\
    forall x, In x (hist s cs) -> subject (he_call x) = Some i -> he_ok x = false.
  Proof.
    induction cs as [|c cs IH]; intros s i Hd.
    - split; [exact Hd|]. intros x [].
    - apply state_done_iff in Hd. destruct (step_done s c i Hd) as [Hd1 Hf].
      apply state_done_iff in Hd1. destruct (IH _ _ Hd1) as [Hd2 Hall].
      rewrite run_cons. split; [exact Hd2|].
      cbn [TimelockGhost.hist]. intros x [<-|Hx]; [|auto].
      cbn [he_call he_ok]. intros Hs. rewrite (Hf Hs). reflexivity.
  Qed.

  (* ---------------- the state machine ---------------- *)
  Theorem state_machine : forall s c i,
    2 <= now (tls s) ->
    let s' := fst (step s c) in
    match state_of (tls s) i, state_of (tls s') i with
    | Unset, Unset | Waiting, Waiting | Ready, Ready | Done, Done => True
    | Unset, Waiting | Unset, Ready =>
        exists o d, c = Schedule o d /\ hash o = i /\ mark (tls s') i = Z.min (now (tls s) + d) MAXU32
    | Waiting, Ready => exists n, c = Advance n /\ mark (tls s) i <= now (tls s) + n
    | Waiting, Unset | Ready, Unset => c = Cancel i
    | Ready, Done => exists o, executes c = Some o /\ hash o = i
    | _, _ => False
    end.
  Proof.
    intros s c i Hn s'. subst s'.
    destruct (step_cases s c) as [[_ ->]|[_ H]].
    { destruct (state_of (tls s) i); exact I. }
    destruct (option_eq_dec (subject c) i) as [Hs|Hs].
    - (* the id the call names *)
      destruct c; cbn [TimelockGhost.subject] in Hs; try discriminate; injection Hs as Hs; subst i.
      + destruct H as (_ & -> & Hm & Hd & m & _). cbn [with_tl tls].
        apply state_unset_iff in Hm. rewrite Hm.
        assert (Hmk : mark (set_mark (tls s) (hash o) (sat_add_u32 (now (tls s)) delay)) (hash o)
                      = Z.min (now (tls s) + delay) MAXU32)
          by (rewrite mark_set_eq; apply sat_add_u32_spec; lia).
        destruct (state_of (set_mark (tls s) (hash o) (sat_add_u32 (now (tls s)) delay)) (hash o)) eqn:E.
        * apply state_unset_iff in E. rewrite Hmk, MAXU32_val in E. lia.
        * exists o, delay. auto.
        * exists o, delay. auto.
        * apply state_done_iff in E. rewrite Hmk, MAXU32_val in E. lia.
      + destruct H as (_ & _ & -> & _ & Hr & _). rewrite Hr.
        replace (state_of (set_mark (tls s) (hash o) DONE_LEDGER) (hash o)) with Done
          by (symmetry; apply state_done_iff; apply mark_set_eq).
        exists o. auto.
      + destruct H as (_ & -> & Hr & _). rewrite Hr. cbn [with_tl tls].
        replace (state_of (set_mark (tls s) (hash o) DONE_LEDGER) (hash o)) with Done
          by (symmetry; apply state_done_iff; apply mark_set_eq).
        exists o. auto.
      + destruct H as (_ & -> & Hr). cbn [with_tl tls].
        replace (state_of (del_mark (tls s) i0) i0) with Unset
          by (symmetry; apply state_unset_iff; apply mark_del_eq).
        destruct Hr as [-> | ->]; reflexivity.
    - (* any other id: the stored ledger is unchanged; only the clock can move the state *)
      pose proof (step_frame s c i Hs) as Hmk.
      pose proof (step_now_mono s c) as Hmono.
      unfold state_of. rewrite Hmk.
      destruct (state_of_mark_cases (now (tls s)) (mark (tls s) i)) as [[? ->]|[[? ->]|[(?&?&?&->)|(?&?&?&->)]]];
      destruct (state_of_mark_cases (now (tls (fst (step s c)))) (mark (tls s) i)) as [[? ->]|[[? ->]|[(?&?&?&->)|(?&?&?&->)]]];
      try exact I; try lia.
      (* Waiting -> Ready: only Advance moves the clock *)
      destruct c.
      + destruct H as (_ & Hf & _). rewrite Hf in *. cbn in *. lia.
      + destruct H as (_ & _ & Hf & _). rewrite Hf in *. cbn in *. lia.
      + destruct H as (_ & Hf & _). rewrite Hf in *. cbn in *. lia.
      + destruct H as (_ & Hf & _). rewrite Hf in *. cbn in *. lia.
      + destruct H as (_ & _ & Hf). rewrite Hf in *. cbn in *. lia.
      + destruct H as (_ & ? & _ & Hf). rewrite Hf in *. cbn in *. exists n. split; [reflexivity|lia].
  Qed.

  (* ---------------- execution needs the whole history ---------------- *)
  (* any run log the history machine accepts (ledgers >= 2) *)
  Theorem ghost_execute_conditions : forall H gf H1 e H2 o,
    gfold hash [] H = Some gf -> (forall x, In x H -> 2 <= he_now x) ->
    H = H1 ++ e :: H2 ->
    executes (he_call e) = Some o -> he_ok e = true ->
    exists Ha o' d m at_ Hb,
      H1 = Ha ++ HE (Schedule o' d) at_ (Some m) true :: Hb /\ hash o' = hash o /\
      m <= d /\ Z.min (at_ + d) MAXU32 <= he_now e /\
      (forall x, In x Hb -> subject (he_call x) = Some (hash o) -> he_ok x = false) /\
      (forall x o2, In x Ha -> executes (he_call x) = Some o2 -> hash o2 = hash o -> he_ok x = false) /\
      (pred o = 0%N \/ exists x o2, In x H1 /\ executes (he_call x) = Some o2 /\ hash o2 = pred o /\ he_ok x = true) /\
      (forall t, he_call e = Execute o t -> t = true).
  Proof.
    intros H gf H1 e H2 o Hf Hge Hh Hex Hok.
    rewrite Hh, gfold_app in Hf.
    destruct (gfold hash [] H1) as [g1|] eqn:Eg1; [|discriminate].
    cbn [TimelockGhost.gfold] in Hf. rewrite Hok in Hf.
    destruct (gstep hash g1 (he_now e) (he_min e) (he_call e) true) as [g2|] eqn:Eg2; [|discriminate].
    assert (Hsub : subject (he_call e) = Some (hash o)).
    { destruct (he_call e); cbn in Hex; inversion Hex; reflexivity. }
    pose proof (gstep_subject hash _ _ _ _ _ _ Eg2 Hsub) as P.
    assert (Q : exists a d m, alist_get (hash o) g1 = Some (GP a d m) /\ sat_add_u32 a d <= he_now e
                /\ (pred o = 0%N \/ alist_get (pred o) g1 = Some GD)
                /\ (forall t, he_call e = Execute o t -> t = true)).
    { destruct (he_call e) as [o' d|o' t|o'|i|d|n]; cbn in Hex; inversion Hex; subst o'.
      - destruct P as [-> (a & d & m & Pa & Pb & Pc & _)]. exists a, d, m. repeat split; auto.
        intros t Ht. inversion Ht. reflexivity.
      - destruct P as (a & d & m & Pa & Pb & Pc & _). exists a, d, m. repeat split; auto. discriminate. }
    destruct Q as (a & d & m & Hgp & Hsat & Hpred & Htgt).
    destruct (gfold_pending hash H1 [] g1 (hash o) a d m Eg1 Hgp)
      as [[Habs _]|(Ha & o' & Hb & HH1 & Ho' & (Hmd & Hd) & Hno & ga & Hga & Hnone)]; [discriminate|].
    exists Ha, o', d, m, a, Hb. split; [exact HH1|]. split; [exact Ho'|]. split; [exact Hmd|].
    assert (Ha2 : 2 <= he_now (HE (Schedule o' d) a (Some m) true)).
    { apply Hge. rewrite Hh, HH1.
      apply in_or_app. left. apply in_or_app. right. left. reflexivity. }
    cbn [he_now] in Ha2.
    split; [rewrite <- sat_add_u32_spec by lia; exact Hsat|].
    split; [exact Hno|]. split.
    - intros x o2 Hx Hx2 Ho2. destruct (he_ok x) eqn:Eok; [exfalso|reflexivity].
      destruct (in_split _ _ Hx) as (A & B & ->). rewrite gfold_app in Hga.
      destruct (gfold hash [] A) as [gA|] eqn:EA; [|discriminate].
      cbn [TimelockGhost.gfold] in Hga. rewrite Eok in Hga.
      destruct (gstep hash gA (he_now x) (he_min x) (he_call x) true) as [gx|] eqn:Ex; [|discriminate].
      pose proof (gstep_exec_done hash _ _ _ _ _ _ Ex Hx2) as Hdn. rewrite Ho2 in Hdn.
      destruct (gfold_done_stays hash B gx ga (hash o) Hga Hdn) as [Hdd _]. congruence.
    - split; [|exact Htgt].
      destruct Hpred as [Hp|Hp]; [left; exact Hp|right].
      destruct (gfold_done hash H1 [] g1 (pred o) Eg1 Hp) as [Habs|(x & o2 & Hx & Hxok & Hxe & Hxo)]; [discriminate|].
      exists x, o2. auto.
  Qed.

  Theorem execute_conditions : forall n0 cs H1 e H2 o,
    2 <= n0 <= MAXU32 ->
    hist (init n0) cs = H1 ++ e :: H2 ->
    executes (he_call e) = Some o -> he_ok e = true ->
    exists Ha o' d m at_ Hb,
      H1 = Ha ++ HE (Schedule o' d) at_ (Some m) true :: Hb /\ hash o' = hash o /\
      m <= d /\ Z.min (at_ + d) MAXU32 <= he_now e /\
      (forall x, In x Hb -> subject (he_call x) = Some (hash o) -> he_ok x = false) /\
      (forall x o2, In x Ha -> executes (he_call x) = Some o2 -> hash o2 = hash o -> he_ok x = false) /\
      (pred o = 0%N \/ exists x o2, In x H1 /\ executes (he_call x) = Some o2 /\ hash o2 = pred o /\ he_ok x = true) /\
      (forall t, he_call e = Execute o t -> t = true).
  Proof.
    intros n0 cs H1 e H2 o Hn0 Hh Hex Hok.
    destruct (run_ghost hash cs (init n0) [] (init_ginv n0 Hn0)) as (gf & Hf & _).
    apply (ghost_execute_conditions (hist (init n0) cs) gf H1 e H2 o Hf); auto.
    intros x Hx. apply (hist_now_ge cs (init n0) 2); [cbn; lia|exact Hx].
  Qed.
End WithHash.

(* the explicit pairing is injective: the hypothesis of [id_independent] is satisfiable *)
Lemma tri_double w : (2 * (w * (w + 1) / 2) = w * (w + 1))%N.
Proof.
  induction w using N.peano_ind; [reflexivity|].
  replace (N.succ w * (N.succ w + 1))%N with (w * (w + 1) + (w + 1) * 2)%N by nia.
  rewrite N.div_add by discriminate. nia.
Qed.

Lemma cantor_inj a b a' b' : cantor a b = cantor a' b' -> a = a' /\ b = b'.
Proof.
  unfold cantor. intros H.
  pose proof (tri_double (a + b)) as E. pose proof (tri_double (a' + b')) as E'.
  set (T := ((a + b) * (a + b + 1) / 2)%N) in *. set (T' := ((a' + b') * (a' + b' + 1) / 2)%N) in *.
  assert (Hw : (a + b = a' + b')%N).
  { destruct (N.lt_trichotomy (a + b) (a' + b')) as [Hlt|[Heq|Hgt]]; [exfalso|exact Heq|exfalso]; nia. }
  assert (T = T') by (subst T T'; rewrite Hw; reflexivity). lia.
Qed.

Lemma hash_pair_inj a b : hash_pair a = hash_pair b -> a = b.
Proof.
  destruct a, b. unfold hash_pair; simpl. intros H.
  apply cantor_inj in H. destruct H as [-> H].
  apply cantor_inj in H. destruct H as [-> H].
  apply cantor_inj in H. destruct H as [-> H].
  apply cantor_inj in H. destruct H as [-> ->]. reflexivity.
Qed.
