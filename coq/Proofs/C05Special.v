(* C05: special addresses as parties, aliasing, and allowance histories.
   - an address that did not sign cannot act (the vault's own address, another contract's address, an account
     without signature): every call whose acting party is not among the signers fails, whatever the state;
   - the vault's own address is never a SOURCE: on every reachable state it has granted no allowance (neither on
     the asset token nor on its own shares), so nothing leaves its asset or share balance through a call naming
     it as from / owner; the shares it holds never decrease and its assets leave only through a successful
     withdraw / redeem;
   - an operator other than from / owner needs the allowance, whoever the receiver is (receiver = operator,
     receiver = owner included);
   - an allowance past its live_until is unusable until it is approved again. *)
From SC Require Import Lib.Prelude Lib.Int Lib.Host Model.Math Proofs.Math Model.Vault Proofs.VaultSpec Proofs.VaultToken
  Proofs.VaultOps Proofs.VaultRate Proofs.VaultLive Proofs.C05Final Run.C05 Proofs.C05Monitor.
From Coq Require Import ZifyBool.

(* ---------- who acts in a call: the address whose require_auth() opens it ---------- *)
Definition actor (cl : call) : option addr :=
  match cl with
  | Deposit _ _ _ o _ | MintS _ _ _ o _ | Withdraw _ _ _ o _ | Redeem _ _ _ o _ => Some o
  | ATransfer f _ _ _ | STransfer f _ _ _ => Some f
  | AApprove o _ _ _ _ | SApprove o _ _ _ _ => Some o
  | STransferFrom sp _ _ _ _ => Some sp
  | AMint _ _ | Advance _ | Query _ | SetAsset _ | SetOffset _ => None
  end.

Lemma unsigned_actor_fails c s cl a :
  actor cl = Some a -> auth_root (call_auths cl) a = false -> step c s cl = (s, Fail).
Proof.
  intros Ha Hu. unfold step.
  destruct cl; cbn [actor call_auths] in *; try discriminate; inversion Ha; subst a; cbn [step_res];
    unfold deposit, mint, withdraw, redeem, lift_tok, tok_transfer, tok_transfer_from, tok_approve;
    rewrite Hu; reflexivity.
Qed.

Lemma vault_cannot_act c s cl : wf_call cl = true -> actor cl = Some V -> step c s cl = (s, Fail).
Proof.
  intros Hwf Ha. destruct (wf_call_parts cl Hwf) as (Hnv & _).
  apply (unsigned_actor_fails c s cl V Ha). apply no_vault_auth_root. exact Hnv.
Qed.

(* ---------- the vault has granted no allowance on its own shares either ---------- *)
Definition VInv (s : state) : Prop := forall sp, fst (allow (share s) V sp) = 0.

Lemma spend_keeps_vault_row c nw t o sp x t' :
  spend_allowance c nw t o sp x = Ok t' -> (forall q, fst (allow t V q) = 0) -> forall q, fst (allow t' V q) = 0.
Proof.
  intros H Hz q. destruct (N.eq_dec o V) as [->|Hne].
  - destruct (spend_zero_owner _ _ _ _ _ _ _ H Hz) as (_ & ->). apply Hz.
  - destruct (spend_allowance_ok _ _ _ _ _ _ _ H) as (_ & _ & _ & _ & _ & Hoth).
    rewrite Hoth by (intros Heq; apply Hne; symmetry; exact Heq). apply Hz.
Qed.

Lemma withdraw_internal_vinv c s r ow a sh o s' :
  withdraw_internal c s r ow a sh o = Ok s' -> VInv s -> VInv s'.
Proof.
  unfold withdraw_internal, VInv. intros H Hz. bsplit H s0 E0. bsplit H s1 E1. bsplit H uc Ec. bsplit H a1 E2.
  inversion H; subst s'; clear H. cbn [share].
  apply update_burn in E1. destruct E1 as (_ & ->). cbn [allow].
  destruct (negb (N.eqb o ow)).
  - apply (spend_keeps_vault_row _ _ _ _ _ _ _ E0 Hz).
  - inversion E0; subst s0. exact Hz.
Qed.

Lemma step_res_vinv c s cl s' o : Inv c s -> VInv s -> wf_call cl = true ->
  step_res c s cl = Ok (s', o) -> VInv s'.
Proof.
  intros Hi Hz Hwf H. destruct (wf_call_parts cl Hwf) as (Hnv & _).
  destruct cl as [a r f op au|x r f op au|a r ow op au|x r ow op au|f t a au|t a|ow sp a l au|f t a au|sp f t a au|ow sp a l au|n|q|sa|so];
    cbn [step_res call_auths] in *.
  - destruct o as [sh evs]. destruct (deposit_ok _ _ _ _ _ _ _ _ _ _ H Hi Hnv) as (_ & _ & He & _).
    unfold VInv. rewrite (de_sallow _ _ _ _ _ _ _ He). exact Hz.
  - destruct o as [sh evs]. destruct (mint_ok _ _ _ _ _ _ _ _ _ _ H Hi Hnv) as (_ & _ & He & _).
    unfold VInv. rewrite (de_sallow _ _ _ _ _ _ _ He). exact Hz.
  - unfold withdraw in H. bsplit H u E0. bsplit H m E1. bsplit H u1 E2. bsplit H sh E3. bsplit H s0 E4.
    inversion H; subst. apply (withdraw_internal_vinv _ _ _ _ _ _ _ _ E4 Hz).
  - unfold redeem in H. bsplit H u E0. bsplit H u1 E2. bsplit H sh E3. bsplit H s0 E4.
    inversion H; subst. apply (withdraw_internal_vinv _ _ _ _ _ _ _ _ E4 Hz).
  - unfold lift_tok in H. bsplit H t1 E. inversion H; subst. exact Hz.
  - unfold lift_tok in H. bsplit H t1 E. inversion H; subst. exact Hz.
  - unfold lift_tok in H. bsplit H t1 E. inversion H; subst. exact Hz.
  - unfold lift_tok in H. bsplit H t1 E. inversion H; subst.
    apply tok_transfer_ok in E. destruct E as (_ & _ & ->). exact Hz.
  - unfold lift_tok in H. bsplit H t1 E. inversion H; subst.
    apply tok_transfer_from_ok in E. destruct E as (_ & _ & t2 & Esp & ->).
    unfold VInv. cbn [set_share share allow]. apply (spend_keeps_vault_row _ _ _ _ _ _ _ Esp Hz).
  - unfold lift_tok, tok_approve in H. bsplit H t1 E. inversion H; subst. bsplit E u Eg. apply guard_ok in Eg.
    apply set_allowance_ok in E. destruct E as (_ & _ & _ & ->).
    assert (Hf : ow <> V) by (intros ->; rewrite (no_vault_auth_root au Hnv) in Eg; discriminate).
    unfold VInv. cbn [set_share share set_allow allow]. intros q.
    rewrite upd2_neq by (left; intros Heq; apply Hf; symmetry; exact Heq). apply Hz.
  - bsplit H u Eg. inversion H; subst. exact Hz.
  - bsplit H v Eqq. inversion H; subst. exact Hz.
  - bsplit H s1 E. inversion H; subst. unfold vault_set_asset in E. destruct (v_asset s); inversion E; subst. exact Hz.
  - bsplit H s1 E. inversion H; subst. unfold vault_set_decimals_offset in E. bsplit E u Eg.
    destruct (v_off s); inversion E; subst. exact Hz.
Qed.

Lemma run_vinv c : wf_cfg c -> forall cs s, Inv c s -> VInv s -> forallb wf_call cs = true -> VInv (run c s cs).
Proof.
  intros Hc. induction cs as [|cl cs IH]; intros s Hi Hz Hwf; cbn [run fold_left]; [exact Hz|].
  cbn [forallb] in Hwf. apply andb_prop in Hwf as [Hw Hws].
  destruct (step_inv_rate c s cl Hc Hi Hw) as (Hi1 & _).
  apply IH; [exact Hi1| |exact Hws].
  unfold step in *. destruct (step_res c s cl) as [[s' o]|] eqn:E; cbn [fst] in *; [|exact Hz].
  apply (step_res_vinv c s cl s' o Hi Hz Hw E).
Qed.

Lemma reach_vinv c n0 cs : 0 <= c_off c -> forallb wf_call cs = true -> VInv (run c (init c n0) cs).
Proof.
  intros Hc Hw. apply run_vinv; auto. - apply Inv_init. - intros sp. reflexivity.
Qed.

Lemma zero_allowance nw t o sp : (forall q, fst (allow t o q) = 0) -> allowance nw t o sp = 0.
Proof. intros Hz. unfold allowance, allowance_data. destruct (snd (allow t o sp) <? nw); [reflexivity|apply Hz]. Qed.

(* ---------- the vault's address is never a source ---------- *)
Lemma step_of_ok c s cl s' v evs : step c s cl = (s', Ok (v, evs)) -> step_res c s cl = Ok (s', (v, evs)).
Proof. unfold step. destruct (step_res c s cl) as [[s1 o1]|]; intros H; inversion H; subst; reflexivity. Qed.

Lemma vault_never_source_state c s cl s' v evs : wf_cfg c -> Inv c s -> VInv s -> wf_call cl = true ->
  step c s cl = (s', Ok (v, evs)) ->
  match cl with
  | Deposit a _ f _ _ => f = V -> a = 0
  | MintS _ _ f _ _ => f = V -> v = 0
  | Withdraw a _ ow _ _ => ow = V -> a = 0 /\ v = 0
  | Redeem x _ ow _ _ => ow = V -> x = 0 /\ v = 0
  | STransferFrom _ f _ a _ => f = V -> a = 0
  | ATransfer f _ _ _ | STransfer f _ _ _ => f <> V
  | AApprove o _ _ _ _ | SApprove o _ _ _ _ => o <> V
  | _ => True
  end.
Proof.
  intros Hc Hi Hz Hwf H. apply step_of_ok in H. destruct (wf_call_parts cl Hwf) as (Hnv & Hr).
  pose proof Hi as (_ & _ & Hza & _).
  destruct cl as [a r f op au|x r f op au|a r ow op au|x r ow op au|f t a au|t a|ow sp a l au|f t a au|sp f t a au|ow sp a l au|n|q|sa|so];
    cbn [step_res call_auths call_amount] in *; auto.
  - intros ->. destruct (deposit_pull _ _ _ _ _ _ _ _ _ _ H) as (Hau & Hx & Hal).
    assert (Hne : op <> V) by (intros ->; rewrite (no_vault_auth_full au Hnv) in Hau; discriminate).
    destruct (Hal Hne) as (Hsp & _). rewrite (zero_allowance _ _ _ _ Hza) in Hsp. lia.
  - intros ->. destruct (mint_pull _ _ _ _ _ _ _ _ _ _ H) as (Hau & Hx & Hal).
    assert (Hne : op <> V) by (intros ->; rewrite (no_vault_auth_full au Hnv) in Hau; discriminate).
    destruct (Hal Hne) as (Hsp & _). rewrite (zero_allowance _ _ _ _ Hza) in Hsp. lia.
  - intros ->. pose proof (withdraw_spend _ _ _ _ _ _ _ _ _ _ H) as Hsp.
    destruct (withdraw_ok _ _ _ _ _ _ _ _ _ _ H Hi) as (Hp & _ & _ & _ & Hau & _ & Ha & _).
    assert (Hne : op <> V) by (intros ->; rewrite (no_vault_auth_root au Hnv) in Hau; discriminate).
    specialize (Hsp Hne). rewrite (zero_allowance _ _ _ _ Hz) in Hsp. assert (v = 0) by lia. subst v.
    destruct (to_shares_ceil c s Hc Hi a 0 Hr Hp) as (_ & _ & Hce & _).
    destruct (den_pos c s Hc Hi) as (_ & HSP & _). split; [nia|reflexivity].
  - intros ->. pose proof (redeem_spend _ _ _ _ _ _ _ _ _ _ H) as Hsp.
    destruct (redeem_ok _ _ _ _ _ _ _ _ _ _ H Hi) as (Hp & _ & _ & _ & Hau & _ & Ha & _).
    assert (Hne : op <> V) by (intros ->; rewrite (no_vault_auth_root au Hnv) in Hau; discriminate).
    specialize (Hsp Hne). rewrite (zero_allowance _ _ _ _ Hz) in Hsp. assert (x = 0) by lia. subst x.
    destruct (to_assets_floor c s Hc Hi 0 v Hr Hp) as (_ & Hv & Hfl & _).
    destruct (den_pos c s Hc Hi) as (_ & HSP & _). split; [reflexivity|nia].
  - unfold lift_tok in H. bsplit H t1 E. apply tok_transfer_ok in E. destruct E as (Hau & _).
    intros ->. rewrite (no_vault_auth_root au Hnv) in Hau. discriminate.
  - unfold lift_tok, tok_approve in H. bsplit H t1 E. bsplit E u Eg. apply guard_ok in Eg.
    intros ->. rewrite (no_vault_auth_root au Hnv) in Eg. discriminate.
  - unfold lift_tok in H. bsplit H t1 E. apply tok_transfer_ok in E. destruct E as (Hau & _).
    intros ->. rewrite (no_vault_auth_root au Hnv) in Hau. discriminate.
  - intros ->. unfold lift_tok in H. bsplit H t1 E. apply tok_transfer_from_ok in E.
    destruct E as (_ & _ & t2 & Esp & _). destruct (spend_zero_owner _ _ _ _ _ _ _ Esp Hz) as (-> & _). reflexivity.
  - unfold lift_tok, tok_approve in H. bsplit H t1 E. bsplit E u Eg. apply guard_ok in Eg.
    intros ->. rewrite (no_vault_auth_root au Hnv) in Eg. discriminate.
Qed.

(* the vault's own holdings: its shares never decrease; its assets decrease only by a successful withdraw / redeem *)
Lemma vault_holdings_state c s cl : wf_cfg c -> Inv c s -> VInv s -> wf_call cl = true ->
  let s' := fst (step c s cl) in
  bal (share s) V <= bal (share s') V /\
  (total_assets s' < total_assets s ->
   match cl with Withdraw _ _ _ _ _ | Redeem _ _ _ _ _ => snd (step c s cl) <> Fail | _ => False end).
Proof.
  intros Hc Hi Hz Hwf s'. subst s'.
  destruct (step c s cl) as [s1 [[v evs]|]] eqn:Est; cbn [fst snd].
  2:{ pose proof (no_effect_final c s cl) as (Hne & _). rewrite Est in Hne. cbn [fst snd] in Hne.
      rewrite (Hne eq_refl). split; [lia|]. intros; lia. }
  pose proof (vault_never_source_state c s cl s1 v evs Hc Hi Hz Hwf Est) as Hsrc.
  pose proof (step_of_ok _ _ _ _ _ _ Est) as H. destruct (wf_call_parts cl Hwf) as (Hnv & Hr).
  destruct cl as [a r f op au|x r f op au|a r ow op au|x r ow op au|f t a au|t a|ow sp a l au|f t a au|sp f t a au|ow sp a l au|n|q|sa|so];
    cbn [step_res call_auths call_amount] in *.
  - destruct (deposit_ok _ _ _ _ _ _ _ _ _ _ H Hi Hnv) as (_ & _ & He & _ & Ha & Hv & HA' & _).
    rewrite (de_sbal _ _ _ _ _ _ _ He), HA'. split; [|lia].
    destruct (N.eq_dec r V) as [->|Hne]; [rewrite upd_eq; lia|].
    rewrite upd_neq by (intros Heq; apply Hne; symmetry; exact Heq). lia.
  - destruct (mint_ok _ _ _ _ _ _ _ _ _ _ H Hi Hnv) as (_ & _ & He & _ & Ha & Hv & HA' & _).
    rewrite (de_sbal _ _ _ _ _ _ _ He), HA'. split; [|lia].
    destruct (N.eq_dec r V) as [->|Hne]; [rewrite upd_eq; lia|].
    rewrite upd_neq by (intros Heq; apply Hne; symmetry; exact Heq). lia.
  - destruct (withdraw_ok _ _ _ _ _ _ _ _ _ _ H Hi) as (_ & _ & _ & He & _ & Hsh & _).
    rewrite (we_sbal _ _ _ _ _ _ _ He). split; [|intros _; discriminate].
    destruct (N.eq_dec ow V) as [->|Hne]; [destruct (Hsrc eq_refl) as (_ & ->); rewrite upd_eq; lia|].
    rewrite upd_neq by (intros Heq; apply Hne; symmetry; exact Heq). lia.
  - destruct (redeem_ok _ _ _ _ _ _ _ _ _ _ H Hi) as (_ & _ & _ & He & _ & Hsh & _).
    rewrite (we_sbal _ _ _ _ _ _ _ He). split; [|intros _; discriminate].
    destruct (N.eq_dec ow V) as [->|Hne]; [destruct (Hsrc eq_refl) as (-> & _); rewrite upd_eq; lia|].
    rewrite upd_neq by (intros Heq; apply Hne; symmetry; exact Heq). lia.
  - unfold lift_tok in H. bsplit H t1 E. inversion H; subst. apply tok_transfer_ok in E. destruct E as (_ & Hx & ->).
    unfold total_assets. cbn [set_asset asset share bal]. split; [lia|].
    destruct (N.eq_dec t V) as [->|Hne]; [rewrite move_to by exact Hsrc; lia|].
    rewrite move_other by auto. lia.
  - unfold lift_tok in H. bsplit H t1 E. inversion H; subst. apply update_mint in E. destruct E as (Hx & _ & ->).
    unfold total_assets. cbn [set_asset asset share bal]. split; [lia|].
    destruct (N.eq_dec t V) as [->|Hne]; [rewrite upd_eq; lia|].
    rewrite upd_neq by (intros Heq; apply Hne; symmetry; exact Heq). lia.
  - unfold lift_tok, tok_approve in H. bsplit H t1 E. inversion H; subst. bsplit E u Eg.
    apply set_allowance_ok in E. destruct E as (_ & _ & _ & ->).
    unfold total_assets. cbn [set_asset asset share bal set_allow]. split; lia.
  - unfold lift_tok in H. bsplit H t1 E. inversion H; subst. apply tok_transfer_ok in E. destruct E as (_ & Hx & ->).
    unfold total_assets. cbn [set_share asset share bal]. split; [|lia].
    destruct (N.eq_dec t V) as [->|Hne]; [rewrite move_to by exact Hsrc; lia|].
    rewrite move_other by auto. lia.
  - unfold lift_tok in H. bsplit H t1 E. inversion H; subst.
    apply tok_transfer_from_ok in E. destruct E as (_ & Hx & t2 & _ & ->).
    unfold total_assets. cbn [set_share asset share bal]. split; [|lia].
    destruct (N.eq_dec f V) as [->|Hf].
    + rewrite (Hsrc eq_refl). destruct (N.eq_dec t V) as [->|Hne]; [rewrite move_self; lia|].
      rewrite move_from by (intros Heq; apply Hne; symmetry; exact Heq). lia.
    + destruct (N.eq_dec t V) as [->|Hne]; [rewrite move_to by exact Hf; lia|].
      rewrite move_other by auto. lia.
  - unfold lift_tok, tok_approve in H. bsplit H t1 E. inversion H; subst. bsplit E u Eg.
    apply set_allowance_ok in E. destruct E as (_ & _ & _ & ->).
    unfold total_assets. cbn [set_share asset share bal set_allow]. split; lia.
  - bsplit H u Eg. inversion H; subst. unfold total_assets. cbn [asset share]. split; lia.
  - bsplit H v0 Eqq. inversion H; subst. split; lia.
  - bsplit H s2 E. inversion H; subst. unfold vault_set_asset in E. destruct (v_asset s); inversion E; subst.
    unfold total_assets. cbn [asset share]. split; lia.
  - bsplit H s2 E. inversion H; subst. unfold vault_set_decimals_offset in E. bsplit E u Eg.
    destruct (v_off s); inversion E; subst. unfold total_assets. cbn [asset share]. split; lia.
Qed.

(* ---------- pinned forms ---------- *)
Lemma unsigned_party_final c s cl a :
  actor cl = Some a -> auth_root (call_auths cl) a = false -> step c s cl = (s, Fail).
Proof. apply unsigned_actor_fails. Qed.

Lemma vault_cannot_act_final c s cl : wf_call cl = true -> actor cl = Some V -> step c s cl = (s, Fail).
Proof. apply vault_cannot_act. Qed.

Lemma vault_no_allowance_final c n0 cs sp : 0 <= c_off c -> forallb wf_call cs = true ->
  let s := run c (init c n0) cs in
  allowance (now s) (asset s) V sp = 0 /\ allowance (now s) (share s) V sp = 0.
Proof.
  intros Hc Hw s. pose proof (reach c n0 cs Hc Hw) as Hi. pose proof (reach_vinv c n0 cs Hc Hw) as Hz. fold s in Hi, Hz.
  destruct Hi as (_ & _ & Hza & _). split; apply zero_allowance; assumption.
Qed.

Lemma vault_never_source_final c n0 cs cl s' v evs : 0 <= c_off c -> forallb wf_call cs = true -> wf_call cl = true ->
  let s := run c (init c n0) cs in
  step c s cl = (s', Ok (v, evs)) ->
  match cl with
  | Deposit a _ f _ _ => f = V -> a = 0
  | MintS _ _ f _ _ => f = V -> v = 0
  | Withdraw a _ ow _ _ => ow = V -> a = 0 /\ v = 0
  | Redeem x _ ow _ _ => ow = V -> x = 0 /\ v = 0
  | STransferFrom _ f _ a _ => f = V -> a = 0
  | ATransfer f _ _ _ | STransfer f _ _ _ => f <> V
  | AApprove o _ _ _ _ | SApprove o _ _ _ _ => o <> V
  | _ => True
  end.
Proof.
  intros Hc Hw Hwf s. apply vault_never_source_state; auto; [apply reach|apply reach_vinv]; auto.
Qed.

Lemma vault_holdings_final c n0 cs cl : 0 <= c_off c -> forallb wf_call cs = true -> wf_call cl = true ->
  let s := run c (init c n0) cs in let s' := fst (step c s cl) in
  bal (share s) V <= bal (share s') V /\
  (total_assets s' < total_assets s ->
   match cl with Withdraw _ _ _ _ _ | Redeem _ _ _ _ _ => snd (step c s cl) <> Fail | _ => False end).
Proof.
  intros Hc Hw Hwf s. apply vault_holdings_state; auto; [apply reach|apply reach_vinv]; auto.
Qed.

(* K5: an operator other than from / owner needs the allowance - for every receiver (any state) *)
Lemma operator_needs_allowance_final c s cl s' v evs : step c s cl = (s', Ok (v, evs)) ->
  match cl with
  | Deposit a _ f o _ => o <> f -> 0 <= a <= allowance (now s) (asset s) f o
  | MintS _ _ f o _ => o <> f -> 0 <= v <= allowance (now s) (asset s) f o
  | Withdraw _ _ ow o _ => o <> ow -> 0 <= v <= allowance (now s) (share s) ow o
  | Redeem x _ ow o _ => o <> ow -> 0 <= x <= allowance (now s) (share s) ow o
  | STransferFrom sp f _ a _ => 0 <= a <= allowance (now s) (share s) f sp
  | _ => True
  end.
Proof.
  intros H. apply step_of_ok in H.
  destruct cl as [a r f op au|x r f op au|a r ow op au|x r ow op au|f t a au|t a|ow sp a l au|f t a au|sp f t a au|ow sp a l au|n|q|sa|so];
    cbn [step_res] in *; auto.
  - intros Hne. destruct (deposit_pull _ _ _ _ _ _ _ _ _ _ H) as (_ & _ & Hal). apply (Hal Hne).
  - intros Hne. destruct (mint_pull _ _ _ _ _ _ _ _ _ _ H) as (_ & _ & Hal). apply (Hal Hne).
  - apply (withdraw_spend _ _ _ _ _ _ _ _ _ _ H).
  - apply (redeem_spend _ _ _ _ _ _ _ _ _ _ H).
  - unfold lift_tok in H. bsplit H t1 E. apply tok_transfer_from_ok in E. destruct E as (_ & _ & t2 & Esp & _).
    destruct (spend_allowance_ok _ _ _ _ _ _ _ Esp) as (Hx & _). exact Hx.
Qed.

(* K6: an allowance past its live_until is dead - whatever amount is still stored - until a new approve *)
Lemma expired_allowance_final c s : forall o f,
  snd (allow (asset s) f o) < now s -> o <> f ->
  (forall a r au, 0 < a -> snd (step c s (Deposit a r f o au)) = Fail) /\
  (forall x r au a, preview_mint c s x = Ok a -> 0 < a -> snd (step c s (MintS x r f o au)) = Fail).
Proof.
  intros o f Hexp Hne.
  assert (Hz : allowance (now s) (asset s) f o = 0).
  { unfold allowance, allowance_data. assert (E : (snd (allow (asset s) f o) <? now s) = true) by lia. rewrite E. reflexivity. }
  split.
  - intros a r au Ha. destruct (step c s (Deposit a r f o au)) as [s1 [[v evs]|]] eqn:E; [|reflexivity].
    pose proof (operator_needs_allowance_final _ _ _ _ _ _ E Hne) as Hal. cbn in Hal. lia.
  - intros x r au a Hp Ha. destruct (step c s (MintS x r f o au)) as [s1 [[v evs]|]] eqn:E; [|reflexivity].
    pose proof (operator_needs_allowance_final _ _ _ _ _ _ E Hne) as Hal. cbn beta iota in Hal.
    pose proof (preview_exact_final _ _ _ _ _ _ E) as Hpv. cbn beta iota in Hpv. rewrite Hp in Hpv. inversion Hpv; subst. lia.
Qed.

Lemma expired_share_allowance_final c s : forall o ow,
  snd (allow (share s) ow o) < now s -> o <> ow ->
  (forall x r au, 0 < x -> snd (step c s (Redeem x r ow o au)) = Fail) /\
  (forall a r au sh, preview_withdraw c s a = Ok sh -> 0 < sh -> snd (step c s (Withdraw a r ow o au)) = Fail).
Proof.
  intros o ow Hexp Hne.
  assert (Hz : allowance (now s) (share s) ow o = 0).
  { unfold allowance, allowance_data. assert (E : (snd (allow (share s) ow o) <? now s) = true) by lia. rewrite E. reflexivity. }
  split.
  - intros x r au Hx. destruct (step c s (Redeem x r ow o au)) as [s1 [[v evs]|]] eqn:E; [|reflexivity].
    pose proof (operator_needs_allowance_final _ _ _ _ _ _ E Hne) as Hal. cbn in Hal. lia.
  - intros a r au sh Hp Hsh. destruct (step c s (Withdraw a r ow o au)) as [s1 [[v evs]|]] eqn:E; [|reflexivity].
    pose proof (operator_needs_allowance_final _ _ _ _ _ _ E Hne) as Hal. cbn beta iota in Hal.
    pose proof (preview_exact_final _ _ _ _ _ _ E) as Hpv. cbn beta iota in Hpv. rewrite Hp in Hpv. inversion Hpv; subst. lia.
Qed.

Lemma actor_unfold cl : actor cl =
  match cl with
  | Deposit _ _ _ o _ | MintS _ _ _ o _ | Withdraw _ _ _ o _ | Redeem _ _ _ o _ => Some o
  | ATransfer f _ _ _ | STransfer f _ _ _ => Some f
  | AApprove o _ _ _ _ | SApprove o _ _ _ _ => Some o
  | STransferFrom sp _ _ _ _ => Some sp
  | AMint _ _ | Advance _ | Query _ | SetAsset _ | SetOffset _ => None
  end.
Proof. reflexivity. Qed.

(* ---------- the monitor rejects hand-made traces in which the vault's own address acts or is a source ---------- *)
(* nobody signs, operator = from = the vault (which holds 100 assets): 50 shares appear for address 2 *)
Definition vault_deposits_unsigned : item :=
  (Deposit 50 2%N 0%N 0%N [], (Ok 50%Z, Ok MAX128), Ok (50%Z, [(0%N, 0%N, 0%N, 2%N, 50%Z, 50%Z)]),
   {| o_ab := [100; 0; 0]%Z; o_sb := [0; 100; 50]%Z; o_sup := 150; o_ta := 100; o_aal := zz3; o_sal := zz3; o_dec := 7; o_asset := 1; o_now := 10 |}).
Example monitor_rejects_vault_as_unsigned_operator : monitor (hdr0, [fund1; dep100; vault_deposits_unsigned]) = 3%N.
Proof. vm_compute. reflexivity. Qed.
(* shares sent to the vault's own address are redeemed by a stranger without any allowance *)
Definition give_vault : item := (STransfer 1%N 0%N 40 [(1%N, ARoot)], (Ok 0%Z, Ok 0%Z), Ok (0%Z, []),
  {| o_ab := [100; 0; 0]%Z; o_sb := [40; 60; 0]%Z; o_sup := 100; o_ta := 100; o_aal := zz3; o_sal := zz3; o_dec := 7; o_asset := 1; o_now := 10 |}).
Definition take_vault_shares : item :=
  (Redeem 40 2%N 0%N 2%N [(2%N, ARoot)], (Ok 40%Z, Ok 40%Z), Ok (40%Z, [(1%N, 2%N, 2%N, 0%N, 40%Z, 40%Z)]),
   {| o_ab := [60; 0; 40]%Z; o_sb := [0; 60; 0]%Z; o_sup := 60; o_ta := 60; o_aal := zz3; o_sal := zz3; o_dec := 7; o_asset := 1; o_now := 10 |}).
Example monitor_accepts_shares_sent_to_vault : monitor (hdr0, [fund1; dep100; give_vault]) = 0%N.
Proof. vm_compute. reflexivity. Qed.
Example monitor_rejects_vault_shares_taken : monitor (hdr0, [fund1; dep100; give_vault; take_vault_shares]) = 4%N.
Proof. vm_compute. reflexivity. Qed.
