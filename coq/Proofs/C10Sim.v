(* The full simulation used for C10: clock, balances, approvals, ownership (three flavours),
   enumerations, cardinalities - preserved along every model run whose mints are fresh. *)
From Coq Require Import Permutation.
From SC Require Import Lib.Prelude Lib.Int Lib.Host Model.Nft Run.NftCommon Proofs.NftMaps Proofs.NftFrame
  Proofs.NftInv Proofs.NftCons Proofs.NftOwn Proofs.NftSim Proofs.NftScope Proofs.NftCard Proofs.NftEnum Run.C10 Proofs.C10Card.
Local Open Scope N_scope.

Lemma oaddr_eqb_refl' a : oaddr_eqb a a = true.
Proof. destruct a; cbn; [apply N.eqb_refl | reflexivity]. Qed.

(* facts about what the model did (used by the cardinality argument) *)
Lemma legal0_model fl c s g cl s' r :
  Sim fl s g -> fresh_ok fl c s cl = true -> exec fl c s cl = Ok (s', r) -> legal0 g cl (Ok r) = true.
Proof.
  intros [Hc Ho] Hf He. pose proof (own_of fl c s g Ho) as Hown. pose proof He as He0. apply exec_ok in He.
  destruct Hc as ((Hn&Hx)&_).
  destruct cl; cbn [exec_spec] in He; cbn [legal0 fresh_ok] in *; try reflexivity.
  - destruct He as (Hfl&->&_). rewrite <- Hx, N.leb_refl, <- Hown.
    unfold fresh_ok in Hf. destruct fl; try exact Hf. exfalso; apply Hfl; reflexivity.
  - destruct He as (Hfl&_). rewrite <- Hown.
    unfold fresh_ok in Hf. destruct fl; try exact Hf. exfalso; apply Hfl; reflexivity.
  - destruct He as (->&Hz&_&_&->&_). rewrite <- Hx.
    replace (next_id s + amount - 1 + 1 - amount) with (next_id s) by lia.
    rewrite N.leb_refl, andb_true_r. apply andb_true_iff. split; apply N.leb_le; lia.
  - destruct He as (_&Hw&_). rewrite <- Hown, Hw. apply oaddr_eqb_refl'.
  - destruct He as (_&_&Hw&_). rewrite <- Hown, Hw. apply oaddr_eqb_refl'.
  - destruct He as (_&Hw&_). rewrite <- Hown, Hw. apply oaddr_eqb_refl'.
  - destruct He as (_&_&Hw&_). rewrite <- Hown, Hw. apply oaddr_eqb_refl'.
Qed.

(* what the model did is legal in the eyes of the C10 monitor (no side condition) *)
Lemma c10_legal_model fl c s g cl s' r :
  Sim fl s g -> exec fl c s cl = Ok (s', r) -> c10_legal g cl (Ok r) = true.
Proof.
  intros [Hc Ho] He. pose proof (own_of fl c s g Ho) as Hown. apply exec_ok in He.
  destruct cl; cbn [exec_spec] in He; cbn [c10_legal]; try reflexivity.
  - destruct He as (_&->). reflexivity.
  - destruct He as (_&->&_). reflexivity.
  - destruct He as (_&Hw&->&_). rewrite <- Hown, Hw. apply oaddr_eqb_refl'.
  - destruct He as (_&_&Hw&->&_). rewrite <- Hown, Hw. apply oaddr_eqb_refl'.
  - destruct He as (_&Hw&->&_). rewrite <- Hown, Hw. apply oaddr_eqb_refl'.
  - destruct He as (_&_&Hw&->&_). rewrite <- Hown, Hw. apply oaddr_eqb_refl'.
  - destruct He as (_&->&_). reflexivity.
  - destruct He as (_&->&_). reflexivity.
Qed.

(* total supply of the enumerable flavour *)
Lemma add_owner_total x o id y : add_to_owner_enumeration x o id = Ok y -> total y = total x.
Proof. unfold add_to_owner_enumeration. intros H. inv_res H. subst. reflexivity. Qed.
Lemma remove_owner_total x o id y : remove_from_owner_enumeration x o id = Ok y -> total y = total x.
Proof.
  unfold remove_from_owner_enumeration. intros H. inv_res H. subst.
  destruct (x0 =? balance x o); inv_res G0; subst; reflexivity.
Qed.
Lemma add_enums_total x o id y : add_to_enumerations x o id = Ok y -> total y = total x + 1.
Proof.
  unfold add_to_enumerations. intros H. inv_res H. subst. apply add_owner_total in G.
  unfold add_to_global_enumeration. cbn [total set_gtidx set_gtok set_total]. lia.
Qed.
Lemma remove_enums_total x o id y : remove_from_enumerations x o id = Ok y -> 1 <= total x /\ total y = total x - 1.
Proof.
  unfold remove_from_enumerations. intros H. inv_res H. apply N.leb_le in G0. apply remove_owner_total in G.
  unfold remove_from_global_enumeration in H. inv_res H. subst y. cbn [total set_gtidx set_gtok set_total]. lia.
Qed.

Lemma exec_total c s cl s' r : exec FEnum c s cl = Ok (s', r) ->
  match cl with
  | MintSeq _ | MintId _ _ => total s' = total s + 1
  | Burn _ _ _ | BurnFrom _ _ _ _ => 1 <= total s /\ total s' = total s - 1
  | _ => total s' = total s
  end.
Proof.
  intros H.
  assert (Hupd : forall s0 from to id x, update FEnum c s0 from to id = Ok x -> (from = None -> to <> None) -> total x = total s0).
  { intros s0 from to id x Hu Hft. apply update_core in Hu; [|exact Hft]. destruct Hu as [(_&_&_&_&_&(E&_)) _]. exact E. }
  destruct cl; cbn [exec] in H.
  - apply Ok_inj in H. inversion H. reflexivity.
  - inv_res H. unfold increment_token_id in G. inv_res G. subst x. cbv beta iota zeta in H. inv_res H. subst.
    apply Hupd in G; [|discriminate]. cbn [enum_after_mint] in G1. apply add_enums_total in G1. cbn [total set_next_id] in G. lia.
  - inv_res H. subst. apply Hupd in G; [|discriminate]. cbn [enum_after_mint] in G0. apply add_enums_total in G0. lia.
  - discriminate.
  - inv_res H. subst. apply Hupd in G0; [|discriminate]. cbn [enum_after_transfer] in G1.
    destruct (from =? to); [apply Ok_inj in G1; subst; exact G0|]. inv_res G1.
    repeat match goal with
      | X : remove_from_owner_enumeration _ _ _ = Ok _ |- _ => apply remove_owner_total in X
      | X : add_to_owner_enumeration _ _ _ = Ok _ |- _ => apply add_owner_total in X end. lia.
  - inv_res H. subst. apply Hupd in G1; [|discriminate]. cbn [enum_after_transfer] in G2.
    destruct (from =? to); [apply Ok_inj in G2; subst; exact G1|]. inv_res G2.
    repeat match goal with
      | X : remove_from_owner_enumeration _ _ _ = Ok _ |- _ => apply remove_owner_total in X
      | X : add_to_owner_enumeration _ _ _ = Ok _ |- _ => apply add_owner_total in X end. lia.
  - inv_res H. subst. apply Hupd in G0; [|discriminate]. cbn [enum_after_burn] in G1. apply remove_enums_total in G1. lia.
  - inv_res H. subst. apply Hupd in G1; [|discriminate]. cbn [enum_after_burn] in G2. apply remove_enums_total in G2. lia.
  - inv_res H. subst. apply approve_for_owner_ok in G1. destruct G1 as [_ [[_ ->]|(_&_&en&_&_&->)]]; reflexivity.
  - inv_res H. subst. apply approve_for_all_ok in G. destruct G as [_ [[_ ->]|(_&_&en&_&_&->)]]; reflexivity.
Qed.

Definition Sim10 (fl : flavour) (s : state) (g : ghost) : Prop :=
  Sim fl s g /\
  CardInv (fl = FCons) g /\
  (fl = FEnum -> EnumInv s (rget (g_own g)) /\ total s = g_supply g) /\
  (fl <> FEnum -> total s = 0).

Lemma sim10_init fl now0 : Sim10 fl (init now0) (ghost0 now0).
Proof.
  split; [apply sim_init|]. split; [apply card_init|]. split; [|reflexivity].
  intros _. split; [apply enum_init | reflexivity].
Qed.

Lemma exec_total_other fl c s cl s' r : fl <> FEnum -> exec fl c s cl = Ok (s', r) -> total s' = total s.
Proof.
  intros Hf H.
  assert (Hupd : forall s0 from to id x, update fl c s0 from to id = Ok x -> (from = None -> to <> None) -> total x = total s0).
  { intros s0 from to id x Hu Hft. apply update_core in Hu; [|exact Hft]. destruct Hu as [(_&_&_&_&_&(E&_)) _]. exact E. }
  assert (Hm : forall x to id y, enum_after_mint fl x to id = Ok y -> y = x) by (intros x to id y; destruct fl; cbn; intros X; try (apply Ok_inj in X; auto); contradiction).
  assert (Ht : forall x a b id y, enum_after_transfer fl x a b id = Ok y -> y = x) by (intros x a b id y; destruct fl; cbn; intros X; try (apply Ok_inj in X; auto); contradiction).
  assert (Hb : forall x a id y, enum_after_burn fl x a id = Ok y -> y = x) by (intros x a id y; destruct fl; cbn; intros X; try (apply Ok_inj in X; auto); contradiction).
  destruct cl; cbn [exec] in H.
  - apply Ok_inj in H. inversion H. reflexivity.
  - destruct fl; try discriminate; try contradiction;
      (inv_res H; unfold increment_token_id in G; inv_res G; subst x; cbv beta iota zeta in H; inv_res H; subst;
       apply Hupd in G; [|discriminate]; apply Hm in G1; subst; exact G).
  - destruct fl; try discriminate; try contradiction;
      (inv_res H; subst; apply Hupd in G; [|discriminate]; apply Hm in G0; subst; exact G).
  - destruct fl; try discriminate; try contradiction.
    inv_res H. unfold increment_token_id in G0. inv_res G0. subst x. cbv beta iota zeta in H. inv_res H. subst.
    repeat match goal with
      | X : increase_balance _ _ _ = Ok _ |- _ => apply increase_balance_ok in X; destruct X as [_ ->]
      | X : set_ownership_in_bucket _ _ = Ok _ |- _ => apply set_ownership_in_bucket_ok in X; destruct X as [_ ->] end.
    match goal with |- context [if ?b then ?A else ?B] => destruct b end; reflexivity.
  - inv_res H. subst. apply Hupd in G0; [|discriminate]. apply Ht in G1. subst. exact G0.
  - inv_res H. subst. apply Hupd in G1; [|discriminate]. apply Ht in G2. subst. exact G1.
  - inv_res H. subst. apply Hupd in G0; [|discriminate]. apply Hb in G1. subst. exact G0.
  - inv_res H. subst. apply Hupd in G1; [|discriminate]. apply Hb in G2. subst. exact G1.
  - inv_res H. subst. apply approve_for_owner_ok in G1. destruct G1 as [_ [[_ ->]|(_&_&en&_&_&->)]]; reflexivity.
  - inv_res H. subst. apply approve_for_all_ok in G. destruct G as [_ [[_ ->]|(_&_&en&_&_&->)]]; reflexivity.
Qed.

Lemma sim10_step fl c s g cl s' r :
  Sim10 fl s g -> fresh_ok fl c s cl = true -> exec fl c s cl = Ok (s', r) ->
  Sim10 fl s' (ghost_step g cl (Ok r)).
Proof.
  intros (Hs&Hcard&Hen&Hto) Hf He.
  pose proof (legal0_model fl c s g cl s' r Hs Hf He) as Hleg.
  pose proof Hs as [Hc Ho]. pose proof (own_of fl c s g Ho) as Hown.
  split; [|split; [|split]].
  - split; [eapply core_step; [exact Hc | apply exec_ok; exact He] | eapply own_step; eassumption].
  - apply card_step; [exact Hcard | exact Hleg | |].
    + intros -> Hm. destruct cl; try contradiction. cbn in He. discriminate.
    + intros Hb. destruct cl; try contradiction. destruct fl; try discriminate; reflexivity.
  - intros ->. destruct (Hen eq_refl) as [Hei Htot]. split.
    + apply (enum_step c s g cl s' r Hei); [exact Ho | | exact He].
      destruct cl; try exact I; unfold fresh_ok in Hf; apply is_none_eq in Hf; rewrite <- Hown; exact Hf.
    + pose proof (exec_total c s cl s' r He) as Ht.
      destruct cl; cbn [ghost_step g_supply]; try (rewrite Ht; exact Htot).
      * apply exec_ok in He. cbn [exec_spec] in He. destruct He as (_&->&_). cbn [g_supply]. lia.
      * cbn [g_supply]. lia.
      * discriminate.
      * cbn [g_supply]. lia.
      * cbn [g_supply]. lia.
  - intros Hn. rewrite (exec_total_other fl c s cl s' r Hn He). apply Hto. exact Hn.
Qed.
