(* C09: the role enumerations of the access-control model (RoleAccounts / HasRole / RoleAccountsCount,
   swap-and-pop on removal) as the controller uses them.  In every state reachable from the constructor
   the enumeration of a role lists every holder exactly once, has_role returns the position of the
   account in it, and an account whose role was revoked (or renounced) stays without it - and therefore
   outside schedule_op / cancel_op / execute_op / the executor field of __check_auth - until a later
   grant_role names it again, whatever is granted or revoked for other accounts in between. *)
From SC Require Import Lib.Prelude Lib.Int Lib.Host Model.Timelock Model.TimelockGhost Model.TimelockController
  Proofs.TimelockGhost Proofs.Timelock Proofs.C08Final Proofs.Controller Proofs.C09Final.

(* ---------------- lists ---------------- *)
Lemma existsb_eqb_In x l : existsb (N.eqb x) l = true <-> In x l.
Proof.
  rewrite existsb_exists. split.
  - intros (y & Hy & E). apply N.eqb_eq in E. subst. exact Hy.
  - intros H. exists x. split; [exact H|apply N.eqb_refl].
Qed.

Lemma held_index_of x l : forall k, match index_of x l k with Some _ => true | None => false end = existsb (N.eqb x) l.
Proof. induction l as [|y l IH]; intros k; cbn [index_of existsb]; [reflexivity|]. destruct (N.eqb x y); [reflexivity|apply IH]. Qed.
Lemma holds_mem a x r : holds a x r = existsb (N.eqb x) (mem_list a r).
Proof. unfold holds, has_role. apply held_index_of. Qed.
Lemma existsb_app_single l a x : existsb (N.eqb x) (l ++ [a]) = existsb (N.eqb x) l || N.eqb x a.
Proof. rewrite existsb_app. cbn. rewrite orb_false_r. reflexivity. Qed.

Lemma index_of_spec x l : forall k j, index_of x l k = Some j ->
  k <= j < k + Z.of_nat (length l) /\ nth (Z.to_nat (j - k)) l 0%N = x.
Proof.
  induction l as [|y l IH]; intros k j H; cbn [index_of] in H; [discriminate|].
  destruct (N.eqb x y) eqn:E.
  - inversion H; subst. apply N.eqb_eq in E. subst. cbn [length]. rewrite Z.sub_diag. cbn. split; [lia|reflexivity].
  - destruct (IH _ _ H) as [Hr Hn]. cbn [length]. split; [lia|].
    replace (Z.to_nat (j - k)) with (S (Z.to_nat (j - (k + 1)))) by lia. exact Hn.
Qed.

(* without duplicates, the index returned is THE position of the account *)
Lemma index_of_nth x l : NoDup l -> forall k j,
  index_of x l k = Some j <-> k <= j < k + Z.of_nat (length l) /\ nth_error l (Z.to_nat (j - k)) = Some x.
Proof.
  induction l as [|y l IH]; intros Hn k j; cbn [index_of length].
  - split; [discriminate|]. intros [H _]. cbn in H. lia.
  - inversion Hn as [|? ? Hy Hn']; subst. destruct (N.eqb x y) eqn:E.
    + apply N.eqb_eq in E. subst y. split.
      * intros H. inversion H; subst. rewrite Z.sub_diag. cbn. split; [lia|reflexivity].
      * intros [Hr Hnth]. destruct (Z.eq_dec j k) as [->|Hne]; [reflexivity|].
        exfalso. replace (Z.to_nat (j - k)) with (S (Z.to_nat (j - k - 1))) in Hnth by lia. cbn in Hnth.
        apply nth_error_In in Hnth. contradiction.
    + apply N.eqb_neq in E. rewrite (IH Hn' (k + 1) j). split.
      * intros [Hr Hnth]. split; [lia|]. replace (Z.to_nat (j - k)) with (S (Z.to_nat (j - (k + 1)))) by lia. exact Hnth.
      * intros [Hr Hnth]. destruct (Z.eq_dec j k) as [->|Hne].
        -- rewrite Z.sub_diag in Hnth. cbn in Hnth. congruence.
        -- split; [lia|]. replace (Z.to_nat (j - k)) with (S (Z.to_nat (j - (k + 1)))) in Hnth by lia. exact Hnth.
Qed.

Lemma set_nth_length i v m : length (set_nth i v m) = length m.
Proof. revert i. induction m as [|y m IH]; intros [|i]; cbn; auto. Qed.
Lemma set_nth_mem x y v : forall m i, (i < length m)%nat -> nth i m 0%N = x -> y <> x ->
  existsb (N.eqb y) (set_nth i v m) = existsb (N.eqb y) m || N.eqb y v.
Proof.
  induction m as [|z m IH]; intros i Hi Hn Hy; cbn [length] in Hi; [lia|].
  destruct i as [|i]; cbn [set_nth nth existsb] in *.
  - subst z. replace (N.eqb y x) with false by (symmetry; apply N.eqb_neq; exact Hy). cbn [orb]. apply orb_comm.
  - rewrite (IH i) by (auto; lia). rewrite orb_assoc. reflexivity.
Qed.

Lemma NoDup_snoc (x : N) l : NoDup l -> ~ In x l -> NoDup (l ++ [x]).
Proof.
  induction l as [|y l IH]; intros Hn Hx; cbn [app].
  - constructor; [intros []|constructor].
  - inversion Hn; subst. constructor.
    + rewrite in_app_iff. intros [H|[H|[]]]; [contradiction|]. subst. apply Hx. left. reflexivity.
    + apply IH; [assumption|]. intros H. apply Hx. right. exact H.
Qed.

(* ---------------- what grant / revoke do to the member list ---------------- *)
Lemma grant_no_auth_members mr a x r a' :
  grant_no_auth mr a x r = Ok a' ->
  (holds a x r = true /\ a' = a) \/
  (holds a x r = false /\ mem_list a' r = mem_list a r ++ [x] /\ (existing a' = existing a \/ existing a' = existing a ++ [r])).
Proof.
  unfold grant_no_auth. destruct (holds a x r) eqn:Eh.
  - intros H. inversion H. left. auto.
  - right. split; [reflexivity|]. destruct (mem_list a r) as [|y l] eqn:El.
    + destruct (Z.of_nat (length (existing a)) =? mr); cbn [bind] in H; [discriminate|].
      inversion H; subst. rewrite mem_list_set_members_eq. cbn [set_members existing]. auto.
    + cbn [bind] in H. inversion H; subst. rewrite mem_list_set_members_eq. cbn [set_members existing]. auto.
Qed.

Lemma remove_first_mem r y : forall l, y <> r -> existsb (N.eqb y) (remove_first r l) = existsb (N.eqb y) l.
Proof.
  induction l as [|z l IH]; intros Hy; cbn [remove_first existsb]; [reflexivity|].
  destruct (N.eqb r z) eqn:E.
  - apply N.eqb_eq in E. subst z. replace (N.eqb y r) with false by (symmetry; apply N.eqb_neq; exact Hy). reflexivity.
  - cbn [existsb]. rewrite IH by exact Hy. reflexivity.
Qed.

Lemma swap_remove_spec (l : list addr) (x : addr) (idx : nat) :
  (idx < length l)%nat -> nth idx l 0%N = x ->
  let l' := if (Z.of_nat idx =? Z.of_nat (length l) - 1) then removelast l else set_nth idx (last l 0%N) (removelast l) in
  (forall y, y <> x -> existsb (N.eqb y) l' = existsb (N.eqb y) l) /\
  Z.of_nat (length l') = Z.of_nat (length l) - 1.
Proof.
  intros Hi Hn. assert (Hne : l <> []) by (destruct l; [cbn in Hi; lia|discriminate]).
  destruct (exists_last Hne) as (m & z & ->). rewrite removelast_last, last_last, app_length in *. cbn [length] in *.
  destruct (Z.of_nat idx =? Z.of_nat (length m + 1) - 1) eqn:E; cbv zeta.
  - apply Z.eqb_eq in E. assert (idx = length m) by lia. subst idx.
    rewrite app_nth2 in Hn by lia. rewrite Nat.sub_diag in Hn. cbn in Hn. subst z. split; [|lia].
    intros y Hy. rewrite existsb_app_single. replace (N.eqb y x) with false by (symmetry; apply N.eqb_neq; exact Hy).
    rewrite orb_false_r. reflexivity.
  - apply Z.eqb_neq in E. assert (idx < length m)%nat by lia. rewrite app_nth1 in Hn by lia. split.
    + intros y Hy. rewrite existsb_app_single. apply set_nth_mem with (x := x); auto.
    + rewrite set_nth_length. lia.
Qed.

Lemma revoke_no_auth_members a x r a' :
  revoke_no_auth a x r = Ok a' ->
  holds a x r = true /\
  (forall y, y <> x -> existsb (N.eqb y) (mem_list a' r) = existsb (N.eqb y) (mem_list a r)) /\
  Z.of_nat (length (mem_list a' r)) = Z.of_nat (length (mem_list a r)) - 1 /\
  (existing a' = existing a \/ existing a' = remove_first r (existing a)).
Proof.
  unfold revoke_no_auth. destruct (holds a x r) eqn:Eh; [|discriminate]. intros H. split; [reflexivity|].
  unfold remove_member in H. destruct (mem_list a r) as [|y0 l0] eqn:El; [discriminate|].
  destruct (has_role a x r) as [idx|] eqn:Ei; [|discriminate].
  unfold has_role in Ei. rewrite El in Ei.
  apply index_of_spec in Ei. rewrite Z.sub_0_r in Ei. destruct Ei as [Hr Hn].
  inversion H; subst a'. rewrite mem_list_set_members_eq. cbn [set_members existing].
  pose proof (swap_remove_spec (y0 :: l0) x (Z.to_nat idx)) as P.
  rewrite Z2Nat.id in P by lia. cbv zeta in P.
  assert (Hlt : (Z.to_nat idx < length (y0 :: l0))%nat) by lia.
  specialize (P Hlt Hn). destruct P as [P1 P2].
  split; [exact P1|]. split; [exact P2|].
  match goal with |- context [if ?b then _ else _] => destruct b end; auto.
Qed.

(* ---------------- the invariant: no account is enumerated twice ---------------- *)
Definition nodup_inv (a : ac) : Prop := forall r, NoDup (mem_list a r).

Lemma grant_nodup mr a x r a' : grant_no_auth mr a x r = Ok a' -> nodup_inv a -> nodup_inv a'.
Proof.
  intros Hg Hn r'. pose proof (grant_no_auth_frame _ _ _ _ _ Hg) as (_ & _ & _ & G4 & _).
  destruct (N.eq_dec r' r) as [->|Hr]; [|rewrite (G4 _ Hr); apply Hn].
  apply grant_no_auth_members in Hg. destruct Hg as [[_ ->]|(Hh & -> & _)]; [apply Hn|].
  apply NoDup_snoc; [apply Hn|]. rewrite holds_mem in Hh. rewrite <- existsb_eqb_In, Hh. discriminate.
Qed.

(* the revoked account together with the new enumeration is duplicate-free: the new enumeration has no
   duplicates AND no longer contains the revoked account *)
Lemma revoke_list a x r a' : revoke_no_auth a x r = Ok a' -> NoDup (mem_list a r) -> NoDup (x :: mem_list a' r).
Proof.
  intros Hg Hn. apply revoke_no_auth_members in Hg. destruct Hg as (Hh & Hy & Hl & _).
  apply (NoDup_incl_NoDup (l := mem_list a r)); [exact Hn|cbn [length]; lia|].
  intros y Hy'. destruct (N.eq_dec y x) as [->|Hne]; [left; reflexivity|right].
  apply existsb_eqb_In. rewrite (Hy y Hne). apply existsb_eqb_In. exact Hy'.
Qed.

Lemma revoke_nodup a x r a' : revoke_no_auth a x r = Ok a' -> nodup_inv a -> nodup_inv a'.
Proof.
  intros Hg Hn r'. pose proof (revoke_no_auth_frame _ _ _ _ Hg) as (_ & _ & _ & G4 & _).
  destruct (N.eq_dec r' r) as [->|Hr]; [|rewrite (G4 _ Hr); apply Hn].
  pose proof (revoke_list _ _ _ _ Hg (Hn r)) as H. inversion H; assumption.
Qed.

Lemma revoke_removes a x r a' : revoke_no_auth a x r = Ok a' -> nodup_inv a -> holds a' x r = false.
Proof.
  intros Hg Hn. pose proof (revoke_list _ _ _ _ Hg (Hn r)) as H. inversion H as [|? ? Hx _]; subst.
  rewrite holds_mem. destruct (existsb (N.eqb x) (mem_list a' r)) eqn:E; [|reflexivity].
  exfalso. apply Hx. apply existsb_eqb_In. exact E.
Qed.

(* every other (account, role) pair keeps holding / not holding *)
Lemma grant_holds_other mr a x r a' y r' :
  grant_no_auth mr a x r = Ok a' -> (y, r') <> (x, r) -> holds a' y r' = holds a y r'.
Proof.
  intros Hg Hne. pose proof (grant_no_auth_frame _ _ _ _ _ Hg) as (_ & _ & _ & G4 & _).
  destruct (N.eq_dec r' r) as [->|Hr]; [|rewrite !holds_mem, (G4 _ Hr); reflexivity].
  apply grant_no_auth_members in Hg. destruct Hg as [[_ ->]|(_ & Hl & _)]; [reflexivity|].
  rewrite !holds_mem, Hl, existsb_app_single.
  replace (N.eqb y x) with false; [apply orb_false_r|]. symmetry. apply N.eqb_neq. intros ->. apply Hne. reflexivity.
Qed.
Lemma revoke_holds_other a x r a' y r' :
  revoke_no_auth a x r = Ok a' -> (y, r') <> (x, r) -> holds a' y r' = holds a y r'.
Proof.
  intros Hg Hne. pose proof (revoke_no_auth_frame _ _ _ _ Hg) as (_ & _ & _ & G4 & _).
  destruct (N.eq_dec r' r) as [->|Hr]; [|rewrite !holds_mem, (G4 _ Hr); reflexivity].
  apply revoke_no_auth_members in Hg. destruct Hg as (_ & Hy & _). rewrite !holds_mem. apply Hy.
  intros ->. apply Hne. reflexivity.
Qed.

(* the new enumeration lists nobody who was not enumerated before, except the account granted *)
Lemma grant_members_incl mr a x r a' y r' :
  grant_no_auth mr a x r = Ok a' -> In y (mem_list a' r') -> In y (mem_list a r') \/ y = x.
Proof.
  intros Hg Hy. pose proof (grant_no_auth_frame _ _ _ _ _ Hg) as (_ & _ & _ & G4 & _).
  destruct (N.eq_dec r' r) as [->|Hr]; [|rewrite (G4 _ Hr) in Hy; left; exact Hy].
  apply grant_no_auth_members in Hg. destruct Hg as [[_ ->]|(_ & Hl & _)]; [left; exact Hy|].
  rewrite Hl, in_app_iff in Hy. destruct Hy as [Hy|[<-|[]]]; auto.
Qed.
Lemma revoke_members_incl a x r a' y r' :
  revoke_no_auth a x r = Ok a' -> In y (mem_list a' r') -> In y (mem_list a r').
Proof.
  intros Hg Hy. pose proof (revoke_no_auth_frame _ _ _ _ Hg) as (_ & _ & _ & G4 & _).
  destruct (N.eq_dec r' r) as [->|Hr]; [|rewrite (G4 _ Hr) in Hy; exact Hy].
  apply revoke_no_auth_members in Hg. destruct Hg as (Hh & Hm & _).
  destruct (N.eq_dec y x) as [->|Hne].
  - rewrite holds_mem in Hh. apply existsb_eqb_In. exact Hh.
  - apply existsb_eqb_In. rewrite <- (Hm y Hne). apply existsb_eqb_In. exact Hy.
Qed.

(* grant_role_no_auth on the member list: append unless already enumerated *)
Definition addm (l : list addr) (x : addr) : list addr := if existsb (N.eqb x) l then l else l ++ [x].
Lemma grant_mem_list mr a x r a' : grant_no_auth mr a x r = Ok a' ->
  forall r', mem_list a' r' = if N.eqb r' r then addm (mem_list a r) x else mem_list a r'.
Proof.
  intros Hg r'. pose proof (grant_no_auth_frame _ _ _ _ _ Hg) as (_ & _ & _ & G4 & _).
  destruct (N.eqb r' r) eqn:E; [apply N.eqb_eq in E; subst r'|apply N.eqb_neq in E; exact (G4 _ E)].
  apply grant_no_auth_members in Hg. unfold addm. destruct Hg as [[Hh ->]|(Hh & Hl & _)]; rewrite holds_mem in Hh; rewrite Hh; auto.
Qed.

Lemma mem_list_members a a' r : members a' = members a -> mem_list a' r = mem_list a r.
Proof. intros H. unfold mem_list. rewrite H. reflexivity. Qed.

(* grant_all (the constructor's loops) preserves whatever every single grant preserves *)
Lemma grant_all_preserves cf (P : ac -> Prop) l :
  (forall a x r a', In x l -> grant_no_auth (max_roles cf) a x r = Ok a' -> P a -> P a') ->
  forall rs a a', grant_all cf a l rs = Ok a' -> P a -> P a'.
Proof.
  intros HP rs. induction l as [|x l IH]; intros a a' H Ha; cbn [grant_all] in H.
  - inversion H; subst. exact Ha.
  - match type of H with context [bind ?e _] => destruct e as [a1|] eqn:E end; cbn [bind] in H; [|discriminate].
    apply (IH (fun a0 x0 r0 a0' Hx => HP a0 x0 r0 a0' (or_intror Hx)) a1 a' H).
    clear H IH. revert a a1 E Ha. induction rs as [|r rs IHr]; intros a a1 E Ha.
    + inversion E; subst. exact Ha.
    + destruct (grant_no_auth (max_roles cf) a x r) as [a2|] eqn:G; cbn [bind] in E; [|discriminate].
      apply (IHr a2 a1 E). exact (HP a x r a2 (or_introl eq_refl) G Ha).
Qed.

Lemma construct_acs cf n0 md props execs adm s0 :
  construct cf n0 md props execs adm = Ok s0 ->
  exists a1, grant_all cf {| admin := Some (match adm with Some a => a | None => self cf end); pending := None;
                             members := []; radmin := []; existing := [] |} props [PROPOSER; CANCELLER] = Ok a1 /\
             grant_all cf a1 execs [EXECUTOR] = Ok (acs s0).
Proof.
  unfold construct. intros H.
  destruct (grant_all cf _ props _) as [a1|] eqn:E1; cbn [bind] in H; [|discriminate].
  destruct (grant_all cf a1 execs _) as [a2|] eqn:E2; cbn [bind] in H; [|discriminate].
  destruct (set_min_delay _ _) as [t|]; cbn [bind] in H; [|discriminate].
  inversion H; subst s0. cbn [acs]. exists a1. split; [reflexivity|exact E2].
Qed.

(* the member lists after the constructor's loops *)
Lemma grant_all_members cf l rs : NoDup rs -> forall a a', grant_all cf a l rs = Ok a' ->
  forall r, mem_list a' r = if existsb (N.eqb r) rs then fold_left addm l (mem_list a r) else mem_list a r.
Proof.
  intros Hnd. induction l as [|x l IH]; intros a a' H r; cbn [grant_all] in H.
  - inversion H; subst. cbn [fold_left]. destruct (existsb (N.eqb r) rs); reflexivity.
  - match type of H with context [bind ?e _] => destruct e as [a1|] eqn:E end; cbn [bind] in H; [|discriminate].
    rewrite (IH a1 a' H r). cbn [fold_left].
    assert (G : forall r, mem_list a1 r = if existsb (N.eqb r) rs then addm (mem_list a r) x else mem_list a r).
    { clear H IH r. revert a a1 E. induction Hnd as [|r0 rt Hr0 Hnd IHr]; intros a a1 E r.
      - inversion E; subst. reflexivity.
      - destruct (grant_no_auth (max_roles cf) a x r0) as [a2|] eqn:G; cbn [bind] in E; [|discriminate].
        rewrite (IHr a2 a1 E r), (grant_mem_list _ _ _ _ _ G r). cbn [existsb].
        destruct (N.eqb r r0) eqn:Er; cbn [orb]; [|reflexivity].
        apply N.eqb_eq in Er. subst r.
        destruct (existsb (N.eqb r0) rt) eqn:Ex; [|reflexivity]. exfalso. apply Hr0. apply existsb_eqb_In. exact Ex. }
    rewrite (G r). destruct (existsb (N.eqb r) rs); reflexivity.
Qed.

Lemma construct_members cf n0 md props execs adm s0 : construct cf n0 md props execs adm = Ok s0 ->
  forall r, mem_list (acs s0) r =
            if N.eqb r PROPOSER || N.eqb r CANCELLER then fold_left addm props []
            else if N.eqb r EXECUTOR then fold_left addm execs [] else [].
Proof.
  intros H r. destruct (construct_acs _ _ _ _ _ _ _ H) as (a1 & E1 & E2).
  assert (ND1 : NoDup [EXECUTOR]) by (constructor; [intros []|constructor]).
  assert (ND2 : NoDup [PROPOSER; CANCELLER]).
  { constructor; [intros [E|[]]; discriminate|]. constructor; [intros []|constructor]. }
  rewrite (grant_all_members _ _ _ ND1 _ _ E2 r), (grant_all_members _ _ _ ND2 _ _ E1 r). cbn [existsb]. rewrite !orb_false_r.
  unfold mem_list at 2 3. cbn [members alist_get].
  destruct (N.eqb r EXECUTOR) eqn:EE; destruct (N.eqb r PROPOSER) eqn:EP; destruct (N.eqb r CANCELLER) eqn:EC; cbn [orb]; try reflexivity;
    apply N.eqb_eq in EE; subst r; first [vm_compute in EP; discriminate|vm_compute in EC; discriminate].
Qed.

Lemma construct_nodup cf n0 md props execs adm s0 : construct cf n0 md props execs adm = Ok s0 -> nodup_inv (acs s0).
Proof.
  intros H. destruct (construct_acs _ _ _ _ _ _ _ H) as (a1 & E1 & E2).
  assert (G : forall l a x r a', In x l -> grant_no_auth (max_roles cf) a x r = Ok a' -> nodup_inv a -> nodup_inv a')
    by (intros l a x r a' _; apply grant_nodup).
  apply (grant_all_preserves cf nodup_inv execs (G execs) _ _ _ E2).
  apply (grant_all_preserves cf nodup_inv props (G props) _ _ _ E1).
  intros r. unfold mem_list. cbn. constructor.
Qed.

Section WithHash.
  Variable hash : op -> id.
  Variable aid : argv -> N.
  Variable cf : cfg.
  Notation step_ok := (step_ok hash aid cf).
  Notation step := (step hash aid cf).
  Notation run := (run hash aid cf).

  (* what a successful call does to the access-control part *)
  Lemma acs_step s c s' r : step_ok s c = Ok (s', r) ->
    match c with
    | GrantRole a ro _ _ => grant_no_auth (max_roles cf) (acs s) a ro = Ok (acs s')
    | RevokeRole a ro _ _ => revoke_no_auth (acs s) a ro = Ok (acs s')
    | RenounceRole ro k _ => revoke_no_auth (acs s) k ro = Ok (acs s')
    | _ => members (acs s') = members (acs s)
    end.
  Proof.
    intros H. destruct (step_spec hash aid cf _ _ _ _ H) as (pairs & s1 & _ & (Ha & _) & Ho).
    destruct c; cbn [own_effect] in Ho.
    - destruct Ho as (_ & t & _ & -> & _). cbn. rewrite Ha. reflexivity.
    - destruct Ho as (_ & t & _ & _ & _ & -> & _). cbn. rewrite Ha. reflexivity.
    - destruct Ho as (_ & t & _ & -> & _). cbn. rewrite Ha. reflexivity.
    - destruct Ho as (_ & -> & _). cbn. rewrite Ha. reflexivity.
    - destruct Ho as (_ & a' & Hg & -> & _). exact Hg.
    - destruct Ho as (_ & a' & Hg & -> & _). exact Hg.
    - destruct Ho as (a' & Hg & -> & _). exact Hg.
    - destruct Ho as (-> & _). reflexivity.
    - destruct Ho as (p & _ & -> & _). reflexivity.
    - destruct Ho as (pa & _ & -> & _). reflexivity.
    - destruct Ho as (_ & -> & _). reflexivity.
    - destruct Ho as (-> & _). rewrite Ha. reflexivity.
    - destruct Ho as (_ & _ & -> & _). cbn. rewrite Ha. reflexivity.
  Qed.

  Lemma nodup_step_ok s c s' r : step_ok s c = Ok (s', r) -> nodup_inv (acs s) -> nodup_inv (acs s').
  Proof.
    intros H Hn. apply acs_step in H.
    destruct c; try (intros ro; rewrite (mem_list_members _ _ ro H); apply Hn).
    - exact (grant_nodup _ _ _ _ _ H Hn).
    - exact (revoke_nodup _ _ _ _ H Hn).
    - exact (revoke_nodup _ _ _ _ H Hn).
  Qed.

  Lemma step_cases s c : (exists s' r, step_ok s c = Ok (s', r) /\ fst (step s c) = s') \/ fst (step s c) = s.
  Proof. unfold TimelockController.step. destruct (step_ok s c) as [[s' r]|]; [left; exists s', r; auto|right; reflexivity]. Qed.

  Lemma nodup_run cs : forall s, nodup_inv (acs s) -> nodup_inv (acs (run s cs)).
  Proof.
    induction cs as [|c cs IH]; intros s Hn; [exact Hn|].
    change (run s (c :: cs)) with (run (fst (step s c)) cs). apply IH.
    destruct (step_cases s c) as [(s' & r & E & ->)| ->]; [exact (nodup_step_ok _ _ _ _ E Hn)|exact Hn].
  Qed.

  (* In every state reached from the constructor, for every role: the enumeration (get_role_member 0 ..
     count-1) has no duplicates, its length is get_role_member_count, and has_role(account) = Some i exactly
     when the account is the i-th enumerated member. *)
  Theorem role_enumeration_sound n0 md props execs adm s0 cs :
    construct cf n0 md props execs adm = Ok s0 ->
    let a := acs (run s0 cs) in
    forall ro,
      NoDup (mem_list a ro) /\ role_count a ro = Z.of_nat (length (mem_list a ro)) /\
      (forall x, holds a x ro = true <-> In x (mem_list a ro)) /\
      (forall x i, has_role a x ro = Some i <->
                   0 <= i < role_count a ro /\ nth_error (mem_list a ro) (Z.to_nat i) = Some x).
  Proof.
    intros Hc a ro. assert (Hn : nodup_inv a) by (apply nodup_run; exact (construct_nodup _ _ _ _ _ _ _ Hc)).
    split; [apply Hn|]. split; [reflexivity|]. split.
    - intros x. rewrite holds_mem. apply existsb_eqb_In.
    - intros x i. unfold has_role, role_count. rewrite (index_of_nth x _ (Hn ro) 0 i), Z.sub_0_r, Z.add_0_l. reflexivity.
  Qed.

  (* a call that could give the role back to the account: grant_role naming exactly (account, role) *)
  Definition regrants (x : addr) (ro : role) (c : call) : bool :=
    match c with GrantRole a r _ _ => N.eqb a x && N.eqb r ro | _ => false end.

  (* one step: only the named (account, role) pair of grant / revoke / renounce changes hands *)
  Lemma holds_step s c s' r x ro :
    step_ok s c = Ok (s', r) ->
    holds (acs s') x ro <> holds (acs s) x ro ->
    (exists k au, c = GrantRole x ro k au) \/ (exists k au, c = RevokeRole x ro k au) \/ (exists au, c = RenounceRole ro x au).
  Proof.
    intros H Hne. apply acs_step in H.
    destruct c as [o d p au|o e tgt au|j k au|d au|a r0 k au|a r0 k au|r0 k au|r0 ar au|new lu au|au|au|metas ctxs xa|n];
      try (exfalso; apply Hne; rewrite !holds_mem, (mem_list_members _ _ ro H); reflexivity).
    - destruct (N.eq_dec x a) as [->|Hx]; [destruct (N.eq_dec ro r0) as [->|Hr]|].
      + left. eauto.
      + exfalso. apply Hne. apply (grant_holds_other _ _ _ _ _ _ _ H). intros E. inversion E. contradiction.
      + exfalso. apply Hne. apply (grant_holds_other _ _ _ _ _ _ _ H). intros E. inversion E. contradiction.
    - destruct (N.eq_dec x a) as [->|Hx]; [destruct (N.eq_dec ro r0) as [->|Hr]|].
      + right. left. eauto.
      + exfalso. apply Hne. apply (revoke_holds_other _ _ _ _ _ _ H). intros E. inversion E. contradiction.
      + exfalso. apply Hne. apply (revoke_holds_other _ _ _ _ _ _ H). intros E. inversion E. contradiction.
    - destruct (N.eq_dec x k) as [->|Hx]; [destruct (N.eq_dec ro r0) as [->|Hr]|].
      + right. right. eauto.
      + exfalso. apply Hne. apply (revoke_holds_other _ _ _ _ _ _ H). intros E. inversion E. contradiction.
      + exfalso. apply Hne. apply (revoke_holds_other _ _ _ _ _ _ H). intros E. inversion E. contradiction.
  Qed.

  Lemma not_held_step s c x ro :
    nodup_inv (acs s) -> holds (acs s) x ro = false -> regrants x ro c = false -> holds (acs (fst (step s c))) x ro = false.
  Proof.
    intros Hn Hh Hg. destruct (step_cases s c) as [(s' & r & E & ->)| ->]; [|exact Hh].
    destruct (holds (acs s') x ro) eqn:Hs'; [exfalso|reflexivity].
    destruct (holds_step s c s' r x ro E) as [(k & au & ->)|[(k & au & ->)|(au & ->)]]; [congruence| | |].
    - cbn [regrants] in Hg. rewrite !N.eqb_refl in Hg. discriminate.
    - apply acs_step in E. rewrite (revoke_removes _ _ _ _ E Hn) in Hs'. discriminate.
    - apply acs_step in E. rewrite (revoke_removes _ _ _ _ E Hn) in Hs'. discriminate.
  Qed.

  Lemma not_held_run x ro cs : forall s,
    nodup_inv (acs s) -> holds (acs s) x ro = false -> forallb (fun c => negb (regrants x ro c)) cs = true ->
    holds (acs (run s cs)) x ro = false.
  Proof.
    induction cs as [|c cs IH]; intros s Hn Hh Hall; [exact Hh|].
    cbn [forallb] in Hall. apply andb_true_iff in Hall. destruct Hall as [Hc Hall]. apply negb_true_iff in Hc.
    change (run s (c :: cs)) with (run (fst (step s c)) cs). apply IH; [|apply not_held_step; assumption|exact Hall].
    destruct (step_cases s c) as [(s' & r & E & ->)| ->]; [exact (nodup_step_ok _ _ _ _ E Hn)|exact Hn].
  Qed.

  (* Over every call sequence from the constructor: once revoke_role(x, ro) or renounce_role(ro) by x has
     succeeded, x does not hold ro after ANY further calls that contain no grant_role(x, ro) - whatever
     else is granted, revoked or renounced for other accounts or roles, in any order - and therefore x
     cannot schedule (ro = proposer), cancel (ro = canceller), execute or be the executor named in an
     authorisation of the controller while executors are configured (ro = executor). *)
  Theorem revoked_stays_revoked n0 md props execs adm s0 pre c rest x ro s1 r0 :
    construct cf n0 md props execs adm = Ok s0 ->
    step_ok (run s0 pre) c = Ok (s1, r0) ->
    (exists k au, c = RevokeRole x ro k au) \/ (exists au, c = RenounceRole ro x au) ->
    forallb (fun c' => negb (regrants x ro c')) rest = true ->
    let s := run s1 rest in
    holds (acs s) x ro = false /\
    (ro = PROPOSER -> forall o d au, step_ok s (ScheduleOp o d x au) = Fail) /\
    (ro = CANCELLER -> forall i au, step_ok s (CancelOp i x au) = Fail) /\
    (ro = EXECUTOR -> role_count (acs s) EXECUTOR <> 0 ->
       (forall o tgt au, step_ok s (ExecuteOp o (Some x) tgt au) = Fail) /\
       (forall direct xa cx m, m_exec m = Some x -> check_ctx hash cf direct xa s cx m = Fail)).
  Proof.
    intros Hc E Hcall Hrest s.
    assert (Hn0 : nodup_inv (acs (run s0 pre))) by (apply nodup_run; exact (construct_nodup _ _ _ _ _ _ _ Hc)).
    assert (Hn1 : nodup_inv (acs s1)) by exact (nodup_step_ok _ _ _ _ E Hn0).
    assert (H1 : holds (acs s1) x ro = false).
    { pose proof (acs_step _ _ _ _ E) as Ha. destruct Hcall as [(k & au & ->)|(au & ->)]; exact (revoke_removes _ _ _ _ Ha Hn0). }
    assert (Hs : holds (acs s) x ro = false) by (apply not_held_run; assumption).
    split; [exact Hs|]. split; [|split].
    - intros -> o d au. cbn [TimelockController.step_ok]. rewrite Hs. reflexivity.
    - intros -> i au. cbn [TimelockController.step_ok]. rewrite Hs. reflexivity.
    - intros -> Hx. apply Z.eqb_neq in Hx. split.
      + intros o tgt au. cbn [TimelockController.step_ok]. rewrite Hx, Hs. reflexivity.
      + intros direct xa cx m Hm. unfold check_ctx. destruct cx as [contract f a|]; [|reflexivity].
        destruct (negb (N.eqb contract (self cf))); [reflexivity|]. rewrite Hx, Hm, Hs. reflexivity.
  Qed.
End WithHash.
