(* C19: the monitor (and the diff) accept every run of the model. *)
From SC Require Import Lib.Prelude Lib.Int Lib.Host Model.FeeForwarder Proofs.FeeForwarder
  Run.C19 Proofs.FeeForwarderAllow Proofs.FeeForwarderFwd Proofs.C19AuthTree.

(* ---- reflexivity of the observation equalities ---- *)
Lemma zz_eqb_refl x : zz_eqb x x = true.
Proof. unfold zz_eqb. rewrite !Z.eqb_refl. reflexivity. Qed.
Lemma atom_eqb_refl x : atom_eqb x x = true.
Proof. apply atom_eqb_eq. reflexivity. Qed.
Lemma logent_eqb_refl x : logent_eqb x x = true.
Proof. unfold logent_eqb. rewrite N.eqb_refl. cbn. apply list_eqb_refl. apply atom_eqb_refl. Qed.
Lemma opt_eqb_refl {A} (eqb : A -> A -> bool) : (forall x, eqb x x = true) -> forall o, opt_eqb eqb o o = true.
Proof. intros E [x|]; cbn; auto. Qed.
Lemma bool_eqb_refl b : Bool.eqb b b = true.
Proof. destruct b; reflexivity. Qed.
Lemma tokobs_eqb_refl x : tokobs_eqb x x = true.
Proof.
  unfold tokobs_eqb. rewrite Z.eqb_refl. rewrite (list_eqb_refl Z.eqb Z.eqb_refl).
  rewrite (list_eqb_refl _ (list_eqb_refl zz_eqb zz_eqb_refl)). reflexivity.
Qed.
Lemma al_obs_eqb_refl x : al_obs_eqb x x = true.
Proof.
  unfold al_obs_eqb. rewrite !N.eqb_refl.
  rewrite !(list_eqb_refl _ (opt_eqb_refl N.eqb N.eqb_refl)), (opt_eqb_refl N.eqb N.eqb_refl).
  rewrite (list_eqb_refl _ bool_eqb_refl). reflexivity.
Qed.
Lemma obs_eqb_refl x : obs_eqb x x = true.
Proof.
  unfold obs_eqb. rewrite Z.eqb_refl, !N.eqb_refl.
  rewrite (list_eqb_refl _ tokobs_eqb_refl).
  rewrite !(list_eqb_refl _ (opt_eqb_refl N.eqb N.eqb_refl)), (opt_eqb_refl N.eqb N.eqb_refl).
  rewrite (list_eqb_refl _ bool_eqb_refl).
  rewrite (list_eqb_refl _ (list_eqb_refl _ logent_eqb_refl)).
  rewrite !(list_eqb_refl _ bool_eqb_refl). reflexivity.
Qed.
Lemma out_eqb_refl x : out_eqb x x = true.
Proof. destruct x; cbn; [apply Z.eqb_refl|reflexivity]. Qed.

(* ---- the diff of the model with itself is empty ---- *)
Lemma diff_from_model c st cs i : diff_from c st (model_items c st cs) i = 0%N.
Proof.
  revert st i. induction cs as [|cl r IH]; intros st i; cbn [model_items diff_from]; [reflexivity|].
  destruct (step c st cl) as [st' out] eqn:E. cbn [diff_from]. rewrite E.
  rewrite out_eqb_refl, obs_eqb_refl. cbn [andb]. apply IH.
Qed.

(* ---- all3 over mapped key lists ---- *)
Lemma all3_map {K A B} (p : K -> A -> B -> bool) ks (f : K -> A) (g : K -> B) :
  (forall k, In k ks -> p k (f k) (g k) = true) -> all3 p ks (map f ks) (map g ks) = true.
Proof.
  induction ks as [|k ks IH]; cbn; intros H; [reflexivity|].
  rewrite H by (left; reflexivity). cbn. apply IH. intros; apply H; right; assumption.
Qed.

Lemma toks_rel_intro c P Q R st st' :
  (forall t, P t (t_total (get_tok st t)) (t_total (get_tok st' t)) = true) ->
  (forall t h, Q t h (balance (get_tok st t) h) (balance (get_tok st' t) h) = true) ->
  (forall t o s, R t o s (allowance_data (now st) (get_tok st t) o s)
                         (allowance_data (now st') (get_tok st' t) o s) = true) ->
  toks_rel c P Q R (observe c st) (observe c st') = true.
Proof.
  intros HP HQ HR. unfold toks_rel, observe. cbn [o_toks]. apply all3_map. intros t _.
  unfold observe_tok. cbn [ob_total ob_bal ob_alw]. rewrite HP. cbn [andb].
  rewrite all3_map by (intros; apply HQ). cbn [andb].
  apply all3_map. intros o _. apply all3_map. intros s _. apply HR.
Qed.

Lemma logs_rel_intro c p st st' :
  (forall g, p g (get_log (logs st) g) (get_log (logs st') g) = true) ->
  logs_rel c p (observe c st) (observe c st') = true.
Proof. intros H. unfold logs_rel, observe. cbn [o_logs]. apply all3_map. intros; apply H. Qed.

Lemma logs_rel_same c st st' : logs st' = logs st -> logs_rel c same_log (observe c st) (observe c st') = true.
Proof.
  intros E. apply logs_rel_intro. intros g. rewrite E. unfold same_log.
  apply list_eqb_refl. apply logent_eqb_refl.
Qed.

Lemma toks_rel_same c st st' :
  toks st' = toks st -> now st' = now st ->
  toks_rel c same_total same_bal same_alw (observe c st) (observe c st') = true.
Proof.
  intros E En. apply toks_rel_intro; intros; unfold get_tok; rewrite E, ?En.
  - apply Z.eqb_refl.
  - apply Z.eqb_refl.
  - apply zz_eqb_refl.
Qed.

Lemma al_obs_same c st st' : al st' = al st -> al_obs_eqb (observe c st) (observe c st') = true.
Proof.
  intros E. unfold al_obs_eqb, observe. cbn [o_count o_enum o_past o_idx o_allowed o_flcount]. rewrite E.
  rewrite !N.eqb_refl.
  rewrite !(list_eqb_refl _ (opt_eqb_refl N.eqb N.eqb_refl)), (opt_eqb_refl N.eqb N.eqb_refl).
  rewrite (list_eqb_refl _ bool_eqb_refl). reflexivity.
Qed.

Lemma shape_ok_model c st : shape_ok c (observe c st) = true.
Proof.
  unfold shape_ok, observe. cbn [o_toks o_logs]. rewrite !map_length, !Nat.eqb_refl. cbn [andb]. rewrite andb_true_r.
  apply forallb_forall. intros t Ht. apply in_map_iff in Ht. destruct Ht as [tok [<- _]].
  unfold observe_tok. cbn [ob_bal ob_alw]. rewrite !map_length, !Nat.eqb_refl. cbn [andb].
  apply forallb_forall. intros r Hr. apply in_map_iff in Hr. destruct Hr as [o [<- _]].
  rewrite map_length. apply Nat.eqb_refl.
Qed.

(* ---- the allow-list observation is consistent with the abstract set ---- *)
Lemma memb_strip_enum a t :
  al_wf a -> memb t (strip (enumeration a)) = true <-> alist_get t (al_idx a) <> None.
Proof. intros W. rewrite memb_In. apply enumeration_In. exact W. Qed.

Lemma al_consistent_model c st S :
  al_wf (al st) -> al_set (al st) S -> al_consistent c S (observe c st) = true.
Proof.
  intros W HS. unfold al_consistent. rewrite shape_ok_model. cbn [andb].
  unfold observe. cbn [o_count o_enum o_past o_idx o_allowed o_flcount o_exec o_mgr].
  rewrite !(list_eqb_refl _ bool_eqb_refl), !andb_true_r.
  set (a := al st) in *.
  assert (H1 : N.eqb (al_count a) (N.of_nat (length (enumeration a))) = true).
  { unfold enumeration. rewrite enum_from_length. apply N.eqb_eq. lia. }
  rewrite H1, (enumeration_all_some a W), (nodupb_NoDup _ (enumeration_nodup a W)). cbn [andb].
  assert (H2 : forallb (fun t => memb t S) (strip (enumeration a)) = true).
  { apply forallb_forall. intros t Ht. apply HS. apply (enumeration_In a W). exact Ht. }
  assert (H3 : forallb (fun t => memb t (strip (enumeration a))) S = true).
  { apply forallb_forall. intros t Ht. apply memb_In. apply (enumeration_In a W). apply HS.
    apply memb_In. exact Ht. }
  rewrite H2, H3. cbn [andb].
  apply all3_map. intros t _. rewrite (find_index_enumeration a W).
  rewrite (opt_eqb_refl N.eqb N.eqb_refl). cbn [andb]. unfold is_allowed.
  destruct (N.eqb (al_count a) 0); cbn [orb]; [reflexivity|].
  destruct (alist_get t (al_idx a)) eqn:E.
  - assert (Hm : memb t (strip (enumeration a)) = true) by (apply (memb_strip_enum a t W); congruence).
    rewrite Hm. reflexivity.
  - destruct (memb t (strip (enumeration a))) eqn:Hm; [|reflexivity].
    apply (memb_strip_enum a t W) in Hm. congruence.
Qed.

(* ---- invariant of reachable states ---- *)
Definition wfc (c : cfg) : Prop := 1 <= min_temp_ttl (c_host c).

Record Inv (st : state) (S : list addr) : Prop := {
  inv_wf : al_wf (al st);
  inv_set : al_set (al st) S;
  inv_alw : forall tok, alw_inv (get_tok st tok)
}.

Lemma Inv_init c : Inv (init c) [].
Proof.
  constructor; cbn.
  - apply al_wf_0.
  - apply al_set_0.
  - intros tok. unfold get_tok. cbn. apply alw_inv_tok0.
Qed.

Lemma get_tok_with st tok t' t : get_tok (with_tok st tok t') t = if N.eqb t tok then t' else get_tok st t.
Proof. unfold get_tok, with_tok. cbn [toks]. rewrite aget_set. destruct (N.eqb t tok); reflexivity. Qed.

Lemma Inv_with_tok st S tok t' : Inv st S -> alw_inv t' -> Inv (with_tok st tok t') S.
Proof.
  intros I Ht. constructor.
  - apply (inv_wf _ _ I).
  - apply (inv_set _ _ I).
  - intros t. rewrite get_tok_with. destruct (N.eqb t tok); [exact Ht|apply (inv_alw _ _ I)].
Qed.

(* an allowance entry seen at a later ledger *)
Lemma expire_ok_model nw nw' e :
  entry_ok e -> nw <= nw' -> expire_ok nw' (ad nw e) (ad nw' e) = true.
Proof.
  intros He Hle. unfold expire_ok, ad, tget, tlive_at. destruct e as [en|]; [|reflexivity].
  cbn in He. destruct (tval en) as [a l] eqn:Ev. cbn [fst snd] in He. destruct He as [Ha Hl].
  destruct (tlive en <? nw) eqn:E1.
  - apply Z.ltb_lt in E1. cbn [fst]. cbn.
    destruct (tlive en <? nw') eqn:E2; [reflexivity|]. apply Z.ltb_ge in E2. lia.
  - apply Z.ltb_ge in E1. rewrite Ev. destruct (l <? nw) eqn:E3.
    + apply Z.ltb_lt in E3. cbn [fst]. cbn. destruct (tlive en <? nw'); [reflexivity|].
      rewrite Ev. destruct (l <? nw') eqn:E4; [reflexivity|]. apply Z.ltb_ge in E4. lia.
    + apply Z.ltb_ge in E3. cbn [fst snd]. destruct (0 <? a) eqn:E5.
      * apply Z.ltb_lt in E5. specialize (Hl E5).
        destruct (tlive en <? nw') eqn:E6.
        -- apply Z.ltb_lt in E6. destruct (l <? nw') eqn:E7; [reflexivity|]. apply Z.ltb_ge in E7. lia.
        -- rewrite Ev. destruct (l <? nw'); apply zz_eqb_refl.
      * apply Z.ltb_ge in E5. assert (a = 0) by lia. subst a.
        destruct (tlive en <? nw'); [reflexivity|]. rewrite Ev. destruct (l <? nw'); reflexivity.
Qed.

(* ---- one step ---- *)
Lemma andb_intro (a b : bool) : a = true -> b = true -> a && b = true.
Proof. intros -> ->. reflexivity. Qed.
Ltac split_and := repeat match goal with |- (_ && _) = true => apply andb_intro end.

Lemma approve_under_tree_of_ex au user relayer f1 f2 ap :
  (exists e, In e au /\ en_who e = user /\ In ap (en_subs e) /\
             (en_root e = f2 \/ (user = relayer /\ en_root e = f1))) ->
  approve_under_tree au user relayer f1 f2 ap = true.
Proof.
  intros [e [Hi [Hw [Hs Hr]]]]. unfold approve_under_tree. apply existsb_exists. exists e. split; [exact Hi|].
  apply andb_intro; [apply andb_intro|].
  - apply N.eqb_eq. exact Hw.
  - apply existsb_exists. exists ap. split; [exact Hs|apply func_eqb_eq; reflexivity].
  - destruct Hr as [Hr|[Hu Hr]].
    + assert (E : func_eqb (en_root e) f2 = true) by (apply func_eqb_eq; exact Hr). rewrite E. reflexivity.
    + assert (E : func_eqb (en_root e) f1 = true) by (apply func_eqb_eq; exact Hr).
      assert (E2 : N.eqb user relayer = true) by (apply N.eqb_eq; exact Hu). rewrite E, E2. apply orb_true_r.
Qed.

Lemma mon_forward_model c st st' k tok fee max exp target fn args user relayer au ret t1 :
  forward_post c st st' k tok fee max exp target fn args user relayer au ret t1 ->
  al_wf (al st) ->
  (fee_need (approval_of k) max (allowance_data (now st) (get_tok st tok) user (fwd_addr c k)) = true ->
   approve_under_tree au user relayer
     (mkf (fwd_addr c k) F_FORWARD (forward_args tok fee max exp target fn args user relayer))
     (mkf (fwd_addr c k) F_FORWARD (user_args tok max exp target fn args))
     (mkf tok F_APPROVE (approve_args user (fwd_addr c k) max exp)) = true) ->
  mon_forward c (observe c st) (observe c st') k tok fee max exp target fn args user relayer au ret = true.
Proof.
  intros P W Htree. pose proof (fp_pre _ _ _ _ _ _ _ _ _ _ _ _ _ _ _ _ P) as Q.
  pose proof (fq_collect _ _ _ _ _ _ _ _ _ _ _ _ _ _ Q) as C.
  pose proof (fp_tpost _ _ _ _ _ _ _ _ _ _ _ _ _ _ _ _ P) as TP.
  pose proof (fp_target _ _ _ _ _ _ _ _ _ _ _ _ _ _ _ _ P) as TL.
  unfold mon_forward. cbv zeta.
  split_and.
  - exact (fq_user_auth _ _ _ _ _ _ _ _ _ _ _ _ _ _ Q).
  - exact (fq_relayer_auth _ _ _ _ _ _ _ _ _ _ _ _ _ _ Q).
  - pose proof (fq_role _ _ _ _ _ _ _ _ _ _ _ _ _ _ Q) as R. destruct k; [exact R|reflexivity].
  - apply Z.ltb_lt. apply (cp_fee _ _ _ _ _ _ _ _ _ _ _ _ _ _ C).
  - apply Z.leb_le. apply (cp_fee _ _ _ _ _ _ _ _ _ _ _ _ _ _ C).
  - apply Z.leb_le. cbn [observe o_now]. apply (cp_exp _ _ _ _ _ _ _ _ _ _ _ _ _ _ C).
  - pose proof (cp_user _ _ _ _ _ _ _ _ _ _ _ _ _ _ C) as U. apply N.eqb_neq in U. rewrite U. reflexivity.
  - pose proof (cp_allowed _ _ _ _ _ _ _ _ _ _ _ _ _ _ C) as A. destruct k; [|reflexivity].
    cbn [al_of] in A. unfold is_allowed in A. cbn [observe o_count o_enum].
    destruct (N.eqb (al_count (al st)) 0); [reflexivity|]. cbn [orb].
    destruct (alist_get tok (al_idx (al st))) eqn:E; [|discriminate].
    apply existsb_exists. exists (Some tok). split; [|cbn; apply N.eqb_refl].
    apply strip_In. apply (enumeration_In _ W). congruence.
  - exact (cp_tok _ _ _ _ _ _ _ _ _ _ _ _ _ _ C).
  - apply toks_rel_intro.
    + intros t. unfold same_total. apply Z.eqb_eq. change (get_tok st' t) with (get_tokm (toks st') t).
      rewrite (tp_total _ _ _ _ _ _ _ TP), mid_get. destruct (N.eqb t tok) eqn:E; [|reflexivity].
      apply N.eqb_eq in E. subst t. symmetry. apply (cp_total _ _ _ _ _ _ _ _ _ _ _ _ _ _ C).
    + intros t h. apply Z.eqb_eq. change (get_tok st' t) with (get_tokm (toks st') t).
      rewrite (tp_bal _ _ _ _ _ _ _ TP), mid_get. unfold transfer_delta at 1. destruct (N.eqb t tok) eqn:E.
      * apply N.eqb_eq in E. subst t. rewrite (cp_bal _ _ _ _ _ _ _ _ _ _ _ _ _ _ C). lia.
      * lia.
    + intros t o s. rewrite (fp_now _ _ _ _ _ _ _ _ _ _ _ _ _ _ _ _ P). rewrite !allowance_data_ad.
      change (get_tok st' t) with (get_tokm (toks st') t).
      rewrite (tp_alw _ _ _ _ _ _ _ TP), mid_get.
      assert (Hval : ad (now st) (alw_get (if N.eqb t tok then t1 else get_tok st t) o s) =
                     fee_value (approval_of k) tok user (fwd_addr c k) fee max exp t o s
                       (ad (now st) (alw_get (get_tok st t) o s))).
      { unfold fee_value, is_fee_cell. destruct (N.eqb t tok) eqn:E; cbn [andb]; [|reflexivity].
        apply N.eqb_eq in E. subst t. rewrite (cp_alw _ _ _ _ _ _ _ _ _ _ _ _ _ _ C).
        destruct (N.eqb o user && N.eqb s (fwd_addr c k)) eqn:Eos; [|reflexivity].
        apply andb_true_iff in Eos. destruct Eos as [Eo Es]. apply N.eqb_eq in Eo. apply N.eqb_eq in Es. subst o s.
        reflexivity. }
      apply orb_true_iff. left.
      rewrite Hval, zz_eqb_refl. cbn [andb].
      destruct (is_fee_cell tok user (fwd_addr c k) t o s) eqn:Ec; cbn [andb]; [|reflexivity].
      unfold is_fee_cell in Ec. apply andb_true_iff in Ec. destruct Ec as [Ec Es]. apply andb_true_iff in Ec.
      destruct Ec as [Et Eo]. apply N.eqb_eq in Et. apply N.eqb_eq in Eo. apply N.eqb_eq in Es. subst t o s.
      destruct (fee_need (approval_of k) max (ad (now st) (alw_get (get_tok st tok) user (fwd_addr c k)))) eqn:En; [|reflexivity].
      apply Htree. rewrite allowance_data_ad. exact En.
  - destruct (memb target (c_tokens c)).
    + destruct TL as [T1 [T2 T3]]. split_and.
      * destruct (tgt_moves c target fn args); [reflexivity|congruence].
      * apply logs_rel_same. exact T2.
      * apply Z.eqb_eq. exact T3.
    + destruct TL as [T1 [T2 T3]]. apply andb_intro; [exact T1|].
      apply logs_rel_intro. intros g. rewrite T2.
      destruct (N.eqb g target) eqn:E.
      * apply N.eqb_eq in E. subst g. rewrite (list_eqb_refl _ logent_eqb_refl). cbn [andb].
        apply Z.eqb_eq. rewrite T3, T2, N.eqb_refl. reflexivity.
      * apply list_eqb_refl. apply logent_eqb_refl.
  - apply Z.eqb_eq. cbn [observe o_now]. apply (fp_now _ _ _ _ _ _ _ _ _ _ _ _ _ _ _ _ P).
  - apply al_obs_same. apply (fp_al _ _ _ _ _ _ _ _ _ _ _ _ _ _ _ _ P).
Qed.

Lemma Inv_forward c st st' S k tok fee max exp target fn args user relayer au ret :
  wfc c ->
  forward c st k tok fee max exp target fn args user relayer au = Ok (st', ret) -> Inv st S -> Inv st' S.
Proof.
  intros Hw H I.
  destruct (forward_open _ _ _ _ _ _ _ _ _ _ _ _ _ _ _ Hw H) as [t' [ts3 [tks' [l' [Q [Hen [Hc ->]]]]]]].
  constructor; cbn [al].
  - apply (inv_wf _ _ I).
  - apply (inv_set _ _ I).
  - assert (Hi : toks_inv (alist_set tok t' (toks st))).
    { apply toks_inv_set.
      - intros t. apply (inv_alw _ _ I t).
      - apply (cp_inv _ _ _ _ _ _ _ _ _ _ _ _ _ _ (fq_collect _ _ _ _ _ _ _ _ _ _ _ _ _ _ Q)). apply (inv_alw _ _ I). }
    exact (target_call_inv _ _ _ _ _ _ _ _ _ _ _ _ Hw Hc Hi).
Qed.

Definition wf_fwd (c : cfg) (cl : call) : Prop :=
  match cl with Forward _ _ _ _ _ _ _ _ _ _ _ => wf_call c cl = true | _ => True end.
Lemma wf_fwd_of c cl : wf_call c cl = true -> wf_fwd c cl.
Proof. destruct cl; cbn [wf_fwd]; auto. Qed.

Lemma step_ok_mon c st S cl st' ret :
  wfc c -> wf_fwd c cl -> Inv st S -> step_ok c st cl = Ok (st', ret) ->
  exists S', mon_call c S (observe c st) (observe c st') cl ret = (true, S') /\ Inv st' S'.
Proof.
  intros Hw Hwf I. destruct cl as [n|tok to amt|tok owner spender amt exp au|k tok fee max exp target fn args user relayer au
                              |allowed tok operator au|tok recipient operator au]; cbn [step_ok mon_call].
  - (* Advance *)
    destruct (n <? 0) eqn:En; [discriminate|]. apply Z.ltb_ge in En.
    intros H. inversion H; subst st' ret. clear H. exists S. split.
    + f_equal. split_and.
      * apply Z.leb_le. exact En.
      * apply Z.eqb_eq. reflexivity.
      * apply toks_rel_intro; cbn [now toks]; intros.
        -- apply Z.eqb_refl.
        -- apply Z.eqb_refl.
        -- unfold get_tok. cbn [toks o_now observe now]. rewrite !allowance_data_ad.
           apply expire_ok_model; [|lia]. apply (inv_alw _ _ I t).
      * apply logs_rel_same. reflexivity.
      * apply al_obs_same. reflexivity.
    + constructor; [apply (inv_wf _ _ I)|apply (inv_set _ _ I)|apply (inv_alw _ _ I)].
  - (* Mint *)
    destruct (memb tok (c_tokens c)); cbn [guard bind]; [|discriminate].
    destruct (mint (get_tok st tok) to amt) as [t'|] eqn:Em; cbn [bind]; [|discriminate].
    intros H. inversion H; subst st' ret. clear H.
    destruct (mint_spec _ _ _ _ Em) as [Ha [Ht [Hal Hb]]]. exists S. split.
    + f_equal. split_and.
      * apply Z.leb_le. exact Ha.
      * apply toks_rel_intro; intros; rewrite get_tok_with.
        -- apply Z.eqb_eq. destruct (N.eqb t tok) eqn:E; [apply N.eqb_eq in E; subst; lia|lia].
        -- apply Z.eqb_eq. destruct (N.eqb t tok) eqn:E; cbn [andb]; [|lia].
           apply N.eqb_eq in E. subst t. rewrite Hb. reflexivity.
        -- unfold same_alw. cbn [with_tok now]. rewrite !allowance_data_ad.
           destruct (N.eqb t tok) eqn:E; [|apply zz_eqb_refl].
           apply N.eqb_eq in E. subst t. rewrite (alw_get_same_alw _ _ _ _ Hal). apply zz_eqb_refl.
      * apply logs_rel_same. reflexivity.
      * apply al_obs_same. reflexivity.
      * apply Z.eqb_eq. reflexivity.
    + apply Inv_with_tok; [exact I|]. intros o s. rewrite (alw_get_same_alw _ _ _ _ Hal). apply (inv_alw _ _ I).
  - (* Approve *)
    destruct (memb tok (c_tokens c)); cbn [guard bind]; [|discriminate].
    destruct (require_auth false None owner _ (map init_tracker au)) as [ts1|] eqn:Er; cbn [bind]; [|discriminate].
    destruct (set_allowance (c_host c) (now st) (get_tok st tok) owner spender amt exp) as [t'|] eqn:Es; cbn [bind]; [|discriminate].
    intros H. inversion H; subst st' ret. clear H.
    pose proof (set_allowance_spec _ _ _ _ _ _ _ _ Hw Es) as P.
    pose proof (require_auth_outer _ _ _ _ Er) as A. rewrite entries_init in A.
    exists S. split.
    + f_equal. split_and.
      * exact A.
      * apply Z.leb_le. apply (sa_amt _ _ _ _ _ _ _ _ P).
      * apply toks_rel_intro; intros; rewrite get_tok_with.
        -- apply Z.eqb_eq. destruct (N.eqb t tok) eqn:E; [|reflexivity].
           apply N.eqb_eq in E. subst t. symmetry. apply (sa_total _ _ _ _ _ _ _ _ P).
        -- apply Z.eqb_eq. destruct (N.eqb t tok) eqn:E; [|reflexivity].
           apply N.eqb_eq in E. subst t. symmetry. apply balance_same_bal. apply (sa_bal _ _ _ _ _ _ _ _ P).
        -- cbn [with_tok now]. rewrite !allowance_data_ad. destruct (N.eqb t tok) eqn:E; cbn [andb]; [|apply zz_eqb_refl].
           apply N.eqb_eq in E. subst t. destruct (N.eqb o owner && N.eqb s spender) eqn:Eos.
           ++ apply andb_true_iff in Eos. destruct Eos as [Eo Es']. apply N.eqb_eq in Eo. apply N.eqb_eq in Es'. subst o s.
              destruct (0 <? amt) eqn:Ea.
              ** apply Z.ltb_lt in Ea. rewrite (sa_pos _ _ _ _ _ _ _ _ P Ea), zz_eqb_refl. cbn [andb].
                 apply Z.leb_le. cbn [observe o_now]. apply (sa_live _ _ _ _ _ _ _ _ P Ea).
              ** apply Z.ltb_ge in Ea. apply Z.eqb_eq. apply (sa_zero _ _ _ _ _ _ _ _ P).
                 pose proof (sa_amt _ _ _ _ _ _ _ _ P). lia.
           ++ rewrite (sa_other _ _ _ _ _ _ _ _ P) by exact Eos. apply zz_eqb_refl.
      * apply logs_rel_same. reflexivity.
      * apply al_obs_same. reflexivity.
      * apply Z.eqb_eq. reflexivity.
    + apply Inv_with_tok; [exact I|]. apply (sa_inv _ _ _ _ _ _ _ _ P). apply (inv_alw _ _ I).
  - (* Forward *)
    intros H. destruct (forward_spec _ _ _ _ _ _ _ _ _ _ _ _ _ _ _ Hw Hwf H) as [t1 P]. exists S. split.
    + f_equal. eapply mon_forward_model; [exact P|apply (inv_wf _ _ I)|].
      intros Hn. apply approve_under_tree_of_ex.
      apply (forward_fresh_approval_under_tree c st k tok fee max exp target fn args user relayer au st' ret H).
      unfold fee_need in Hn. destruct k; exact Hn.
    + eapply Inv_forward; eauto.
  - (* SetTok *)
    destruct (memb operator (c_managers c)) eqn:Em; cbn [guard bind]; [|discriminate].
    destruct (require_auth false None operator _ (map init_tracker au)) as [ts1|] eqn:Er; cbn [bind]; [|discriminate].
    destruct (set_allowed (al st) tok allowed) as [a'|] eqn:Es; cbn [bind]; [|discriminate].
    intros H. inversion H; subst st' ret. clear H.
    pose proof (require_auth_outer _ _ _ _ Er) as A. rewrite entries_init in A.
    destruct (set_allowed_set _ _ _ _ _ (inv_wf _ _ I) (inv_set _ _ I) Es) as [Hmem Hset].
    eexists. split.
    + f_equal. split_and.
      * reflexivity.
      * exact A.
      * rewrite Hmem. destruct allowed; reflexivity.
      * apply toks_rel_same; reflexivity.
      * apply logs_rel_same. reflexivity.
      * apply Z.eqb_eq. reflexivity.
    + constructor; cbn [al].
      * eapply set_allowed_wf; [apply (inv_wf _ _ I)|exact Es].
      * exact Hset.
      * intros t. apply (inv_alw _ _ I t).
  - (* Sweep *)
    destruct (memb operator (c_managers c)) eqn:Em; cbn [guard bind]; [|discriminate].
    destruct (require_auth false None operator _ (map init_tracker au)) as [ts1|] eqn:Er; cbn [bind]; [|discriminate].
    destruct (memb tok (c_tokens c)); cbn [guard bind]; [|discriminate].
    destruct (balance (get_tok st tok) (c_fp c) =? 0) eqn:Eb; [discriminate|].
    destruct (update_transfer (get_tok st tok) (c_fp c) recipient (balance (get_tok st tok) (c_fp c))) as [t'|] eqn:Eu;
      cbn [bind]; [|discriminate].
    intros H. inversion H; subst st' ret. clear H.
    pose proof (require_auth_outer _ _ _ _ Er) as A. rewrite entries_init in A.
    destruct (update_transfer_spec _ _ _ _ _ Eu) as [_ [_ [Ht [Hal Hb]]]].
    exists S. split.
    + f_equal. split_and.
      * reflexivity.
      * exact A.
      * rewrite Eb. reflexivity.
      * apply toks_rel_intro; intros; rewrite get_tok_with.
        -- apply Z.eqb_eq. destruct (N.eqb t tok) eqn:E; [|reflexivity].
           apply N.eqb_eq in E. subst t. symmetry. exact Ht.
        -- unfold transfer_bal, transfer_delta. destruct (N.eqb t tok) eqn:E; cbn [andb].
           ++ apply N.eqb_eq in E. subst t. rewrite Hb. apply andb_intro; [apply Z.eqb_eq; lia|].
              destruct (N.eqb h (c_fp c)) eqn:Eh; [|reflexivity].
              apply N.eqb_eq in Eh. subst h. apply Z.eqb_refl.
           ++ apply andb_intro; [apply Z.eqb_eq; lia|reflexivity].
        -- unfold same_alw. cbn [with_tok now]. rewrite !allowance_data_ad.
           destruct (N.eqb t tok) eqn:E; [|apply zz_eqb_refl].
           apply N.eqb_eq in E. subst t. rewrite (alw_get_same_alw _ _ _ _ Hal). apply zz_eqb_refl.
      * apply logs_rel_same. reflexivity.
      * apply al_obs_same. reflexivity.
      * apply Z.eqb_eq. reflexivity.
    + apply Inv_with_tok; [exact I|]. intros o s. rewrite (alw_get_same_alw _ _ _ _ Hal). apply (inv_alw _ _ I).
Qed.

(* the state invariant is preserved by every successful call, well-formed or not *)
Lemma step_ok_Inv c st S cl st' ret :
  wfc c -> Inv st S -> step_ok c st cl = Ok (st', ret) ->
  Inv st' (snd (mon_call c S (observe c st) (observe c st') cl ret)).
Proof.
  intros Hw I H. destruct cl as [n|tok to amt|tok owner spender amt exp au|k tok fee max exp target fn args user relayer au
                               |allowed tok operator au|tok recipient operator au].
  4:{ cbn [mon_call snd]. cbn [step_ok] in H. eapply Inv_forward; eauto. }
  all: match type of H with step_ok _ _ ?cl = _ =>
         destruct (step_ok_mon c st S cl st' ret Hw Logic.I I H) as [S' [Hm I']] end; rewrite Hm; exact I'.
Qed.

Lemma step_mon c st S cl st' out :
  wfc c -> wf_call c cl = true -> Inv st S -> step c st cl = (st', out) ->
  exists S', mon_step c S (observe c st) (cl, out, observe c st') = (true, S') /\ Inv st' S'.
Proof.
  intros Hw Hwf I. unfold step. destruct (step_ok c st cl) as [[st1 r]|] eqn:E.
  - intros H. inversion H; subst st' out. clear H.
    destruct (step_ok_mon _ _ _ _ _ _ Hw (wf_fwd_of _ _ Hwf) I E) as [S' [Hm I']]. exists S'. split; [|exact I'].
    unfold mon_step. rewrite Hwf. cbn [negb]. rewrite Hm. f_equal. cbn [andb].
    apply al_consistent_model; [apply (inv_wf _ _ I')|apply (inv_set _ _ I')].
  - intros H. inversion H; subst st' out. clear H. exists S. split; [|exact I].
    unfold mon_step. rewrite Hwf. cbn [negb]. rewrite obs_eqb_refl. cbn [andb]. f_equal.
    apply al_consistent_model; [apply (inv_wf _ _ I)|apply (inv_set _ _ I)].
Qed.

Lemma mon_from_model c st S cs i :
  wfc c -> forallb (wf_call c) cs = true -> Inv st S ->
  mon_from c S (observe c st) (model_items c st cs) i = 0%N.
Proof.
  intros Hw. revert st S i. induction cs as [|cl r IH]; intros st S i Hwf I; cbn [model_items mon_from]; [reflexivity|].
  cbn [forallb] in Hwf. apply andb_true_iff in Hwf. destruct Hwf as [Hwf1 Hwf2].
  destruct (step c st cl) as [st' out] eqn:E. cbn [mon_from].
  destruct (step_mon _ _ _ _ _ _ Hw Hwf1 I E) as [S' [Hm I']]. rewrite Hm. cbn [snd]. apply IH; assumption.
Qed.

Theorem check_accepts_model : forall (c : cfg) (cs : list call),
  1 <= min_temp_ttl (c_host c) -> forallb (wf_call c) cs = true ->
  check (observe_model c cs) = (0%N, 0%N, 0%N).
Proof.
  intros c cs Hw Hwf. unfold check, observe_model, diff, mon.
  rewrite obs_eqb_refl, diff_from_model.
  rewrite (al_consistent_model c (init c) []) by (cbn [al init]; first [apply al_wf_0|apply al_set_0]).
  cbn [observe o_now init now]. rewrite Z.eqb_refl. cbn [andb].
  rewrite (mon_from_model c (init c) [] cs 0%N Hw Hwf (Inv_init c)). reflexivity.
Qed.
