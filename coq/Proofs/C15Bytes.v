(* C15: byte-level facts - big-endian encodings, expiration encoding round trip, signature data
   layouts, injectivity of the claim message and of the claim identifier. *)
From SC Require Import Lib.Prelude Lib.Int Lib.Host Model.ClaimIssuer Proofs.C15Base.

Lemma le_bytes_length n v : length (le_bytes n v) = n.
Proof. revert v. induction n; cbn; intros; auto. Qed.
Lemma B_length n v : 0 <= n -> zlen (B n v) = n.
Proof. intros H. unfold zlen, B. rewrite rev_length, le_bytes_length. lia. Qed.
Lemma B_length_nat n v : length (B n v) = Z.to_nat n.
Proof. unfold B. rewrite rev_length, le_bytes_length. reflexivity. Qed.
Lemma be32_length v : length (be32 v) = 4%nat. Proof. apply B_length_nat. Qed.
Lemma be64_length v : length (be64 v) = 8%nat. Proof. apply B_length_nat. Qed.

(* little-endian value *)
Fixpoint le_val (l : bytes) : Z := match l with [] => 0 | x :: r => x + 256 * le_val r end.

Lemma be_val_app acc l x : be_val acc (l ++ [x]) = be_val acc l * 256 + x.
Proof. revert acc. induction l as [|y r IH]; cbn; intros; auto. Qed.
Lemma be_val_rev l : be_val 0 (rev l) = le_val l.
Proof.
  induction l as [|x r IH]; cbn [rev le_val]; [reflexivity|].
  rewrite be_val_app, IH. lia.
Qed.
Lemma le_val_le_bytes n v : le_val (le_bytes n v) = v mod 256 ^ Z.of_nat n.
Proof.
  revert v. induction n as [|n IH]; intros v.
  - cbn. rewrite Z.mod_1_r. reflexivity.
  - cbn [le_bytes le_val]. rewrite IH, Nat2Z.inj_succ, Z.pow_succ_r by lia.
    rewrite Z.rem_mul_r by lia. reflexivity.
Qed.
(* decoding the n-byte big-endian representation gives the value back *)
Lemma be_val_B n v : 0 <= n -> be_val 0 (B n v) = v mod 256 ^ n.
Proof. intros H. unfold B. rewrite be_val_rev, le_val_le_bytes, Z2Nat.id by lia. reflexivity. Qed.
Lemma B_inj n v v' : 0 <= n -> 0 <= v < 256 ^ n -> 0 <= v' < 256 ^ n -> B n v = B n v' -> v = v'.
Proof.
  intros Hn Hv Hv' E. apply (f_equal (be_val 0)) in E. rewrite !be_val_B in E by lia.
  rewrite !Z.mod_small in E by lia. exact E.
Qed.
Lemma be32_inj v v' : 0 <= v <= MAXU32 -> 0 <= v' <= MAXU32 -> be32 v = be32 v' -> v = v'.
Proof. unfold MAXU32. intros H H'. apply B_inj; try lia. Qed.
Lemma be32_val v : 0 <= v <= MAXU32 -> be_val 0 (be32 v) = v.
Proof. unfold MAXU32, be32. intros H. rewrite be_val_B by lia. apply Z.mod_small. lia. Qed.
Lemma be64_val v : 0 <= v < 2 ^ 64 -> be_val 0 (be64 v) = v.
Proof. unfold be64. intros H. rewrite be_val_B by lia. apply Z.mod_small. lia. Qed.

(* ---------------- splitting concatenations ---------------- *)
Lemma app_inj_length {A} (a a' b b' : list A) :
  length a = length a' -> a ++ b = a' ++ b' -> a = a' /\ b = b'.
Proof.
  revert a'. induction a as [|x a IH]; intros [|y a'] Hl E; cbn in *; try discriminate; auto.
  inversion E. subst. destruct (IH a' ltac:(lia) H1). subst. auto.
Qed.
Lemma firstn_app_exact {A} (a b : list A) n : length a = n -> firstn n (a ++ b) = a.
Proof. intros <-. rewrite firstn_app, Nat.sub_diag, firstn_all. cbn. apply app_nil_r. Qed.
Lemma skipn_app_exact {A} (a b : list A) n : length a = n -> skipn n (a ++ b) = b.
Proof. intros <-. rewrite skipn_app, Nat.sub_diag, skipn_all. reflexivity. Qed.

Lemma slice_0 (l : bytes) n : slice l 0 n = firstn n l.
Proof. unfold slice. rewrite Nat.sub_0_r. reflexivity. Qed.
Lemma slice_head (a b : bytes) n : length a = n -> slice (a ++ b) 0 n = a.
Proof. intros H. rewrite slice_0. apply firstn_app_exact. exact H. Qed.
Lemma slice_mid (a b c : bytes) n m : length a = n -> (length a + length b = m)%nat -> slice (a ++ b ++ c) n m = b.
Proof.
  intros Ha Hb. unfold slice. rewrite (skipn_app_exact a) by exact Ha.
  apply firstn_app_exact. lia.
Qed.
Lemma skipn_two (a b c : bytes) n : (length a + length b = n)%nat -> skipn n (a ++ b ++ c) = c.
Proof.
  intros H. rewrite app_assoc. apply skipn_app_exact. rewrite app_length. exact H.
Qed.

(* ---------------- expiration encoding ---------------- *)
Lemma decode_encode ca vu p :
  0 <= ca < 2 ^ 64 -> 0 <= vu < 2 ^ 64 ->
  forall d, encode_expiration ca vu p = Ok d -> decode_expiration d = Ok (ca, vu, p) /\ ca < vu.
Proof.
  intros Hc Hv d. unfold encode_expiration. destruct (vu <=? ca) eqn:E; [discriminate|].
  intros H. assert (Hd : d = be64 ca ++ be64 vu ++ p) by congruence. clear H. subst d.
  apply Z.leb_gt in E. split; [|exact E].
  unfold decode_expiration, zlen. rewrite !app_length, be64_length, be64_length.
  destruct (Z.of_nat (8 + (8 + length p)) <? 16) eqn:El; [apply Z.ltb_lt in El; lia|].
  rewrite (slice_head (be64 ca)) by apply be64_length.
  rewrite (slice_mid (be64 ca) (be64 vu)) by (rewrite ?be64_length; reflexivity).
  rewrite (skipn_two (be64 ca) (be64 vu)) by (rewrite !be64_length; reflexivity).
  rewrite !be64_val by lia. reflexivity.
Qed.

(* a claim whose data carries valid_until is expired exactly from that timestamp on *)
Lemma expired_iff now ca vu p d :
  decode_expiration d = Ok (ca, vu, p) -> is_claim_expired now d = Ok (vu <=? now).
Proof. unfold is_claim_expired. intros ->. reflexivity. Qed.

(* ---------------- signature data layouts ---------------- *)
Lemma extract_ed25519_layout pk sg :
  length pk = 32%nat -> length sg = 64%nat ->
  extract_ed25519 (pk ++ sg) = Ok {| sd_pk := pk; sd_sig := sg; sd_rid := 0 |}.
Proof.
  intros Hp Hs. unfold extract_ed25519, zlen. rewrite app_length, Hp, Hs. cbn [Z.of_nat Nat.add].
  replace (Z.of_nat (32 + 64) =? 96) with true by reflexivity.
  rewrite (slice_head pk) by exact Hp.
  replace (pk ++ sg) with (pk ++ sg ++ []) by (rewrite app_nil_r; reflexivity).
  rewrite (slice_mid pk sg []) by (rewrite ?Hp, ?Hs; reflexivity). reflexivity.
Qed.
Lemma extract_secp256r1_layout pk sg :
  length pk = 65%nat -> length sg = 64%nat ->
  extract_secp256r1 (pk ++ sg) = Ok {| sd_pk := pk; sd_sig := sg; sd_rid := 0 |}.
Proof.
  intros Hp Hs. unfold extract_secp256r1, zlen. rewrite app_length, Hp, Hs.
  replace (Z.of_nat (65 + 64) =? 129) with true by reflexivity.
  rewrite (slice_head pk) by exact Hp.
  replace (pk ++ sg) with (pk ++ sg ++ []) by (rewrite app_nil_r; reflexivity).
  rewrite (slice_mid pk sg []) by (rewrite ?Hp, ?Hs; reflexivity). reflexivity.
Qed.
Lemma extract_secp256k1_layout pk sg rid :
  length pk = 65%nat -> length sg = 64%nat -> 0 <= rid <= MAXU32 ->
  extract_secp256k1 (pk ++ sg ++ be32 rid) = Ok {| sd_pk := pk; sd_sig := sg; sd_rid := rid |}.
Proof.
  intros Hp Hs Hr. unfold extract_secp256k1, zlen. rewrite !app_length, Hp, Hs, be32_length.
  replace (Z.of_nat (65 + (64 + 4)) =? 133) with true by reflexivity.
  rewrite (slice_head pk) by exact Hp.
  rewrite (slice_mid pk sg) by (rewrite ?Hp, ?Hs; reflexivity).
  unfold slice. rewrite (skipn_two pk sg) by (rewrite Hp, Hs; reflexivity).
  rewrite firstn_all2 by (rewrite be32_length; lia). rewrite be32_val by exact Hr. reflexivity.
Qed.
(* any other length is rejected *)
Lemma extract_sig_ok_length scheme s sd : extract_sig scheme s = Ok sd ->
  (scheme = ED25519 /\ zlen s = 96) \/ (scheme = SECP256K1 /\ zlen s = 133) \/ (scheme = SECP256R1 /\ zlen s = 129).
Proof.
  unfold extract_sig, extract_ed25519, extract_secp256k1, extract_secp256r1.
  destruct (scheme =? ED25519) eqn:E1.
  - destruct (zlen s =? 96) eqn:L; [|discriminate]. intros _. left. split; [apply Z.eqb_eq; auto | apply Z.eqb_eq; auto].
  - destruct (scheme =? SECP256K1) eqn:E2.
    + destruct (zlen s =? 133) eqn:L; [|discriminate]. intros _. right. left. split; apply Z.eqb_eq; auto.
    + destruct (scheme =? SECP256R1) eqn:E3; [|discriminate].
      destruct (zlen s =? 129) eqn:L; [|discriminate]. intros _. right. right. split; apply Z.eqb_eq; auto.
Qed.

(* ---------------- message and identifier are injective ---------------- *)
(* XDR encodings are self-delimiting: no encoding of an address is a proper prefix of the
   encoding of another one *)
Definition prefix_free (xdr : addr -> bytes) : Prop :=
  forall a b s s', xdr a ++ s = xdr b ++ s' -> a = b.

Section Injective.
  Variable xdr : addr -> bytes.
  Hypothesis Hpf : prefix_free xdr.

  Lemma xdr_split a b s s' : xdr a ++ s = xdr b ++ s' -> a = b /\ s = s'.
  Proof. intros E. pose proof (Hpf _ _ _ _ E) as ->. apply app_inv_head in E. auto. Qed.

  (* fixed-width topic and nonce, self-delimiting addresses: different (issuer, identity, topic,
     nonce, data) give different messages *)
  Theorem message_injective net i d t n data i' d' t' n' data' :
    0 <= t <= MAXU32 -> 0 <= t' <= MAXU32 -> 0 <= n <= MAXU32 -> 0 <= n' <= MAXU32 ->
    build_claim_message net (xdr i) (xdr d) t n data = build_claim_message net (xdr i') (xdr d') t' n' data' ->
    i = i' /\ d = d' /\ t = t' /\ n = n' /\ data = data'.
  Proof.
    intros Ht Ht' Hn Hn' E. unfold build_claim_message in E.
    apply app_inv_head in E. apply xdr_split in E. destruct E as [-> E].
    apply xdr_split in E. destruct E as [-> E].
    apply app_inj_length in E; [|rewrite !be32_length; reflexivity]. destruct E as [E1 E].
    apply app_inj_length in E; [|rewrite !be32_length; reflexivity]. destruct E as [E2 E].
    apply be32_inj in E1; auto. apply be32_inj in E2; auto.
  Qed.

  Theorem identifier_injective net i d t data i' d' t' data' :
    0 <= t <= MAXU32 -> 0 <= t' <= MAXU32 ->
    build_claim_identifier net (xdr i) (xdr d) t data = build_claim_identifier net (xdr i') (xdr d') t' data' ->
    i = i' /\ d = d' /\ t = t' /\ data = data'.
  Proof.
    intros Ht Ht' E. unfold build_claim_identifier in E.
    apply app_inv_head in E. apply xdr_split in E. destruct E as [-> E].
    apply xdr_split in E. destruct E as [-> E].
    apply app_inj_length in E; [|rewrite !be32_length; reflexivity]. destruct E as [E1 E].
    apply be32_inj in E1; auto.
  Qed.

  (* the pre-image of a claim id (issuer_xdr || topic_be) determines issuer and topic *)
  Theorem claim_id_preimage_injective i t i' t' :
    0 <= t <= MAXU32 -> 0 <= t' <= MAXU32 -> xdr i ++ be32 t = xdr i' ++ be32 t' -> i = i' /\ t = t'.
  Proof. intros Ht Ht' E. apply xdr_split in E. destruct E as [-> E]. apply be32_inj in E; auto. Qed.
End Injective.

(* the hypothesis is satisfiable: a one-symbol encoding is prefix free *)
Example prefix_free_instance : prefix_free (fun a => [Z.of_N a]).
Proof. intros a b s s' E. inversion E. lia. Qed.
(* so is any fixed-width injective encoding, e.g. the 40-byte contract-address form *)
Lemma fixed_width_prefix_free (xdr : addr -> bytes) n :
  (forall a, length (xdr a) = n) -> (forall a b, xdr a = xdr b -> a = b) -> prefix_free xdr.
Proof.
  intros Hl Hi a b s s' E. apply app_inj_length in E; [|rewrite !Hl; reflexivity]. apply Hi. tauto.
Qed.
