(* C03 - the table clauses of the monitor (Run/C03.v: table_ok, same_table, expected_table) hold on
   every run of the model; together with the authorisation clauses (Proofs/C03Monitor.v) this
   gives [check (observe_model ...) = (0,0,0)]. *)
From SC Require Import Lib.Prelude Lib.Int Lib.Host Model.SmartAccount Proofs.SmartAccount Proofs.SmartAccountInv
  Proofs.SmartAccountLimits Run.C03 Proofs.C03Monitor.
From Coq Require Import Sorted.

(* ------------------------------------------------------------------------- *)
(* a well-formed model table passes table_ok                                  *)
(* ------------------------------------------------------------------------- *)
Lemma ids_increasing_of_sorted T : forall lo,
  StronglySorted Z.lt (map r_id T) -> (forall r, In r T -> lo < r_id r) -> ids_increasing lo T = true.
Proof.
  induction T as [|x T IH]; intros lo S H; [reflexivity|]. cbn [map] in S. inversion S as [|? ? S' F]; subst.
  cbn [ids_increasing]. apply andb_true_iff. split; [apply Z.ltb_lt; apply H; left; reflexivity|].
  apply IH; [exact S'|]. intros r Hr. rewrite Forall_forall in F. apply F. apply in_map. exact Hr.
Qed.

Lemma rule_within_of_ok c r : rule_ok c r -> rule_within c r = true.
Proof.
  intros [H1 [H2 [H3 [H4 H5]]]]. unfold rule_within.
  rewrite (proj2 (nodup_s_NoDup _) H1), (proj2 (nodup_p_NoDup _) H2), (proj2 (Z.leb_le _ _) H3), (proj2 (Z.leb_le _ _) H4).
  cbn [andb]. destruct (r_signers r), (r_policies r); cbn; try reflexivity. destruct H5; congruence.
Qed.

Lemma fp_unique_of T :
  NoDup T -> (forall r1 r2, In r1 T -> In r2 T -> fp_eqb (fp_of r1) (fp_of r2) = true -> r1 = r2) -> fp_unique T = true.
Proof.
  induction T as [|x T IH]; intros Hd Hi; [reflexivity|]. inversion Hd as [|? ? Hnx Hd']; subst. cbn [fp_unique].
  apply andb_true_iff. split.
  - apply negb_true_iff. destruct (existsb (same_fp x) T) eqn:E; [|reflexivity].
    apply existsb_exists in E. destruct E as [y [Hy Hf]]. exfalso.
    assert (x = y) by (apply Hi; [left; reflexivity|right; exact Hy|exact Hf]). subst. contradiction.
  - apply IH; [exact Hd'|]. intros r1 r2 Hr1 Hr2. apply Hi; right; assumption.
Qed.

Lemma get_context_rules_wf a t : wf a -> get_context_rules a t = Ok (typed_rules a t).
Proof.
  intros W. unfold get_context_rules. rewrite (wf_ids a W t).
  assert (H : forall r, In r (typed_rules a t) -> get_context_rule a (r_id r) = Ok r).
  { intros r Hr. unfold get_context_rule. rewrite (get_rule_in a r W); [reflexivity|].
    unfold typed_rules in Hr. apply filter_In in Hr. tauto. }
  induction (typed_rules a t) as [|x l IH]; [reflexivity|]. cbn [map mapM].
  rewrite (H x (or_introl eq_refl)). cbn [bind]. rewrite IH by (intros r Hr; apply H; right; exact Hr). reflexivity.
Qed.

Lemma list_eqb_Z_refl l : list_eqb Z.eqb l l = true.
Proof. apply (list_eqb_eq Z.eqb Z.eqb_eq). reflexivity. Qed.

Lemma table_ok_model c types st :
  wf (s_acct st) -> wf2 c (s_acct st) -> table_ok c (observe types st) = true.
Proof.
  intros W W2. unfold table_ok, observe. cbn [ob_rules ob_count ob_ids].
  rewrite (w2_count c _ W2), Z.eqb_refl. cbn [andb].
  assert (H1 : zlen (a_rules (s_acct st)) <=? Z.max 0 (max_rules c) = true).
  { apply Z.leb_le. rewrite <- (w2_count c _ W2). apply W2. }
  rewrite H1. cbn [andb].
  rewrite (ids_increasing_of_sorted _ (-1) (wf_sorted _ W)) by (intros r Hr; pose proof (wf_next _ W r Hr); lia).
  cbn [andb].
  assert (H2 : forallb (rule_within c) (a_rules (s_acct st)) = true).
  { apply forallb_forall. intros r Hr. apply rule_within_of_ok. apply (w2_rules c _ W2). exact Hr. }
  rewrite H2. cbn [andb].
  rewrite fp_unique_of; [|eapply NoDup_map_inv; apply SSorted_NoDup; apply W|apply W2]. cbn [andb].
  apply forallb_forall. intros tl Htl. apply in_map_iff in Htl. destruct Htl as [t [<- _]].
  unfold ids_consistent. cbn [fst snd]. rewrite (get_context_rules_wf _ t W). cbn [option_eqb]. apply list_eqb_Z_refl.
Qed.

Lemma same_table_acct types st st' : s_acct st' = s_acct st -> same_table (observe types st) (observe types st') = true.
Proof.
  intros E. unfold same_table, observe. cbn [ob_count ob_rules ob_ids]. rewrite E, Z.eqb_refl. cbn [andb].
  apply andb_true_iff. split.
  - apply (list_eqb_eq rule_eqb rule_eqb_eq). reflexivity.
  - apply (list_eqb_eq ids_eqb ids_eqb_eq). reflexivity.
Qed.

(* ------------------------------------------------------------------------- *)
(* every successful entry point performs exactly the requested edit           *)
(* ------------------------------------------------------------------------- *)
Lemma set_rule_upd a id r f :
  wf a -> get_rule a id = Some r -> r_id (f r) = id -> set_rule (f r) (a_rules a) = upd id f (a_rules a).
Proof.
  intros W G Hf. destruct (get_rule_some _ _ _ G) as [Hr Hid]. unfold set_rule, upd. apply map_ext_in.
  intros x Hx. rewrite Hf. destruct (r_id x =? id) eqn:E; [|reflexivity].
  apply Z.eqb_eq in E. f_equal. apply (wf_id_inj a r x W Hr Hx). congruence.
Qed.

Lemma find_id_upd id f T r :
  find_id id T = Some r -> r_id (f r) = id -> find_id id (upd id f T) = Some (f r).
Proof.
  unfold find_id, upd. induction T as [|x T IH]; cbn [find map]; [discriminate|]. intros H Hf.
  destruct (r_id x =? id) eqn:E.
  - inversion H; subst x. rewrite Hf, Z.eqb_refl. reflexivity.
  - rewrite E. auto.
Qed.

Lemma remove_first_split2 {A} (eqb : A -> A -> bool) x l l' :
  (forall a b, eqb a b = true -> a = b) ->
  remove_first eqb x l = Some l' -> exists a b, l = a ++ x :: b /\ l' = a ++ b.
Proof.
  intros Heq. revert l'. induction l as [|z r IH]; intros l' H; cbn [remove_first] in H; [discriminate|].
  destruct (eqb x z) eqn:E.
  - inversion H; subst. apply Heq in E. subst z. exists [], l'. split; reflexivity.
  - destruct (remove_first eqb x r) as [r'|]; [|discriminate]. inversion H; subst.
    destruct (IH r' eq_refl) as [a [b [-> ->]]]. exists (z :: a), b. split; reflexivity.
Qed.

Lemma remove_last_filter {A} (eqb : A -> A -> bool) x l l' :
  (forall a b, eqb a b = true <-> a = b) -> NoDup l ->
  remove_last eqb x l = Some l' -> l' = filter (fun y => negb (eqb x y)) l /\ In x l.
Proof.
  intros Heq Hd H. unfold remove_last in H.
  destruct (remove_first eqb x (rev l)) as [l2|] eqn:E; [|discriminate]. inversion H; subst l'.
  destruct (remove_first_split2 eqb x _ _ (fun a b => proj1 (Heq a b)) E) as [a [b [H1 ->]]].
  assert (Hl : l = rev b ++ x :: rev a).
  { rewrite <- (rev_involutive l), H1, rev_app_distr. cbn [rev]. rewrite <- app_assoc. reflexivity. }
  subst l. split; [|apply in_or_app; right; left; reflexivity].
  rewrite rev_app_distr. apply NoDup_remove in Hd. destruct Hd as [_ Hn].
  assert (Hkeep : forall m, ~ In x m -> filter (fun y => negb (eqb x y)) m = m).
  { induction m as [|y m IHm]; intros Hm; [reflexivity|]. cbn [filter].
    destruct (eqb x y) eqn:Ey; [apply Heq in Ey; subst; exfalso; apply Hm; left; reflexivity|].
    cbn [negb]. f_equal. apply IHm. intros Hi. apply Hm. right. exact Hi. }
  rewrite filter_app. cbn [filter]. rewrite (proj2 (Heq x x) eq_refl). cbn [negb].
  rewrite !Hkeep; [reflexivity| |]; intros Hi; apply Hn; apply in_or_app; [right|left]; exact Hi.
Qed.

Lemma rule_eqb_refl' r : rule_eqb r r = true. Proof. apply rule_eqb_eq. reflexivity. Qed.

Theorem expected_table_model O c a now op a' ret l maxid :
  wf a -> wf2 c a -> maxid < a_next a ->
  run_op O c a now op = Ok (a', ret, l) ->
  expected_table maxid (a_rules a) op ret = Some (a_rules a').
Proof.
  intros W W2 Hm H. destruct op; cbn [run_op] in H.
  - (* AddRule *)
    destruct (add_context_rule O c a now t name valid signers policies) as [[[a1 r1] l1]|] eqn:E; [|discriminate].
    cbn in H. inversion H; subst; clear H. unfold add_context_rule in E. inv_bind E. inversion E; subst; clear E.
    cbn [expected_table a_rules r_id]. rewrite (proj2 (Z.ltb_lt _ _) Hm), rule_eqb_refl'. reflexivity.
  - (* UpdName *)
    destruct (update_context_rule_name a id name) as [[[a1 r1] l1]|] eqn:E; [|discriminate].
    cbn in H. inversion H; subst; clear H. unfold update_context_rule_name, get_context_rule in E.
    destruct (get_rule a id) as [r0|] eqn:G; [|discriminate]. cbn in E. inversion E; subst; clear E.
    destruct (get_rule_some _ _ _ G) as [_ Hid].
    cbn [expected_table with_rules a_rules]. change (find_id id (a_rules a)) with (get_rule a id). rewrite G.
    assert (Er : mkRule id (r_type r0) name (r_valid r0) (r_signers r0) (r_policies r0) = with_name name r0)
      by (unfold with_name; rewrite Hid; reflexivity).
    rewrite Er. rewrite (set_rule_upd a id r0 (with_name name) W G Hid).
    rewrite (find_id_upd id (with_name name) (a_rules a) r0 G Hid). cbn [option_eqb]. rewrite rule_eqb_refl'. reflexivity.
  - (* UpdValid *)
    destruct (update_context_rule_valid_until a now id valid) as [[[a1 r1] l1]|] eqn:E; [|discriminate].
    cbn in H. inversion H; subst; clear H. unfold update_context_rule_valid_until, get_context_rule in E.
    destruct (get_rule a id) as [r0|] eqn:G; [|discriminate]. cbn [of_option bind] in E.
    destruct (guard (valid_until_ok now valid)); [|discriminate]. cbn in E. inversion E; subst; clear E.
    destruct (get_rule_some _ _ _ G) as [_ Hid].
    cbn [expected_table with_rules a_rules]. change (find_id id (a_rules a)) with (get_rule a id). rewrite G.
    assert (Er : mkRule id (r_type r0) (r_name r0) valid (r_signers r0) (r_policies r0) = with_valid valid r0)
      by (unfold with_valid; rewrite Hid; reflexivity).
    rewrite Er. rewrite (set_rule_upd a id r0 (with_valid valid) W G Hid).
    rewrite (find_id_upd id (with_valid valid) (a_rules a) r0 G Hid). cbn [option_eqb]. rewrite rule_eqb_refl'. reflexivity.
  - (* RemoveRule *)
    destruct (remove_context_rule O a id) as [[a1 l1]|] eqn:E; [|discriminate].
    cbn in H. inversion H; subst; clear H. unfold remove_context_rule in E.
    destruct (get_context_rule a id) as [r|] eqn:G; [|discriminate]. cbn [bind] in E.
    inv_bind E. inversion E; subst; clear E. apply get_context_rule_some in G.
    cbn [expected_table a_rules]. change (find_id id (a_rules a)) with (get_rule a id). rewrite G. reflexivity.
  - (* AddSigner *)
    destruct (add_signer c a id s) as [[a1 l1]|] eqn:E; [|discriminate].
    cbn in H. inversion H; subst; clear H. unfold add_signer in E.
    destruct (get_context_rule a id) as [r|] eqn:G; [|discriminate]. cbn [bind] in E.
    destruct (mem_s s (r_signers r)) eqn:Em; [discriminate|]. cbn [negb guard bind] in E.
    inv_bind E. inversion E; subst; clear E. apply get_context_rule_some in G. destruct (get_rule_some _ _ _ G) as [_ Hid].
    cbn [expected_table]. change (find_id id (a_rules a)) with (get_rule a id). rewrite G, Em.
    unfold set_signers. cbn [a_rules]. f_equal. symmetry.
    apply (set_rule_upd a id r (with_signers (fun l => l ++ [s])) W G Hid).
  - (* RemoveSigner *)
    destruct (remove_signer c a id s) as [[a1 l1]|] eqn:E; [|discriminate].
    cbn in H. inversion H; subst; clear H. unfold remove_signer in E.
    destruct (get_context_rule a id) as [r|] eqn:G; [|discriminate]. cbn [bind] in E.
    destruct (remove_last signer_eqb s (r_signers r)) as [ss|] eqn:Em; [|discriminate]. cbn [of_option bind] in E.
    inv_bind E. inversion E; subst; clear E. apply get_context_rule_some in G. destruct (get_rule_some _ _ _ G) as [Hr Hid].
    destruct (w2_rules c a W2 r Hr) as [Hnd _].
    destruct (remove_last_filter signer_eqb s _ _ signer_eqb_eq Hnd Em) as [-> Hin].
    cbn [expected_table]. change (find_id id (a_rules a)) with (get_rule a id). rewrite G, (proj2 (mem_s_In _ _) Hin).
    unfold set_signers. cbn [a_rules]. f_equal. symmetry.
    apply (set_rule_upd a id r (with_signers (filter (fun x => negb (signer_eqb s x)))) W G Hid).
  - (* AddPolicy *)
    destruct (add_policy O c a id p param) as [[a1 l1]|] eqn:E; [|discriminate].
    cbn in H. inversion H; subst; clear H. unfold add_policy in E.
    destruct (get_context_rule a id) as [r|] eqn:G; [|discriminate]. cbn [bind] in E.
    destruct (mem_p p (r_policies r)) eqn:Em; [discriminate|]. cbn [negb guard bind] in E.
    inv_bind E. inversion E; subst; clear E. apply get_context_rule_some in G. destruct (get_rule_some _ _ _ G) as [_ Hid].
    cbn [expected_table]. change (find_id id (a_rules a)) with (get_rule a id). rewrite G, Em.
    unfold set_policies. cbn [a_rules]. f_equal. symmetry.
    apply (set_rule_upd a id r (with_policies (fun l => l ++ [p])) W G Hid).
  - (* RemovePolicy *)
    destruct (remove_policy O c a id p) as [[a1 l1]|] eqn:E; [|discriminate].
    cbn in H. inversion H; subst; clear H. unfold remove_policy in E.
    destruct (get_context_rule a id) as [r|] eqn:G; [|discriminate]. cbn [bind] in E.
    destruct (remove_last N.eqb p (r_policies r)) as [ps|] eqn:Em; [|discriminate]. cbn [of_option bind] in E.
    inv_bind E. inversion E; subst; clear E. apply get_context_rule_some in G. destruct (get_rule_some _ _ _ G) as [Hr Hid].
    destruct (w2_rules c a W2 r Hr) as [_ [Hnd _]].
    destruct (remove_last_filter N.eqb p _ _ N.eqb_eq Hnd Em) as [-> Hin].
    cbn [expected_table]. change (find_id id (a_rules a)) with (get_rule a id). rewrite G, (proj2 (mem_p_In _ _) Hin).
    unfold set_policies. cbn [a_rules]. f_equal. symmetry.
    apply (set_rule_upd a id r (with_policies (filter (fun x => negb (N.eqb p x)))) W G Hid).
Qed.

(* ids are never handed out twice: the next id only grows *)
Lemma run_op_next O c a now op a' ret l : run_op O c a now op = Ok (a', ret, l) -> a_next a <= a_next a'.
Proof.
  intros H. destruct op; cbn [run_op] in H.
  - destruct (add_context_rule O c a now t name valid signers policies) as [[[a1 r1] l1]|] eqn:E; [|discriminate].
    cbn in H. inversion H; subst. unfold add_context_rule in E. inv_bind E. inversion E; subst. cbn [a_next]. lia.
  - destruct (update_context_rule_name a id name) as [[[a1 r1] l1]|] eqn:E; [|discriminate].
    cbn in H. inversion H; subst. unfold update_context_rule_name in E. inv_bind E. inversion E; subst. cbn. lia.
  - destruct (update_context_rule_valid_until a now id valid) as [[[a1 r1] l1]|] eqn:E; [|discriminate].
    cbn in H. inversion H; subst. unfold update_context_rule_valid_until in E. inv_bind E. inversion E; subst. cbn. lia.
  - destruct (remove_context_rule O a id) as [[a1 l1]|] eqn:E; [|discriminate].
    cbn in H. inversion H; subst. unfold remove_context_rule in E. inv_bind E. inversion E; subst. cbn. lia.
  - destruct (add_signer c a id s) as [[a1 l1]|] eqn:E; [|discriminate].
    cbn in H. inversion H; subst. unfold add_signer in E. inv_bind E. inversion E; subst. cbn. lia.
  - destruct (remove_signer c a id s) as [[a1 l1]|] eqn:E; [|discriminate].
    cbn in H. inversion H; subst. unfold remove_signer in E. inv_bind E. inversion E; subst. cbn. lia.
  - destruct (add_policy O c a id p param) as [[a1 l1]|] eqn:E; [|discriminate].
    cbn in H. inversion H; subst. unfold add_policy in E. inv_bind E. inversion E; subst. cbn. lia.
  - destruct (remove_policy O c a id p) as [[a1 l1]|] eqn:E; [|discriminate].
    cbn in H. inversion H; subst. unfold remove_policy in E. inv_bind E. inversion E; subst. cbn. lia.
Qed.

Lemma fold_max_lt l : forall m B, m < B -> (forall x, In x l -> x < B) -> fold_left Z.max l m < B.
Proof.
  induction l as [|y l IH]; intros m B Hm H; [exact Hm|]. cbn [fold_left]. apply IH.
  - specialize (H y (or_introl eq_refl)). lia.
  - intros x Hx. apply H. right. exact Hx.
Qed.

Lemma maxid_next a m : wf a -> m < a_next a -> fold_left Z.max (map r_id (a_rules a)) m < a_next a.
Proof.
  intros W Hm. apply fold_max_lt; [exact Hm|]. intros x Hx. apply in_map_iff in Hx. destruct Hx as [r [<- Hr]].
  apply (wf_next a W r Hr).
Qed.

(* ------------------------------------------------------------------------- *)
(* the monitor accepts every run of the model                                 *)
(* ------------------------------------------------------------------------- *)
Definition sim2 (c : cfg) (types : list ctype) (m : mstate) (st : state) : Prop :=
  sim m st /\
  (ms_deployed m = true -> ms_prev m = observe types st) /\
  ms_maxid m < a_next (s_acct st) /\
  (s_deployed st = false -> s_acct st = acct0) /\
  wf2 c (s_acct st).

Lemma sim2_init c types : sim2 c types mstate0 init.
Proof.
  split; [apply sim_init|]. split; [discriminate|]. split; [cbn; lia|]. split; [reflexivity|apply wf2_acct0].
Qed.

Lemma step_next_mono c st cl : a_next (s_acct st) <= a_next (s_acct (fst (step c st cl))).
Proof.
  destruct cl; cbn [step].
  - destruct (s_deployed st); [cbn; lia|].
    destruct (add_context_rule _ c (s_acct st) (s_now st) TDefault 0%N None signers policies) as [[[a1 r1] l1]|] eqn:E; cbn [fst s_acct]; [|lia].
    unfold add_context_rule in E. inv_bind E. inversion E; subst. cbn [a_next]. lia.
  - destruct ((0 <=? n) && in_u32 (s_now st + n)); cbn; lia.
  - cbn. lia.
  - destruct (negb (s_deployed st)); [cbn; lia|].
    destruct (do_check_auth _ (s_acct st) (s_now st) auths sigs [CCall self (fn_of op)]) as [l1|]; cbn [bind]; [|cbn; lia].
    destruct (run_op _ c (s_acct st) (s_now st) op) as [[[a1 ret] l2]|] eqn:E; cbn [bind fst s_acct]; [|lia].
    eapply run_op_next; eauto.
  - destruct (negb (s_deployed st)); [cbn; lia|]. destruct (do_check_auth _ _ _ _ _ _); cbn; lia.
  - destruct (negb (s_deployed st)); [cbn; lia|]. destruct (do_check_auth _ _ _ _ _ _); cbn; lia.
  - destruct (negb (s_deployed st)); [cbn; lia|]. destruct (do_check_auth _ _ _ _ _ _); [|cbn; lia].
    destruct ((1 <=? t) && (t <=? nsig)); cbn; lia.
Qed.

Lemma step_undeployed_acct c st cl :
  (s_deployed st = false -> s_acct st = acct0) ->
  s_deployed (fst (step c st cl)) = false -> s_acct (fst (step c st cl)) = acct0.
Proof.
  intros H. destruct cl; cbn [step].
  - destruct (s_deployed st) eqn:D; [cbn; congruence|].
    destruct (add_context_rule _ c (s_acct st) (s_now st) TDefault 0%N None signers policies) as [[[a1 r1] l1]|]; cbn; [discriminate|auto].
  - destruct ((0 <=? n) && in_u32 (s_now st + n)); cbn; auto.
  - cbn. auto.
  - destruct (s_deployed st) eqn:D; cbn [negb]; [|cbn; auto].
    destruct (do_check_auth _ (s_acct st) (s_now st) auths sigs [CCall self (fn_of op)]) as [l1|]; cbn [bind]; [|cbn; congruence].
    destruct (run_op _ c (s_acct st) (s_now st) op) as [[[a1 ret] l2]|]; cbn; congruence.
  - destruct (negb (s_deployed st)); [cbn; auto|]. destruct (do_check_auth _ _ _ _ _ _); cbn; auto.
  - destruct (negb (s_deployed st)); [cbn; auto|]. destruct (do_check_auth _ _ _ _ _ _); cbn; auto.
  - destruct (s_deployed st) eqn:D; cbn [negb]; [|cbn; auto]. destruct (do_check_auth _ _ _ _ _ _); [|cbn; congruence].
    destruct ((1 <=? t) && (t <=? nsig)); cbn; congruence.
Qed.

Lemma mon_next_fields m cl out ob :
  ms_prev (mon_next m (cl, out, ob)) = ob /\
  ms_maxid (mon_next m (cl, out, ob)) = fold_left Z.max (map r_id (ob_rules ob)) (ms_maxid m).
Proof. split; reflexivity. Qed.

Lemma table_step_model c types m st cl :
  sim2 c types m st -> swf st ->
  table_step c m (cl, snd (step c st cl), observe types (fst (step c st cl))) = true.
Proof.
  intros [[Sm [Sd [Sr Sn]]] [Sp [Sx [Sa W2]]]] [W N].
  pose proof (swf_step c st cl (conj W N)) as [W' N'].
  pose proof (wf2_step c st cl W W2) as W2'.
  pose proof (table_ok_model c types _ W' W2') as Tok.
  unfold table_step. rewrite Sd.
  destruct (s_deployed st) eqn:D; cbn [negb].
  - (* deployed *)
    rewrite Tok. cbn [andb]. rewrite (Sp (eq_trans Sd eq_refl)). clear Tok.
    destruct cl; cbn [step]; rewrite ?D; cbn [negb].
    + (* Construct on a deployed account: refused *)
      cbn [fst snd]. rewrite same_table_acct by reflexivity. cbn [observe ob_now]. rewrite Z.eqb_refl. reflexivity.
    + destruct ((0 <=? n) && in_u32 (s_now st + n)); cbn [fst snd].
      * rewrite same_table_acct by reflexivity. cbn [observe ob_now s_now]. rewrite Z.eqb_refl. reflexivity.
      * rewrite same_table_acct by reflexivity. cbn [observe ob_now]. rewrite Z.eqb_refl. reflexivity.
    + cbn [fst snd]. rewrite same_table_acct by reflexivity. cbn [observe ob_now s_now]. rewrite Z.eqb_refl. reflexivity.
    + destruct (do_check_auth _ (s_acct st) (s_now st) auths sigs [CCall self (fn_of op)]) as [l1|]; cbn [bind].
      2:{ cbn [fst snd]. rewrite same_table_acct by reflexivity. cbn [observe ob_now]. rewrite Z.eqb_refl. reflexivity. }
      destruct (run_op _ c (s_acct st) (s_now st) op) as [[[a1 ret] l2]|] eqn:E; cbn [bind fst snd].
      2:{ rewrite same_table_acct by reflexivity. cbn [observe ob_now]. rewrite Z.eqb_refl. reflexivity. }
      cbn [observe ob_rules ob_now s_acct s_now].
      rewrite (expected_table_model _ c (s_acct st) (s_now st) op a1 ret l2 (ms_maxid m) W W2 Sx E).
      rewrite Z.eqb_refl, andb_true_r. apply (list_eqb_eq rule_eqb rule_eqb_eq). reflexivity.
    + destruct (do_check_auth _ _ _ _ _ _); cbn [fst snd]; rewrite same_table_acct by reflexivity;
        cbn [observe ob_now]; rewrite Z.eqb_refl; reflexivity.
    + destruct (do_check_auth _ _ _ _ _ _); cbn [fst snd]; rewrite same_table_acct by reflexivity;
        cbn [observe ob_now]; rewrite Z.eqb_refl; reflexivity.
    + destruct (do_check_auth _ _ _ _ _ _); [destruct ((1 <=? t) && (t <=? nsig))|]; cbn [fst snd];
        rewrite same_table_acct by reflexivity; cbn [observe ob_now]; rewrite Z.eqb_refl; reflexivity.
  - (* not yet deployed *)
    destruct cl; cbn [step]; rewrite ?D; cbn [negb fst snd]; try reflexivity.
    + revert Tok W' W2'. cbn [step]. rewrite D.
      destruct (add_context_rule _ c (s_acct st) (s_now st) TDefault 0%N None signers policies) as [[[a1 r1] l1]|] eqn:E;
        cbn [fst snd]; [|reflexivity].
      intros Tok _ _. rewrite Tok. cbn [andb observe ob_rules s_acct].
      rewrite (Sa eq_refl) in E. unfold add_context_rule in E. inv_bind E. inversion E; subst; clear E.
      cbn [a_rules acct0 app r_id a_next]. rewrite (Sa eq_refl) in Sx. cbn [a_next acct0] in Sx.
      rewrite (proj2 (Z.ltb_lt _ _) Sx), rule_eqb_refl'. reflexivity.
Qed.

Lemma sim2_step c types m st cl :
  sim2 c types m st -> swf st ->
  sim2 c types (mon_next m (cl, snd (step c st cl), observe types (fst (step c st cl)))) (fst (step c st cl)).
Proof.
  intros S [W N]. pose proof S as [S0 [Sp [Sx [Sa W2]]]].
  destruct (auth_step_model c types m st cl S0 (conj W N)) as [_ S0'].
  pose proof (swf_step c st cl (conj W N)) as [W' N'].
  split; [exact S0'|]. split; [intros _; reflexivity|]. split; [|split].
  - destruct (mon_next_fields m cl (snd (step c st cl)) (observe types (fst (step c st cl)))) as [_ ->].
    cbn [observe ob_rules]. apply maxid_next; [exact W'|]. pose proof (step_next_mono c st cl). lia.
  - apply step_undeployed_acct. exact Sa.
  - apply wf2_step; assumption.
Qed.

Lemma monitor_accepts c types cs : forall m st i, sim2 c types m st -> swf st ->
  mon_from c m (model_items c types st cs) i = 0%N.
Proof.
  induction cs as [|cl r IH]; intros m st i S W; [reflexivity|].
  rewrite model_items_cons. cbn [mon_from]. unfold mon_step.
  destruct S as [S0 S']. destruct (auth_step_model c types m st cl S0 W) as [H1 _]. rewrite H1.
  rewrite (table_step_model c types m st cl (conj S0 S') W). cbn [andb].
  apply IH; [apply sim2_step; [exact (conj S0 S')|exact W]|apply swf_step; exact W].
Qed.

Theorem check_accepts_model c types cs : check (observe_model c types cs) = (0%N, 0%N, 0%N).
Proof.
  unfold check, observe_model. cbn [fst snd]. rewrite diff_accepts.
  rewrite (monitor_accepts c types cs mstate0 init 0%N (sim2_init c types) swf_init). reflexivity.
Qed.
