(* C03 - the table clauses of the monitor (Run/C03.v: table_ok, same_table, expected_table) hold on
   every run of the model; together with the authorisation clauses (Proofs/C03Monitor.v) this
   gives [check (observe_model ...) = (0,0,0)]. *)
From SC Require Import Lib.Prelude Lib.Int Lib.Host Model.SmartAccount Proofs.SmartAccount Proofs.SmartAccountInv
  Proofs.SmartAccountLimits Run.C03 Proofs.C03Monitor.
From Coq Require Import Sorted.

(* ------------------------------------------------------------------------- *)
(* a well-formed model table passes table_ok                                  *)
(* ------------------------------------------------------------------------- *)
Lemma ids_increasing_of_sorted T : forall lo,
  StronglySorted Z.lt (map r_id T) -> (forall r, In r T -> lo < r_id r) -> ids_increasing lo T = true.
Proof.
  induction T as [|x T IH]; intros lo S H; [reflexivity|]. cbn [map] in S. inversion S as [|? ? S' F]; subst.
  cbn [ids_increasing]. apply andb_true_iff. split; [apply Z.ltb_lt; apply H; left; reflexivity|].
  apply IH; [exact S'|]. intros r Hr. rewrite Forall_forall in F. apply F. apply in_map. exact Hr.
Qed.

Lemma rule_within_of_ok c r : rule_ok c r -> rule_within c r = true.
Proof.
  intros [H1 [H2 [H3 [H4 H5]]]]. unfold rule_within.
  rewrite (proj2 (nodup_s_NoDup _) H1), (proj2 (nodup_p_NoDup _) H2), (proj2 (Z.leb_le _ _) H3), (proj2 (Z.leb_le _ _) H4).
  cbn [andb]. destruct (r_signers r), (r_policies r); cbn; try reflexivity. destruct H5; congruence.
Qed.

Lemma fp_unique_of T :
  NoDup T -> (forall r1 r2, In r1 T -> In r2 T -> fp_eqb (fp_of r1) (fp_of r2) = true -> r1 = r2) -> fp_unique T = true.
Proof.
  induction T as [|x T IH]; intros Hd Hi; [reflexivity|]. inversion Hd as [|? ? Hnx Hd']; subst. cbn [fp_unique].
  apply andb_true_iff. split.
  - apply negb_true_iff. destruct (existsb (same_fp x) T) eqn:E; [|reflexivity].
    apply existsb_exists in E. destruct E as [y [Hy Hf]]. exfalso.
    assert (x = y) by (apply Hi; [left; reflexivity|right; exact Hy|exact Hf]). subst. contradiction.
  - apply IH; [exact Hd'|]. intros r1 r2 Hr1 Hr2. apply Hi; right; assumption.
Qed.

Lemma get_context_rules_wf a t : wf a -> get_context_rules a t = Ok (typed_rules a t).
Proof.
  intros W. unfold get_context_rules. rewrite (wf_ids a W t).
  assert (H : forall r, In r (typed_rules a t) -> get_context_rule a (r_id r) = Ok r).
  { intros r Hr. unfold get_context_rule. rewrite (get_rule_in a r W); [reflexivity|].
    unfold typed_rules in Hr. apply filter_In in Hr. tauto. }
  induction (typed_rules a t) as [|x l IH]; [reflexivity|]. cbn [map mapM].
  rewrite (H x (or_introl eq_refl)). cbn [bind]. rewrite IH by (intros r Hr; apply H; right; exact Hr). reflexivity.
Qed.

Lemma list_eqb_Z_refl l : list_eqb Z.eqb l l = true.
Proof. apply (list_eqb_eq Z.eqb Z.eqb_eq). reflexivity. Qed.

Lemma table_ok_model c types st :
  wf (s_acct st) -> wf2 c (s_acct st) -> table_ok c (observe types st) = true.
Proof.
  intros W W2. unfold table_ok, observe. cbn [ob_rules ob_count ob_ids].
  rewrite (w2_count c _ W2), Z.eqb_refl. cbn [andb].
  assert (H1 : zlen (a_rules (s_acct st)) <=? Z.max 0 (max_rules c) = true).
  { apply Z.leb_le. rewrite <- (w2_count c _ W2). apply W2. }
  rewrite H1. cbn [andb].
  rewrite (ids_increasing_of_sorted _ (-1) (wf_sorted _ W)) by (intros r Hr; pose proof (wf_next _ W r Hr); lia).
  cbn [andb].
  assert (H2 : forallb (rule_within c) (a_rules (s_acct st)) = true).
  { apply forallb_forall. intros r Hr. apply rule_within_of_ok. apply (w2_rules c _ W2). exact Hr. }
  rewrite H2. cbn [andb].
  rewrite fp_unique_of; [|eapply NoDup_map_inv; apply SSorted_NoDup; apply W|apply W2]. cbn [andb].
  apply forallb_forall. intros tl Htl. apply in_map_iff in Htl. destruct Htl as [t [<- _]].
  unfold ids_consistent. cbn [fst snd]. rewrite (get_context_rules_wf _ t W). cbn [option_eqb]. apply list_eqb_Z_refl.
Qed.

Lemma same_table_acct types st st' : s_acct st' = s_acct st -> same_table (observe types st) (observe types st') = true.
Proof.
  intros E. unfold same_table, observe. cbn [ob_count ob_rules ob_ids]. rewrite E, Z.eqb_refl. cbn [andb].
  apply andb_true_iff. split.
  - apply (list_eqb_eq rule_eqb rule_eqb_eq). reflexivity.
  - apply (list_eqb_eq ids_eqb ids_eqb_eq). reflexivity.
Qed.

(* ------------------------------------------------------------------------- *)
(* every successful entry point performs exactly the requested edit           *)
(* ------------------------------------------------------------------------- *)
Lemma set_rule_upd a id r f :
  wf a -> get_rule a id = Some r -> r_id (f r) = id -> set_rule (f r) (a_rules a) = upd id f (a_rules a).
Proof.
  intros W G Hf. destruct (get_rule_some _ _ _ G) as [Hr Hid]. unfold set_rule, upd. apply map_ext_in.
  intros x Hx. rewrite Hf. destruct (r_id x =? id) eqn:E; [|reflexivity].
  apply Z.eqb_eq in E. f_equal. apply (wf_id_inj a r x W Hr Hx). congruence.
Qed.

Lemma find_id_upd id f T r :
  find_id id T = Some r -> r_id (f r) = id -> find_id id (upd id f T) = Some (f r).
Proof.
  unfold find_id, upd. induction T as [|x T IH]; cbn [find map]; [discriminate|]. intros H Hf.
  destruct (r_id x =? id) eqn:E.
  - inversion H; subst x. rewrite Hf, Z.eqb_refl. reflexivity.
  - rewrite E. auto.
Qed.

Lemma remove_first_split2 {A} (eqb : A -> A -> bool) x l l' :
  (forall a b, eqb a b = true -> a = b) ->
  remove_first eqb x l = Some l' -> exists a b, l = a ++ x :: b /\ l' = a ++ b.
Proof.
  intros Heq. revert l'. induction l as [|z r IH]; intros l' H; cbn [remove_first] in H; [discriminate|].
  destruct (eqb x z) eqn:E.
  - inversion H; subst. apply Heq in E. subst z. exists [], l'. split; reflexivity.
  - destruct (remove_first eqb x r) as [r'|]; [|discriminate]. inversion H; subst.
    destruct (IH r' eq_refl) as [a [b [-> ->]]]. exists (z :: a), b. split; reflexivity.
Qed.

Lemma remove_last_filter {A} (eqb : A -> A -> bool) x l l' :
  (forall a b, eqb a b = true <-> a = b) -> NoDup l ->
  remove_last eqb x l = Some l' -> l' = filter (fun y => negb (eqb x y)) l /\ In x l.
Proof.
  intros Heq Hd H. unfold remove_last in H.
  destruct (remove_first eqb x (rev l)) as [l2|] eqn:E; [|discriminate]. inversion H; subst l'.
  destruct (remove_first_split2 eqb x _ _ (fun a b => proj1 (Heq a b)) E) as [a [b [H1 ->]]].
  assert (Hl : l = rev b ++ x :: rev a).
  { rewrite <- (rev_involutive l), H1, rev_app_distr. cbn [rev]. rewrite <- app_assoc. reflexivity. }
  subst l. split; [|apply in_or_app; right; left; reflexivity].
  rewrite rev_app_distr. apply NoDup_remove in Hd. destruct Hd as [_ Hn].
  assert (Hkeep : forall m, ~ In x m -> filter (fun y => negb (eqb x y)) m = m).
  { induction m as [|y m IHm]; intros Hm; [reflexivity|]. cbn [filter].
    destruct (eqb x y) eqn:Ey; [apply Heq in Ey; subst; exfalso; apply Hm; left; reflexivity|].
    cbn [negb]. f_equal. apply IHm. intros Hi. apply Hm. right. exact Hi. }
  rewrite filter_app. cbn [filter]. rewrite (proj2 (Heq x x) eq_refl). cbn [negb].
  rewrite !Hkeep; [reflexivity| |]; intros Hi; apply Hn; apply in_or_app; [right|left]; exact Hi.
Qed.

Lemma rule_eqb_refl' r : rule_eqb r r = true. Proof. apply rule_eqb_eq. reflexivity. Qed.

Theorem expected_table_model O c a now op a' ret l maxid :
  wf a -> wf2 c a -> maxid < a_next a ->
  run_op O c a now op = Ok (a', ret, l) ->
  expected_table maxid (a_rules a) op ret = Some (a_rules a').
Proof.
  intros W W2 Hm H. destruct op; cbn [run_op] in H.
  - (* AddRule *)
    destruct (add_context_rule O c a now t name valid signers policies) as [[[a1 r1] l1]|] eqn:E; [|discriminate].
    cbn in H. inversion H; subst; clear H. unfold add_context_rule in E. inv_bind E. inversion E; subst; clear E.
    cbn [expected_table a_rules r_id]. rewrite (proj2 (Z.ltb_lt _ _) Hm), rule_eqb_refl'. reflexivity.
  - (* UpdName *)
    destruct (update_context_rule_name a id name) as [[[a1 r1] l1]|] eqn:E; [|discriminate].
    cbn in H. inversion H; subst; clear H. unfold update_context_rule_name, get_context_rule in E.
    destruct (get_rule a id) as [r0|] eqn:G; [|discriminate]. cbn in E. inversion E; subst; clear E.
    destruct (get_rule_some _ _ _ G) as [_ Hid].
    cbn [expected_table with_rules a_rules]. change (find_id id (a_rules a)) with (get_rule a id). rewrite G.
    assert (Er : mkRule id (r_type r0) name (r_valid r0) (r_signers r0) (r_policies r0) = with_name name r0)
      by (unfold with_name; rewrite Hid; reflexivity).
    rewrite Er. rewrite (set_rule_upd a id r0 (with_name name) W G Hid).
    rewrite (find_id_upd id (with_name name) (a_rules a) r0 G Hid). cbn [option_eqb]. rewrite rule_eqb_refl'. reflexivity.
  - (* UpdValid *)
    destruct (update_context_rule_valid_until a now id valid) as [[[a1 r1] l1]|] eqn:E; [|discriminate].
    cbn in H. inversion H; subst; clear H. unfold update_context_rule_valid_until, get_context_rule in E.
    destruct (get_rule a id) as [r0|] eqn:G; [|discriminate]. cbn [of_option bind] in E.
    destruct (guard (valid_until_ok now valid)); [|discriminate]. cbn in E. inversion E; subst; clear E.
    destruct (get_rule_some _ _ _ G) as [_ Hid].
    cbn [expected_table with_rules a_rules]. change (find_id id (a_rules a)) with (get_rule a id). rewrite G.
    assert (Er : mkRule id (r_type r0) (r_name r0) valid (r_signers r0) (r_policies r0) = with_valid valid r0)
      by (unfold with_valid; rewrite Hid; reflexivity).
    rewrite Er. rewrite (set_rule_upd a id r0 (with_valid valid) W G Hid).
    rewrite (find_id_upd id (with_valid valid) (a_rules a) r0 G Hid). cbn [option_eqb]. rewrite rule_eqb_refl'. reflexivity.
  - (* RemoveRule *)
    destruct (remove_context_rule O a id) as [[a1 l1]|] eqn:E; [|discriminate].
    cbn in H. inversion H; subst; clear H. unfold remove_context_rule in E.
    destruct (get_context_rule a id) as [r|] eqn:G; [|discriminate]. cbn [bind] in E.
    inv_bind E. inversion E; subst; clear E. apply get_context_rule_some in G.
    cbn [expected_table a_rules]. change (find_id id (a_rules a)) with (get_rule a id). rewrite G. reflexivity.
  - (* AddSigner *)
    destruct (add_signer c a id s) as [[a1 l1]|] eqn:E; [|discriminate].
    cbn in H. inversion H; subst; clear H. unfold add_signer in E.
    destruct (get_context_rule a id) as [r|] eqn:G; [|discriminate]. cbn [bind] in E.
    destruct (mem_s s (r_signers r)) eqn:Em; [discriminate|]. cbn [negb guard bind] in E.
    inv_bind E. inversion E; subst; clear E. apply get_context_rule_some in G. destruct (get_rule_some _ _ _ G) as [_ Hid].
    cbn [expected_table]. change (find_id id (a_rules a)) with (get_rule a id). rewrite G, Em.
    unfold set_signers. cbn [a_rules]. f_equal. symmetry.
    apply (set_rule_upd a id r (with_signers (fun l => l ++ [s])) W G Hid).
  - (* RemoveSigner *)
    destruct (remove_signer c a id s) as [[a1 l1]|] eqn:E; [|discriminate].
    cbn in H. inversion H; subst; clear H. unfold remove_signer in E.
    destruct (get_context_rule a id) as [r|] eqn:G; [|discriminate]. cbn [bind] in E.
    destruct (remove_last signer_eqb s (r_signers r)) as [ss|] eqn:Em; [|discriminate]. cbn [of_option bind] in E.
    inv_bind E. inversion E; subst; clear E. apply get_context_rule_some in G. destruct (get_rule_some _ _ _ G) as [Hr Hid].
    destruct (w2_rules c a W2 r Hr) as [Hnd _].
    destruct (remove_last_filter signer_eqb s _ _ signer_eqb_eq Hnd Em) as [-> Hin].
    cbn [expected_table]. change (find_id id (a_rules a)) with (get_rule a id). rewrite G, (proj2 (mem_s_In _ _) Hin).
    unfold set_signers. cbn [a_rules]. f_equal. symmetry.
    apply (set_rule_upd a id r (with_signers (filter (fun x => negb (signer_eqb s x)))) W G Hid).
  - (* AddPolicy *)
    destruct (add_policy O c a id p param) as [[a1 l1]|] eqn:E; [|discriminate].
    cbn in H. inversion H; subst; clear H. unfold add_policy in E.
    destruct (get_context_rule a id) as [r|] eqn:G; [|discriminate]. cbn [bind] in E.
    destruct (mem_p p (r_policies r)) eqn:Em; [discriminate|]. cbn [negb guard bind] in E.
    inv_bind E. inversion E; subst; clear E. apply get_context_rule_some in G. destruct (get_rule_some _ _ _ G) as [_ Hid].
    cbn [expected_table]. change (find_id id (a_rules a)) with (get_rule a id). rewrite G, Em.
    unfold set_policies. cbn [a_rules]. f_equal. symmetry.
    apply (set_rule_upd a id r (with_policies (fun l => l ++ [p])) W G Hid).
  - (* RemovePolicy *)
    destruct (remove_policy O c a id p) as [[a1 l1]|] eqn:E; [|discriminate].
    cbn in H. inversion H; subst; clear H. unfold remove_policy in E.
    destruct (get_context_rule a id) as [r|] eqn:G; [|discriminate]. cbn [bind] in E.
    destruct (remove_last N.eqb p (r_policies r)) as [ps|] eqn:Em; [|discriminate]. cbn [of_option bind] in E.
    inv_bind E. inversion E; subst; clear E. apply get_context_rule_some in G. destruct (get_rule_some _ _ _ G) as [Hr Hid].
    destruct (w2_rules c a W2 r Hr) as [_ [Hnd _]].
    destruct (remove_last_filter N.eqb p _ _ N.eqb_eq Hnd Em) as [-> Hin].
    cbn [expected_table]. change (find_id id (a_rules a)) with (get_rule a id). rewrite G, (proj2 (mem_p_In _ _) Hin).
    unfold set_policies. cbn [a_rules]. f_equal. symmetry.
    apply (set_rule_upd a id r (with_policies (filter (fun x => negb (N.eqb p x)))) W G Hid).
Qed.

(* ids are never handed out twice: the next id only grows *)
Lemma run_op_next O c a now op a' ret l : run_op O c a now op = Ok (a', ret, l) -> a_next a <= a_next a'.
Proof.
  intros H. destruct op; cbn [run_op] in H.
  - destruct (add_context_rule O c a now t name valid signers policies) as [[[a1 r1] l1]|] eqn:E; [|discriminate].
    cbn in H. inversion H; subst. unfold add_context_rule in E. inv_bind E. inversion E; subst. cbn [a_next]. lia.
  - destruct (update_context_rule_name a id name) as [[[a1 r1] l1]|] eqn:E; [|discriminate].
    cbn in H. inversion H; subst. unfold update_context_rule_name in E. inv_bind E. inversion E; subst. cbn. lia.
  - destruct (update_context_rule_valid_until a now id valid) as [[[a1 r1] l1]|] eqn:E; [|discriminate].
    cbn in H. inversion H; subst. unfold update_context_rule_valid_until in E. inv_bind E. inversion E; subst. cbn. lia.
  - destruct (remove_context_rule O a id) as [[a1 l1]|] eqn:E; [|discriminate].
    cbn in H. inversion H; subst. unfold remove_context_rule in E. inv_bind E. inversion E; subst. cbn. lia.
  - destruct (add_signer c a id s) as [[a1 l1]|] eqn:E; [|discriminate].
    cbn in H. inversion H; subst. unfold add_signer in E. inv_bind E. inversion E; subst. cbn. lia.
  - destruct (remove_signer c a id s) as [[a1 l1]|] eqn:E; [|discriminate].
    cbn in H. inversion H; subst. unfold remove_signer in E. inv_bind E. inversion E; subst. cbn. lia.
  - destruct (add_policy O c a id p param) as [[a1 l1]|] eqn:E; [|discriminate].
    cbn in H. inversion H; subst. unfold add_policy in E. inv_bind E. inversion E; subst. cbn. lia.
  - destruct (remove_policy O c a id p) as [[a1 l1]|] eqn:E; [|discriminate].
    cbn in H. inversion H; subst. unfold remove_policy in E. inv_bind E. inversion E; subst. cbn. lia.
Qed.

Lemma fold_max_lt l : forall m B, m < B -> (forall x, In x l -> x < B) -> fold_left Z.max l m < B.
Proof.
  induction l as [|y l IH]; intros m B Hm H; [exact Hm|]. cbn [fold_left]. apply IH.
  - specialize (H y (or_introl eq_refl)). lia.
  - intros x Hx. apply H. right. exact Hx.
Qed.

Lemma maxid_next a m : wf a -> m < a_next a -> fold_left Z.max (map r_id (a_rules a)) m < a_next a.
Proof.
  intros W Hm. apply fold_max_lt; [exact Hm|]. intros x Hx. apply in_map_iff in Hx. destruct Hx as [r [<- Hr]].
  apply (wf_next a W r Hr).
Qed.

(* ------------------------------------------------------------------------- *)
(* the monitor accepts every run of the model                                 *)
(* ------------------------------------------------------------------------- *)
(* ------------------------------------------------------------------------- *)
(* the entry points' own preconditions: when they hold, the model succeeds    *)
(* ------------------------------------------------------------------------- *)
Lemma within_spec c s p :
  within c s p = true ->
  validate_signers_and_policies c s p = Ok tt /\ nodup_s s = true /\ nodup_p p = true.
Proof.
  unfold within. rewrite !andb_true_iff. intros [[[[H1 H2] H3] H4] H5]. split; [|split; assumption].
  unfold validate_signers_and_policies. rewrite H1, H2, H3. reflexivity.
Qed.

Lemma fp_free_has c a r' : wf2 c a -> fp_free (a_rules a) r' = true -> has_fp (a_fps a) (fp_of r') = false.
Proof.
  intros W2 H. unfold fp_free in H. apply negb_true_iff in H.
  destruct (has_fp (a_fps a) (fp_of r')) eqn:E; [|reflexivity]. exfalso.
  unfold has_fp in E. apply existsb_exists in E. destruct E as [g [Hg Eg]].
  destruct (w2_fps_from c a W2 g Hg) as [x [Hx Ex]].
  assert (existsb (same_fp r') (a_rules a) = true); [|congruence].
  apply existsb_exists. exists x. split; [exact Hx|]. exact (fp_eqb_trans _ _ _ Eg Ex).
Qed.

Lemma vsf_ok fps t s p :
  nodup_s s = true -> nodup_p p = true -> has_fp fps (t, s, p) = false ->
  validate_and_set_fingerprint fps t s p = Ok ((t, s, p) :: fps).
Proof.
  intros H1 H2 H3. unfold validate_and_set_fingerprint, compute_fingerprint. rewrite H1, H2. cbn [guard bind].
  unfold has_fp in H3. rewrite H3. reflexivity.
Qed.
Lemma rmf_ok fps t s p :
  nodup_s s = true -> nodup_p p = true -> exists fps', remove_fingerprint fps t s p = Ok fps'.
Proof.
  intros H1 H2. unfold remove_fingerprint, compute_fingerprint. rewrite H1, H2. cbn [guard bind]. eauto.
Qed.

Lemma install_all_total O ps r :
  forallb (fun pn => o_install O (fst pn) (snd pn) r) ps = true -> exists l, install_all O ps r = Ok l.
Proof.
  induction ps as [|[p n] rest IH]; intros H; [exists []; reflexivity|]. cbn [forallb fst snd] in H.
  apply andb_prop in H. destruct H as [H1 H2]. destruct (IH H2) as [l Hl]. cbn [install_all]. rewrite H1, Hl. cbn. eauto.
Qed.

Lemma old_rule_nodup c a r : wf2 c a -> In r (a_rules a) -> nodup_s (r_signers r) = true /\ nodup_p (r_policies r) = true.
Proof.
  intros W2 Hr. destruct (w2_rules c a W2 r Hr) as [H1 [H2 _]]. split; [apply nodup_s_NoDup|apply nodup_p_NoDup]; assumption.
Qed.

Lemma remove_first_in {A} (eqb : A -> A -> bool) (Hr : forall x, eqb x x = true) x l :
  In x l -> remove_first eqb x l = None -> False.
Proof.
  induction l as [|y l IH]; intros Hi H; [destruct Hi|]. cbn [remove_first] in H.
  destruct (eqb x y) eqn:E; [discriminate|].
  destruct Hi as [->|Hi]; [rewrite Hr in E; discriminate|].
  destruct (remove_first eqb x l); [discriminate|]. auto.
Qed.
Lemma remove_last_in {A} (eqb : A -> A -> bool) (Hr : forall x, eqb x x = true) x l :
  In x l -> remove_last eqb x l = None -> False.
Proof.
  intros Hi H. unfold remove_last in H. destruct (remove_first eqb x (rev l)) eqn:E; [discriminate|].
  apply (remove_first_in eqb Hr x (rev l)); [apply in_rev; rewrite rev_involutive; exact Hi|exact E].
Qed.

Theorem op_ok_model M c a now op maxid :
  wf a -> wf2 c a -> maxid + 1 = a_next a ->
  op_ok c (a_rules a) M now maxid op = true ->
  exists res, run_op (oracles_of M) c a now op = Ok res.
Proof.
  intros W W2 Hm H. destruct op; cbn [op_ok] in H; cbn [run_op].
  - (* AddRule *)
    rewrite !andb_true_iff in H. destruct H as [[[[[[H1 H2] H3] H4] H5] H6] H7].
    destruct (within_spec _ _ _ H3) as [V [Ns Np]].
    unfold add_context_rule. rewrite (w2_count c a W2), H1, Ns, H2. cbn [guard bind]. rewrite V. cbn [bind].
    rewrite (vsf_ok _ _ _ _ Ns Np (fp_free_has c a _ W2 H4 : has_fp (a_fps a) (t, signers, map fst policies) = false)). cbn [bind].
    rewrite <- Hm. destruct (install_all_total (oracles_of M) policies _ H5) as [l ->]. cbn [bind].
    replace (maxid + 1 + 1) with (maxid + 2) by lia. rewrite H6, H7. cbn. eauto.
  - (* UpdName *)
    change (find_id id (a_rules a)) with (get_rule a id) in H. unfold update_context_rule_name, get_context_rule.
    destruct (get_rule a id); [cbn; eauto|discriminate].
  - (* UpdValid *)
    change (find_id id (a_rules a)) with (get_rule a id) in H. unfold update_context_rule_valid_until, get_context_rule.
    destruct (get_rule a id); [|discriminate]. cbn [of_option bind]. rewrite H. cbn. eauto.
  - (* RemoveRule *)
    change (find_id id (a_rules a)) with (get_rule a id) in H. unfold remove_context_rule, get_context_rule.
    destruct (get_rule a id) as [r|] eqn:G; [|discriminate]. cbn [of_option bind].
    destruct (get_rule_some _ _ _ G) as [Hr _]. destruct (old_rule_nodup c a r W2 Hr) as [N1 N2].
    destruct (rmf_ok (a_fps a) (r_type r) _ _ N1 N2) as [fps' ->]. cbn [bind].
    destruct (a_count a) as [cnt|] eqn:Ec.
    + cbn [of_option bind]. pose proof (w2_count c a W2) as Hc. unfold count_of in Hc. rewrite Ec in Hc.
      rewrite Hc, H. cbn. eauto.
    + exfalso. rewrite (w2_count_set c a W2 Ec) in Hr. destruct Hr.
  - (* AddSigner *)
    change (find_id id (a_rules a)) with (get_rule a id) in H. unfold add_signer, get_context_rule.
    destruct (get_rule a id) as [r|] eqn:G; [|discriminate]. cbn [of_option bind].
    rewrite !andb_true_iff in H. destruct H as [[H1 H2] H3]. rewrite H1. cbn [guard bind].
    destruct (within_spec _ _ _ H2) as [V [Ns Np]]. rewrite V. cbn [bind].
    rewrite (vsf_ok _ _ _ _ Ns Np (fp_free_has c a _ W2 H3 : has_fp _ (r_type r, r_signers r ++ [s], r_policies r) = false)). cbn [bind].
    destruct (get_rule_some _ _ _ G) as [Hr _]. destruct (old_rule_nodup c a r W2 Hr) as [N1 N2].
    match goal with |- context [remove_fingerprint ?f ?t0 ?s0 ?q0] => destruct (rmf_ok f t0 s0 q0 N1 N2) as [fps' ->] end. cbn. eauto.
  - (* RemoveSigner *)
    change (find_id id (a_rules a)) with (get_rule a id) in H. unfold remove_signer, get_context_rule.
    destruct (get_rule a id) as [r|] eqn:G; [|discriminate]. cbn [of_option bind].
    rewrite !andb_true_iff in H. destruct H as [[H1 H2] H3].
    destruct (get_rule_some _ _ _ G) as [Hr _]. destruct (old_rule_nodup c a r W2 Hr) as [N1 N2].
    destruct (w2_rules c a W2 r Hr) as [Hnd _].
    destruct (remove_last signer_eqb s (r_signers r)) as [ss|] eqn:Er.
    2:{ exfalso. apply mem_s_In in H1. exact (remove_last_in signer_eqb signer_eqb_refl s _ H1 Er). }
    destruct (remove_last_filter signer_eqb s _ _ signer_eqb_eq Hnd Er) as [-> _]. cbn [of_option bind].
    destruct (within_spec _ _ _ H2) as [V [Ns Np]]. rewrite V. cbn [bind].
    rewrite (vsf_ok _ _ _ _ Ns Np (fp_free_has c a _ W2 H3 : has_fp _ (r_type r, filter (fun x => negb (signer_eqb s x)) (r_signers r), r_policies r) = false)). cbn [bind].
    match goal with |- context [remove_fingerprint ?f ?t0 ?s0 ?q0] => destruct (rmf_ok f t0 s0 q0 N1 N2) as [fps' ->] end. cbn. eauto.
  - (* AddPolicy *)
    change (find_id id (a_rules a)) with (get_rule a id) in H. unfold add_policy, get_context_rule.
    destruct (get_rule a id) as [r|] eqn:G; [|discriminate]. cbn [of_option bind].
    rewrite !andb_true_iff in H. destruct H as [[[H1 H0] H2] H3]. rewrite H1. cbn [guard bind].
    change (o_install (oracles_of M) p param r) with (install_answer M p param r). rewrite H0. cbn [guard bind].
    destruct (within_spec _ _ _ H2) as [V [Ns Np]]. rewrite V. cbn [bind].
    rewrite (vsf_ok _ _ _ _ Ns Np (fp_free_has c a _ W2 H3 : has_fp _ (r_type r, r_signers r, r_policies r ++ [p]) = false)). cbn [bind].
    destruct (get_rule_some _ _ _ G) as [Hr _]. destruct (old_rule_nodup c a r W2 Hr) as [N1 N2].
    match goal with |- context [remove_fingerprint ?f ?t0 ?s0 ?q0] => destruct (rmf_ok f t0 s0 q0 N1 N2) as [fps' ->] end. cbn. eauto.
  - (* RemovePolicy *)
    change (find_id id (a_rules a)) with (get_rule a id) in H. unfold remove_policy, get_context_rule.
    destruct (get_rule a id) as [r|] eqn:G; [|discriminate]. cbn [of_option bind].
    rewrite !andb_true_iff in H. destruct H as [[H1 H2] H3].
    destruct (get_rule_some _ _ _ G) as [Hr _]. destruct (old_rule_nodup c a r W2 Hr) as [N1 N2].
    destruct (w2_rules c a W2 r Hr) as [_ [Hnd _]].
    destruct (remove_last N.eqb p (r_policies r)) as [ps|] eqn:Er.
    2:{ exfalso. apply mem_p_In in H1. exact (remove_last_in N.eqb N.eqb_refl p _ H1 Er). }
    destruct (remove_last_filter N.eqb p _ _ N.eqb_eq Hnd Er) as [-> _]. cbn [of_option bind].
    destruct (within_spec _ _ _ H2) as [V [Ns Np]]. rewrite V. cbn [bind].
    rewrite (vsf_ok _ _ _ _ Ns Np (fp_free_has c a _ W2 H3 : has_fp _ (r_type r, r_signers r, filter (fun x => negb (N.eqb p x)) (r_policies r)) = false)). cbn [bind].
    match goal with |- context [remove_fingerprint ?f ?t0 ?s0 ?q0] => destruct (rmf_ok f t0 s0 q0 N1 N2) as [fps' ->] end. cbn. eauto.
Qed.

(* ------------------------------------------------------------------------- *)
(* the monitor accepts every run of the model                                 *)
(* ------------------------------------------------------------------------- *)
(* the types the observation lists ids for cover every type a rule is created with *)
Definition mem_t (t : ctype) (types : list ctype) : bool := existsb (ctype_eqb t) types.
Definition call_covered (types : list ctype) (cl : call) : bool :=
  match cl with
  | Construct _ _ => mem_t TDefault types
  | Admin _ _ (AddRule t _ _ _ _) => mem_t t types
  | _ => true
  end.
Definition covers (types : list ctype) (cs : list call) : bool :=
  negb (isnil types) && forallb (call_covered types) cs.

Definition sim2 (c : cfg) (types : list ctype) (m : mstate) (st : state) : Prop :=
  sim m st /\
  (ob_ids (ms_prev m) = [] \/ ms_prev m = observe types st) /\
  (ms_deployed m = true -> ms_prev m = observe types st) /\
  ms_maxid m + 1 = a_next (s_acct st) /\
  (s_deployed st = false -> s_acct st = acct0) /\
  wf2 c (s_acct st) /\
  (forall r, In r (a_rules (s_acct st)) -> mem_t (r_type r) types = true).

Lemma sim2_init c types : sim2 c types mstate0 init.
Proof.
  split; [apply sim_init|]. split; [left; reflexivity|]. split; [discriminate|]. split; [reflexivity|].
  split; [reflexivity|]. split; [apply wf2_acct0|intros r []].
Qed.

Lemma fold_max_eq l : forall m B, m <= B -> (forall x, In x l -> x <= B) -> (m = B \/ In B l) -> fold_left Z.max l m = B.
Proof.
  induction l as [|y l IH]; intros m B Hm Hl Hb; cbn [fold_left].
  - destruct Hb as [->|[]]. reflexivity.
  - apply IH.
    + specialize (Hl y (or_introl eq_refl)). lia.
    + intros x Hx. apply Hl. right. exact Hx.
    + destruct Hb as [->|[->|Hb]]; [left; specialize (Hl y (or_introl eq_refl)); lia|left; lia|right; exact Hb].
Qed.

(* the next id moves only when a rule is created, and then that rule carries the old next id *)
Lemma run_op_next_cases O c a now op a' ret l : run_op O c a now op = Ok (a', ret, l) ->
  a_next a' = a_next a \/ (a_next a' = a_next a + 1 /\ exists r, In r (a_rules a') /\ r_id r = a_next a).
Proof.
  intros H. destruct op; cbn [run_op] in H.
  - destruct (add_context_rule O c a now t name valid signers policies) as [[[a1 r1] l1]|] eqn:E; [|discriminate].
    cbn in H. inversion H; subst. unfold add_context_rule in E. inv_bind E. inversion E; subst. cbn [a_next a_rules]. right.
    split; [reflexivity|]. eexists. split; [apply in_or_app; right; left; reflexivity|reflexivity].
  - destruct (update_context_rule_name a id name) as [[[a1 r1] l1]|] eqn:E; [|discriminate].
    cbn in H. inversion H; subst. unfold update_context_rule_name in E. inv_bind E. inversion E; subst. left. reflexivity.
  - destruct (update_context_rule_valid_until a now id valid) as [[[a1 r1] l1]|] eqn:E; [|discriminate].
    cbn in H. inversion H; subst. unfold update_context_rule_valid_until in E. inv_bind E. inversion E; subst. left. reflexivity.
  - destruct (remove_context_rule O a id) as [[a1 l1]|] eqn:E; [|discriminate].
    cbn in H. inversion H; subst. unfold remove_context_rule in E. inv_bind E. inversion E; subst. left. reflexivity.
  - destruct (add_signer c a id s) as [[a1 l1]|] eqn:E; [|discriminate].
    cbn in H. inversion H; subst. unfold add_signer in E. inv_bind E. inversion E; subst. left. reflexivity.
  - destruct (remove_signer c a id s) as [[a1 l1]|] eqn:E; [|discriminate].
    cbn in H. inversion H; subst. unfold remove_signer in E. inv_bind E. inversion E; subst. left. reflexivity.
  - destruct (add_policy O c a id p param) as [[a1 l1]|] eqn:E; [|discriminate].
    cbn in H. inversion H; subst. unfold add_policy in E. inv_bind E. inversion E; subst. left. reflexivity.
  - destruct (remove_policy O c a id p) as [[a1 l1]|] eqn:E; [|discriminate].
    cbn in H. inversion H; subst. unfold remove_policy in E. inv_bind E. inversion E; subst. left. reflexivity.
Qed.

Lemma maxid_step a a' m : wf a' -> m + 1 = a_next a ->
  (a_next a' = a_next a \/ (a_next a' = a_next a + 1 /\ exists r, In r (a_rules a') /\ r_id r = a_next a)) ->
  fold_left Z.max (map r_id (a_rules a')) m + 1 = a_next a'.
Proof.
  intros W Hm Hc. assert (Hall : forall x, In x (map r_id (a_rules a')) -> x <= a_next a' - 1).
  { intros x Hx. apply in_map_iff in Hx. destruct Hx as [r [<- Hr]]. pose proof (wf_next a' W r Hr). lia. }
  rewrite (fold_max_eq _ m (a_next a' - 1)); [lia| |exact Hall|].
  - destruct Hc as [E|[E _]]; lia.
  - destruct Hc as [E|[E [r [Hr Hid]]]]; [left; lia|right]. apply in_map_iff. exists r. split; [lia|exact Hr].
Qed.

(* types of the rules a successful edit leaves behind *)
Lemma upd_In id f T x : In x (upd id f T) -> exists y, In y T /\ (x = y \/ x = f y).
Proof.
  unfold upd. intros H. apply in_map_iff in H. destruct H as [y [E Hy]]. exists y. split; [exact Hy|].
  destruct (r_id y =? id); auto.
Qed.

Lemma expected_table_types (P : ctype -> Prop) maxid T op ret T' :
  expected_table maxid T op ret = Some T' ->
  (forall r, In r T -> P (r_type r)) ->
  match op with AddRule t _ _ _ _ => P t | _ => True end ->
  forall r, In r T' -> P (r_type r).
Proof.
  intros H HT Hop. destruct op; cbn [expected_table] in H.
  - destruct ret as [r0|]; [|discriminate].
    destruct ((maxid <? r_id r0) && rule_eqb r0 _) eqn:E; [|discriminate]. inversion H; subst.
    apply andb_prop in E. destruct E as [_ E]. apply rule_eqb_eq in E.
    intros r Hr. apply in_app_or in Hr. destruct Hr as [Hr|[<-|[]]]; [auto|]. rewrite E. exact Hop.
  - destruct (find_id id T) as [r0|]; [|discriminate]. destruct (option_eqb rule_eqb ret _); [|discriminate]. inversion H; subst.
    intros r Hr. destruct (upd_In _ _ _ _ Hr) as [y [Hy [->| ->]]]; [auto|apply (HT y Hy)].
  - destruct (find_id id T) as [r0|]; [|discriminate]. destruct (option_eqb rule_eqb ret _); [|discriminate]. inversion H; subst.
    intros r Hr. destruct (upd_In _ _ _ _ Hr) as [y [Hy [->| ->]]]; [auto|apply (HT y Hy)].
  - destruct (find_id id T) as [r0|]; [|discriminate]. inversion H; subst. intros r Hr. apply filter_In in Hr. apply HT. tauto.
  - destruct (find_id id T) as [r0|]; [|discriminate]. destruct (mem_s s (r_signers r0)); [discriminate|]. inversion H; subst.
    intros r Hr. destruct (upd_In _ _ _ _ Hr) as [y [Hy [->| ->]]]; [auto|apply (HT y Hy)].
  - destruct (find_id id T) as [r0|]; [|discriminate]. destruct (mem_s s (r_signers r0)); [|discriminate]. inversion H; subst.
    intros r Hr. destruct (upd_In _ _ _ _ Hr) as [y [Hy [->| ->]]]; [auto|apply (HT y Hy)].
  - destruct (find_id id T) as [r0|]; [|discriminate]. destruct (mem_p p (r_policies r0)); [discriminate|]. inversion H; subst.
    intros r Hr. destruct (upd_In _ _ _ _ Hr) as [y [Hy [->| ->]]]; [auto|apply (HT y Hy)].
  - destruct (find_id id T) as [r0|]; [|discriminate]. destruct (mem_p p (r_policies r0)); [|discriminate]. inversion H; subst.
    intros r Hr. destruct (upd_In _ _ _ _ Hr) as [y [Hy [->| ->]]]; [auto|apply (HT y Hy)].
Qed.

Lemma observe_acct0 types st : s_acct st = acct0 -> empty_obs (observe types st) = true.
Proof.
  intros E. unfold empty_obs, observe. rewrite E. cbn [ob_count ob_rules ob_ids count_of a_count a_rules acct0 isnil].
  rewrite Z.eqb_refl. cbn [andb]. apply forallb_forall. intros tl Htl. apply in_map_iff in Htl. destruct Htl as [t [<- _]].
  reflexivity.
Qed.

Lemma list_eqb_ctype_refl l : list_eqb ctype_eqb l l = true.
Proof. apply (list_eqb_eq ctype_eqb ctype_eqb_eq). reflexivity. Qed.

Lemma shape_model types m st st' :
  types <> [] ->
  (ob_ids (ms_prev m) = [] \/ ms_prev m = observe types st) ->
  (forall r, In r (a_rules (s_acct st')) -> mem_t (r_type r) types = true) ->
  shape_ok (ms_prev m) (observe types st') = true.
Proof.
  intros Hne Hp Hc. unfold shape_ok. rewrite !andb_true_iff. split; [split|].
  - unfold observe. cbn [ob_ids]. destruct types; [contradiction|reflexivity].
  - destruct Hp as [-> | ->]; [reflexivity|]. rewrite !observe_types, list_eqb_ctype_refl. apply orb_true_r.
  - apply forallb_forall. intros r Hr. cbn [observe ob_rules] in Hr. specialize (Hc r Hr).
    unfold mem_t in Hc. apply existsb_exists in Hc. destruct Hc as [t [Ht Et]].
    apply existsb_exists. exists (t, match get_context_rules (s_acct st') t with Ok l => Some (map r_id l) | Fail => None end).
    split; [unfold observe; cbn [ob_ids]; apply in_map_iff; exists t; auto|]. cbn [fst]. rewrite ctype_eqb_sym. exact Et.
Qed.

Lemma step_undeployed_acct c st cl :
  (s_deployed st = false -> s_acct st = acct0) ->
  s_deployed (fst (step c st cl)) = false -> s_acct (fst (step c st cl)) = acct0.
Proof.
  intros H. destruct cl; cbn [step].
  - destruct (s_deployed st) eqn:D; [cbn; congruence|].
    destruct (add_context_rule _ c (s_acct st) (s_now st) TDefault 0%N None signers policies) as [[[a1 r1] l1]|]; cbn; [discriminate|auto].
  - destruct ((0 <=? n) && in_u32 (s_now st + n)); cbn; auto.
  - cbn. auto.
  - destruct (s_deployed st) eqn:D; cbn [negb]; [|cbn; auto].
    destruct (do_check_auth _ (s_acct st) (s_now st) auths sigs [CCall self (fn_of op)]) as [l1|]; cbn [bind]; [|cbn; congruence].
    destruct (run_op _ c (s_acct st) (s_now st) op) as [[[a1 ret] l2]|]; cbn; congruence.
  - destruct (negb (s_deployed st)); [cbn; auto|]. destruct (do_check_auth _ _ _ _ _ _); cbn; auto.
  - destruct (negb (s_deployed st)); [cbn; auto|]. destruct (do_check_auth _ _ _ _ _ _); cbn; auto.
  - destruct (s_deployed st) eqn:D; cbn [negb]; [|cbn; auto]. destruct (do_check_auth _ _ _ _ _ _); [|cbn; congruence].
    destruct ((1 <=? t) && (t <=? nsig)); cbn; congruence.
Qed.

Lemma mon_next_fields m cl out ob :
  ms_prev (mon_next m (cl, out, ob)) = ob /\
  ms_maxid (mon_next m (cl, out, ob)) = fold_left Z.max (map r_id (ob_rules ob)) (ms_maxid m).
Proof. split; reflexivity. Qed.

Section Step.
  Variable c : cfg.
  Variable types : list ctype.
  Hypothesis Hne : types <> [].

  Lemma mon_step_model m st cl :
    sim2 c types m st -> swf st -> call_covered types cl = true ->
    mon_step c m (cl, snd (step c st cl), observe types (fst (step c st cl))) = true /\
    sim2 c types (mon_next m (cl, snd (step c st cl), observe types (fst (step c st cl)))) (fst (step c st cl)).
  Proof.
    intros [[Sm [Sd [Sr Sn]]] [Sp0 [Sp [Sx [Sa [W2 Sc]]]]]] [W N] Hcov.
    pose proof (swf_step c st cl (conj W N)) as [W' N'].
    pose proof (wf2_step c st cl W W2) as W2'.
    (* the new state keeps the cover invariant and the id counter relation *)
    assert (Key : (forall r, In r (a_rules (s_acct (fst (step c st cl)))) -> mem_t (r_type r) types = true) /\
                  (a_next (s_acct (fst (step c st cl))) = a_next (s_acct st) \/
                   (a_next (s_acct (fst (step c st cl))) = a_next (s_acct st) + 1 /\
                    exists r, In r (a_rules (s_acct (fst (step c st cl)))) /\ r_id r = a_next (s_acct st)))).
    { destruct cl; cbn [step].
      - destruct (s_deployed st) eqn:D; [split; [exact Sc|left; reflexivity]|].
        destruct (add_context_rule _ c (s_acct st) (s_now st) TDefault 0%N None signers policies) as [[[a1 r1] l1]|] eqn:E;
          cbn [fst s_acct]; [|split; [exact Sc|left; reflexivity]].
        unfold add_context_rule in E. inv_bind E. inversion E; subst; clear E. cbn [a_rules a_next]. split.
        + intros r Hr. apply in_app_or in Hr. destruct Hr as [Hr|[<-|[]]]; [auto|exact Hcov].
        + right. split; [reflexivity|]. eexists. split; [apply in_or_app; right; left; reflexivity|reflexivity].
      - destruct ((0 <=? n) && in_u32 (s_now st + n)); split; solve [exact Sc|left; reflexivity].
      - split; [exact Sc|left; reflexivity].
      - destruct (negb (s_deployed st)); [split; [exact Sc|left; reflexivity]|].
        destruct (do_check_auth _ (s_acct st) (s_now st) auths sigs [CCall self (fn_of op)]) as [l1|]; cbn [bind];
          [|split; [exact Sc|left; reflexivity]].
        destruct (run_op _ c (s_acct st) (s_now st) op) as [[[a1 ret] l2]|] eqn:E; cbn [bind fst s_acct];
          [|split; [exact Sc|left; reflexivity]].
        split; [|eapply run_op_next_cases; eauto].
        assert (Hlt : a_next (s_acct st) - 1 < a_next (s_acct st)) by lia.
        pose proof (expected_table_model _ c (s_acct st) (s_now st) op a1 ret l2 _ W W2 Hlt E) as Het.
        apply (expected_table_types (fun t => mem_t t types = true) _ _ _ _ _ Het Sc).
        destruct op; try exact I. exact Hcov.
      - destruct (negb (s_deployed st)); [split; [exact Sc|left; reflexivity]|].
        destruct (do_check_auth _ _ _ _ _ _); split; solve [exact Sc|left; reflexivity].
      - destruct (negb (s_deployed st)); [split; [exact Sc|left; reflexivity]|].
        destruct (do_check_auth _ _ _ _ _ _); split; solve [exact Sc|left; reflexivity].
      - destruct (negb (s_deployed st)); [split; [exact Sc|left; reflexivity]|].
        destruct (do_check_auth _ _ _ _ _ _); [|split; [exact Sc|left; reflexivity]].
        destruct ((1 <=? t) && (t <=? nsig)); split; solve [exact Sc|left; reflexivity]. }
    destruct Key as [Sc' Hnext].
    pose proof (shape_model types m st _ Hne Sp0 Sc') as Hshape.
    pose proof (table_ok_model c types _ W' W2') as Tok.
    (* --- the new simulation --- *)
    assert (Hsim : sim2 c types (mon_next m (cl, snd (step c st cl), observe types (fst (step c st cl)))) (fst (step c st cl))).
    { split; [|split; [right; reflexivity|split; [intros _; reflexivity|split; [|split; [|split; [exact W2'|exact Sc']]]]]].
      - (* modes / deployed / rules / now *)
        unfold sim, mon_next. cbn [ms_modes ms_deployed ms_prev]. rewrite Sm, Sd.
        destruct cl; cbn [step].
        + destruct (s_deployed st) eqn:D; [repeat split; auto|].
          destruct (add_context_rule _ c (s_acct st) (s_now st) TDefault 0%N None signers policies) as [[[a1 r1] l1]|];
            cbn [fst snd]; repeat split; auto.
        + destruct ((0 <=? n) && in_u32 (s_now st + n)); cbn [fst snd]; repeat split; auto.
        + cbn [fst snd]. repeat split; auto.
        + destruct (s_deployed st) eqn:D; cbn [negb fst snd]; [|repeat split; auto].
          destruct (do_check_auth _ (s_acct st) (s_now st) auths sigs [CCall self (fn_of op)]) as [l1|]; cbn [bind];
            [|cbn [fst snd]; repeat split; auto].
          destruct (run_op _ c (s_acct st) (s_now st) op) as [[[a1 ret] l2]|]; cbn [bind fst snd]; repeat split; auto.
        + destruct (s_deployed st) eqn:D; cbn [negb fst snd]; [|repeat split; auto].
          destruct (do_check_auth _ _ _ _ _ _); cbn [fst snd]; repeat split; auto.
        + destruct (s_deployed st) eqn:D; cbn [negb fst snd]; [|repeat split; auto].
          destruct (do_check_auth _ _ _ _ _ _); cbn [fst snd]; repeat split; auto.
        + destruct (s_deployed st) eqn:D; cbn [negb fst snd]; [|repeat split; auto].
          destruct (do_check_auth _ _ _ _ _ _); [|cbn [fst snd]; repeat split; auto].
          destruct ((1 <=? t) && (t <=? nsig)); cbn [fst snd]; repeat split; auto.
      - destruct (mon_next_fields m cl (snd (step c st cl)) (observe types (fst (step c st cl)))) as [_ ->].
        cbn [observe ob_rules]. apply (maxid_step (s_acct st)); assumption.
      - apply step_undeployed_acct. exact Sa. }
    split; [|exact Hsim].
    (* --- the step is accepted --- *)
    unfold mon_step, auth_step, table_step. rewrite Hshape, Sd, Sr, Sn, Sm. cbn [andb].
    destruct (s_deployed st) eqn:D; cbn [negb].
    - (* deployed *)
      rewrite Tok. cbn [andb]. rewrite (Sp (eq_trans Sd eq_refl)).
      destruct cl; cbn [step]; rewrite ?D; cbn [negb].
      + cbn [fst snd]. rewrite same_table_acct by reflexivity. cbn [observe ob_now]. rewrite Z.add_0_r, Z.eqb_refl. reflexivity.
      + destruct ((0 <=? n) && in_u32 (s_now st + n)); cbn [fst snd]; rewrite same_table_acct by reflexivity;
          cbn [observe ob_now s_now]; rewrite ?Z.add_0_r, Z.eqb_refl; reflexivity.
      + cbn [fst snd]. rewrite same_table_acct by reflexivity. cbn [observe ob_now s_now]. rewrite Z.add_0_r, Z.eqb_refl. reflexivity.
      + (* Admin *)
        pose proof (expectation_correct (s_acct st) (s_modes st) (s_now st) auths sigs [CCall self (fn_of op)] W) as He.
        destruct (do_check_auth _ (s_acct st) (s_now st) auths sigs [CCall self (fn_of op)]) as [l1|] eqn:E1; cbn [bind].
        2:{ cbn [fst snd agrees_entry]. rewrite same_table_acct by reflexivity. cbn [observe ob_now]. rewrite Z.add_0_r, Z.eqb_refl.
            destruct (expectation _ _ _ _ _ _) as [| |enf]; try reflexivity. destruct He as [l [He _]]. discriminate. }
        destruct (run_op _ c (s_acct st) (s_now st) op) as [[[a1 ret] l2]|] eqn:E2; cbn [bind fst snd].
        2:{ cbn [agrees_entry]. rewrite same_table_acct by reflexivity. cbn [observe ob_now]. rewrite Z.add_0_r, Z.eqb_refl.
            destruct (expectation _ _ _ _ _ _) as [| |enf]; try reflexivity.
            destruct (op_ok c (a_rules (s_acct st)) (s_modes st) (s_now st) (ms_maxid m) op) eqn:Eo; [|reflexivity].
            exfalso. destruct (op_ok_model (s_modes st) c (s_acct st) (s_now st) op (ms_maxid m) W W2 Sx Eo) as [res Hres].
            rewrite Hres in E2. discriminate. }
        cbn [observe ob_rules ob_now s_acct s_now agrees_entry].
        assert (Hlt : ms_maxid m < a_next (s_acct st)) by lia.
        rewrite (expected_table_model _ c (s_acct st) (s_now st) op a1 ret l2 (ms_maxid m) W W2 Hlt E2).
        rewrite Z.add_0_r, Z.eqb_refl, (proj2 (list_eqb_eq rule_eqb rule_eqb_eq _ _) eq_refl). cbn [andb]. rewrite andb_true_r.
        destruct (expectation (a_rules (s_acct st)) (s_modes st) (s_now st) auths sigs [CCall self (fn_of op)]) as [| |enf];
          cbn [agrees]; [discriminate|discriminate|].
        destruct He as [l [He Hl]]. inversion He; subst l.
        rewrite filter_app. rewrite (run_op_no_enf _ _ _ _ _ _ _ _ E2 : filter is_enforce l2 = []), app_nil_r, <- Hl.
        rewrite same_enforce_filter_refl. cbn [andb]. eapply asked_model; exact E1.
      + pose proof (agrees_expectation (s_acct st) (s_modes st) (s_now st) auths sigs cs W) as Ha.
        destruct (do_check_auth _ _ _ _ _ _); cbn [fst snd]; rewrite same_table_acct by reflexivity;
          cbn [observe ob_now s_now]; rewrite Z.add_0_r, Z.eqb_refl, Ha; reflexivity.
      + pose proof (agrees_expectation (s_acct st) (s_modes st) (s_now st) auths sigs cs W) as Ha.
        destruct (do_check_auth _ _ _ _ _ _); cbn [fst snd]; rewrite same_table_acct by reflexivity;
          cbn [observe ob_now s_now]; rewrite Z.add_0_r, Z.eqb_refl, Ha; reflexivity.
      + (* SetThreshold *)
        set (cx := if via_execute then CCall self fn_execute else CCall thr_callee fn_set_threshold).
        set (M := if via_execute then s_modes st else mark_busy (s_modes st)).
        assert (EO : (if via_execute then oracles_of (s_modes st) else oracles_of (mark_busy (s_modes st))) = oracles_of M)
          by (unfold M; destruct via_execute; reflexivity).
        rewrite EO.
        pose proof (expectation_correct (s_acct st) M (s_now st) auths sigs [cx] W) as He.
        destruct (do_check_auth (oracles_of M) (s_acct st) (s_now st) auths sigs [cx]) as [l1|] eqn:E1.
        2:{ cbn [fst snd agrees_entry]. rewrite same_table_acct by reflexivity. cbn [observe ob_now]. rewrite Z.add_0_r, Z.eqb_refl.
            destruct (expectation _ _ _ _ _ _) as [| |enf]; try reflexivity. destruct He as [l [He _]]. discriminate. }
        destruct ((1 <=? t) && (t <=? nsig)) eqn:Eg; cbn [fst snd agrees_entry];
          rewrite same_table_acct by reflexivity; cbn [observe ob_now s_now]; rewrite Z.add_0_r, Z.eqb_refl.
        * rewrite andb_true_r. destruct (expectation (a_rules (s_acct st)) M (s_now st) auths sigs [cx]) as [| |enf];
            cbn [agrees]; [discriminate|discriminate|].
          destruct He as [l [He Hl]]. inversion He; subst l. rewrite <- Hl, same_enforce_filter_refl. cbn [andb].
          eapply asked_model0; exact E1.
        * destruct (expectation _ _ _ _ _ _); reflexivity.
    - (* not yet deployed *)
      assert (Ea : s_acct st = acct0) by (apply Sa; reflexivity).
      destruct cl; cbn [step]; rewrite ?D; cbn [negb fst snd].
      + revert Tok Hshape W' W2' Sc' Hnext Hsim. cbn [step]. rewrite D.
        destruct (add_context_rule _ c (s_acct st) (s_now st) TDefault 0%N None signers policies) as [[[a1 r1] l1]|] eqn:E;
          cbn [fst snd]; intros Tok _ _ _ _ _ _.
        * rewrite Tok. cbn [andb observe ob_rules ob_now s_acct s_now]. rewrite Z.add_0_r, Z.eqb_refl. cbn [andb].
          rewrite Ea in E. unfold add_context_rule in E. inv_bind E. inversion E; subst; clear E.
          cbn [a_rules acct0 app r_id a_next]. rewrite Ea in Sx. cbn [a_next acct0] in Sx.
          assert (Hlt : ms_maxid m <? 0 = true) by (apply Z.ltb_lt; lia). rewrite Hlt, rule_eqb_refl'. reflexivity.
        * cbn [observe ob_now]. rewrite Z.add_0_r, Z.eqb_refl, (observe_acct0 types st Ea). reflexivity.
      + destruct ((0 <=? n) && in_u32 (s_now st + n)); cbn [fst snd observe ob_now s_now];
          rewrite ?Z.add_0_r, Z.eqb_refl; cbn [andb]; apply observe_acct0; exact Ea.
      + cbn [observe ob_now s_now]. rewrite Z.add_0_r, Z.eqb_refl. cbn [andb]. apply observe_acct0. exact Ea.
      + cbn [observe ob_now]. rewrite Z.add_0_r, Z.eqb_refl. cbn [andb]. apply observe_acct0. exact Ea.
      + cbn [observe ob_now]. rewrite Z.add_0_r, Z.eqb_refl. cbn [andb]. apply observe_acct0. exact Ea.
      + cbn [observe ob_now]. rewrite Z.add_0_r, Z.eqb_refl. cbn [andb]. apply observe_acct0. exact Ea.
      + cbn [observe ob_now]. rewrite Z.add_0_r, Z.eqb_refl. cbn [andb]. apply observe_acct0. exact Ea.
  Qed.

  Lemma monitor_accepts cs : forall m st i, sim2 c types m st -> swf st -> forallb (call_covered types) cs = true ->
    mon_from c m (model_items c types st cs) i = 0%N.
  Proof.
    induction cs as [|cl r IH]; intros m st i S W Hc; [reflexivity|].
    cbn [forallb] in Hc. apply andb_prop in Hc. destruct Hc as [Hc1 Hc2].
    rewrite model_items_cons. cbn [mon_from].
    destruct (mon_step_model m st cl S W Hc1) as [H1 H2]. rewrite H1.
    apply IH; [exact H2|apply swf_step; exact W|exact Hc2].
  Qed.
End Step.

Theorem check_accepts_model c types cs :
  covers types cs = true -> check (observe_model c types cs) = (0%N, 0%N, 0%N).
Proof.
  intros Hc. unfold covers in Hc. apply andb_prop in Hc. destruct Hc as [Hne Hc].
  assert (Hne' : types <> []) by (intros ->; discriminate).
  unfold check, observe_model. cbn [fst snd]. rewrite diff_accepts.
  rewrite (monitor_accepts c types Hne' cs mstate0 init 0%N (sim2_init c types) swf_init Hc). reflexivity.
Qed.
