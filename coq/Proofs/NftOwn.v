(* owner_of refines the plain ownership map, for the three flavours. *)
From SC Require Import Lib.Prelude Lib.Int Lib.Host Model.Nft Run.NftCommon Proofs.NftMaps Proofs.NftFrame
  Proofs.NftInv Proofs.NftCons.
Local Open Scope N_scope.

Definition OwnInv (fl : flavour) (s : state) (g : ghost) : Prop :=
  match fl with
  | FCons => CInv s (rget (g_own g))
  | _ => forall id, aget N.eqb id (owner s) = rget (g_own g) id
  end.

Lemma own_init fl now0 : OwnInv fl (init now0) (ghost0 now0).
Proof. destruct fl; cbn; try (intros; reflexivity). apply cinv_init. Qed.

Lemma own_of fl c s g : OwnInv fl s g -> forall id, owner_of fl c s id = rget (g_own g) id.
Proof.
  destruct fl; cbn [OwnInv owner_of]; intros H id; try apply H.
  rewrite (cons_owner_of_cown c s id (proj1 H)). destruct H as (_&_&_&_&_&H6&_). apply H6.
Qed.

(* owner table after a plain update followed by an enumeration fix-up *)
Lemma plain_move_owner fl c s f to id x s' :
  plain fl -> update fl c s (Some f) to id = Ok x -> same_core x s' ->
  owner s' = match to with Some t => aset N.eqb id t (owner s) | None => arem N.eqb id (owner s) end.
Proof.
  intros Hp Hu Hc. apply update_plain_from in Hu; [|exact Hp]. destruct Hu as (_&_&_&->).
  destruct Hc as (_&_&->&_). destruct to; reflexivity.
Qed.
Lemma plain_mint_owner fl c s t id x s' :
  plain fl -> update fl c s None (Some t) id = Ok x -> same_core x s' ->
  owner s' = aset N.eqb id t (owner s).
Proof.
  intros Hp Hu Hc. apply update_plain_mint in Hu; [|exact Hp]. destruct Hu as (_&->).
  destruct Hc as (_&_&->&_). reflexivity.
Qed.

Lemma plain_own_step fl c s g cl s' r : plain fl ->
  (forall id, aget N.eqb id (owner s) = rget (g_own g) id) -> exec fl c s cl = Ok (s', r) ->
  forall id, aget N.eqb id (owner s') = rget (g_own (ghost_step g cl (Ok r))) id.
Proof.
  intros Hp Ho H.
  assert (Hset : forall (o' : list (N * addr)) i v, o' = aset N.eqb i v (owner s) ->
            forall id, aget N.eqb id o' = rget (LPoint i (Some v) :: g_own g) id).
  { intros o' i v -> id. rewrite (aget_aset N.eqb Neqb_spec). cbn [rget]. destruct (id =? i); [reflexivity | apply Ho]. }
  assert (Hrem : forall (o' : list (N * addr)) i, o' = arem N.eqb i (owner s) ->
            forall id, aget N.eqb id o' = rget (LPoint i None :: g_own g) id).
  { intros o' i -> id. rewrite (aget_arem N.eqb Neqb_spec). cbn [rget]. destruct (id =? i); [reflexivity | apply Ho]. }
  destruct cl; cbn [exec] in H; cbn [ghost_step g_own].
  - inversion H; subst. exact Ho.
  - assert (H' : (do '(s1, id) <- increment_token_id s 1;
                  do s2 <- update fl c s1 None (Some to) id;
                  do s3 <- enum_after_mint fl s2 to id; Ok (s3, Some id)) = Ok (s', r))
      by (destruct fl; try exact H; exfalso; apply Hp; reflexivity).
    clear H. inv_res H'. unfold increment_token_id in G. inv_res G. subst x.
    cbv beta iota zeta in H'. inv_res H'. subst. cbn [g_own].
    apply Hset. eapply plain_mint_owner in G; [|exact Hp|eapply enum_after_mint_core; exact G1]. exact G.
  - assert (H' : (do s2 <- update fl c s None (Some to) id;
                  do s3 <- enum_after_mint fl s2 to id; Ok (s3, @None N)) = Ok (s', r))
      by (destruct fl; try exact H; exfalso; apply Hp; reflexivity).
    clear H. inv_res H'. subst. cbn [g_own].
    apply Hset. eapply plain_mint_owner in G; [|exact Hp|eapply enum_after_mint_core; exact G0]. exact G.
  - destruct fl; try discriminate. exfalso; apply Hp; reflexivity.
  - inv_res H. subst. apply Hset.
    eapply (plain_move_owner fl c s from (Some to)); [exact Hp | exact G0 | eapply enum_after_transfer_core; exact G1].
  - inv_res H. subst. apply Hset.
    eapply (plain_move_owner fl c s from (Some to)); [exact Hp | exact G1 | eapply enum_after_transfer_core; exact G2].
  - inv_res H. subst. apply Hrem.
    eapply (plain_move_owner fl c s from None); [exact Hp | exact G0 | eapply enum_after_burn_core; exact G1].
  - inv_res H. subst. apply Hrem.
    eapply (plain_move_owner fl c s from None); [exact Hp | exact G1 | eapply enum_after_burn_core; exact G2].
  - inv_res H. subst. apply approve_for_owner_ok in G1. destruct G1 as [_ [[_ ->]|(_&_&en&_&_&->)]]; exact Ho.
  - inv_res H. subst. apply approve_for_all_ok in G. destruct G as [_ [[_ ->]|(_&_&en&_&_&->)]]; exact Ho.
Qed.

Lemma own_step fl c s g cl s' r :
  OwnInv fl s g -> exec fl c s cl = Ok (s', r) -> OwnInv fl s' (ghost_step g cl (Ok r)).
Proof.
  intros Ho H. destruct fl; cbn [OwnInv] in *.
  - apply (plain_own_step FBase c s g cl s' r); [discriminate | exact Ho | exact H].
  - apply (plain_own_step FEnum c s g cl s' r); [discriminate | exact Ho | exact H].
  - eapply cons_step; eassumption.
Qed.
