(* C05: pinned forms of the per-participant theorems (Proofs/VaultWealth.v) *)
From SC Require Import Lib.Prelude Lib.Int Lib.Host Model.Math Proofs.Math Model.Vault
  Proofs.VaultSpec Proofs.VaultToken Proofs.VaultOps Proofs.VaultRate Proofs.VaultTrips Proofs.VaultLive Proofs.C05Final
  Proofs.VaultWealth.
From Coq Require Import ZifyBool.

Lemma own_operation_final c n0 cs u cl s' v evs : 0 <= c_off c -> forallb wf_call cs = true -> u <> V ->
  let s := run c (init c n0) cs in let P := 10 ^ c_off c in
  wf_call cl = true -> step c s cl = (s', Ok (v, evs)) ->
  match cl with
  | Deposit _ r f o _ | MintS _ r f o _ | Withdraw _ r f o _ | Redeem _ r f o _ =>
      r = u -> f = u -> o = u ->
      (bal (asset s') u * (total_supply s' + P) + bal (share s') u * (total_assets s' + 1)) * (total_supply s + P)
      <= (bal (asset s) u * (total_supply s + P) + bal (share s) u * (total_assets s + 1)) * (total_supply s' + P)
  | _ => True
  end.
Proof.
  intros Hc Hw Hu s P Hwf H. pose proof (reach c n0 cs Hc Hw) as Hi.
  exact (own_operation_never_profits c Hc s Hi u Hu cl s' v evs Hwf H).
Qed.

Lemma claims_covered_final c n0 cs l : 0 <= c_off c -> forallb wf_call cs = true -> NoDup l ->
  let s := run c (init c n0) cs in
  claims c s l <= total_assets s.
Proof. intros Hc Hw Hnd s. apply all_claims_covered; auto. apply reach; auto. Qed.

Lemma claims_unfold c s : claims c s [] = 0 /\
  forall u l, claims c s (u :: l) =
    exact Floor (bal (share s) u * (total_assets s + 1)) (total_supply s + 10 ^ c_off c) + claims c s l.
Proof. split; reflexivity. Qed.

Lemma in_out_bounded_final c n0 cs0 cin s1 vin e1 cs cout s3 vout e2 :
  0 <= c_off c -> forallb wf_call cs0 = true ->
  let s := run c (init c n0) cs0 in let P := 10 ^ c_off c in
  wf_call cin = true -> forallb wf_call cs = true -> wf_call cout = true ->
  step c s cin = (s1, Ok (vin, e1)) ->
  step c (run c s1 cs) cout = (s3, Ok (vout, e2)) ->
  let s2 := run c s1 cs in
  let a := match cin with Deposit a _ _ _ _ => a | _ => vin end in
  let sh := match cin with Deposit _ _ _ _ _ => vin | _ => call_amount cin end in
  let a' := match cout with Redeem _ _ _ _ _ => vout | _ => call_amount cout end in
  let x := match cout with Redeem x _ _ _ _ => x | _ => vout end in
  match cin, cout with
  | (Deposit _ _ _ _ _ | MintS _ _ _ _ _), (Redeem _ _ _ _ _ | Withdraw _ _ _ _ _) =>
      x <= sh ->
      a' * (total_supply s2 + P) * (total_assets s + 1) <= a * (total_assets s2 + 1) * (total_supply s + P)
  | _, _ => True
  end.
Proof.
  intros Hc Hw s P W1 Wcs W2 H1 H2. pose proof (reach c n0 cs0 Hc Hw) as Hi.
  exact (history_bound c Hc s cin s1 vin e1 cs cout s3 vout e2 Hi W1 Wcs W2 H1 H2).
Qed.

(* the literal reading "a participant never takes out more than he put in plus donations" does not hold: the
   rounding losses of the other participants are captured by the holders as well.  No donation, no yield:
   user 1 deposits 10, user 2 mints 1 share ten times (paying 1 asset each, worth 1/10), user 1 redeems 17. *)
Definition dust_cfg : cfg := {| c_off := 1; c_max_off := 10; c_adec := 7; c_max_ttl := 6312000 |}.
Definition dust_calls : list call :=
  [AMint 1%N 10; AMint 2%N 10; Deposit 10 1%N 1%N 1%N [(1%N, AFull)]]
  ++ repeat (MintS 1 2%N 2%N 2%N [(2%N, AFull)]) 10
  ++ [Redeem 100 1%N 1%N 1%N [(1%N, ARoot)]].
Definition is_donation (cl : call) : bool :=
  match cl with ATransfer _ t _ _ | AMint t _ => N.eqb t V | _ => false end.
Lemma literal_refuted :
  exists c n0 cs u, 0 <= c_off c /\ forallb wf_call cs = true /\ forallb (fun cl => negb (is_donation cl)) cs = true /\
    (* u was funded with 10 assets, holds no shares at the end, and holds 17 assets *)
    bal (asset (run c (init c n0) (firstn 2 cs))) u = 10 /\
    bal (share (run c (init c n0) cs)) u = 0 /\ bal (asset (run c (init c n0) cs)) u = 17.
Proof. exists dust_cfg, 100, dust_calls, 1%N. vm_compute. repeat split; discriminate. Qed.
