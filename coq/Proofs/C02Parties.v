(* C02 follow-up (special addresses as parties): no address is privileged - an account that does not sign and
   has granted no allowance keeps its balance whichever address it is (a user, another contract, the token
   contract itself); and the one place where the model lets a contract authorise itself (the vault paying
   out the assets it holds) is characterised. *)
From SC Require Import Lib.Prelude Lib.Int Lib.Host Model.Math Model.Fungible Model.FungibleObs
  Proofs.FungibleBasics Proofs.FungibleExec Proofs.FungibleAllow Proofs.FungibleInv Proofs.FungibleObsFacts
  Run.C02 Proofs.C02Model Proofs.C02Monitor Proofs.C02Final.

Definition supervisory (cl : call) : bool :=
  match cl with RForcedTransfer _ _ _ | RBurn _ _ | RRecover _ _ => true | _ => false end.

Lemma unsigned_account_keeps_balance : forall c s cl s' v evs a, wf_cfg c = true -> state_inv s ->
  exec c s cl = Ok (s', v, evs) -> supervisory cl = false ->
  has_auth (call_auths cl) a = false ->
  (forall sp, allowance (now s) (tk s) a sp = 0) ->
  balance (tk s) a <= balance (tk s') a.
Proof.
  intros c s cl s' v evs a W I E NS NA Z0.
  destruct (Z_lt_le_dec (balance (tk s') a) (balance (tk s) a)) as [L|L]; [exfalso|exact L].
  pose proof (debit_needs_auth c s cl s' v evs a W I E L) as D. cbn zeta in D.
  assert (SP : forall o sp amt, o = a -> spender_path s s' o sp amt -> False).
  { intros o sp amt -> (P1 & P2 & _). specialize (Z0 sp). unfold allowance in Z0. lia. }
  destruct cl; cbn [supervisory] in NS; try discriminate; cbn [call_auths] in NA; try exact D.
  - destruct D as (-> & A & _). congruence.
  - destruct D as (-> & _ & P & _). eapply SP; eauto.
  - destruct D as (-> & A & _). congruence.
  - destruct D as (-> & _ & P & _). eapply SP; eauto.
  - destruct D as (-> & A & [->|P] & _); [congruence|eapply SP; eauto].
  - destruct D as (-> & A & [->|P] & _); [congruence|eapply SP; eauto].
Qed.

(* the same with the exemption spelled out (the form pinned in Properties/C02.v) *)
Lemma unsigned_account_keeps_balance_pinned : forall c s cl s' v evs a,
  wf_cfg c = true -> state_inv s -> exec c s cl = Ok (s', v, evs) ->
  (match cl with RForcedTransfer _ _ _ | RBurn _ _ | RRecover _ _ => false | _ => true end) = true ->
  has_auth (call_auths cl) a = false ->
  (forall sp, allowance (now s) (tk s) a sp = 0) ->
  balance (tk s) a <= balance (tk s') a.
Proof.
  intros c s cl s' v evs a W I E NS. apply (unsigned_account_keeps_balance c s cl s' v evs a W I E).
  destruct cl; cbn in *; congruence.
Qed.

(* ---- the vault's underlying asset token (a second Base token inside the model) ---- *)

Lemma balance_set_supply t v x : balance (set_supply t v) x = balance t x.
Proof. reflexivity. Qed.

Lemma update_debits_only_from t f to amt t' x : update t f to amt = Ok t' -> balance t' x < balance t x ->
  f = Some x /\ 0 < amt /\ balance t x - balance t' x <= amt.
Proof.
  intros H L. unfold update in H. inv_ok. apply Z.leb_le in E.
  destruct f as [a|]; inv_ok.
  - apply checked_sub_some in E2. destruct E2 as [-> _].
    destruct to as [b|]; inv_ok.
    + apply checked_add_some in E0. destruct E0 as [-> _].
      rewrite !balance_set_bal in L. rewrite !balance_set_bal.
      destruct (N.eqb x b) eqn:Xb, (N.eqb x a) eqn:Xa;
        try (apply N.eqb_eq in Xb; subst b); try (apply N.eqb_eq in Xa; subst a);
        rewrite ?N.eqb_refl, ?Xa, ?Xb in *; try (exfalso; lia). split; [reflexivity|]. lia.
    + apply checked_sub_some in E0. destruct E0 as [-> _].
      rewrite balance_set_supply, balance_set_bal in *.
      destruct (N.eqb x a) eqn:Xa.
      * apply N.eqb_eq in Xa. subst a. split; [reflexivity|]. lia.
      * exfalso. lia.
  - apply checked_add_some in E1. destruct E1 as [-> _].
    destruct to as [b|]; inv_ok.
    + apply checked_add_some in E0. destruct E0 as [-> _].
      rewrite balance_set_bal, !balance_set_supply in L. exfalso. destruct (N.eqb x b) eqn:Xb; [apply N.eqb_eq in Xb; subst b|]; lia.
    + apply checked_sub_some in E0. destruct E0 as [-> _]. rewrite !balance_set_supply in L. exfalso. lia.
Qed.

Lemma b_transfer_inv t au from to mux amt t' evs : b_transfer t au from to mux amt = Ok (t', evs) ->
  has_auth au from = true /\ update t (Some from) (Some to) amt = Ok t'.
Proof. unfold b_transfer. intros H. inv_ok. auto. Qed.

Lemma b_transfer_from_inv hc nw t au sp from to amt t' evs : b_transfer_from hc nw t au sp from to amt = Ok (t', evs) ->
  has_auth au sp = true /\ exists t1, spend_allowance hc nw t from sp amt = Ok t1 /\ update t1 (Some from) (Some to) amt = Ok t'.
Proof. unfold b_transfer_from. intros H. inv_ok. eauto. Qed.

(* who pays the assets of a deposit / mint *)
Definition asset_pull_ok (c : cfg) (s : state) (sub : list addr) (from op : addr) : Prop :=
  if N.eqb op from then has_auth sub from = true
  else has_auth sub op = true /\ exists amt, 0 < amt <= allowance (now s) (asset s) from op.

Lemma deposit_internal_asset c s sub recv assets shares from op s' a : wf_host (c_host c) ->
  deposit_internal c s sub recv assets shares from op = Ok s' ->
  balance (asset s') a < balance (asset s) a ->
  a = from /\ asset_pull_ok c s sub from op /\ balance (asset s) a - balance (asset s') a <= assets.
Proof.
  intros W H L. unfold deposit_internal in H. inv_ok. cbn [asset w_tk w_asset] in L |- *.
  unfold asset_pull_ok. destruct (N.eqb op from) eqn:Eo.
  - apply b_transfer_inv in E. destruct E as [A U].
    destruct (update_debits_only_from _ _ _ _ _ _ U L) as (F & P & D). injection F; intros; subst. auto.
  - apply b_transfer_from_inv in E. destruct E as (A & t1 & Sp & U).
    destruct (spend_allowance_spec _ _ _ _ _ _ _ W Sp) as (_ & Le & B & _).
    assert (Bx : forall y, balance t1 y = balance (asset s) y) by (intros y; unfold balance; rewrite B; reflexivity).
    rewrite <- Bx in L. destruct (update_debits_only_from _ _ _ _ _ _ U L) as (F & P & D).
    injection F; intros; subst. rewrite Bx in D. split; auto. split; auto. split; auto. exists assets. lia.
Qed.

Lemma withdraw_internal_asset c s recv owner assets shares op s' a :
  withdraw_internal c s recv owner assets shares op = Ok s' ->
  balance (asset s') a < balance (asset s) a ->
  a = c_self c /\ balance (asset s) a - balance (asset s') a <= assets.
Proof.
  intros H L. unfold withdraw_internal in H. inv_ok. cbn [asset w_tk w_asset] in L |- *.
  apply b_transfer_inv in E1. destruct E1 as [_ U].
  destruct (update_debits_only_from _ _ _ _ _ _ U L) as (F & P & D). injection F; intros; subst. auto.
Qed.

(* C02 for the vault's underlying asset token: an asset balance decreases only
   - in a deposit / mint that names the account as payer [from], authorised by the operator, the nested
     asset-token call being authorised by the payer itself (operator = from) or by an operator holding a live
     asset allowance from the payer, by at most the assets the call names / returns; or
   - for the vault's own address ([c_self], the only address the model ever lets authorise for itself: the
     host's invoker rule) in a withdraw / redeem authorised by the operator, by at most the assets paid out. *)
Lemma vault_asset_debits : forall c s cl s' v evs a, wf_cfg c = true -> c_flav c = FVault ->
  exec c s cl = Ok (s', v, evs) -> balance (asset s') a < balance (asset s) a ->
  let debit := balance (asset s) a - balance (asset s') a in
  match cl with
  | VDeposit au sub assets _ f op => a = f /\ has_auth au op = true /\ asset_pull_ok c s sub f op /\ debit <= assets
  | VMint au sub _ _ f op => a = f /\ has_auth au op = true /\ asset_pull_ok c s sub f op /\ debit <= v
  | VWithdraw au assets _ _ op => a = c_self c /\ has_auth au op = true /\ debit <= assets
  | VRedeem au _ _ _ op => a = c_self c /\ has_auth au op = true /\ debit <= v
  | _ => False
  end.
Proof.
  intros c s cl s' v evs a W F E L. cbn zeta. pose proof (wf_cfg_host _ W) as WH.
  destruct cl; cbn [exec] in E; rewrite ?F in E; cbn [is_std] in E; try discriminate.
  - (* Advance *) inv_ok. cbn in L. lia.
  - (* Transfer *) unfold gate, votes_hook in E. rewrite F in E. inv_ok. cbn in L. lia.
  - (* TransferFrom *) unfold gate, votes_hook in E. rewrite F in E. inv_ok. cbn in L. lia.
  - (* Approve *) unfold gate in E. rewrite F in E. inv_ok. cbn in L. lia.
  - inv_ok. lia.
  - inv_ok. lia.
  - inv_ok. lia.
  - (* VDeposit *) inv_ok. match goal with H : deposit_internal _ _ _ _ _ _ _ _ = Ok _ |- _ => destruct (deposit_internal_asset _ _ _ _ _ _ _ _ _ _ WH H L) as (A1 & A2 & A3) end. auto.
  - (* VMint *) inv_ok. match goal with H : deposit_internal _ _ _ _ _ _ _ _ = Ok _ |- _ => destruct (deposit_internal_asset _ _ _ _ _ _ _ _ _ _ WH H L) as (A1 & A2 & A3) end. auto.
  - (* VWithdraw *) inv_ok. match goal with H : withdraw_internal _ _ _ _ _ _ _ = Ok _ |- _ => destruct (withdraw_internal_asset _ _ _ _ _ _ _ _ _ H L) as (A1 & A2) end. auto.
  - (* VRedeem *) inv_ok. match goal with H : withdraw_internal _ _ _ _ _ _ _ = Ok _ |- _ => destruct (withdraw_internal_asset _ _ _ _ _ _ _ _ _ H L) as (A1 & A2) end. auto.
  - (* AssetMint *) inv_ok. cbn [asset w_asset] in L.
    match goal with H : b_mint _ _ _ = Ok _ |- _ => unfold b_mint in H; inv_ok end.
    match goal with H : update _ None _ _ = Ok _ |- _ => destruct (update_debits_only_from _ _ _ _ _ _ H L) as (X & _) end. discriminate.
  - (* AssetApprove *) inv_ok. cbn [asset w_asset] in L.
    match goal with H : b_approve _ _ _ _ _ _ _ _ = Ok _ |- _ => unfold b_approve in H; inv_ok end.
    match goal with H : set_allowance _ _ _ _ _ _ _ = Ok _ |- _ => destruct (set_allowance_spec _ _ _ _ _ _ _ _ WH H) as (_ & _ & _ & B & _) end.
    unfold balance in L. rewrite B in L. lia.
Qed.
