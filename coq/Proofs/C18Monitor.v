(* C18 - the monitor accepts every run of the model; model vs model has no diff. *)
From SC Require Import Lib.Prelude Lib.Int Model.Base64 Model.Verifiers Model.ClientDataSpec
  Model.SigDataXdrSpec Proofs.Base64 Proofs.Verifiers Run.C18.

Lemma eqb_out_refl : forall o, eqb_out o o = true.
Proof.
  destruct o as [|b|l|[l|]]; cbn [eqb_out]; try reflexivity.
  - destruct b; reflexivity.
  - apply eqb_bytes_refl.
  - apply eqb_bytes_refl.
Qed.
Lemma eqb_outcome_refl : forall o, eqb_outcome o o = true.
Proof. destruct o; cbn [eqb_outcome]; [apply eqb_out_refl | reflexivity]. Qed.

Lemma step_ok_model : forall c k, step_ok c (model_obs c k) = true.
Proof. intros. unfold step_ok, model_obs. cbn [fst snd]. apply eqb_outcome_refl. Qed.

Lemma spec_type_eq : spec_type = WEBAUTHN_GET.
Proof. reflexivity. Qed.

Lemma cfg_ok_eq : forall c, cfg_ok c = true -> max_cd c = SPEC_MAX_CD /\ min_ad c = SPEC_MIN_AD.
Proof. intros c H. unfold cfg_ok in H. apply andb_true_iff in H. destruct H as [A B]. apply Z.eqb_eq in A, B. auto. Qed.

Lemma eqb_parsed_eq : forall x y, eqb_parsed x y = true -> x = y.
Proof.
  intros [[t1 c1]|] [[t2 c2]|] H; cbn [eqb_parsed] in H; try discriminate; try reflexivity.
  apply andb_true_iff in H. destruct H as [A B]. apply eqb_bytes_eq in A, B. subst. reflexivity.
Qed.
Lemma spec_parsed_eq : forall a, parsed_agrees a = true -> spec_parsed a = a_parsed a.
Proof.
  intros a H. unfold parsed_agrees, spec_parsed in *. destruct (cd_view (a_cd a)) as [p|]; [|reflexivity].
  apply eqb_parsed_eq. exact H.
Qed.

Lemma firstn_exact : forall (l : list Z), len l = 32 -> firstn 32 l = l.
Proof. intros l H. apply firstn_all2. unfold len in H. lia. Qed.

(* the monitor's conjunction (prefix form) is the acceptance condition of the model *)
Lemma spec_prefix_eq : forall c a, cfg_ok c = true -> parsed_agrees a = true ->
  spec_wa_accept_prefix a = wa_accept c (a_payload a) (a_ad a) (a_cd a) (a_parsed a) (a_sigok a).
Proof.
  intros c a Hc Hp. destruct (cfg_ok_eq c Hc) as [E1 E2].
  unfold spec_wa_accept_prefix, spec_wa_rest, spec_ch, wa_accept. rewrite (spec_parsed_eq a Hp), E1, E2, spec_type_eq.
  change (spec_challenge_prefix) with challenge_ok. change spec_flags_ok with flags_ok.
  destruct (a_parsed a) as [[ty ch]|].
  - destruct (len (a_cd a) <=? SPEC_MAX_CD), (eqb_bytes ty WEBAUTHN_GET), (SPEC_MIN_AD <=? len (a_ad a)),
      (match nth_error (a_ad a) 32 with Some f => flags_ok f | None => false end), (a_sigok a),
      (challenge_ok ch (a_payload a)); reflexivity.
  - destruct (len (a_cd a) <=? SPEC_MAX_CD); reflexivity.
Qed.
Lemma spec_exact_eq : forall a, len (a_payload a) = 32 -> spec_wa_accept a = spec_wa_accept_prefix a.
Proof.
  intros a H. unfold spec_wa_accept, spec_wa_accept_prefix, spec_challenge_exact, spec_challenge_prefix.
  rewrite (firstn_exact _ H), H. reflexivity.
Qed.

Lemma skipn_repeat : forall (x : Z) k m, skipn k (repeat x m) = repeat x (m - k).
Proof.
  induction k as [|k IH]; intros m.
  - rewrite Nat.sub_0_r. reflexivity.
  - destruct m as [|m]; [reflexivity|]. cbn [repeat skipn Nat.sub]. apply IH.
Qed.

Lemma enc_len_nonneg : forall n, 0 <= n -> 0 <= enc_len n.
Proof. intros n H. unfold enc_len. Z.div_mod_to_equations. lia. Qed.

Lemma mon_b64 : forall c dst_len src, wf_call (B64 dst_len src) = true ->
  mon_call (B64 dst_len src) (run_call c (B64 dst_len src)) = true.
Proof.
  intros c d src W. cbn [wf_call] in W. cbn [mon_call run_call]. rewrite W. cbn [andb].
  apply andb_true_iff in W. destruct W as [Hd Hb]. apply Z.leb_le in Hd.
  rewrite base64_url_encode_is_encode_into, encode_into_spec.
  rewrite repeat_length. rewrite encode_length_nat. fold (len src).
  set (n := enc_len (len src)).
  assert (Hn : 0 <= n) by (apply enc_len_nonneg, len_nonneg).
  destruct (Z.leb_spec n d) as [L|L].
  - replace (Z.to_nat n <=? Z.to_nat d)%nat with true by (symmetry; apply Nat.leb_le; lia).
    cbn [lift bind]. rewrite skipn_repeat. rewrite encode_is_rfc4648 by exact Hb.
    replace (Z.to_nat d - Z.to_nat n)%nat with (Z.to_nat (d - n)) by lia.
    apply eqb_bytes_refl.
  - replace (Z.to_nat n <=? Z.to_nat d)%nat with false by (symmetry; apply Nat.leb_gt; lia).
    reflexivity.
Qed.

Lemma mon_b64f : forall c dst src, wf_call (B64F dst src) = true ->
  mon_call (B64F dst src) (run_call c (B64F dst src)) = true.
Proof.
  intros c dst src W. cbn [wf_call] in W. cbn [mon_call run_call]. rewrite W. cbn [andb].
  rewrite base64_url_encode_is_encode_into, encode_into_spec.
  rewrite encode_length_nat. fold (len src).
  set (n := enc_len (len src)).
  assert (Hn : 0 <= n) by (apply enc_len_nonneg, len_nonneg).
  unfold len at 1.
  destruct (Z.leb_spec n (Z.of_nat (length dst))) as [L|L].
  - replace (Z.to_nat n <=? length dst)%nat with true by (symmetry; apply Nat.leb_le; lia).
    cbn [lift bind]. rewrite encode_is_rfc4648 by exact W.
    apply eqb_bytes_refl.
  - replace (Z.to_nat n <=? length dst)%nat with false by (symmetry; apply Nat.leb_gt; lia).
    reflexivity.
Qed.

Lemma in_u32_range : forall k, in_u32 k = true -> 0 <= k <= 4294967295.
Proof. intros k H. unfold in_u32 in H. apply andb_true_iff in H. destruct H as [A B]. apply Z.leb_le in A, B. change MAXU32 with 4294967295 in B. lia. Qed.

Ltac zb :=
  repeat match goal with
  | |- context [?a <=? ?b] => destruct (Z.leb_spec a b)
  | |- context [?a <? ?b] => destruct (Z.ltb_spec a b)
  | |- context [?a =? ?b] => destruct (Z.eqb_spec a b)
  end.

Lemma mon_extract : forall c n sb eb data, wf_call (Extract n sb eb data) = true ->
  mon_call (Extract n sb eb data) (run_call c (Extract n sb eb data)) = true.
Proof.
  intros c n sb eb data W. cbn [wf_call] in W. cbn [mon_call run_call]. rewrite W. cbn [andb].
  apply andb_true_iff in W. destruct W as [W Wl]. apply andb_true_iff in W. destruct W as [Ws We].
  apply Z.leb_le in Wl. change MAXU32 with 4294967295 in Wl.
  pose proof (len_nonneg data) as Hl.
  unfold extract_from_bytes.
  destruct sb as [|s|s]; destruct eb as [|e|e]; cbn [bound_u32] in Ws, We;
    try (apply in_u32_range in Ws); try (apply in_u32_range in We);
    cbn [range_start range_end bind of_option];
    unfold checked_add_u32, in_u32, slice; change MAXU32 with 4294967295;
    cbn [andb negb lift bind of_option];
    repeat (progress (zb; cbn [andb negb lift bind of_option orb]));
    try reflexivity; try lia; try (exfalso; lia);
    try (match goal with |- eqb_bytes ?x ?y = true => replace y with x; [apply eqb_bytes_refl | repeat f_equal; lia] end).
Qed.

Lemma up_spec : forall f, validate_user_present_bit_set f = guard (spec_up f).
Proof.
  intro f. unfold validate_user_present_bit_set, spec_up. change FLAGS_UP with (2 ^ 0).
  rewrite land_pow2_eqb0 by lia. rewrite negb_involutive. reflexivity.
Qed.
Lemma uv_spec : forall f, validate_user_verified_bit_set f = guard (spec_uv f).
Proof.
  intro f. unfold validate_user_verified_bit_set, spec_uv. change FLAGS_UV with (2 ^ 2).
  rewrite land_pow2_eqb0 by lia. rewrite negb_involutive. reflexivity.
Qed.
Lemma backup_spec : forall f, validate_backup_eligibility_and_state f = guard (spec_backup f).
Proof.
  intro f. unfold validate_backup_eligibility_and_state, spec_backup.
  change FLAGS_BE with (2 ^ 3). change FLAGS_BS with (2 ^ 4).
  rewrite !land_pow2_eqb0 by lia. rewrite negb_involutive. reflexivity.
Qed.

Lemma mon_flags : forall c f, is_byte f = true -> mon_call (Flags f) (run_call c (Flags f)) = true.
Proof.
  intros c f W. cbn [mon_call run_call]. rewrite W. cbn [andb]. rewrite flag_validators.
  change (spec_flags_ok f) with (flags_ok f). destruct (flags_ok f); reflexivity.
Qed.
Lemma mon_flagone : forall c w f, is_byte f = true -> mon_call (FlagOne w f) (run_call c (FlagOne w f)) = true.
Proof.
  intros c w f W. cbn [mon_call run_call]. rewrite W. cbn [andb].
  destruct (w =? 0); [rewrite up_spec; destruct (spec_up f); reflexivity|].
  destruct (w =? 1); [rewrite uv_spec; destruct (spec_uv f); reflexivity|].
  rewrite backup_spec; destruct (spec_backup f); reflexivity.
Qed.

Lemma mon_type : forall c ty, mon_call (TypeChk ty) (run_call c (TypeChk ty)) = true.
Proof.
  intros c ty. cbn [mon_call run_call]. rewrite validate_type_spec, spec_type_eq.
  destruct (eqb_bytes ty WEBAUTHN_GET); reflexivity.
Qed.

Lemma mon_challenge : forall c ch p, bytes_ok p = true ->
  mon_call (Challenge ch p) (run_call c (Challenge ch p)) = true.
Proof.
  intros c ch p Hb. cbn [mon_call run_call]. rewrite Hb. cbn [andb].
  rewrite validate_challenge_spec by exact Hb.
  destruct (Z.eqb_spec (len p) 32) as [E|E].
  - unfold challenge_ok, spec_challenge_exact. rewrite (firstn_exact _ E), E. cbn [Z.leb Z.eqb andb].
    change (32 <=? 32) with true. change (32 =? 32) with true. cbn [andb].
    destruct (eqb_bytes ch (rfc4648_url_nopad p)); reflexivity.
  - change (spec_challenge_prefix ch p) with (challenge_ok ch p). destruct (challenge_ok ch p); reflexivity.
Qed.

Lemma verdict_model : forall a pre (acc : bool),
  (if len (a_payload a) =? 32 then acc = (pre && spec_wa_accept a) else acc = (pre && spec_wa_accept_prefix a)) ->
  wa_expect_wf a pre = true ->
  wa_verdict a pre (lift OBool (if acc then Ok true else Fail)) = true /\
  expect_ok (a_expect a) (lift OBool (if acc then Ok true else Fail)) = true.
Proof.
  intros a pre acc H We. unfold wa_verdict, wa_expect_wf in *.
  destruct (len (a_payload a) =? 32); subst acc.
  - destruct (pre && spec_wa_accept a); destruct (a_expect a) as [[|]|]; cbn in *; auto; discriminate.
  - destruct (pre && spec_wa_accept_prefix a); destruct (a_expect a) as [[|]|]; cbn in *; auto; discriminate.
Qed.

Lemma mon_walib : forall c a, cfg_ok c = true -> wf_call (WaLib a) = true ->
  mon_call (WaLib a) (run_call c (WaLib a)) = true.
Proof.
  intros c a Hc W. cbn [wf_call] in W. apply andb_true_iff in W. destruct W as [W We].
  cbn [mon_call run_call]. rewrite W. cbn [andb].
  apply andb_true_iff in W. destruct W as [W _]. apply andb_true_iff in W. destruct W as [W _].
  apply andb_true_iff in W. destruct W as [Wp Wa].
  rewrite wa_decide_spec by exact Wp. rewrite <- (spec_prefix_eq c a Hc Wa).
  destruct (verdict_model a true (spec_wa_accept_prefix a)) as [V X]; [|exact We|].
  - destruct (Z.eqb_spec (len (a_payload a)) 32) as [E|E]; cbn [andb]; [rewrite spec_exact_eq by exact E|]; reflexivity.
  - rewrite V, X. reflexivity.
Qed.

Lemma mon_waex : forall c kd sd d a, cfg_ok c = true -> wf_call (WaEx kd sd d a) = true ->
  mon_call (WaEx kd sd d a) (run_call c (WaEx kd sd d a)) = true.
Proof.
  intros c kd sd d a Hc W. cbn [wf_call] in W. apply andb_true_iff in W. destruct W as [W We].
  cbn [mon_call run_call]. rewrite W. cbn [andb].
  apply andb_true_iff in W. destruct W as [W _]. apply andb_true_iff in W. destruct W as [W _].
  apply andb_true_iff in W. destruct W as [W _]. apply andb_true_iff in W. destruct W as [W _].
  apply andb_true_iff in W. destruct W as [Wp Wa].
  rewrite wa_contract_decide_unfold.
  set (pre := d && (65 <=? len kd)) in *.
  assert (R : (match (if d then Some (a_sig a, a_ad a, a_cd a) else None) with
               | None => Fail
               | Some (_, ad, cd) => if 65 <=? len kd then wa_decide c (a_payload a) ad cd (a_parsed a) (a_sigok a) else Fail
               end) = if pre && spec_wa_accept_prefix a then Ok true else Fail).
  { unfold pre. destruct d; cbn [andb]; [|reflexivity].
    destruct (65 <=? len kd); cbn [andb]; [|reflexivity].
    rewrite wa_decide_spec by exact Wp. rewrite <- (spec_prefix_eq c a Hc Wa). reflexivity. }
  rewrite R.
  destruct (verdict_model a pre (pre && spec_wa_accept_prefix a)) as [V X]; [|exact We|].
  - destruct (Z.eqb_spec (len (a_payload a)) 32) as [E|E]; [rewrite spec_exact_eq by exact E|]; reflexivity.
  - rewrite V, X. reflexivity.
Qed.

Lemma mon_ed : forall key sig sigok e, ed_sizes_ok key sig sigok && expect_agrees e sigok = true ->
  ed_sizes_ok key sig sigok
  && verdict_shape (lift OBool (ed_decide sigok)) && Bool.eqb (is_accept (lift OBool (ed_decide sigok))) sigok
  && expect_ok e (lift OBool (ed_decide sigok)) = true.
Proof.
  intros key sig sigok e H. apply andb_true_iff in H. destruct H as [H1 H2]. rewrite H1.
  destruct sigok, e as [[|]|]; cbn in *; congruence.
Qed.

Lemma mon_ok_model : forall c k, cfg_ok c = true -> wf_call k = true -> mon_ok (model_obs c k) = true.
Proof.
  intros c k Hc W. unfold mon_ok, model_obs. cbn [fst snd].
  destruct k as [d src|dst src|n sb eb data|f|w f|ty|ch p|a|kd sd d a|p k s so e|p k s so e|w sh].
  - apply mon_b64; assumption.
  - apply mon_b64f; assumption.
  - apply mon_extract. exact W.
  - apply mon_flags. exact W.
  - apply mon_flagone. exact W.
  - apply mon_type.
  - apply mon_challenge. exact W.
  - apply mon_walib; assumption.
  - apply mon_waex; assumption.
  - cbn [mon_call run_call]. apply mon_ed. exact W.
  - cbn [mon_call run_call]. apply mon_ed. exact W.
  - reflexivity.
Qed.

Lemma first_false_all : forall (A : Type) (f : A -> bool) l i,
  (forall x, In x l -> f x = true) -> first_false f l i = 0%N.
Proof.
  intros A f l. induction l as [|x r IH]; intros i H; [reflexivity|].
  cbn [first_false]. rewrite (H x (or_introl eq_refl)). apply IH. intros y Hy. apply H. right. exact Hy.
Qed.

Lemma mon_from_model : forall c cs seen i, cfg_ok c = true -> wf_calls seen cs = true ->
  mon_from c seen (map (model_obs c) cs) i = 0%N.
Proof.
  intros c cs. induction cs as [|k r IH]; intros seen i Hc W; [reflexivity|].
  cbn [wf_calls] in W. apply andb_true_iff in W. destruct W as [W Wr]. apply andb_true_iff in W. destruct W as [Wk Wc].
  cbn [map mon_from]. rewrite Hc, (mon_ok_model c k Hc Wk). cbn [model_obs fst andb]. rewrite Wc.
  apply IH; assumption.
Qed.

Theorem check_accepts_model : forall (c : cfg) (cs : list call),
  wf_trace c cs = true -> check (c, map (model_obs c) cs) = (0%N, 0%N, 0%N).
Proof.
  intros c cs W. unfold wf_trace in W. apply andb_true_iff in W. destruct W as [Hc W]. unfold check.
  rewrite (mon_from_model c cs [] 0%N Hc W).
  rewrite first_false_all; [reflexivity|].
  intros x Hx. apply in_map_iff in Hx. destruct Hx as (k & <- & Hk). apply step_ok_model.
Qed.
