(* C18 - the monitor accepts every run of the model; model vs model has no diff. *)
From SC Require Import Lib.Prelude Lib.Int Model.Base64 Model.Verifiers Proofs.Base64 Proofs.Verifiers Run.C18.

Lemma eqb_out_refl : forall o, eqb_out o o = true.
Proof.
  destruct o as [|b|l|[l|]]; cbn [eqb_out]; try reflexivity.
  - destruct b; reflexivity.
  - apply eqb_bytes_refl.
  - apply eqb_bytes_refl.
Qed.
Lemma eqb_outcome_refl : forall o, eqb_outcome o o = true.
Proof. destruct o; cbn [eqb_outcome]; [apply eqb_out_refl | reflexivity]. Qed.

Lemma step_ok_model : forall c k, step_ok c (model_obs c k) = true.
Proof. intros. unfold step_ok, model_obs. cbn [fst snd]. apply eqb_outcome_refl. Qed.

Lemma spec_type_eq : spec_type = WEBAUTHN_GET.
Proof. reflexivity. Qed.

Lemma spec_wa_accept_eq : forall c a,
  spec_wa_accept c a = wa_accept c (a_payload a) (a_ad a) (a_cd a) (a_parsed a) (a_sigok a).
Proof. intros. unfold spec_wa_accept, wa_accept. rewrite spec_type_eq. reflexivity. Qed.

Lemma skipn_repeat : forall (x : Z) k m, skipn k (repeat x m) = repeat x (m - k).
Proof.
  induction k as [|k IH]; intros m.
  - rewrite Nat.sub_0_r. reflexivity.
  - destruct m as [|m]; [reflexivity|]. cbn [repeat skipn Nat.sub]. apply IH.
Qed.

Lemma enc_len_nonneg : forall n, 0 <= n -> 0 <= enc_len n.
Proof. intros n H. unfold enc_len. Z.div_mod_to_equations. lia. Qed.

Lemma mon_b64 : forall c dst_len src, 0 <= dst_len -> bytes_ok src = true ->
  mon_call c (B64 dst_len src) (run_call c (B64 dst_len src)) = true.
Proof.
  intros c d src Hd Hb. cbn [mon_call run_call]. rewrite base64_url_encode_is_encode_into, encode_into_spec.
  rewrite repeat_length. rewrite encode_length_nat. fold (len src).
  set (n := enc_len (len src)).
  assert (Hn : 0 <= n) by (apply enc_len_nonneg, len_nonneg).
  destruct (Z.leb_spec n d) as [L|L].
  - replace (Z.to_nat n <=? Z.to_nat d)%nat with true by (symmetry; apply Nat.leb_le; lia).
    cbn [lift bind]. rewrite skipn_repeat. rewrite encode_is_rfc4648 by exact Hb.
    replace (Z.to_nat d - Z.to_nat n)%nat with (Z.to_nat (d - n)) by lia.
    apply eqb_bytes_refl.
  - replace (Z.to_nat n <=? Z.to_nat d)%nat with false by (symmetry; apply Nat.leb_gt; lia).
    reflexivity.
Qed.

Lemma mon_extract : forall c n sb eb data,
  mon_call c (Extract n sb eb data) (run_call c (Extract n sb eb data)) = true.
Proof.
  intros c n sb eb data. cbn [mon_call run_call].
  destruct sb as [|s|s]; try reflexivity. destruct eb as [|e|e]; try reflexivity.
  destruct ((0 <=? s) && (s <=? e) && (e <=? MAXU32)) eqn:G; [|reflexivity].
  apply andb_true_iff in G. destruct G as [G G3]. apply andb_true_iff in G. destruct G as [G1 G2].
  apply Z.leb_le in G1, G2, G3.
  rewrite extract_range by assumption. cbn [lift bind].
  destruct ((e <=? len data) && (e - s =? n)); [apply eqb_bytes_refl | reflexivity].
Qed.

Lemma mon_flags : forall c f, mon_call c (Flags f) (run_call c (Flags f)) = true.
Proof.
  intros c f. cbn [mon_call run_call]. rewrite flag_validators.
  change (spec_flags_ok f) with (flags_ok f). destruct (flags_ok f); reflexivity.
Qed.

Lemma mon_type : forall c ty, mon_call c (TypeChk ty) (run_call c (TypeChk ty)) = true.
Proof.
  intros c ty. cbn [mon_call run_call]. rewrite validate_type_spec, spec_type_eq.
  destruct (eqb_bytes ty WEBAUTHN_GET); reflexivity.
Qed.

Lemma mon_challenge : forall c ch p, bytes_ok p = true ->
  mon_call c (Challenge ch p) (run_call c (Challenge ch p)) = true.
Proof.
  intros c ch p Hb. cbn [mon_call run_call]. rewrite validate_challenge_spec by exact Hb.
  change (spec_challenge_ok ch p) with (challenge_ok ch p). destruct (challenge_ok ch p); reflexivity.
Qed.

Lemma expect_model : forall e b,
  expect_agrees e b = true -> expect_ok e (lift OBool (if b then Ok true else Fail)) = true.
Proof. intros [[|]|] [|]; cbn; congruence. Qed.

Lemma mon_walib : forall c a, wf_call c (WaLib a) = true ->
  mon_call c (WaLib a) (run_call c (WaLib a)) = true.
Proof.
  intros c a W. cbn [wf_call] in W. apply andb_true_iff in W. destruct W as [W We].
  apply andb_true_iff in W. destruct W as [Wp _].
  cbn [mon_call run_call]. rewrite wa_decide_spec by exact Wp. rewrite <- spec_wa_accept_eq.
  rewrite (expect_model _ _ We). destruct (spec_wa_accept c a); reflexivity.
Qed.

Lemma mon_waex : forall c kd d a, wf_call c (WaEx kd d a) = true ->
  mon_call c (WaEx kd d a) (run_call c (WaEx kd d a)) = true.
Proof.
  intros c kd d a W. cbn [wf_call] in W. apply andb_true_iff in W. destruct W as [W We].
  apply andb_true_iff in W. destruct W as [W Wk]. apply andb_true_iff in W. destruct W as [Wp _].
  cbn [mon_call run_call]. rewrite wa_contract_decide_unfold.
  destruct d; cbn [andb] in *.
  - destruct (65 <=? len kd); cbn [andb negb orb] in *.
    + rewrite Wk. cbn [andb]. rewrite wa_decide_spec by exact Wp. rewrite <- spec_wa_accept_eq.
      rewrite (expect_model _ _ We). destruct (spec_wa_accept c a); reflexivity.
    + rewrite (expect_model _ false We). reflexivity.
  - rewrite (expect_model _ false We). reflexivity.
Qed.

Lemma mon_ed : forall sigok e, expect_agrees e sigok = true ->
  verdict_shape (lift OBool (ed_decide sigok)) && Bool.eqb (is_accept (lift OBool (ed_decide sigok))) sigok
  && expect_ok e (lift OBool (ed_decide sigok)) = true.
Proof. intros [|] [[|]|]; cbn; congruence. Qed.

Lemma mon_ok_model : forall c k, wf_call c k = true -> mon_ok c (model_obs c k) = true.
Proof.
  intros c k W. unfold mon_ok, model_obs. cbn [fst snd].
  destruct k as [d src|n sb eb data|f|ty|ch p|a|kd d a|p k s so e|p k s so e].
  - cbn [wf_call] in W. apply andb_true_iff in W. destruct W as [W1 W2]. apply Z.leb_le in W1.
    apply mon_b64; assumption.
  - apply mon_extract.
  - apply mon_flags.
  - apply mon_type.
  - apply mon_challenge. exact W.
  - apply mon_walib. exact W.
  - apply mon_waex. exact W.
  - cbn [mon_call run_call]. apply mon_ed. exact W.
  - cbn [mon_call run_call]. apply mon_ed. exact W.
Qed.

Lemma first_false_all : forall (A : Type) (f : A -> bool) l i,
  (forall x, In x l -> f x = true) -> first_false f l i = 0%N.
Proof.
  intros A f l. induction l as [|x r IH]; intros i H; [reflexivity|].
  cbn [first_false]. rewrite (H x (or_introl eq_refl)). apply IH. intros y Hy. apply H. right. exact Hy.
Qed.

Theorem check_accepts_model : forall (c : cfg) (cs : list call),
  forallb (wf_call c) cs = true -> check (c, map (model_obs c) cs) = (0%N, 0%N, 0%N).
Proof.
  intros c cs W. unfold check. rewrite forallb_forall in W.
  rewrite !first_false_all; [reflexivity | |].
  - intros x Hx. apply in_map_iff in Hx. destruct Hx as (k & <- & Hk). apply mon_ok_model. apply W. exact Hk.
  - intros x Hx. apply in_map_iff in Hx. destruct Hx as (k & <- & Hk). apply step_ok_model.
Qed.
