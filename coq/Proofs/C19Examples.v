(* C19: a concrete world and hand-tampered traces, used by the Examples of Properties/C19.v
   (non-vacuity of the theorems; the monitor rejects bad traces). *)
From SC Require Import Lib.Prelude Lib.Int Lib.Host Model.FeeForwarder Run.C19.

(* addresses: 0 permissioned forwarder, 1 permissionless forwarder, 2 / 3 fee tokens, 5 target,
   7 user, 9 relayer (executor), 11 manager *)
Definition ex_cfg : cfg :=
  Cf 1 1000 100 0%N 1%N [9%N] [11%N] [2%N] [5%N] [7%N; 9%N; 0%N; 1%N] [7%N; 9%N] [0%N; 1%N] [2%N; 3%N].
(* the same world, but the header does not list the user among the allowance owners / lists nothing *)
Definition ex_cfg_noowner : cfg :=
  Cf 1 1000 100 0%N 1%N [9%N] [11%N] [2%N] [5%N] [7%N; 9%N; 0%N; 1%N] [] [0%N; 1%N] [2%N; 3%N].
Definition ex_cfg_empty : cfg := Cf 1 1000 100 0%N 1%N [9%N] [11%N] [2%N] [5%N] [] [] [] [].

Definition ex_auth (F : addr) (fee max exp : Z) (v : Z) : list entry :=
  [En 9%N (Fn F F_FORWARD (forward_args 2%N fee max exp 5%N F_HIT [AI v] 7%N 9%N)) [];
   En 7%N (Fn F F_FORWARD (user_args 2%N max exp 5%N F_HIT [AI v]))
          [Fn 2%N F_APPROVE (approve_args 7%N F max exp)]].
Definition ex_auth_g (F : addr) (fee max exp : Z) (fn : N) (args : list atom) : list entry :=
  [En 9%N (Fn F F_FORWARD (forward_args 2%N fee max exp 5%N fn args 7%N 9%N)) [];
   En 7%N (Fn F F_FORWARD (user_args 2%N max exp 5%N fn args))
          [Fn 2%N F_APPROVE (approve_args 7%N F max exp)]].
(* the target, from inside the forwarded call, tries to pull the user's remaining allowance
   (max - fee = 25, granted to the permissionless forwarder 1) over to address 0 *)
Definition ex_pull (sw : Z) : list atom := [AA 2%N; AA 1%N; AA 7%N; AA 0%N; AI 25; AI sw].
Definition ex_mgr (f : N) (tok : addr) : list entry := [En 11%N (Fn 0%N f [VA tok; VA 11%N]) []].

Definition ex_calls : list call :=
  [ Mint 2%N 7%N 1000;
    Forward Permissionless 2%N 60 100 120 5%N F_HIT [AI 11] 7%N 9%N (ex_auth 1%N 60 100 120 11);
    SetTok true 2%N 11%N (ex_mgr F_ENABLE 2%N);
    Forward Permissioned 2%N 10 20 130 5%N F_HIT [AI 3] 7%N 9%N (ex_auth 0%N 10 20 130 3);
    Forward Permissioned 2%N 21 20 130 5%N F_HIT [AI 3] 7%N 9%N (ex_auth 0%N 21 20 130 3);
    SetTok true 3%N 11%N (ex_mgr F_ENABLE 3%N);
    SetTok false 2%N 11%N (ex_mgr F_DISABLE 2%N);
    Forward Permissioned 2%N 5 10 130 5%N F_HIT [AI 4] 7%N 9%N (ex_auth 0%N 5 10 130 4);
    Advance 50;
    Forward Permissionless 2%N 5 30 200 5%N F_PULL (ex_pull 1) 7%N 9%N (ex_auth_g 1%N 5 30 200 F_PULL (ex_pull 1));
    Forward Permissionless 2%N 5 30 200 5%N F_PULL (ex_pull 0) 7%N 9%N (ex_auth_g 1%N 5 30 200 F_PULL (ex_pull 0));
    (* 11-13: re-list token 2, a long allowance, then a LAZY forward that finds it sufficient (no approval,
       no approve sub-invocation) and whose target requires the user's authorisation (auth_hit) *)
    SetTok true 2%N 11%N (ex_mgr F_ENABLE 2%N);
    Approve 2%N 7%N 0%N 500 400 [En 7%N (Fn 2%N F_APPROVE (approve_args 7%N 0%N 500 400)) []];
    Forward Permissioned 2%N 7 50 300 5%N F_AUTH [AA 7%N; AI 5] 7%N 9%N
      [En 9%N (Fn 0%N F_FORWARD (forward_args 2%N 7 50 300 5%N F_AUTH [AA 7%N; AI 5] 7%N 9%N)) [];
       En 7%N (Fn 0%N F_FORWARD (user_args 2%N 50 300 5%N F_AUTH [AA 7%N; AI 5])) [Fn 5%N F_AUTH [VA 7%N; VI 5]]];
    (* 14: the manager sweeps the collected fees *)
    Sweep 2%N 9%N 11%N [En 11%N (Fn 0%N F_SWEEP [VA 2%N; VA 9%N; VA 11%N]) []];
    (* 15: user = relayer (two entries signed by the same account) *)
    Forward Permissionless 2%N 3 3 300 5%N F_HIT [AI 8] 9%N 9%N
      [En 9%N (Fn 1%N F_FORWARD (forward_args 2%N 3 3 300 5%N F_HIT [AI 8] 9%N 9%N)) [];
       En 9%N (Fn 1%N F_FORWARD (user_args 2%N 3 300 5%N F_HIT [AI 8])) [Fn 2%N F_APPROVE (approve_args 9%N 1%N 3 300)]];
    (* 16: the TARGET IS THE FEE TOKEN: the user signs forward(.., target = token, transfer_from,
       (forwarder, user, 0, 25)): the forwarder itself moves the residual allowance max - fee = 25 *)
    Forward Permissionless 2%N 5 30 300 2%N F_TRANSFER_FROM [AA 1%N; AA 7%N; AA 0%N; AI 25] 7%N 9%N
      [En 9%N (Fn 1%N F_FORWARD (forward_args 2%N 5 30 300 2%N F_TRANSFER_FROM [AA 1%N; AA 7%N; AA 0%N; AI 25] 7%N 9%N)) [];
       En 7%N (Fn 1%N F_FORWARD (user_args 2%N 30 300 2%N F_TRANSFER_FROM [AA 1%N; AA 7%N; AA 0%N; AI 25]))
              [Fn 2%N F_APPROVE (approve_args 7%N 1%N 30 300)]] ].

Definition ex_trace : trace := observe_model ex_cfg ex_calls.
Definition outcomes (t : trace) : list (res Z) := map (fun it : item => snd (fst it)) (snd t).

(* ---- tampering ---- *)
Fixpoint upd_nth {A} (n : nat) (f : A -> A) (l : list A) : list A :=
  match l, n with
  | [], _ => []
  | x :: r, O => f x :: r
  | x :: r, S n' => x :: upd_nth n' f r
  end.
Definition tamper (n : nat) (f : item -> item) (t : trace) : trace :=
  (fst t, upd_nth n f (snd t)).
Definition on_obs (g : obs -> obs) (it : item) : item := (fst it, g (snd it)).
Definition on_call (g : call -> call) (it : item) : item := (g (fst (fst it)), snd (fst it), snd it).
Definition on_out (r : res Z) (it : item) : item := (fst (fst it), r, snd it).

Definition set_toks (g : list tokobs -> list tokobs) (o : obs) : obs :=
  Ob (o_now o) (g (o_toks o)) (o_count o) (o_enum o) (o_past o) (o_idx o) (o_allowed o) (o_flcount o) (o_logs o) (o_exec o) (o_mgr o).
Definition set_logs (g : list (list logent) -> list (list logent)) (o : obs) : obs :=
  Ob (o_now o) (o_toks o) (o_count o) (o_enum o) (o_past o) (o_idx o) (o_allowed o) (o_flcount o) (g (o_logs o)) (o_exec o) (o_mgr o).
Definition set_enum (cnt : N) (en : list (option addr)) (o : obs) : obs :=
  Ob (o_now o) (o_toks o) cnt en (o_past o) (o_idx o) (o_allowed o) (o_flcount o) (o_logs o) (o_exec o) (o_mgr o).
Definition set_exec (ex : list bool) (o : obs) : obs :=
  Ob (o_now o) (o_toks o) (o_count o) (o_enum o) (o_past o) (o_idx o) (o_allowed o) (o_flcount o) (o_logs o) ex (o_mgr o).
Definition set_allowed_obs (al : list bool) (o : obs) : obs :=
  Ob (o_now o) (o_toks o) (o_count o) (o_enum o) (o_past o) (o_idx o) al (o_flcount o) (o_logs o) (o_exec o) (o_mgr o).

(* holder k of token 0 gets d more *)
Definition bump_bal (k : nat) (d : Z) : obs -> obs :=
  set_toks (upd_nth 0 (fun t => TO (ob_total t) (upd_nth k (fun x => x + d) (ob_bal t)) (ob_alw t))).
(* allowance cell (owner 0, spender s) of token 0 replaced *)
Definition put_alw (s : nat) (v : Z * Z) : obs -> obs :=
  set_toks (upd_nth 0 (fun t => TO (ob_total t) (ob_bal t) (upd_nth 0 (upd_nth s (fun _ => v)) (ob_alw t)))).

(* the pull is logged as having gone through *)
Definition pull_went_through : obs -> obs :=
  set_logs (upd_nth 0 (fun l => removelast l ++ [(F_PULL, ex_pull 1 ++ [AI 1])])).

Definition drop_user_entry (cl : call) : call :=
  match cl with
  | Forward k tok fee max exp tg fn args user relayer au =>
      Forward k tok fee max exp tg fn args user relayer (filter (fun e => negb (N.eqb (en_who e) user)) au)
  | _ => cl
  end.
Definition map_user_root (g : list val -> list val) (cl : call) : call :=
  match cl with
  | Forward k tok fee max exp tg fn args user relayer au =>
      Forward k tok fee max exp tg fn args user relayer
        (map (fun e => if N.eqb (en_who e) user
                       then En (en_who e) (Fn (f_contract (en_root e)) (f_name (en_root e)) (g (f_args (en_root e)))) (en_subs e)
                       else e) au)
  | _ => cl
  end.
(* the approve hangs as a separate ROOT entry of the user instead of under the forward tree *)
Definition approve_as_root (cl : call) : call :=
  match cl with
  | Forward k tok fee max exp tg fn args user relayer au =>
      Forward k tok fee max exp tg fn args user relayer
        (map (fun e => En (en_who e) (en_root e) []) au
         ++ flat_map (fun e => map (fun s => En (en_who e) s []) (en_subs e)) au)
  | _ => cl
  end.
Definition drop_subs (cl : call) : call :=
  match cl with
  | Forward k tok fee max exp tg fn args user relayer au =>
      Forward k tok fee max exp tg fn args user relayer (map (fun e => En (en_who e) (en_root e) []) au)
  | _ => cl
  end.
Definition set_fee (fee' : Z) (cl : call) : call :=
  match cl with
  | Forward k tok fee max exp tg fn args user relayer au => Forward k tok fee' max exp tg fn args user relayer au
  | _ => cl
  end.
