(* C17: the Hasher-level transcription (Model/Merkle.v Part 1b: sha256.rs / keccak.rs update and
   finalize, hashable.rs hash_pair / commutative_hash_pair, the loops of merkle.rs) never traps on
   the paths the library uses and computes exactly the functions of Part 1 for
   H a b := hashfn (bytes a ++ bytes b); that H is injective when hashfn is and the concatenation
   of two 32-byte blocks determines the blocks. *)
From SC Require Import Lib.Prelude Lib.Int Lib.Host Model.Merkle.

Section HasherRefines.
  Variable B : Type.
  Variable D : Type.
  Variable bapp : B -> B -> B.
  Variable hashfn : B -> D.
  Variable bytes_of : D -> B.
  Variable deqb : D -> D -> bool.
  Variable gtb : D -> D -> bool.

  Notation Hf := (H_of bapp hashfn bytes_of).

  (* HasherEmptyState is unreachable: every finalize follows an update *)
  Lemma hash_pair_h_ok a b : hash_pair_h bapp hashfn bytes_of a b = Ok (Hf a b).
  Proof. reflexivity. Qed.

  Lemma commutative_hash_pair_h_ok a b :
    commutative_hash_pair_h bapp hashfn bytes_of gtb a b = Ok (cpair Hf gtb a b).
  Proof. unfold commutative_hash_pair_h, cpair. destruct (gtb a b); reflexivity. Qed.

  Lemma leaf_hash_h_ok x : leaf_hash_h bapp hashfn x = Ok (hashfn x).
  Proof. reflexivity. Qed.

  Lemma climb_h_ok : forall proof leaf,
    climb_h bapp hashfn bytes_of gtb leaf proof = Ok (climb Hf gtb leaf proof).
  Proof.
    induction proof as [|h p IH]; intros leaf; [reflexivity|].
    cbn [climb_h]. rewrite commutative_hash_pair_h_ok. cbn [bind]. rewrite IH. reflexivity.
  Qed.

  Theorem verify_h_refines : forall proof root leaf,
    verify_h bapp hashfn bytes_of deqb gtb proof root leaf = Ok (verify deqb Hf gtb proof root leaf).
  Proof. intros. unfold verify_h. rewrite climb_h_ok. reflexivity. Qed.

  Lemma iclimb_cons_h v i h p : iclimb Hf v i (h :: p) =
    iclimb Hf (if Z.even i then Hf v h else Hf h v) (i / 2) p.
  Proof. reflexivity. Qed.

  Lemma iclimb_h_ok : forall proof leaf index,
    iclimb_h bapp hashfn bytes_of leaf index proof = Ok (iclimb Hf leaf index proof).
  Proof.
    induction proof as [|h p IH]; intros leaf index; [reflexivity|].
    cbn [iclimb_h]. rewrite iclimb_cons_h.
    destruct (Z.even index); rewrite hash_pair_h_ok; cbn [bind]; apply IH.
  Qed.

  Theorem verify_with_index_h_refines : forall proof root leaf index,
    verify_with_index_h bapp hashfn bytes_of deqb proof root leaf index
    = verify_with_index deqb Hf proof root leaf index.
  Proof.
    intros. unfold verify_with_index_h, verify_with_index.
    destruct (32 <=? Z.of_nat (length proof)); [reflexivity|].
    destruct (2 ^ Z.of_nat (length proof) <=? index); [reflexivity|].
    rewrite iclimb_h_ok. reflexivity.
  Qed.

  (* injectivity of the pair hash from injectivity of the byte-string hash *)
  Hypothesis hashfn_inj : forall x y, hashfn x = hashfn y -> x = y.
  Hypothesis blocks_inj : forall a b c d,
    bapp (bytes_of a) (bytes_of b) = bapp (bytes_of c) (bytes_of d) -> a = c /\ b = d.

  Theorem H_of_inj : forall a b c d, Hf a b = Hf c d -> a = c /\ b = d.
  Proof. intros a b c d E. apply blocks_inj. apply hashfn_inj. exact E. Qed.
End HasherRefines.

(* the executable instance: byte strings are sequences of 32-byte blocks *)
Lemma H_of_tab : forall t a b, H_of (@app dg) (hashfn_tab t) (fun d => [d]) a b = Htab t a b.
Proof. reflexivity. Qed.

Lemma blocks_inj_list : forall a b c d : dg, [a] ++ [b] = [c] ++ [d] -> a = c /\ b = d.
Proof. intros a b c d E. inversion E. auto. Qed.
