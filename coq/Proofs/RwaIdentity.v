(* C04, identity-verifier layer: verify_identity succeeds exactly for verified accounts; monitor
   accepts model. *)
From SC Require Import Lib.Prelude Lib.Int Lib.Host Model.RwaIdentity Run.C04Identity.

(* an entry of the issuers' log produced while checking [topic] for identity [idn] *)
Definition entry_ok (idn : addr) (topic : Z) (issuers : list addr) (e : addr * addr * Z) : Prop :=
  let '(i, idn', t) := e in idn' = idn /\ t = topic /\ In i issuers.

Lemma issuers_loop_spec cl idn topic : forall issuers lg, issuers <> [] ->
  is_ok (issuers_loop cl idn topic issuers lg) = existsb (fun i => holds_valid cl i topic) issuers /\
  forall lg', issuers_loop cl idn topic issuers lg = Ok lg' ->
    exists ext, lg' = lg ++ ext /\ Forall (entry_ok idn topic issuers) ext.
Proof.
  induction issuers as [|i r IH]; intros lg Hne; [congruence|].
  cbn [issuers_loop existsb]. unfold holds_valid at 1.
  assert (Hw : forall ext, Forall (entry_ok idn topic r) ext -> Forall (entry_ok idn topic (i :: r)) ext).
  { intros ext. apply Forall_impl. intros [[a b] t] (A & B & C). repeat split; auto. right. exact C. }
  destruct (find_claim cl i topic) as [c|] eqn:F.
  - destruct (fields_match c topic i && c_valid c) eqn:M.
    + split; [reflexivity|]. intros lg' [= <-]. exists [(i, idn, topic)]. split; auto.
      constructor; [|constructor]. repeat split; auto. left. reflexivity.
    + destruct r as [|j r'].
      { split; [reflexivity|]. discriminate. }
      destruct (IH lg ltac:(discriminate)) as [A B]. split; [exact A|].
      intros lg' H. destruct (B lg' H) as (ext & -> & Fa). exists ext. split; auto.
  - destruct r as [|j r'].
    { split; [reflexivity|]. discriminate. }
    destruct (IH lg ltac:(discriminate)) as [A B]. split; [exact A|].
    intros lg' H. destruct (B lg' H) as (ext & -> & Fa). exists ext. split; auto.
Qed.

(* an entry of the log of a whole verification of identity [idn] against the topic table [ts] *)
Definition entry_ok_ts (idn : addr) (ts : list (Z * list addr)) (e : addr * addr * Z) : Prop :=
  let '(i, idn', t) := e in idn' = idn /\ exists issuers, In (t, issuers) ts /\ In i issuers.

Lemma topics_loop_spec cl idn : forall ts lg,
  is_ok (topics_loop cl idn ts lg) = forallb (topic_satisfied cl) ts /\
  forall lg', topics_loop cl idn ts lg = Ok lg' ->
    exists ext, lg' = lg ++ ext /\ Forall (entry_ok_ts idn ts) ext.
Proof.
  induction ts as [|[topic issuers] r IH]; intros lg; cbn [topics_loop forallb].
  - split; [reflexivity|]. intros lg' [= <-]. exists []. rewrite app_nil_r. auto.
  - unfold topic_satisfied at 1. cbn [fst snd].
    assert (Hw : forall ext, Forall (entry_ok_ts idn r) ext -> Forall (entry_ok_ts idn ((topic, issuers) :: r)) ext).
    { intros ext. apply Forall_impl. intros [[a b] t] (A & iss & B & C). split; auto. exists iss. split; auto. right. exact B. }
    destruct issuers as [|i0 iss].
    + split; [reflexivity|]. discriminate.
    + destruct (issuers_loop_spec cl idn topic (i0 :: iss) lg ltac:(discriminate)) as [A B].
      rewrite <- A.
      destruct (issuers_loop cl idn topic (i0 :: iss) lg) as [lg1|] eqn:L; cbn [bind is_ok andb].
      * destruct (IH lg1) as [A' B']. split; [exact A'|].
        intros lg' H. destruct (B lg1 eq_refl) as (e1 & -> & F1). destruct (B' lg' H) as (e2 & -> & F2).
        exists (e1 ++ e2). split; [rewrite app_assoc; reflexivity|].
        apply Forall_app. split; [|apply Hw; exact F2].
        revert F1. apply Forall_impl. intros [[a b] t] (X & Y & Z). split; auto.
        exists (i0 :: iss). subst t. split; auto. left. reflexivity.
      * split; [reflexivity|]. discriminate.
Qed.

(* C04_identity_verified_iff *)
Theorem verify_iff : forall (w : iworld) (a : addr),
  is_ok (iverify_identity w a) = verified w a.
Proof.
  intros w a. unfold iverify_identity, verified.
  destruct (alist_get a (w_ident w)) as [idn|]; cbn [of_option bind is_ok]; [|reflexivity].
  apply topics_loop_spec.
Qed.

(* only trusted issuers are asked, and only about the account's identity *)
Theorem verify_asks_trusted : forall (w : iworld) (a : addr) (lg : ilog),
  iverify_identity w a = Ok lg ->
  exists idn, alist_get a (w_ident w) = Some idn /\
    Forall (fun e => let '(i, idn', t) := e in idn' = idn /\ exists issuers, In (t, issuers) (w_topics w) /\ In i issuers) lg.
Proof.
  intros w a lg. unfold iverify_identity.
  destruct (alist_get a (w_ident w)) as [idn|]; cbn [of_option bind]; [|discriminate].
  intros H. exists idn. split; auto.
  destruct (topics_loop_spec (claims_of w idn) idn (w_topics w) []) as [_ B].
  destruct (B lg H) as (ext & -> & Fa). exact Fa.
Qed.

(* ------------------------------------------------------------------ *)
Lemma eqb_oaddr_refl x : eqb_oaddr x x = true.
Proof. destruct x; cbn; auto. apply N.eqb_refl. Qed.
Lemma eqb_iout_refl x : eqb_iout x x = true.
Proof. destruct x as [[|t|a b]|]; cbn; auto; [apply eqb_oaddr_refl | rewrite !Bool.eqb_reflx; reflexivity]. Qed.
Lemma eqb_ilog_refl l : eqb_ilog l l = true.
Proof. induction l as [|[[a b] t] r IH]; cbn; auto. rewrite !N.eqb_refl, Z.eqb_refl, IH. reflexivity. Qed.

Lemma istep_ok_model c : istep_ok (imodel_item c) = true.
Proof.
  unfold istep_ok, imodel_item. destruct (istep c) as [o lg] eqn:E. cbn [ii_call ii_out ii_log]. rewrite E.
  rewrite eqb_iout_refl, eqb_ilog_refl. reflexivity.
Qed.

Lemma imon_step_model c : imon_step (imodel_item c) = true.
Proof.
  unfold imon_step, imodel_item, istep. destruct c as [[a|old| |n] w]; cbn [ic_op ic_world]; [| |reflexivity|reflexivity].
  - destruct (iverify_identity w a) as [lg|] eqn:V; cbn [ii_call ii_out ii_log ic_op ic_world]; [|reflexivity].
    pose proof (verify_iff w a) as I. rewrite V in I. cbn [is_ok] in I. rewrite <- I. cbn [andb].
    destruct (verify_asks_trusted w a lg V) as (idn & Hid & Fa). rewrite Hid.
    apply forallb_forall. intros [[i idn'] t] Hin. rewrite Forall_forall in Fa.
    destruct (Fa _ Hin) as (-> & iss & Ht & Hi). rewrite N.eqb_refl, andb_true_r.
    unfold trusted_for. apply existsb_exists. exists (t, iss). split; auto. cbn [fst snd].
    rewrite Z.eqb_refl. cbn [andb]. apply existsb_exists. exists i. split; auto. apply N.eqb_refl.
  - cbn [ii_call ii_out ii_log ic_op ic_world]. rewrite eqb_oaddr_refl. reflexivity.
Qed.

Lemma first_false_all {A} (f : A -> bool) l : (forall x, In x l -> f x = true) -> forall i, first_false f l i = 0%N.
Proof.
  induction l as [|x r IH]; intros H i; cbn [first_false]; auto.
  rewrite (H x (or_introl eq_refl)). apply IH. intros y Hy. apply H. right. exact Hy.
Qed.

Theorem check_identity_accepts_model : forall cs : list icall,
  check_identity (iobserve_model cs) = (0%N, 0%N, 0%N).
Proof.
  intros cs. unfold check_identity, iobserve_model. cbn [it_items].
  rewrite !first_false_all; auto.
  - intros x Hx. apply in_map_iff in Hx. destruct Hx as (c & <- & _). apply imon_step_model.
  - intros x Hx. apply in_map_iff in Hx. destruct Hx as (c & <- & _). apply istep_ok_model.
Qed.
